(* C16 - proofs: the line-by-line Streamix model refines the closed-form
   specification for every history (forward simulation), the same for
   ControlStream, and the user-visible corollaries. *)
From Coq Require Import List Bool ZArith QArith Qcanon Lia.
From AL Require Import Base.CaseLib C16.Model C16.Spec.
Import ListNotations.
Open Scope Qc_scope.

(* ------------------------------------------------------------------ *)
(* Integers inside Qc, and the ceiling                                  *)
(* ------------------------------------------------------------------ *)

Definition inj (n : Z) : Qc := Q2Qc (inject_Z n).

Lemma this_Q2Qc (q : Q) : this (Q2Qc q) = Qred q.
Proof. reflexivity. Qed.

Lemma inj_succ (n : Z) : inj (n + 1) = inj n + 1.
Proof.
  unfold inj, Qcplus. apply Q2Qc_eq_iff. rewrite !this_Q2Qc, !Qred_correct.
  rewrite inject_Z_plus. reflexivity.
Qed.

Lemma qceil_le (q : Qc) (n : Z) : (qceil q <= n)%Z <-> q <= inj n.
Proof.
  unfold qceil, inj, Qcle. rewrite this_Q2Qc, Qred_correct.
  destruct q as [[a b] Hq]. simpl. unfold Qle. simpl.
  split; intro H.
  - assert (H1 : (- n <= - a / Z.pos b)%Z) by lia.
    assert (H2 : (Z.pos b * (- a / Z.pos b) <= - a)%Z) by (apply Z.mul_div_le; lia).
    nia.
  - assert (H1 : (- n <= - a / Z.pos b)%Z) by (apply Z.div_le_lower_bound; lia).
    lia.
Qed.

Lemma qceil_upper (q : Qc) : q <= inj (qceil q).
Proof. apply qceil_le. lia. Qed.

Lemma qceil_mono (p q : Qc) : p <= q -> (qceil p <= qceil q)%Z.
Proof.
  intro H. apply qceil_le. apply Qcle_trans with q; [exact H|apply qceil_upper].
Qed.

(* the ceiling is the least integer above: inj (qceil q) - 1 < q *)
Lemma qceil_lower (q : Qc) : inj (qceil q) - 1 < q.
Proof.
  apply Qcnot_le_lt. intro H.
  assert (E : inj (qceil q) - 1 = inj (qceil q - 1)).
  { replace (qceil q) with ((qceil q - 1) + 1)%Z at 1 by lia. rewrite inj_succ. ring. }
  rewrite E in H. apply qceil_le in H. lia.
Qed.

Lemma Qc_le_shift (d c T h : Qc) : d <= c + h - T <-> T + d - h <= c.
Proof.
  rewrite (Qcle_minus_iff d), (Qcle_minus_iff (T + d - h)).
  replace (c + h - T + - d) with (c + - (T + d - h)) by ring. tauto.
Qed.

Lemma Qc_le_add_nonneg (T d : Qc) : 0 <= d -> T <= T + d.
Proof.
  intro H. apply Qcle_minus_iff. replace (T + d + - T) with d by ring. exact H.
Qed.

Lemma Qc_sub_le_mono (p q h : Qc) : p <= q -> p - h <= q - h.
Proof.
  intro H. apply Qcle_minus_iff. replace (q - h + - (p - h)) with (q + - p) by ring.
  apply (proj1 (Qcle_minus_iff p q)). exact H.
Qed.

(* ------------------------------------------------------------------ *)
(* Small list facts                                                     *)
(* ------------------------------------------------------------------ *)

Lemma skipn_hd {A} (l : list A) : forall k,
  match skipn k l with x :: _ => Some x | [] => None end = nth_error l k.
Proof.
  induction l as [|a l IH]; intros [|k]; simpl; try reflexivity. apply IH.
Qed.

Lemma skipn_S_tl {A} : forall k (l : list A) x r, skipn k l = x :: r -> skipn (S k) l = r.
Proof.
  induction k as [|k IH]; intros [|a l] x r H; simpl in *; try discriminate.
  - injection H as _ H. exact H.
  - apply IH with x. exact H.
Qed.

Lemma is_nil_app {A} (a b : list A) : is_nil (a ++ b) = is_nil a && is_nil b.
Proof. destruct a; reflexivity. Qed.

Section Mix.
Variable M : addable.

Lemma advance_app (a b : list (list M)) : advance (a ++ b) = advance a ++ advance b.
Proof. unfold advance. apply flat_map_app. Qed.

(* ------------------------------------------------------------------ *)
(* Cumulative deltas and [starts]                                       *)
(* ------------------------------------------------------------------ *)

Fixpoint sumd (l : list (event M)) : Qc :=
  match l with [] => 0 | e :: r => e_delta e + sumd r end.

Lemma sumd_app (a b : list (event M)) : sumd (a ++ b) = sumd a + sumd b.
Proof. induction a as [|e a IH]; simpl; [ring|]. rewrite IH. ring. Qed.

Lemma starts_from_app : forall a T b,
  starts_from T (a ++ b) = starts_from T a ++ starts_from (T + sumd a) b.
Proof.
  induction a as [|e a IH]; intros T b; simpl.
  - rewrite Qcplus_0_r. reflexivity.
  - rewrite IH, Qcplus_assoc. reflexivity.
Qed.

Lemma starts_app (a b : list (event M)) : starts (a ++ b) = starts a ++ starts_from (sumd a) b.
Proof. unfold starts. rewrite starts_from_app, Qcplus_0_l. reflexivity. Qed.

Lemma starts_from_snd : forall (w : list (event M)) T, map snd (starts_from T w) = map e_data w.
Proof. induction w as [|e w IH]; intro T; simpl; [reflexivity|]. rewrite IH. reflexivity. Qed.

Lemma starts_from_lb : forall (l : list (event M)) T0 T,
  T0 <= T -> Forall (fun e => 0 <= e_delta e) l ->
  Forall (fun sd => (qceil (T0 - half) <= fst sd)%Z) (starts_from T l).
Proof.
  induction l as [|e l IH]; intros T0 T HT Hd; simpl; constructor.
  - inversion Hd as [|? ? Hd1 Hd2]; subst. simpl.
    assert (H : (qceil (T0 - half) <= qceil (T + e_delta e - half))%Z).
    { apply qceil_mono, Qc_sub_le_mono. apply Qcle_trans with T; [exact HT|].
      apply Qc_le_add_nonneg. exact Hd1. }
    lia.
  - inversion Hd as [|? ? Hd1 Hd2]; subst. apply IH; [|exact Hd2].
    apply Qcle_trans with T; [exact HT|]. apply Qc_le_add_nonneg. exact Hd1.
Qed.

(* ------------------------------------------------------------------ *)
(* What a started event looks like in [playing] at round n              *)
(* ------------------------------------------------------------------ *)

(* An event started at s0 with data of length L sits in [playing] during the
   rounds s0 .. s0+L (in the last one as the exhausted []), as the suffix not
   yet consumed. *)
Definition live (n : Z) (sd : Z * list M) : list (list M) :=
  if (n <=? fst sd + Z.of_nat (length (snd sd)))%Z
  then [skipn (Z.to_nat (n - fst sd)) (snd sd)] else [].

Lemma live_heads (n : Z) (sd : Z * list M) (z : M) :
  (fst sd <= n)%Z ->
  fold_left (fun acc p => match p with x :: _ => madd M acc x | [] => acc end) (live n sd) z
  = match due n sd with Some x => madd M z x | None => z end.
Proof.
  destruct sd as [s0 data]. simpl fst. intro H. unfold live, due. simpl fst. simpl snd.
  replace (s0 <=? n)%Z with true by (symmetry; apply Z.leb_le; exact H).
  rewrite <- skipn_hd.
  destruct (n <=? s0 + Z.of_nat (length data))%Z eqn:E.
  - simpl. destruct (skipn (Z.to_nat (n - s0)) data); reflexivity.
  - apply Z.leb_gt in E. rewrite skipn_all2 by lia. reflexivity.
Qed.

Lemma live_advance (n : Z) (sd : Z * list M) :
  (fst sd <= n)%Z -> advance (live n sd) = live (n + 1) sd.
Proof.
  destruct sd as [s0 data]. simpl fst. intro H. unfold live. simpl fst. simpl snd.
  destruct (n <=? s0 + Z.of_nat (length data))%Z eqn:E1.
  - apply Z.leb_le in E1. unfold advance. simpl. rewrite app_nil_r.
    assert (Hl := skipn_length (Z.to_nat (n - s0)) data).
    destruct (skipn (Z.to_nat (n - s0)) data) as [|x r] eqn:Ek; simpl in Hl.
    + destruct (n + 1 <=? s0 + Z.of_nat (length data))%Z eqn:E2; [|reflexivity].
      apply Z.leb_le in E2. lia.
    + destruct (n + 1 <=? s0 + Z.of_nat (length data))%Z eqn:E2.
      * replace (Z.to_nat (n + 1 - s0)) with (S (Z.to_nat (n - s0))) by lia.
        rewrite (skipn_S_tl _ _ _ _ Ek). reflexivity.
      * apply Z.leb_gt in E2. lia.
  - apply Z.leb_gt in E1.
    destruct (n + 1 <=? s0 + Z.of_nat (length data))%Z eqn:E2; [|reflexivity].
    apply Z.leb_le in E2. lia.
Qed.

Lemma live_nil (n : Z) (sd : Z * list M) :
  is_nil (live (n + 1) sd) = (fst sd + Z.of_nat (length (snd sd)) <=? n)%Z.
Proof.
  unfold live.
  destruct (n + 1 <=? fst sd + Z.of_nat (length (snd sd)))%Z eqn:E1;
  destruct (fst sd + Z.of_nat (length (snd sd)) <=? n)%Z eqn:E2; simpl; try reflexivity;
  [apply Z.leb_le in E1; apply Z.leb_le in E2|apply Z.leb_gt in E1; apply Z.leb_gt in E2]; lia.
Qed.

Lemma sum_heads_live (n : Z) : forall (l : list (Z * list M)) z,
  Forall (fun sd => (fst sd <= n)%Z) l ->
  sum_heads z (flat_map (live n) l)
  = fold_left (fun acc sd => match due n sd with Some x => madd M acc x | None => acc end) l z.
Proof.
  unfold sum_heads.
  induction l as [|sd l IH]; intros z H; simpl; [reflexivity|].
  inversion H as [|? ? H1 H2]; subst.
  rewrite fold_left_app, live_heads by exact H1. apply IH. exact H2.
Qed.

Lemma fold_due_future (n : Z) : forall (l : list (Z * list M)) (z : M),
  Forall (fun sd => (n + 1 <= fst sd)%Z) l ->
  fold_left (fun acc sd => match due n sd with Some x => madd M acc x | None => acc end) l z = z.
Proof.
  induction l as [|sd l IH]; intros z H; simpl; [reflexivity|].
  inversion H as [|? ? H1 H2]; subst. destruct sd as [s0 data]. simpl in H1.
  unfold due at 2. replace (s0 <=? n)%Z with false by (symmetry; apply Z.leb_gt; lia).
  apply IH. exact H2.
Qed.

Lemma advance_live_all (n : Z) : forall l,
  Forall (fun sd => (fst sd <= n)%Z) l ->
  advance (flat_map (live n) l) = flat_map (live (n + 1)) l.
Proof.
  induction l as [|sd l IH]; intro H; simpl; [reflexivity|].
  inversion H as [|? ? H1 H2]; subst.
  rewrite advance_app, live_advance, IH by assumption. reflexivity.
Qed.

Lemma is_nil_live_all (n : Z) : forall (l : list (Z * list M)),
  is_nil (flat_map (live (n + 1)) l)
  = forallb (fun sd => (fst sd + Z.of_nat (length (snd sd)) <=? n)%Z) l.
Proof.
  induction l as [|sd l IH]; simpl; [reflexivity|].
  rewrite is_nil_app, live_nil, IH. reflexivity.
Qed.

Lemma live_at_start (n : Z) : forall l,
  Forall (fun sd => fst sd = n) l -> flat_map (live n) l = map snd l.
Proof.
  induction l as [|sd l IH]; intro H; simpl; [reflexivity|].
  inversion H as [|? ? H1 H2]; subst. rewrite IH by exact H2.
  destruct sd as [s0 data]. simpl. unfold live. simpl fst. simpl snd.
  replace (s0 <=? s0 + Z.of_nat (length data))%Z with true by (symmetry; apply Z.leb_le; lia).
  rewrite Z.sub_diag. reflexivity.
Qed.

(* ------------------------------------------------------------------ *)
(* The simulation invariant                                             *)
(* ------------------------------------------------------------------ *)

Definition pend_of (w : list (event M)) : list (Qc * list M) :=
  map (fun e => (e_delta e, e_data e)) w.

(* State at the beginning of round n (n outputs produced so far, not finished). *)
Definition Inv (s : st M) (evs : list (event M)) (n : Z) : Prop :=
  exists started waiting,
    evs = started ++ waiting /\
    pending s = pend_of waiting /\
    count s = inj n + half - sumd started /\
    playing s = flat_map (live n) (starts started) /\
    Forall (fun sd => (fst sd < n)%Z) (starts started) /\
    Forall (fun sd => (n <= fst sd)%Z) (starts_from (sumd started) waiting) /\
    Forall (fun e => (e_added e <= n)%Z /\ 0 <= e_delta e) waiting.

Lemma Inv_init : Inv init [] 0.
Proof.
  exists [], []. simpl. repeat split; constructor.
Qed.

Lemma Inv_add (s : st M) (evs : list (event M)) (n : Z) (d : Qc) (data : list M) :
  0 <= d -> Inv s evs n ->
  Inv (ST (count s) (pending s ++ [(d, data)]) (playing s) (fin s)) (evs ++ [EV d data n]) n.
Proof.
  intros Hd (started & waiting & Hevs & Hpend & Hcount & Hplay & Hst & Hwt & Hw).
  exists started, (waiting ++ [EV d data n]). simpl.
  repeat split.
  - rewrite Hevs, app_assoc. reflexivity.
  - rewrite Hpend. unfold pend_of. rewrite map_app. reflexivity.
  - exact Hcount.
  - exact Hplay.
  - exact Hst.
  - rewrite starts_from_app. apply Forall_app. split; [exact Hwt|].
    simpl. constructor; [simpl; lia|constructor].
  - apply Forall_app. split; [exact Hw|]. constructor; [|constructor].
    simpl. split; [lia|exact Hd].
Qed.

(* The "while" loop at the beginning of round n pops exactly the waiting events
   whose start sample is n. *)
Lemma start_spec (n : Z) : forall waiting T play,
  Forall (fun sd => (n <= fst sd)%Z) (starts_from T waiting) ->
  Forall (fun e => (e_added e <= n)%Z /\ 0 <= e_delta e) waiting ->
  exists w1 w2,
    waiting = w1 ++ w2 /\
    start (inj n + half - T) (pend_of waiting) play
      = (inj n + half - (T + sumd w1), pend_of w2, play ++ map e_data w1) /\
    Forall (fun sd => fst sd = n) (starts_from T w1) /\
    Forall (fun sd => (n + 1 <= fst sd)%Z) (starts_from (T + sumd w1) w2) /\
    Forall (fun e => (e_added e <= n)%Z /\ 0 <= e_delta e) w2.
Proof.
  induction waiting as [|e r IH]; intros T play HS HW.
  - exists [], []. simpl. rewrite Qcplus_0_r, app_nil_r. repeat split; constructor.
  - simpl in HS. inversion HS as [|? ? HS1 HS2]; subst.
    inversion HW as [|? ? [Ha Hd] HW2]; subst. simpl in HS1.
    simpl pend_of. simpl start.
    destruct (Qc_leb (e_delta e) (inj n + half - T)) eqn:E.
    + apply Qc_leb_spec in E. apply Qc_le_shift in E. apply qceil_le in E.
      destruct (IH (T + e_delta e) (play ++ [e_data e]) HS2 HW2)
        as (w1 & w2 & Hw & Hst & H1 & H2 & H3).
      exists (e :: w1), w2. split; [simpl; congruence|]. split.
      * replace (inj n + half - T - e_delta e) with (inj n + half - (T + e_delta e)) by ring.
        fold (pend_of r). rewrite Hst. simpl. rewrite <- app_assoc. simpl.
        f_equal. f_equal. ring.
      * split; [simpl; constructor; [simpl; lia|exact H1]|].
        split; [|exact H3]. simpl sumd. rewrite Qcplus_assoc. exact H2.
    + assert (Hn : (n + 1 <= qceil (T + e_delta e - half))%Z).
      { destruct (Z_lt_le_dec n (qceil (T + e_delta e - half))) as [Hlt|Hle]; [lia|].
        apply qceil_le in Hle. apply Qc_le_shift in Hle. apply Qc_leb_spec in Hle.
        congruence. }
      exists [], (e :: r). simpl. rewrite Qcplus_0_r, app_nil_r.
      repeat split; try constructor.
      * simpl. lia.
      * apply Forall_impl with (P := fun sd => (qceil (T + e_delta e - half) <= fst sd)%Z).
        { intros sd Hsd. lia. }
        apply starts_from_lb; [apply Qcle_refl|].
        apply Forall_impl with (2 := HW2). intros x [_ Hx]. exact Hx.
      * split; assumption.
      * exact HW2.
Qed.

(* One non-finished round of the generator against the specification. *)
Lemma next_sim (keep : bool) (zero : M) (s : st M) (evs : list (event M)) (n : Z) :
  fin s = false -> Inv s evs n ->
  exists s',
    next keep zero s
      = ((if keep || negb (over_at evs n) then Some (out_at zero evs n) else None), s') /\
    (if keep || negb (over_at evs n)
     then fin s' = false /\ Inv s' evs (n + 1) else fin s' = true).
Proof.
  intros Hfin (started & waiting & Hevs & Hpend & Hcount & Hplay & Hst & Hwt & Hw).
  destruct (start_spec n waiting (sumd started) (playing s) Hwt Hw)
    as (w1 & w2 & Hsplit & Hstart & Hw1 & Hw2 & Hw2').
  set (st' := started ++ w1).
  assert (Hsum : sumd started + sumd w1 = sumd st') by (symmetry; apply sumd_app).
  rewrite Hsum in Hstart, Hw2.
  assert (Hevs' : evs = st' ++ w2).
  { subst evs waiting st'. apply app_assoc. }
  assert (Hstarts : starts evs = starts st' ++ starts_from (sumd st') w2).
  { rewrite Hevs'. apply starts_app. }
  assert (Hplay' : playing s ++ map e_data w1 = flat_map (live n) (starts st')).
  { subst st'. rewrite starts_app, flat_map_app, <- Hplay. f_equal.
    rewrite live_at_start by exact Hw1. symmetry. apply starts_from_snd. }
  assert (Hle : Forall (fun sd => (fst sd <= n)%Z) (starts st')).
  { subst st'. rewrite starts_app. apply Forall_app. split.
    - apply Forall_impl with (2 := Hst). intros sd Hsd. lia.
    - apply Forall_impl with (2 := Hw1). intros sd Hsd. lia. }
  assert (Hdata : sum_heads zero (flat_map (live n) (starts st')) = out_at zero evs n).
  { rewrite sum_heads_live by exact Hle. unfold out_at.
    rewrite Hstarts, fold_left_app. rewrite (fold_due_future n (starts_from (sumd st') w2)) by exact Hw2.
    reflexivity. }
  assert (Hover : is_nil (flat_map (live (n + 1)) (starts st')) && is_nil (pend_of w2)
                  = over_at evs n).
  { unfold over_at. rewrite Hstarts, forallb_app, is_nil_live_all. f_equal.
    destruct w2 as [|e r]; [reflexivity|].
    simpl in Hw2. inversion Hw2 as [|? ? Hh Ht]; subst. simpl in Hh.
    simpl. symmetry. apply andb_false_iff. left. apply Z.leb_gt. lia. }
  assert (Hcond : keep || negb (is_nil (flat_map (live (n + 1)) (starts st')))
                  || negb (is_nil (pend_of w2)) = keep || negb (over_at evs n)).
  { rewrite <- Hover, negb_andb, orb_assoc. reflexivity. }
  assert (Hnext : next keep zero s =
    if keep || negb (over_at evs n)
    then (Some (out_at zero evs n),
          ST (inj n + half - sumd st' + 1) (pend_of w2) (flat_map (live (n + 1)) (starts st')) false)
    else (None,
          ST (inj n + half - sumd st') (pend_of w2) (flat_map (live (n + 1)) (starts st')) true)).
  { unfold next. rewrite Hfin, Hcount, Hpend, Hstart. cbv beta iota zeta.
    rewrite Hplay', (advance_live_all n _ Hle), Hdata, Hcond.
    destruct (keep || negb (over_at evs n)); reflexivity. }
  destruct (keep || negb (over_at evs n)); eexists; (split; [exact Hnext|]).
  - split; [reflexivity|].
    exists st', w2. simpl. repeat split.
    + exact Hevs'.
    + rewrite inj_succ. ring.
    + apply Forall_impl with (2 := Hle). intros sd Hsd. lia.
    + exact Hw2.
    + apply Forall_impl with (2 := Hw2'). intros e [Ha Hd]. split; [lia|exact Hd].
  - reflexivity.
Qed.

Lemma sim : forall (ops : list (op M)) keep zero s evs n done,
  fin s = done -> (done = false -> Inv s evs n) ->
  run keep zero s ops = spec_run keep zero evs n done ops.
Proof.
  induction ops as [|o r IH]; intros keep zero s evs n done Hfin HInv; [reflexivity|].
  destruct o as [d data|]; simpl.
  - unfold add. destruct (Qc_ltb d 0) eqn:E.
    + f_equal. apply IH; assumption.
    + f_equal. apply IH; [exact Hfin|]. intro Hd. apply Inv_add; [|apply HInv; exact Hd].
      apply Qcnot_lt_le. intro Hlt. apply Qc_ltb_spec in Hlt. congruence.
  - destruct done.
    + unfold next. rewrite Hfin. f_equal. apply IH; [exact Hfin|]. intro Hd. discriminate.
    + destruct (next_sim keep zero s evs n Hfin (HInv eq_refl)) as (s' & Hn & Hs').
      rewrite Hn. destruct (keep || negb (over_at evs n)).
      * destruct Hs' as [Hf HI]. f_equal. apply IH; [exact Hf|]. intros _. exact HI.
      * f_equal. apply IH; [exact Hs'|]. intro Hd. discriminate.
Qed.

Theorem run_eq_spec_run : forall keep (zero : M) ops,
  run keep zero init ops = spec_run keep zero [] 0 false ops.
Proof.
  intros keep zero ops. apply sim; [reflexivity|]. intros _. exact Inv_init.
Qed.

End Mix.
Arguments sumd {M} _.

(* ------------------------------------------------------------------ *)
(* ControlStream                                                        *)
(* ------------------------------------------------------------------ *)

Lemma cspec_app : forall (V : Type) (a : list (cop V)) v0 b, cspec v0 (a ++ b) = cspec (cspec v0 a) b.
Proof.
  induction a as [|[v|] a IH]; intros v0 b; simpl; [reflexivity|apply IH|apply IH].
Qed.

Lemma crun_cspec_run : forall (V : Type) (ops : list (cop V)) v0 pre, crun (cspec v0 pre) ops = cspec_run v0 pre ops.
Proof.
  induction ops as [|[v|] r IH]; intros v0 pre; simpl.
  - reflexivity.
  - rewrite <- IH, cspec_app. reflexivity.
  - f_equal. rewrite <- IH, cspec_app. reflexivity.
Qed.

Theorem crun_eq_cspec_run : forall (V : Type) (v0 : V) ops, crun v0 ops = cspec_run v0 [] ops.
Proof. intros V v0 ops. apply (crun_cspec_run V ops v0 []). Qed.

(* ------------------------------------------------------------------ *)
(* Corollaries                                                          *)
(* ------------------------------------------------------------------ *)

Section MixCorollaries.
Variable M : addable.

Corollary negative_delta_rejected : forall (s : st M) d data, d < 0 -> add s d data = None.
Proof.
  intros s d data H. unfold add. apply Qc_ltb_spec in H. rewrite H. reflexivity.
Qed.

Corollary nonnegative_delta_accepted : forall (s : st M) d data, 0 <= d ->
  add s d data = Some (ST (count s) (pending s ++ [(d, data)]) (playing s) (fin s)).
Proof.
  intros s d data H. unfold add. destruct (Qc_ltb d 0) eqn:E; [|reflexivity].
  apply Qc_ltb_spec in E. exfalso. exact (Qclt_not_le _ _ E H).
Qed.

(* the same two facts seen through [step] *)
Corollary step_add_rejected_iff : forall keep (zero : M) s d data,
  snd (step keep zero s (Add d data)) = ORejected <-> d < 0.
Proof.
  intros keep zero s d data. simpl. unfold add.
  destruct (Qc_ltb d 0) eqn:E; simpl.
  - apply Qc_ltb_spec in E. tauto.
  - split; [discriminate|]. intro H. apply Qc_ltb_spec in H. congruence.
Qed.

Lemma late_add_never_early_from : forall (evs : list (event M)) T e sd,
  In (e, sd) (combine evs (starts_from T evs)) -> (e_added e <= fst sd)%Z.
Proof.
  induction evs as [|e0 evs IH]; intros T e sd H; simpl in H; [contradiction|].
  destruct H as [H|H].
  - injection H as He Hsd. subst. simpl. lia.
  - apply IH with (1 := H).
Qed.

Corollary late_add_never_early : forall (evs : list (event M)) e sd,
  In (e, sd) (combine evs (starts evs)) -> (e_added e <= fst sd)%Z.
Proof. intros evs e sd. apply late_add_never_early_from. Qed.

(* start sample of the event at position [length pre]: T is the sum of the
   deltas up to and including it. *)
Lemma nth_starts : forall (pre : list (event M)) e post,
  nth_error (starts (pre ++ e :: post)) (length pre)
  = Some (Z.max (qceil (sumd (pre ++ [e]) - half)) (e_added e), e_data e).
Proof.
  intros pre e post. rewrite starts_app.
  rewrite nth_error_app2; unfold starts.
  - replace (length (starts_from 0 pre)) with (length pre).
    + rewrite Nat.sub_diag. simpl. rewrite sumd_app. simpl. rewrite Qcplus_0_r. reflexivity.
    + rewrite <- (map_length snd (starts_from 0 pre)), starts_from_snd, map_length. reflexivity.
  - rewrite <- (map_length snd (starts_from 0 pre)), starts_from_snd, map_length. lia.
Qed.

(* An event that was not added late (in particular any event added before the
   first output, e_added = 0, when the deltas are >= 0) starts at
   S = ceil (T - 1/2), and that is the sample nearest to T, ties going down:
   T - 1/2 <= S < T + 1/2. *)
Corollary start_is_nearest_sample : forall (pre : list (event M)) e post,
  (e_added e <= qceil (sumd (pre ++ [e]) - half))%Z ->
  let T := sumd (pre ++ [e]) in
  let S := qceil (T - half) in
  nth_error (starts (pre ++ e :: post)) (length pre) = Some (S, e_data e) /\
  T - half <= inj S /\ inj S < T + half.
Proof.
  intros pre e post H T S. split; [|split].
  - rewrite nth_starts. unfold S, T. f_equal. f_equal. lia.
  - apply qceil_upper.
  - assert (H1 := qceil_lower (T - half)). fold S in H1.
    apply Qclt_minus_iff. apply Qclt_minus_iff in H1.
    replace (T + half + - inj S) with (T - half + - (inj S - 1)); [exact H1|].
    unfold half, qc. change (Q2Qc (1 # 2)) with (/ (1 + 1)). field.
    discriminate.
Qed.

Lemma sumd_nonneg : forall (l : list (event M)), Forall (fun e => 0 <= e_delta e) l -> 0 <= sumd l.
Proof.
  induction l as [|e l IH]; intro H; simpl; [apply Qcle_refl|].
  inversion H as [|? ? H1 H2]; subst.
  apply Qcle_trans with (sumd l); [apply IH; exact H2|].
  rewrite Qcplus_comm. apply Qc_le_add_nonneg. exact H1.
Qed.

(* the instance "added before the first output" *)
Corollary start_is_nearest_sample_initial : forall (pre : list (event M)) e post,
  Forall (fun x => 0 <= e_delta x) (pre ++ [e]) -> e_added e = 0%Z ->
  nth_error (starts (pre ++ e :: post)) (length pre)
  = Some (qceil (sumd (pre ++ [e]) - half), e_data e).
Proof.
  intros pre e post Hd Ha.
  apply (start_is_nearest_sample pre e post). rewrite Ha.
  destruct (Z_lt_le_dec (qceil (sumd (pre ++ [e]) - half)) 0) as [Hlt|Hle]; [|exact Hle].
  exfalso. assert (Hc : (qceil (sumd (pre ++ [e]) - half) <= -1)%Z) by lia.
  apply qceil_le in Hc. apply sumd_nonneg in Hd.
  assert (Hh : 0 - half <= inj (-1)).
  { apply Qcle_trans with (sumd (pre ++ [e]) - half); [|exact Hc].
    apply Qc_sub_le_mono. exact Hd. }
  apply Hh. reflexivity.
Qed.

Corollary keep_never_stops_spec : forall (ops : list (op M)) zero evs n,
  ~ In OStop (spec_run true zero evs n false ops).
Proof.
  induction ops as [|[d data|] r IH]; intros zero evs n H; simpl in H.
  - exact H.
  - destruct (Qc_ltb d 0); simpl in H; destruct H as [H|H]; try discriminate;
      exact (IH _ _ _ H).
  - destruct H as [H|H]; [discriminate|]. exact (IH _ _ _ H).
Qed.

Corollary keep_never_stops : forall (zero : M) ops, ~ In OStop (run true zero init ops).
Proof.
  intros zero ops. rewrite run_eq_spec_run. apply keep_never_stops_spec.
Qed.

End MixCorollaries.

Lemma cspec_repeat_next : forall (V : Type) k (v : V), cspec v (repeat CNext k) = v.
Proof. induction k as [|k IH]; intro v; simpl; [reflexivity|apply IH]. Qed.

Corollary control_stream_last_value_spec : forall (V : Type) (v0 : V) pre v k,
  cspec v0 (pre ++ [CSet v] ++ repeat CNext k) = v.
Proof.
  intros V v0 pre v k. rewrite cspec_app. simpl. apply cspec_repeat_next.
Qed.

Lemma crun_app : forall (V : Type) (a : list (cop V)) v0 b, crun v0 (a ++ b) = crun v0 a ++ crun (cspec v0 a) b.
Proof.
  induction a as [|[v|] a IH]; intros v0 b; simpl; [reflexivity|apply IH|].
  f_equal. apply IH.
Qed.

Lemma crun_repeat_next : forall (V : Type) k (v : V), crun v (repeat CNext k) = repeat v k.
Proof. induction k as [|k IH]; intro v; simpl; [reflexivity|]. f_equal. apply IH. Qed.

(* on the model: after "value = v", every read returns v until the next assignment *)
Corollary control_stream_last_value : forall (V : Type) (v0 : V) pre v k,
  crun v0 (pre ++ [CSet v] ++ repeat CNext k) = crun v0 pre ++ repeat v k.
Proof.
  intros V v0 pre v k. rewrite crun_app. f_equal. simpl. apply crun_repeat_next.
Qed.
