(* C16 - model of audiolazy.lazy_stream.Streamix (data_generator + add) and
   ControlStream.  State and transitions follow the generator body line by line.
   No proofs in this file. *)
From Coq Require Import List Bool ZArith QArith Qcanon.
From AL Require Import Base.CaseLib.
Import ListNotations.
Open Scope Qc_scope.

Record st := ST { count : Qc; pending : list (Qc * list Qc); playing : list (list Qc); fin : bool }.
Definition half : Qc := qc 1 2.
Definition init : st := ST half [] [] false.

(* Streamix.add: negative delta -> ValueError (None), else enqueue.
   (Enqueuing on a finished mixer is allowed by the code and has no effect on the output.) *)
Definition add (s : st) (d : Qc) (data : list Qc) : option st :=
  if Qc_ltb d 0 then None
  else Some (ST (count s) (pending s ++ [(d, data)]) (playing s) (fin s)).

(* "while self._not_playing and count >= self._not_playing[0][0]" *)
Fixpoint start (c : Qc) (pend : list (Qc * list Qc)) (play : list (list Qc))
  : Qc * list (Qc * list Qc) * list (list Qc) :=
  match pend with
  | (d, data) :: r => if Qc_leb d c then start (c - d) r (play ++ [data]) else (c, pend, play)
  | [] => (c, pend, play)
  end.

(* "data = zero; for snd in playing: data += next(snd)" ; exhausted ones are removed *)
Definition sum_heads (zero : Qc) (play : list (list Qc)) : Qc :=
  fold_left (fun acc p => match p with x :: _ => acc + x | [] => acc end) play zero.
Definition advance (play : list (list Qc)) : list (list Qc) :=
  flat_map (fun p => match p with _ :: r => [r] | [] => [] end) play.

Definition is_nil {T} (l : list T) : bool := match l with [] => true | _ => false end.

(* one next(): None = StopIteration *)
Definition next (keep : bool) (zero : Qc) (s : st) : option Qc * st :=
  if fin s then (None, s) else
  let '(c, pend, play) := start (count s) (pending s) (playing s) in
  let data := sum_heads zero play in
  let play' := advance play in
  if keep || negb (is_nil play') || negb (is_nil pend)
  then (Some data, ST (c + 1) pend play' false)
  else (None, ST c pend play' true).

Inductive op := Add (d : Qc) (data : list Qc) | Next.
Inductive out := OAdded | ORejected | OItem (q : Qc) | OStop.

Definition step (keep : bool) (zero : Qc) (s : st) (o : op) : st * out :=
  match o with
  | Add d data => match add s d data with Some s' => (s', OAdded) | None => (s, ORejected) end
  | Next => let '(r, s') := next keep zero s in
            (s', match r with Some q => OItem q | None => OStop end)
  end.

Fixpoint run (keep : bool) (zero : Qc) (s : st) (ops : list op) : list out :=
  match ops with
  | [] => []
  | o :: r => let '(s', x) := step keep zero s o in x :: run keep zero s' r
  end.

(* ControlStream: value attribute + endless generator yielding it.  The code never inspects the value (no test,
   no arithmetic, no comparison), so the model is parametric in the type V of values: numbers, None, False, '',
   containers, streams, callables... (round 3). *)
Inductive cop {V : Type} := CSet (v : V) | CNext.
Arguments cop : clear implicits.
Fixpoint crun {V : Type} (v : V) (ops : list (cop V)) : list V :=
  match ops with
  | [] => []
  | CSet v' :: r => crun v' r
  | CNext :: r => v :: crun v r
  end.

(* Round 2: two objects alive in one process, operated in any interleaving.  Streamix / ControlStream keep no state
   outside the object (no module or class level variable is read or written by the modelled lines), so the state of
   the pair is the pair of the states and an operation on one side leaves the other side untouched. *)
Inductive side := SideA | SideB.
Definition side_eqb (a b : side) : bool :=
  match a, b with SideA, SideA | SideB, SideB => true | _, _ => false end.

Fixpoint run2 (ka : bool) (za : Qc) (kb : bool) (zb : Qc) (sa sb : st) (ops : list (side * op))
  : list (side * out) :=
  match ops with
  | [] => []
  | (SideA, o) :: r => let '(sa', x) := step ka za sa o in (SideA, x) :: run2 ka za kb zb sa' sb r
  | (SideB, o) :: r => let '(sb', x) := step kb zb sb o in (SideB, x) :: run2 ka za kb zb sa sb' r
  end.

Definition on_side {T} (s : side) (l : list (side * T)) : list T :=
  map snd (filter (fun p => side_eqb (fst p) s) l).

Fixpoint crun2 {V : Type} (va vb : V) (ops : list (side * cop V)) : list (side * V) :=
  match ops with
  | [] => []
  | (SideA, CSet v) :: r => crun2 v vb r
  | (SideB, CSet v) :: r => crun2 va v r
  | (SideA, CNext) :: r => (SideA, va) :: crun2 va vb r
  | (SideB, CNext) :: r => (SideB, vb) :: crun2 va vb r
  end.
