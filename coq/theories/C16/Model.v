(* C16 - model of audiolazy.lazy_stream.Streamix (data_generator + add) and
   ControlStream.  State and transitions follow the generator body line by line.
   No proofs in this file. *)
From Coq Require Import List Bool ZArith QArith Qcanon.
From AL Require Import Base.CaseLib.
Import ListNotations.
Open Scope Qc_scope.

(* Round 3: the mixer never inspects its data: the only operation on the zero value and the items is `data += item`
   (for immutable values: data = data + item), applied in the order of the playing list.  So the model is parametric
   in the value type and its addition (no law is assumed: not commutative, not associative - str / tuple
   concatenation and IEEE float addition are instances, see Check.v); times (count, deltas) stay exact rationals. *)
Record addable := Addable { carrier :> Type; madd : carrier -> carrier -> carrier }.
Canonical Structure Qc_addable := Addable Qc Qcplus.

Record st {M : addable} := ST { count : Qc; pending : list (Qc * list M); playing : list (list M); fin : bool }.
Arguments st : clear implicits.
Arguments ST {M} _ _ _ _.
Arguments count {M} _.
Arguments pending {M} _.
Arguments playing {M} _.
Arguments fin {M} _.
Definition half : Qc := qc 1 2.
Definition init {M : addable} : st M := ST half [] [] false.

(* Streamix.add: negative delta -> ValueError (None), else enqueue.
   (Enqueuing on a finished mixer is allowed by the code and has no effect on the output.) *)
Definition add {M : addable} (s : st M) (d : Qc) (data : list M) : option (st M) :=
  if Qc_ltb d 0 then None
  else Some (ST (count s) (pending s ++ [(d, data)]) (playing s) (fin s)).

(* "while self._not_playing and count >= self._not_playing[0][0]" *)
Fixpoint start {M : addable} (c : Qc) (pend : list (Qc * list M)) (play : list (list M))
  : Qc * list (Qc * list M) * list (list M) :=
  match pend with
  | (d, data) :: r => if Qc_leb d c then start (c - d) r (play ++ [data]) else (c, pend, play)
  | [] => (c, pend, play)
  end.

(* "data = zero; for snd in playing: data += next(snd)" ; exhausted ones are removed *)
Definition sum_heads {M : addable} (zero : M) (play : list (list M)) : M :=
  fold_left (fun acc p => match p with x :: _ => madd M acc x | [] => acc end) play zero.
Definition advance {M : addable} (play : list (list M)) : list (list M) :=
  flat_map (fun p => match p with _ :: r => [r] | [] => [] end) play.

Definition is_nil {T} (l : list T) : bool := match l with [] => true | _ => false end.

(* one next(): None = StopIteration *)
Definition next {M : addable} (keep : bool) (zero : M) (s : st M) : option M * st M :=
  if fin s then (None, s) else
  let '(c, pend, play) := start (count s) (pending s) (playing s) in
  let data := sum_heads zero play in
  let play' := advance play in
  if keep || negb (is_nil play') || negb (is_nil pend)
  then (Some data, ST (c + 1) pend play' false)
  else (None, ST c pend play' true).

Inductive op {M : addable} := Add (d : Qc) (data : list M) | Next.
Inductive out {M : addable} := OAdded | ORejected | OItem (q : M) | OStop.
Arguments op : clear implicits.
Arguments out : clear implicits.

Definition step {M : addable} (keep : bool) (zero : M) (s : st M) (o : op M) : st M * out M :=
  match o with
  | Add d data => match add s d data with Some s' => (s', OAdded) | None => (s, ORejected) end
  | Next => let '(r, s') := next keep zero s in
            (s', match r with Some q => OItem q | None => OStop end)
  end.

Fixpoint run {M : addable} (keep : bool) (zero : M) (s : st M) (ops : list (op M)) : list (out M) :=
  match ops with
  | [] => []
  | o :: r => let '(s', x) := step keep zero s o in x :: run keep zero s' r
  end.

(* ControlStream: value attribute + endless generator yielding it.  The code never inspects the value (no test,
   no arithmetic, no comparison), so the model is parametric in the type V of values: numbers, None, False, '',
   containers, streams, callables... (round 3). *)
Inductive cop {V : Type} := CSet (v : V) | CNext.
Arguments cop : clear implicits.
Fixpoint crun {V : Type} (v : V) (ops : list (cop V)) : list V :=
  match ops with
  | [] => []
  | CSet v' :: r => crun v' r
  | CNext :: r => v :: crun v r
  end.

(* Round 2: two objects alive in one process, operated in any interleaving.  Streamix / ControlStream keep no state
   outside the object (no module or class level variable is read or written by the modelled lines), so the state of
   the pair is the pair of the states and an operation on one side leaves the other side untouched. *)
Inductive side := SideA | SideB.
Definition side_eqb (a b : side) : bool :=
  match a, b with SideA, SideA | SideB, SideB => true | _, _ => false end.

Fixpoint run2 {M : addable} (ka : bool) (za : M) (kb : bool) (zb : M) (sa sb : st M) (ops : list (side * op M))
  : list (side * out M) :=
  match ops with
  | [] => []
  | (SideA, o) :: r => let '(sa', x) := step ka za sa o in (SideA, x) :: run2 ka za kb zb sa' sb r
  | (SideB, o) :: r => let '(sb', x) := step kb zb sb o in (SideB, x) :: run2 ka za kb zb sa sb' r
  end.

Definition on_side {T} (s : side) (l : list (side * T)) : list T :=
  map snd (filter (fun p => side_eqb (fst p) s) l).

Fixpoint crun2 {V : Type} (va vb : V) (ops : list (side * cop V)) : list (side * V) :=
  match ops with
  | [] => []
  | (SideA, CSet v) :: r => crun2 v vb r
  | (SideB, CSet v) :: r => crun2 va v r
  | (SideA, CNext) :: r => (SideA, va) :: crun2 va vb r
  | (SideB, CNext) :: r => (SideB, vb) :: crun2 va vb r
  end.
