(* C16 round 2 - two mixers / two control streams operated in any interleaving behave as each one alone on its own
   sub-history (the pair model has no shared component). *)
From Coq Require Import List Bool ZArith QArith Qcanon.
From AL Require Import Base.CaseLib C16.Model C16.Spec C16.Proofs.
Import ListNotations.

Lemma run2_independent : forall (M : addable) ka (za : M) kb zb ops sa sb,
  on_side SideA (run2 ka za kb zb sa sb ops) = run ka za sa (on_side SideA ops) /\
  on_side SideB (run2 ka za kb zb sa sb ops) = run kb zb sb (on_side SideB ops).
Proof.
  intros M ka za kb zb ops.
  induction ops as [|[s o] r IH]; intros sa sb; [split; reflexivity|].
  destruct s; cbn [run2].
  - destruct (step ka za sa o) as [sa' x] eqn:E.
    destruct (IH sa' sb) as [IHa IHb].
    unfold on_side in *; cbn [filter fst side_eqb map snd run]. rewrite E. split; [f_equal; exact IHa | exact IHb].
  - destruct (step kb zb sb o) as [sb' x] eqn:E.
    destruct (IH sa sb') as [IHa IHb].
    unfold on_side in *; cbn [filter fst side_eqb map snd run]. rewrite E. split; [exact IHa | f_equal; exact IHb].
Qed.

Lemma run2_independent_spec : forall (M : addable) ka (za : M) kb zb ops,
  on_side SideA (run2 ka za kb zb init init ops) = spec_run ka za [] 0 false (on_side SideA ops) /\
  on_side SideB (run2 ka za kb zb init init ops) = spec_run kb zb [] 0 false (on_side SideB ops).
Proof.
  intros M ka za kb zb ops.
  destruct (run2_independent M ka za kb zb ops init init) as [Ha Hb].
  rewrite Ha, Hb. split; apply run_eq_spec_run.
Qed.

Lemma crun2_independent : forall (V : Type) (ops : list (side * cop V)) va vb,
  on_side SideA (crun2 va vb ops) = crun va (on_side SideA ops) /\
  on_side SideB (crun2 va vb ops) = crun vb (on_side SideB ops).
Proof.
  induction ops as [|[s o] r IH]; intros va vb; [split; reflexivity|].
  destruct s, o as [v|]; cbn [crun2]; unfold on_side in *; cbn [filter fst side_eqb map snd crun].
  - apply (IH v vb).
  - destruct (IH va vb) as [Ha Hb]. split; [f_equal; exact Ha | exact Hb].
  - apply (IH va v).
  - destruct (IH va vb) as [Ha Hb]. split; [exact Ha | f_equal; exact Hb].
Qed.
