From AL Require Import C16.Model C16.Spec.
