(* C16 - the proved statements, each closed by [exact] on a lemma of Proofs.v.
   Statements are spelled out over Model.v / Spec.v only (integers are injected
   in Qc as Q2Qc (inject_Z n); cumulative deltas are written with fold_right). *)
From Coq Require Import List Bool ZArith QArith Qcanon.
From AL Require Import Base.CaseLib C16.Model C16.Spec C16.Proofs C16.Proofs_Indep.
Import ListNotations.
Open Scope Qc_scope.

(* Round 3: every statement about the mixer holds for ANY value type M with ANY binary operation as its addition
   (no commutativity / associativity assumed): rationals, str / tuple concatenation, IEEE floats (Check.v).
   Main theorem: for every history (any length, any interleaving of add() and
   next(), any rational deltas and data) the line-by-line model of Streamix
   produces exactly the outputs of the closed-form specification. *)
Theorem C16_run_eq_spec_run : forall (M : addable) keep (zero : M) ops,
  run keep zero init ops = spec_run keep zero [] 0 false ops.
Proof. exact run_eq_spec_run. Qed.
Print Assumptions C16_run_eq_spec_run.

Theorem C16_crun_eq_cspec_run : forall (V : Type) (v0 : V) ops, crun v0 ops = cspec_run v0 [] ops.
Proof. exact crun_eq_cspec_run. Qed.
Print Assumptions C16_crun_eq_cspec_run.

(* add(): a negative delta is rejected (ValueError), anything else is enqueued *)
Theorem C16_negative_delta_rejected : forall (M : addable) (s : st M) d data, d < 0 -> add s d data = None.
Proof. exact negative_delta_rejected. Qed.
Print Assumptions C16_negative_delta_rejected.

Theorem C16_nonnegative_delta_accepted : forall (M : addable) (s : st M) d data, 0 <= d ->
  add s d data = Some (ST (count s) (pending s ++ [(d, data)]) (playing s) (fin s)).
Proof. exact nonnegative_delta_accepted. Qed.
Print Assumptions C16_nonnegative_delta_accepted.

Theorem C16_step_add_rejected_iff : forall (M : addable) keep (zero : M) s d data,
  snd (step keep zero s (Add d data)) = ORejected <-> d < 0.
Proof. exact step_add_rejected_iff. Qed.
Print Assumptions C16_step_add_rejected_iff.

(* an event never starts before the sample at which it was added *)
Theorem C16_late_add_never_early : forall (M : addable) (evs : list (event M)) e sd,
  In (e, sd) (combine evs (starts evs)) -> (e_added e <= fst sd)%Z.
Proof. exact late_add_never_early. Qed.
Print Assumptions C16_late_add_never_early.

(* an event that is not added late starts at S = ceil (T - 1/2), T the sum of
   the deltas up to and including its own; S is the sample nearest to T (ties
   go down): T - 1/2 <= S < T + 1/2 *)
Theorem C16_start_is_nearest_sample : forall (M : addable) (pre : list (event M)) e post,
  (e_added e <= qceil (fold_right (fun x acc => (e_delta x + acc)%Qc) 0%Qc (pre ++ [e]) - half))%Z ->
  let T := fold_right (fun x acc => e_delta x + acc) 0 (pre ++ [e]) in
  let S := qceil (T - half) in
  nth_error (starts (pre ++ e :: post)) (length pre) = Some (S, e_data e) /\
  T - half <= Q2Qc (inject_Z S) /\ Q2Qc (inject_Z S) < T + half.
Proof. exact start_is_nearest_sample. Qed.
Print Assumptions C16_start_is_nearest_sample.

(* in particular every event added before the first output (e_added = 0) *)
Theorem C16_start_is_nearest_sample_initial : forall (M : addable) (pre : list (event M)) e post,
  Forall (fun x => 0 <= e_delta x) (pre ++ [e]) -> e_added e = 0%Z ->
  nth_error (starts (pre ++ e :: post)) (length pre)
  = Some (qceil (fold_right (fun x acc => e_delta x + acc) 0 (pre ++ [e]) - half), e_data e).
Proof. exact start_is_nearest_sample_initial. Qed.
Print Assumptions C16_start_is_nearest_sample_initial.

(* keep=True: the mixer never raises StopIteration *)
Theorem C16_keep_never_stops_spec : forall (M : addable) (ops : list (op M)) zero evs n,
  ~ In OStop (spec_run true zero evs n false ops).
Proof. exact keep_never_stops_spec. Qed.
Print Assumptions C16_keep_never_stops_spec.

Theorem C16_keep_never_stops : forall (M : addable) (zero : M) ops, ~ In OStop (run true zero init ops).
Proof. exact keep_never_stops. Qed.
Print Assumptions C16_keep_never_stops.

(* ControlStream: reads after "value = v" return v until the next assignment *)
Theorem C16_control_stream_last_value_spec : forall (V : Type) (v0 : V) pre v k,
  cspec v0 (pre ++ [CSet v] ++ repeat CNext k) = v.
Proof. exact control_stream_last_value_spec. Qed.
Print Assumptions C16_control_stream_last_value_spec.

Theorem C16_control_stream_last_value : forall (V : Type) (v0 : V) pre v k,
  crun v0 (pre ++ [CSet v] ++ repeat CNext k) = crun v0 pre ++ repeat v k.
Proof. exact control_stream_last_value. Qed.
Print Assumptions C16_control_stream_last_value.

(* Non-vacuity: two overlapping events, fractional deltas (3/2, 1/2), an add()
   after a next(), a rejected add(), the stop and an add() after the stop.
   Starts: 0, ceil(3/2 - 1/2) = 1, max (ceil(2 - 1/2)) 1 = 2. *)
Definition C16_example_ops : list (op Qc_addable) :=
  [Add 0 [qc 1 1; qc 2 1; qc 3 1]; Add (qc 3 2) [qc 10 1; qc 20 1]; Next;
   Add (qc 1 2) [qc 100 1]; Add (qc (-1) 1) [qc 5 1]; Next; Next; Next;
   Add 0 [qc 7 1]; Next].
Definition C16_example_out : list (out Qc_addable) :=
  [OAdded; OAdded; OItem (qc 1 1); OAdded; ORejected; OItem (qc 12 1);
   OItem (qc 123 1); OStop; OAdded; OStop].
Example C16_example_model : run false 0 init C16_example_ops = C16_example_out.
Proof. vm_compute. reflexivity. Qed.
Print Assumptions C16_example_model.
Example C16_example_spec : spec_run false 0 [] 0 false C16_example_ops = C16_example_out.
Proof. vm_compute. reflexivity. Qed.
Print Assumptions C16_example_spec.

(* Round 2: objects are independent.  Two mixers (any keep / zero each) operated in an arbitrary interleaving of
   add() and next() calls: what each one answers is the closed form of its OWN sub-history; likewise two control
   streams.  (The harness families mixes / ctls compare the real objects, 2-3 alive at once, against exactly this.) *)
Theorem C16_mixers_calls_independent : forall (M : addable) ka (za : M) kb zb ops,
  on_side SideA (run2 ka za kb zb init init ops) = spec_run ka za [] 0 false (on_side SideA ops) /\
  on_side SideB (run2 ka za kb zb init init ops) = spec_run kb zb [] 0 false (on_side SideB ops).
Proof. exact run2_independent_spec. Qed.
Print Assumptions C16_mixers_calls_independent.

Theorem C16_controls_calls_independent : forall (V : Type) (ops : list (side * cop V)) va vb,
  on_side SideA (crun2 va vb ops) = cspec_run va [] (on_side SideA ops) /\
  on_side SideB (crun2 va vb ops) = cspec_run vb [] (on_side SideB ops).
Proof.
  intros V ops va vb. rewrite <- !C16_crun_eq_cspec_run. exact (crun2_independent V ops va vb).
Qed.
Print Assumptions C16_controls_calls_independent.

(* Non-vacuity: mixer A (keep off, zero 0) and mixer B (keep on, zero 7/3) interleaved. *)
Example C16_example_two_mixers :
  run2 false 0 true (qc 7 3) init init
    [(SideA, Add 0 [qc 1 1; qc 2 1]); (SideB, Next); (SideB, Add (qc 1 2) [qc 10 1]); (SideA, Next);
     (SideB, Next); (SideA, Next); (SideA, Next); (SideB, Next)]
  = [(SideA, OAdded); (SideB, OItem (qc 7 3)); (SideB, OAdded); (SideA, OItem (qc 1 1));
     (SideB, OItem (qc 37 3)); (SideA, OItem (qc 2 1)); (SideA, OStop); (SideB, OItem (qc 7 3))].
Proof. vm_compute. reflexivity. Qed.
Print Assumptions C16_example_two_mixers.

(* Round 3: the ControlStream statements above hold for values of ANY type V (the code never inspects the value).
   Non-vacuity at a heterogeneous value type: None is a value like any other - reading it does not end the stream
   and later assignments are seen. *)
Example C16_example_control_none :
  crun INone [CNext; CSet (IZ 5); CNext; CSet INone; CNext; CNext; CSet (IQ (qc 1 2)); CNext]
  = [INone; IZ 5; INone; INone; IQ (qc 1 2)] /\
  cspec_run INone [] [CNext; CSet (IZ 5); CNext; CSet INone; CNext; CNext; CSet (IQ (qc 1 2)); CNext]
  = [INone; IZ 5; INone; INone; IQ (qc 1 2)].
Proof. vm_compute. split; reflexivity. Qed.
Print Assumptions C16_example_control_none.

(* Round 3, non-vacuity of the generalisation at a NON-commutative addition (concatenation of sequences, as for a
   str / tuple zero): three events overlap at sample 1; the output is zero, then the events in the order they were
   added - [0] ++ [12] ++ [21] ++ [31], not any other order. *)
Definition C16_SeqM : addable := Addable (list Z) (@app Z).
Definition C16_example_order_ops : list (op C16_SeqM) :=
  [Add 0 ([[11]; [12]]%Z : list C16_SeqM); Add (qc 1 1) ([[21]]%Z : list C16_SeqM);
   Add 0 ([[31]; [32]]%Z : list C16_SeqM); Next; Next; Next; Next].
Example C16_example_order :
  run false ([0]%Z : C16_SeqM) init C16_example_order_ops
  = [OAdded; OAdded; OAdded; OItem ([0; 11]%Z : C16_SeqM); OItem ([0; 12; 21; 31]%Z : C16_SeqM);
     OItem ([0; 32]%Z : C16_SeqM); OStop].
Proof. vm_compute. reflexivity. Qed.
Print Assumptions C16_example_order.
