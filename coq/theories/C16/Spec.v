(* C16 - the property as a closed form over the history, independent of the
   mixer's internal counters.  An event is (delta, data, a) where a = number of
   outputs already produced when it was added. *)
From Coq Require Import List Bool ZArith QArith Qcanon.
From AL Require Import Base.CaseLib C16.Model.
Import ListNotations.
Open Scope Qc_scope.

(* ceiling of a rational as an integer *)
Definition qceil (q : Qc) : Z := (- ((- Qnum (this q)) / Z.pos (Qden (this q))))%Z.

Record event {M : addable} := EV { e_delta : Qc; e_data : list M; e_added : Z }.
Arguments event : clear implicits.
Arguments EV {M} _ _ _.
Arguments e_delta {M} _.
Arguments e_data {M} _.
Arguments e_added {M} _.

(* start sample of each event: S_i = max (ceil (T_i - 1/2)) a_i, T_i = d_0+...+d_i *)
Fixpoint starts_from {M : addable} (T : Qc) (evs : list (event M)) : list (Z * list M) :=
  match evs with
  | [] => []
  | e :: r => let T' := T + e_delta e in
              (Z.max (qceil (T' - half)) (e_added e), e_data e) :: starts_from T' r
  end.
Definition starts {M : addable} (evs : list (event M)) := starts_from 0 evs.

(* item of an event due at sample n, if any *)
Definition due {M : addable} (n : Z) (sd : Z * list M) : option M :=
  let '(s0, data) := sd in
  if (s0 <=? n)%Z then nth_error data (Z.to_nat (n - s0)) else None.

(* zero plus, IN THE ORDER the events were added, the items due at n (the addition need not be commutative) *)
Definition out_at {M : addable} (zero : M) (evs : list (event M)) (n : Z) : M :=
  fold_left (fun acc sd => match due n sd with Some x => madd M acc x | None => acc end) (starts evs) zero.

(* the mixer is over at n when every event has ended by n (ends at S_i + len_i) *)
Definition over_at {M : addable} (evs : list (event M)) (n : Z) : bool :=
  forallb (fun sd => (fst sd + Z.of_nat (length (snd sd)) <=? n)%Z) (starts evs).

(* abstract run over a history: (events so far, outputs so far, finished) *)
Fixpoint spec_run {M : addable} (keep : bool) (zero : M) (evs : list (event M)) (n : Z) (done : bool)
         (ops : list (op M)) : list (out M) :=
  match ops with
  | [] => []
  | Add d data :: r =>
      if Qc_ltb d 0 then ORejected :: spec_run keep zero evs n done r
      else OAdded :: spec_run keep zero (evs ++ [EV d data n]) n done r
  | Next :: r =>
      if done then OStop :: spec_run keep zero evs n done r
      else if keep || negb (over_at evs n)
      then OItem (out_at zero evs n) :: spec_run keep zero evs (n + 1) false r
      else OStop :: spec_run keep zero evs n true r
  end.

(* ControlStream: every read returns the value most recently assigned *)
Fixpoint cspec {V : Type} (v0 : V) (before : list (cop V)) : V :=
  match before with
  | [] => v0
  | CSet v :: r => cspec v r
  | CNext :: r => cspec v0 r
  end.
Fixpoint cspec_run {V : Type} (v0 : V) (pre ops : list (cop V)) : list V :=
  match ops with
  | [] => []
  | CSet v :: r => cspec_run v0 (pre ++ [CSet v]) r
  | CNext :: r => cspec v0 pre :: cspec_run v0 (pre ++ [CNext]) r
  end.
