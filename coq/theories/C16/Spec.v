(* C16 - the property as a closed form over the history, independent of the
   mixer's internal counters.  An event is (delta, data, a) where a = number of
   outputs already produced when it was added. *)
From Coq Require Import List Bool ZArith QArith Qcanon.
From AL Require Import Base.CaseLib C16.Model.
Import ListNotations.
Open Scope Qc_scope.

(* ceiling of a rational as an integer *)
Definition qceil (q : Qc) : Z := (- ((- Qnum (this q)) / Z.pos (Qden (this q))))%Z.

Record event := EV { e_delta : Qc; e_data : list Qc; e_added : Z }.

(* start sample of each event: S_i = max (ceil (T_i - 1/2)) a_i, T_i = d_0+...+d_i *)
Fixpoint starts_from (T : Qc) (evs : list event) : list (Z * list Qc) :=
  match evs with
  | [] => []
  | e :: r => let T' := T + e_delta e in
              (Z.max (qceil (T' - half)) (e_added e), e_data e) :: starts_from T' r
  end.
Definition starts (evs : list event) := starts_from 0 evs.

(* item of an event due at sample n, if any *)
Definition due (n : Z) (sd : Z * list Qc) : option Qc :=
  let '(s0, data) := sd in
  if (s0 <=? n)%Z then nth_error data (Z.to_nat (n - s0)) else None.

Definition out_at (zero : Qc) (evs : list event) (n : Z) : Qc :=
  fold_left (fun acc sd => match due n sd with Some x => acc + x | None => acc end) (starts evs) zero.

(* the mixer is over at n when every event has ended by n (ends at S_i + len_i) *)
Definition over_at (evs : list event) (n : Z) : bool :=
  forallb (fun sd => (fst sd + Z.of_nat (length (snd sd)) <=? n)%Z) (starts evs).

(* abstract run over a history: (events so far, outputs so far, finished) *)
Fixpoint spec_run (keep : bool) (zero : Qc) (evs : list event) (n : Z) (done : bool)
         (ops : list op) : list out :=
  match ops with
  | [] => []
  | Add d data :: r =>
      if Qc_ltb d 0 then ORejected :: spec_run keep zero evs n done r
      else OAdded :: spec_run keep zero (evs ++ [EV d data n]) n done r
  | Next :: r =>
      if done then OStop :: spec_run keep zero evs n done r
      else if keep || negb (over_at evs n)
      then OItem (out_at zero evs n) :: spec_run keep zero evs (n + 1) false r
      else OStop :: spec_run keep zero evs n true r
  end.

(* ControlStream: every read returns the value most recently assigned *)
Fixpoint cspec {V : Type} (v0 : V) (before : list (cop V)) : V :=
  match before with
  | [] => v0
  | CSet v :: r => cspec v r
  | CNext :: r => cspec v0 r
  end.
Fixpoint cspec_run {V : Type} (v0 : V) (pre ops : list (cop V)) : list V :=
  match ops with
  | [] => []
  | CSet v :: r => cspec_run v0 (pre ++ [CSet v]) r
  | CNext :: r => cspec v0 pre :: cspec_run v0 (pre ++ [CNext]) r
  end.
