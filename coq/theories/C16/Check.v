(* C16 - boolean checkers for the generated case files. *)
From Coq Require Import List Bool ZArith QArith Qcanon String.
From AL Require Import Base.CaseLib C16.Model C16.Spec.
Import ListNotations.

Inductive oobs := BAdded | BRejected | BItem (q : Qc) | BStop | BRaise (e : string).
Definition out_eqb (o : oobs) (m : out) : bool :=
  match o, m with
  | BAdded, OAdded => true
  | BRejected, ORejected => true
  | BItem a, OItem b => Qc_eqb a b
  | BStop, OStop => true
  | _, _ => false
  end.
Fixpoint outs_eqb (o : list oobs) (m : list out) : bool :=
  match o, m with
  | [], [] => true
  | a :: o', b :: m' => out_eqb a b && outs_eqb o' m'
  | _, _ => false
  end.

Record mcase := MC { m_keep : bool; m_zero : Qc; m_ops : list op; m_obs : list oobs }.
Definition corr_mix (c : mcase) : bool := outs_eqb (m_obs c) (run (m_keep c) (m_zero c) init (m_ops c)).
Definition holds_mix (c : mcase) : bool :=
  outs_eqb (m_obs c) (spec_run (m_keep c) (m_zero c) [] 0 false (m_ops c)).

Record ccase := CC { c_v0 : Qc; c_ops : list (cop Qc); c_obs : list Qc }.
Definition corr_ctl (c : ccase) : bool := list_eqb Qc_eqb (c_obs c) (crun (c_v0 c) (c_ops c)).
Definition holds_ctl (c : ccase) : bool := list_eqb Qc_eqb (c_obs c) (cspec_run (c_v0 c) [] (c_ops c)).

(* Round 2: several objects alive in one process (built one after another, consumed interleaved).  The code keeps no
   state outside the object, so every object must follow the per-object model on its own sub-history. *)
Definition corr_mixes (l : list mcase) : bool := forallb corr_mix l.
Definition holds_mixes (l : list mcase) : bool := forallb holds_mix l.
Definition corr_ctls (l : list ccase) : bool := forallb corr_ctl l.
Definition holds_ctls (l : list ccase) : bool := forallb holds_ctl l.

(* Round 3: ControlStream values of any KIND.  A small tagged union: what Python calls None / bool / int / float /
   exact rational / str, and VObj k = "the k-th object of the case's object table, by identity" (a list, a tuple,
   a Stream, nan, inf, a callable...).  The harness classifies each value READ from the stream independently of the
   assignments (by type, objects by identity), so equality here is "same kind, same content / same object". *)
Inductive cval := VNone | VBool (b : bool) | VInt (z : Z) | VFloat (q : Qc) | VQ (q : Qc) | VStr (s : string)
                | VObj (k : nat) | VStopped | VRaised (e : string).
Definition cval_eqb (a b : cval) : bool :=
  match a, b with
  | VNone, VNone => true
  | VBool x, VBool y => Bool.eqb x y
  | VInt x, VInt y => Z.eqb x y
  | VFloat x, VFloat y => Qc_eqb x y
  | VQ x, VQ y => Qc_eqb x y
  | VStr x, VStr y => String.eqb x y
  | VObj x, VObj y => Nat.eqb x y
  | _, _ => false      (* VStopped / VRaised: what the harness records for StopIteration / an exception *)
  end.
Record vcase := VC { v_v0 : cval; v_ops : list (cop cval); v_obs : list cval }.
Definition corr_ctlv (c : vcase) : bool := list_eqb cval_eqb (v_obs c) (crun (v_v0 c) (v_ops c)).
Definition holds_ctlv (c : vcase) : bool := list_eqb cval_eqb (v_obs c) (cspec_run (v_v0 c) [] (v_ops c)).
Definition corr_ctlvs (l : list vcase) : bool := forallb corr_ctlv l.
Definition holds_ctlvs (l : list vcase) : bool := forallb holds_ctlv l.
