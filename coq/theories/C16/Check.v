(* C16 - boolean checkers for the generated case files. *)
From Coq Require Import List Bool ZArith QArith Qcanon String.
From AL Require Import Base.CaseLib C16.Model C16.Spec.
Import ListNotations.

Inductive oobs := BAdded | BRejected | BItem (q : Qc) | BStop | BRaise (e : string).
Definition out_eqb (o : oobs) (m : out Qc_addable) : bool :=
  match o, m with
  | BAdded, OAdded => true
  | BRejected, ORejected => true
  | BItem a, OItem b => Qc_eqb a b
  | BStop, OStop => true
  | _, _ => false
  end.
Fixpoint outs_eqb (o : list oobs) (m : list (out Qc_addable)) : bool :=
  match o, m with
  | [], [] => true
  | a :: o', b :: m' => out_eqb a b && outs_eqb o' m'
  | _, _ => false
  end.

Record mcase := MC { m_keep : bool; m_zero : Qc; m_ops : list (op Qc_addable); m_obs : list oobs }.
Definition corr_mix (c : mcase) : bool := outs_eqb (m_obs c) (run (m_keep c) (m_zero c) init (m_ops c)).
Definition holds_mix (c : mcase) : bool :=
  outs_eqb (m_obs c) (spec_run (m_keep c) (m_zero c) [] 0 false (m_ops c)).

Record ccase := CC { c_v0 : Qc; c_ops : list (cop Qc); c_obs : list Qc }.
Definition corr_ctl (c : ccase) : bool := list_eqb Qc_eqb (c_obs c) (crun (c_v0 c) (c_ops c)).
Definition holds_ctl (c : ccase) : bool := list_eqb Qc_eqb (c_obs c) (cspec_run (c_v0 c) [] (c_ops c)).

(* Round 2: several objects alive in one process (built one after another, consumed interleaved).  The code keeps no
   state outside the object, so every object must follow the per-object model on its own sub-history. *)
Definition corr_mixes (l : list mcase) : bool := forallb corr_mix l.
Definition holds_mixes (l : list mcase) : bool := forallb holds_mix l.
Definition corr_ctls (l : list ccase) : bool := forallb corr_ctl l.
Definition holds_ctls (l : list ccase) : bool := forallb holds_ctl l.

(* Round 3: ControlStream values of any KIND.  A small tagged union: what Python calls None / bool / int / float /
   exact rational / str, and VObj k = "the k-th object of the case's object table, by identity" (a list, a tuple,
   a Stream, nan, inf, a callable...).  The harness classifies each value READ from the stream independently of the
   assignments (by type, objects by identity), so equality here is "same kind, same content / same object". *)
Inductive cval := VNone | VBool (b : bool) | VInt (z : Z) | VFloat (q : Qc) | VQ (q : Qc) | VStr (s : string)
                | VObj (k : nat) | VStopped | VRaised (e : string).
Definition cval_eqb (a b : cval) : bool :=
  match a, b with
  | VNone, VNone => true
  | VBool x, VBool y => Bool.eqb x y
  | VInt x, VInt y => Z.eqb x y
  | VFloat x, VFloat y => Qc_eqb x y
  | VQ x, VQ y => Qc_eqb x y
  | VStr x, VStr y => String.eqb x y
  | VObj x, VObj y => Nat.eqb x y
  | _, _ => false      (* VStopped / VRaised: what the harness records for StopIteration / an exception *)
  end.
Record vcase := VC { v_v0 : cval; v_ops : list (cop cval); v_obs : list cval }.
Definition corr_ctlv (c : vcase) : bool := list_eqb cval_eqb (v_obs c) (crun (v_v0 c) (v_ops c)).
Definition holds_ctlv (c : vcase) : bool := list_eqb cval_eqb (v_obs c) (cspec_run (v_v0 c) [] (v_ops c)).
Definition corr_ctlvs (l : list vcase) : bool := forallb corr_ctlv l.
Definition holds_ctlvs (l : list vcase) : bool := forallb holds_ctlv l.

(* Round 3: the mixer over value kinds whose "+" is not the rational one.  The model / spec / theorem are generic in
   (carrier, madd); two more instances are tied to the code:
   - sequences (str '' / bytes b'' / tuple () zeros with str / bytes / tuple items): the free monoid list Z with
     concatenation - NOT commutative, so the order "zero, then the playing events in the order they were added" is
     observable;
   - IEEE binary64 floats with the primitive addition: not associative, so a compensated or re-ordered summation is
     observable in the last bit (strict left-to-right zero + e1 + e2 + ...). *)
From Coq Require Import PrimFloat.
Canonical Structure Seq_addable := Addable (list Z) (@app Z).
Canonical Structure Flt_addable := Addable float PrimFloat.add.
Definition seq_eqb (a b : list Z) : bool := list_eqb Z.eqb a b.
(* same float, +0 and -0 told apart by their reciprocals (the generated values never produce nan) *)
Definition flt_eqb (a b : float) : bool := (PrimFloat.eqb a b && PrimFloat.eqb (1 / a) (1 / b))%float.

Section Generic.
  Variable M : addable.
  Variable eqb : M -> M -> bool.
  Inductive gobs := GAdded | GRejected | GItem (q : M) | GStop | GRaise (e : string).
  Definition gout_eqb (o : gobs) (m : out M) : bool :=
    match o, m with
    | GAdded, OAdded => true
    | GRejected, ORejected => true
    | GItem a, OItem b => eqb a b
    | GStop, OStop => true
    | _, _ => false
    end.
  Fixpoint gouts_eqb (o : list gobs) (m : list (out M)) : bool :=
    match o, m with
    | [], [] => true
    | a :: o', b :: m' => gout_eqb a b && gouts_eqb o' m'
    | _, _ => false
    end.
  Record gcase := GC { g_keep : bool; g_zero : M; g_ops : list (op M); g_obs : list gobs }.
  Definition corr_g (c : gcase) : bool := gouts_eqb (g_obs c) (run (g_keep c) (g_zero c) init (g_ops c)).
  Definition holds_g (c : gcase) : bool := gouts_eqb (g_obs c) (spec_run (g_keep c) (g_zero c) [] 0 false (g_ops c)).
End Generic.
Arguments GAdded {M}. Arguments GRejected {M}. Arguments GItem {M} _. Arguments GStop {M}. Arguments GRaise {M} _.
Arguments GC {M} _ _ _ _.
Definition corr_seq := corr_g Seq_addable seq_eqb.
Definition holds_seq := holds_g Seq_addable seq_eqb.
Definition corr_flt := corr_g Flt_addable flt_eqb.
Definition holds_flt := holds_g Flt_addable flt_eqb.
