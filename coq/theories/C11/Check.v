(* C11 - case records and boolean checkers for the generated case files. *)
From Coq Require Import List Bool Arith ZArith QArith Qcanon String.
From AL Require Import Base.CaseLib C11.Lev C11.Model C11.Spec.
Import ListNotations.
Open Scope Qc_scope.

(* what the harness observed: a value or the name of the exception type *)
Inductive obs (T : Type) := OOk (x : T) | ORaise (s : string).
Arguments OOk {T} x.
Arguments ORaise {T} s.

Definition exn_name (e : exn) : string :=
  match e with
  | ParCorError => "ParCorError"
  | ZeroDivisionError => "ZeroDivisionError"
  | ValueError => "ValueError"
  | IndexError => "IndexError"
  end.

Definition res_eqb {T : Type} (e : T -> T -> bool) (o : obs T) (m : result T) : bool :=
  match o, m with
  | OOk x, Ok y => e x y
  | ORaise s, Err ex => String.eqb s (exn_name ex)
  | _, _ => false
  end.

Definition ql_eqb := list_eqb Qc_eqb.
Definition pcres_eqb (a b : list Qc * bool) : bool := ql_eqb (fst a) (fst b) && Bool.eqb (snd a) (snd b).
Definition levres_eqb (a b : list Qc * Qc) : bool := ql_eqb (fst a) (fst b) && Qc_eqb (snd a) (snd b).

Fixpoint prefix_eqb (a b : list Qc) : bool :=
  match a, b with
  | [], _ => true
  | x :: a', y :: b' => Qc_eqb x y && prefix_eqb a' b'
  | _, _ => false
  end.

(* ---------------------------------------------------------------- family lev
   r, order  ->  levinson_durbin(r, order): (numerator, error), then
   list(parcor(that filter)): (yielded coefficients, ParCorError raised?) *)
Record lcase := LC { l_r : list Qc; l_order : option nat;
                     l_lev : obs (list Qc * Qc); l_pc : obs (list Qc * bool) }.

Definition strip_fst (x : list Qc * Qc) := (strip0 (fst x), snd x).
Definition res_map {A B : Type} (f : A -> B) (r : result A) : result B :=
  match r with Ok x => Ok (f x) | Err e => Err e end.

Definition corr_lev (c : lcase) : bool :=
  res_eqb levres_eqb (l_lev c) (res_map strip_fst (levinson_durbin (l_r c) (l_order c)))
  && match l_lev c with
     | OOk (A, _) => res_eqb pcres_eqb (l_pc c) (parcor A [1])
     | ORaise _ => true
     end.

Definition holds_lev (c : lcase) : bool :=
  match l_lev c with
  | ORaise _ =>
      (* parcor(levinson_durbin(r)) must yield the coefficients of the recursion whenever the recursion
         exists: an exception is acceptable only when Durbin's recursion itself breaks down (some
         E_(m-1) = 0 before the end; that error belongs to C10) or for the empty lag list, about which
         the text says nothing.  A last coefficient of magnitude 1 is NOT a breakdown: the filter (error
         0) must be returned and ParCorError may only come from parcor's step-down. *)
      match l_r c with
      | [] => true
      | _ => match durbin (l_r c) (match l_order c with Some p => p | None => (List.length (l_r c) - 1)%nat end) with
             | Some _ => false
             | None => true
             end
      end
  | OOk (A, e) =>
      let p := match l_order c with Some p => p | None => (List.length (l_r c) - 1)%nat end in
      match durbin (l_r c) p, l_pc c with
      | Some (_, _, sks), OOk (ks, err) =>
          let want := dropz sks in    (* k_q ... k_1, q the highest non-zero one *)
          Qc_eqb e (cf (l_r c) 0 * prod1mk2 sks)
          && Bool.eqb err (existsb unitk ks)
          && (if err then prefix_eqb ks want
              else ql_eqb ks want
                   && Qc_eqb e (cf (l_r c) 0 * prod1mk2 ks)
                   && ql_eqb (rebuild ks) A)
      | _, _ => false
      end
  end.

(* ---------------------------------------------------------------- family pc
   parcor(ZFilter(num, den)) for arbitrary coefficient lists *)
Record pcase := PC { p_num : list Qc; p_den : list Qc; p_obs : obs (list Qc * bool) }.

Definition corr_pc (c : pcase) : bool := res_eqb pcres_eqb (p_obs c) (parcor (p_num c) (p_den c)).

(* ParCorError exactly when a yielded coefficient has |k| = 1; when the filter
   (numerator over the constant denominator) is monic and no error occurs, the
   step-up recursion on the yielded coefficients returns the filter *)
Definition holds_pc (c : pcase) : bool :=
  match p_obs c with
  | ORaise _ => true
  | OOk (ks, err) =>
      Bool.eqb err (existsb unitk ks)
      && match trim (p_den c) with
         | [d0] =>
             let A := trim (map (fun x => x / d0) (p_num c)) in
             if Qc_eqb (cf A 0) 1 && negb err then ql_eqb (rebuild ks) A else true
         | _ => true
         end
  end.

(* ---------------------------------------------------------------- family stab
   denominators built from chosen roots and a gain *)
Record scase := SC { s_roots : list (Qc * Qc); s_gain : Qc; s_den : list Qc; s_obs : obs bool }.

Definition corr_stab (c : scase) : bool := res_eqb Bool.eqb (s_obs c) (parcor_stable (s_den c)).
Definition holds_stab (c : scase) : bool :=
  ql_eqb (s_den c) (from_roots (s_gain c) (s_roots c))
  && match s_obs c with
     | OOk b => Bool.eqb b (forallb inside (s_roots c))
     | ORaise _ => false
     end.

(* ---------------------------------------------------------------- family coef
   arbitrary denominators; orders <= 2 are decided by the Jury conditions *)
Record ccase := CC { c_den : list Qc; c_obs : obs bool }.
Definition corr_coef (c : ccase) : bool := res_eqb Bool.eqb (c_obs c) (parcor_stable (c_den c)).
Definition holds_coef (c : ccase) : bool :=
  match c_den c with
  | a0 :: _ =>
      if Qc_eqb a0 0 then true
      else match jury (c_den c), c_obs c with
           | Some b, OOk o => Bool.eqb b o
           | Some _, ORaise _ => false
           | None, _ => true
           end
  | [] => true
  end.

(* ---------------------------------------------------------------- family hist
   histories of calls made in ONE process on shared objects (the same filter /
   lag container reused, float twins of the exact values evaluated in between).
   The real code is pure per call, so every checked step must equal the per-call
   model / spec on the ORIGINAL values of its arguments; steps on float or int
   twins (chk = false) are only executed, not compared (rounding is legitimate
   there).  [h_after]: the contents of the caller's container after the call. *)
Inductive hstep :=
  | HStab (chk : bool) (roots : list (Qc * Qc)) (gain : Qc) (den : list Qc) (o : obs bool)
  | HLev (chk : bool) (r : list Qc) (order : option nat)
         (olev : obs (list Qc * Qc)) (opc : obs (list Qc * bool)) (after : list Qc)
  | HPc (num den : list Qc) (o1 o2 : obs (list Qc * bool))
  | HExn (o : string) (want : string).           (* argument kinds the code rejects, e.g. a generator *)

Definition corr_step (s : hstep) : bool :=
  match s with
  | HStab chk roots gain den o => if chk then corr_stab (SC roots gain den o) else true
  | HLev chk r order olev opc after =>
      ql_eqb after r && (if chk then corr_lev (LC r order olev opc) else true)
  | HPc num den o1 o2 => corr_pc (PC num den o1) && corr_pc (PC num den o2)
  | HExn o want => String.eqb o want
  end.

Definition holds_step (s : hstep) : bool :=
  match s with
  | HStab chk roots gain den o => if chk then holds_stab (SC roots gain den o) else true
  | HLev chk r order olev opc after => if chk then holds_lev (LC r order olev opc) else true
  | HPc num den o1 o2 => holds_pc (PC num den o1) && holds_pc (PC num den o2)
  | HExn _ _ => true
  end.

Definition hcase := list hstep.
Definition corr_hist (c : hcase) : bool := forallb corr_step c.
Definition holds_hist (c : hcase) : bool := forallb holds_step c.
