(* C11 - the statements of the property about parcor / levinson_durbin,
   assembled from ProofsStep and ProofsLev. *)
From Coq Require Import List Bool Arith ZArith QArith Qcanon Lia.
From AL Require Import Base.CaseLib C11.Lev C11.Model C11.Spec C11.Lib C11.ProofsStep C11.ProofsLev.
Import ListNotations.
Open Scope Qc_scope.

Lemma unitk_spec k : unitk k = true <-> k * k = 1.
Proof. unfold unitk. apply Qc_eqb_spec. Qed.

Lemma upto_unit_id ks : existsb unitk ks = false -> upto_unit ks = ks.
Proof.
  induction ks as [|k t IH]; [reflexivity|]. cbn [existsb upto_unit]. intro H.
  apply orb_false_iff in H as [H1 H2]. rewrite H1. f_equal. apply IH. exact H2.
Qed.

Lemma existsb_dropz ks : existsb unitk (dropz ks) = existsb unitk ks.
Proof.
  induction ks as [|k t IH]; [reflexivity|]. cbn [dropz]. destruct (Qc_eqb k 0) eqn:E; [|reflexivity].
  apply Qc_eqb_spec in E. subst k. cbn [existsb]. rewrite IH. reflexivity.
Qed.

Lemma prod1mk2_dropz ks : prod1mk2 (dropz ks) = prod1mk2 ks.
Proof.
  induction ks as [|k t IH]; [reflexivity|]. cbn [dropz]. destruct (Qc_eqb k 0) eqn:E; [|reflexivity].
  apply Qc_eqb_spec in E. subst k. cbn [prod1mk2]. rewrite IH. ring.
Qed.

Lemma cf_strip0 a : forall i, cf (strip0 a) i = cf a i.
Proof.
  induction a as [|x t IH]; intro i; [reflexivity|]. cbn [strip0].
  destruct (strip0 t) as [|y t'] eqn:E.
  - destruct (Qc_eqb x 0) eqn:Ex.
    + apply Qc_eqb_spec in Ex. subst x. destruct i as [|i]; [reflexivity|].
      change (cf (0 :: t) (S i)) with (cf t i). rewrite <- IH. rewrite !cf_nil. reflexivity.
    + destruct i as [|i]; [reflexivity|].
      change (cf (x :: t) (S i)) with (cf t i). rewrite <- IH.
      change (cf [x] (S i)) with (cf [] i). reflexivity.
  - destruct i as [|i]; [reflexivity|].
    change (cf (x :: t) (S i)) with (cf t i). rewrite <- IH. reflexivity.
Qed.

(* ---- parcor(levinson_durbin(r)) ---- *)
Theorem stepdown_inverts_levinson r order A e :
  levinson_durbin r order = Ok (A, e) ->
  exists ks,
    durbin r (match order with Some p => p | None => (length r - 1)%nat end) = Some (A, e, ks) /\
    A = rebuild ks /\
    e = cf r 0 * prod1mk2 ks /\
    parcor (strip0 A) [1] = Ok (upto_unit (dropz ks), existsb unitk (dropz ks)).
Proof.
  intro H. destruct (levinson_is_durbin r order A e H) as [ks D]. exists ks.
  unfold lev_order in D. split; [exact D|].
  destruct (durbin_rebuild r _ A e ks D) as (HA & HE & _).
  split; [exact HA|]. split; [exact HE|]. subst A. apply parcor_rebuild.
Qed.

(* no coefficient of magnitude one: parcor yields k_q ... k_1 (q the highest
   non-zero one) without error, the product formula holds on what it yields
   and the step-up recursion on what it yields returns the filter *)
Theorem stepdown_inverts_levinson_regular r order A e :
  levinson_durbin r order = Ok (A, e) ->
  exists ks,
    durbin r (match order with Some p => p | None => (length r - 1)%nat end) = Some (A, e, ks) /\
    (existsb unitk ks = false ->
       parcor (strip0 A) [1] = Ok (dropz ks, false) /\
       e = cf r 0 * prod1mk2 (dropz ks) /\
       rebuild (dropz ks) = strip0 A).
Proof.
  intro H. destruct (stepdown_inverts_levinson r order A e H) as (ks & D & HA & HE & HP).
  exists ks. split; [exact D|]. intro HU.
  rewrite existsb_dropz, HU in HP. rewrite upto_unit_id in HP by (rewrite existsb_dropz; exact HU).
  split; [exact HP|]. split; [rewrite prod1mk2_dropz; exact HE|].
  subst A. symmetry. apply strip0_rebuild.
Qed.

(* a coefficient of magnitude one can only be the top one k_p (then the
   error is 0 and parcor yields k_p and raises ParCorError) *)
Theorem levinson_unit_only_top r order A e k ks :
  levinson_durbin r order = Ok (A, e) ->
  durbin r (match order with Some p => p | None => (length r - 1)%nat end) = Some (A, e, k :: ks) ->
  existsb unitk ks = false /\
  (unitk k = true -> e = 0 /\ parcor (strip0 A) [1] = Ok ([k], true)).
Proof.
  intros H D. destruct (stepdown_inverts_levinson r order A e H) as (ks' & D' & HA & HE & HP).
  rewrite D in D'. injection D' as <-.
  destruct (match order with Some p => p | None => (length r - 1)%nat end) as [|p] eqn:EP.
  - cbn [durbin] in D. discriminate.
  - pose proof (durbin_no_unit_below r p A e k ks D) as HU. split; [exact HU|].
    intro Uk. split.
    + rewrite HE. cbn [prod1mk2]. apply unitk_spec in Uk. rewrite Uk. ring.
    + rewrite HP. cbn [dropz]. destruct (Qc_eqb k 0) eqn:E0.
      * apply Qc_eqb_spec in E0. subst k. discriminate.
      * cbn [upto_unit existsb]. rewrite Uk. reflexivity.
Qed.

(* ---- step-up after step-down ---- *)
Lemma parcor_const_den num d0 : d0 <> 0 ->
  parcor num [d0] =
  Ok (sd_loop d0 (length (strip0 (map (fun x => x / d0) num)) - 1) (strip0 (map (fun x => x / d0) num))).
Proof.
  intro Hd. unfold parcor. cbn [lead0]. apply Qc_eqb_false in Hd. rewrite Hd.
  cbn [strip0]. rewrite Hd. reflexivity.
Qed.

Theorem stepup_stepdown_id num d0 ks :
  d0 <> 0 -> cf num 0 = d0 -> parcor num [d0] = Ok (ks, false) ->
  rebuild ks = strip0 (map (fun x => x / d0) num).
Proof.
  intros Hd H0 H. rewrite parcor_const_den in H by exact Hd. injection H as H.
  set (A := strip0 (map (fun x => x / d0) num)) in *.
  assert (HA0 : cf A 0 = 1).
  { unfold A. rewrite cf_strip0. destruct num as [|x t].
    - rewrite cf_nil in H0. congruence.
    - unfold cf in *. cbn [map nth] in *. subst x. field. exact Hd. }
  destruct A as [|a t] eqn:EA; [rewrite cf_nil in HA0; discriminate|].
  replace (length (a :: t) - 1)%nat with (length t) in H by (simpl; lia).
  destruct (sd_then_rebuild (length t) d0 (a :: t) eq_refl HA0) as [R _].
  - rewrite H. reflexivity.
  - rewrite H in R. exact R.
Qed.

(* ---- ParCorError ---- *)
Theorem parcor_error_iff_unit_k num den ks err : parcor num den = Ok (ks, err) ->
  (err = true <-> exists k, In k ks /\ k * k = 1) /\ ks = upto_unit ks.
Proof.
  intro H. destruct (parcor_err_iff num den ks err H) as [E1 E2]. split; [|exact E2].
  rewrite E1. rewrite existsb_exists. split; intros [k [Hin Hk]]; exists k; split; try exact Hin;
    apply unitk_spec; exact Hk.
Qed.

(* a unit coefficient, if any, is the last one yielded *)
Lemma upto_unit_last ks : ks = upto_unit ks ->
  forall pre k post, ks = pre ++ k :: post -> k * k = 1 -> post = [].
Proof.
  revert ks. intros ks H pre. revert ks H. induction pre as [|p pre IH]; intros ks H k post E Hk.
  - subst ks. cbn [app upto_unit] in H. apply unitk_spec in Hk. rewrite Hk in H.
    injection H as H. exact H.
  - subst ks. cbn [app upto_unit] in H. destruct (unitk p).
    + injection H as H. destruct pre; discriminate.
    + injection H as H. apply (IH _ H k post eq_refl Hk).
Qed.
