(* C11 - model of audiolazy.lazy_lpc.parcor and parcor_stable (with the part of
   the ZFilter constructor they depend on).  Filters are coefficient lists,
   index = power of z^-1; exceptions are explicit values.  No proofs here.

     def parcor(fir_filt):
       den = fir_filt.denominator
       if len(den) != 1:
         raise ValueError("Filter has feedback")
       elif den[0] != 1:
         fir_filt /= den[0]
       for m in xrange(len(fir_filt.numerator) - 1, 0, -1):
         k = fir_filt.numpoly[m]
         yield k
         zB = fir_filt(1 / z) * z ** -m
         try:
           fir_filt = (fir_filt - k * zB) / (1 - k ** 2)
         except ZeroDivisionError:
           raise ParCorError("Can't find next PARCOR coefficient")
         fir_filt = (fir_filt - fir_filt.numpoly[0]) + 1

     def parcor_stable(filt):
       den = filt.denpoly
       try:
         return all(abs(k) < 1 for k in parcor(ZFilter(den / den[0])))
       except ParCorError:
         return False

   What the ZFilter arithmetic does to the numerator polynomial (x = z^-1) in
   these lines, with the constant denominator d0 carried along unchanged:
     * "fir_filt /= den[0]" divides every numerator coefficient by d0 but KEEPS
       the denominator polynomial d0;
     * zB has coefficient a_(m-p) at power p;
     * "fir_filt - c" with a number c subtracts c*d0 from the constant term
       (the number becomes the filter c/1 and the two are cross-multiplied);
       "+ 1" adds d0: the constant term a0 becomes a0 - a0*d0 + d0 (= 1 when
       d0 = 1 or a0 = 1).
   Window abstraction: entry p of the next filter is computed from entries p
   and m-p of the current one, and the next pass reads entry m-1 only, so the
   coefficients of the next filter outside the powers 0..m-1 (entry m, which is
   zero when a0 = 1, and the negative powers that appear when a0 <> 1) are
   never read again; the model keeps the window 0..m-1 only. *)
From Coq Require Import List Bool Arith ZArith QArith Qcanon.
From AL Require Import Base.CaseLib C11.Lev.
Import ListNotations.
Open Scope Qc_scope.

(* abs(k) *)
Definition qabs (k : Qc) : Qc := if Qc_ltb k 0 then - k else k.

(* LinearFilter.__init__: Poly(...) drops the zero coefficients, then
   "power = min(key for key, value in self.denpoly.terms())" (ValueError on an
   all-zero denominator: min of an empty sequence) and both polynomials are
   multiplied by x ** -power.  [lead0 den] = (power, coefficients from there) *)
Fixpoint lead0 (den : list Qc) : option (nat * list Qc) :=
  match den with
  | [] => None
  | x :: t => if Qc_eqb x 0
              then match lead0 t with None => None | Some (j, r) => Some (S j, r) end
              else Some (O, den)
  end.

(* the numerator after the shift by x ** -j: causal only if its first j
   coefficients are zero (else "numerator" raises ValueError: Non-causal filter) *)
Definition shiftnum (j : nat) (num : list Qc) : option (list Qc) :=
  if forallb (fun x => Qc_eqb x 0) (firstn j num) then Some (skipn j num) else None.

(* the "for m" loop on the window 0..m of the numerator; d = den[0].
   Result: the coefficients yielded so far, and whether ParCorError was raised. *)
Fixpoint sd_loop (d : Qc) (m : nat) (A : list Qc) {struct m} : list Qc * bool :=
  match m with
  | O => ([], false)
  | S m' =>
      let k := nth (S m') A 0 in                         (* k = fir_filt.numpoly[m]; yield k *)
      let q := 1 - k * k in
      if Qc_eqb q 0 then ([k], true)                     (* 1 / (1 - k ** 2): ZeroDivisionError *)
      else
        let A1 := map (fun p => (nth p A 0 - k * nth (S m' - p) A 0) / q) (seq 0 (S m')) in
        let a0 := hd 0 A1 in
        let A2 := (a0 - a0 * d + d) :: tl A1 in          (* (fir_filt - numpoly[0]) + 1 *)
        let r := sd_loop d m' A2 in
        (k :: fst r, snd r)
  end.

(* parcor(ZFilter(num, den)) *)
Definition parcor (num den : list Qc) : result (list Qc * bool) :=
  match lead0 den with
  | None => Err ValueError                               (* constructor: empty denominator *)
  | Some (j, dl) =>
      match strip0 dl with
      | [d0] =>
          match shiftnum j num with
          | None => Err ValueError                       (* Non-causal filter *)
          | Some num' =>
              let A := strip0 (map (fun x => x / d0) num') in     (* fir_filt.numerator *)
              Ok (sd_loop d0 (length A - 1) A)
          end
      | _ => Err ValueError                              (* Filter has feedback *)
      end
  end.

(* parcor_stable(ZFilter(num, den)) depends on den only *)
Definition lt1 (k : Qc) : bool := Qc_ltb (qabs k) 1.
Definition parcor_stable (den : list Qc) : result bool :=
  match lead0 den with
  | None => Err ValueError
  | Some (_, dl) =>
      let dp := strip0 dl in                             (* filt.denpoly *)
      let d0 := hd 0 dp in
      let A := strip0 (map (fun x => x / d0) dp) in      (* ZFilter(den / den[0]).numerator *)
      let r := sd_loop 1 (length A - 1) A in
      Ok (forallb lt1 (fst r) && negb (snd r))           (* all(...) ; except ParCorError: False *)
  end.
