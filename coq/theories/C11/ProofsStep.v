(* C11 - step-down (the loop of parcor) and step-up (rebuild) are inverse to
   each other on monic filters; ParCorError iff a yielded coefficient has
   magnitude one. *)
From Coq Require Import List Bool Arith ZArith QArith Qcanon Lia.
From AL Require Import Base.CaseLib C11.Lev C11.Model C11.Spec C11.Lib.
Import ListNotations.
Open Scope Qc_scope.

(* ---------------------------------------------------------------- up1 / rebuild *)
Lemma length_up1 A k : length (up1 A k) = S (length A).
Proof.
  unfold up1. rewrite ladd_padd, length_padd, app_length, map_length. simpl.
  rewrite rev_length. lia.
Qed.

Lemma cf_up1 A k i : cf (up1 A k) i = cf (A ++ [0]) i + k * cf (0 :: rev A) i.
Proof. unfold up1. rewrite cf_ladd, cf_map_mul. reflexivity. Qed.

Lemma cf_snoc0 A i : cf (A ++ [0]) i = cf A i.
Proof.
  destruct (Nat.lt_ge_cases i (length A)) as [L|G].
  - apply cf_app_l. exact L.
  - rewrite cf_app_r by exact G. rewrite (cf_beyond A) by exact G.
    destruct (i - length A)%nat as [|[|n]]; reflexivity.
Qed.

Lemma cf_up1_0 A k : cf (up1 A k) 0 = cf A 0.
Proof. rewrite cf_up1, cf_snoc0, cf_B. simpl. ring. Qed.

Lemma cf_up1_mid A k i : (1 <= i)%nat -> (i <= length A)%nat ->
  cf (up1 A k) i = cf A i + k * cf A (length A - i).
Proof.
  intros H1 H2. rewrite cf_up1, cf_snoc0, cf_B.
  replace ((1 <=? i) && (i <=? length A))%nat with true; [reflexivity|].
  symmetry. apply andb_true_iff. split; apply Nat.leb_le; lia.
Qed.

Lemma cf_up1_last A k : (1 <= length A)%nat -> cf (up1 A k) (length A) = k * cf A 0.
Proof.
  intro H. rewrite cf_up1_mid by lia. rewrite cf_beyond by lia. rewrite Nat.sub_diag. ring.
Qed.

Lemma length_rebuild ks : length (rebuild ks) = S (length ks).
Proof. induction ks as [|k r IH]; simpl; [reflexivity|]. rewrite length_up1, IH. reflexivity. Qed.

Lemma rebuild_monic ks : cf (rebuild ks) 0 = 1.
Proof. induction ks as [|k r IH]; simpl; [reflexivity|]. rewrite cf_up1_0. exact IH. Qed.

(* ---------------------------------------------------------------- one pass of the loop *)
Definition down (d : Qc) (m' : nat) (A : list Qc) : list Qc :=
  let k := nth (S m') A 0 in
  let q := 1 - k * k in
  let A1 := map (fun p => (nth p A 0 - k * nth (S m' - p) A 0) / q) (seq 0 (S m')) in
  let a0 := hd 0 A1 in
  (a0 - a0 * d + d) :: tl A1.

Lemma sd_loop_S d m' A :
  sd_loop d (S m') A =
  let k := cf A (S m') in
  if Qc_eqb (1 - k * k) 0 then ([k], true)
  else (k :: fst (sd_loop d m' (down d m' A)), snd (sd_loop d m' (down d m' A))).
Proof. reflexivity. Qed.

Lemma unit_test k : Qc_eqb (1 - k * k) 0 = unitk k.
Proof.
  unfold unitk. destruct (Qc_eqb (k * k) 1) eqn:E.
  - apply Qc_eqb_spec in E. apply Qc_eqb_spec. rewrite E. ring.
  - apply Qc_eqb_false in E. apply Qc_eqb_false. intro H. apply E.
    assert (k * k = 1 - (1 - k * k)) as -> by ring. rewrite H. ring.
Qed.

Lemma unitk_false k : unitk k = false -> 1 - k * k <> 0.
Proof. rewrite <- unit_test. apply Qc_eqb_false. Qed.

Lemma length_down d m' A : length (down d m' A) = S m'.
Proof. unfold down. cbn [seq map hd tl length]. rewrite map_length, seq_length. reflexivity. Qed.

Lemma cf_down_0 d m' A :
  cf (down d m' A) 0 =
  let k := cf A (S m') in let a0 := (cf A 0 - k * cf A (S m')) / (1 - k * k) in a0 - a0 * d + d.
Proof. unfold down. cbn [seq map hd tl]. unfold cf. cbn [nth]. rewrite Nat.sub_0_r. reflexivity. Qed.

Lemma cf_down_S d m' A p : (S p < S m')%nat ->
  cf (down d m' A) (S p) =
  let k := cf A (S m') in (cf A (S p) - k * cf A (S m' - S p)) / (1 - k * k).
Proof.
  intro H. unfold down. cbn [seq map hd tl].
  change (cf (?x :: ?l) (S p)) with (cf l p).
  rewrite <- seq_shift, map_map.
  rewrite cf_map_seq by lia. reflexivity.
Qed.

Lemma down_monic d m' A : cf A 0 = 1 -> unitk (cf A (S m')) = false -> cf (down d m' A) 0 = 1.
Proof.
  intros H0 Hk. rewrite cf_down_0. cbv zeta. rewrite H0.
  apply unitk_false in Hk. field. exact Hk.
Qed.

(* stepping down what was stepped up *)
Lemma down_up1 d A k : (1 <= length A)%nat -> cf A 0 = 1 -> unitk k = false ->
  down d (length A - 1) (up1 A k) = A.
Proof.
  intros HL H0 Hk. pose proof (unitk_false k Hk) as Hq.
  destruct (length A) as [|m'] eqn:EL; [lia|]. replace (S m' - 1)%nat with m' by lia.
  assert (Hlast : cf (up1 A k) (S m') = k).
  { rewrite <- EL. rewrite cf_up1_last by lia. rewrite H0. ring. }
  apply cf_ext.
  - rewrite length_down. lia.
  - rewrite length_down. intros i Hi. destruct i as [|p].
    + rewrite cf_down_0. cbv zeta. rewrite Hlast, cf_up1_0, H0. field. exact Hq.
    + rewrite cf_down_S by lia. cbv zeta. rewrite Hlast.
      rewrite !cf_up1_mid by lia. rewrite EL.
      replace (S m' - (S m' - S p))%nat with (S p) by lia.
      field. exact Hq.
Qed.

(* stepping up what was stepped down *)
Lemma up1_down d m' A : length A = S (S m') -> cf A 0 = 1 -> unitk (cf A (S m')) = false ->
  up1 (down d m' A) (cf A (S m')) = A.
Proof.
  intros HL H0 Hk. pose proof (unitk_false _ Hk) as Hq. set (k := cf A (S m')) in *.
  pose proof (down_monic d m' A H0 Hk) as HD0. fold k in HD0.
  apply cf_ext.
  - rewrite length_up1, length_down. lia.
  - rewrite length_up1, length_down. intros i Hi.
    destruct i as [|p].
    + rewrite cf_up1_0, HD0. symmetry. exact H0.
    + destruct (Nat.eq_dec (S p) (S m')) as [E|NE].
      * rewrite E. pose proof (cf_up1_last (down d m' A) k) as HU.
        rewrite length_down in HU. rewrite HU by lia. rewrite HD0. unfold k. ring.
      * rewrite cf_up1_mid by (rewrite ?length_down; lia). rewrite length_down.
        rewrite cf_down_S by lia. cbv zeta. fold k.
        destruct (S m' - S p)%nat as [|t] eqn:Et; [lia|].
        rewrite cf_down_S by lia. cbv zeta. fold k.
        replace (S m' - S t)%nat with (S p) by lia.
        field. exact Hq.
Qed.

(* ---------------------------------------------------------------- the whole loop *)
Theorem sd_rebuild d ks : sd_loop d (length ks) (rebuild ks) = (upto_unit ks, existsb unitk ks).
Proof.
  induction ks as [|k r IH]; [reflexivity|].
  cbn [length rebuild upto_unit existsb]. rewrite sd_loop_S. cbv zeta.
  assert (Hlast : cf (up1 (rebuild r) k) (S (length r)) = k).
  { rewrite <- length_rebuild. rewrite cf_up1_last by (rewrite length_rebuild; lia).
    rewrite rebuild_monic. ring. }
  rewrite Hlast, unit_test. destruct (unitk k) eqn:Hk; [reflexivity|].
  pose proof (down_up1 d (rebuild r) k) as HD. rewrite length_rebuild in HD.
  replace (S (length r) - 1)%nat with (length r) in HD by lia.
  rewrite HD by (try lia; try apply rebuild_monic; exact Hk).
  rewrite IH. reflexivity.
Qed.

Theorem sd_then_rebuild : forall m d A, length A = S m -> cf A 0 = 1 ->
  snd (sd_loop d m A) = false ->
  rebuild (fst (sd_loop d m A)) = A /\ length (fst (sd_loop d m A)) = m.
Proof.
  induction m as [|m' IH]; intros d A HL H0 He.
  - destruct A as [|a [|b t]]; try discriminate. simpl. unfold cf in H0. simpl in H0.
    subst. split; reflexivity.
  - rewrite sd_loop_S in *. cbv zeta in *. rewrite unit_test in *.
    destruct (unitk (cf A (S m'))) eqn:Hk; [discriminate|]. cbn [fst snd] in *.
    destruct (IH d (down d m' A)) as [IH1 IH2].
    + apply length_down.
    + apply down_monic; assumption.
    + exact He.
    + cbn [rebuild length]. rewrite IH1, IH2. split; [|reflexivity].
      apply up1_down; assumption.
Qed.

(* ParCorError exactly when a yielded coefficient has magnitude one *)
Theorem sd_err_iff : forall m d A, snd (sd_loop d m A) = existsb unitk (fst (sd_loop d m A)).
Proof.
  induction m as [|m' IH]; intros d A; [reflexivity|].
  rewrite sd_loop_S. cbv zeta. rewrite unit_test.
  destruct (unitk (cf A (S m'))) eqn:Hk; cbn [fst snd existsb]; rewrite ?Hk; [reflexivity|].
  rewrite IH. reflexivity.
Qed.

(* the error, when there is one, is raised right after the unit coefficient *)
Theorem sd_unit_is_last : forall m d A,
  fst (sd_loop d m A) = upto_unit (fst (sd_loop d m A)).
Proof.
  induction m as [|m' IH]; intros d A; [reflexivity|].
  rewrite sd_loop_S. cbv zeta. rewrite unit_test.
  destruct (unitk (cf A (S m'))) eqn:Hk; cbn [fst upto_unit]; rewrite Hk; [reflexivity|].
  f_equal. apply IH.
Qed.

Theorem parcor_err_iff num den ks err : parcor num den = Ok (ks, err) ->
  err = existsb unitk ks /\ ks = upto_unit ks.
Proof.
  unfold parcor. destruct (lead0 den) as [[j dl]|]; [|discriminate].
  destruct (strip0 dl) as [|d0 [|? ?]]; try discriminate.
  destruct (shiftnum j num) as [num'|]; [|discriminate].
  intro H. injection H as H.
  pose proof (sd_err_iff (length (strip0 (map (fun x => x / d0) num')) - 1) d0
                (strip0 (map (fun x => x / d0) num'))) as E1.
  pose proof (sd_unit_is_last (length (strip0 (map (fun x => x / d0) num')) - 1) d0
                (strip0 (map (fun x => x / d0) num'))) as E2.
  rewrite H in E1, E2. cbn [fst snd] in *. split; assumption.
Qed.

(* ---------------------------------------------------------------- strip0 *)
Lemma strip0_snoc a x : strip0 (a ++ [x]) = if Qc_eqb x 0 then strip0 a else a ++ [x].
Proof.
  induction a as [|y a IH].
  - simpl. destruct (Qc_eqb x 0); reflexivity.
  - cbn [app strip0]. rewrite IH. destruct (Qc_eqb x 0) eqn:E; [reflexivity|].
    destruct (a ++ [x]) eqn:Ea; [destruct a; discriminate|reflexivity].
Qed.

Lemma list_snoc (a : list Qc) n : length a = S n -> a = firstn n a ++ [cf a n].
Proof.
  revert a. induction n as [|n IH]; intros a H.
  - destruct a as [|x [|y t]]; try discriminate. reflexivity.
  - destruct a as [|x a]; [discriminate|]. cbn [firstn app]. unfold cf. cbn [nth]. f_equal.
    apply IH. simpl in H. lia.
Qed.

Lemma strip0_last_nz a n : length a = S n -> cf a n <> 0 -> strip0 a = a.
Proof.
  intros HL Hn. rewrite (list_snoc a n HL) at 1. rewrite strip0_snoc.
  apply Qc_eqb_false in Hn. rewrite Hn. symmetry. apply list_snoc. exact HL.
Qed.

Lemma up1_zero A : up1 A 0 = A ++ [0].
Proof.
  apply cf_ext.
  - rewrite length_up1, app_length. simpl. lia.
  - intros i _. rewrite cf_up1. ring.
Qed.

Lemma strip0_rebuild ks : strip0 (rebuild ks) = rebuild (dropz ks).
Proof.
  induction ks as [|k r IH].
  - reflexivity.
  - cbn [dropz]. destruct (Qc_eqb k 0) eqn:E.
    + apply Qc_eqb_spec in E. subst k. cbn [rebuild]. rewrite up1_zero, strip0_snoc.
      replace (Qc_eqb 0 0) with true by reflexivity. exact IH.
    + apply Qc_eqb_false in E. apply (strip0_last_nz _ (S (length r))).
      * apply length_rebuild.
      * cbn [rebuild]. rewrite <- (length_rebuild r).
        rewrite cf_up1_last by (rewrite length_rebuild; lia).
        rewrite rebuild_monic. intro H. apply E. rewrite <- H. ring.
Qed.

Lemma dropz_idem ks : dropz (dropz ks) = dropz ks.
Proof.
  induction ks as [|k r IH]; [reflexivity|]. cbn [dropz].
  destruct (Qc_eqb k 0) eqn:E; [exact IH|]. cbn [dropz]. rewrite E. reflexivity.
Qed.

(* parcor of the filter rebuilt from reflection coefficients *)
Theorem parcor_rebuild ks :
  parcor (strip0 (rebuild ks)) [1] = Ok (upto_unit (dropz ks), existsb unitk (dropz ks)).
Proof.
  unfold parcor. cbn [lead0]. replace (Qc_eqb 1 0) with false by reflexivity.
  cbn [strip0]. replace (Qc_eqb 1 0) with false by reflexivity.
  unfold shiftnum. cbn [firstn forallb skipn].
  rewrite (map_ext (fun x => x / 1) (fun x => x)) by (intro x; field; discriminate).
  rewrite map_id. rewrite !strip0_rebuild. rewrite !dropz_idem.
  rewrite length_rebuild. replace (S (length (dropz ks)) - 1)%nat with (length (dropz ks)) by lia.
  rewrite sd_rebuild. reflexivity.
Qed.
