(* C11 - parcor_stable = True implies every pole strictly inside the unit
   circle (any order); gain invariance. *)
From Coq Require Import List Bool Arith ZArith QArith Qcanon Qreals Reals Lia Lra Psatz.
From AL Require Import Base.CaseLib C11.Lev C11.Model C11.Spec C11.Lib C11.ProofsStep C11.ProofsMain
  C11.SpecR C11.ProofsStab.
Import ListNotations.

(* ---------------------------------------------------------------- list structure *)
Lemma lead0_spec den j dl : lead0 den = Some (j, dl) ->
  den = repeat 0%Qc j ++ dl /\ cf dl 0 <> 0%Qc.
Proof.
  revert j dl. induction den as [|x t IH]; intros j dl H; [discriminate|].
  cbn [lead0] in H. destruct (Qc_eqb x 0) eqn:E.
  - apply Qc_eqb_spec in E. subst x. destruct (lead0 t) as [[j' r]|]; [|discriminate].
    injection H as <- <-. destruct (IH j' r eq_refl) as [H1 H2]. split; [|exact H2].
    cbn [repeat app]. f_equal. exact H1.
  - injection H as <- <-. split; [reflexivity|]. apply Qc_eqb_false in E. exact E.
Qed.

Lemma strip0_zeros a : exists t, a = strip0 a ++ repeat 0%Qc t.
Proof.
  induction a as [|x a [t IH]]; [exists 0%nat; reflexivity|].
  cbn [strip0]. destruct (strip0 a) as [|y s] eqn:E.
  - destruct (Qc_eqb x 0) eqn:Ex.
    + apply Qc_eqb_spec in Ex. subst x. exists (S t). cbn [app repeat]. f_equal. exact IH.
    + exists t. cbn [app]. f_equal. exact IH.
  - exists t. cbn [app]. f_equal. exact IH.
Qed.

Lemma strip0_map (f : Qc -> Qc) a : (forall x, Qc_eqb (f x) 0 = Qc_eqb x 0) ->
  strip0 (map f a) = map f (strip0 a).
Proof.
  intro Hf. induction a as [|x a IH]; [reflexivity|].
  cbn [map strip0]. rewrite IH. destruct (strip0 a) as [|y s].
  - cbn [map]. rewrite Hf. destruct (Qc_eqb x 0); reflexivity.
  - reflexivity.
Qed.

Lemma strip0_idem a : strip0 (strip0 a) = strip0 a.
Proof.
  induction a as [|x a IH]; [reflexivity|].
  cbn [strip0]. destruct (strip0 a) as [|y s] eqn:E.
  - destruct (Qc_eqb x 0) eqn:Ex; [reflexivity|]. cbn [strip0]. rewrite Ex. reflexivity.
  - cbn [strip0]. cbn [strip0] in IH. rewrite IH. reflexivity.
Qed.

Lemma rev_repeat0 n : rev (repeat 0%Qc n) = repeat 0%Qc n.
Proof.
  induction n as [|n IH]; [reflexivity|]. cbn [repeat rev]. rewrite IH. symmetry. apply repeat_cons.
Qed.

Lemma div_eqb0 d x : d <> 0%Qc -> Qc_eqb (x / d)%Qc 0 = Qc_eqb x 0.
Proof.
  intro Hd. destruct (Qc_eqb x 0) eqn:E.
  - apply Qc_eqb_spec in E. subst x. apply Qc_eqb_spec. field. exact Hd.
  - apply Qc_eqb_false in E. apply Qc_eqb_false. intro H. apply E.
    assert (x = (x / d) * d)%Qc as -> by (field; exact Hd). rewrite H. ring.
Qed.

Lemma mul_eqb0 c x : c <> 0%Qc -> Qc_eqb (c * x)%Qc 0 = Qc_eqb x 0.
Proof.
  intro Hc. destruct (Qc_eqb x 0) eqn:E.
  - apply Qc_eqb_spec in E. subst x. apply Qc_eqb_spec. ring.
  - apply Qc_eqb_false in E. apply Qc_eqb_false. intro H. apply E.
    assert (x = (c * x) / c)%Qc as -> by (field; exact Hc). rewrite H. field. exact Hc.
Qed.

(* the monic polynomial handed to parcor by parcor_stable *)
Lemma stable_unfold den j dl : lead0 den = Some (j, dl) ->
  exists d0 dp' t,
    d0 <> 0%Qc /\ den = repeat 0%Qc j ++ (d0 :: dp') ++ repeat 0%Qc t /\
    strip0 dl = d0 :: dp' /\
    parcor_stable den =
    Ok (let A := map (fun x => (x / d0)%Qc) (d0 :: dp') in
        let r := sd_loop 1%Qc (length dp') A in forallb lt1 (fst r) && negb (snd r)).
Proof.
  intro HL. destruct (lead0_spec den j dl HL) as [Hden Hnz].
  destruct (strip0_zeros dl) as [t Ht].
  destruct (strip0 dl) as [|d0 dp'] eqn:Edp.
  - exfalso. apply Hnz. rewrite <- (cf_strip0 dl 0), Edp. apply cf_nil.
  - assert (Hd0 : d0 <> 0%Qc).
    { intro Z. apply Hnz. rewrite <- (cf_strip0 dl 0), Edp. exact Z. }
    exists d0, dp', t. split; [exact Hd0|]. split; [rewrite Hden, Ht at 1; reflexivity|].
    split; [reflexivity|].
    unfold parcor_stable. rewrite HL, Edp. cbn [hd].
    rewrite (strip0_map (fun x => (x / d0)%Qc)) by (intro x; apply div_eqb0; exact Hd0).
    rewrite <- Edp, strip0_idem, Edp. cbv zeta. cbn [map length]. rewrite map_length.
    replace (S (length dp') - 1)%nat with (length dp') by lia. reflexivity.
Qed.

Open Scope R_scope.

Theorem stable_implies_poles_inside den : parcor_stable den = Ok true -> poles_inside den.
Proof.
  intro H. destruct (lead0 den) as [[j dl]|] eqn:HL.
  2: { unfold parcor_stable in H. rewrite HL in H. discriminate. }
  destruct (stable_unfold den j dl HL) as (d0 & dp' & t & Hd0 & Hden & _ & HS).
  rewrite HS in H. cbv zeta in H. injection H as H.
  apply andb_true_iff in H as [Hk He]. apply negb_true_iff in He.
  set (A := map (fun x => (x / d0)%Qc) (d0 :: dp')) in *.
  assert (HA0 : cf A 0 = 1%Qc).
  { unfold A, cf. cbn [map nth]. field. exact Hd0. }
  assert (HAl : length A = S (length dp')).
  { unfold A. rewrite map_length. reflexivity. }
  destruct (sd_then_rebuild (length dp') 1%Qc A HAl HA0 He) as [HR _].
  set (ks := fst (sd_loop 1%Qc (length dp') A)) in *.
  assert (Hdp : d0 :: dp' = map (Qcmult d0) A).
  { unfold A. rewrite map_map. rewrite <- (map_id (d0 :: dp')) at 1. apply map_ext.
    intro x. field. exact Hd0. }
  intros z Hpole. unfold is_pole in Hpole.
  destruct (Rlt_or_le (cnorm2 z) 1) as [L|L]; [exact L|]. exfalso.
  destruct (lattice_energy ks z Hk L) as [_ HQ].
  assert (HN : 0 < cnorm2 (polez den z)).
  { rewrite polez_pevQ, Hden. rewrite !rev_app_distr, !rev_repeat0.
    rewrite <- app_assoc.
    apply pevQ_lead_zeros; [lra|].
    rewrite pevQ_snoc_zeros. rewrite Hdp, <- map_rev, pevQ_scale.
    rewrite <- HR. fold (Qz ks z). unfold cnorm2 in *. cbn [fst snd].
    pose proof (QR_nz d0 Hd0) as Hd.
    assert (0 < QR d0 * QR d0) by nra.
    replace (QR d0 * fst (Qz ks z) * (QR d0 * fst (Qz ks z)) + QR d0 * snd (Qz ks z) * (QR d0 * snd (Qz ks z)))
      with ((QR d0 * QR d0) * (fst (Qz ks z) * fst (Qz ks z) + snd (Qz ks z) * snd (Qz ks z))) by ring.
    apply Rmult_lt_0_compat; assumption. }
  rewrite Hpole in HN. unfold cnorm2 in HN. cbn [fst snd] in HN. lra.
Qed.

Close Scope R_scope.

(* ---------------------------------------------------------------- gain *)
Lemma lead0_scale c den : c <> 0%Qc ->
  lead0 (map (Qcmult c) den) =
  match lead0 den with None => None | Some (j, dl) => Some (j, map (Qcmult c) dl) end.
Proof.
  intro Hc. induction den as [|x t IH]; [reflexivity|].
  cbn [map lead0]. rewrite mul_eqb0 by exact Hc. destruct (Qc_eqb x 0).
  - rewrite IH. destruct (lead0 t) as [[j dl]|]; reflexivity.
  - reflexivity.
Qed.

Theorem gain_invariance c den : c <> 0%Qc ->
  parcor_stable (map (Qcmult c) den) = parcor_stable den.
Proof.
  intro Hc. destruct (lead0 den) as [[j dl]|] eqn:HL.
  - destruct (stable_unfold den j dl HL) as (d0 & dp' & t & Hd0 & _ & Hdp & HS).
    assert (HL' : lead0 (map (Qcmult c) den) = Some (j, map (Qcmult c) dl)).
    { rewrite lead0_scale by exact Hc. rewrite HL. reflexivity. }
    destruct (stable_unfold _ j _ HL') as (e0 & ep' & t' & He0 & _ & Hep & HS').
    rewrite HS, HS'.
    rewrite (strip0_map (Qcmult c)) in Hep by (intro x; apply mul_eqb0; exact Hc).
    rewrite Hdp in Hep. cbn [map] in Hep. injection Hep as <- <-.
    cbv zeta. rewrite map_length.
    replace (map (fun x => (x / (c * d0))%Qc) ((c * d0)%Qc :: map (Qcmult c) dp'))
      with (map (fun x => (x / d0)%Qc) (d0 :: dp')); [reflexivity|].
    change ((c * d0)%Qc :: map (Qcmult c) dp') with (map (Qcmult c) (d0 :: dp')).
    rewrite map_map. apply map_ext. intro x. field. split; assumption.
  - unfold parcor_stable. rewrite lead0_scale by exact Hc. rewrite HL. reflexivity.
Qed.
