(* C11 - the proved statements, each closed by [exact] on a lemma of Proofs*.v.
   Statements are spelled out over Lev.v / Model.v / Spec.v only.
   Reflection coefficients are listed LAST FIRST ([k_p; ...; k_1]), the order
   in which parcor yields them. *)
From Coq Require Import List Bool Arith ZArith QArith Qcanon.
From AL Require Import Base.CaseLib C11.Lev C11.Model C11.Spec C11.ProofsStep C11.ProofsLev C11.ProofsMain.
Import ListNotations.
Open Scope Qc_scope.

(* parcor(levinson_durbin(r)): whenever levinson_durbin returns (A, e), Durbin's
   recursion on the same lags succeeds with the same filter A and error e and
   some reflection coefficients ks = [k_p; ...; k_1];  A is the step-up of ks;
   e = r0 * prod (1 - k^2);  and parcor of the returned filter (its numerator
   ends at the highest non-zero coefficient, hence strip0 / dropz) yields those
   coefficients last first, up to and including the first one of magnitude 1,
   after which it raises ParCorError. *)
Theorem C11_stepdown_inverts_levinson : forall r order A e,
  levinson_durbin r order = Ok (A, e) ->
  exists ks,
    durbin r (match order with Some p => p | None => (length r - 1)%nat end) = Some (A, e, ks) /\
    A = rebuild ks /\
    e = cf r 0 * prod1mk2 ks /\
    parcor (strip0 A) [1] = Ok (upto_unit (dropz ks), existsb unitk (dropz ks)).
Proof. exact stepdown_inverts_levinson. Qed.
Print Assumptions C11_stepdown_inverts_levinson.

(* the regular case of the property text: no |k| = 1.  parcor yields exactly
   k_q ... k_1 without error, error = r0 * prod (1 - k^2) over what it yields,
   and the step-up recursion on what it yields returns the same filter *)
Theorem C11_stepdown_inverts_levinson_regular : forall r order A e,
  levinson_durbin r order = Ok (A, e) ->
  exists ks,
    durbin r (match order with Some p => p | None => (length r - 1)%nat end) = Some (A, e, ks) /\
    (existsb unitk ks = false ->
       parcor (strip0 A) [1] = Ok (dropz ks, false) /\
       e = cf r 0 * prod1mk2 (dropz ks) /\
       rebuild (dropz ks) = strip0 A).
Proof. exact stepdown_inverts_levinson_regular. Qed.
Print Assumptions C11_stepdown_inverts_levinson_regular.

(* only the top coefficient of a successful levinson_durbin can have magnitude
   one; then the error is 0, parcor yields it and raises ParCorError *)
Theorem C11_levinson_unit_only_top : forall r order A e k ks,
  levinson_durbin r order = Ok (A, e) ->
  durbin r (match order with Some p => p | None => (length r - 1)%nat end) = Some (A, e, k :: ks) ->
  existsb unitk ks = false /\
  (unitk k = true -> e = 0 /\ parcor (strip0 A) [1] = Ok ([k], true)).
Proof. exact levinson_unit_only_top. Qed.
Print Assumptions C11_levinson_unit_only_top.

(* error product, on Durbin's recursion itself *)
Theorem C11_error_product : forall r p A E ks, durbin r p = Some (A, E, ks) ->
  A = rebuild ks /\ E = cf r 0 * prod1mk2 ks /\ length ks = p.
Proof. exact durbin_rebuild. Qed.
Print Assumptions C11_error_product.

(* the loop of parcor undoes the step-up recursion, for every coefficient list
   and every constant denominator d carried along *)
Theorem C11_stepdown_stepup : forall d ks,
  sd_loop d (length ks) (rebuild ks) = (upto_unit ks, existsb unitk ks).
Proof. exact sd_rebuild. Qed.
Print Assumptions C11_stepdown_stepup.

(* rebuilding: when parcor of a monic filter num/d0 (num[0] = d0) ends without
   ParCorError, the step-up recursion on the yielded coefficients returns the
   filter (numerator over d0, trailing zeros dropped) *)
Theorem C11_stepup_stepdown_id : forall num d0 ks,
  d0 <> 0 -> cf num 0 = d0 -> parcor num [d0] = Ok (ks, false) ->
  rebuild ks = strip0 (map (fun x => x / d0) num).
Proof. exact stepup_stepdown_id. Qed.
Print Assumptions C11_stepup_stepdown_id.

(* ParCorError is raised exactly when a yielded coefficient has |k| = 1 (any
   numerator, monic or not, any denominator), and that coefficient is the last
   one yielded *)
Theorem C11_parcor_error_iff_unit_k : forall num den ks err,
  parcor num den = Ok (ks, err) ->
  (err = true <-> exists k, In k ks /\ k * k = 1) /\ ks = upto_unit ks.
Proof. exact parcor_error_iff_unit_k. Qed.
Print Assumptions C11_parcor_error_iff_unit_k.

(* ---------------------------------------------------------------- non-vacuity
   (equalities of rationals are decided with Qc_eqb: two Qc values with the same
   canonical fraction are equal, Base.CaseLib.Qc_eqb_spec) *)
Definition qls := list_eqb Qc_eqb.
Definition C11_ex_r : list Qc := [qc 1 1; qc 1 2; qc 1 3; qc 1 7].
Definition C11_ex_A : list Qc := [qc 1 1; qc (-127) 280; qc (-31) 210; qc 23 280].
Definition C11_ex_ks : list Qc := [qc 23 280; qc (-1) 9; qc (-1) 2].
Example C11_example_levinson :
  match levinson_durbin C11_ex_r None, durbin C11_ex_r 3, parcor C11_ex_A [1] with
  | Ok (A, e), Some (A', e', ks), Ok (pk, err) =>
      qls A C11_ex_A && Qc_eqb e (qc 25957 35280) && qls A' C11_ex_A && Qc_eqb e' (qc 25957 35280)
      && qls ks C11_ex_ks && negb (existsb unitk ks) && qls pk C11_ex_ks && negb err
      && qls (rebuild C11_ex_ks) C11_ex_A
  | _, _, _ => false
  end = true.
Proof. vm_compute. reflexivity. Qed.
Print Assumptions C11_example_levinson.

(* r = [1, 1]: k_1 = -1, error 0, parcor yields -1 and raises ParCorError *)
Example C11_example_unit :
  match levinson_durbin [qc 1 1; qc 1 1] None, durbin [qc 1 1; qc 1 1] 1, parcor [qc 1 1; qc (-1) 1] [1] with
  | Ok (A, e), Some (_, _, ks), Ok (pk, err) =>
      qls A [qc 1 1; qc (-1) 1] && Qc_eqb e 0 && qls ks [qc (-1) 1] && qls pk [qc (-1) 1] && err
  | _, _, _ => false
  end = true.
Proof. vm_compute. reflexivity. Qed.
Print Assumptions C11_example_unit.

(* a filter over the constant denominator 2 with num[0] = d0 *)
Example C11_example_rebuild :
  match parcor [qc 2 1; qc 1 1; qc 1 3] [qc 2 1] with
  | Ok (pk, err) => qls pk [qc 1 6; qc 3 7] && negb err
                    && qls (rebuild [qc 1 6; qc 3 7]) [qc 1 1; qc 1 2; qc 1 6]
  | Err _ => false
  end = true.
Proof. vm_compute. reflexivity. Qed.
Print Assumptions C11_example_rebuild.
