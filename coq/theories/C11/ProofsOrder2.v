(* C11 - orders 1 and 2: parcor_stable answers True exactly when every complex
   root of the denominator is strictly inside the unit circle (all coefficients,
   real or complex-conjugate roots). *)
From Coq Require Import List Bool Arith ZArith QArith Qcanon Qreals Reals Lia Lra Psatz.
From AL Require Import Base.CaseLib C11.Lev C11.Model C11.Spec C11.Lib C11.ProofsStep C11.ProofsMain
  C11.SpecR C11.ProofsStab C11.ProofsPoles.
Import ListNotations.

Lemma sd1 x0 b1 : sd_loop 1%Qc 1 [x0; b1] = if unitk b1 then ([b1], true) else ([b1], false).
Proof.
  rewrite sd_loop_S. cbv zeta. rewrite unit_test. unfold cf. cbn [nth].
  destruct (unitk b1); reflexivity.
Qed.

Lemma sd2 x0 b1 b2 : sd_loop 1%Qc 2 [x0; b1; b2] =
  if unitk b2 then ([b2], true)
  else let k1 := ((b1 - b2 * b1) / (1 - b2 * b2))%Qc in
       if unitk k1 then ([b2; k1], true) else ([b2; k1], false).
Proof.
  rewrite sd_loop_S. cbv zeta. rewrite unit_test. unfold cf. cbn [nth].
  destruct (unitk b2); [reflexivity|].
  unfold down. cbn [nth seq map hd tl Nat.sub]. rewrite sd1.
  destruct (unitk _); reflexivity.
Qed.

Lemma lt1_not_unit k : lt1 k = true -> unitk k = false.
Proof.
  intro H. apply lt1_R in H. destruct (unitk k) eqn:U; [|reflexivity].
  apply unitk_spec in U. apply (f_equal QR) in U. rewrite QR_mul, QR_1 in U. nra.
Qed.

Open Scope R_scope.

(* the polynomial a0 z^2 + a1 z + a2 at z = (x, y) *)
Lemma polez3 a0 a1 a2 x y :
  polez [a0; a1; a2] (x, y) =
  (QR a0 * (x * x - y * y) + QR a1 * x + QR a2, QR a0 * (2 * x * y) + QR a1 * y).
Proof.
  unfold polez. cbn [rev app map pev fst snd]. apply pair_eq; ring.
Qed.

(* roots inside => Jury conditions (explicit roots through sqrt) *)
Lemma jury_from_poles a0 a1 a2 : a0 <> 0%Qc -> poles_inside [a0; a1; a2] ->
  let B1 := QR a1 / QR a0 in let B2 := QR a2 / QR a0 in
  B2 * B2 < 1 /\ B1 < 1 + B2 /\ - B1 < 1 + B2.
Proof.
  intros Ha0 HP B1 B2. pose proof (QR_nz a0 Ha0) as HA0.
  assert (HA1 : QR a1 = B1 * QR a0) by (unfold B1; field; exact HA0).
  assert (HA2 : QR a2 = B2 * QR a0) by (unfold B2; field; exact HA0).
  assert (Hroot : forall x y, x * x - y * y + B1 * x + B2 = 0 -> 2 * x * y + B1 * y = 0 ->
                              x * x + y * y < 1).
  { intros x y H1 H2. apply (HP (x, y)). unfold is_pole. rewrite polez3, HA1, HA2.
    apply pair_eq.
    - replace (QR a0 * (x * x - y * y) + B1 * QR a0 * x + B2 * QR a0)
        with (QR a0 * (x * x - y * y + B1 * x + B2)) by ring. rewrite H1. ring.
    - replace (QR a0 * (2 * x * y) + B1 * QR a0 * y) with (QR a0 * (2 * x * y + B1 * y)) by ring.
      rewrite H2. ring. }
  clearbody B1 B2. clear HP HA1 HA2.
  destruct (Rle_or_lt 0 (B1 * B1 - 4 * B2)) as [D|D].
  - (* two real roots *)
    set (s := sqrt (B1 * B1 - 4 * B2)).
    assert (Hs : s * s = B1 * B1 - 4 * B2) by (apply sqrt_sqrt; exact D).
    pose proof (Hroot ((- B1 + s) / 2) 0) as R1. pose proof (Hroot ((- B1 - s) / 2) 0) as R2.
    assert (N1 : (- B1 + s) / 2 * ((- B1 + s) / 2) + 0 * 0 < 1) by (apply R1; nra).
    assert (N2 : (- B1 - s) / 2 * ((- B1 - s) / 2) + 0 * 0 < 1) by (apply R2; nra).
    set (x1 := (- B1 + s) / 2) in *. set (x2 := (- B1 - s) / 2) in *.
    assert (Hsum : x1 + x2 = - B1) by (unfold x1, x2; field).
    assert (Hprod : x1 * x2 = B2) by (unfold x1, x2; nra).
    assert (L1 : -1 < x1 < 1) by nra. assert (L2 : -1 < x2 < 1) by nra.
    assert (P1 : 0 < (1 - x1) * (1 - x2)) by (apply Rmult_lt_0_compat; lra).
    assert (P2 : 0 < (1 + x1) * (1 + x2)) by (apply Rmult_lt_0_compat; lra).
    assert (P3 : x1 * x1 * (x2 * x2) < 1) by nra.
    repeat split; nra.
  - (* a conjugate pair *)
    set (s := sqrt (- (B1 * B1 - 4 * B2))).
    assert (Hs : s * s = - (B1 * B1 - 4 * B2)) by (apply sqrt_sqrt; lra).
    pose proof (Hroot (- B1 / 2) (s / 2)) as R1.
    assert (N1 : - B1 / 2 * (- B1 / 2) + s / 2 * (s / 2) < 1) by (apply R1; nra).
    assert (HB2 : B2 < 1) by nra.
    assert (HB2' : 0 < B2) by nra.
    assert (0 <= (1 - B2) * (1 - B2)) by nra.
    repeat split; nra.
Qed.

Close Scope R_scope.

(* Jury conditions => parcor_stable answers True *)
Lemma stable_from_jury a0 a1 a2 : a0 <> 0%Qc ->
  (let B1 := QR a1 / QR a0 in let B2 := QR a2 / QR a0 in
   B2 * B2 < 1 /\ B1 < 1 + B2 /\ - B1 < 1 + B2)%R ->
  parcor_stable [a0; a1; a2] = Ok true.
Proof.
  intros Ha0 HJ. cbv zeta in HJ. destruct HJ as (J1 & J2 & J3).
  pose proof (QR_nz a0 Ha0) as HA0.
  rewrite <- (QR_div a1 a0 Ha0) in J2, J3. rewrite <- (QR_div a2 a0 Ha0) in J1, J2, J3.
  set (b1 := (a1 / a0)%Qc) in *. set (b2 := (a2 / a0)%Qc) in *.
  assert (E0 : Qc_eqb a0 0 = false) by (apply Qc_eqb_false; exact Ha0).
  assert (L2 : lt1 b2 = true) by (apply lt1_R; nra).
  unfold parcor_stable. cbn [lead0]. rewrite E0. cbn [strip0].
  destruct (Qc_eqb a2 0) eqn:E2.
  - apply Qc_eqb_spec in E2.
    assert (Hb2 : QR b2 = 0%R).
    { unfold b2. rewrite E2. replace (0 / a0)%Qc with 0%Qc by (field; exact Ha0). apply QR_0. }
    rewrite Hb2 in *.
    destruct (Qc_eqb a1 0) eqn:E1.
    + rewrite E0. cbn [hd map strip0]. rewrite div_eqb0, E0 by exact Ha0. reflexivity.
    + assert (T1 : Qc_eqb b1 0 = false) by (unfold b1; rewrite div_eqb0 by exact Ha0; exact E1).
      cbn [hd map strip0]. fold b1. rewrite T1.
      cbn [length Nat.sub]. rewrite sd1.
      assert (L1 : lt1 b1 = true) by (apply lt1_R; lra).
      rewrite (lt1_not_unit b1 L1). cbn [fst snd forallb negb]. rewrite L1. reflexivity.
  - assert (T2 : Qc_eqb b2 0 = false) by (unfold b2; rewrite div_eqb0 by exact Ha0; exact E2).
    cbn [hd map strip0]. fold b1 b2. rewrite T2.
    cbn [length Nat.sub]. rewrite sd2. rewrite (lt1_not_unit b2 L2). cbv zeta.
    set (k1 := ((b1 - b2 * b1) / (1 - b2 * b2))%Qc).
    assert (Hq : (1 - b2 * b2 <> 0)%Qc) by (apply unitk_false, lt1_not_unit, L2).
    assert (Hk1 : QR k1 = (QR b1 / (1 + QR b2))%R).
    { unfold k1. rewrite QR_div by exact Hq. rewrite !QR_sub, !QR_mul, QR_1. field.
      split; nra. }
    assert (L1 : lt1 k1 = true).
    { apply lt1_R. rewrite Hk1. assert (0 < 1 + QR b2)%R by nra. split.
      - apply (Rmult_lt_reg_r (1 + QR b2)); [assumption|].
        unfold Rdiv. rewrite Rmult_assoc, Rinv_l by lra. lra.
      - apply (Rmult_lt_reg_r (1 + QR b2)); [assumption|].
        unfold Rdiv. rewrite Rmult_assoc, Rinv_l by lra. lra. }
    rewrite (lt1_not_unit k1 L1). cbn [fst snd forallb negb]. rewrite L1, L2. reflexivity.
Qed.

Theorem stable_iff_order2 a0 a1 a2 : a0 <> 0%Qc ->
  (parcor_stable [a0; a1; a2] = Ok true <-> poles_inside [a0; a1; a2]).
Proof.
  intro Ha0. split.
  - apply stable_implies_poles_inside.
  - intro HP. apply stable_from_jury; [exact Ha0|]. apply jury_from_poles; assumption.
Qed.

(* order 1 is the case a2 = 0 (one more pole at z = 0) *)
Lemma stable_order1_as_2 a0 a1 : parcor_stable [a0; a1; 0%Qc] = parcor_stable [a0; a1].
Proof.
  unfold parcor_stable. cbn [lead0]. destruct (Qc_eqb a0 0) eqn:E0.
  - destruct (Qc_eqb a1 0) eqn:E1; reflexivity.
  - reflexivity.
Qed.

Lemma poles_order1_as_2 a0 a1 : poles_inside [a0; a1; 0%Qc] <-> poles_inside [a0; a1].
Proof.
  assert (HZ : forall z, polez [a0; a1; 0%Qc] z =
               (fst z * fst (polez [a0; a1] z) - snd z * snd (polez [a0; a1] z),
                fst z * snd (polez [a0; a1] z) + snd z * fst (polez [a0; a1] z))%R).
  { intro z. rewrite !polez_pevQ. cbn [rev app]. apply pevQ_shift. }
  split; intros HP z Hz; unfold is_pole in *.
  - apply HP. unfold is_pole. rewrite HZ, Hz. cbn [fst snd]. apply pair_eq; ring.
  - destruct (Rlt_or_le (cnorm2 z) 1) as [L|L]; [exact L|]. exfalso.
    assert (HN : (cnorm2 (polez [a0; a1; 0%Qc] z) = cnorm2 z * cnorm2 (polez [a0; a1] z))%R).
    { rewrite HZ. apply cnorm2_mul. }
    rewrite Hz in HN. unfold cnorm2 at 1 in HN. cbn [fst snd] in HN.
    assert (HN0 : (cnorm2 (polez [a0; a1] z) = 0)%R).
    { pose proof (cnorm2_nonneg (polez [a0; a1] z)). nra. }
    assert (Hp : polez [a0; a1] z = (0, 0)%R).
    { destruct (polez [a0; a1] z) as [u v]. unfold cnorm2 in HN0. cbn [fst snd] in HN0.
      assert (u = 0)%R by nra. assert (v = 0)%R by nra. subst. reflexivity. }
    pose proof (HP z Hp). lra.
Qed.

Theorem stable_iff_order1 a0 a1 : a0 <> 0%Qc ->
  (parcor_stable [a0; a1] = Ok true <-> poles_inside [a0; a1]).
Proof.
  intro Ha0. rewrite <- stable_order1_as_2, <- poles_order1_as_2. apply stable_iff_order2. exact Ha0.
Qed.

(* the coefficient (Jury) conditions used by the checker of family "coef" decide
   the pole location for a0 z^2 + a1 z + a2 *)
Theorem jury_iff_poles a0 a1 a2 : a0 <> 0%Qc ->
  ((QR a2 / QR a0 * (QR a2 / QR a0) < 1 /\ QR a1 / QR a0 < 1 + QR a2 / QR a0
    /\ - (QR a1 / QR a0) < 1 + QR a2 / QR a0)%R
   <-> poles_inside [a0; a1; a2]).
Proof.
  intro Ha0. split.
  - intro HJ. apply stable_implies_poles_inside. apply stable_from_jury; [exact Ha0|exact HJ].
  - intro HP. exact (jury_from_poles a0 a1 a2 Ha0 HP).
Qed.

(* ---------------------------------------------------------------- Spec.jury
   the boolean function evaluated by the checker of family "coef" *)
Lemma jury3_value a0 a1 a2 : a0 <> 0%Qc ->
  jury [a0; a1; a2] =
  Some (if Qc_eqb a2 0
        then (if Qc_eqb a1 0 then true else Qc_ltb (a1 * a1) (a0 * a0))
        else (Qc_ltb ((a2 / a0) * (a2 / a0)) 1 && Qc_ltb (a1 / a0) (1 + a2 / a0)
              && Qc_ltb (- (a1 / a0)) (1 + a2 / a0))).
Proof.
  intro Ha0. apply Qc_eqb_false in Ha0. unfold jury, trim. cbn [rev app dropz].
  destruct (Qc_eqb a2 0); [|reflexivity].
  destruct (Qc_eqb a1 0); [|reflexivity].
  rewrite Ha0. reflexivity.
Qed.

Theorem jury_decides a0 a1 a2 b : a0 <> 0%Qc -> jury [a0; a1; a2] = Some b ->
  (b = true <-> poles_inside [a0; a1; a2]).
Proof.
  intros Ha0 HJ. rewrite jury3_value in HJ by exact Ha0. injection HJ as <-.
  rewrite <- (jury_iff_poles a0 a1 a2 Ha0).
  pose proof (QR_nz a0 Ha0) as HA0.
  destruct (Qc_eqb a2 0) eqn:E2.
  - apply Qc_eqb_spec in E2. subst a2. rewrite QR_0.
    replace (0 / QR a0)%R with 0%R by (field; exact HA0).
    destruct (Qc_eqb a1 0) eqn:E1.
    + apply Qc_eqb_spec in E1. subst a1. rewrite QR_0.
      replace (0 / QR a0)%R with 0%R by (field; exact HA0).
      split; [intros _; repeat split; lra|reflexivity].
    + rewrite Qc_ltb_R, !QR_mul.
      set (t := (QR a1 / QR a0)%R).
      assert (Ht : QR a1 = (t * QR a0)%R) by (unfold t; field; exact HA0).
      rewrite Ht. assert (0 < QR a0 * QR a0)%R by nra.
      split.
      * intro H1. assert (t * t < 1)%R by nra. repeat split; nra.
      * intros (_ & H1 & H2). assert (t * t < 1)%R by nra. nra.
  - rewrite !andb_true_iff, !Qc_ltb_R.
    rewrite !QR_add, QR_opp, !QR_mul, QR_1, !QR_div by exact Ha0.
    tauto.
Qed.

Theorem jury_decides_order1 a0 a1 b : a0 <> 0%Qc -> jury [a0; a1] = Some b ->
  (b = true <-> poles_inside [a0; a1]).
Proof.
  intros Ha0 HJ. rewrite <- poles_order1_as_2. apply jury_decides; [exact Ha0|].
  rewrite <- HJ. unfold jury, trim. cbn [rev app dropz]. reflexivity.
Qed.
