(* C11 - private copy of the part of the C10 model that C11 needs: the
   Levinson-Durbin recursion of audiolazy.lazy_lpc.levinson_durbin on
   coefficient lists (index = power of z^-1).  The copy is tied to the real
   levinson_durbin by C11's own correspondence family "lev" (harness/C11.py),
   it does not depend on the C10 directory.

     def inner(a, b):
       return sum(acdata[abs(i-j)] * ai * bj for i, ai in enumerate(a.numlist)
                                             for j, bj in enumerate(b.numlist))
     A = ZFilter(1)
     for m in xrange(1, order + 1):
       B = A(1 / z) * z ** -m
       A -= inner(A, z ** -m) / inner(B, B) * B        # ZeroDivisionError -> ParCorError
     A.error = inner(A, A)

   No proofs in this file. *)
From Coq Require Import List Bool Arith ZArith QArith Qcanon.
From AL Require Import Base.CaseLib.
Import ListNotations.
Open Scope Qc_scope.

Inductive exn := ParCorError | ZeroDivisionError | ValueError | IndexError.
Inductive result (T : Type) := Ok (x : T) | Err (e : exn).
Arguments Ok {T} x.
Arguments Err {T} e.

(* sum(f(i, x) for i, x in enumerate(l)) *)
Fixpoint sum_enum_from {T : Type} (f : nat -> T -> Qc) (i : nat) (l : list T) : Qc :=
  match l with
  | [] => 0
  | x :: t => f i x + sum_enum_from f (S i) t
  end.
Definition sum_enum {T : Type} (f : nat -> T -> Qc) (l : list T) : Qc := sum_enum_from f 0 l.

(* abs(i - j) on naturals *)
Definition absdiff (i j : nat) : nat := (i - j) + (j - i).

(* coefficient lists *)
Fixpoint padd (a b : list Qc) : list Qc :=
  match a, b with
  | [], _ => b
  | _, [] => a
  | x :: a', y :: b' => (x + y) :: padd a' b'
  end.
Definition scale (c : Qc) (a : list Qc) : list Qc := map (Qcmult c) a.
Definition popp (a : list Qc) : list Qc := map Qcopp a.
Definition psub (a b : list Qc) : list Qc := padd a (popp b).
Definition unit (m : nat) : list Qc := repeat 0 m ++ [1].          (* z ** -m *)

(* Poly drops zero coefficients: [numerator] ends at the highest non-zero one *)
Fixpoint strip0 (a : list Qc) : list Qc :=
  match a with
  | [] => []
  | x :: t => match strip0 t with
              | [] => if Qc_eqb x 0 then [] else [x]
              | t' => x :: t'
              end
  end.

Definition inner (K : nat -> nat -> Qc) (a b : list Qc) : Qc :=
  sum_enum (fun i ai => sum_enum (fun j bj => K i j * ai * bj) b) a.

Definition toep (acdata : list Qc) : nat -> nat -> Qc := fun i j => nth (absdiff i j) acdata 0.

(* Stream(acdata).append(0).take(order + 1), used when order >= len(acdata) *)
Definition extend (acdata : list Qc) (order : nat) : list Qc :=
  acdata ++ repeat 0 (S order - length acdata).

(* one pass of the loop body; A has the coefficients of powers 0 .. m-1 *)
Fixpoint lev_loop (acdata : list Qc) (steps m : nat) (A : list Qc) : option (list Qc) :=
  match steps with
  | O => Some A
  | S s =>
      let B := 0 :: rev A in
      let num := inner (toep acdata) A (unit m) in
      let den := inner (toep acdata) B B in
      if Qc_eqb den 0 then None
      else lev_loop acdata s (S m) (psub A (scale (num / den) B))
  end.

Definition lev_run (acdata : list Qc) (order : nat) : result (list Qc * Qc) :=
  match lev_loop acdata order 1 [1] with
  | None => Err ParCorError
  | Some A => Ok (A, inner (toep acdata) A A)          (* A.error = inner(A, A) *)
  end.

Definition levinson_durbin (acdata : list Qc) (order : option nat) : result (list Qc * Qc) :=
  match order with
  | None => match acdata with
            | [] => Err IndexError                     (* order = -1: acdata[0] in inner(A, A) *)
            | _ => lev_run acdata (length acdata - 1)
            end
  | Some p => lev_run (if length acdata <=? p then extend acdata p else acdata) p
  end.
