(* C11 - the Levinson-Durbin loop of the code (double-sum inner products,
   Lev.v) is Durbin's recursion (Spec.durbin): same filter, same reflection
   coefficients, and the stored error inner(A, A) is r0 * prod (1 - k^2).
   Invariant: after m-1 passes A is monic of length m and satisfies the normal
   equations sum_j a_j r|i-j| = 0 for i = 1 .. m-1. *)
From Coq Require Import List Bool Arith ZArith QArith Qcanon Lia.
From AL Require Import Base.CaseLib C11.Lev C11.Model C11.Spec C11.Lib C11.ProofsStep.
Import ListNotations.
Open Scope Qc_scope.

Lemma lev_loop_app acd s : forall t m A,
  lev_loop acd (s + t) m A =
  match lev_loop acd s m A with
  | Some A' => lev_loop acd t (m + s) A'
  | None => None
  end.
Proof.
  induction s as [|s IH]; intros t m A.
  - simpl. rewrite Nat.add_0_r. reflexivity.
  - cbn [Nat.add lev_loop].
    destruct (Qc_eqb (inner (toep acd) (0 :: rev A) (0 :: rev A)) 0); [reflexivity|].
    rewrite IH. replace (S m + s)%nat with (m + S s)%nat by lia. reflexivity.
Qed.

Section Levinson.
Variables r acd : list Qc.
Hypothesis Hacd : forall i, cf acd i = cf r i.

Let K := toep acd.

Lemma K_eq i j : K i j = cf r (absdiff i j).
Proof. unfold K, toep. apply Hacd. Qed.

Lemma K_sym i j : K i j = K j i.
Proof. rewrite !K_eq. f_equal. unfold absdiff. lia. Qed.

Lemma K_flip m i j : (i <= m)%nat -> (j <= m)%nat -> K i (m - j) = K (m - i) j.
Proof. intros. rewrite !K_eq. f_equal. unfold absdiff. lia. Qed.

Definition NR (A : list Qc) (m i : nat) : Qc := sumn (fun j => cf A j * K i j) m.
Definition ipN (N : nat) (a b : list Qc) : Qc :=
  sumn (fun i => sumn (fun j => K i j * cf a i * cf b j) N) N.

Lemma inner_ipN a b N : (length a <= N)%nat -> (length b <= N)%nat -> inner K a b = ipN N a b.
Proof.
  intros Ha Hb. unfold inner, ipN.
  transitivity (sumn (fun i => sumn (fun j => K i j * cf a i * cf b j) N) (length a)).
  - rewrite sum_enum_sumn. apply sumn_ext. intros i _. rewrite sum_enum_sumn.
    symmetry. apply sumn_le; [exact Hb|]. intros j Hj. rewrite (cf_beyond b j) by exact Hj. ring.
  - symmetry. apply sumn_le; [exact Ha|]. intros i Hi. apply sumn_zero'. intros j _.
    rewrite (cf_beyond a i) by exact Hi. ring.
Qed.

Lemma ipN_NR a b N : ipN N a b = sumn (fun i => cf a i * NR b N i) N.
Proof.
  unfold ipN, NR. apply sumn_ext. intros i _. rewrite <- sumn_scale.
  apply sumn_ext. intros j _. ring.
Qed.

Definition Inv (m : nat) (A : list Qc) : Prop :=
  length A = m /\ cf A 0 = 1 /\ forall i, (1 <= i)%nat -> (i < m)%nat -> NR A m i = 0.

Lemma qform_E m A : Inv m A -> (1 <= m)%nat -> ipN m A A = NR A m 0.
Proof.
  intros (HL & H0 & HN) Hm. rewrite ipN_NR.
  rewrite (sumn_single _ m 0%nat) by (try lia; intros i Hi Hne; rewrite HN by lia; ring).
  rewrite H0. ring.
Qed.

Lemma NR_B m A i : length A = m -> (i <= m)%nat -> NR (0 :: rev A) (S m) i = NR A m (m - i).
Proof.
  intros HL Hi. unfold NR. rewrite sumn_rev. cbn [sumn].
  replace (S m - 1 - m)%nat with 0%nat by lia.
  change (cf (0 :: rev A) 0) with 0. rewrite Qcmult_0_l, Qcplus_0_r.
  apply sumn_ext. intros j Hj.
  replace (S m - 1 - j)%nat with (m - j)%nat by lia.
  rewrite cf_B, HL.
  replace ((1 <=? m - j) && (m - j <=? m))%nat with true
    by (symmetry; apply andb_true_iff; split; apply Nat.leb_le; lia).
  replace (m - (m - j))%nat with j by lia.
  rewrite (K_flip m i j) by lia. reflexivity.
Qed.

Lemma ip_BB m A : Inv m A -> (1 <= m)%nat -> ipN (S m) (0 :: rev A) (0 :: rev A) = NR A m 0.
Proof.
  intros HI Hm. pose proof HI as (HL & H0 & HN). rewrite ipN_NR.
  rewrite (sumn_ext _ (fun i => cf (0 :: rev A) i * NR A m (m - i)))
    by (intros i Hi; rewrite NR_B by (try exact HL; lia); reflexivity).
  rewrite sumn_rev. cbn [sumn].
  replace (S m - 1 - m)%nat with 0%nat by lia.
  change (cf (0 :: rev A) 0) with 0. rewrite Qcmult_0_l, Qcplus_0_r.
  rewrite (sumn_ext _ (fun i => cf A i * NR A m i)).
  - rewrite (sumn_single _ m 0%nat) by (try lia; intros i Hi Hne; rewrite HN by lia; ring).
    rewrite H0. ring.
  - intros i Hi. replace (S m - 1 - i)%nat with (m - i)%nat by lia.
    rewrite cf_B, HL.
    replace ((1 <=? m - i) && (m - i <=? m))%nat with true
      by (symmetry; apply andb_true_iff; split; apply Nat.leb_le; lia).
    replace (m - (m - i))%nat with i by lia. reflexivity.
Qed.

Lemma num_NR m A : length A = m -> inner K A (unit m) = NR A m m.
Proof.
  intro HL. rewrite (inner_ipN _ _ (S m)) by (rewrite ?length_unit; lia).
  rewrite ipN_NR. cbn [sumn]. rewrite (cf_beyond A m) by lia. rewrite Qcmult_0_l, Qcplus_0_r.
  unfold NR at 2. apply sumn_ext. intros i Hi. f_equal.
  unfold NR. rewrite (sumn_single _ (S m) m) by (try lia; intros j Hj Hne; rewrite cf_unit;
    destruct (Nat.eqb_spec j m); try lia; ring).
  rewrite cf_unit, Nat.eqb_refl. rewrite (K_sym i m). ring.
Qed.

Lemma NR_durbin m A : NR A m m = sumn (fun i => cf A i * cf r (m - i)) m.
Proof.
  unfold NR. apply sumn_ext. intros j Hj. rewrite K_eq. do 2 f_equal. unfold absdiff. lia.
Qed.

Lemma NR_step m A c i : length A = m -> (i <= m)%nat ->
  NR (psub A (scale c (0 :: rev A))) (S m) i = NR A m i - c * NR A m (m - i).
Proof.
  intros HL Hi. rewrite <- (NR_B m A i HL Hi). unfold NR at 1.
  rewrite (sumn_ext _ (fun j => cf A j * K i j + (- c) * (cf (0 :: rev A) j * K i j)))
    by (intros j _; rewrite cf_psub, cf_scale; ring).
  rewrite sumn_add, sumn_scale. fold (NR (0 :: rev A) (S m) i).
  cbn [sumn]. rewrite (cf_beyond A m) by lia. fold (NR A m i). ring.
Qed.

Lemma psub_up1 A c : psub A (scale c (0 :: rev A)) = up1 A (- c).
Proof.
  apply cf_ext.
  - unfold psub, popp, scale. rewrite length_padd, length_up1, !map_length. simpl.
    rewrite rev_length. lia.
  - intros i _. rewrite cf_psub, cf_scale, cf_up1, cf_snoc0. ring.
Qed.

(* one pass of the loop from a state that satisfies the invariant *)
Lemma lev_step m A E : Inv m A -> (1 <= m)%nat -> NR A m 0 = E -> E <> 0 ->
  let k := - (sumn (fun i => cf A i * cf r (m - i)) m) / E in
  inner K (0 :: rev A) (0 :: rev A) = E /\
  psub A (scale (inner K A (unit m) / inner K (0 :: rev A) (0 :: rev A)) (0 :: rev A)) = up1 A k /\
  Inv (S m) (up1 A k) /\ NR (up1 A k) (S m) 0 = E * (1 - k * k).
Proof.
  intros HI Hm HE HE0 k. pose proof HI as (HL & H0 & HN).
  assert (Hden : inner K (0 :: rev A) (0 :: rev A) = E).
  { rewrite (inner_ipN _ _ (S m)) by (simpl; rewrite rev_length; lia).
    rewrite ip_BB by assumption. exact HE. }
  assert (Hnum : inner K A (unit m) = - k * E).
  { rewrite num_NR by exact HL. rewrite NR_durbin. unfold k. field. exact HE0. }
  assert (Hc : inner K A (unit m) / inner K (0 :: rev A) (0 :: rev A) = - k).
  { rewrite Hden, Hnum. field. exact HE0. }
  split; [exact Hden|]. rewrite Hc.
  assert (Hup : psub A (scale (- k) (0 :: rev A)) = up1 A k).
  { rewrite psub_up1. f_equal. ring. }
  split; [exact Hup|].
  assert (HNm : NR A m m = - k * E).
  { rewrite <- num_NR by exact HL. exact Hnum. }
  split.
  - split; [rewrite length_up1; lia|]. split; [rewrite cf_up1_0; exact H0|].
    intros i Hi1 Hi2. rewrite <- Hup. rewrite NR_step by (try exact HL; lia).
    destruct (Nat.eq_dec i m) as [->|Hne].
    + rewrite Nat.sub_diag, HNm, HE. ring.
    + rewrite HN by lia. rewrite HN by lia. ring.
  - rewrite <- Hup. rewrite NR_step by (try exact HL; lia).
    rewrite Nat.sub_0_r, HNm, HE. ring.
Qed.

(* the loop against Durbin's recursion *)
Theorem lev_durbin : forall p,
  match durbin r p with
  | Some (A, E, ks) =>
      lev_loop acd p 1 [1] = Some A /\ Inv (S p) A /\ NR A (S p) 0 = E
  | None => lev_loop acd p 1 [1] = None
  end.
Proof.
  induction p as [|q IH].
  - cbn [durbin lev_loop]. split; [reflexivity|]. split.
    + split; [reflexivity|]. split; [reflexivity|]. intros; lia.
    + unfold NR. cbn [sumn]. rewrite K_eq. unfold cf at 1. simpl nth.
      replace (absdiff 0 0) with 0%nat by reflexivity. ring.
  - pose proof (lev_loop_app acd q 1 1 [1]) as HS. replace (q + 1)%nat with (S q) in HS by lia.
    cbn [durbin]. destruct (durbin r q) as [[[A E] ks]|].
    + destruct IH as (HL & HI & HE). rewrite HS, HL.
      destruct (Qc_eqb E 0) eqn:EE.
      * apply Qc_eqb_spec in EE. cbn [lev_loop].
        replace (1 + q)%nat with (S q) by lia.
        assert (Hden : inner (toep acd) (0 :: rev A) (0 :: rev A) = 0).
        { fold K. rewrite (inner_ipN _ _ (S (S q))) by (destruct HI as (HLen & _); simpl; rewrite rev_length; lia).
          rewrite ip_BB by (try exact HI; lia). rewrite HE. exact EE. }
        rewrite Hden. reflexivity.
      * apply Qc_eqb_false in EE.
        destruct (lev_step (S q) A E HI ltac:(lia) HE EE) as (Hden & Hup & HI' & HE').
        cbn [lev_loop]. replace (1 + q)%nat with (S q) by lia.
        fold K. rewrite Hden.
        replace (Qc_eqb E 0) with false by (symmetry; apply Qc_eqb_false; exact EE).
        rewrite Hden in Hup. rewrite Hup.
        split; [reflexivity|]. split; [exact HI'|exact HE'].
    + rewrite HS, IH. reflexivity.
Qed.

(* the error stored by the code is the quadratic form inner(A, A) *)
Lemma inner_AA m A : Inv m A -> (1 <= m)%nat -> inner K A A = NR A m 0.
Proof.
  intros HI Hm. rewrite (inner_ipN _ _ m) by (destruct HI as (HL & _); lia).
  apply qform_E; assumption.
Qed.

End Levinson.

(* Durbin's recursion: the filter is the step-up of its reflection coefficients
   and the error is r0 * prod (1 - k^2), both by construction *)
Lemma durbin_rebuild r : forall p A E ks, durbin r p = Some (A, E, ks) ->
  A = rebuild ks /\ E = cf r 0 * prod1mk2 ks /\ length ks = p.
Proof.
  induction p as [|q IH]; intros A E ks H.
  - cbn [durbin] in H. injection H as <- <- <-. cbn. repeat split. ring.
  - cbn [durbin] in H. destruct (durbin r q) as [[[A0 E0] ks0]|]; [|discriminate].
    destruct (Qc_eqb E0 0); [discriminate|]. injection H as <- <- <-.
    destruct (IH A0 E0 ks0 eq_refl) as (HA & HE & HL). subst A0.
    cbn [rebuild prod1mk2 length]. repeat split; [|lia]. rewrite HE. ring.
Qed.

(* below the top, no reflection coefficient of a successful run has magnitude one *)
Lemma durbin_no_unit_below r : forall p A E k ks, durbin r (S p) = Some (A, E, k :: ks) ->
  existsb unitk ks = false.
Proof.
  intros p A E k ks H. cbn [durbin] in H.
  destruct (durbin r p) as [[[A0 E0] ks0]|] eqn:D; [|discriminate].
  destruct (Qc_eqb E0 0) eqn:EE; [discriminate|]. injection H as _ _ _ <-.
  apply Qc_eqb_false in EE. destruct (durbin_rebuild r p A0 E0 ks0 D) as (_ & HE & _).
  clear D. revert E0 EE HE. induction ks0 as [|k0 t IHt]; intros E0 EE HE; [reflexivity|].
  cbn [existsb prod1mk2] in *. destruct (unitk k0) eqn:U.
  - exfalso. apply EE. rewrite HE. unfold unitk in U. apply Qc_eqb_spec in U.
    assert (1 - k0 * k0 = 0) as -> by (rewrite U; ring). ring.
  - cbn [orb]. apply (IHt (cf r 0 * prod1mk2 t)); [|reflexivity].
    intro Z. apply EE. rewrite HE.
    assert (cf r 0 * ((1 - k0 * k0) * prod1mk2 t) = (1 - k0 * k0) * (cf r 0 * prod1mk2 t)) as -> by ring.
    rewrite Z. ring.
Qed.

(* ---------------------------------------------------------------- levinson_durbin *)
Definition lev_order (r : list Qc) (order : option nat) : nat :=
  match order with Some p => p | None => (length r - 1)%nat end.

Lemma cf_extend r p i : cf (extend r p) i = cf r i.
Proof.
  unfold extend. destruct (Nat.lt_ge_cases i (length r)) as [L|G].
  - apply cf_app_l. exact L.
  - rewrite cf_app_r by exact G. rewrite (cf_beyond r) by exact G.
    unfold cf. destruct (Nat.lt_ge_cases (i - length r) (S p - length r)) as [L2|G2].
    + apply nth_repeat.
    + apply nth_overflow. rewrite repeat_length. exact G2.
Qed.

Theorem levinson_is_durbin r order A e : levinson_durbin r order = Ok (A, e) ->
  exists ks, durbin r (lev_order r order) = Some (A, e, ks).
Proof.
  assert (Gen : forall acd p, (forall i, cf acd i = cf r i) -> lev_run acd p = Ok (A, e) ->
                exists ks, durbin r p = Some (A, e, ks)).
  { intros acd p Hacd H. unfold lev_run in H.
    pose proof (lev_durbin r acd Hacd p) as LD.
    destruct (durbin r p) as [[[A0 E0] ks]|].
    - destruct LD as (HL & HI & HE). rewrite HL in H. injection H as <- <-.
      exists ks. rewrite (inner_AA acd (S p) A0 HI) by lia. rewrite HE. reflexivity.
    - rewrite LD in H. discriminate. }
  unfold levinson_durbin. destruct order as [p|]; cbn [lev_order].
  - intro H. apply (Gen _ p) in H; [exact H|]. intro i.
    destruct (length r <=? p)%nat; [apply cf_extend|reflexivity].
  - destruct r as [|x t]; [discriminate|]. intro H.
    apply (Gen _ _ (fun i => eq_refl)) in H. exact H.
Qed.
