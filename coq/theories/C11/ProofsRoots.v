(* C11 - the root-to-pole link of the family "stab": the poles of the
   denominator from_roots g roots (g <> 0) are exactly the chosen roots (each
   real root, both members of each conjugate pair), so
   "forallb inside roots" decides "every pole strictly inside". *)
From Coq Require Import List Bool Arith ZArith QArith Qcanon Qreals Reals Lia Lra Psatz.
From AL Require Import Base.CaseLib C11.Lev C11.Model C11.Spec C11.Lib C11.ProofsStep C11.ProofsMain
  C11.SpecR C11.ProofsStab C11.ProofsPoles.
Import ListNotations.
Open Scope R_scope.

Definition cmul (a b : C) : C := (fst a * fst b - snd a * snd b, fst a * snd b + snd a * fst b).

Lemma cnorm2_cmul a b : cnorm2 (cmul a b) = cnorm2 a * cnorm2 b.
Proof. unfold cmul, cnorm2. cbn [fst snd]. ring. Qed.

Lemma cnorm2_zero z : cnorm2 z = 0 <-> z = (0, 0).
Proof.
  destruct z as [u v]. unfold cnorm2. cbn [fst snd]. split; intro H.
  - assert (u = 0) by nra. assert (v = 0) by nra. subst. reflexivity.
  - injection H as -> ->. ring.
Qed.

Lemma cmul_zero a b : cmul a b = (0, 0) <-> a = (0, 0) \/ b = (0, 0).
Proof.
  rewrite <- !cnorm2_zero, cnorm2_cmul. split; intro H.
  - apply Rmult_integral. exact H.
  - destruct H as [H|H]; rewrite H; ring.
Qed.

Lemma pevQ_pmul a b z : pevQ (pmul a b) z = cmul (pevQ a z) (pevQ b z).
Proof.
  induction a as [|x a IH].
  - cbn [pmul]. rewrite pevQ_nil. unfold cmul. cbn [fst snd]. apply pair_eq; ring.
  - cbn [pmul]. rewrite pevQ_ladd, pevQ_scale, pevQ_shift, IH, pevQ_cons.
    unfold cmul. cbn [fst snd]. apply pair_eq; ring.
Qed.

Lemma polez_from_roots g rs z : polez (from_roots g rs) z = pevQ (zpoly g rs) z.
Proof. unfold polez, from_roots. rewrite rev_involutive. reflexivity. Qed.

Lemma zfactor_root xy z : pevQ (zfactor xy) z = (0, 0) <-> root_match z xy.
Proof.
  destruct xy as [x y]. destruct z as [a b]. unfold root_match, zfactor. cbn [fst snd].
  destruct (Qc_eqb y 0) eqn:Ey.
  - apply Qc_eqb_spec in Ey. subst y. rewrite QR_0.
    rewrite !pevQ_cons, pevQ_nil. cbn [fst snd]. rewrite QR_opp, QR_1.
    split; intro H.
    + injection H as H1 H2. ring_simplify in H1. ring_simplify in H2. left. apply pair_eq; lra.
    + destruct H as [H|H]; injection H as -> ->; apply pair_eq; ring.
  - apply Qc_eqb_false in Ey. pose proof (QR_nz y Ey) as HY.
    rewrite !pevQ_cons, pevQ_nil. cbn [fst snd].
    rewrite QR_add, !QR_mul, QR_opp, QR_add, QR_1.
    set (X := QR x) in *. set (Y := QR y) in *.
    split; intro H.
    + injection H as H1 H2.
      assert (E2 : b * (a - X) = 0) by nra.
      assert (E1 : (a - X) * (a - X) + Y * Y = b * b) by nra.
      destruct (Rmult_integral _ _ E2) as [Hb|Ha].
      * exfalso. subst b. rewrite Rmult_0_l in E1.
        pose proof (Rle_0_sqr (a - X)) as S1. pose proof (Rle_0_sqr Y) as S2. unfold Rsqr in S1, S2.
        assert (HYY : Y * Y = 0) by lra. apply HY.
        destruct (Rmult_integral _ _ HYY); assumption.
      * assert (a = X) by lra. subst a.
        assert (E3 : (b - Y) * (b + Y) = 0) by nra.
        destruct (Rmult_integral _ _ E3) as [Hb|Hb]; [left|right]; apply pair_eq; lra.
    + destruct H as [H|H]; injection H as -> ->; apply pair_eq; ring.
Qed.

Theorem from_roots_poles g rs z : g <> 0%Qc ->
  (is_pole (from_roots g rs) z <-> exists xy, In xy rs /\ root_match z xy).
Proof.
  intro Hg. unfold is_pole. rewrite polez_from_roots.
  induction rs as [|xy t IH].
  - cbn [zpoly]. rewrite pevQ_cons, pevQ_nil. cbn [fst snd]. split.
    + intro H. injection H as H1 _. exfalso. apply (QR_nz g Hg). lra.
    + intros [xy [[] _]].
  - cbn [zpoly]. rewrite pevQ_pmul, cmul_zero, zfactor_root, IH. split.
    + intros [H|[xy' [Hin Hm]]].
      * exists xy. split; [left; reflexivity|exact H].
      * exists xy'. split; [right; exact Hin|exact Hm].
    + intros [xy' [[<-|Hin] Hm]].
      * left. exact Hm.
      * right. exists xy'. split; assumption.
Qed.

Lemma inside_R xy : inside xy = true <-> QR (fst xy) * QR (fst xy) + QR (snd xy) * QR (snd xy) < 1.
Proof. unfold inside. rewrite Qc_ltb_R, QR_add, !QR_mul, QR_1. reflexivity. Qed.

(* the checker of family "stab" decides the pole location *)
Theorem from_roots_poles_inside g rs : g <> 0%Qc ->
  (forallb inside rs = true <-> poles_inside (from_roots g rs)).
Proof.
  intro Hg. rewrite forallb_forall. split.
  - intros H z Hz. apply (from_roots_poles g rs z Hg) in Hz. destruct Hz as [xy [Hin Hm]].
    apply H in Hin. apply inside_R in Hin.
    destruct Hm as [-> | ->]; unfold cnorm2; cbn [fst snd]; nra.
  - intros H xy Hin. apply inside_R.
    assert (Hp : is_pole (from_roots g rs) (QR (fst xy), QR (snd xy))).
    { apply (from_roots_poles g rs _ Hg). exists xy. split; [exact Hin|left; reflexivity]. }
    apply H in Hp. unfold cnorm2 in Hp. cbn [fst snd] in Hp. exact Hp.
Qed.

(* hence, on the denominators of the family: True => all chosen roots inside
   (any degree); the converse is the part left to the correspondence *)
Theorem stable_roots_inside g rs : g <> 0%Qc ->
  parcor_stable (from_roots g rs) = Ok true -> forallb inside rs = true.
Proof.
  intros Hg H. apply (from_roots_poles_inside g rs Hg). apply stable_implies_poles_inside. exact H.
Qed.
