(* C11 - poles of a filter as complex numbers (definitions only).
   A complex number is a pair of Coq reals (re, im).  The denominator
   den[0] + den[1] z^-1 + ... + den[n] z^-n has its poles at the complex roots
   of  den[0] z^n + den[1] z^(n-1) + ... + den[n]. *)
From Coq Require Import List Reals QArith Qcanon Qreals.
Import ListNotations.

Definition QR (q : Qc) : R := Q2R (this q).

Definition C : Type := (R * R)%type.
Open Scope R_scope.

(* |z|^2 *)
Definition cnorm2 (z : C) : R := fst z * fst z + snd z * snd z.

(* sum_i l_i z^i  (Horner, lowest power first) *)
Fixpoint pev (l : list R) (z : C) : C :=
  match l with
  | [] => (0, 0)
  | a :: t => (a + (fst z * fst (pev t z) - snd z * snd (pev t z)),
               fst z * snd (pev t z) + snd z * fst (pev t z))
  end.

(* sum_i den_i z^(n-i), n = length den - 1 *)
Definition polez (den : list Qc) (z : C) : C := pev (map QR (rev den)) z.

Definition is_pole (den : list Qc) (z : C) : Prop := polez den z = (0, 0).

(* every pole strictly inside the unit circle *)
Definition poles_inside (den : list Qc) : Prop := forall z : C, is_pole den z -> cnorm2 z < 1.

(* z is the chosen root (x, y) of Spec.from_roots: x + i y or x - i y
   (the same number when y = 0) *)
Definition root_match (z : C) (xy : Qc * Qc) : Prop :=
  z = (QR (fst xy), QR (snd xy)) \/ z = (QR (fst xy), - QR (snd xy)).
