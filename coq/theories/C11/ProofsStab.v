(* C11 - parcor_stable and the poles: if parcor_stable answers True then every
   complex root of the denominator lies strictly inside the unit circle (any
   order), and the answer does not depend on a non-zero gain.

   WHAT IS NOT PROVED (the converse for order >= 3), and exactly why.
   Notation: A monic of order m (coefficients a_0 = 1 .. a_m, k = a_m),
   Q(z) = sum a_i z^(m-i) (the pole polynomial), P(z) = sum a_i z^i = z^m Q(1/z).
   The step-down gives  z (1 - k^2) Q'(z) = Q(z) - k P(z)  for the next Q'.
   The converse "all roots of Q in |z| < 1  =>  |k| < 1 and all roots of Q' in
   |z| < 1" needs, at EVERY level of the recursion, one of these equivalent facts:
     (M1) Vieta over C: a monic real polynomial all of whose complex roots lie in
          |z| < 1 has |constant coefficient| < 1   (k = +- product of the roots);
     (M2) |P(z)| <= |Q(z)| on |z| >= 1 whenever Q has no root there (P/Q is a
          finite Blaschke product; equivalently the maximum-modulus principle).
   Both are statements about ALL roots of Q, i.e. they need the factorisation
   Q = prod (z - c_i) over C (fundamental theorem of algebra).  Without it they
   are not provable: a real polynomial with |a_m| >= 1 and NO complex root at all
   would satisfy "all poles inside" vacuously, so the converse implies a
   root-existence statement.  In fact it is EQUIVALENT to the FTA: for a monic
   real p of degree m >= 1 with p(0) <> 0 take t with |t^m p(0)| >= 1; the
   converse applied to t^m p(z/t) (constant coefficient of magnitude >= 1, so
   parcor_stable is not True) yields a complex root of it, hence of p.  The algebra already here does not help: the energy
   identity |Q'|^2.. only yields |z Q'(z) ..| comparisons carrying a factor |z|,
   and removing that factor is the Schwarz lemma.  With explicit roots at the top
   level (from_roots) one gets |k_m| < 1 and the root location of Q', but Q' is
   then no longer given by roots, so the induction stops after one step.
   Installed libraries: stdlib Reals / Coquelicot have no FTA.  MathComp
   (field/algC.v: algebraic numbers are algebraically closed; real_closed/
   complex.v: R[i] closed for a real closed field R) has it, but not for the
   stdlib reals used in SpecR.v (the rcfType instance of R lives in
   mathcomp-analysis, not installed); a proof over algC would need a second pole
   predicate over algC, a Qc -> algC embedding with its morphism lemmas and a
   translation of the list model to {poly algC}: judged out of reach in the
   time available, not attempted in the tree.
   Orders 1 and 2 are proved in full (ProofsOrder2.v, explicit roots via sqrt);
   order >= 3 is covered by the correspondence family "stab" (poles known by
   construction, link proved in ProofsRoots.v). *)
From Coq Require Import List Bool Arith ZArith QArith Qcanon Qreals Reals Lia Lra Psatz.
From AL Require Import Base.CaseLib C11.Lev C11.Model C11.Spec C11.Lib C11.ProofsStep C11.ProofsMain C11.SpecR.
Import ListNotations.

(* ---------------------------------------------------------------- Qc -> R *)
Lemma QR_add a b : QR (a + b)%Qc = (QR a + QR b)%R.
Proof. unfold QR. cbn [Qcplus this Q2Qc]. rewrite (Qeq_eqR _ _ (Qred_correct _)). apply Q2R_plus. Qed.
Lemma QR_mul a b : QR (a * b)%Qc = (QR a * QR b)%R.
Proof. unfold QR. cbn [Qcmult this Q2Qc]. rewrite (Qeq_eqR _ _ (Qred_correct _)). apply Q2R_mult. Qed.
Lemma QR_opp a : QR (- a)%Qc = (- QR a)%R.
Proof. unfold QR. cbn [Qcopp this Q2Qc]. rewrite (Qeq_eqR _ _ (Qred_correct _)). apply Q2R_opp. Qed.
Lemma QR_sub a b : QR (a - b)%Qc = (QR a - QR b)%R.
Proof. unfold Qcminus. rewrite QR_add, QR_opp. reflexivity. Qed.
Lemma QR_0 : QR 0%Qc = 0%R.
Proof. unfold QR. cbn. unfold Q2R. cbn. lra. Qed.
Lemma QR_1 : QR 1%Qc = 1%R.
Proof. unfold QR. cbn. unfold Q2R. cbn. lra. Qed.
Lemma QR_inj a b : QR a = QR b -> a = b.
Proof. unfold QR. intro H. apply Qc_is_canon. apply eqR_Qeq. exact H. Qed.
Lemma QR_nz a : a <> 0%Qc -> QR a <> 0%R.
Proof. intros H E. apply H. apply QR_inj. rewrite QR_0. exact E. Qed.
Lemma QR_inv a : a <> 0%Qc -> QR (/ a)%Qc = (/ QR a)%R.
Proof.
  intro H. unfold QR. cbn [Qcinv this Q2Qc]. rewrite (Qeq_eqR _ _ (Qred_correct _)).
  apply Q2R_inv. intro E. apply H. apply Qc_is_canon. exact E.
Qed.
Lemma QR_div a b : b <> 0%Qc -> QR (a / b)%Qc = (QR a / QR b)%R.
Proof. intro H. unfold Qcdiv. rewrite QR_mul, QR_inv by exact H. reflexivity. Qed.
Lemma QR_lt a b : (a < b)%Qc <-> (QR a < QR b)%R.
Proof. unfold QR, Qclt. split; [apply Qlt_Rlt|apply Rlt_Qlt]. Qed.
Lemma QR_le a b : (a <= b)%Qc <-> (QR a <= QR b)%R.
Proof. unfold QR, Qcle. split; [apply Qle_Rle|apply Rle_Qle]. Qed.

Lemma Qc_ltb_R a b : Qc_ltb a b = true <-> (QR a < QR b)%R.
Proof. rewrite Qc_ltb_spec. apply QR_lt. Qed.
Lemma Qc_ltb_R_false a b : Qc_ltb a b = false <-> (QR b <= QR a)%R.
Proof.
  split; intro H.
  - destruct (Rle_or_lt (QR b) (QR a)) as [L|L]; [exact L|].
    apply Qc_ltb_R in L. congruence.
  - destruct (Qc_ltb a b) eqn:E; [|reflexivity]. apply Qc_ltb_R in E. lra.
Qed.

Lemma lt1_R k : lt1 k = true <-> (-1 < QR k < 1)%R.
Proof.
  unfold lt1, qabs. destruct (Qc_ltb k 0) eqn:E.
  - apply Qc_ltb_R in E. rewrite QR_0 in E. rewrite Qc_ltb_R, QR_opp, QR_1. lra.
  - apply Qc_ltb_R_false in E. rewrite QR_0 in E. rewrite Qc_ltb_R, QR_1. lra.
Qed.

Open Scope R_scope.

(* ---------------------------------------------------------------- evaluation *)
Definition pevQ (l : list Qc) (z : C) : C := pev (map QR l) z.

Lemma polez_pevQ den z : polez den z = pevQ (rev den) z.
Proof. reflexivity. Qed.

Lemma pevQ_cons a t z :
  pevQ (a :: t) z = (QR a + (fst z * fst (pevQ t z) - snd z * snd (pevQ t z)),
                     fst z * snd (pevQ t z) + snd z * fst (pevQ t z)).
Proof. reflexivity. Qed.

Lemma pevQ_nil z : pevQ [] z = (0, 0).
Proof. reflexivity. Qed.

Lemma pair_eq (a b c d : R) : a = c -> b = d -> (a, b) = (c, d).
Proof. intros -> ->. reflexivity. Qed.

Lemma pevQ_ladd a : forall b z,
  pevQ (ladd a b) z = (fst (pevQ a z) + fst (pevQ b z), snd (pevQ a z) + snd (pevQ b z)).
Proof.
  induction a as [|x a IH]; intros b z.
  - cbn [ladd]. rewrite pevQ_nil. destruct (pevQ b z). cbn [fst snd]. apply pair_eq; ring.
  - destruct b as [|y b].
    + cbn [ladd]. rewrite pevQ_nil. destruct (pevQ (x :: a) z). cbn [fst snd]. apply pair_eq; ring.
    + cbn [ladd]. rewrite !pevQ_cons, IH. cbn [fst snd]. rewrite QR_add. apply pair_eq; ring.
Qed.

Lemma pevQ_scale k l z :
  pevQ (map (Qcmult k) l) z = (QR k * fst (pevQ l z), QR k * snd (pevQ l z)).
Proof.
  induction l as [|x l IH].
  - cbn [map]. rewrite pevQ_nil. cbn [fst snd]. apply pair_eq; ring.
  - cbn [map]. rewrite !pevQ_cons, IH. cbn [fst snd]. rewrite QR_mul. apply pair_eq; ring.
Qed.

Lemma pevQ_shift l z :
  pevQ (0%Qc :: l) z = (fst z * fst (pevQ l z) - snd z * snd (pevQ l z),
                        fst z * snd (pevQ l z) + snd z * fst (pevQ l z)).
Proof. rewrite pevQ_cons, QR_0. apply pair_eq; ring. Qed.

Lemma pevQ_snoc0 l z : pevQ (l ++ [0%Qc]) z = pevQ l z.
Proof.
  induction l as [|x l IH].
  - cbn [app]. rewrite pevQ_cons, pevQ_nil, QR_0. cbn [fst snd]. apply pair_eq; ring.
  - cbn [app]. rewrite !pevQ_cons, IH. reflexivity.
Qed.

Lemma pevQ_snoc_zeros l j z : pevQ (l ++ repeat 0%Qc j) z = pevQ l z.
Proof.
  induction j as [|j IH].
  - cbn [repeat]. rewrite app_nil_r. reflexivity.
  - replace (repeat 0%Qc (S j)) with (repeat 0%Qc j ++ [0%Qc]) by (rewrite <- repeat_cons; reflexivity).
    rewrite app_assoc, pevQ_snoc0. exact IH.
Qed.

Lemma cnorm2_mul (z w : C) :
  cnorm2 (fst z * fst w - snd z * snd w, fst z * snd w + snd z * fst w) = cnorm2 z * cnorm2 w.
Proof. unfold cnorm2. cbn [fst snd]. ring. Qed.

Lemma cnorm2_nonneg z : 0 <= cnorm2 z.
Proof. unfold cnorm2. nra. Qed.

Lemma pevQ_lead_zeros t l z : 0 < cnorm2 z -> 0 < cnorm2 (pevQ l z) ->
  0 < cnorm2 (pevQ (repeat 0%Qc t ++ l) z).
Proof.
  intros Hz Hl. induction t as [|t IH]; [exact Hl|].
  cbn [repeat app]. rewrite pevQ_shift, cnorm2_mul. apply Rmult_lt_0_compat; assumption.
Qed.

(* ---------------------------------------------------------------- the lattice *)
Lemma rev_up1 A k : rev (up1 A k) = ladd (0%Qc :: rev A) (map (Qcmult k) (A ++ [0%Qc])).
Proof.
  apply cf_ext.
  - rewrite rev_length, length_up1, ladd_padd, length_padd, map_length, app_length.
    cbn [length]. rewrite rev_length. lia.
  - rewrite rev_length, length_up1. intros i Hi.
    rewrite cf_rev by (rewrite length_up1; exact Hi). rewrite length_up1.
    rewrite cf_ladd, cf_map_mul, cf_up1, !cf_snoc0, !cf_B.
    replace (S (length A) - 1 - i)%nat with (length A - i)%nat by lia.
    destruct i as [|i].
    + rewrite Nat.sub_0_r. rewrite (cf_beyond A (length A)) by lia.
      destruct (length A) as [|n] eqn:EL.
      * rewrite (cf_beyond A 0) by lia. cbn. ring.
      * replace ((1 <=? S n) && (S n <=? S n))%nat with true
          by (symmetry; apply andb_true_iff; split; apply Nat.leb_le; lia).
        rewrite Nat.sub_diag. cbn [andb Nat.leb]. ring.
    + replace ((1 <=? S i) && (S i <=? length A))%nat with true
        by (symmetry; apply andb_true_iff; split; apply Nat.leb_le; lia).
      destruct (Nat.eq_dec (S i) (length A)) as [E|NE].
      * rewrite E, Nat.sub_diag. cbn [Nat.leb andb]. rewrite (cf_beyond A (length A)) by lia. ring.
      * replace ((1 <=? length A - S i) && (length A - S i <=? length A))%nat with true
          by (symmetry; apply andb_true_iff; split; apply Nat.leb_le; lia).
        replace (length A - (length A - S i))%nat with (S i) by lia. ring.
Qed.

Definition Pz (ks : list Qc) (z : C) : C := pevQ (rebuild ks) z.
Definition Qz (ks : list Qc) (z : C) : C := pevQ (rev (rebuild ks)) z.

Lemma Pz_cons k r z :
  Pz (k :: r) z =
  (fst (Pz r z) + QR k * (fst z * fst (Qz r z) - snd z * snd (Qz r z)),
   snd (Pz r z) + QR k * (fst z * snd (Qz r z) + snd z * fst (Qz r z))).
Proof.
  unfold Pz, Qz. cbn [rebuild]. unfold up1 at 1.
  rewrite pevQ_ladd, pevQ_snoc0, pevQ_scale, pevQ_shift. cbn [fst snd]. reflexivity.
Qed.

Lemma Qz_cons k r z :
  Qz (k :: r) z =
  ((fst z * fst (Qz r z) - snd z * snd (Qz r z)) + QR k * fst (Pz r z),
   (fst z * snd (Qz r z) + snd z * fst (Qz r z)) + QR k * snd (Pz r z)).
Proof.
  unfold Pz, Qz. cbn [rebuild]. rewrite rev_up1.
  rewrite pevQ_ladd, pevQ_shift, pevQ_scale, pevQ_snoc0. cbn [fst snd]. reflexivity.
Qed.

(* energy argument: on |z| >= 1, |Q| >= |P| and Q <> 0 *)
Lemma lattice_energy ks z : forallb lt1 ks = true -> 1 <= cnorm2 z ->
  cnorm2 (Pz ks z) <= cnorm2 (Qz ks z) /\ 0 < cnorm2 (Qz ks z).
Proof.
  intros Hk Hz. induction ks as [|k r IH].
  - unfold Pz, Qz. cbn [rebuild rev app]. rewrite pevQ_cons, pevQ_nil, QR_1. unfold cnorm2. cbn [fst snd].
    split; nra.
  - cbn [forallb] in Hk. apply andb_true_iff in Hk as [Hk1 Hk2]. apply lt1_R in Hk1.
    destruct (IH Hk2) as [IH1 IH2]. clear IH.
    rewrite Pz_cons, Qz_cons.
    destruct (Pz r z) as [pr pi]. destruct (Qz r z) as [qr qi]. destruct z as [x y].
    unfold cnorm2 in *. cbn [fst snd] in *. set (K := QR k) in *.
    assert (HK : K * K < 1) by nra.
    assert (Hid : ((x * qr - y * qi + K * pr) * (x * qr - y * qi + K * pr)
                   + (x * qi + y * qr + K * pi) * (x * qi + y * qr + K * pi))
                  - ((pr + K * (x * qr - y * qi)) * (pr + K * (x * qr - y * qi))
                     + (pi + K * (x * qi + y * qr)) * (pi + K * (x * qi + y * qr)))
                  = (1 - K * K) * ((x * x + y * y) * (qr * qr + qi * qi) - (pr * pr + pi * pi))) by ring.
    assert (Hzq : (x * x + y * y) * (qr * qr + qi * qi) >= qr * qr + qi * qi) by nra.
    split.
    + assert (0 <= (1 - K * K) * ((x * x + y * y) * (qr * qr + qi * qi) - (pr * pr + pi * pi))) by nra.
      lra.
    + (* if Q' = 0 then z Q = - K P, so |z|^2 |Q|^2 = K^2 |P|^2 < |Q|^2 *)
      set (u := x * qr - y * qi) in *. set (v := x * qi + y * qr) in *.
      assert (Huv : u * u + v * v = (x * x + y * y) * (qr * qr + qi * qi)) by (unfold u, v; ring).
      destruct (Rlt_or_le 0 ((u + K * pr) * (u + K * pr) + (v + K * pi) * (v + K * pi))) as [L|L]; [exact L|].
      exfalso.
      assert (Hs1 : 0 <= (u + K * pr) * (u + K * pr)) by apply Rle_0_sqr.
      assert (Hs2 : 0 <= (v + K * pi) * (v + K * pi)) by apply Rle_0_sqr.
      assert (Hz1 : u + K * pr = 0).
      { apply Rsqr_0_uniq. unfold Rsqr. lra. }
      assert (Hz2 : v + K * pi = 0).
      { apply Rsqr_0_uniq. unfold Rsqr. lra. }
      assert (Eu : u = - K * pr) by lra. assert (Ev : v = - K * pi) by lra.
      assert (Hz3 : u * u + v * v = K * K * (pr * pr + pi * pi)) by (rewrite Eu, Ev; ring).
      assert (0 <= pr * pr + pi * pi) by nra.
      assert (K * K * (pr * pr + pi * pi) <= K * K * (qr * qr + qi * qi)) by nra.
      nra.
Qed.
