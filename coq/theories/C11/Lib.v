(* C11 - list / finite-sum lemmas shared by the proofs. *)
From Coq Require Import List Bool Arith ZArith QArith Qcanon Lia.
From AL Require Import Base.CaseLib C11.Lev C11.Spec.
Import ListNotations.
Open Scope Qc_scope.

Lemma Qc_eqb_false a b : Qc_eqb a b = false <-> a <> b.
Proof.
  split; intro H.
  - intro E. apply Qc_eqb_spec in E. congruence.
  - destruct (Qc_eqb a b) eqn:E; [|reflexivity]. apply Qc_eqb_spec in E. contradiction.
Qed.

(* ---------------------------------------------------------------- sumn *)
Lemma sumn_ext f g n : (forall i, (i < n)%nat -> f i = g i) -> sumn f n = sumn g n.
Proof.
  induction n as [|n IH]; intro H; simpl; [reflexivity|].
  rewrite IH by (intros; apply H; lia). rewrite H by lia. reflexivity.
Qed.

Lemma sumn_zero n : sumn (fun _ => 0) n = 0.
Proof. induction n as [|n IH]; simpl; [reflexivity|]. rewrite IH. ring. Qed.

Lemma sumn_zero' f n : (forall i, (i < n)%nat -> f i = 0) -> sumn f n = 0.
Proof. intro H. rewrite (sumn_ext f (fun _ => 0)) by exact H. apply sumn_zero. Qed.

Lemma sumn_add f g n : sumn (fun i => f i + g i) n = sumn f n + sumn g n.
Proof. induction n as [|n IH]; simpl; [ring|]. rewrite IH. ring. Qed.

Lemma sumn_scale c f n : sumn (fun i => c * f i) n = c * sumn f n.
Proof. induction n as [|n IH]; simpl; [ring|]. rewrite IH. ring. Qed.

Lemma sumn_more f n k : (forall i, (n <= i)%nat -> f i = 0) -> sumn f (n + k) = sumn f n.
Proof.
  intro H. induction k as [|k IH].
  - rewrite Nat.add_0_r. reflexivity.
  - rewrite Nat.add_succ_r. simpl. rewrite IH. rewrite H by lia. ring.
Qed.

Lemma sumn_le f n N : (n <= N)%nat -> (forall i, (n <= i)%nat -> f i = 0) -> sumn f N = sumn f n.
Proof. intros L H. replace N with (n + (N - n))%nat by lia. apply sumn_more. exact H. Qed.

Lemma sumn_first f n : sumn f (S n) = f O + sumn (fun i => f (S i)) n.
Proof.
  induction n as [|n IH]; [simpl; ring|].
  change (sumn f (S (S n))) with (sumn f (S n) + f (S n)). rewrite IH. simpl. ring.
Qed.

Lemma sumn_rev f n : sumn f n = sumn (fun i => f (n - 1 - i)%nat) n.
Proof.
  revert f. induction n as [|n IH]; intro f; [reflexivity|].
  rewrite (sumn_first (fun i => f (S n - 1 - i)%nat)).
  change (sumn f (S n)) with (sumn f n + f n).
  rewrite (IH f).
  replace (S n - 1 - 0)%nat with n by lia.
  rewrite Qcplus_comm. f_equal.
  apply sumn_ext. intros i Hi. f_equal. lia.
Qed.

Lemma sumn_single f n j : (j < n)%nat -> (forall i, (i < n)%nat -> i <> j -> f i = 0) -> sumn f n = f j.
Proof.
  induction n as [|n IH]; intros Hj H; [lia|]. simpl.
  destruct (Nat.eq_dec j n) as [->|Hne].
  - rewrite sumn_zero' by (intros; apply H; lia). ring.
  - rewrite IH by (try lia; intros; apply H; lia). rewrite (H n) by lia. ring.
Qed.

Lemma sumn_swap (f : nat -> nat -> Qc) n m :
  sumn (fun i => sumn (fun j => f i j) m) n = sumn (fun j => sumn (fun i => f i j) n) m.
Proof.
  induction n as [|n IH]; simpl.
  - rewrite sumn_zero. reflexivity.
  - rewrite IH. rewrite <- sumn_add. reflexivity.
Qed.

(* ---------------------------------------------------------------- coefficients *)
Lemma cf_nil i : cf [] i = 0.
Proof. unfold cf. destruct i; reflexivity. Qed.

Lemma cf_beyond a i : (length a <= i)%nat -> cf a i = 0.
Proof. intro H. unfold cf. apply nth_overflow. exact H. Qed.

Lemma cf_padd a b i : cf (padd a b) i = cf a i + cf b i.
Proof.
  revert b i. induction a as [|x a IH]; intros b i.
  - simpl. rewrite cf_nil. ring.
  - destruct b as [|y b].
    + simpl. rewrite cf_nil. ring.
    + destruct i as [|i]; [reflexivity|]. cbn [padd]. unfold cf in *. cbn [nth]. apply IH.
Qed.

Lemma ladd_padd a b : ladd a b = padd a b.
Proof. revert b. induction a as [|x a IH]; intros [|y b]; simpl; try reflexivity; f_equal; try apply IH. Qed.

Lemma cf_ladd a b i : cf (ladd a b) i = cf a i + cf b i.
Proof. rewrite ladd_padd. apply cf_padd. Qed.

Lemma length_padd a b : length (padd a b) = Nat.max (length a) (length b).
Proof. revert b. induction a as [|x a IH]; intros [|y b]; simpl; try reflexivity; f_equal; try apply IH. Qed.

Lemma cf_map_mul c a i : cf (map (Qcmult c) a) i = c * cf a i.
Proof.
  unfold cf. revert i. induction a as [|x a IH]; intros [|i]; simpl; try ring. apply IH.
Qed.

Lemma cf_scale c a i : cf (scale c a) i = c * cf a i.
Proof. apply cf_map_mul. Qed.

Lemma cf_popp a i : cf (popp a) i = - cf a i.
Proof.
  unfold cf, popp. revert i. induction a as [|x a IH]; intros [|i]; simpl; try ring. apply IH.
Qed.

Lemma cf_psub a b i : cf (psub a b) i = cf a i - cf b i.
Proof. unfold psub. rewrite cf_padd, cf_popp. ring. Qed.

Lemma cf_app_l a b i : (i < length a)%nat -> cf (a ++ b) i = cf a i.
Proof. intro H. unfold cf. apply app_nth1. exact H. Qed.

Lemma cf_app_r a b i : (length a <= i)%nat -> cf (a ++ b) i = cf b (i - length a).
Proof. intro H. unfold cf. apply app_nth2. exact H. Qed.

Lemma cf_rev a i : (i < length a)%nat -> cf (rev a) i = cf a (length a - 1 - i).
Proof. intro H. unfold cf. rewrite rev_nth by exact H. f_equal. lia. Qed.

(* B = 0 :: rev A, the coefficients of z^-m A(1/z), m = length A *)
Lemma cf_B a i : cf (0 :: rev a) i = if ((1 <=? i) && (i <=? length a))%nat then cf a (length a - i) else 0.
Proof.
  destruct i as [|i]; [reflexivity|].
  change (cf (0 :: rev a) (S i)) with (cf (rev a) i).
  destruct (i <? length a)%nat eqn:E.
  - apply Nat.ltb_lt in E. rewrite cf_rev by exact E.
    replace ((1 <=? S i) && (S i <=? length a))%nat with true.
    + f_equal. lia.
    + symmetry. apply andb_true_iff. split; apply Nat.leb_le; lia.
  - apply Nat.ltb_ge in E. rewrite cf_beyond by (rewrite rev_length; exact E).
    replace ((1 <=? S i) && (S i <=? length a))%nat with false; [reflexivity|].
    symmetry. apply andb_false_iff. right. apply Nat.leb_gt. lia.
Qed.

Lemma cf_unit m i : cf (unit m) i = if (i =? m)%nat then 1 else 0.
Proof.
  unfold unit. destruct (i =? m)%nat eqn:E.
  - apply Nat.eqb_eq in E. subst. rewrite cf_app_r by (rewrite repeat_length; lia).
    rewrite repeat_length, Nat.sub_diag. reflexivity.
  - apply Nat.eqb_neq in E. destruct (Nat.lt_ge_cases i m) as [L|G].
    + rewrite cf_app_l by (rewrite repeat_length; exact L). unfold cf.
      apply nth_repeat.
    + rewrite cf_app_r by (rewrite repeat_length; exact G). rewrite repeat_length.
      destruct (i - m)%nat as [|[|d]] eqn:D; try lia; reflexivity.
Qed.

Lemma length_unit m : length (unit m) = S m.
Proof. unfold unit. rewrite app_length, repeat_length. simpl. lia. Qed.

Lemma cf_ext a b : length a = length b -> (forall i, (i < length a)%nat -> cf a i = cf b i) -> a = b.
Proof.
  intros HL H. apply (nth_ext a b 0 0 HL). exact H.
Qed.

Lemma cf_map_seq (f : nat -> Qc) n i : (i < n)%nat -> cf (map f (seq 0 n)) i = f i.
Proof.
  intro H. unfold cf. rewrite (nth_indep _ 0 (f O)) by (rewrite map_length, seq_length; exact H).
  rewrite map_nth. rewrite seq_nth by exact H. reflexivity.
Qed.

(* ---------------------------------------------------------------- sum_enum *)
Lemma sum_enum_from_sumn {T} (f : nat -> T -> Qc) (d : T) l : forall s,
  sum_enum_from f s l = sumn (fun i => f (s + i)%nat (nth i l d)) (length l).
Proof.
  induction l as [|x l IH]; intro s; [reflexivity|].
  simpl length. rewrite sumn_first. cbn [sum_enum_from nth]. rewrite Nat.add_0_r. f_equal.
  rewrite IH. apply sumn_ext. intros i _. rewrite Nat.add_succ_r. reflexivity.
Qed.

Lemma sum_enum_sumn (f : nat -> Qc -> Qc) l :
  sum_enum f l = sumn (fun i => f i (cf l i)) (length l).
Proof. unfold sum_enum. rewrite (sum_enum_from_sumn f 0). reflexivity. Qed.
