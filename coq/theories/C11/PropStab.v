(* C11 - the proved statements about parcor_stable and the poles, each closed by
   [exact] on a lemma of Proofs*.v.  Complex numbers are pairs of Coq reals
   (SpecR.v); is_pole den z says that z is a complex root of
   den[0] z^n + ... + den[n]; poles_inside den says that every such root has
   |z|^2 < 1.  The standard-library axioms of the classical reals appear in the
   assumptions of these theorems (and only of these). *)
From Coq Require Import List Bool Arith ZArith QArith Qcanon Reals.
From AL Require Import Base.CaseLib C11.Lev C11.Model C11.Spec C11.SpecR
  C11.ProofsStab C11.ProofsPoles C11.ProofsOrder2 C11.ProofsRoots.
Import ListNotations.

(* order 1, all coefficients a0 <> 0: True exactly when the pole is strictly
   inside the unit circle (critical and unstable give False) *)
Theorem C11_stable_iff_order1 : forall a0 a1 : Qc, a0 <> 0%Qc ->
  (parcor_stable [a0; a1] = Ok true <-> poles_inside [a0; a1]).
Proof. exact stable_iff_order1. Qed.
Print Assumptions C11_stable_iff_order1.

(* order 2, all coefficients a0 <> 0 (real or complex-conjugate poles, a2 = 0
   included): True exactly when both poles are strictly inside *)
Theorem C11_stable_iff_order2 : forall a0 a1 a2 : Qc, a0 <> 0%Qc ->
  (parcor_stable [a0; a1; a2] = Ok true <-> poles_inside [a0; a1; a2]).
Proof. exact stable_iff_order2. Qed.
Print Assumptions C11_stable_iff_order2.

(* the Jury conditions |b2| < 1, |b1| < 1 + b2 (b_i = a_i / a0) decide the pole
   location at order <= 2; they are what the checker of family "coef" evaluates *)
Theorem C11_jury_iff_poles : forall a0 a1 a2 : Qc, a0 <> 0%Qc ->
  ((QR a2 / QR a0 * (QR a2 / QR a0) < 1 /\ QR a1 / QR a0 < 1 + QR a2 / QR a0
    /\ - (QR a1 / QR a0) < 1 + QR a2 / QR a0)%R
   <-> poles_inside [a0; a1; a2]).
Proof. exact jury_iff_poles. Qed.
Print Assumptions C11_jury_iff_poles.

(* the boolean function Spec.jury, evaluated by the checker of family "coef" on
   the implementation's answer, decides the pole location (orders 1 and 2) *)
Theorem C11_jury_decides : forall (a0 a1 a2 : Qc) (b : bool), a0 <> 0%Qc ->
  jury [a0; a1; a2] = Some b -> (b = true <-> poles_inside [a0; a1; a2]).
Proof. exact jury_decides. Qed.
Print Assumptions C11_jury_decides.

Theorem C11_jury_decides_order1 : forall (a0 a1 : Qc) (b : bool), a0 <> 0%Qc ->
  jury [a0; a1] = Some b -> (b = true <-> poles_inside [a0; a1]).
Proof. exact jury_decides_order1. Qed.
Print Assumptions C11_jury_decides_order1.

(* ANY order, any denominator (leading / trailing zero coefficients and any
   non-zero leading coefficient included): if parcor_stable answers True then
   every pole is strictly inside the unit circle.
   PARTIAL: this is one direction of "True exactly when".  The converse for
   order >= 3 (all poles inside => all |k_m| < 1) needs the factorisation of a
   complex polynomial into its roots (fundamental theorem of algebra /
   Schur-Cohn necessity), which the installed libraries do not provide; it is
   covered by the correspondence family "stab" only (denominators multiplied
   out from chosen roots, degree <= 8). *)
Theorem C11_stable_if_reflection_lt1_partial : forall den : list Qc,
  parcor_stable den = Ok true -> poles_inside den.
Proof. exact stable_implies_poles_inside. Qed.
Print Assumptions C11_stable_if_reflection_lt1_partial.

(* the energy argument behind it, on the reflection coefficients themselves:
   if all |k_m| < 1, the filter rebuilt from them has no root with |z| >= 1 *)
Theorem C11_reflection_lt1_no_root_outside : forall (ks : list Qc) (z : C),
  forallb lt1 ks = true -> (1 <= cnorm2 z)%R ->
  (cnorm2 (pev (map QR (rebuild ks)) z) <= cnorm2 (pev (map QR (rev (rebuild ks))) z))%R /\
  (0 < cnorm2 (pev (map QR (rev (rebuild ks))) z))%R.
Proof. exact lattice_energy. Qed.
Print Assumptions C11_reflection_lt1_no_root_outside.

(* whatever non-zero leading denominator coefficient: the answer (and the
   ValueError of an all-zero denominator) is unchanged by a gain c <> 0 *)
Theorem C11_gain_invariance : forall (c : Qc) (den : list Qc), c <> 0%Qc ->
  parcor_stable (map (Qcmult c) den) = parcor_stable den.
Proof. exact gain_invariance. Qed.
Print Assumptions C11_gain_invariance.

(* root-to-pole link of the family "stab": the poles of the denominator built
   from chosen roots and a gain g <> 0 are exactly the chosen roots (a real root,
   or both members of a conjugate pair), with no factorisation assumed ... *)
Theorem C11_from_roots_poles : forall (g : Qc) (rs : list (Qc * Qc)) (z : C), g <> 0%Qc ->
  (is_pole (from_roots g rs) z <-> exists xy, In xy rs /\ root_match z xy).
Proof. exact from_roots_poles. Qed.
Print Assumptions C11_from_roots_poles.

(* ... so the boolean the checker compares parcor_stable with decides
   "every pole strictly inside the unit circle" *)
Theorem C11_from_roots_poles_inside : forall (g : Qc) (rs : list (Qc * Qc)), g <> 0%Qc ->
  (forallb inside rs = true <-> poles_inside (from_roots g rs)).
Proof. exact from_roots_poles_inside. Qed.
Print Assumptions C11_from_roots_poles_inside.

(* on the denominators of the family, any degree and multiplicity: a True
   answer implies that all chosen roots are strictly inside *)
Theorem C11_stable_roots_inside : forall (g : Qc) (rs : list (Qc * Qc)), g <> 0%Qc ->
  parcor_stable (from_roots g rs) = Ok true -> forallb inside rs = true.
Proof. exact stable_roots_inside. Qed.
Print Assumptions C11_stable_roots_inside.

(* ---------------------------------------------------------------- non-vacuity *)
Definition C11_ok (r : result bool) (b : bool) : bool :=
  match r with Ok x => Bool.eqb x b | Err _ => false end.

(* 1/(2 - z^-1): pole 1/2 (the repaired defect: non-monic and stable);
   1/(1 - 2 z^-1): pole 2; 1/(1 - z^-1): pole 1 (critical);
   1 - z^-1 + z^-2/2: poles (1 +- i)/2; 1 + z^-2: poles +- i (critical, ParCorError inside);
   gain -1/3 on a stable order-3 denominator *)
Example C11_example_answers :
  C11_ok (parcor_stable [qc 2 1; qc (-1) 1]) true
  && C11_ok (parcor_stable [qc 1 1; qc (-2) 1]) false
  && C11_ok (parcor_stable [qc 1 1; qc (-1) 1]) false
  && C11_ok (parcor_stable [qc 1 1; qc (-1) 1; qc 1 2]) true
  && C11_ok (parcor_stable [qc 1 1; qc 0 1; qc 1 1]) false
  && C11_ok (parcor_stable (map (Qcmult (qc (-1) 3)) [qc 1 1; qc (-1) 2; qc 1 4; qc (-1) 8])) true
  = true.
Proof. vm_compute. reflexivity. Qed.
Print Assumptions C11_example_answers.

(* the right-hand sides are inhabited: these two denominators have all their
   complex roots inside the unit circle *)
Example C11_example_poles_inside :
  poles_inside [qc 2 1; qc (-1) 1] /\ poles_inside [qc 1 1; qc (-1) 1; qc 1 2].
Proof.
  split.
  - apply stable_iff_order1; [discriminate|]. vm_compute. reflexivity.
  - apply stable_iff_order2; [discriminate|]. vm_compute. reflexivity.
Qed.
Print Assumptions C11_example_poles_inside.

(* a denominator built from the pair (1 +- i)/2, the double real root -1/3 and
   the gain 2: 2 (1 - z^-1 + z^-2/2)(1 + z^-1/3)^2; and one with the double
   root 1 on the unit circle *)
Example C11_example_from_roots :
  list_eqb Qc_eqb (from_roots (qc 2 1) [(qc 1 2, qc 1 2); (qc (-1) 3, 0%Qc); (qc (-1) 3, 0%Qc)])
                  [qc 2 1; qc (-2) 3; qc (-1) 9; qc 4 9; qc 1 9]
  && forallb inside [(qc 1 2, qc 1 2); (qc (-1) 3, 0%Qc); (qc (-1) 3, 0%Qc)]
  && C11_ok (parcor_stable (from_roots (qc 2 1) [(qc 1 2, qc 1 2); (qc (-1) 3, 0%Qc); (qc (-1) 3, 0%Qc)])) true
  && negb (forallb inside [(qc 1 1, 0%Qc); (qc 1 1, 0%Qc)])
  && C11_ok (parcor_stable (from_roots (qc 1 1) [(qc 1 1, 0%Qc); (qc 1 1, 0%Qc)])) false
  = true.
Proof. vm_compute. reflexivity. Qed.
Print Assumptions C11_example_from_roots.
