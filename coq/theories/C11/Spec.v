(* C11 - what the property text promises (definitions only, exact rationals).
   Nothing here refers to the loops of Model.v / Lev.v.

   * reflection coefficients "of the recursion": the textbook Durbin recursion
       k_m = -(r_m + sum_{i=1}^{m-1} a_i r_(m-i)) / E_(m-1),  E_m = E_(m-1) (1 - k_m^2),
       A_m = A_(m-1) + k_m z^-m A_(m-1)(1/z)                              (step-up)
   * rebuilding a filter from reflection coefficients given last first (the
     order in which parcor yields them)
   * denominators built from chosen roots, and which of them are stable
   * Jury / Schur-Cohn conditions in coefficient form for orders 0, 1, 2. *)
From Coq Require Import List Bool Arith ZArith QArith Qcanon.
From AL Require Import Base.CaseLib.
Import ListNotations.
Open Scope Qc_scope.

(* sum_{i < n} f i *)
Fixpoint sumn (f : nat -> Qc) (n : nat) : Qc :=
  match n with
  | O => 0
  | S k => sumn f k + f k
  end.

Definition cf (a : list Qc) (i : nat) : Qc := nth i a 0.

(* coefficientwise sum (the shorter list is continued by zeros) *)
Fixpoint ladd (a b : list Qc) : list Qc :=
  match a, b with
  | [], _ => b
  | _, [] => a
  | x :: a', y :: b' => (x + y) :: ladd a' b'
  end.

(* one step-up: A + k z^-m A(1/z), m = length A *)
Definition up1 (A : list Qc) (k : Qc) : list Qc :=
  ladd (A ++ [0]) (map (Qcmult k) (0 :: rev A)).

(* the filter of the reflection coefficients [k_p; ...; k_1] (last first) *)
Fixpoint rebuild (ks : list Qc) : list Qc :=
  match ks with
  | [] => [1]
  | k :: r => up1 (rebuild r) k
  end.

(* prod (1 - k^2) *)
Fixpoint prod1mk2 (ks : list Qc) : Qc :=
  match ks with
  | [] => 1
  | k :: r => (1 - k * k) * prod1mk2 r
  end.

(* Durbin's recursion up to order p on the lags r (zero beyond the list):
   (A_p, E_p, [k_p; ...; k_1]); None when some E_(m-1) = 0 *)
Fixpoint durbin (r : list Qc) (p : nat) : option (list Qc * Qc * list Qc) :=
  match p with
  | O => Some ([1], cf r 0, [])
  | S q =>
      match durbin r q with
      | None => None
      | Some (A, E, ks) =>
          if Qc_eqb E 0 then None
          else
            let k := - (sumn (fun i => cf A i * cf r (S q - i)) (S q)) / E in
            Some (up1 A k, E * (1 - k * k), k :: ks)
      end
  end.

(* leading zeros dropped (for coefficients given last first: the order of a
   filter is its highest non-zero coefficient) *)
Fixpoint dropz (a : list Qc) : list Qc :=
  match a with
  | [] => []
  | x :: t => if Qc_eqb x 0 then dropz t else a
  end.
(* trailing zeros dropped *)
Definition trim (a : list Qc) : list Qc := rev (dropz (rev a)).

Definition unitk (k : Qc) : bool := Qc_eqb (k * k) 1.          (* |k| = 1 *)

(* the coefficients up to and including the first one of magnitude 1 *)
Fixpoint upto_unit (ks : list Qc) : list Qc :=
  match ks with
  | [] => []
  | k :: r => if unitk k then [k] else k :: upto_unit r
  end.

(* ---------------------------------------------------------------- stability *)
(* product of coefficient lists *)
Fixpoint pmul (a b : list Qc) : list Qc :=
  match a with
  | [] => []
  | x :: a' => ladd (map (Qcmult x) b) (0 :: pmul a' b)
  end.

(* a chosen root: (x, 0) is the real pole z = x; (x, y) with y <> 0 stands for
   the conjugate pair z = x +- i y.  Its factor as a polynomial in z, lowest
   power first: z - x, or z^2 - 2 x z + (x^2 + y^2) *)
Definition zfactor (xy : Qc * Qc) : list Qc :=
  let (x, y) := xy in
  if Qc_eqb y 0 then [- x; 1] else [x * x + y * y; - (x + x); 1].

(* g * prod (z - root) as a polynomial in z, lowest power first *)
Fixpoint zpoly (g : Qc) (roots : list (Qc * Qc)) : list Qc :=
  match roots with
  | [] => [g]
  | xy :: t => pmul (zfactor xy) (zpoly g t)
  end.

(* the denominator (powers of z^-1, index = power) whose pole polynomial
   den[0] z^n + ... + den[n] is g * prod (z - root) *)
Definition from_roots (g : Qc) (roots : list (Qc * Qc)) : list Qc := rev (zpoly g roots).

(* |z| < 1 *)
Definition inside (xy : Qc * Qc) : bool := Qc_ltb (fst xy * fst xy + snd xy * snd xy) 1.

(* coefficient conditions for a0 + a1 z^-1 + a2 z^-2, a0 <> 0 (after trimming) *)
Definition jury (den : list Qc) : option bool :=
  match trim den with
  | [a0] => Some true
  | [a0; a1] => Some (Qc_ltb (a1 * a1) (a0 * a0))
  | [a0; a1; a2] =>
      let b1 := a1 / a0 in let b2 := a2 / a0 in
      Some (Qc_ltb (b2 * b2) 1 && Qc_ltb b1 (1 + b2) && Qc_ltb (- b1) (1 + b2))
  | _ => None
  end.
