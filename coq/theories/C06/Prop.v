(* C06 - Time-varying coefficients are sampled once per output sample.
   Only statements; every proof is one lemma of the Proofs* files. *)
From Coq Require Import List Bool Arith ZArith QArith Qcanon.
From AL Require Import Base.CaseLib C04.Model C06.Model C06.Spec.
From AL Require Import C04.Spec C06.ProofsAlg C06.ProofsPull C06.ProofsLoop C06.ProofsWf C06.ProofsEq C06.ProofsGain C06.ProofsKeys C06.ProofsUniq C06.ProofsLin C06.ProofsLin2 C06.ProofsLin3 C06.ProofsLin4 C06.ProofsWorld C06.ProofsWorld2 C06.ProofsWorld3 C06.ProofsWorld4 C06.ProofsWorld5 C06.ProofsWorld6 C06.Check.
Import ListNotations.
Open Scope Qc_scope.

(* tv_algebra_pointwise.  Any expression of sums, differences, products, negations,
   number / Stream scalings (both sides), offsets and divisions by a number / Stream
   over filters with Stream coefficients: at every instant (V i = the item source i
   delivers at that instant) the coefficients of the filter the library builds are
   what the SAME arithmetic gives on the operands' coefficients frozen at that
   instant - including which terms exist, the equal-denominator shortcut, the
   denominator shift and the refusals.  A constant stands for itself (freeze (CNum q)
   = the number q), a Stream for its current item. *)
Theorem C06_tv_algebra_pointwise : forall (V : nat -> Qc) (e : fexp) (h : nat),
  build frozen_alg (freeze_exp V e) h = bres_map (freeze_filt V) (build coef_alg e h).
Proof. exact build_freeze. Qed.
Print Assumptions C06_tv_algebra_pointwise.

(* the same for the Poly operators the filter arithmetic is made of (thub copies
   do not change values) *)
Theorem C06_tv_poly_pointwise : forall (V : nat -> Qc) (h : nat) (a b : tdata),
  freeze_data V (padd coef_alg a b) = padd frozen_alg (freeze_data V a) (freeze_data V b) /\
  pmul frozen_alg h (freeze_data V a) (freeze_data V b)
    = (freeze_data V (fst (pmul coef_alg h a b)), snd (pmul coef_alg h a b)) /\
  freeze_data V (pneg coef_alg a) = pneg frozen_alg (freeze_data V a).
Proof. exact poly_freeze. Qed.
Print Assumptions C06_tv_poly_pointwise.

(* tv_a0_path.  When the leading denominator coefficient is a Stream e0, the filter
   handed to the code generator is at every instant the frozen filter divided through
   by 1 / a0[n]: numerator b_k[n] * (1/a0[n]), feedback a_k[n] * (1/a0[n]), gain 1
   (divide_through on frozen numbers; undefined exactly where a0[n] = 0). *)
Theorem C06_tv_a0_path : forall (V : nat -> Qc) (h : nat) (f : tfilt) (e0 : cx),
  t_getitem coef_alg (t_den f) 0 = CStr e0 ->
  forall r, prepare h f = Ok r ->
  bres_map (freeze_filt V) r
  = divide_through frozen_alg (S h) (freeze_filt V f)
      (SC (xdeps e0) (odiv (Some 1) (xval V e0))) (SC (xdeps e0) (odiv (Some 1) (xval V e0))).
Proof. exact prepare_freeze. Qed.
Print Assumptions C06_tv_a0_path.

(* One next() on a coefficient Stream object, however many tee copies (thub / copy)
   the arithmetic stacked: from buffers that hold pending-many items of the current
   instant, it delivers the frozen value xval, reads exactly the sources apull
   lists (each at position n), and leaves buffers that again match; it ends only if
   one of those sources has ended, and raises only where the frozen value is
   undefined (division by zero). *)
Theorem C06_pull_value : forall S n L P V,
  (forall i v, S i n = Some v -> V i = v) ->
  forall e s p,
  in_live L e -> hub_ok P e -> Inv L P V s p ->
  NoDup (snd (apull e p)) ->
  (forall i, In i (snd (apull e p)) -> spos s i = n) ->
  sound S n L P V e s p.
Proof. exact pull_sound. Qed.
Print Assumptions C06_pull_value.

(* ======================================================================================
   THE PROPERTY, for all inputs and with nothing evaluated on samples.
   good_expr e: e is any expression of sums, differences, products, negations, scalings and
   offsets by numbers or Streams from either side and divisions by a number or Stream, over
   ZFilter(dict, dict) filters whose coefficients are constants or Streams (any subset,
   including the leading denominator coefficient); every Stream is a source of its own and
   none is the filter input; the dicts have distinct keys.  f = the filter the library
   builds, f' = what __call__ hands to the code generator (f itself, or f divided through by
   the gain Stream), p = the generated program.
   ====================================================================================== *)

(* the Stream coefficients of f' always form a linear family (tee accounting): induction
   over the expression with the world invariant of C06.ProofsWorld*, through Poly.__mul__,
   Poly.__add__, Poly.copy, the constructor's shift and the variable-gain branch *)
Theorem C06_built_linf : forall e f h f' h', good_expr e ->
  build coef_alg e 0 = BOk f h -> prepare h f = Ok (BOk f' h') ->
  (exists HT, linf HT f') /\ keys_ok (t_num f) /\ keys_ok (t_den f) /\ keys_ok (t_num f') /\ keys_ok (t_den f').
Proof. exact built_linf. Qed.
Print Assumptions C06_built_linf.

(* the trace of the generated generator: a sequence of rounds; round n reads the input and
   then every coefficient source of the program exactly once, and yields gain(sum of the
   generated terms) with every next(b_k) / next(a_k) frozen at n on the register file the
   shift lines maintain; at the first instant at which the input or a coefficient source has
   ended the generator returns without an output - unless a coefficient is undefined there
   for every completion of the ended sources (division by zero: the text is silent) *)
Theorem C06_tv_round_spec : forall S e f f' h h' zero p,
  good_expr e -> build coef_alg e 0 = BOk f h -> prepare h f = Ok (BOk f' h') ->
  tcodegen f' zero = Ok (TGen p) ->
  forall memory fuel,
  round_spec S (stream_iters (t_num f')) (stream_iters (t_den f')) p fuel 0
             (unpack (p_mvars (tp_prog p)) memory empty_env)
             (assign_all (p_dvars (tp_prog p)) zero empty_env)
             (run_tv S (TGen p) f' memory zero fuel).
Proof. exact all_round_spec. Qed.
Print Assumptions C06_tv_round_spec.

(* coef_read_once: the sources read before each yield are the input and then every
   coefficient source exactly once (NoDup: round_lin), however many tee copies exist *)
Theorem C06_coef_read_once : forall S e f f' h h' zero p,
  good_expr e -> build coef_alg e 0 = BOk f h -> prepare h f = Ok (BOk f' h') ->
  tcodegen f' zero = Ok (TGen p) ->
  forall memory fuel,
  Forall (fun seg => seg = 0%nat :: snd (aterms (stream_iters (t_num f')) (stream_iters (t_den f'))
                                               (p_terms (tp_prog p)) p_zero))
         (segs (run_tv S (TGen p) f' memory zero fuel) []).
Proof. exact all_read_once. Qed.
Print Assumptions C06_coef_read_once.

(* tv_ends_at_shortest: if no coefficient divides by zero among the delivered items, the
   number of outputs is the number of consecutive instants at which the input and every
   coefficient source deliver (at most what the consumer asks for), and then the generator
   returns (EvStop: no exception) *)
Theorem C06_tv_ends_at_shortest : forall S e f f' h h' zero p,
  good_expr e -> build coef_alg e 0 = BOk f h -> prepare h f = Ok (BOk f' h') ->
  tcodegen f' zero = Ok (TGen p) ->
  forall memory fuel,
  let bs := stream_iters (t_num f') in
  let az := stream_iters (t_den f') in
  let ts := p_terms (tp_prog p) in
  let rd := snd (aterms bs az ts p_zero) in
  (forall n m d, forallb (alive S n) rd = true -> tsum (snapshot S n) bs az ts m d 0 <> None) ->
  (forall n m d, exists V, compat S n V /\ tsum V bs az ts m d 0 <> None) ->
  let tr := run_tv S (TGen p) f' memory zero fuel in
  count_yields tr = live_len S (0%nat :: rd) fuel 0 /\
  ((live_len S (0%nat :: rd) fuel 0 < fuel)%nat -> exists pre, tr = pre ++ [EvStop]).
Proof. exact all_ends. Qed.
Print Assumptions C06_tv_ends_at_shortest.

(* tv_diffeq: with x before 0 = zero, y[-k] = the k-th memory item (C04's past), every table
   entry of f frozen at the instant j (vtab: a constant is a constant sequence, a Stream its
   j-th value), every output j satisfies
       a0[j] * y[j] = sum_k b_k[j] * x[j-k] - sum_{k>=1} a_k[j] * y[j-k]
   wherever a0[j] is defined and non-zero; number gain or Stream gain *)
Theorem C06_tv_diffeq : forall S e f f' h h' zero p,
  good_expr e -> build coef_alg e 0 = BOk f h -> prepare h f = Ok (BOk f' h') ->
  tcodegen f' zero = Ok (TGen p) ->
  forall mem fuel,
  let lm := t_mem_size f' in
  let ys := yields (run_tv S (TGen p) f' (normalise_memory lm zero mem) zero fuel) in
  let X := xrel S 0 (fun _ => zero) in
  let Y := ysig (past lm zero mem) ys in
  forall j, (j < length ys)%nat ->
  forall a0, gain_at (snapshot S j) f = Some a0 -> a0 <> 0 ->
    a0 * Y (Z.of_nat j)
    = psum (vtab (snapshot S j) (t_num f)) (fun k => X (Z.of_nat j - k)%Z)
      - psum (feedback (vtab (snapshot S j) (t_den f))) (fun k => Y (Z.of_nat j - k)%Z).
Proof. exact all_diffeq. Qed.
Print Assumptions C06_tv_diffeq.

(* tv_const_stream: two such expressions whose coefficient tables agree at every instant
   (a constant c in one, an endless Stream of c in the other: C06_const_stream_entry) and
   whose denominators have the same keys produce equal outputs wherever both produce one
   (the gain being defined, equal and non-zero there) *)
Theorem C06_tv_const_stream : forall S e1 e2 (f1 f2 : tfilt) h1 h2 zero mem fuel f1' f2' h1' h2' p1 p2,
  good_expr e1 -> build coef_alg e1 0 = BOk f1 h1 -> prepare h1 f1 = Ok (BOk f1' h1') -> tcodegen f1' zero = Ok (TGen p1) ->
  good_expr e2 -> build coef_alg e2 0 = BOk f2 h2 -> prepare h2 f2 = Ok (BOk f2' h2') -> tcodegen f2' zero = Ok (TGen p2) ->
  map fst (t_den f1) = map fst (t_den f2) ->
  (forall j, vtab (snapshot S j) (t_num f1) = vtab (snapshot S j) (t_num f2)) ->
  (forall j, vtab (snapshot S j) (t_den f1) = vtab (snapshot S j) (t_den f2)) ->
  let ys1 := yields (run_tv S (TGen p1) f1' (normalise_memory (t_mem_size f1') zero mem) zero fuel) in
  let ys2 := yields (run_tv S (TGen p2) f2' (normalise_memory (t_mem_size f2') zero mem) zero fuel) in
  (forall j, (j < length ys1)%nat -> (j < length ys2)%nat ->
     exists a0, gain_at (snapshot S j) f1 = Some a0 /\ gain_at (snapshot S j) f2 = Some a0 /\ a0 <> 0) ->
  forall j, (j < length ys1)%nat -> (j < length ys2)%nat -> nth j ys1 0 = nth j ys2 0.
Proof. exact outputs_agree_built. Qed.
Print Assumptions C06_tv_const_stream.

(* ---- the same for ANY filter satisfying the syntactic condition linf (not only built ones).  linf HT f (C06.ProofsLin3) is a
   syntactic condition on the Stream coefficients of f and a hub table HT: every tee
   node is a copy c < n of a hub of the table, hub numbers distinct, iterators of lower
   rank, and every leaf (source or tee copy) occurs at most once across the coefficient
   expressions and the iterators of the hubs; the input (source 0) is not among them.
   Under linf the round spec, read-once, the end of the output and the difference
   equation hold for all inputs with no hypothesis evaluated on samples (proof: the
   abstract tee discipline apull from empty buffers fires every reachable hub exactly
   once, whatever the order in which the copies are pulled). *)
Theorem C06_lin_round_spec : forall S (f : tfilt) zero p memory fuel HT,
  keys_ok (t_num f) -> keys_ok (t_den f) -> linf HT f -> tcodegen f zero = Ok (TGen p) ->
  round_spec S (stream_iters (t_num f)) (stream_iters (t_den f)) p fuel 0
             (unpack (p_mvars (tp_prog p)) memory empty_env)
             (assign_all (p_dvars (tp_prog p)) zero empty_env)
             (run_tv S (TGen p) f memory zero fuel).
Proof. exact lin_round_spec. Qed.
Print Assumptions C06_lin_round_spec.

Theorem C06_lin_coef_read_once : forall S (f : tfilt) zero p memory fuel HT,
  keys_ok (t_num f) -> keys_ok (t_den f) -> linf HT f -> tcodegen f zero = Ok (TGen p) ->
  Forall (fun seg => seg = 0%nat :: snd (aterms (stream_iters (t_num f)) (stream_iters (t_den f))
                                               (p_terms (tp_prog p)) p_zero))
         (segs (run_tv S (TGen p) f memory zero fuel) []).
Proof. exact lin_read_once. Qed.
Print Assumptions C06_lin_coef_read_once.

Theorem C06_lin_ends_at_shortest : forall S (f : tfilt) zero p memory fuel HT,
  let bs := stream_iters (t_num f) in
  let az := stream_iters (t_den f) in
  let ts := p_terms (tp_prog p) in
  let rd := snd (aterms bs az ts p_zero) in
  keys_ok (t_num f) -> keys_ok (t_den f) -> linf HT f -> tcodegen f zero = Ok (TGen p) ->
  (forall n m d, forallb (alive S n) rd = true -> tsum (snapshot S n) bs az ts m d 0 <> None) ->
  (forall n m d, exists V, compat S n V /\ tsum V bs az ts m d 0 <> None) ->
  let tr := run_tv S (TGen p) f memory zero fuel in
  count_yields tr = live_len S (0%nat :: rd) fuel 0 /\
  ((live_len S (0%nat :: rd) fuel 0 < fuel)%nat -> exists pre, tr = pre ++ [EvStop]).
Proof. exact lin_ends. Qed.
Print Assumptions C06_lin_ends_at_shortest.

(* the difference equation for a linear filter with a number as gain *)
Theorem C06_lin_diffeq : forall S (f : tfilt) g zero p mem fuel HT,
  keys_ok (t_num f) -> keys_ok (t_den f) -> linf HT f ->
  In (0%Z, CNum g) (t_den f) -> g <> 0 -> tcodegen f zero = Ok (TGen p) ->
  let lm := t_mem_size f in
  let ys := yields (run_tv S (TGen p) f (normalise_memory lm zero mem) zero fuel) in
  forall j, (j < length ys)%nat ->
    g * ysig (past lm zero mem) ys (Z.of_nat j)
    = psum (vtab (snapshot S j) (t_num f)) (fun k => xrel S 0 (fun _ => zero) (Z.of_nat j - k)%Z)
      - psum (feedback (vtab (snapshot S j) (t_den f))) (fun k => ysig (past lm zero mem) ys (Z.of_nat j - k)%Z).
Proof. exact lin_diffeq. Qed.
Print Assumptions C06_lin_diffeq.

(* linf holds for every filter whose coefficients are constants or pairwise distinct
   sources (ZFilter(dict, dict) with any subset of coefficients replaced by streams) *)
Theorem C06_simple_linf : forall f : tfilt, simple_filter f -> linf [] f.
Proof. exact simple_linf. Qed.
Print Assumptions C06_simple_linf.

(* Every Poly the modelled arithmetic builds is a dict with pairwise distinct powers
   (induction over the expression; bases_ok: the dicts the expression starts from have
   distinct keys, as Python dicts do), so every filter __call__ accepts (its causality
   test passed) has its keys in order. *)
Theorem C06_built_keys_ok : forall (e : fexp) h f h1 r,
  bases_ok e -> build coef_alg e h = BOk f h1 -> prepare h1 f = Ok r ->
  keys_ok (t_num f) /\ keys_ok (t_den f).
Proof. exact built_keys_ok. Qed.
Print Assumptions C06_built_keys_ok.

Theorem C06_const_stream_entry : forall S i c, (forall n, S i n = Some c) ->
  forall j, cval (snapshot S j) (CStr (XSrc i)) = cval (snapshot S j) (CNum c).
Proof. exact const_stream_entry. Qed.
Print Assumptions C06_const_stream_entry.

(* the same at the level of one generated term: a next(b_k) / next(a_k) whose iterator
   delivers c at this instant contributes what "(c) * d_k" / "-(c) * m_k" contributes *)
Theorem C06_tv_const_stream_term : forall V bs az k e c r m d acc,
  xval V e = Some c ->
  (lookup bs k = Some e ->
   tsum V bs az (TNextB k :: r) m d acc = tsum V bs az (TConst (CoefD c k) :: r) m d acc) /\
  (lookup az k = Some e ->
   tsum V bs az (TNextA k :: r) m d acc = tsum V bs az (TConst (NegCoefM c k) :: r) m d acc).
Proof. exact tsum_const. Qed.
Print Assumptions C06_tv_const_stream_term.

(* ------------------------------------------------------------ non-vacuity *)
(* (s1 + z^-1) / (s2 + z^-1 / 2)  *  (1 + s3 z^-1): a Stream gain, Streams that feed
   several product terms (tee), three coefficient sources.  The hypotheses of the
   theorems hold and the rounds are not empty. *)
Definition ex_expr : fexp :=
  FMul (FBase [(0%Z, CStr (XSrc 1)); (1%Z, CNum 1)] [(0%Z, CStr (XSrc 2)); (1%Z, CNum (qc 1 2))])
       (FBase [(0%Z, CNum 1); (1%Z, CStr (XSrc 3))] [(0%Z, CNum 1)]).
Definition ex_srcs : list srcdata :=
  [SFin [qc 1 1; qc 2 1; qc 3 1; qc 4 1]; SCyc [qc 2 1; qc 3 1]; SFin [qc 5 1; qc 7 1; qc 9 1]; SCyc [qc (-1) 2]].

Example C06_nonvacuous :
  match build coef_alg ex_expr 0 with
  | BOk f h =>
      match prepare h f with
      | Ok (BOk f' _) =>
          match tcodegen f' 0 with
          | Ok (TGen p) =>
              wf_prog f' p = true /\
              segs (run_tv (sources_of ex_srcs) (TGen p) f' [0; 0] 0 5) []
                = [[0; 1; 2; 3]; [0; 1; 2; 3]; [0; 1; 2; 3]]%nat /\
              (exists e0, t_getitem coef_alg (t_den f) 0 = CStr e0)
          | _ => False
          end
      | _ => False
      end
  | BErr _ => False
  end.
Proof. vm_compute. split; [reflexivity|]. split; [reflexivity|]. eexists. reflexivity. Qed.
Print Assumptions C06_nonvacuous.

(* the frozen arithmetic is not degenerate: at the instant where the sources deliver
   2, 5, -1/2 the product above has numerator 2 + 0 z^-1 - 1/2 z^-2 and gain 5 *)
Example C06_nonvacuous_algebra :
  match frozen_at (sources_of ex_srcs) ex_expr 0 with
  | BOk F _ => map (fun kv => (fst kv, sc_val (snd kv))) (t_num F)
               = [(0%Z, Some (qc 2 1)); (1%Z, Some 0); (2%Z, Some (qc (-1) 2))] /\
               a0_of F = Some (qc 5 1)
  | BErr _ => False
  end.
Proof. vm_compute. split; reflexivity. Qed.
Print Assumptions C06_nonvacuous_algebra.

(* the hypotheses of C06_tv_ends_at_shortest hold for  (s1 + z^-1) / (1 + s2 z^-1)
   (no division at all); s1 has two items, the input four: two outputs, clean stop *)
Definition ex2_f : tfilt := TF [(0%Z, CStr (XSrc 1)); (1%Z, CNum 1)] [(0%Z, CNum 1); (1%Z, CStr (XSrc 2))].
Definition ex2_prog : tprog :=
  Eval vm_compute in
    match tcodegen ex2_f 0 with Ok (TGen p) => p | _ => TProg (Prog [] [] [] GOne [] []) [] [] false end.
Definition ex2_S : sources :=
  sources_of [SFin [qc 1 1; qc 2 1; qc 3 1; qc 4 1]; SFin [qc 5 1; qc 7 1]; SCyc [qc 1 2]].

Example C06_nonvacuous_ends :
  let bs := stream_iters (t_num ex2_f) in
  let az := stream_iters (t_den ex2_f) in
  let ts := p_terms (tp_prog ex2_prog) in
  let rd := snd (aterms bs az ts p_zero) in
  tcodegen ex2_f 0 = Ok (TGen ex2_prog) /\
  wf_prog ex2_f ex2_prog = true /\
  (forall n m d, forallb (alive ex2_S n) rd = true -> tsum (snapshot ex2_S n) bs az ts m d 0 <> None) /\
  (forall n m d, exists V, compat ex2_S n V /\ tsum V bs az ts m d 0 <> None) /\
  run_tv ex2_S (TGen ex2_prog) ex2_f [0] 0 6
  = [EvRead 0 (Some (qc 1 1)); EvRead 1 (Some (qc 5 1)); EvRead 2 (Some (qc 1 2)); EvYield (qc 5 1);
     EvRead 0 (Some (qc 2 1)); EvRead 1 (Some (qc 7 1)); EvRead 2 (Some (qc 1 2)); EvYield (qc 25 2);
     EvRead 0 (Some (qc 3 1)); EvRead 1 None; EvStop].
Proof.
  cbv zeta. split; [vm_compute; reflexivity|]. split; [vm_compute; reflexivity|].
  split; [intros n m d _; cbn [tsum ex2_prog tp_prog p_terms ex2_f t_num t_den stream_iters flat_map snd fst app lookup Nat.eqb Z.to_nat xval]; discriminate|].
  split; [|vm_compute; reflexivity].
  intros n m d. exists (snapshot ex2_S n). split; [apply snapshot_compat|].
  cbn [tsum ex2_prog tp_prog p_terms ex2_f t_num t_den stream_iters flat_map snd fst app lookup Nat.eqb Z.to_nat xval]; discriminate.
Qed.
Print Assumptions C06_nonvacuous_ends.

(* ex_expr (Stream gain, tee copies) also passes the per-sample tests kept as lemmas (wf_prog, keys_ok_b): *)
Example C06_nonvacuous_diffeq :
  match build coef_alg ex_expr 0 with
  | BOk f h =>
      keys_ok_b (t_num f) = true /\ keys_ok_b (t_den f) = true /\
      match prepare h f with
      | Ok (BOk f' _) =>
          match tcodegen f' 0 with
          | Ok (TGen p) =>
              wf_prog f' p = true /\
              length (yields (run_tv (sources_of ex_srcs) (TGen p) f'
                                     (normalise_memory (t_mem_size f') 0 MNone) 0 5)) = 3%nat /\
              gain_at (snapshot (sources_of ex_srcs) 1) f = Some (qc 7 1)
          | _ => False
          end
      | _ => False
      end
  | BErr _ => False
  end.
Proof. vm_compute. repeat split; reflexivity. Qed.
Print Assumptions C06_nonvacuous_diffeq.

(* C06_tv_const_stream is not vacuous: (s1 + 2 z^-1) / (1 + s2 z^-1) against the same
   filter with the 2 replaced by source 3 = the endless stream of 2 *)
Definition ex3_f1 : tfilt := TF [(0%Z, CStr (XSrc 1)); (1%Z, CNum (qc 2 1))] [(0%Z, CNum 1); (1%Z, CStr (XSrc 2))].
Definition ex3_f2 : tfilt := TF [(0%Z, CStr (XSrc 1)); (1%Z, CStr (XSrc 3))] [(0%Z, CNum 1); (1%Z, CStr (XSrc 2))].
Definition ex3_S : sources :=
  sources_of [SFin [qc 1 1; qc 2 1; qc 3 1; qc 4 1]; SFin [qc 5 1; qc 7 1; qc 9 1]; SCyc [qc 1 2]; SCyc [qc 2 1]].
Definition ex3_p1 : tprog :=
  Eval vm_compute in match tcodegen ex3_f1 0 with Ok (TGen p) => p | _ => TProg (Prog [] [] [] GOne [] []) [] [] false end.
Definition ex3_p2 : tprog :=
  Eval vm_compute in match tcodegen ex3_f2 0 with Ok (TGen p) => p | _ => TProg (Prog [] [] [] GOne [] []) [] [] false end.

Example C06_nonvacuous_const_stream :
  keys_ok_b (t_num ex3_f1) = true /\ keys_ok_b (t_den ex3_f1) = true /\
  keys_ok_b (t_num ex3_f2) = true /\ keys_ok_b (t_den ex3_f2) = true /\
  prepare 0 ex3_f1 = Ok (BOk ex3_f1 0) /\ tcodegen ex3_f1 0 = Ok (TGen ex3_p1) /\ wf_prog ex3_f1 ex3_p1 = true /\
  prepare 0 ex3_f2 = Ok (BOk ex3_f2 0) /\ tcodegen ex3_f2 0 = Ok (TGen ex3_p2) /\ wf_prog ex3_f2 ex3_p2 = true /\
  (forall j, vtab (snapshot ex3_S j) (t_num ex3_f1) = vtab (snapshot ex3_S j) (t_num ex3_f2)) /\
  yields (run_tv ex3_S (TGen ex3_p1) ex3_f1 [0] 0 6) = [qc 5 1; qc 27 2; qc 97 4] /\
  yields (run_tv ex3_S (TGen ex3_p2) ex3_f2 [0] 0 6) = [qc 5 1; qc 27 2; qc 97 4].
Proof.
  do 10 (split; [vm_compute; reflexivity|]).
  split; [|split; vm_compute; reflexivity].
  intro j. unfold vtab, ex3_f1, ex3_f2. cbn [t_num map fst snd cval xval].
  unfold snapshot, ex3_S, sources_of. cbn [nth_error src_fun length].
  rewrite Nat.mod_1_r. reflexivity.
Qed.
Print Assumptions C06_nonvacuous_const_stream.

Example C06_nonvacuous_built : bases_ok ex_expr.
Proof. simpl. repeat split; repeat constructor; simpl; intuition discriminate. Qed.
Print Assumptions C06_nonvacuous_built.

(* the unconditional theorems are not vacuous: ex2_f is simple, its keys are in order *)
Example C06_nonvacuous_lin : simple_filter ex2_f /\ keys_ok_b (t_num ex2_f) = true /\ keys_ok_b (t_den ex2_f) = true.
Proof.
  split; [|split; reflexivity]. split.
  - intros kv Hin. simpl in Hin. repeat (destruct Hin as [<-|Hin]; [exact I|]). destruct Hin.
  - simpl. repeat constructor; simpl; intuition discriminate.
Qed.
Print Assumptions C06_nonvacuous_lin.

(* (s1 + 2 z^-1) * (1 + s2 z^-1) scaled by s3 is a product of simple filters *)
Definition ex4 : fexp :=
  FMulL (CStr (XSrc 3)) (FMul (FBase [(0%Z, CStr (XSrc 1)); (1%Z, CNum (qc 2 1))] [(0%Z, CNum 1)])
                              (FBase [(0%Z, CNum 1); (1%Z, CStr (XSrc 2))] [(0%Z, CNum 1)])).
Example C06_nonvacuous_products :
  mul_only ex4 /\ fexp_simple ex4 /\ bases_ok ex4 /\ NoDup (esrcs ex4) /\ ~ In (LSrc 0) (esrcs ex4) /\
  exists f h, build coef_alg ex4 0 = BOk f h /\ prepare h f = Ok (BOk f h).
Proof.
  split; [simpl; tauto|]. split.
  { simpl. repeat split; try exact I; intros kv Hin; simpl in Hin;
      repeat (destruct Hin as [<-|Hin]; [exact I|]); destruct Hin. }
  split; [simpl; repeat split; repeat constructor; simpl; intuition discriminate|].
  split; [simpl; repeat constructor; simpl; intuition discriminate|].
  split; [simpl; intuition discriminate|].
  eexists. eexists. split; vm_compute; reflexivity.
Qed.
Print Assumptions C06_nonvacuous_products.

(* the final theorems are not vacuous: ex_expr (a Stream gain, tee copies, three sources)
   is a good expression, it builds, goes through the gain branch and generates a program *)
Example C06_nonvacuous_good :
  good_expr ex_expr /\
  exists f h f' h' p, build coef_alg ex_expr 0 = BOk f h /\ prepare h f = Ok (BOk f' h') /\
                      tcodegen f' 0 = Ok (TGen p) /\ (exists e0, t_getitem coef_alg (t_den f) 0 = CStr e0).
Proof.
  split.
  - split; [|split; [|split]].
    + simpl. split; intros kv Hin; simpl in Hin; repeat (destruct Hin as [<-|Hin]; [exact I|]); destruct Hin.
    + simpl. repeat split; repeat constructor; simpl; intuition discriminate.
    + simpl. repeat constructor; simpl; intuition discriminate.
    + simpl. intuition discriminate.
  - do 5 eexists. split; [vm_compute; reflexivity|]. split; [vm_compute; reflexivity|].
    split; [vm_compute; reflexivity|]. eexists. vm_compute. reflexivity.
Qed.
Print Assumptions C06_nonvacuous_good.
