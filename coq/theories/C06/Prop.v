(* C06 - Time-varying coefficients are sampled once per output sample.
   Only statements; every proof is one lemma of the Proofs* files. *)
From Coq Require Import List Bool Arith ZArith QArith Qcanon.
From AL Require Import Base.CaseLib C04.Model C06.Model C06.Spec.
From AL Require Import C06.ProofsAlg C06.ProofsPull C06.ProofsLoop C06.ProofsWf C06.Check.
Import ListNotations.
Open Scope Qc_scope.

(* tv_algebra_pointwise.  Any expression of sums, differences, products, negations,
   number / Stream scalings (both sides), offsets and divisions by a number / Stream
   over filters with Stream coefficients: at every instant (V i = the item source i
   delivers at that instant) the coefficients of the filter the library builds are
   what the SAME arithmetic gives on the operands' coefficients frozen at that
   instant - including which terms exist, the equal-denominator shortcut, the
   denominator shift and the refusals.  A constant stands for itself (freeze (CNum q)
   = the number q), a Stream for its current item. *)
Theorem C06_tv_algebra_pointwise : forall (V : nat -> Qc) (e : fexp) (h : nat),
  build frozen_alg (freeze_exp V e) h = bres_map (freeze_filt V) (build coef_alg e h).
Proof. exact build_freeze. Qed.
Print Assumptions C06_tv_algebra_pointwise.

(* the same for the Poly operators the filter arithmetic is made of (thub copies
   do not change values) *)
Theorem C06_tv_poly_pointwise : forall (V : nat -> Qc) (h : nat) (a b : tdata),
  freeze_data V (padd coef_alg a b) = padd frozen_alg (freeze_data V a) (freeze_data V b) /\
  pmul frozen_alg h (freeze_data V a) (freeze_data V b)
    = (freeze_data V (fst (pmul coef_alg h a b)), snd (pmul coef_alg h a b)) /\
  freeze_data V (pneg coef_alg a) = pneg frozen_alg (freeze_data V a).
Proof. exact poly_freeze. Qed.
Print Assumptions C06_tv_poly_pointwise.

(* tv_a0_path.  When the leading denominator coefficient is a Stream e0, the filter
   handed to the code generator is at every instant the frozen filter divided through
   by 1 / a0[n]: numerator b_k[n] * (1/a0[n]), feedback a_k[n] * (1/a0[n]), gain 1
   (divide_through on frozen numbers; undefined exactly where a0[n] = 0). *)
Theorem C06_tv_a0_path : forall (V : nat -> Qc) (h : nat) (f : tfilt) (e0 : cx),
  t_getitem coef_alg (t_den f) 0 = CStr e0 ->
  forall r, prepare h f = Ok r ->
  bres_map (freeze_filt V) r
  = divide_through frozen_alg (S h) (freeze_filt V f)
      (SC (xdeps e0) (odiv (Some 1) (xval V e0))) (SC (xdeps e0) (odiv (Some 1) (xval V e0))).
Proof. exact prepare_freeze. Qed.
Print Assumptions C06_tv_a0_path.

(* One next() on a coefficient Stream object, however many tee copies (thub / copy)
   the arithmetic stacked: from buffers that hold pending-many items of the current
   instant, it delivers the frozen value xval, reads exactly the sources apull
   lists (each at position n), and leaves buffers that again match; it ends only if
   one of those sources has ended, and raises only where the frozen value is
   undefined (division by zero). *)
Theorem C06_pull_value : forall S n L P V,
  (forall i v, S i n = Some v -> V i = v) ->
  forall e s p,
  in_live L e -> hub_ok P e -> Inv L P V s p ->
  NoDup (snd (apull e p)) ->
  (forall i, In i (snd (apull e p)) -> spos s i = n) ->
  sound S n L P V e s p.
Proof. exact pull_sound. Qed.
Print Assumptions C06_pull_value.

(* tv_diffeq (in the form of the generated program) + tv_ends_at_shortest +
   coef_read_once, for the generator the library builds, for all sources, memories,
   any number of coefficient streams and any consumer demand (fuel):
   the trace is a sequence of rounds; round n reads the input and then every
   coefficient source of the program exactly once (list rd, NoDup with the input),
   and yields  gain( sum of the generated terms ) with every next(b_k) / next(a_k)
   replaced by the coefficient frozen at n (tsum: b_k[n]*d_k, -a_k[n]*m_k, the
   constant terms of C04) on the register file that the shift lines maintain;
   at the first instant at which the input or a coefficient source has ended the
   generator returns (EvStop) without an output - unless a frozen coefficient is
   undefined there for every completion of the ended sources (division by zero among
   delivered items: ZeroDivisionError, on which the text is silent).
   wf_prog is the boolean test of C06.ProofsWf (tee copies consistent, one clean
   round); Check.corr_tv evaluates it on the model's program of every sampled case.
   PARTIAL with respect to DESIGN's tv_diffeq: the statement is about the generated
   program; the two steps "registers m_k, d_k = y[n-k], x[n-k]" and "sum of the
   generated terms = sum over the coefficient tables" are proved for constant
   coefficients in C04 (loop_diffeq, data_sum_value) and not repeated here for
   Next terms; and wf_prog is checked per sampled filter instead of being proved
   for every filter the arithmetic can build. *)
Theorem C06_tv_round_spec_partial : forall S (f : tfilt) (p : tprog) memory zero fuel,
  wf_prog f p = true ->
  round_spec S (stream_iters (t_num f)) (stream_iters (t_den f)) p fuel 0
             (unpack (p_mvars (tp_prog p)) memory empty_env)
             (assign_all (p_dvars (tp_prog p)) zero empty_env)
             (run_tv S (TGen p) f memory zero fuel).
Proof. exact run_tv_wf. Qed.
Print Assumptions C06_tv_round_spec_partial.

(* tv_ends_at_shortest.  If no coefficient divides by zero among the items the
   sources deliver, the number of outputs is the number of consecutive instants
   (at most what the consumer asks for) at which the input and every coefficient
   source of the program deliver, and if that is less than what the consumer asks
   for the trace ends with the generator returning (EvStop: no exception). *)
Theorem C06_tv_ends_at_shortest : forall S (f : tfilt) (p : tprog) memory zero fuel,
  let bs := stream_iters (t_num f) in
  let az := stream_iters (t_den f) in
  let ts := p_terms (tp_prog p) in
  let rd := snd (aterms bs az ts p_zero) in
  wf_prog f p = true ->
  (forall n m d, forallb (alive S n) rd = true -> tsum (snapshot S n) bs az ts m d 0 <> None) ->
  (forall n m d, exists V, compat S n V /\ tsum V bs az ts m d 0 <> None) ->
  let tr := run_tv S (TGen p) f memory zero fuel in
  count_yields tr = live_len S (0%nat :: rd) fuel 0 /\
  ((live_len S (0%nat :: rd) fuel 0 < fuel)%nat -> exists pre, tr = pre ++ [EvStop]).
Proof. exact ends_at_shortest. Qed.
Print Assumptions C06_tv_ends_at_shortest.

(* coef_read_once on the trace itself: the sources read before each yield are, in
   this order, the input and the list rd - every coefficient source exactly once
   (NoDup is part of wf_prog), whatever the number of tee consumers *)
Theorem C06_coef_read_once : forall S (f : tfilt) (p : tprog) memory zero fuel,
  wf_prog f p = true ->
  Forall (fun seg => seg = 0%nat :: snd (aterms (stream_iters (t_num f)) (stream_iters (t_den f))
                                               (p_terms (tp_prog p)) p_zero))
         (segs (run_tv S (TGen p) f memory zero fuel) []).
Proof. exact read_once. Qed.
Print Assumptions C06_coef_read_once.

(* tv_const_stream, term level: a next(b_k) / next(a_k) whose iterator delivers c
   at this instant contributes what the constant term "(c) * d_k" / "-(c) * m_k"
   contributes.  PARTIAL: not lifted to "the two filters have equal outputs". *)
Theorem C06_tv_const_stream_partial : forall V bs az k e c r m d acc,
  xval V e = Some c ->
  (lookup bs k = Some e ->
   tsum V bs az (TNextB k :: r) m d acc = tsum V bs az (TConst (CoefD c k) :: r) m d acc) /\
  (lookup az k = Some e ->
   tsum V bs az (TNextA k :: r) m d acc = tsum V bs az (TConst (NegCoefM c k) :: r) m d acc).
Proof. exact tsum_const. Qed.
Print Assumptions C06_tv_const_stream_partial.

(* ------------------------------------------------------------ non-vacuity *)
(* (s1 + z^-1) / (s2 + z^-1 / 2)  *  (1 + s3 z^-1): a Stream gain, Streams that feed
   several product terms (tee), three coefficient sources.  The hypotheses of the
   theorems hold and the rounds are not empty. *)
Definition ex_expr : fexp :=
  FMul (FBase [(0%Z, CStr (XSrc 1)); (1%Z, CNum 1)] [(0%Z, CStr (XSrc 2)); (1%Z, CNum (qc 1 2))])
       (FBase [(0%Z, CNum 1); (1%Z, CStr (XSrc 3))] [(0%Z, CNum 1)]).
Definition ex_srcs : list srcdata :=
  [SFin [qc 1 1; qc 2 1; qc 3 1; qc 4 1]; SCyc [qc 2 1; qc 3 1]; SFin [qc 5 1; qc 7 1; qc 9 1]; SCyc [qc (-1) 2]].

Example C06_nonvacuous :
  match build coef_alg ex_expr 0 with
  | BOk f h =>
      match prepare h f with
      | Ok (BOk f' _) =>
          match tcodegen f' 0 with
          | Ok (TGen p) =>
              wf_prog f' p = true /\
              segs (run_tv (sources_of ex_srcs) (TGen p) f' [0; 0] 0 5) []
                = [[0; 1; 2; 3]; [0; 1; 2; 3]; [0; 1; 2; 3]]%nat /\
              (exists e0, t_getitem coef_alg (t_den f) 0 = CStr e0)
          | _ => False
          end
      | _ => False
      end
  | BErr _ => False
  end.
Proof. vm_compute. split; [reflexivity|]. split; [reflexivity|]. eexists. reflexivity. Qed.
Print Assumptions C06_nonvacuous.

(* the frozen arithmetic is not degenerate: at the instant where the sources deliver
   2, 5, -1/2 the product above has numerator 2 + 0 z^-1 - 1/2 z^-2 and gain 5 *)
Example C06_nonvacuous_algebra :
  match frozen_at (sources_of ex_srcs) ex_expr 0 with
  | BOk F _ => map (fun kv => (fst kv, sc_val (snd kv))) (t_num F)
               = [(0%Z, Some (qc 2 1)); (1%Z, Some 0); (2%Z, Some (qc (-1) 2))] /\
               a0_of F = Some (qc 5 1)
  | BErr _ => False
  end.
Proof. vm_compute. split; reflexivity. Qed.
Print Assumptions C06_nonvacuous_algebra.

(* the hypotheses of C06_tv_ends_at_shortest hold for  (s1 + z^-1) / (1 + s2 z^-1)
   (no division at all); s1 has two items, the input four: two outputs, clean stop *)
Definition ex2_f : tfilt := TF [(0%Z, CStr (XSrc 1)); (1%Z, CNum 1)] [(0%Z, CNum 1); (1%Z, CStr (XSrc 2))].
Definition ex2_prog : tprog :=
  Eval vm_compute in
    match tcodegen ex2_f 0 with Ok (TGen p) => p | _ => TProg (Prog [] [] [] GOne [] []) [] [] false end.
Definition ex2_S : sources :=
  sources_of [SFin [qc 1 1; qc 2 1; qc 3 1; qc 4 1]; SFin [qc 5 1; qc 7 1]; SCyc [qc 1 2]].

Example C06_nonvacuous_ends :
  let bs := stream_iters (t_num ex2_f) in
  let az := stream_iters (t_den ex2_f) in
  let ts := p_terms (tp_prog ex2_prog) in
  let rd := snd (aterms bs az ts p_zero) in
  tcodegen ex2_f 0 = Ok (TGen ex2_prog) /\
  wf_prog ex2_f ex2_prog = true /\
  (forall n m d, forallb (alive ex2_S n) rd = true -> tsum (snapshot ex2_S n) bs az ts m d 0 <> None) /\
  (forall n m d, exists V, compat ex2_S n V /\ tsum V bs az ts m d 0 <> None) /\
  run_tv ex2_S (TGen ex2_prog) ex2_f [0] 0 6
  = [EvRead 0 (Some (qc 1 1)); EvRead 1 (Some (qc 5 1)); EvRead 2 (Some (qc 1 2)); EvYield (qc 5 1);
     EvRead 0 (Some (qc 2 1)); EvRead 1 (Some (qc 7 1)); EvRead 2 (Some (qc 1 2)); EvYield (qc 25 2);
     EvRead 0 (Some (qc 3 1)); EvRead 1 None; EvStop].
Proof.
  cbv zeta. split; [vm_compute; reflexivity|]. split; [vm_compute; reflexivity|].
  split; [intros n m d _; cbn [tsum ex2_prog tp_prog p_terms ex2_f t_num t_den stream_iters flat_map snd fst app lookup Nat.eqb Z.to_nat xval]; discriminate|].
  split; [|vm_compute; reflexivity].
  intros n m d. exists (snapshot ex2_S n). split; [apply snapshot_compat|].
  cbn [tsum ex2_prog tp_prog p_terms ex2_f t_num t_den stream_iters flat_map snd fst app lookup Nat.eqb Z.to_nat xval]; discriminate.
Qed.
Print Assumptions C06_nonvacuous_ends.
