(* C06 - Part 5: sums (Poly.__add__, Poly.copy, ZFilter.__add__) on a linear world. *)
From Coq Require Import List Bool Arith ZArith QArith Qcanon Lia Permutation.
From AL Require Import Base.CaseLib C04.Model C06.Model C06.Spec.
From AL Require Import C06.ProofsPull C06.ProofsLoop C06.ProofsWf C06.ProofsEq C06.ProofsKeys C06.ProofsLin C06.ProofsLin2 C06.ProofsLin3 C06.ProofsLin4.
From AL Require Import C06.ProofsWorld C06.ProofsWorld2 C06.ProofsWorld3 C06.ProofsWorld4.
Import ListNotations.

(* ------------------------------------------------------------ Poly.__add__ *)
Definition partner (b : tdata) (k : Z) : list leaf :=
  match d_get b k with Some w => ctops w | None => [] end.
Definition without (k : Z) (b : tdata) : tdata := filter (fun kv => negb (fst kv =? k)%Z) b.

Lemma dget_without (b : tdata) k k' : k' <> k -> d_get (without k b) k' = d_get b k'.
Proof.
  intro Hne. unfold d_get, without. induction b as [|y r IH]; [reflexivity|]. simpl.
  destruct (fst y =? k)%Z eqn:E; simpl.
  - apply Z.eqb_eq in E. assert ((fst y =? k')%Z = false) as -> by (apply Z.eqb_neq; congruence). exact IH.
  - destruct (fst y =? k')%Z; [reflexivity|exact IH].
Qed.

Lemma split_partner (b : tdata) k : NoDup (map fst b) ->
  Permutation (dtops b) (partner b k ++ dtops (without k b)).
Proof.
  unfold partner, d_get, without. induction b as [|y r IH]; intro Hnd; [reflexivity|].
  inversion Hnd as [|? ? Hn Hr]; subst. simpl. destruct (fst y =? k)%Z eqn:E; simpl.
  - apply Z.eqb_eq in E. apply Permutation_app_head.
    assert (filter (fun kv : Z * coef => negb (fst kv =? k)%Z) r = r) as ->; [|reflexivity].
    clear -Hn E. induction r as [|z t IH]; [reflexivity|]. simpl.
    destruct (fst z =? k)%Z eqn:Ez.
    + apply Z.eqb_eq in Ez. exfalso. apply Hn. left. congruence.
    + simpl. f_equal. apply IH. intro H. apply Hn. right. exact H.
  - rewrite (IH Hr). apply Permutation_app_swap_app.
Qed.

Definition mergef (b : tdata) (kv : Z * coef) : Z * coef :=
  match d_get b (fst kv) with Some w => (fst kv, cadd (snd kv) w) | None => kv end.

Lemma padd_core (a : tdata) : forall b, NoDup (map fst a) -> NoDup (map fst b) ->
  Permutation (dtops (map (mergef b) a) ++ dtops (filter (fun kv => negb (d_has a (fst kv))) b))
              (dtops a ++ dtops b).
Proof.
  induction a as [|x r IH]; intros b Ha Hb.
  - assert (forall l : tdata, filter (fun kv => negb (d_has (@nil (Z * coef)) (fst kv))) l = l) as Hfl
      by (induction l as [|y t IHl]; [reflexivity|simpl; f_equal; exact IHl]).
    rewrite Hfl. reflexivity.
  - inversion Ha as [|? ? Hn Hr]; subst. set (k := fst x).
    assert (map (mergef b) r = map (mergef (without k b)) r) as Em.
    { apply map_ext_in. intros y Hy. unfold mergef. rewrite dget_without; [reflexivity|].
      intro E. apply Hn. unfold k in E. rewrite <- E. apply in_map. exact Hy. }
    assert (filter (fun kv => negb (d_has (x :: r) (fst kv))) b = filter (fun kv => negb (d_has r (fst kv))) (without k b)) as Ef.
    { unfold without. clear. induction b as [|y t IHb]; [reflexivity|]. simpl. unfold d_has at 1. simpl.
      fold (d_has r (fst y)). rewrite (Z.eqb_sym (fst x) (fst y)). fold k.
      destruct (fst y =? k)%Z; simpl; [exact IHb|]. destruct (d_has r (fst y)); simpl; [exact IHb|f_equal; exact IHb]. }
    cbn [map]. rewrite Em, Ef.
    change (dtops (mergef b x :: map (mergef (without k b)) r))
      with (ctops (snd (mergef b x)) ++ dtops (map (mergef (without k b)) r)).
    rewrite <- app_assoc. rewrite (IH (without k b) Hr (filter_keys_nodup _ b Hb)).
    rewrite (split_partner b k Hb).
    assert (ctops (snd (mergef b x)) = ctops (snd x) ++ partner b k) as ->.
    { unfold mergef, partner. fold k. destruct (d_get b k); cbn [snd]; [apply ctops_cadd|rewrite app_nil_r; reflexivity]. }
    change (dtops (x :: r)) with (ctops (snd x) ++ dtops r). perm_solve.
Qed.

Lemma padd_tops (a b : tdata) : NoDup (map fst a) -> NoDup (map fst b) ->
  Permutation (dtops (padd coef_alg a b)) (dtops a ++ dtops b).
Proof.
  intros Ha Hb. unfold padd. rewrite compact_tops, dtops_app. exact (padd_core a b Ha Hb).
Qed.

Lemma padd_okx HT (a b : tdata) : dokx HT a -> dokx HT b -> dokx HT (padd coef_alg a b).
Proof.
  intros Ha Hb. unfold padd. apply compact_okx. intros kv Hin. apply in_app_or in Hin. destruct Hin as [Hin|Hin].
  - apply in_map_iff in Hin. destruct Hin as [x [<- Hx]]. unfold d_get.
    destruct (find (fun kv0 => (fst kv0 =? fst x)%Z) b) as [y|] eqn:Ef; [|exact (Ha x Hx)].
    cbn [snd ca_add coef_alg]. apply cokx_cadd; [exact (Ha x Hx)|]. apply find_some in Ef. exact (Hb y (proj1 Ef)).
  - apply filter_In in Hin. exact (Hb kv (proj1 Hin)).
Qed.

(* ------------------------------------------------------------ Poly.copy *)
Definition copy_leaves (h c : nat) (a : tdata) : list leaf :=
  flat_map (fun ia => sl (h + fst ia) c (snd (snd ia))) (enum_from 0 a).

Lemma copy_tops h c (a : tdata) :
  dtops (map (fun ikv => (fst (snd ikv), ca_hub coef_alg (h + fst ikv) 2 c (snd (snd ikv)))) (enum_from 0 a))
  = copy_leaves h c a.
Proof.
  unfold dtops, copy_leaves. rewrite flat_map_map. apply flat_map_ext_in'. intros ia _.
  cbn [snd ca_hub coef_alg]. destruct (snd (snd ia)); reflexivity.
Qed.
Lemma copy_leaves_nodup h c a : NoDup (copy_leaves h c a).
Proof.
  unfold copy_leaves. apply (nodup_flat_map_key fst); [apply enum_nodup| |].
  - intros ia _. unfold sl. destruct (is_stream _); repeat constructor. intros [].
  - intros x y z _ _ Hne Hx Hy. apply sl_in in Hx. apply sl_in in Hy. subst z. injection Hy. lia.
Qed.
Lemma copy_leaves_in h c a z : In z (copy_leaves h c a) -> exists i, z = LCopy (h + i) c /\ (i < length a)%nat.
Proof.
  unfold copy_leaves. intro H. apply in_flat_map in H. destruct H as [[i x] [Hi Hz]]. apply sl_in in Hz.
  apply enum_in in Hi. exists i. split; [exact Hz|lia].
Qed.

Lemma enum_in_list {A} (l : list A) : forall s i x, In (i, x) (enum_from s l) -> In x l.
Proof.
  induction l as [|y r IH]; intros s i x H; [destruct H|]. simpl in H.
  destruct H as [E|H]; [injection E as _ <-; left; reflexivity|right; exact (IH _ _ _ H)].
Qed.

Lemma copy_okx HT HT' h c (a : tdata) : (c < 2)%nat -> incl HT HT' -> incl (hubs_from 0 h 2 a) HT' -> dokx HT a ->
  dokx HT' (map (fun ikv => (fst (snd ikv), ca_hub coef_alg (h + fst ikv) 2 c (snd (snd ikv)))) (enum_from 0 a)).
Proof.
  intros Hc Hi Hh Ha kv Hin. apply in_map_iff in Hin. destruct Hin as [[i [k v]] [<- Hi']].
  cbn [fst snd ca_hub coef_alg]. apply cokx_hub; [exact Hc|]. intros e ->. split.
  - apply Hh. unfold hubs_from. apply in_flat_map. exists (i, (k, CStr e)). split; [exact Hi'|left; reflexivity].
  - apply (okx_mono HT _ _ Hi). exact (Ha _ (enum_in_list _ _ _ _ Hi')).
Qed.

Lemma pcopy_world HT h (a : tdata) X :
  Wl HT h (dtops a ++ X) -> dokx HT a ->
  exists HT', incl HT HT' /\ dokx HT' (fst (fst (pcopy coef_alg h a))) /\ dokx HT' (snd (fst (pcopy coef_alg h a))) /\
    Wl HT' (snd (pcopy coef_alg h a))
       (dtops (fst (fst (pcopy coef_alg h a))) ++ dtops (snd (fst (pcopy coef_alg h a))) ++ X).
Proof.
  intros Hw Ha. set (NE := hubs_from 0 h 2 a). exists (HT ++ NE).
  assert (incl HT (HT ++ NE)) as Hinc by (apply incl_appl, incl_refl).
  assert (incl NE (HT ++ NE)) as Hinc2 by (apply incl_appr, incl_refl).
  unfold pcopy. cbn [fst snd]. split; [exact Hinc|].
  split; [apply (copy_okx HT); [lia|exact Hinc|exact Hinc2|exact Ha]|].
  split; [apply (copy_okx HT); [lia|exact Hinc|exact Hinc2|exact Ha]|].
  rewrite !copy_tops. rewrite app_assoc.
  apply (Wl_newhubs HT h (h + length a) (dtops a) X NE (copy_leaves h 0 a ++ copy_leaves h 1 a) Hw); try lia.
  - apply hubs_keys_nodup.
  - intros x Hx. apply hubs_range in Hx. lia.
  - intros h0 n0 p0 Hin. destruct (hubs_in _ _ _ _ _ Hin) as (i & k & e & Hi & E). injection E as _ _ ->.
    exact (Ha _ (enum_in_list _ _ _ _ Hi)).
  - apply hubs_parents.
  - apply nodup_app_disj'; try apply copy_leaves_nodup.
    intros z H0 H1. apply copy_leaves_in in H0. apply copy_leaves_in in H1.
    destruct H0 as (i & -> & _). destruct H1 as (j & E & _). discriminate.
  - intros l Hl. apply in_app_or in Hl. destruct Hl as [Hl|Hl]; apply copy_leaves_in in Hl;
      destruct Hl as (i & -> & Hi); eexists; eexists; (split; [reflexivity|lia]).
Qed.
