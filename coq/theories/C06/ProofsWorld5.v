(* C06 - Part 5: sums (Poly.__add__, Poly.copy, ZFilter.__add__) on a linear world. *)
From Coq Require Import List Bool Arith ZArith QArith Qcanon Lia Permutation.
From AL Require Import Base.CaseLib C04.Model C06.Model C06.Spec.
From AL Require Import C06.ProofsPull C06.ProofsLoop C06.ProofsWf C06.ProofsEq C06.ProofsKeys C06.ProofsLin C06.ProofsLin2 C06.ProofsLin3 C06.ProofsLin4.
From AL Require Import C06.ProofsWorld C06.ProofsWorld2 C06.ProofsWorld3 C06.ProofsWorld4.
Import ListNotations.

(* ------------------------------------------------------------ Poly.__add__ *)
Definition partner (b : tdata) (k : Z) : list leaf :=
  match d_get b k with Some w => ctops w | None => [] end.
Definition without (k : Z) (b : tdata) : tdata := filter (fun kv => negb (fst kv =? k)%Z) b.

Lemma dget_without (b : tdata) k k' : k' <> k -> d_get (without k b) k' = d_get b k'.
Proof.
  intro Hne. unfold d_get, without. induction b as [|y r IH]; [reflexivity|]. simpl.
  destruct (fst y =? k)%Z eqn:E; simpl.
  - apply Z.eqb_eq in E. assert ((fst y =? k')%Z = false) as -> by (apply Z.eqb_neq; congruence). exact IH.
  - destruct (fst y =? k')%Z; [reflexivity|exact IH].
Qed.

Lemma split_partner (b : tdata) k : NoDup (map fst b) ->
  Permutation (dtops b) (partner b k ++ dtops (without k b)).
Proof.
  unfold partner, d_get, without. induction b as [|y r IH]; intro Hnd; [reflexivity|].
  inversion Hnd as [|? ? Hn Hr]; subst. simpl. destruct (fst y =? k)%Z eqn:E; simpl.
  - apply Z.eqb_eq in E. apply Permutation_app_head.
    assert (filter (fun kv : Z * coef => negb (fst kv =? k)%Z) r = r) as ->; [|reflexivity].
    clear -Hn E. induction r as [|z t IH]; [reflexivity|]. simpl.
    destruct (fst z =? k)%Z eqn:Ez.
    + apply Z.eqb_eq in Ez. exfalso. apply Hn. left. congruence.
    + simpl. f_equal. apply IH. intro H. apply Hn. right. exact H.
  - rewrite (IH Hr). apply Permutation_app_swap_app.
Qed.

Definition mergef (b : tdata) (kv : Z * coef) : Z * coef :=
  match d_get b (fst kv) with Some w => (fst kv, cadd (snd kv) w) | None => kv end.

Lemma padd_core (a : tdata) : forall b, NoDup (map fst a) -> NoDup (map fst b) ->
  Permutation (dtops (map (mergef b) a) ++ dtops (filter (fun kv => negb (d_has a (fst kv))) b))
              (dtops a ++ dtops b).
Proof.
  induction a as [|x r IH]; intros b Ha Hb.
  - assert (forall l : tdata, filter (fun kv => negb (d_has (@nil (Z * coef)) (fst kv))) l = l) as Hfl
      by (induction l as [|y t IHl]; [reflexivity|simpl; f_equal; exact IHl]).
    rewrite Hfl. reflexivity.
  - inversion Ha as [|? ? Hn Hr]; subst. set (k := fst x).
    assert (map (mergef b) r = map (mergef (without k b)) r) as Em.
    { apply map_ext_in. intros y Hy. unfold mergef. rewrite dget_without; [reflexivity|].
      intro E. apply Hn. unfold k in E. rewrite <- E. apply in_map. exact Hy. }
    assert (filter (fun kv => negb (d_has (x :: r) (fst kv))) b = filter (fun kv => negb (d_has r (fst kv))) (without k b)) as Ef.
    { unfold without. clear. induction b as [|y t IHb]; [reflexivity|]. simpl. unfold d_has at 1. simpl.
      fold (d_has r (fst y)). rewrite (Z.eqb_sym (fst x) (fst y)). fold k.
      destruct (fst y =? k)%Z; simpl; [exact IHb|]. destruct (d_has r (fst y)); simpl; [exact IHb|f_equal; exact IHb]. }
    cbn [map]. rewrite Em, Ef.
    change (dtops (mergef b x :: map (mergef (without k b)) r))
      with (ctops (snd (mergef b x)) ++ dtops (map (mergef (without k b)) r)).
    rewrite <- app_assoc. rewrite (IH (without k b) Hr (filter_keys_nodup _ b Hb)).
    rewrite (split_partner b k Hb).
    assert (ctops (snd (mergef b x)) = ctops (snd x) ++ partner b k) as ->.
    { unfold mergef, partner. fold k. destruct (d_get b k); cbn [snd]; [apply ctops_cadd|rewrite app_nil_r; reflexivity]. }
    change (dtops (x :: r)) with (ctops (snd x) ++ dtops r). perm_solve.
Qed.

Lemma padd_tops (a b : tdata) : NoDup (map fst a) -> NoDup (map fst b) ->
  Permutation (dtops (padd coef_alg a b)) (dtops a ++ dtops b).
Proof.
  intros Ha Hb. unfold padd. rewrite compact_tops, dtops_app. exact (padd_core a b Ha Hb).
Qed.

Lemma padd_okx HT (a b : tdata) : dokx HT a -> dokx HT b -> dokx HT (padd coef_alg a b).
Proof.
  intros Ha Hb. unfold padd. apply compact_okx. intros kv Hin. apply in_app_or in Hin. destruct Hin as [Hin|Hin].
  - apply in_map_iff in Hin. destruct Hin as [x [<- Hx]]. unfold d_get.
    destruct (find (fun kv0 => (fst kv0 =? fst x)%Z) b) as [y|] eqn:Ef; [|exact (Ha x Hx)].
    cbn [snd ca_add coef_alg]. apply cokx_cadd; [exact (Ha x Hx)|]. apply find_some in Ef. exact (Hb y (proj1 Ef)).
  - apply filter_In in Hin. exact (Hb kv (proj1 Hin)).
Qed.

(* ------------------------------------------------------------ Poly.copy *)
Definition copy_leaves (h c : nat) (a : tdata) : list leaf :=
  flat_map (fun ia => sl (h + fst ia) c (snd (snd ia))) (enum_from 0 a).

Lemma copy_tops h c (a : tdata) :
  dtops (map (fun ikv => (fst (snd ikv), ca_hub coef_alg (h + fst ikv) 2 c (snd (snd ikv)))) (enum_from 0 a))
  = copy_leaves h c a.
Proof.
  unfold dtops, copy_leaves. rewrite flat_map_map. apply flat_map_ext_in'. intros ia _.
  cbn [snd ca_hub coef_alg]. destruct (snd (snd ia)); reflexivity.
Qed.
Lemma copy_leaves_nodup h c a : NoDup (copy_leaves h c a).
Proof.
  unfold copy_leaves. apply (nodup_flat_map_key fst); [apply enum_nodup| |].
  - intros ia _. unfold sl. destruct (is_stream _); repeat constructor. intros [].
  - intros x y z _ _ Hne Hx Hy. apply sl_in in Hx. apply sl_in in Hy. subst z. injection Hy. lia.
Qed.
Lemma copy_leaves_in h c a z : In z (copy_leaves h c a) -> exists i, z = LCopy (h + i) c /\ (i < length a)%nat.
Proof.
  unfold copy_leaves. intro H. apply in_flat_map in H. destruct H as [[i x] [Hi Hz]]. apply sl_in in Hz.
  apply enum_in in Hi. exists i. split; [exact Hz|lia].
Qed.

Lemma enum_in_list {A} (l : list A) : forall s i x, In (i, x) (enum_from s l) -> In x l.
Proof.
  induction l as [|y r IH]; intros s i x H; [destruct H|]. simpl in H.
  destruct H as [E|H]; [injection E as _ <-; left; reflexivity|right; exact (IH _ _ _ H)].
Qed.

Lemma copy_okx HT HT' h c (a : tdata) : (c < 2)%nat -> incl HT HT' -> incl (hubs_from 0 h 2 a) HT' -> dokx HT a ->
  dokx HT' (map (fun ikv => (fst (snd ikv), ca_hub coef_alg (h + fst ikv) 2 c (snd (snd ikv)))) (enum_from 0 a)).
Proof.
  intros Hc Hi Hh Ha kv Hin. apply in_map_iff in Hin. destruct Hin as [[i [k v]] [<- Hi']].
  cbn [fst snd ca_hub coef_alg]. apply cokx_hub; [exact Hc|]. intros e ->. split.
  - apply Hh. unfold hubs_from. apply in_flat_map. exists (i, (k, CStr e)). split; [exact Hi'|left; reflexivity].
  - apply (okx_mono HT _ _ Hi). exact (Ha _ (enum_in_list _ _ _ _ Hi')).
Qed.

Lemma pcopy_world HT h (a : tdata) X :
  Wl HT h (dtops a ++ X) -> dokx HT a ->
  exists HT', incl HT HT' /\ dokx HT' (fst (fst (pcopy coef_alg h a))) /\ dokx HT' (snd (fst (pcopy coef_alg h a))) /\
    Wl HT' (snd (pcopy coef_alg h a))
       (dtops (fst (fst (pcopy coef_alg h a))) ++ dtops (snd (fst (pcopy coef_alg h a))) ++ X).
Proof.
  intros Hw Ha. set (NE := hubs_from 0 h 2 a). exists (HT ++ NE).
  assert (incl HT (HT ++ NE)) as Hinc by (apply incl_appl, incl_refl).
  assert (incl NE (HT ++ NE)) as Hinc2 by (apply incl_appr, incl_refl).
  unfold pcopy. cbn [fst snd]. split; [exact Hinc|].
  split; [apply (copy_okx HT); [lia|exact Hinc|exact Hinc2|exact Ha]|].
  split; [apply (copy_okx HT); [lia|exact Hinc|exact Hinc2|exact Ha]|].
  rewrite !copy_tops. rewrite app_assoc.
  apply (Wl_newhubs HT h (h + length a) (dtops a) X NE (copy_leaves h 0 a ++ copy_leaves h 1 a) Hw); try lia.
  - apply hubs_keys_nodup.
  - intros x Hx. apply hubs_range in Hx. lia.
  - intros h0 n0 p0 Hin. destruct (hubs_in _ _ _ _ _ Hin) as (i & k & e & Hi & E). injection E as _ _ ->.
    exact (Ha _ (enum_in_list _ _ _ _ Hi)).
  - apply hubs_parents.
  - apply nodup_app_disj'; try apply copy_leaves_nodup.
    intros z H0 H1. apply copy_leaves_in in H0. apply copy_leaves_in in H1.
    destruct H0 as (i & -> & _). destruct H1 as (j & E & _). discriminate.
  - intros l Hl. apply in_app_or in Hl. destruct Hl as [Hl|Hl]; apply copy_leaves_in in Hl;
      destruct Hl as (i & -> & Hi); eexists; eexists; (split; [reflexivity|lia]).
Qed.

(* ------------------------------------------------------------ ZFilter.__add__ *)
Lemma fadd_world HT h (f g : tfilt) X r h' :
  fnodup f -> fnodup g ->
  dokx HT (t_num f) -> dokx HT (t_den f) -> dokx HT (t_num g) -> dokx HT (t_den g) ->
  Wl HT h (dtops (t_num f) ++ dtops (t_den f) ++ dtops (t_num g) ++ dtops (t_den g) ++ X) ->
  fadd coef_alg h f g = BOk r h' ->
  exists HT', incl HT HT' /\ FW HT' h' r X.
Proof.
  intros [Nfn Nfd] [Ngn Ngd] Ofn Ofd Ogn Ogd Hw. unfold fadd.
  destruct (peq coef_alg (t_den f) (t_den g)).
  - (* equal denominators: the numerators are added *)
    apply mk_world; [|apply padd_okx; assumption|exact Ofd].
    apply (Wl_sub _ _ _ _ (dtops (t_den g)) Hw). rewrite (padd_tops _ _ Nfn Ngn). perm_solve.
  - assert (Wl HT h (dtops (t_den g) ++ (dtops (t_num f) ++ dtops (t_den f) ++ dtops (t_num g) ++ X))) as W0
      by (apply (Wl_perm _ _ _ _ Hw); perm_solve).
    destruct (pcopy_world HT h _ _ W0 Ogd) as (HT1 & I1 & Ogd0 & Ogdc & W1).
    destruct (pcopy coef_alg h (t_den g)) as [[gd0 gdc] h1]. cbn [fst snd] in *.
    assert (Wl HT1 h1 (dtops (t_num f) ++ dtops gdc ++ (dtops gd0 ++ dtops (t_den f) ++ dtops (t_num g) ++ X))) as W1'
      by (apply (Wl_perm _ _ _ _ W1); perm_solve).
    destruct (pmul_world HT1 h1 _ _ _ W1' (dokx_mono _ _ _ I1 Ofn) Ogdc) as (HT2 & I2 & Op1 & W2).
    pose proof (pmul_nodup coef_alg h1 (t_num f) gdc) as Np1.
    destruct (pmul coef_alg h1 (t_num f) gdc) as [p1 h2]. cbn [fst snd] in *.
    assert (incl HT HT2) as I02 by (intros x Hx; apply I2, I1; exact Hx).
    assert (Wl HT2 h2 (dtops (t_den f) ++ (dtops p1 ++ dtops gd0 ++ dtops (t_num g) ++ X))) as W2'
      by (apply (Wl_perm _ _ _ _ W2); perm_solve).
    destruct (pcopy_world HT2 h2 _ _ W2' (dokx_mono _ _ _ I02 Ofd)) as (HT3 & I3 & Ofd0 & Ofdc & W3).
    destruct (pcopy coef_alg h2 (t_den f)) as [[fd0 fdc] h3]. cbn [fst snd] in *.
    assert (incl HT HT3) as I03 by (intros x Hx; apply I3, I02; exact Hx).
    assert (Wl HT3 h3 (dtops (t_num g) ++ dtops fdc ++ (dtops p1 ++ dtops gd0 ++ dtops fd0 ++ X))) as W3'
      by (apply (Wl_perm _ _ _ _ W3); perm_solve).
    destruct (pmul_world HT3 h3 _ _ _ W3' (dokx_mono _ _ _ I03 Ogn) Ofdc) as (HT4 & I4 & Op2 & W4).
    pose proof (pmul_nodup coef_alg h3 (t_num g) fdc) as Np2.
    destruct (pmul coef_alg h3 (t_num g) fdc) as [p2 h4]. cbn [fst snd] in *.
    assert (Wl HT4 h4 (dtops fd0 ++ dtops gd0 ++ (dtops p1 ++ dtops p2 ++ X))) as W4'
      by (apply (Wl_perm _ _ _ _ W4); perm_solve).
    assert (incl HT2 HT4) as I24 by (intros x Hx; apply I4, I3; exact Hx).
    assert (incl HT1 HT4) as I14 by (intros x Hx; apply I24, I2; exact Hx).
    destruct (pmul_world HT4 h4 _ _ _ W4' (dokx_mono _ _ _ I4 Ofd0) (dokx_mono _ _ _ I14 Ogd0)) as (HT5 & I5 & Odd & W5).
    destruct (pmul coef_alg h4 fd0 gd0) as [dd h5]. cbn [fst snd] in *.
    intro E.
    assert (Wl HT5 h5 (dtops (padd coef_alg p1 p2) ++ dtops dd ++ X)) as W5'.
    { apply (Wl_perm _ _ _ _ W5). rewrite (padd_tops _ _ Np1 Np2). perm_solve. }
    assert (dokx HT5 (padd coef_alg p1 p2)) as Opa.
    { apply padd_okx; [apply (dokx_mono HT2); [intros x Hx; apply I5, I24; exact Hx|exact Op1]|
                       apply (dokx_mono HT4 _ _ I5 Op2)]. }
    destruct (mk_world HT5 h5 _ _ X r h' W5' Opa Odd E) as (HT6 & I6 & HF).
    exists HT6. split; [intros x Hx; apply I6, I5, I4, I03; exact Hx|exact HF].
Qed.

(* ------------------------------------------------ every expression *)
Lemma build_world : forall e, fexp_simple e -> bases_ok e ->
  forall HT h X f h', Wl HT h (esrcs e ++ X) -> build coef_alg e h = BOk f h' ->
  exists HT', incl HT HT' /\ FW HT' h' f X.
Proof.
  induction e; intros Hs Hbo HT h X f h' Hw Hb; simpl in Hs, Hbo, Hw; cbn [build bbind] in Hb.
  - (* FBase *)
    rewrite <- app_assoc in Hw. apply (mk_world HT h num den X f h' Hw); [| |exact Hb];
      apply simple_dokx; intros kv Hin; apply Hs; apply in_or_app; [left|right]; exact Hin.
  - (* FAdd *)
    destruct Hs as [S1 S2]. destruct Hbo as [B1 B2].
    destruct (build coef_alg e1 h) as [f1 h1|] eqn:E1; [|discriminate]. cbn [bbind] in Hb.
    destruct (build coef_alg e2 h1) as [f2 h2|] eqn:E2; [|discriminate]. cbn [bbind] in Hb.
    rewrite <- app_assoc in Hw.
    destruct (IHe1 S1 B1 HT h (esrcs e2 ++ X) f1 h1 Hw E1) as (HT1 & I1 & (O1n & O1d & W1)).
    assert (Wl HT1 h1 (esrcs e2 ++ (dtops (t_num f1) ++ dtops (t_den f1) ++ X))) as W1' by (apply (Wl_perm _ _ _ _ W1); perm_solve).
    destruct (IHe2 S2 B2 HT1 h1 _ f2 h2 W1' E2) as (HT2 & I2 & (O2n & O2d & W2)).
    assert (Wl HT2 h2 (dtops (t_num f1) ++ dtops (t_den f1) ++ dtops (t_num f2) ++ dtops (t_den f2) ++ X)) as W2'
      by (apply (Wl_perm _ _ _ _ W2); perm_solve).
    destruct (fadd_world HT2 h2 f1 f2 X f h' (build_nodup coef_alg e1 h f1 h1 B1 E1) (build_nodup coef_alg e2 h1 f2 h2 B2 E2)
                (dokx_mono _ _ _ I2 O1n) (dokx_mono _ _ _ I2 O1d) O2n O2d W2' Hb) as (HT3 & I3 & HF).
    exists HT3. split; [intros x Hx; apply I3, I2, I1; exact Hx|exact HF].
  - (* FSub *)
    destruct Hs as [S1 S2]. destruct Hbo as [B1 B2].
    destruct (build coef_alg e1 h) as [f1 h1|] eqn:E1; [|discriminate]. cbn [bbind] in Hb.
    destruct (build coef_alg e2 h1) as [f2 h2|] eqn:E2; [|discriminate]. cbn [bbind] in Hb.
    destruct (fneg coef_alg h2 f2) as [g h3|] eqn:E3; [|discriminate]. cbn [bbind] in Hb.
    rewrite <- app_assoc in Hw.
    destruct (IHe1 S1 B1 HT h (esrcs e2 ++ X) f1 h1 Hw E1) as (HT1 & I1 & (O1n & O1d & W1)).
    assert (Wl HT1 h1 (esrcs e2 ++ (dtops (t_num f1) ++ dtops (t_den f1) ++ X))) as W1' by (apply (Wl_perm _ _ _ _ W1); perm_solve).
    destruct (IHe2 S2 B2 HT1 h1 _ f2 h2 W1' E2) as (HT2 & I2 & HF2).
    destruct (fneg_world HT2 h2 f2 _ g h3 HF2 E3) as (HT3 & I3 & (Ogn & Ogd & W3)).
    assert (incl HT1 HT3) as I13 by (intros x Hx; apply I3, I2; exact Hx).
    assert (Wl HT3 h3 (dtops (t_num f1) ++ dtops (t_den f1) ++ dtops (t_num g) ++ dtops (t_den g) ++ X)) as W3'
      by (apply (Wl_perm _ _ _ _ W3); perm_solve).
    destruct (fadd_world HT3 h3 f1 g X f h' (build_nodup coef_alg e1 h f1 h1 B1 E1)
                (fneg_nodup coef_alg h2 f2 g h3 (build_nodup coef_alg e2 h1 f2 h2 B2 E2) E3)
                (dokx_mono _ _ _ I13 O1n) (dokx_mono _ _ _ I13 O1d) Ogn Ogd W3' Hb) as (HT4 & I4 & HF).
    exists HT4. split; [intros x Hx; apply I4, I13, I1; exact Hx|exact HF].
  - (* FMul *)
    destruct Hs as [S1 S2]. destruct Hbo as [B1 B2].
    destruct (build coef_alg e1 h) as [f1 h1|] eqn:E1; [|discriminate]. cbn [bbind] in Hb.
    destruct (build coef_alg e2 h1) as [f2 h2|] eqn:E2; [|discriminate]. cbn [bbind] in Hb.
    rewrite <- app_assoc in Hw.
    destruct (IHe1 S1 B1 HT h (esrcs e2 ++ X) f1 h1 Hw E1) as (HT1 & I1 & (O1n & O1d & W1)).
    assert (Wl HT1 h1 (esrcs e2 ++ (dtops (t_num f1) ++ dtops (t_den f1) ++ X))) as W1' by (apply (Wl_perm _ _ _ _ W1); perm_solve).
    destruct (IHe2 S2 B2 HT1 h1 _ f2 h2 W1' E2) as (HT2 & I2 & (O2n & O2d & W2)).
    assert (Wl HT2 h2 (dtops (t_num f1) ++ dtops (t_den f1) ++ dtops (t_num f2) ++ dtops (t_den f2) ++ X)) as W2'
      by (apply (Wl_perm _ _ _ _ W2); perm_solve).
    destruct (fmul_world HT2 h2 f1 f2 X f h' (dokx_mono _ _ _ I2 O1n) (dokx_mono _ _ _ I2 O1d) O2n O2d W2' Hb) as (HT3 & I3 & HF).
    exists HT3. split; [intros x Hx; apply I3, I2, I1; exact Hx|exact HF].
  - (* FNeg *)
    destruct (build coef_alg e h) as [f1 h1|] eqn:E1; [|discriminate]. cbn [bbind] in Hb.
    destruct (IHe Hs Hbo HT h X f1 h1 Hw E1) as (HT1 & I1 & HF1).
    destruct (fneg_world HT1 h1 f1 X f h' HF1 Hb) as (HT2 & I2 & HF).
    exists HT2. split; [intros x Hx; apply I2, I1; exact Hx|exact HF].
  - (* FMulR *)
    destruct Hs as [S1 Sc].
    destruct (build coef_alg e h) as [f1 h1|] eqn:E1; [|discriminate]. cbn [bbind] in Hb.
    rewrite <- app_assoc in Hw.
    destruct (IHe S1 Hbo HT h (ctops c ++ X) f1 h1 Hw E1) as (HT1 & I1 & (O1n & O1d & W1)).
    destruct (fmul_scalar_world HT1 h1 f1 c X f h' O1n O1d (simple_cokx HT1 c Sc) W1 Hb) as (HT2 & I2 & HF).
    exists HT2. split; [intros x Hx; apply I2, I1; exact Hx|exact HF].
  - (* FMulL *)
    destruct Hs as [S1 Sc].
    destruct (build coef_alg e h) as [f1 h1|] eqn:E1; [|discriminate]. cbn [bbind] in Hb.
    destruct (zf_scalar coef_alg h1 c) as [g h2|] eqn:E2; [|discriminate]. cbn [bbind] in Hb.
    rewrite <- app_assoc in Hw.
    destruct (IHe S1 Hbo HT h (ctops c ++ X) f1 h1 Hw E1) as (HT1 & I1 & (O1n & O1d & W1)).
    assert (Wl HT1 h1 (ctops c ++ (dtops (t_num f1) ++ dtops (t_den f1) ++ X))) as W1' by (apply (Wl_perm _ _ _ _ W1); perm_solve).
    destruct (zf_world HT1 h1 c _ g h2 (simple_cokx HT1 c Sc) W1' E2) as (HT2 & I2 & (Ogn & Ogd & W2)).
    assert (Wl HT2 h2 (dtops (t_num g) ++ dtops (t_den g) ++ dtops (t_num f1) ++ dtops (t_den f1) ++ X)) as W2'
      by (apply (Wl_perm _ _ _ _ W2); perm_solve).
    destruct (fmul_world HT2 h2 g f1 X f h' Ogn Ogd (dokx_mono _ _ _ I2 O1n) (dokx_mono _ _ _ I2 O1d) W2' Hb) as (HT3 & I3 & HF).
    exists HT3. split; [intros x Hx; apply I3, I2, I1; exact Hx|exact HF].
  - (* FAddR *)
    destruct Hs as [S1 Sc].
    destruct (build coef_alg e h) as [f1 h1|] eqn:E1; [|discriminate]. cbn [bbind] in Hb.
    destruct (zf_scalar coef_alg h1 c) as [g h2|] eqn:E2; [|discriminate]. cbn [bbind] in Hb.
    rewrite <- app_assoc in Hw.
    destruct (IHe S1 Hbo HT h (ctops c ++ X) f1 h1 Hw E1) as (HT1 & I1 & (O1n & O1d & W1)).
    assert (Wl HT1 h1 (ctops c ++ (dtops (t_num f1) ++ dtops (t_den f1) ++ X))) as W1' by (apply (Wl_perm _ _ _ _ W1); perm_solve).
    destruct (zf_world HT1 h1 c _ g h2 (simple_cokx HT1 c Sc) W1' E2) as (HT2 & I2 & (Ogn & Ogd & W2)).
    assert (Wl HT2 h2 (dtops (t_num f1) ++ dtops (t_den f1) ++ dtops (t_num g) ++ dtops (t_den g) ++ X)) as W2'
      by (apply (Wl_perm _ _ _ _ W2); perm_solve).
    destruct (fadd_world HT2 h2 f1 g X f h' (build_nodup coef_alg e h f1 h1 Hbo E1) (zf_nodup coef_alg h1 c g h2 E2)
                (dokx_mono _ _ _ I2 O1n) (dokx_mono _ _ _ I2 O1d) Ogn Ogd W2' Hb) as (HT3 & I3 & HF).
    exists HT3. split; [intros x Hx; apply I3, I2, I1; exact Hx|exact HF].
  - (* FAddL *)
    destruct Hs as [S1 Sc].
    destruct (build coef_alg e h) as [f1 h1|] eqn:E1; [|discriminate]. cbn [bbind] in Hb.
    destruct (zf_scalar coef_alg h1 c) as [g h2|] eqn:E2; [|discriminate]. cbn [bbind] in Hb.
    rewrite <- app_assoc in Hw.
    destruct (IHe S1 Hbo HT h (ctops c ++ X) f1 h1 Hw E1) as (HT1 & I1 & (O1n & O1d & W1)).
    assert (Wl HT1 h1 (ctops c ++ (dtops (t_num f1) ++ dtops (t_den f1) ++ X))) as W1' by (apply (Wl_perm _ _ _ _ W1); perm_solve).
    destruct (zf_world HT1 h1 c _ g h2 (simple_cokx HT1 c Sc) W1' E2) as (HT2 & I2 & (Ogn & Ogd & W2)).
    assert (Wl HT2 h2 (dtops (t_num g) ++ dtops (t_den g) ++ dtops (t_num f1) ++ dtops (t_den f1) ++ X)) as W2'
      by (apply (Wl_perm _ _ _ _ W2); perm_solve).
    destruct (fadd_world HT2 h2 g f1 X f h' (zf_nodup coef_alg h1 c g h2 E2) (build_nodup coef_alg e h f1 h1 Hbo E1)
                Ogn Ogd (dokx_mono _ _ _ I2 O1n) (dokx_mono _ _ _ I2 O1d) W2' Hb) as (HT3 & I3 & HF).
    exists HT3. split; [intros x Hx; apply I3, I2, I1; exact Hx|exact HF].
  - (* FDivR *)
    destruct Hs as [S1 Sc].
    destruct (build coef_alg e h) as [f1 h1|] eqn:E1; [|discriminate]. cbn [bbind] in Hb.
    destruct (ca_recip coef_alg c) as [r|] eqn:Er; [|discriminate].
    destruct (recip_simple c r Sc Er) as [Et Eo].
    rewrite <- app_assoc in Hw.
    destruct (IHe S1 Hbo HT h (ctops c ++ X) f1 h1 Hw E1) as (HT1 & I1 & (O1n & O1d & W1)).
    rewrite <- Et in W1.
    destruct (fmul_scalar_world HT1 h1 f1 r X f h' O1n O1d (Eo HT1) W1 Hb) as (HT2 & I2 & HF).
    exists HT2. split; [intros x Hx; apply I2, I1; exact Hx|exact HF].
Qed.
