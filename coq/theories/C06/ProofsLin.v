(* C06 - tee accounting proved once and for all: if every tee copy and every source
   occurs at most once across the coefficient expressions and the iterators the hubs
   are over, a round of next() calls reads every source once and leaves no buffered
   item.  Part 1: the abstract round (apull) on such a family. *)
From Coq Require Import List Bool Arith ZArith QArith Qcanon Lia Permutation.
From AL Require Import Base.CaseLib C04.Model C06.Model C06.Spec C06.ProofsPull.
Import ListNotations.

Inductive leaf := LSrc (i : nat) | LCopy (h c : nat).

(* the leaves an expression pulls directly (not through a tee) *)
Fixpoint tops (e : cx) : list leaf :=
  match e with
  | XSrc i => [LSrc i]
  | XTee h _ c _ => [LCopy h c]
  | XSS _ l r => tops l ++ tops r
  | XSC _ l _ => tops l
  | XCS _ _ r => tops r
  | XNeg e1 => tops e1
  end.
(* every hub number that occurs in an expression, at any depth *)
Fixpoint hubids (e : cx) : list nat :=
  match e with
  | XSrc _ => []
  | XTee h _ _ p => h :: hubids p
  | XSS _ l r => hubids l ++ hubids r
  | XSC _ l _ => hubids l
  | XCS _ _ r => hubids r
  | XNeg e1 => hubids e1
  end.

(* ------------------------------------------------ apull touches its own hubs only *)
Lemma apull_outside e : forall p h c, ~ In h (hubids e) -> fst (apull e p) h c = p h c.
Proof.
  induction e as [i|h0 n0 c0 q IH|o l IHl r IHr|o l IHl y|o x r IHr|e1 IH1]; intros p h c Hn; simpl in *.
  - reflexivity.
  - assert (h <> h0) as Hne by (intro E; apply Hn; left; symmetry; exact E).
    assert (~ In h (hubids q)) as Hq by (intro E; apply Hn; right; exact E).
    destruct (Nat.eqb (p h0 c0) 0).
    + specialize (IH p h c Hq). destruct (apull q p) as [p' rd]. simpl in *.
      unfold p_push. apply Nat.eqb_neq in Hne. rewrite Hne. simpl. exact IH.
    + simpl. unfold p_dec. apply Nat.eqb_neq in Hne. rewrite Hne. reflexivity.
  - assert (~ In h (hubids l)) as Hl by (intro E; apply Hn; apply in_or_app; left; exact E).
    assert (~ In h (hubids r)) as Hr by (intro E; apply Hn; apply in_or_app; right; exact E).
    specialize (IHl p h c Hl). destruct (apull l p) as [p1 r1]. simpl in IHl.
    specialize (IHr p1 h c Hr). destruct (apull r p1) as [p2 r2]. simpl in *. congruence.
  - apply IHl. exact Hn.
  - apply IHr. exact Hn.
  - apply IH1. exact Hn.
Qed.

Lemma apull_tee_eq h n c q p :
  apull (XTee h n c q) p
  = if Nat.eqb (p h c) 0 then (p_push (fst (apull q p)) h n c, snd (apull q p)) else (p_dec p h c, []).
Proof. simpl. destruct (Nat.eqb (p h c) 0); [|reflexivity]. destruct (apull q p); reflexivity. Qed.
Lemma apull_ss_eq o l r p :
  apull (XSS o l r) p
  = (fst (apull r (fst (apull l p))), snd (apull l p) ++ snd (apull r (fst (apull l p)))).
Proof. simpl. destruct (apull l p) as [p1 r1]. simpl. destruct (apull r p1); reflexivity. Qed.

Lemma apull_frame e : forall p1 p2, (forall h c, In h (hubids e) -> p1 h c = p2 h c) ->
  snd (apull e p1) = snd (apull e p2) /\
  (forall h c, In h (hubids e) -> fst (apull e p1) h c = fst (apull e p2) h c).
Proof.
  induction e as [i|h0 n0 c0 q IH|o l IHl r IHr|o l IHl y|o x r IHr|e1 IH1]; intros p1 p2 Hag.
  - split; [reflexivity|intros h c []].
  - rewrite !apull_tee_eq. simpl hubids in *.
    rewrite (Hag h0 c0) by (left; reflexivity).
    assert (forall h c, fst (apull q p1) h c = fst (apull q p2) h c \/ (~ In h (hubids q))) as Hq.
    { intros h c. destruct (in_dec Nat.eq_dec h (hubids q)) as [Hin|Hn]; [left|right; exact Hn].
      apply (IH p1 p2); [intros; apply Hag; right; assumption|exact Hin]. }
    destruct (Nat.eqb (p2 h0 c0) 0); cbn [fst snd].
    + split; [apply (IH p1 p2); intros; apply Hag; right; assumption|].
      intros h c Hin. unfold p_push.
      assert (fst (apull q p1) h c = fst (apull q p2) h c) as ->; [|reflexivity].
      destruct (Hq h c) as [E|Hn]; [exact E|].
      rewrite !apull_outside by exact Hn. apply Hag. exact Hin.
    + split; [reflexivity|]. intros h c Hin. unfold p_dec. rewrite (Hag h c Hin). reflexivity.
  - rewrite !apull_ss_eq. simpl hubids in *. cbn [fst snd].
    destruct (IHl p1 p2) as [Rl Fl]; [intros; apply Hag; apply in_or_app; left; assumption|].
    assert (forall h c, In h (hubids r) -> fst (apull l p1) h c = fst (apull l p2) h c) as Hmid.
    { intros h c Hin. destruct (in_dec Nat.eq_dec h (hubids l)) as [Hl|Hl]; [apply Fl; exact Hl|].
      rewrite !apull_outside by exact Hl. apply Hag. apply in_or_app. right. exact Hin. }
    destruct (IHr _ _ Hmid) as [Rr Fr].
    split; [rewrite Rl, Rr; reflexivity|].
    intros h c Hin. destruct (in_dec Nat.eq_dec h (hubids r)) as [Hr|Hr]; [apply Fr; exact Hr|].
    rewrite (apull_outside r (fst (apull l p1)) h c Hr), (apull_outside r (fst (apull l p2)) h c Hr).
    apply in_app_or in Hin. destruct Hin as [Hin|Hin]; [|contradiction].
    apply Fl. exact Hin.
  - simpl. apply IHl. exact Hag.
  - simpl. apply IHr. exact Hag.
  - simpl. apply IH1. exact Hag.
Qed.

(* firing a hub whose iterator does not mention it: pushing first or last is the same *)
Lemma apull_push_commute q p h n c : ~ In h (hubids q) ->
  snd (apull q (p_push p h n c)) = snd (apull q p) /\
  forall h' c', fst (apull q (p_push p h n c)) h' c' = p_push (fst (apull q p)) h n c h' c'.
Proof.
  intro Hn.
  assert (forall h' c', In h' (hubids q) -> p_push p h n c h' c' = p h' c') as Hag.
  { intros h' c' Hin. unfold p_push. assert (Nat.eqb h' h = false) as ->; [|reflexivity].
    apply Nat.eqb_neq. intro E. subst. contradiction. }
  destruct (apull_frame q _ _ Hag) as [Hr Hf]. split; [exact Hr|].
  intros h' c'. destruct (in_dec Nat.eq_dec h' (hubids q)) as [Hin|Hout].
  - rewrite (Hf h' c' Hin). unfold p_push. assert (Nat.eqb h' h = false) as ->; [|reflexivity].
    apply Nat.eqb_neq. intro E. subst. contradiction.
  - rewrite apull_outside by exact Hout. unfold p_push. rewrite apull_outside by exact Hout. reflexivity.
Qed.

(* ------------------------------------------------------------ the hub table *)
(* hub number -> (number of copies, the iterator the hub is over) *)
Definition htab := list (nat * (nat * cx)).
Definition hpar (HT : htab) (h : nat) : cx :=
  match lookup HT h with Some np => snd np | None => XSrc 0 end.

(* every tee node of the expression is a copy c < n of a hub of the table *)
Fixpoint okx (HT : htab) (e : cx) : Prop :=
  match e with
  | XSrc _ => True
  | XTee h n c p => In (h, (n, p)) HT /\ (c < n)%nat /\ okx HT p
  | XSS _ l r => okx HT l /\ okx HT r
  | XSC _ l _ => okx HT l
  | XCS _ _ r => okx HT r
  | XNeg e1 => okx HT e1
  end.

Lemma lookup_in {A} (l : list (nat * A)) k a : NoDup (map fst l) -> In (k, a) l -> lookup l k = Some a.
Proof.
  induction l as [|[k0 a0] r IH]; intros Hnd Hin; [destruct Hin|].
  inversion Hnd as [|? ? Hn Hr]; subst. simpl. destruct Hin as [E|Hin].
  - injection E as -> ->. rewrite Nat.eqb_refl. reflexivity.
  - destruct (Nat.eqb k0 k) eqn:E; [|apply IH; assumption].
    apply Nat.eqb_eq in E. subst. exfalso. apply Hn. apply (in_map fst _ _ Hin).
Qed.

Definition mapLC (Cn : list (nat * nat)) : list leaf := map (fun hc => LCopy (fst hc) (snd hc)) Cn.

Lemma remove_nodup (h : nat) U : NoDup U -> NoDup (remove Nat.eq_dec h U).
Proof.
  induction U as [|x r IH]; intro H; simpl; [constructor|]. inversion H as [|? ? Hn Hr]; subst.
  destruct (Nat.eq_dec h x); [auto|]. constructor; [|auto]. intro Hin. apply in_remove in Hin. tauto.
Qed.

Section Lin.
  Variable HT : htab.
  Variable All0 : list leaf.
  Hypothesis HTnd : NoDup (map fst HT).
  Hypothesis HTok : forall h n p, In (h, (n, p)) HT -> okx HT p /\ forall h', In h' (hubids p) -> (h' < h)%nat.
  Hypothesis Alnd : NoDup All0.
  Hypothesis Allive : forall h c, In (LCopy h c) All0 -> exists n p, In (h, (n, p)) HT /\ (c < n)%nat.

  Definition ptops (U : list nat) : list leaf := flat_map (fun h => tops (hpar HT h)) U.
  Definition Tot (Cn : list (nat * nat)) (R : list nat) (E X : list leaf) (U : list nat) : list leaf :=
    mapLC Cn ++ map LSrc R ++ E ++ X ++ ptops U.

  Lemma hpar_in h n p : In (h, (n, p)) HT -> hpar HT h = p.
  Proof. intro H. unfold hpar. rewrite (lookup_in HT h (n, p) HTnd H). reflexivity. Qed.

  Lemma tot_consume h c Cn R E X U :
    Permutation (Tot ((h, c) :: Cn) R E X U) (Tot Cn R (LCopy h c :: E) X U).
  Proof.
    unfold Tot, mapLC. simpl. rewrite (app_assoc (map _ Cn) (map LSrc R)).
    rewrite (app_assoc (map _ Cn) (map LSrc R) (LCopy h c :: _)). apply Permutation_middle.
  Qed.
  Lemma tot_read i Cn R E X U : Tot Cn (R ++ [i]) E X U = Tot Cn R (LSrc i :: E) X U.
  Proof. unfold Tot. rewrite map_app. simpl. rewrite <- app_assoc. reflexivity. Qed.
  Lemma tot_split Cn R A B X U : Tot Cn R (A ++ B) X U = Tot Cn R A (B ++ X) U.
  Proof. unfold Tot. rewrite <- !app_assoc. reflexivity. Qed.

  Lemma ptops_remove h U : NoDup U -> In h U ->
    Permutation (ptops U) (tops (hpar HT h) ++ ptops (remove Nat.eq_dec h U)).
  Proof.
    induction U as [|x r IH]; intros Hnd Hin; [destruct Hin|].
    inversion Hnd as [|? ? Hn Hr]; subst. simpl. destruct (Nat.eq_dec h x) as [->|Hne].
    - rewrite notin_remove by exact Hn. reflexivity.
    - destruct Hin as [E|Hin]; [congruence|]. simpl. rewrite (IH Hr Hin).
      apply Permutation_app_swap_app.
  Qed.
  Lemma tot_fire h Cn R E X U : NoDup U -> In h U ->
    Permutation (Tot Cn R E X U) (Tot Cn R (E ++ tops (hpar HT h)) X (remove Nat.eq_dec h U)).
  Proof.
    intros Hnd Hin. unfold Tot. do 2 apply Permutation_app_head.
    rewrite (ptops_remove h U Hnd Hin). rewrite <- app_assoc. apply Permutation_app_head.
    apply Permutation_app_swap_app.
  Qed.

  (* pending counts against the bookkeeping: U = the hubs not yet fired, Cn = the
     copies already consumed in this round *)
  Definition Rel (pend : pending) (U : list nat) (Cn : list (nat * nat)) : Prop :=
    (forall h c, In (LCopy h c) All0 ->
       ((In h U \/ In (h, c) Cn) -> pend h c = 0%nat) /\
       (~ In h U -> ~ In (h, c) Cn -> pend h c = 1%nat)) /\
    (forall h c, In (h, c) Cn -> ~ In h U).

  Lemma Rel_ext p1 p2 U Cn : (forall h c, p1 h c = p2 h c) -> Rel p1 U Cn -> Rel p2 U Cn.
  Proof.
    intros E [H1 H2]. split; [|exact H2]. intros h c Hin. rewrite <- E. apply H1. exact Hin.
  Qed.

  (* a fired hub (outside M, the hubs being fired) has had its iterator pulled *)
  Definition Closed (M U : list nat) : Prop :=
    forall h n p, In (h, (n, p)) HT -> ~ In h U -> ~ In h M ->
      forall h', In h' (hubids p) -> ~ In h' U.

  Lemma tot_has_copy h c Cn R X U : Permutation (Tot Cn R [LCopy h c] X U) All0 ->
    In (LCopy h c) All0 /\ ~ In (h, c) Cn.
  Proof.
    intro H. split.
    - apply (Permutation_in _ H). unfold Tot. apply in_or_app. right. apply in_or_app. right. left. reflexivity.
    - intro Hc. pose proof (Permutation_NoDup (Permutation_sym H) Alnd) as Hnd. unfold Tot in Hnd.
      destruct (nodup_app_inv _ _ Hnd) as (_ & _ & Hd). apply (Hd (LCopy h c)).
      + unfold mapLC. change (LCopy h c) with ((fun hc => LCopy (fst hc) (snd hc)) (h, c)). apply in_map. exact Hc.
      + apply in_or_app. right. left. reflexivity.
  Qed.

  Lemma apull_lin : forall e M X U Cn R pend,
    okx HT e ->
    (forall h', In h' (hubids e) -> forall m, In m M -> (h' < m)%nat) ->
    NoDup U -> Rel pend U Cn -> Closed M U ->
    Permutation (Tot Cn R (tops e) X U) All0 ->
    exists U' Cn',
      NoDup U' /\ incl U' U /\ Rel (fst (apull e pend)) U' Cn' /\ Closed M U' /\
      Permutation (Tot Cn' (R ++ snd (apull e pend)) [] X U') All0 /\
      (forall h', In h' (hubids e) -> ~ In h' U').
  Proof.
    induction e as [i|h n c p IH|o l IHl r IHr|o l IHl y|o x r IHr|e1 IH1];
      intros M X U Cn R pend Hok Hlt Hnd Hrel Hcl Hperm.
    - (* a source *)
      exists U, Cn. simpl. split; [exact Hnd|]. split; [apply incl_refl|]. split; [exact Hrel|].
      split; [exact Hcl|]. split; [|intros h' []]. rewrite tot_read. exact Hperm.
    - (* a tee copy *)
      simpl in Hok. destruct Hok as (HinT & Hcltn & Hokp). simpl tops in Hperm.
      destruct (tot_has_copy h c Cn R X U Hperm) as [Hlive HnC].
      pose proof (hpar_in h n p HinT) as Hpar.
      destruct (HTok h n p HinT) as [_ Hrank].
      destruct Hrel as [Hr1 Hr2]. destruct (Hr1 h c Hlive) as [Hz Ho].
      rewrite apull_tee_eq.
      destruct (in_dec Nat.eq_dec h U) as [HU|HU].
      + (* not fired yet: pull the hub's iterator *)
        rewrite (Hz (or_introl HU)). cbn [Nat.eqb fst snd].
        set (U1 := remove Nat.eq_dec h U). set (Cn1 := (h, c) :: Cn). set (pend1 := p_push pend h n c).
        assert (~ In h (hubids p)) as Hnp by (intro E; specialize (Hrank h E); lia).
        destruct (apull_push_commute p pend h n c Hnp) as [Crd Cfst]. fold pend1 in Crd, Cfst.
        assert (NoDup U1) as Hnd1 by (apply remove_nodup; exact Hnd).
        assert (Rel pend1 U1 Cn1) as Hrel1.
        { split.
          - intros h2 c2 Hl2. destruct (Hr1 h2 c2 Hl2) as [Hz2 Ho2]. unfold pend1, p_push.
            destruct (Nat.eq_dec h2 h) as [->|Hne].
            + rewrite Nat.eqb_refl. simpl. destruct (Nat.eq_dec c2 c) as [->|Hc].
              * rewrite Nat.eqb_refl. simpl. split; [intros _; apply Hz; left; exact HU|].
                intros _ Hn2. exfalso. apply Hn2. left. reflexivity.
              * assert (Nat.eqb c2 c = false) as -> by (apply Nat.eqb_neq; exact Hc). simpl.
                assert (c2 < n)%nat as Hlt2.
                { destruct (Allive h c2 Hl2) as (n' & p' & Hin' & Hc'). 
                  pose proof (lookup_in HT h _ HTnd Hin') as L1. pose proof (lookup_in HT h _ HTnd HinT) as L2.
                  rewrite L1 in L2. injection L2 as -> _. exact Hc'. }
                apply Nat.ltb_lt in Hlt2. rewrite Hlt2. split.
                -- intros [Hu|Hcn]; [exfalso; unfold U1 in Hu; apply in_remove in Hu; tauto|].
                   destruct Hcn as [E|Hcn]; [injection E as E; congruence|]. exfalso. exact (Hr2 h c2 Hcn HU).
                -- intros _ _. rewrite (Hz2 (or_introl HU)). reflexivity.
            + assert (Nat.eqb h2 h = false) as -> by (apply Nat.eqb_neq; exact Hne). simpl. split.
              * intros [Hu|Hcn]; apply Hz2.
                -- left. unfold U1 in Hu. apply in_remove in Hu. tauto.
                -- right. destruct Hcn as [E|Hcn]; [injection E as E1 E2; congruence|exact Hcn].
              * intros Hu Hcn. apply Ho2.
                -- intro Hu'. apply Hu. unfold U1. apply in_in_remove; assumption.
                -- intro Hcn'. apply Hcn. right. exact Hcn'.
          - intros h2 c2 [E|Hcn] Hu; unfold U1 in Hu; apply in_remove in Hu.
            + injection E as <- <-. tauto.
            + exact (Hr2 h2 c2 Hcn (proj1 Hu)). }
        assert (Closed (h :: M) U1) as Hcl1.
        { intros h2 n2 p2 Hin2 Hu2 Hm2 h' Hh' Hu'. unfold U1 in Hu'. apply in_remove in Hu'.
          refine (Hcl h2 n2 p2 Hin2 _ _ h' Hh' (proj1 Hu')); [|intro E; apply Hm2; right; exact E].
          intro HU2. apply Hu2. unfold U1. apply in_in_remove; [|exact HU2]. intro E. apply Hm2. left. symmetry. exact E. }
        assert (Permutation (Tot Cn1 R (tops p) X U1) All0) as Hperm1.
        { unfold Cn1. rewrite tot_consume. rewrite <- Hperm. symmetry.
          rewrite (tot_fire h Cn R [LCopy h c] X U Hnd HU). rewrite Hpar. reflexivity. }
        destruct (IH (h :: M) X U1 Cn1 R pend1 Hokp) as (U2 & Cn2 & Hnd2 & Hinc2 & Hrel2 & Hcl2 & Hperm2 & Hfired); try assumption.
        { intros h' Hh' m [<-|Hm]; [apply Hrank; exact Hh'|].
          specialize (Hrank h' Hh'). specialize (Hlt h (or_introl eq_refl) m Hm). lia. }
        exists U2, Cn2. split; [exact Hnd2|]. split.
        { intros x Hx. apply Hinc2 in Hx. unfold U1 in Hx. apply in_remove in Hx. tauto. }
        split; [apply (Rel_ext (fst (apull p pend1))); [exact Cfst|exact Hrel2]|].
        assert (~ In h U2) as HhU2.
        { intro E. apply Hinc2 in E. unfold U1 in E. apply in_remove in E. tauto. }
        split.
        { intros h2 n2 p2 Hin2 Hu2 Hm2 h' Hh'. destruct (Nat.eq_dec h2 h) as [->|Hne].
          - pose proof (lookup_in HT h _ HTnd Hin2) as L1. pose proof (lookup_in HT h _ HTnd HinT) as L2.
            rewrite L1 in L2. injection L2 as _ ->. apply Hfired. exact Hh'.
          - refine (Hcl2 h2 n2 p2 Hin2 Hu2 _ h' Hh'). intros [E|E]; [congruence|contradiction]. }
        split; [rewrite <- Crd; exact Hperm2|].
        intros h' [<-|Hh']; [exact HhU2|apply Hfired; exact Hh'].
      + (* fired: take the buffered item *)
        rewrite (Ho HU HnC). cbn [Nat.eqb fst snd]. rewrite app_nil_r.
        exists U, ((h, c) :: Cn). split; [exact Hnd|]. split; [apply incl_refl|]. split.
        { split.
          - intros h2 c2 Hl2. destruct (Hr1 h2 c2 Hl2) as [Hz2 Ho2]. unfold p_dec.
            destruct (Nat.eqb h2 h && Nat.eqb c2 c) eqn:E.
            + apply andb_true_iff in E. destruct E as [E1 E2]. apply Nat.eqb_eq in E1, E2. subst h2 c2.
              rewrite (Ho HU HnC). split; [reflexivity|]. intros _ Hn2. exfalso. apply Hn2. left. reflexivity.
            + assert ((h2, c2) <> (h, c)) as Hne.
              { intro E'. injection E' as -> ->. rewrite !Nat.eqb_refl in E. discriminate. }
              split.
              * intros [Hu|[E'|Hcn]]; [apply Hz2; left; exact Hu|congruence|apply Hz2; right; exact Hcn].
              * intros Hu Hcn. apply Ho2; [exact Hu|]. intro Hcn'. apply Hcn. right. exact Hcn'.
          - intros h2 c2 [E|Hcn]; [injection E as <- <-; exact HU|exact (Hr2 h2 c2 Hcn)]. }
        split; [exact Hcl|]. split; [rewrite tot_consume; exact Hperm|].
        intros h' [<-|Hh']; [exact HU|].
        refine (Hcl h n p HinT HU _ h' Hh').
        intro Hm. specialize (Hlt h (or_introl eq_refl) h Hm). lia.
    - (* Stream op Stream *)
      simpl in Hok. destruct Hok as [Hokl Hokr]. simpl tops in Hperm. rewrite tot_split in Hperm.
      rewrite apull_ss_eq. cbn [fst snd].
      destruct (IHl M (tops r ++ X) U Cn R pend Hokl) as (U1 & Cn1 & Hnd1 & Hinc1 & Hrel1 & Hcl1 & Hperm1 & Hf1); try assumption.
      { intros h' Hh'. apply Hlt. simpl. apply in_or_app. left. exact Hh'. }
      assert (Permutation (Tot Cn1 (R ++ snd (apull l pend)) (tops r) X U1) All0) as Hperm1'.
      { rewrite <- Hperm1. unfold Tot. simpl. rewrite <- !app_assoc. reflexivity. }
      destruct (IHr M X U1 Cn1 (R ++ snd (apull l pend)) (fst (apull l pend)) Hokr) as (U2 & Cn2 & Hnd2 & Hinc2 & Hrel2 & Hcl2 & Hperm2 & Hf2); try assumption.
      { intros h' Hh'. apply Hlt. simpl. apply in_or_app. right. exact Hh'. }
      exists U2, Cn2. split; [exact Hnd2|]. split; [intros x Hx; apply Hinc1, Hinc2; exact Hx|].
      split; [exact Hrel2|]. split; [exact Hcl2|]. split; [rewrite app_assoc; exact Hperm2|].
      intros h' Hh'. simpl in Hh'. apply in_app_or in Hh'. destruct Hh' as [Hh'|Hh'].
      + intro E. apply (Hf1 h' Hh'). apply Hinc2. exact E.
      + apply Hf2. exact Hh'.
    - simpl in *. apply (IHl M X U Cn R pend); assumption.
    - simpl in *. apply (IHr M X U Cn R pend); assumption.
    - simpl in *. apply (IH1 M X U Cn R pend); assumption.
  Qed.
End Lin.
