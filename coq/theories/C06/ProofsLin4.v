(* C06 - the theorems on rounds, read-once, end and the difference equation with the
   syntactic linearity condition linf in place of the per-sample test wf_prog; linf
   proved for the filters built directly from distinct sources and constants. *)
From Coq Require Import List Bool Arith ZArith QArith Qcanon Lia Permutation.
From AL Require Import Base.CaseLib C04.Model C04.Spec C04.Lib C06.Model C06.Spec.
From AL Require Import C06.ProofsPull C06.ProofsLoop C06.ProofsWf C06.ProofsEq C06.ProofsKeys C06.ProofsLin C06.ProofsLin2 C06.ProofsLin3.
Import ListNotations.
Open Scope Qc_scope.

Theorem lin_read_once S (f : tfilt) zero p memory fuel HT :
  keys_ok (t_num f) -> keys_ok (t_den f) -> linf HT f -> tcodegen f zero = Ok (TGen p) ->
  Forall (fun seg => seg = 0%nat :: snd (aterms (stream_iters (t_num f)) (stream_iters (t_den f))
                                               (p_terms (tp_prog p)) p_zero))
         (segs (run_tv S (TGen p) f memory zero fuel) []).
Proof.
  intros Kn Kd Hl Hc.
  exact (round_spec_once S _ _ p fuel 0 _ _ _ (lin_round_spec S f zero p memory fuel HT Kn Kd Hl Hc)).
Qed.

Theorem lin_ends S (f : tfilt) zero p memory fuel HT :
  let bs := stream_iters (t_num f) in
  let az := stream_iters (t_den f) in
  let ts := p_terms (tp_prog p) in
  let rd := snd (aterms bs az ts p_zero) in
  keys_ok (t_num f) -> keys_ok (t_den f) -> linf HT f -> tcodegen f zero = Ok (TGen p) ->
  (forall n m d, forallb (alive S n) rd = true -> tsum (snapshot S n) bs az ts m d 0 <> None) ->
  (forall n m d, exists V, compat S n V /\ tsum V bs az ts m d 0 <> None) ->
  let tr := run_tv S (TGen p) f memory zero fuel in
  count_yields tr = live_len S (0%nat :: rd) fuel 0 /\
  ((live_len S (0%nat :: rd) fuel 0 < fuel)%nat -> exists pre, tr = pre ++ [EvStop]).
Proof.
  intros bs az ts rd Kn Kd Hl Hc Hd1 Hd2 tr.
  exact (round_spec_ends S bs az p Hd1 Hd2 fuel 0 _ _ tr (lin_round_spec S f zero p memory fuel HT Kn Kd Hl Hc)).
Qed.

(* the difference equation, number gain (the filter goes to the code generator as it is) *)
Theorem lin_diffeq S (f : tfilt) g zero p mem fuel HT :
  keys_ok (t_num f) -> keys_ok (t_den f) -> linf HT f ->
  In (0%Z, CNum g) (t_den f) -> g <> 0 -> tcodegen f zero = Ok (TGen p) ->
  let lm := t_mem_size f in
  let ys := yields (run_tv S (TGen p) f (normalise_memory lm zero mem) zero fuel) in
  forall j, (j < length ys)%nat ->
    g * ysig (past lm zero mem) ys (Z.of_nat j)
    = psum (vtab (snapshot S j) (t_num f)) (fun k => xrel S 0 (fun _ => zero) (Z.of_nat j - k)%Z)
      - psum (feedback (vtab (snapshot S j) (t_den f))) (fun k => ysig (past lm zero mem) ys (Z.of_nat j - k)%Z).
Proof.
  intros Kn Kd Hl H0 Hg Hc.
  apply (diffeq_generated_r S f g zero p mem fuel Kn Kd H0 Hg Hc).
  intro memory. exact (lin_round_spec S f zero p memory fuel HT Kn Kd Hl Hc).
Qed.

(* ------------------------- filters made of distinct sources and constants *)
Definition simple_coef (c : coef) : Prop :=
  match c with CNum _ => True | CStr (XSrc _) => True | CStr _ => False end.
Definition src_ids (d : tdata) : list nat :=
  flat_map (fun kv => match snd kv with CStr (XSrc i) => [i] | _ => [] end) d.

Lemma simple_tops (d : tdata) : (forall kv, In kv d -> simple_coef (snd kv)) ->
  flat_map tops (streams d) = map LSrc (src_ids d) /\ Forall (okx []) (streams d).
Proof.
  induction d as [|[k c] r IH]; intro H; [split; [reflexivity|constructor]|].
  destruct (IH (fun kv Hin => H kv (or_intror Hin))) as [E F].
  pose proof (H (k, c) (or_introl eq_refl)) as Hs. simpl in Hs.
  destruct c as [q|e]; [exact (conj E F)|]. destruct e; try contradiction.
  rewrite streams_str. unfold src_ids. simpl. fold (src_ids r). rewrite E.
  split; [reflexivity|constructor; [exact I|exact F]].
Qed.

(* every coefficient a constant or a source of its own, none of them the input *)
Definition simple_filter (f : tfilt) : Prop :=
  (forall kv, In kv (t_num f ++ t_den f) -> simple_coef (snd kv)) /\
  NoDup (0%nat :: src_ids (t_num f) ++ src_ids (t_den f)).

Theorem simple_linf (f : tfilt) : simple_filter f -> linf [] f.
Proof.
  intros [Hs Hnd].
  destruct (simple_tops (t_num f) (fun kv Hin => Hs kv (in_or_app _ _ _ (or_introl Hin)))) as [En Fn].
  destruct (simple_tops (t_den f) (fun kv Hin => Hs kv (in_or_app _ _ _ (or_intror Hin)))) as [Ed Fd].
  assert (all_leaves [] f = map LSrc (src_ids (t_num f) ++ src_ids (t_den f))) as EA.
  { unfold all_leaves. simpl. rewrite app_nil_r, flat_map_app, En, Ed, map_app. reflexivity. }
  inversion Hnd as [|? ? H0 Hr]; subst.
  split; [constructor|]. split; [intros h n p []|]. split; [apply Forall_app; split; assumption|].
  rewrite EA. split.
  - apply FinFun.Injective_map_NoDup; [|exact Hr]. intros x y E. injection E. tauto.
  - intro Hin. apply in_map_iff in Hin. destruct Hin as [i [E Hi]]. injection E as ->. exact (H0 Hi).
Qed.

(* ZFilter(dict, dict): Poly.__init__ only deletes zero numbers *)
Lemma compact_simple (d : tdata) :
  (forall kv, In kv d -> simple_coef (snd kv)) ->
  (forall kv, In kv (tcompact coef_alg d) -> simple_coef (snd kv)) /\ src_ids (tcompact coef_alg d) = src_ids d.
Proof.
  intro H. split.
  - intros kv Hin. apply H. unfold tcompact in Hin. apply filter_In in Hin. tauto.
  - induction d as [|[k c] r IH]; [reflexivity|]. unfold tcompact in *. cbn [filter ca_zero_num coef_alg snd].
    destruct c as [q|e].
    + destruct (negb (is_zero_num (CNum q))); unfold src_ids in *; simpl; apply IH; intros; apply H; right; assumption.
    + cbn [is_zero_num negb]. unfold src_ids in *. simpl. f_equal. apply IH. intros; apply H; right; assumption.
Qed.

(* ZFilter(num, den) from dicts of constants and distinct sources, lowest denominator
   power 0: the built filter is simple, hence linear *)
Lemma base_simple (n d : tdata) h f h1 :
  (forall kv, In kv (n ++ d) -> simple_coef (snd kv)) ->
  NoDup (0%nat :: src_ids n ++ src_ids d) ->
  tmin_power (tcompact coef_alg d) = Some 0%Z ->
  build coef_alg (FBase n d) h = BOk f h1 -> simple_filter f.
Proof.
  intros Hs Hnd Hp Hb. simpl in Hb. unfold mk_tfilt in Hb. rewrite Hp in Hb. simpl in Hb.
  injection Hb as <- _.
  destruct (compact_simple n (fun kv Hin => Hs kv (in_or_app _ _ _ (or_introl Hin)))) as [Sn En].
  destruct (compact_simple d (fun kv Hin => Hs kv (in_or_app _ _ _ (or_intror Hin)))) as [Sd Ed].
  split; cbn [t_num t_den].
  - intros kv Hin. apply in_app_or in Hin. destruct Hin; auto.
  - rewrite En, Ed. exact Hnd.
Qed.

(* end to end, no hypothesis evaluated on samples: a filter built from dicts of constants
   and distinct sources, with a number as gain *)
Theorem base_round_spec S (n d : tdata) h f h1 h2 zero p memory fuel :
  (forall kv, In kv (n ++ d) -> simple_coef (snd kv)) ->
  NoDup (0%nat :: src_ids n ++ src_ids d) ->
  NoDup (map fst n) -> NoDup (map fst d) ->
  tmin_power (tcompact coef_alg d) = Some 0%Z ->
  build coef_alg (FBase n d) h = BOk f h1 ->
  prepare h1 f = Ok (BOk f h2) -> tcodegen f zero = Ok (TGen p) ->
  round_spec S (stream_iters (t_num f)) (stream_iters (t_den f)) p fuel 0
             (unpack (p_mvars (tp_prog p)) memory empty_env)
             (assign_all (p_dvars (tp_prog p)) zero empty_env)
             (run_tv S (TGen p) f memory zero fuel) /\
  Forall (fun seg => seg = 0%nat :: snd (aterms (stream_iters (t_num f)) (stream_iters (t_den f))
                                               (p_terms (tp_prog p)) p_zero))
         (segs (run_tv S (TGen p) f memory zero fuel) []).
Proof.
  intros Hs Hnd Nn Nd Hp Hb Hprep Hc.
  destruct (C06.ProofsKeys.built_keys_ok (FBase n d) h f h1 (BOk f h2) (conj Nn Nd) Hb Hprep) as [Kn Kd].
  pose proof (simple_linf f (base_simple n d h f h1 Hs Hnd Hp Hb)) as Hl.
  split.
  - exact (lin_round_spec S f zero p memory fuel [] Kn Kd Hl Hc).
  - exact (lin_read_once S f zero p memory fuel [] Kn Kd Hl Hc).
Qed.
