(* C06 - Part 2: Poly.__mul__ on a linear world. *)
From Coq Require Import List Bool Arith ZArith QArith Qcanon Lia Permutation.
From AL Require Import Base.CaseLib C04.Model C06.Model C06.Spec.
From AL Require Import C06.ProofsPull C06.ProofsEq C06.ProofsKeys C06.ProofsLin C06.ProofsLin2 C06.ProofsLin3 C06.ProofsWorld.
Import ListNotations.

Lemma enum_in {A} (l : list A) : forall s i x, In (i, x) (enum_from s l) -> (s <= i < s + length l)%nat.
Proof.
  induction l as [|y r IH]; intros s i x Hin; [destruct Hin|]. simpl in Hin. destruct Hin as [E|Hin].
  - injection E as <- _. simpl. lia.
  - specialize (IH _ _ _ Hin). simpl. lia.
Qed.
Lemma enum_nodup {A} (l : list A) : forall s, NoDup (map fst (enum_from s l)).
Proof.
  induction l as [|y r IH]; intro s; simpl; constructor; [|apply IH].
  intro Hin. apply in_map_iff in Hin. destruct Hin as [[i x] [E Hin]]. simpl in E. subst i.
  apply enum_in in Hin. lia.
Qed.
Lemma enum_length {A} (l : list A) : forall s, length (enum_from s l) = length l.
Proof. induction l; intro s; simpl; [reflexivity|]. rewrite IHl. reflexivity. Qed.

(* ---------------------------------------------------- leaves through d_acc *)
Lemma ctops_cadd a b : ctops (cadd a b) = ctops a ++ ctops b.
Proof. destruct a, b; simpl; rewrite ?app_nil_r; reflexivity. Qed.
Lemma cokx_cadd HT a b : cokx HT a -> cokx HT b -> cokx HT (cadd a b).
Proof. destruct a, b; simpl; tauto. Qed.

Lemma map_repl_none (r : tdata) k c : ~ In k (map fst r) ->
  map (fun kv : Z * coef => if (fst kv =? k)%Z then (k, c) else kv) r = r.
Proof.
  induction r as [|x t IH]; intro H; simpl; [reflexivity|].
  destruct (fst x =? k)%Z eqn:E; [apply Z.eqb_eq in E; exfalso; apply H; left; exact E|].
  f_equal. apply IH. intro Hin. apply H. right. exact Hin.
Qed.

Lemma dacc_tops (d : tdata) k v : NoDup (map fst d) ->
  Permutation (dtops (d_acc coef_alg d k v)) (dtops d ++ ctops v).
Proof.
  intro Hnd. unfold d_acc, d_get.
  destruct (find (fun kv => (fst kv =? k)%Z) d) as [[k0 old]|] eqn:Ef.
  2:{ rewrite dtops_app. simpl. rewrite app_nil_r. reflexivity. }
  unfold d_set. assert (d_has d k = true) as ->.
  { apply find_some in Ef. destruct Ef as [Hin Ek]. unfold d_has. apply existsb_exists. eexists. split; eassumption. }
  cbn [snd ca_add coef_alg].
  induction d as [|x t IH]; [discriminate|]. inversion Hnd as [|? ? Hn Hr]; subst. simpl in Ef |- *.
  destruct (fst x =? k)%Z eqn:E.
  - injection Ef as ->. apply Z.eqb_eq in E. simpl in E. subst k0. simpl.
    rewrite (map_repl_none t k _ Hn). rewrite ctops_cadd. rewrite <- !app_assoc.
    apply Permutation_app_head. apply Permutation_app_comm.
  - rewrite <- app_assoc. apply Permutation_app_head. apply IH; assumption.
Qed.

Lemma fold_tops (items : tdata) : forall acc, NoDup (map fst acc) ->
  Permutation (dtops (fold_left (fun a kv => d_acc coef_alg a (fst kv) (snd kv)) items acc))
              (dtops acc ++ dtops items).
Proof.
  induction items as [|x r IH]; intros acc Hnd; simpl; [rewrite app_nil_r; reflexivity|].
  rewrite (IH _ (acc_nodup coef_alg acc (fst x) (snd x) Hnd)).
  rewrite (dacc_tops acc (fst x) (snd x) Hnd). rewrite <- app_assoc. reflexivity.
Qed.

Lemma compact_cons k c (r : tdata) :
  tcompact coef_alg ((k, c) :: r) = if negb (is_zero_num c) then (k, c) :: tcompact coef_alg r else tcompact coef_alg r.
Proof. reflexivity. Qed.
Lemma compact_tops (d : tdata) : dtops (tcompact coef_alg d) = dtops d.
Proof.
  induction d as [|[k c] r IH]; [reflexivity|]. rewrite compact_cons.
  destruct c as [q|e]; cbn [is_zero_num negb].
  - destruct (negb (Qc_eqb q 0)); simpl; exact IH.
  - simpl. rewrite IH. reflexivity.
Qed.

Lemma dacc_okx HT (d : tdata) k v : dokx HT d -> cokx HT v -> dokx HT (d_acc coef_alg d k v).
Proof.
  intros Hd Hv. unfold d_acc, d_get.
  destruct (find (fun kv => (fst kv =? k)%Z) d) as [[k0 old]|] eqn:Ef.
  - apply find_some in Ef. destruct Ef as [Hin _]. unfold d_set. destruct (d_has d k).
    + intros kv Hkv. apply in_map_iff in Hkv. destruct Hkv as [x [<- Hx]].
      destruct (fst x =? k)%Z; [|apply Hd; exact Hx]. cbn [snd ca_add coef_alg].
      apply cokx_cadd; [exact (Hd _ Hin)|exact Hv].
    + intros kv Hkv. apply in_app_or in Hkv. destruct Hkv as [Hkv|[<-|[]]]; [apply Hd; exact Hkv|].
      cbn [snd ca_add coef_alg]. apply cokx_cadd; [exact (Hd _ Hin)|exact Hv].
  - intros kv Hkv. apply in_app_or in Hkv. destruct Hkv as [Hkv|[<-|[]]]; [apply Hd; exact Hkv|exact Hv].
Qed.
Lemma fold_okx HT (items : tdata) : forall acc, dokx HT acc -> dokx HT items ->
  dokx HT (fold_left (fun a kv => d_acc coef_alg a (fst kv) (snd kv)) items acc).
Proof.
  induction items as [|x r IH]; intros acc Ha Hi; simpl; [exact Ha|].
  apply IH; [apply dacc_okx; [exact Ha|apply (Hi x); left; reflexivity]|].
  intros kv Hkv. apply Hi. right. exact Hkv.
Qed.
Lemma compact_okx HT (d : tdata) : dokx HT d -> dokx HT (tcompact coef_alg d).
Proof. intros H kv Hin. apply H. unfold tcompact in Hin. apply filter_In in Hin. tauto. Qed.

(* ------------------------------------------------ the leaves of a product *)
Definition sl (h c : nat) (v : coef) : list leaf := if is_stream v then [LCopy h c] else [].
Lemma sl_in z h c v : In z (sl h c v) -> z = LCopy h c.
Proof. unfold sl. destruct (is_stream v); simpl; [intros [E|[]]; symmetry; exact E|intros []]. Qed.

Lemma ctops_item h1 n1 c1 v1 h2 n2 c2 v2 :
  ctops (cmul (hub_copy h1 n1 c1 v1) (hub_copy h2 n2 c2 v2)) = sl h1 c1 v1 ++ sl h2 c2 v2.
Proof. destruct v1, v2; reflexivity. Qed.

Definition pm_leaves (h : nat) (a b : tdata) : list leaf :=
  flat_map (fun ia => flat_map (fun jb =>
      sl (h + fst ia) (fst jb) (snd (snd ia)) ++ sl (h + length a + fst jb) (fst ia) (snd (snd jb)))
    (enum_from 0 b)) (enum_from 0 a).

Lemma flat_map_flat_map {A B C} (f : B -> list C) (g : A -> list B) l :
  flat_map f (flat_map g l) = flat_map (fun x => flat_map f (g x)) l.
Proof. induction l as [|x r IH]; simpl; [reflexivity|]. rewrite flat_map_app, IH. reflexivity. Qed.

Lemma items_tops h a b : dtops (pmul_items coef_alg h a b) = pm_leaves h a b.
Proof.
  unfold dtops, pmul_items, pm_leaves. rewrite flat_map_flat_map.
  apply flat_map_ext_in'. intros ia _. rewrite flat_map_map. apply flat_map_ext_in'. intros jb _.
  cbn [snd ca_mul ca_hub coef_alg]. apply ctops_item.
Qed.

Lemma pmul_tops h a b : Permutation (dtops (fst (pmul coef_alg h a b))) (pm_leaves h a b).
Proof.
  unfold pmul. cbn [fst]. rewrite compact_tops, fold_tops by constructor. simpl. rewrite items_tops. reflexivity.
Qed.

Lemma nodup_flat_map_key {A K B} (key : A -> K) (g : A -> list B) l :
  NoDup (map key l) -> (forall x, In x l -> NoDup (g x)) ->
  (forall x y z, In x l -> In y l -> key x <> key y -> In z (g x) -> In z (g y) -> False) ->
  NoDup (flat_map g l).
Proof.
  induction l as [|x r IH]; intros Hk Hg Hd; simpl; [constructor|].
  inversion Hk as [|? ? Hn Hr]; subst. apply nodup_app_disj'.
  - apply Hg. left. reflexivity.
  - apply IH; [exact Hr|intros; apply Hg; right; assumption|].
    intros a b z Ha Hb. apply Hd; right; assumption.
  - intros z Hz Hz'. apply in_flat_map in Hz'. destruct Hz' as [y [Hy Hzy]].
    apply (Hd x y z); [left; reflexivity|right; exact Hy| |exact Hz|exact Hzy].
    intro E. apply Hn. rewrite E. apply in_map. exact Hy.
Qed.

Lemma pm_leaves_range h a b z : In z (pm_leaves h a b) ->
  exists h' c, z = LCopy h' c /\ (h <= h' < h + length a + length b)%nat.
Proof.
  intro Hin. unfold pm_leaves in Hin. apply in_flat_map in Hin. destruct Hin as [[i x] [Hi Hin]].
  apply in_flat_map in Hin. destruct Hin as [[j y] [Hj Hin]]. simpl in Hin.
  apply enum_in in Hi. apply enum_in in Hj. apply in_app_or in Hin.
  destruct Hin as [Hin|Hin]; apply sl_in in Hin; subst z; eexists; eexists; (split; [reflexivity|lia]).
Qed.

Lemma pm_leaves_nodup h a b : NoDup (pm_leaves h a b).
Proof.
  unfold pm_leaves. apply (nodup_flat_map_key fst).
  - apply enum_nodup.
  - intros [i x] Hi. apply (nodup_flat_map_key fst).
    + apply enum_nodup.
    + intros [j y] Hj. simpl. apply enum_in in Hi. apply enum_in in Hj.
      unfold sl. destruct (is_stream (snd x)), (is_stream (snd y)); simpl; repeat constructor; simpl; try tauto.
      intros [E|[]]. injection E. lia.
    + intros [j y] [j' y'] z Hj Hj' Hne Hz Hz'. simpl in *. apply enum_in in Hi.
      apply in_app_or in Hz. apply in_app_or in Hz'.
      destruct Hz as [Hz|Hz], Hz' as [Hz'|Hz']; apply sl_in in Hz; apply sl_in in Hz'; subst z;
        injection Hz'; lia.
  - intros [i x] [i' x'] z Hi Hi' Hne Hz Hz'. simpl in Hne.
    apply in_flat_map in Hz. destruct Hz as [[j y] [Hj Hz]].
    apply in_flat_map in Hz'. destruct Hz' as [[j' y'] [Hj' Hz']]. simpl in *.
    apply enum_in in Hi. apply enum_in in Hi'. apply enum_in in Hj. apply enum_in in Hj'.
    apply in_app_or in Hz. apply in_app_or in Hz'.
    destruct Hz as [Hz|Hz], Hz' as [Hz'|Hz']; apply sl_in in Hz; apply sl_in in Hz'; subst z;
      injection Hz'; lia.
Qed.

(* ------------------------------------------------ the hubs thub creates *)
Definition hub_entry (h n : nat) (ia : nat * (Z * coef)) : htab :=
  match snd (snd ia) with CStr e => [((h + fst ia)%nat, (n, e))] | CNum _ => [] end.
Definition hubs_from (s h n : nat) (a : tdata) : htab := flat_map (hub_entry h n) (enum_from s a).

Lemma hubs_parents h n (a : tdata) : forall s,
  flat_map (fun x => tops (snd (snd x))) (hubs_from s h n a) = dtops a.
Proof.
  induction a as [|[k c] r IH]; intro s; [reflexivity|]. unfold hubs_from. simpl.
  rewrite flat_map_app. fold (hubs_from (S s) h n r). rewrite IH.
  unfold hub_entry. simpl. destruct c; simpl; rewrite ?app_nil_r; reflexivity.
Qed.
Lemma hubs_in s h n (a : tdata) x : In x (hubs_from s h n a) ->
  exists i k e, In (i, (k, CStr e)) (enum_from s a) /\ x = ((h + i)%nat, (n, e)).
Proof.
  unfold hubs_from. intro H. apply in_flat_map in H. destruct H as [[i [k c]] [Hi Hx]].
  unfold hub_entry in Hx. simpl in Hx. destruct c as [q|e]; [destruct Hx|]. destruct Hx as [<-|[]].
  exists i, k, e. split; [exact Hi|reflexivity].
Qed.
Lemma hubs_range s h n (a : tdata) x : In x (hubs_from s h n a) -> (h + s <= fst x < h + s + length a)%nat.
Proof.
  intro H. destruct (hubs_in s h n a x H) as (i & k & e & Hi & ->). apply enum_in in Hi. simpl. lia.
Qed.
Lemma hubs_keys_nodup h n (a : tdata) : forall s, NoDup (map fst (hubs_from s h n a)).
Proof.
  induction a as [|[k c] r IH]; intro s; [constructor|]. unfold hubs_from. simpl.
  fold (hubs_from (S s) h n r). rewrite map_app. apply nodup_app_disj'.
  - unfold hub_entry. simpl. destruct c; simpl; repeat constructor. intros [].
  - apply IH.
  - intros x Hx Hx'. unfold hub_entry in Hx. simpl in Hx. destruct c as [q|e]; [destruct Hx|].
    simpl in Hx. destruct Hx as [<-|[]]. apply in_map_iff in Hx'. destruct Hx' as [y [E Hy]].
    apply hubs_range in Hy. lia.
Qed.

(* the products are copies of the new hubs *)
Lemma cokx_hub HT h n c v : (c < n)%nat ->
  (forall e, v = CStr e -> In (h, (n, e)) HT /\ okx HT e) -> cokx HT (hub_copy h n c v).
Proof. intros Hc H. destruct v as [q|e]; simpl; [exact I|]. destruct (H e eq_refl). tauto. Qed.
Lemma cokx_cmul HT a b : cokx HT a -> cokx HT b -> cokx HT (cmul a b).
Proof. destruct a, b; simpl; tauto. Qed.

Lemma pmul_world HT h (a b : tdata) X :
  Wl HT h (dtops a ++ dtops b ++ X) -> dokx HT a -> dokx HT b ->
  exists HT', incl HT HT' /\ dokx HT' (fst (pmul coef_alg h a b)) /\
              Wl HT' (snd (pmul coef_alg h a b)) (dtops (fst (pmul coef_alg h a b)) ++ X).
Proof.
  intros Hw Ha Hb.
  set (na := length a). set (nb := length b).
  set (NE := hubs_from 0 h nb a ++ hubs_from 0 (h + na) na b).
  exists (HT ++ NE). split; [apply incl_appl, incl_refl|].
  assert (incl HT (HT ++ NE)) as Hinc by (apply incl_appl, incl_refl).
  split.
  - (* every product is made of copies of hubs of the table *)
    unfold pmul. cbn [fst]. apply compact_okx. apply fold_okx; [intros kv []|].
    intros kv Hkv. unfold pmul_items in Hkv. apply in_flat_map in Hkv. destruct Hkv as [[i [k1 v1]] [Hi Hkv]].
    apply in_map_iff in Hkv. destruct Hkv as [[j [k2 v2]] [<- Hj]]. cbn [fst snd ca_mul ca_hub coef_alg].
    pose proof (enum_in _ _ _ _ Hi) as Ri. pose proof (enum_in _ _ _ _ Hj) as Rj. fold na in Ri. fold nb in Rj.
    apply cokx_cmul; apply cokx_hub; try lia.
    + intros e ->. split.
      * apply in_or_app. right. apply in_or_app. left. unfold hubs_from. apply in_flat_map.
        exists (i, (k1, CStr e)). split; [exact Hi|left; reflexivity].
      * apply (okx_mono HT _ _ Hinc). apply in_combine_r in Hi || idtac.
        assert (In (k1, CStr e) a) as Hin.
        { clear -Hi. revert Hi. generalize 0%nat. induction a as [|y r IH]; intros s H; [destruct H|].
          simpl in H. destruct H as [E|H]; [injection E as _ <-; left; reflexivity|right; exact (IH _ H)]. }
        exact (Ha _ Hin).
    + intros e ->. split.
      * apply in_or_app. right. apply in_or_app. right. unfold hubs_from. apply in_flat_map.
        exists (j, (k2, CStr e)). split; [exact Hj|left; reflexivity].
      * apply (okx_mono HT _ _ Hinc).
        assert (In (k2, CStr e) b) as Hin.
        { clear -Hj. revert Hj. generalize 0%nat. induction b as [|y r IH]; intros s H; [destruct H|].
          simpl in H. destruct H as [E|H]; [injection E as _ <-; left; reflexivity|right; exact (IH _ H)]. }
        exact (Hb _ Hin).
  - (* the world *)
    apply (Wl_perm _ _ (pm_leaves h a b ++ X)); [|apply Permutation_app_tail; apply pmul_tops].
    change (snd (pmul coef_alg h a b)) with (h + na + nb)%nat.
    rewrite app_assoc in Hw.
    apply (Wl_newhubs HT h (h + na + nb) (dtops a ++ dtops b) X NE (pm_leaves h a b) Hw); try lia.
    + unfold NE. rewrite map_app. apply nodup_app_disj'; try apply hubs_keys_nodup.
      intros x Hx Hx'. apply in_map_iff in Hx. destruct Hx as [y [E Hy]]. apply hubs_range in Hy.
      apply in_map_iff in Hx'. destruct Hx' as [y' [E' Hy']]. apply hubs_range in Hy'. fold na in Hy. lia.
    + intros x Hx. unfold NE in Hx. apply in_app_or in Hx. destruct Hx as [Hx|Hx]; apply hubs_range in Hx;
        fold na in Hx; fold nb in Hx; lia.
    + intros h0 n0 p0 Hin. unfold NE in Hin. apply in_app_or in Hin.
      destruct Hin as [Hin|Hin]; destruct (hubs_in _ _ _ _ _ Hin) as (i & k & e & Hi & E); injection E as _ _ ->.
      * assert (In (k, CStr e) a) as Hin'.
        { clear -Hi. revert Hi. generalize 0%nat. induction a as [|y r IH]; intros s H; [destruct H|].
          simpl in H. destruct H as [E|H]; [injection E as _ <-; left; reflexivity|right; exact (IH _ H)]. }
        exact (Ha _ Hin').
      * assert (In (k, CStr e) b) as Hin'.
        { clear -Hi. revert Hi. generalize 0%nat. induction b as [|y r IH]; intros s H; [destruct H|].
          simpl in H. destruct H as [E|H]; [injection E as _ <-; left; reflexivity|right; exact (IH _ H)]. }
        exact (Hb _ Hin').
    + unfold NE. rewrite flat_map_app, !hubs_parents. reflexivity.
    + apply pm_leaves_nodup.
    + intros l Hl. apply pm_leaves_range in Hl. fold na in Hl. fold nb in Hl. exact Hl.
Qed.
