(* C06 - Part 3: the ZFilter operations on a linear world. *)
From Coq Require Import List Bool Arith ZArith QArith Qcanon Lia Permutation.
From AL Require Import Base.CaseLib C04.Model C06.Model C06.Spec.
From AL Require Import C06.ProofsPull C06.ProofsEq C06.ProofsKeys C06.ProofsLin C06.ProofsLin2 C06.ProofsLin3.
From AL Require Import C06.ProofsWorld C06.ProofsWorld2.
Import ListNotations.

(* permutations of concatenations: rotate the right-hand side until the heads agree *)
Ltac perm_rot := match goal with |- Permutation _ (?b ++ ?r) => transitivity (r ++ b); [|apply (Permutation_app_comm r b)] end; rewrite <- ?app_assoc.
Ltac perm_head := match goal with |- Permutation (?a ++ _) (?b ++ _) => unify a b; apply (Permutation_app_head a) end.
Ltac perm_solve :=
  rewrite <- ?app_assoc; rewrite ?app_nil_r;
  solve [ do 60 (first [ reflexivity | perm_head | perm_rot ]) ].

(* a filter in a world: X = the leaves of the other live Stream objects *)
Definition FW (HT : htab) (hn : nat) (f : tfilt) (X : list leaf) : Prop :=
  dokx HT (t_num f) /\ dokx HT (t_den f) /\ Wl HT hn (dtops (t_num f) ++ dtops (t_den f) ++ X).

Lemma delta_tops p : dtops [(p, CNum 1)] = [].
Proof. reflexivity. Qed.
Lemma delta_okx HT p : dokx HT [(p, CNum 1)].
Proof. intros kv [<-|[]]. exact I. Qed.

Lemma mk_world HT h (n d : tdata) X f h' :
  Wl HT h (dtops n ++ dtops d ++ X) -> dokx HT n -> dokx HT d ->
  mk_tfilt coef_alg h n d = BOk f h' ->
  exists HT', incl HT HT' /\ FW HT' h' f X.
Proof.
  intros Hw Hn Hd. unfold mk_tfilt.
  destruct (tmin_power (tcompact coef_alg d)) as [p|]; [|discriminate].
  destruct (p =? 0)%Z.
  - intro E. injection E as <- <-. exists HT. split; [apply incl_refl|].
    split; [apply compact_okx; exact Hn|]. split; [apply compact_okx; exact Hd|].
    cbn [t_num t_den]. rewrite !compact_tops. exact Hw.
  - cbn [ca_num coef_alg]. intro E. injection E as <- <-.
    set (n1 := tcompact coef_alg n) in *. set (d1 := tcompact coef_alg d) in *.
    assert (Wl HT h (dtops n1 ++ dtops [((- p)%Z, CNum 1)] ++ (dtops d1 ++ X))) as Hw1.
    { unfold n1, d1. rewrite !compact_tops, delta_tops. exact Hw. }
    destruct (pmul_world HT h n1 [((- p)%Z, CNum 1)] (dtops d1 ++ X) Hw1 (compact_okx HT n Hn) (delta_okx HT _))
      as (HT1 & Hi1 & Ho1 & Hw2).
    set (r1 := pmul coef_alg h n1 [((- p)%Z, CNum 1)]) in *.
    assert (Wl HT1 (snd r1) (dtops d1 ++ dtops [((- p)%Z, CNum 1)] ++ (dtops (fst r1) ++ X))) as Hw3.
    { apply (Wl_perm _ _ _ _ Hw2). rewrite delta_tops. simpl. perm_solve. }
    destruct (pmul_world HT1 (snd r1) d1 [((- p)%Z, CNum 1)] (dtops (fst r1) ++ X) Hw3
                (dokx_mono HT HT1 _ Hi1 (compact_okx HT d Hd)) (delta_okx HT1 _)) as (HT2 & Hi2 & Ho2 & Hw4).
    exists HT2. split; [intros x Hx; apply Hi2, Hi1; exact Hx|].
    split; [exact (dokx_mono HT1 HT2 _ Hi2 Ho1)|]. split; [exact Ho2|].
    cbn [t_num t_den]. apply (Wl_perm _ _ _ _ Hw4). perm_solve.
Qed.

Lemma fmul_world HT h (f g : tfilt) X r h' :
  dokx HT (t_num f) -> dokx HT (t_den f) -> dokx HT (t_num g) -> dokx HT (t_den g) ->
  Wl HT h (dtops (t_num f) ++ dtops (t_den f) ++ dtops (t_num g) ++ dtops (t_den g) ++ X) ->
  fmul coef_alg h f g = BOk r h' ->
  exists HT', incl HT HT' /\ FW HT' h' r X.
Proof.
  intros Ofn Ofd Ogn Ogd Hw. unfold fmul.
  assert (Wl HT h (dtops (t_num f) ++ dtops (t_num g) ++ (dtops (t_den f) ++ dtops (t_den g) ++ X))) as Hw1
    by (apply (Wl_perm _ _ _ _ Hw); perm_solve).
  destruct (pmul_world HT h _ _ _ Hw1 Ofn Ogn) as (HT1 & Hi1 & Ho1 & Hw2).
  destruct (pmul coef_alg h (t_num f) (t_num g)) as [n h1]. cbn [fst snd] in *.
  assert (Wl HT1 h1 (dtops (t_den f) ++ dtops (t_den g) ++ (dtops n ++ X))) as Hw3
    by (apply (Wl_perm _ _ _ _ Hw2); perm_solve).
  destruct (pmul_world HT1 h1 _ _ _ Hw3 (dokx_mono _ _ _ Hi1 Ofd) (dokx_mono _ _ _ Hi1 Ogd)) as (HT2 & Hi2 & Ho2 & Hw4).
  destruct (pmul coef_alg h1 (t_den f) (t_den g)) as [d h2]. cbn [fst snd] in *.
  intro E.
  assert (Wl HT2 h2 (dtops n ++ dtops d ++ X)) as Hw5 by (apply (Wl_perm _ _ _ _ Hw4); perm_solve).
  destruct (mk_world HT2 h2 n d X r h' Hw5 (dokx_mono _ _ _ Hi2 Ho1) Ho2 E) as (HT3 & Hi3 & HF).
  exists HT3. split; [intros x Hx; apply Hi3, Hi2, Hi1; exact Hx|exact HF].
Qed.

Lemma scalar_tops c : dtops (poly_of_scalar coef_alg c) = ctops c.
Proof. unfold poly_of_scalar. rewrite compact_tops. simpl. apply app_nil_r. Qed.
Lemma scalar_okx HT c : cokx HT c -> dokx HT (poly_of_scalar coef_alg c).
Proof. intro H. unfold poly_of_scalar. apply compact_okx. intros kv [<-|[]]. exact H. Qed.

Lemma fmul_scalar_world HT h (f : tfilt) c X r h' :
  dokx HT (t_num f) -> dokx HT (t_den f) -> cokx HT c ->
  Wl HT h (dtops (t_num f) ++ dtops (t_den f) ++ ctops c ++ X) ->
  fmul_scalar coef_alg h f c = BOk r h' ->
  exists HT', incl HT HT' /\ FW HT' h' r X.
Proof.
  intros Ofn Ofd Oc Hw. unfold fmul_scalar.
  assert (Wl HT h (dtops (t_num f) ++ dtops (poly_of_scalar coef_alg c) ++ (dtops (t_den f) ++ X))) as Hw1
    by (rewrite scalar_tops; apply (Wl_perm _ _ _ _ Hw); perm_solve).
  destruct (pmul_world HT h _ _ _ Hw1 Ofn (scalar_okx HT c Oc)) as (HT1 & Hi1 & Ho1 & Hw2).
  destruct (pmul coef_alg h (t_num f) (poly_of_scalar coef_alg c)) as [n h1]. cbn [fst snd] in *.
  intro E. destruct (mk_world HT1 h1 n (t_den f) X r h' Hw2 Ho1 (dokx_mono _ _ _ Hi1 Ofd) E) as (HT2 & Hi2 & HF).
  exists HT2. split; [intros x Hx; apply Hi2, Hi1; exact Hx|exact HF].
Qed.

Lemma zf_world HT h c X r h' :
  cokx HT c -> Wl HT h (ctops c ++ X) -> zf_scalar coef_alg h c = BOk r h' ->
  exists HT', incl HT HT' /\ FW HT' h' r X.
Proof.
  intros Oc Hw. unfold zf_scalar. apply mk_world.
  - rewrite compact_tops. simpl. rewrite app_nil_r. exact Hw.
  - apply compact_okx. intros kv [<-|[]]. exact Oc.
  - intros kv [<-|[]]. exact I.
Qed.
