(* C06 - the arithmetic keeps the family of live Stream objects linear.  Part 1: the
   world invariant (leaves of the live objects + a growing hub table) and the step
   that puts a batch of fresh hubs over some of the live objects. *)
From Coq Require Import List Bool Arith ZArith QArith Qcanon Lia Permutation.
From AL Require Import Base.CaseLib C04.Model C06.Model C06.Spec.
From AL Require Import C06.ProofsPull C06.ProofsEq C06.ProofsLin C06.ProofsLin2 C06.ProofsLin3.
Import ListNotations.

(* leaves / table membership of coefficients and Polys *)
Definition ctops (c : coef) : list leaf := match c with CNum _ => [] | CStr e => tops e end.
Definition dtops (d : tdata) : list leaf := flat_map (fun kv => ctops (snd kv)) d.
Definition cokx (HT : htab) (c : coef) : Prop := match c with CNum _ => True | CStr e => okx HT e end.
Definition dokx (HT : htab) (d : tdata) : Prop := forall kv, In kv d -> cokx HT (snd kv).

Lemma dtops_streams d : dtops d = flat_map tops (streams d).
Proof.
  unfold dtops, streams. induction d as [|[k c] r IH]; [reflexivity|]. simpl. rewrite IH.
  destruct c; simpl; rewrite ?app_nil_r, <- ?app_assoc; reflexivity.
Qed.
Lemma dokx_streams HT d : dokx HT d -> Forall (okx HT) (streams d).
Proof.
  intro H. apply Forall_forall. intros e He. apply streams_in in He. destruct He as [k Hin].
  exact (H (k, CStr e) Hin).
Qed.
Lemma dtops_app a b : dtops (a ++ b) = dtops a ++ dtops b.
Proof. apply flat_map_app. Qed.

Lemma okx_mono HT HT' e : incl HT HT' -> okx HT e -> okx HT' e.
Proof.
  intro Hi. induction e; simpl; intro H; auto.
  - destruct H as (H1 & H2 & H3). split; [apply Hi; exact H1|split; [exact H2|auto]].
  - destruct H. split; auto.
Qed.
Lemma cokx_mono HT HT' c : incl HT HT' -> cokx HT c -> cokx HT' c.
Proof. destruct c; simpl; [trivial|apply okx_mono]. Qed.
Lemma dokx_mono HT HT' d : incl HT HT' -> dokx HT d -> dokx HT' d.
Proof. intros Hi H kv Hin. apply (cokx_mono HT HT' _ Hi). apply H. exact Hin. Qed.

(* the world: T = the leaves of every live Stream object; hn = the hub counter *)
Definition Wl (HT : htab) (hn : nat) (T : list leaf) : Prop :=
  NoDup (map fst HT) /\
  (forall h n p, In (h, (n, p)) HT ->
     okx HT p /\ (forall h', In h' (hubids p) -> (h' < h)%nat) /\ (h < hn)%nat) /\
  NoDup (T ++ ptops HT (map fst HT)) /\
  ~ In (LSrc 0) (T ++ ptops HT (map fst HT)) /\
  (forall h c, In (LCopy h c) T -> (h < hn)%nat).

Lemma Wl_sub HT hn T T' rest : Wl HT hn T -> Permutation (T' ++ rest) T -> Wl HT hn T'.
Proof.
  intros (H1 & H2 & H3 & H4 & H5) P.
  assert (Permutation ((T' ++ ptops HT (map fst HT)) ++ rest) (T ++ ptops HT (map fst HT))) as P2.
  { rewrite <- P. rewrite <- !app_assoc. apply Permutation_app_head. apply Permutation_app_comm. }
  split; [exact H1|]. split; [exact H2|]. split.
  - pose proof (Permutation_NoDup (Permutation_sym P2) H3) as Hn.
    destruct (nodup_app_inv _ _ Hn) as (Hn1 & _ & _). exact Hn1.
  - split.
    + intro Hin. apply H4. apply (Permutation_in _ P2). apply in_or_app. left. exact Hin.
    + intros h c Hin. apply (H5 h c). apply (Permutation_in _ P). apply in_or_app. left. exact Hin.
Qed.
Lemma Wl_perm HT hn T T' : Wl HT hn T -> Permutation T' T -> Wl HT hn T'.
Proof. intros H P. apply (Wl_sub HT hn T T' [] H). rewrite app_nil_r. exact P. Qed.

Lemma lookup_app_l {A} (l1 l2 : list (nat * A)) k : In k (map fst l1) -> lookup (l1 ++ l2) k = lookup l1 k.
Proof.
  induction l1 as [|[k0 a0] r IH]; intro H; [destruct H|]. simpl. destruct (Nat.eqb k0 k) eqn:E; [reflexivity|].
  apply IH. destruct H as [H|H]; [|exact H]. simpl in H. apply Nat.eqb_neq in E. contradiction.
Qed.
Lemma lookup_app_r {A} (l1 l2 : list (nat * A)) k : ~ In k (map fst l1) -> lookup (l1 ++ l2) k = lookup l2 k.
Proof.
  induction l1 as [|[k0 a0] r IH]; intro H; [reflexivity|]. simpl. destruct (Nat.eqb k0 k) eqn:E.
  - apply Nat.eqb_eq in E. exfalso. apply H. left. exact E.
  - apply IH. intro Hin. apply H. right. exact Hin.
Qed.

Lemma okx_hubids_in HT e :
  (forall h n p, In (h, (n, p)) HT -> okx HT p) ->
  okx HT e -> forall h', In h' (hubids e) -> In h' (map fst HT).
Proof.
  intro Hcl. induction e; simpl; intros Hok h' Hin; try (destruct Hin; fail); auto.
  - destruct Hok as (HinT & _ & Hokp). destruct Hin as [<-|Hin]; [apply (in_map fst _ _ HinT)|auto].
  - destruct Hok as [H1 H2]. apply in_app_or in Hin. destruct Hin; auto.
Qed.

Lemma flat_map_ext_in' {A B} (f g : A -> list B) l : (forall x, In x l -> f x = g x) -> flat_map f l = flat_map g l.
Proof.
  induction l as [|x r IH]; intro H; simpl; [reflexivity|].
  rewrite (H x (or_introl eq_refl)), IH; [reflexivity|]. intros; apply H; right; assumption.
Qed.
Lemma flat_map_map {A B C} (f : A -> B) (g : B -> list C) l : flat_map g (map f l) = flat_map (fun x => g (f x)) l.
Proof. induction l as [|x r IH]; simpl; [reflexivity|]. rewrite IH. reflexivity. Qed.

Lemma nodup_app_disj' {T} (a b : list T) : NoDup a -> NoDup b -> (forall x, In x a -> In x b -> False) -> NoDup (a ++ b).
Proof.
  induction a as [|x r IH]; intros Ha Hb Hd; simpl; [exact Hb|].
  inversion Ha as [|? ? Hn Hr]; subst. constructor.
  - intro Hin. apply in_app_or in Hin. destruct Hin as [Hin|Hin]; [contradiction|].
    apply (Hd x); [left; reflexivity|exact Hin].
  - apply IH; [exact Hr|exact Hb|]. intros y Hy. apply Hd. right. exact Hy.
Qed.

(* a batch NE of fresh hubs over live objects with leaves P; NC: the leaves of the new copies *)
Lemma Wl_newhubs HT hn hn' P X NE NC :
  Wl HT hn (P ++ X) -> (hn <= hn')%nat ->
  NoDup (map fst NE) -> (forall x, In x NE -> (hn <= fst x < hn')%nat) ->
  (forall h n p, In (h, (n, p)) NE -> okx HT p) ->
  flat_map (fun x => tops (snd (snd x))) NE = P ->
  NoDup NC -> (forall l, In l NC -> exists h c, l = LCopy h c /\ (hn <= h < hn')%nat) ->
  Wl (HT ++ NE) hn' (NC ++ X).
Proof.
  intros (H1 & H2 & H3 & H4 & H5) Hle Nne Rne Okne EP Nnc Rnc.
  assert (forall k, In k (map fst HT) -> (k < hn)%nat) as Kold.
  { intros k Hk. apply in_map_iff in Hk. destruct Hk as [[k' [n p]] [E Hin]]. simpl in E. subst k'.
    destruct (H2 k n p Hin) as (_ & _ & Hl). exact Hl. }
  assert (forall k, In k (map fst NE) -> ~ In k (map fst HT)) as Kdis.
  { intros k Hk Hk'. apply in_map_iff in Hk. destruct Hk as [x [E Hx]]. specialize (Rne x Hx). specialize (Kold k Hk'). lia. }
  assert (NoDup (map fst (HT ++ NE))) as Nall.
  { rewrite map_app. apply nodup_app_disj'; [exact H1|exact Nne|]. intros k Hk Hk'. exact (Kdis k Hk' Hk). }
  assert (forall h n p, In (h, (n, p)) HT -> okx HT p) as Hclos by (intros h n p Hin; apply (H2 h n p Hin)).
  assert (ptops (HT ++ NE) (map fst (HT ++ NE)) = ptops HT (map fst HT) ++ P) as Ept.
  { unfold ptops. rewrite map_app, flat_map_app. f_equal.
    - apply flat_map_ext_in'. intros u Hu. unfold hpar. rewrite lookup_app_l by exact Hu. reflexivity.
    - rewrite <- EP, flat_map_map. apply flat_map_ext_in'. intros [h [n p]] Hin. simpl.
      unfold hpar. rewrite lookup_app_r by (apply Kdis; apply (in_map fst _ _ Hin)).
      rewrite (lookup_in NE h (n, p) Nne Hin). reflexivity. }
  assert (forall h c, In (LCopy h c) ((P ++ X) ++ ptops HT (map fst HT)) -> (h < hn)%nat) as Cold.
  { intros h c Hin. apply in_app_or in Hin. destruct Hin as [Hin|Hin]; [exact (H5 h c Hin)|].
    unfold ptops in Hin. apply in_flat_map in Hin. destruct Hin as [u [Hu Ht]].
    apply in_map_iff in Hu. destruct Hu as [[u' [n p]] [E Hu]]. simpl in E. subst u'.
    unfold hpar in Ht. rewrite (lookup_in HT u (n, p) H1 Hu) in Ht. simpl in Ht.
    destruct (okx_tops HT p (Hclos u n p Hu) h c Ht) as (n' & p' & Hin' & _).
    apply Kold. apply (in_map fst _ _ Hin'). }
  assert (Permutation ((NC ++ X) ++ ptops HT (map fst HT) ++ P) (NC ++ ((P ++ X) ++ ptops HT (map fst HT)))) as Pm.
  { rewrite <- !app_assoc. apply Permutation_app_head.
    rewrite (Permutation_app_comm P (X ++ ptops HT (map fst HT))). rewrite <- app_assoc. reflexivity. }
  split; [exact Nall|]. split.
  { intros h n p Hin. apply in_app_or in Hin. destruct Hin as [Hin|Hin].
    - destruct (H2 h n p Hin) as (Ho & Hr & Hl). split; [apply (okx_mono HT); [apply incl_appl, incl_refl|exact Ho]|].
      split; [exact Hr|lia].
    - pose proof (Okne h n p Hin) as Ho. specialize (Rne _ Hin). simpl in Rne.
      split; [apply (okx_mono HT); [apply incl_appl, incl_refl|exact Ho]|]. split; [|lia].
      intros h' Hh'. pose proof (okx_hubids_in HT p Hclos Ho h' Hh') as Hk. specialize (Kold h' Hk). lia. }
  rewrite Ept. split.
  { apply (Permutation_NoDup (Permutation_sym Pm)). apply nodup_app_disj'; [exact Nnc|exact H3|].
    intros l Hl Hl'. destruct (Rnc l Hl) as (h & c & -> & Hr). specialize (Cold h c Hl'). lia. }
  split.
  { intro Hin. apply (Permutation_in _ Pm) in Hin. apply in_app_or in Hin. destruct Hin as [Hin|Hin].
    - destruct (Rnc _ Hin) as (h & c & E & _). discriminate.
    - exact (H4 Hin). }
  intros h c Hin. apply in_app_or in Hin. destruct Hin as [Hin|Hin].
  - destruct (Rnc _ Hin) as (h' & c' & E & Hr). injection E as -> ->. lia.
  - assert (h < hn)%nat; [|lia]. apply (H5 h c). apply in_or_app. right. exact Hin.
Qed.

Lemma Wl_mono HT hn hn' T : Wl HT hn T -> (hn <= hn')%nat -> Wl HT hn' T.
Proof.
  intros (H1 & H2 & H3 & H4 & H5) Hle. split; [exact H1|]. split.
  - intros h n p Hin. destruct (H2 h n p Hin) as (A & B & C). split; [exact A|split; [exact B|lia]].
  - split; [exact H3|]. split; [exact H4|]. intros h c Hin. specialize (H5 h c Hin). lia.
Qed.
