(* C06 - every Poly the arithmetic builds is a dict: its powers are pairwise distinct. *)
From Coq Require Import List Bool Arith ZArith QArith Qcanon Lia Permutation.
From AL Require Import Base.CaseLib C04.Model C06.Model C06.Spec C06.ProofsEq.
Import ListNotations.

Lemma nodup_snoc {T} (l : list T) k : NoDup l -> ~ In k l -> NoDup (l ++ [k]).
Proof.
  intros H Hn. apply (Permutation_NoDup (Permutation_cons_append l k)). constructor; assumption.
Qed.

Lemma map_id_fst {T U} (l : list (T * U)) : map (fun x => fst x) l = map fst l.
Proof. reflexivity. Qed.

Lemma nodup_app_disj {T} (a b : list T) : NoDup a -> NoDup b -> (forall x, In x a -> In x b -> False) ->
  NoDup (a ++ b).
Proof.
  induction a as [|x r IH]; intros Ha Hb Hd; simpl; [exact Hb|].
  inversion Ha as [|? ? Hn Hr]; subst. constructor.
  - intro Hin. apply in_app_or in Hin. destruct Hin as [Hin|Hin]; [contradiction|].
    apply (Hd x); [left; reflexivity|exact Hin].
  - apply IH; [exact Hr|exact Hb|]. intros y Hy. apply Hd. right. exact Hy.
Qed.

Section Keys.
  Context {C : Type}.
  Variable A : calg C.
  Notation keys := (map (@fst Z C)).

  Lemma filter_keys_nodup (P : Z * C -> bool) d : NoDup (keys d) -> NoDup (keys (filter P d)).
  Proof.
    induction d as [|kv r IH]; intro H; simpl; [constructor|].
    inversion H as [|? ? Hn Hr]; subst. destruct (P kv); simpl; [|auto].
    constructor; [|auto]. intro Hin. apply Hn. apply in_map_iff in Hin. destruct Hin as [x [E Hx]].
    rewrite <- E. apply in_map. apply filter_In in Hx. tauto.
  Qed.
  Lemma compact_nodup d : NoDup (keys d) -> NoDup (keys (tcompact A d)).
  Proof. apply filter_keys_nodup. Qed.

  Lemma has_in d k : d_has d k = true <-> In k (keys d).
  Proof.
    unfold d_has. rewrite existsb_exists. split.
    - intros [x [Hx E]]. apply Z.eqb_eq in E. rewrite <- E. apply in_map. exact Hx.
    - intro H. apply in_map_iff in H. destruct H as [x [E Hx]]. exists x. split; [exact Hx|apply Z.eqb_eq; exact E].
  Qed.

  Lemma set_keys d k v : keys (d_set d k v) = if d_has d k then keys d else keys d ++ [k].
  Proof.
    unfold d_set. destruct (d_has d k) eqn:E.
    - rewrite map_map. apply map_ext_in. intros x _. destruct (fst x =? k)%Z eqn:Ek; [|reflexivity].
      apply Z.eqb_eq in Ek. simpl. symmetry. exact Ek.
    - rewrite map_app. reflexivity.
  Qed.

  Lemma acc_nodup d k v : NoDup (keys d) -> NoDup (keys (d_acc A d k v)).
  Proof.
    intro H. unfold d_acc, d_get. destruct (find (fun kv => (fst kv =? k)%Z) d) as [kv|] eqn:E.
    - rewrite set_keys. assert (d_has d k = true) as ->; [|exact H].
      apply find_some in E. destruct E as [Hin Ek]. apply has_in. apply Z.eqb_eq in Ek. rewrite <- Ek.
      apply in_map. exact Hin.
    - rewrite map_app. simpl. apply nodup_snoc; [exact H|].
      intro Hin. apply in_map_iff in Hin. destruct Hin as [x [Ex Hx]].
      apply (find_none _ _ E) in Hx. apply Z.eqb_neq in Hx. contradiction.
  Qed.

  Lemma fold_acc_nodup l : forall acc, NoDup (keys acc) ->
    NoDup (keys (fold_left (fun a kv => d_acc A a (fst kv) (snd kv)) l acc)).
  Proof. induction l as [|x r IH]; intros acc H; simpl; [exact H|]. apply IH. apply acc_nodup. exact H. Qed.

  (* Poly.__mul__ always returns a dict with distinct powers *)
  Lemma pmul_nodup h a b : NoDup (keys (fst (pmul A h a b))).
  Proof. unfold pmul. cbn [fst]. apply compact_nodup. apply fold_acc_nodup. constructor. Qed.

  Lemma padd_nodup a b : NoDup (keys a) -> NoDup (keys b) -> NoDup (keys (padd A a b)).
  Proof.
    intros Ha Hb. unfold padd. apply compact_nodup. rewrite map_app.
    assert (keys (map (fun kv => match d_get b (fst kv) with
                                 | Some w => (fst kv, ca_add A (snd kv) w) | None => kv end) a) = keys a) as ->.
    { rewrite map_map. apply map_ext. intro x. destruct (d_get b (fst x)); reflexivity. }
    apply nodup_app_disj.
    - exact Ha.
    - apply filter_keys_nodup. exact Hb.
    - intros k Hka Hkb. apply in_map_iff in Hkb. destruct Hkb as [kv [E Hin]].
      apply filter_In in Hin. destruct Hin as [_ Hn]. apply negb_true_iff in Hn.
      rewrite <- E in Hka. apply has_in in Hka. congruence.
  Qed.

  Lemma pneg_nodup a : NoDup (keys a) -> NoDup (keys (pneg A a)).
  Proof. intro H. unfold pneg. apply compact_nodup. rewrite map_map. simpl. rewrite map_id_fst. exact H. Qed.

  Definition fnodup (f : @gfilt C) : Prop := NoDup (keys (t_num f)) /\ NoDup (keys (t_den f)).

  Lemma mk_nodup h n d f h' : NoDup (keys n) -> NoDup (keys d) -> mk_tfilt A h n d = BOk f h' -> fnodup f.
  Proof.
    intros Hn Hd. unfold mk_tfilt. destruct (tmin_power (tcompact A d)) as [p|]; [|discriminate].
    destruct (p =? 0)%Z; intro H; injection H as <- _; split; cbn [t_num t_den];
      try apply pmul_nodup; apply compact_nodup; assumption.
  Qed.

  Lemma enum_keys (g : nat -> C -> C) (a : gdata) : forall i,
    keys (map (fun ikv => (fst (snd ikv), g (fst ikv) (snd (snd ikv)))) (enum_from i a)) = keys a.
  Proof. induction a as [|x r IH]; intro i; simpl; [reflexivity|]. rewrite IH. reflexivity. Qed.

  Lemma pcopy_keys h a :
    keys (fst (fst (pcopy A h a))) = keys a /\ keys (snd (fst (pcopy A h a))) = keys a.
  Proof.
    unfold pcopy. cbn [fst snd]. split.
    - apply (enum_keys (fun i v => ca_hub A (h + i) 2 0 v)).
    - apply (enum_keys (fun i v => ca_hub A (h + i) 2 1 v)).
  Qed.

  Lemma fadd_nodup h f g r h' : fnodup f -> fnodup g -> fadd A h f g = BOk r h' -> fnodup r.
  Proof.
    intros [Fn Fd] [Gn Gd]. unfold fadd. destruct (peq A (t_den f) (t_den g)).
    - apply mk_nodup; [apply padd_nodup; assumption|exact Fd].
    - destruct (pcopy A h (t_den g)) as [[gd gdc] h1].
      destruct (pmul A h1 (t_num f) gdc) as [p1 h2] eqn:E1.
      destruct (pcopy A h2 (t_den f)) as [[fd fdc] h3].
      destruct (pmul A h3 (t_num g) fdc) as [p2 h4] eqn:E2.
      destruct (pmul A h4 fd gd) as [dd h5] eqn:E3.
      apply mk_nodup.
      + apply padd_nodup.
        * change p1 with (fst (p1, h2)). rewrite <- E1. apply pmul_nodup.
        * change p2 with (fst (p2, h4)). rewrite <- E2. apply pmul_nodup.
      + change dd with (fst (dd, h5)). rewrite <- E3. apply pmul_nodup.
  Qed.

  Lemma fneg_nodup h f r h' : fnodup f -> fneg A h f = BOk r h' -> fnodup r.
  Proof. intros [Fn Fd]. unfold fneg. apply mk_nodup; [apply pneg_nodup; exact Fn|exact Fd]. Qed.

  Lemma fmul_nodup h f g r h' : fmul A h f g = BOk r h' -> fnodup r.
  Proof.
    unfold fmul. destruct (pmul A h (t_num f) (t_num g)) as [n h1] eqn:E1.
    destruct (pmul A h1 (t_den f) (t_den g)) as [d h2] eqn:E2.
    apply mk_nodup.
    - change n with (fst (n, h1)). rewrite <- E1. apply pmul_nodup.
    - change d with (fst (d, h2)). rewrite <- E2. apply pmul_nodup.
  Qed.

  Lemma fmul_scalar_nodup h f c r h' : fnodup f -> fmul_scalar A h f c = BOk r h' -> fnodup r.
  Proof.
    intros [Fn Fd]. unfold fmul_scalar. destruct (pmul A h (t_num f) (poly_of_scalar A c)) as [n h1] eqn:E1.
    apply mk_nodup; [|exact Fd]. change n with (fst (n, h1)). rewrite <- E1. apply pmul_nodup.
  Qed.

  Lemma zf_nodup h c r h' : zf_scalar A h c = BOk r h' -> fnodup r.
  Proof.
    unfold zf_scalar. apply mk_nodup.
    - apply compact_nodup. simpl. repeat constructor. intros [].
    - simpl. repeat constructor. intros [].
  Qed.

  (* the dicts the filters are built from have distinct keys (they are Python dicts) *)
  Fixpoint bases_ok (e : @gfexp C) : Prop :=
    match e with
    | FBase n d => NoDup (keys n) /\ NoDup (keys d)
    | FAdd a b | FSub a b | FMul a b => bases_ok a /\ bases_ok b
    | FNeg a | FMulR a _ | FMulL _ a | FAddR a _ | FAddL _ a | FDivR a _ => bases_ok a
    end.

  Theorem build_nodup : forall e h f h', bases_ok e -> build A e h = BOk f h' -> fnodup f.
  Proof.
    induction e; intros h f h' Hb; simpl in Hb |- *.
    - destruct Hb. apply mk_nodup; assumption.
    - destruct Hb as [B1 B2]. destruct (build A e1 h) as [f1 h1|] eqn:E1; [|discriminate]. simpl.
      destruct (build A e2 h1) as [f2 h2|] eqn:E2; [|discriminate]. simpl.
      apply fadd_nodup; [exact (IHe1 _ _ _ B1 E1)|exact (IHe2 _ _ _ B2 E2)].
    - destruct Hb as [B1 B2]. destruct (build A e1 h) as [f1 h1|] eqn:E1; [|discriminate]. simpl.
      destruct (build A e2 h1) as [f2 h2|] eqn:E2; [|discriminate]. simpl.
      destruct (fneg A h2 f2) as [g' h3|] eqn:E3; [|discriminate]. simpl.
      apply fadd_nodup; [exact (IHe1 _ _ _ B1 E1)|].
      exact (fneg_nodup _ _ _ _ (IHe2 _ _ _ B2 E2) E3).
    - destruct Hb as [B1 B2]. destruct (build A e1 h) as [f1 h1|] eqn:E1; [|discriminate]. simpl.
      destruct (build A e2 h1) as [f2 h2|] eqn:E2; [|discriminate]. simpl. apply fmul_nodup.
    - destruct (build A e h) as [f1 h1|] eqn:E1; [|discriminate]. simpl.
      apply fneg_nodup. exact (IHe _ _ _ Hb E1).
    - destruct (build A e h) as [f1 h1|] eqn:E1; [|discriminate]. simpl.
      apply fmul_scalar_nodup. exact (IHe _ _ _ Hb E1).
    - destruct (build A e h) as [f1 h1|] eqn:E1; [|discriminate]. simpl.
      destruct (zf_scalar A h1 c) as [g h2|] eqn:E2; [|discriminate]. simpl. apply fmul_nodup.
    - destruct (build A e h) as [f1 h1|] eqn:E1; [|discriminate]. simpl.
      destruct (zf_scalar A h1 c) as [g h2|] eqn:E2; [|discriminate]. simpl.
      apply fadd_nodup; [exact (IHe _ _ _ Hb E1)|exact (zf_nodup _ _ _ _ E2)].
    - destruct (build A e h) as [f1 h1|] eqn:E1; [|discriminate]. simpl.
      destruct (zf_scalar A h1 c) as [g h2|] eqn:E2; [|discriminate]. simpl.
      apply fadd_nodup; [exact (zf_nodup _ _ _ _ E2)|exact (IHe _ _ _ Hb E1)].
    - destruct (build A e h) as [f1 h1|] eqn:E1; [|discriminate]. simpl.
      destruct (ca_recip A c); [|discriminate]. apply fmul_scalar_nodup. exact (IHe _ _ _ Hb E1).
  Qed.
End Keys.

(* distinct powers + the causality test of __call__ = keys_ok *)
Lemma keys_ok_causal (f : tfilt) : fnodup f -> t_any_negative f = false ->
  keys_ok (t_num f) /\ keys_ok (t_den f).
Proof.
  intros [Hn Hd] Hc. unfold t_any_negative in Hc.
  assert (forall kv, In kv (tterms (t_num f) ++ tterms (t_den f)) -> (0 <= fst kv)%Z) as H.
  { intros kv Hin. destruct (fst kv <? 0)%Z eqn:E; [|apply Z.ltb_ge in E; exact E].
    exfalso. assert (existsb (fun kv => (fst kv <? 0)%Z) (tterms (t_num f) ++ tterms (t_den f)) = true) as Hx
      by (apply existsb_exists; exists kv; split; assumption). congruence. }
  split; (split; [assumption|]); intros kv Hin; apply H; apply in_or_app; [left|right];
    apply (Permutation_in _ (Permutation_sym (tterms_perm _))); exact Hin.
Qed.

Lemma prepare_causal h (f : tfilt) r : prepare h f = Ok r -> t_any_negative f = false.
Proof. unfold prepare. destruct (t_any_negative f); [discriminate|reflexivity]. Qed.

(* every filter the modelled arithmetic builds and __call__ accepts has its keys in order *)
Theorem built_keys_ok (e : fexp) h f h1 r : bases_ok e -> build coef_alg e h = BOk f h1 ->
  prepare h1 f = Ok r -> keys_ok (t_num f) /\ keys_ok (t_den f).
Proof.
  intros Hb Hbuild Hp. apply keys_ok_causal.
  - exact (build_nodup coef_alg e h f h1 Hb Hbuild).
  - exact (prepare_causal h1 f r Hp).
Qed.
