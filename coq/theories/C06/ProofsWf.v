(* C06 - the hypotheses of the loop theorem as one boolean test on the generated
   program and its iterators (evaluated on every sampled filter by Check.v). *)
From Coq Require Import List Bool Arith ZArith QArith Qcanon Lia.
From AL Require Import Base.CaseLib C04.Model C06.Model C06.Spec C06.ProofsPull C06.ProofsLoop.
Import ListNotations.

Definition binop_eqb (a b : binop) : bool :=
  match a, b with OAdd, OAdd => true | OMul, OMul => true | ODiv, ODiv => true | _, _ => false end.
Fixpoint cx_eqb (a b : cx) : bool :=
  match a, b with
  | XSrc i, XSrc j => Nat.eqb i j
  | XTee h n c p, XTee h' n' c' p' => Nat.eqb h h' && Nat.eqb n n' && Nat.eqb c c' && cx_eqb p p'
  | XSS o l r, XSS o' l' r' => binop_eqb o o' && cx_eqb l l' && cx_eqb r r'
  | XSC o l q, XSC o' l' q' => binop_eqb o o' && cx_eqb l l' && Qc_eqb q q'
  | XCS o q r, XCS o' q' r' => binop_eqb o o' && Qc_eqb q q' && cx_eqb r r'
  | XNeg e, XNeg e' => cx_eqb e e'
  | _, _ => false
  end.
Lemma binop_eqb_eq a b : binop_eqb a b = true -> a = b.
Proof. destruct a, b; simpl; intro H; try reflexivity; discriminate. Qed.
Lemma cx_eqb_eq : forall a b, cx_eqb a b = true -> a = b.
Proof.
  induction a; destruct b; simpl; intro H; try discriminate.
  - apply Nat.eqb_eq in H. congruence.
  - repeat (apply andb_true_iff in H; destruct H as [H ?]).
    apply Nat.eqb_eq in H. apply Nat.eqb_eq in H2. apply Nat.eqb_eq in H1. apply IHa in H0. congruence.
  - repeat (apply andb_true_iff in H; destruct H as [H ?]).
    apply binop_eqb_eq in H. apply IHa1 in H1. apply IHa2 in H0. congruence.
  - repeat (apply andb_true_iff in H; destruct H as [H ?]).
    apply binop_eqb_eq in H. apply IHa in H1. apply Qc_eqb_spec in H0. congruence.
  - repeat (apply andb_true_iff in H; destruct H as [H ?]).
    apply binop_eqb_eq in H. apply Qc_eqb_spec in H1. apply IHa in H0. congruence.
  - apply IHa in H. congruence.
Qed.

(* the copies and the hubs an expression mentions *)
Fixpoint copies (e : cx) : list (nat * nat) :=
  match e with
  | XSrc _ => []
  | XTee h _ c q => (h, c) :: copies q
  | XSS _ l r => copies l ++ copies r
  | XSC _ l _ => copies l
  | XCS _ _ r => copies r
  | XNeg e1 => copies e1
  end.
Fixpoint hubs (e : cx) : list (nat * cx) :=
  match e with
  | XSrc _ => []
  | XTee h _ _ q => (h, q) :: hubs q
  | XSS _ l r => hubs l ++ hubs r
  | XSC _ l _ => hubs l
  | XCS _ _ r => hubs r
  | XNeg e1 => hubs e1
  end.
Definition table (H : list (nat * cx)) (h : nat) : cx :=
  match lookup H h with Some q => q | None => XSrc 0 end.

Definition pair_in (hc : nat * nat) (L : list (nat * nat)) : bool :=
  existsb (fun x => Nat.eqb (fst x) (fst hc) && Nat.eqb (snd x) (snd hc)) L.
Lemma pair_in_In hc L : pair_in hc L = true -> In hc L.
Proof.
  unfold pair_in. rewrite existsb_exists. intros [x [Hin He]].
  apply andb_true_iff in He. destruct He as [E1 E2]. apply Nat.eqb_eq in E1, E2.
  destruct x, hc. simpl in *. subst. exact Hin.
Qed.

Fixpoint in_live_b (L : list (nat * nat)) (e : cx) : bool :=
  match e with
  | XSrc _ => true
  | XTee h _ c q => pair_in (h, c) L && in_live_b L q
  | XSS _ l r => in_live_b L l && in_live_b L r
  | XSC _ l _ => in_live_b L l
  | XCS _ _ r => in_live_b L r
  | XNeg e1 => in_live_b L e1
  end.
Fixpoint hub_ok_b (P : nat -> cx) (e : cx) : bool :=
  match e with
  | XSrc _ => true
  | XTee h _ _ q => cx_eqb (P h) q && hub_ok_b P q
  | XSS _ l r => hub_ok_b P l && hub_ok_b P r
  | XSC _ l _ => hub_ok_b P l
  | XCS _ _ r => hub_ok_b P r
  | XNeg e1 => hub_ok_b P e1
  end.
Lemma in_live_b_ok L e : in_live_b L e = true -> in_live L e.
Proof.
  induction e; simpl; intro H; try exact I; auto.
  - apply andb_true_iff in H. destruct H as [H1 H2]. split; [apply pair_in_In; exact H1|auto].
  - apply andb_true_iff in H. destruct H as [H1 H2]. split; auto.
Qed.
Lemma hub_ok_b_ok P e : hub_ok_b P e = true -> hub_ok P e.
Proof.
  induction e; simpl; intro H; try exact I; auto.
  - apply andb_true_iff in H. destruct H as [H1 H2]. split; [apply cx_eqb_eq; exact H1|auto].
  - apply andb_true_iff in H. destruct H as [H1 H2]. split; auto.
Qed.

Definition iter_ok_b L P (its : list (nat * cx)) (k : nat) : bool :=
  match lookup its k with Some e => in_live_b L e && hub_ok_b P e | None => false end.
Fixpoint terms_ok_b L P (bs az : list (nat * cx)) (ts : list tterm) : bool :=
  match ts with
  | [] => true
  | TConst _ :: r => terms_ok_b L P bs az r
  | TNextB k :: r => iter_ok_b L P bs k && terms_ok_b L P bs az r
  | TNextA k :: r => iter_ok_b L P az k && terms_ok_b L P bs az r
  end.
Lemma iter_ok_b_ok L P its k : iter_ok_b L P its k = true ->
  exists e, lookup its k = Some e /\ in_live L e /\ hub_ok P e.
Proof.
  unfold iter_ok_b. destruct (lookup its k) as [e|]; [|discriminate]. intro H.
  apply andb_true_iff in H. destruct H as [H1 H2].
  exists e. split; [reflexivity|]. split; [apply in_live_b_ok|apply hub_ok_b_ok]; assumption.
Qed.
Lemma terms_ok_b_ok L P bs az ts : terms_ok_b L P bs az ts = true -> terms_ok L P bs az ts.
Proof.
  induction ts as [|t r IH]; simpl; intro H; [exact I|]. destruct t.
  - auto.
  - apply andb_true_iff in H. destruct H as [H1 H2]. split; [apply iter_ok_b_ok; exact H1|auto].
  - apply andb_true_iff in H. destruct H as [H1 H2]. split; [apply iter_ok_b_ok; exact H1|auto].
Qed.

Lemma nodupb_ok l : nodupb l = true -> NoDup l.
Proof.
  induction l as [|x r IH]; simpl; intro H; [constructor|].
  apply andb_true_iff in H. destruct H as [H1 H2]. constructor; [|auto].
  intro Hin. apply negb_true_iff in H1.
  assert (existsb (Nat.eqb x) r = true) as E; [|congruence].
  apply existsb_exists. exists x. split; [exact Hin|apply Nat.eqb_refl].
Qed.

(* the live copies and the hub table of a program's iterators *)
Definition live_of (bs az : list (nat * cx)) : list (nat * nat) := flat_map (fun ke => copies (snd ke)) (bs ++ az).
Definition hubs_of (bs az : list (nat * cx)) : nat -> cx := table (flat_map (fun ke => hubs (snd ke)) (bs ++ az)).

(* every Next term has its iterator; the tee copies are consistent; one round
   reads the input and every coefficient source once and leaves no live copy
   with a pending item *)
Definition wf_b (bs az : list (nat * cx)) (ts : list tterm) : bool :=
  let L := live_of bs az in
  let res := aterms bs az ts p_zero in
  terms_ok_b L (hubs_of bs az) bs az ts &&
  nodupb (0%nat :: snd res) &&
  forallb (fun hc => Nat.eqb (fst res (fst hc) (snd hc)) 0) L.

Lemma wf_b_ok bs az ts : wf_b bs az ts = true ->
  terms_ok (live_of bs az) (hubs_of bs az) bs az ts /\
  NoDup (0%nat :: snd (aterms bs az ts p_zero)) /\
  (forall h c, In (h, c) (live_of bs az) -> fst (aterms bs az ts p_zero) h c = 0%nat).
Proof.
  unfold wf_b. intro H. apply andb_true_iff in H. destruct H as [H H3].
  apply andb_true_iff in H. destruct H as [H1 H2].
  split; [apply terms_ok_b_ok; exact H1|]. split; [apply nodupb_ok; exact H2|].
  intros h c Hin. rewrite forallb_forall in H3. specialize (H3 (h, c) Hin). apply Nat.eqb_eq in H3. exact H3.
Qed.

(* the program and iterators of a filter *)
Definition wf_prog (f : tfilt) (p : tprog) : bool :=
  let bs := stream_iters (t_num f) in let az := stream_iters (t_den f) in
  (tp_try p || is_nil (snd (aterms bs az (p_terms (tp_prog p)) p_zero))) &&
  wf_b bs az (p_terms (tp_prog p)).

Theorem run_tv_wf S (f : tfilt) (p : tprog) memory zero fuel :
  wf_prog f p = true ->
  round_spec S (stream_iters (t_num f)) (stream_iters (t_den f)) p fuel 0
             (unpack (p_mvars (tp_prog p)) memory empty_env)
             (assign_all (p_dvars (tp_prog p)) zero empty_env)
             (run_tv S (TGen p) f memory zero fuel).
Proof.
  unfold wf_prog. intro H. apply andb_true_iff in H. destruct H as [Ht Hw].
  destruct (wf_b_ok _ _ _ Hw) as (Hok & Hnd & Hcl).
  refine (run_tv_spec S _ _ f p memory zero fuel _ Hok Hnd Hcl).
  apply orb_true_iff in Ht. destruct Ht as [Ht|Ht]; [left; exact Ht|right].
  destruct (snd (aterms _ _ _ _)); [reflexivity|discriminate].
Qed.

Theorem read_once S (f : tfilt) (p : tprog) memory zero fuel :
  wf_prog f p = true ->
  Forall (fun seg => seg = 0%nat :: snd (aterms (stream_iters (t_num f)) (stream_iters (t_den f))
                                               (p_terms (tp_prog p)) p_zero))
         (segs (run_tv S (TGen p) f memory zero fuel) []).
Proof.
  intro H. apply (round_spec_once S _ _ p fuel 0 _ _ _ (run_tv_wf S f p memory zero fuel H)).
Qed.

Theorem ends_at_shortest S (f : tfilt) (p : tprog) memory zero fuel :
  let bs := stream_iters (t_num f) in
  let az := stream_iters (t_den f) in
  let ts := p_terms (tp_prog p) in
  let rd := snd (aterms bs az ts p_zero) in
  wf_prog f p = true ->
  (forall n m d, forallb (alive S n) rd = true -> tsum (snapshot S n) bs az ts m d 0%Qc <> None) ->
  (forall n m d, exists V, compat S n V /\ tsum V bs az ts m d 0%Qc <> None) ->
  let tr := run_tv S (TGen p) f memory zero fuel in
  count_yields tr = live_len S (0%nat :: rd) fuel 0 /\
  ((live_len S (0%nat :: rd) fuel 0 < fuel)%nat -> exists pre, tr = pre ++ [EvStop]).
Proof.
  intros bs az ts rd Hwf Hd1 Hd2 tr.
  exact (round_spec_ends S bs az p Hd1 Hd2 fuel 0 _ _ tr (run_tv_wf S f p memory zero fuel Hwf)).
Qed.
