(* C06 - case records and boolean checkers for the generated case files. *)
From Coq Require Import String List Bool Arith ZArith QArith Qcanon.
From AL Require Import Base.CaseLib C04.Model C04.Check C06.Model C06.Spec C06.ProofsWf C06.ProofsGain.
Import ListNotations.

Definition tterm_eqb (a b : tterm) : bool :=
  match a, b with
  | TConst x, TConst y => term_eqb x y
  | TNextB i, TNextB j => Nat.eqb i j
  | TNextA i, TNextA j => Nat.eqb i j
  | _, _ => false
  end.
Definition tprog_eqb (a b : tprog) : bool :=
  let p := tp_prog a in let q := tp_prog b in
  list_eqb Nat.eqb (p_mvars p) (p_mvars q) && list_eqb Nat.eqb (p_dvars p) (p_dvars q) &&
  list_eqb tterm_eqb (p_terms p) (p_terms q) && gain_eqb (p_gain p) (p_gain q) &&
  list_eqb natpair_eqb (p_mshift p) (p_mshift q) && list_eqb natpair_eqb (p_dshift p) (p_dshift q) &&
  list_eqb Nat.eqb (tp_bargs a) (tp_bargs b) && list_eqb Nat.eqb (tp_aargs a) (tp_aargs b) &&
  Bool.eqb (tp_try a) (tp_try b).
Definition tgen_eqb (a b : tgen) : bool :=
  match a, b with
  | TZero x, TZero y => Qc_eqb x y
  | TGen p, TGen q => tprog_eqb p q
  | _, _ => false
  end.

Definition exnk_eqb (a b : exnk) : bool :=
  match a, b with XZeroDiv, XZeroDiv => true | XRuntime, XRuntime => true | XOther, XOther => true | _, _ => false end.
Definition event_eqb (a b : event) : bool :=
  match a, b with
  | EvRead i v, EvRead j w => Nat.eqb i j && option_eqb Qc_eqb v w
  | EvYield x, EvYield y => Qc_eqb x y
  | EvStop, EvStop => true
  | EvRaise x, EvRaise y => exnk_eqb x y
  | _, _ => false
  end.

(* the text _exec_eval received, parsed by harness/C06_parse.py *)
Inductive tcaptured := TNoProg | TCaptured (g : tgen) | TUnparsed.

(* what the implementation did *)
Inductive tobs :=
| OBuild (name : string)                       (* the filter expression raised            *)
| OCall (name : string)                        (* expr(seq, ...) raised                   *)
| ORun (p : tcaptured) (tr : list event)       (* program text and the event trace        *)
| OOther.                                      (* anything else (never equal to a model)  *)

Record tcase := TCase {
  c_expr : fexp;
  c_srcs : list srcdata;          (* source 0 is the filter input *)
  c_mem : memarg;
  c_zero : Qc;
  c_limit : nat;                  (* the consumer takes at most this many items *)
  c_silent : list nat;            (* coefficient sources whose reads are not logged *)
  c_obs : tobs }.

(* the model's trace as a harness that cannot see the reads of the silent sources sees it *)
Definition hide (silent : list nat) (tr : list event) : list event :=
  filter (fun ev => match ev with EvRead i _ => negb (smem i silent) | _ => true end) tr.

Definition berr_name (e : berr) : string :=
  match e with BZeroDiv => "ZeroDivisionError" | BEmptyDen => "ValueError" end.

(* the hypothesis of the loop theorems (C06.ProofsWf.wf_prog: tee copies consistent,
   one clean round reads every source once) holds for the program and iterators
   the model builds for this case *)
Definition wf_case (c : tcase) : bool :=
  match build coef_alg (c_expr c) 0 with
  | BOk f h =>
      match prepare h f with
      | Ok (BOk f' _) => match tcodegen f' (c_zero c) with Ok (TGen p) => keys_ok_b (t_num f) && keys_ok_b (t_den f) && wf_prog f' p
                                         | _ => true end
      | _ => true
      end
  | BErr _ => true
  end.

Definition corr_tv (c : tcase) : bool :=
  wf_case c &&
  match run_case (sources_of (c_srcs c)) (c_expr c) (c_mem c) (c_zero c) (c_limit c), c_obs c with
  | RBuild e, OBuild n => String.eqb n (berr_name e)
  | RCall e, OCall n => String.eqb n (exn_name e)
  | RRun g tr, ORun (TCaptured g') tr' => tgen_eqb g' g && list_eqb event_eqb tr' (hide (c_silent c) tr)
  | _, _ => false
  end.

(* the property on the implementation's observation: Spec only.  A refusal is
   accepted only where the frozen filter is itself refused (the text is silent). *)
Definition zero_gain (F : @gfilt scoef) : bool :=
  let a0 := t_getitem frozen_alg (t_den F) 0 in
  is_nil (sc_deps a0) && oq_eqb (sc_val a0) (Some 0%Qc).

(* the text speaks of filters of which some coefficient is a Stream: an expression without
   any Stream literal is a constant-coefficient filter (property C04) and nothing is demanded *)
Definition coef_is_stream (c : coef) : bool := match c with CStr _ => true | CNum _ => false end.
Fixpoint mentions_stream (e : fexp) : bool :=
  match e with
  | FBase n d => existsb (fun kv => coef_is_stream (snd kv)) (n ++ d)
  | FAdd a b | FSub a b | FMul a b => mentions_stream a || mentions_stream b
  | FNeg a => mentions_stream a
  | FMulR a c | FMulL c a | FAddR a c | FAddL c a | FDivR a c => mentions_stream a || coef_is_stream c
  end.

Definition holds_tv (c : tcase) : bool :=
  let S := sources_of (c_srcs c) in
  negb (mentions_stream (c_expr c)) ||
  match c_obs c with
  | ORun _ tr => spec_run S (c_expr c) (c_mem c) (c_zero c) (c_silent c) (c_limit c) tr
  | OBuild _ => match frozen_at S (c_expr c) 0 with BErr _ => true | BOk _ _ => false end
  | OCall _ => match frozen_at S (c_expr c) 0 with
               | BErr _ => false
               | BOk F _ => noncausal F || zero_gain F
               end
  | OOther => false
  end.

(* ------------------------------------------------ sessions on one filter object *)
Inductive stepobs :=
| SOErr (name : string)                       (* the step raised                          *)
| SORun (p : tcaptured) (tr : list event)     (* program text and the events of this call *)
| SOSeen (num den : list (Z * bool))          (* filt.numpoly / filt.denpoly              *)
| SOOther.

Record scase := SCase {
  s_expr : fexp; s_srcs : list srcdata; s_zero : Qc; s_silent : list nat; s_steps : list sstep; s_obs : list stepobs }.

Definition zbl_eqb (a b : list (Z * bool)) : bool := list_eqb zb_eqb a b.
Definition step_agrees (silent : list nat) (o : stepobs) (m : sobs) : bool :=
  match o, m with
  | SOErr n, SRes (RBuild e) => String.eqb n (berr_name e)
  | SOErr n, SRes (RCall e) => String.eqb n (exn_name e)
  | SORun (TCaptured g') tr', SRes (RRun g tr) => tgen_eqb g' g && list_eqb event_eqb tr' (hide silent tr)
  | SOSeen n d, SSeen n' d' => zbl_eqb n n' && zbl_eqb d d'
  | _, _ => false
  end.

Fixpoint all2 {A B} (f : A -> B -> bool) (a : list A) (b : list B) : bool :=
  match a, b with
  | [], [] => true
  | x :: a', y :: b' => f x y && all2 f a' b'
  | _, _ => false
  end.

Definition corr_ses (c : scase) : bool :=
  match run_session (sources_of (s_srcs c)) (s_expr c) (s_steps c) (s_zero c) with
  | Some l => all2 (step_agrees (s_silent c)) (s_obs c) l
  | None => false
  end.

Fixpoint count_y (tr : list event) : nat :=
  match tr with [] => 0%nat | EvYield _ :: r => S (count_y r) | _ :: r => count_y r end.

(* the property on a session: every call, whenever all sources stand at the same instant n
   (every earlier call was stopped by its consumer after fuel outputs), must be the call of
   the SAME expression from the instant n on; a refusal is accepted only where the frozen
   filter is refused; the object keeps its shape *)
(* what the text demands of the filter a step runs, frozen at the instant j: the frozen
   arithmetic (element by element) - a power is the repeated product, a negative power the
   power of the reciprocal, filt op filt the operator on the same coefficient sequences *)
Definition one_f : bres (@gfilt scoef) := mk_tfilt frozen_alg 0 [(0%Z, s_num 1%Qc)] [(0%Z, s_num 1%Qc)].
Fixpoint spow (F : @gfilt scoef) (n : nat) : bres (@gfilt scoef) :=
  match n with
  | O => one_f
  | S O => BOk F 0%nat
  | S k => bbind (spow F k) (fun G _ => fmul frozen_alg 0 G F)
  end.
Definition sself (F : @gfilt scoef) (o : selfop) : bres (@gfilt scoef) :=
  match o with
  | SelfMul => fmul frozen_alg 0 F F
  | SelfAdd => mk_tfilt frozen_alg 0 (padd frozen_alg (t_num F) (t_num F)) (t_den F)
  | SelfSub => bbind (fneg frozen_alg 0 F) (fun G _ => mk_tfilt frozen_alg 0 (padd frozen_alg (t_num F) (t_num G)) (t_den F))
  | SelfDiv => let '(n, _) := pmul frozen_alg 0 (t_num F) (t_den F) in
               let '(d, _) := pmul frozen_alg 0 (t_den F) (t_num F) in
               mk_tfilt frozen_alg 0 n d
  end.
Definition step_fz (S : sources) (e : fexp) (st : sstep) (j : nat) : bres (@gfilt scoef) :=
  match st with
  | SShiftCall k _ => frozen_at S (FMul e (FBase [(Z.of_nat k, CNum 1%Qc)] [(0%Z, CNum 1%Qc)])) j
  | SPowCall n _ =>
      bbind (frozen_at S e j) (fun F _ =>
        if (n <? 0)%Z then bbind (mk_tfilt frozen_alg 0 (t_den F) (t_num F)) (fun G _ => spow G (Z.to_nat (- n)))
        else spow F (Z.to_nat n))
  | SSelfCall o _ => bbind (frozen_at S e j) (fun F _ => sself F o)
  | _ => frozen_at S e j
  end.
Definition step_fuel (st : sstep) : nat :=
  match st with SCall f => f | SShiftCall _ f => f | SPowCall _ f => f | SSelfCall _ f => f | SLook => 0%nat end.

Fixpoint holds_steps (S : sources) (e : fexp) (zero : Qc) (silent : list nat) (steps : list sstep) (obs : list stepobs)
                     (n : option nat) : bool :=
  match steps, obs with
  | [], [] => true
  | SLook :: sr, SOSeen nu de :: orr =>
      match frozen_at S e 0 with
      | BOk F _ => same_shape nu (shape_of (t_num F)) && same_shape de (shape_of (t_den F))
      | BErr _ => true
      end && holds_steps S e zero silent sr orr n
  | st :: sr, o :: orr =>
      match n with
      | None => true                               (* the sources are no longer in step: no claim *)
      | Some n0 =>
          let fz := step_fz S e st in
          match o with
          | SORun _ tr =>
              spec_run_fz S fz MNone zero silent (step_fuel st) n0 tr &&
              holds_steps S e zero silent sr orr (if Nat.eqb (count_y tr) (step_fuel st) then Some (n0 + step_fuel st)%nat else None)
          | SOErr _ =>
              match fz n0 with
              | BErr _ => true
              | BOk F _ => noncausal F || zero_gain F
              end && holds_steps S e zero silent sr orr n
          | _ => false
          end
      end
  | _, _ => false
  end.

Definition holds_ses (c : scase) : bool :=
  negb (mentions_stream (s_expr c)) ||
  holds_steps (sources_of (s_srcs c)) (s_expr c) (s_zero c) (s_silent c) (s_steps c) (s_obs c) (Some 0%nat).
