(* C06 - case records and boolean checkers for the generated case files. *)
From Coq Require Import String List Bool Arith ZArith QArith Qcanon.
From AL Require Import Base.CaseLib C04.Model C04.Check C06.Model C06.Spec.
Import ListNotations.

Definition tterm_eqb (a b : tterm) : bool :=
  match a, b with
  | TConst x, TConst y => term_eqb x y
  | TNextB i, TNextB j => Nat.eqb i j
  | TNextA i, TNextA j => Nat.eqb i j
  | _, _ => false
  end.
Definition tprog_eqb (a b : tprog) : bool :=
  let p := tp_prog a in let q := tp_prog b in
  list_eqb Nat.eqb (p_mvars p) (p_mvars q) && list_eqb Nat.eqb (p_dvars p) (p_dvars q) &&
  list_eqb tterm_eqb (p_terms p) (p_terms q) && gain_eqb (p_gain p) (p_gain q) &&
  list_eqb natpair_eqb (p_mshift p) (p_mshift q) && list_eqb natpair_eqb (p_dshift p) (p_dshift q) &&
  list_eqb Nat.eqb (tp_bargs a) (tp_bargs b) && list_eqb Nat.eqb (tp_aargs a) (tp_aargs b) &&
  Bool.eqb (tp_try a) (tp_try b).
Definition tgen_eqb (a b : tgen) : bool :=
  match a, b with
  | TZero x, TZero y => Qc_eqb x y
  | TGen p, TGen q => tprog_eqb p q
  | _, _ => false
  end.

Definition exnk_eqb (a b : exnk) : bool :=
  match a, b with XZeroDiv, XZeroDiv => true | XRuntime, XRuntime => true | XOther, XOther => true | _, _ => false end.
Definition event_eqb (a b : event) : bool :=
  match a, b with
  | EvRead i v, EvRead j w => Nat.eqb i j && option_eqb Qc_eqb v w
  | EvYield x, EvYield y => Qc_eqb x y
  | EvStop, EvStop => true
  | EvRaise x, EvRaise y => exnk_eqb x y
  | _, _ => false
  end.

(* the text _exec_eval received, parsed by harness/C06_parse.py *)
Inductive tcaptured := TNoProg | TCaptured (g : tgen) | TUnparsed.

(* what the implementation did *)
Inductive tobs :=
| OBuild (name : string)                       (* the filter expression raised            *)
| OCall (name : string)                        (* expr(seq, ...) raised                   *)
| ORun (p : tcaptured) (tr : list event)       (* program text and the event trace        *)
| OOther.                                      (* anything else (never equal to a model)  *)

Record tcase := TCase {
  c_expr : fexp;
  c_srcs : list srcdata;          (* source 0 is the filter input *)
  c_mem : memarg;
  c_zero : Qc;
  c_limit : nat;                  (* the consumer takes at most this many items *)
  c_obs : tobs }.

Definition berr_name (e : berr) : string :=
  match e with BZeroDiv => "ZeroDivisionError" | BEmptyDen => "ValueError" end.

Definition corr_tv (c : tcase) : bool :=
  match run_case (sources_of (c_srcs c)) (c_expr c) (c_mem c) (c_zero c) (c_limit c), c_obs c with
  | RBuild e, OBuild n => String.eqb n (berr_name e)
  | RCall e, OCall n => String.eqb n (exn_name e)
  | RRun g tr, ORun (TCaptured g') tr' => tgen_eqb g' g && list_eqb event_eqb tr' tr
  | _, _ => false
  end.

Definition holds_tv (c : tcase) : bool := true.
