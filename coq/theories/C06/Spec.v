(* C06 - what the property promises (definitions only).

   A coefficient that is a Stream stands for the sequence of its items; at the
   instant n every coefficient is FROZEN at its n-th value and the filter is the
   constant-coefficient filter the same arithmetic gives on those numbers
   ("filter arithmetic acts on coefficient sequences element by element, a
   constant stands for a constant stream").  Output n satisfies the difference
   equation of the filter frozen at n; there is one read of every source per
   output; the output ends at the first end of the input or of a coefficient
   source. *)
From Coq Require Import List Bool Arith ZArith QArith Qcanon.
From AL Require Import Base.CaseLib C04.Model C06.Model.
Import ListNotations.
Open Scope Qc_scope.

(* ----------------------------------------------- coefficients frozen at n *)
(* sc_deps: the sources the coefficient is made of ([] for a number);
   sc_val: its value at the instant (None: a division by zero) *)
Record scoef := SC { sc_deps : list nat; sc_val : option Qc }.

Definition olift2 (f : Qc -> Qc -> Qc) (a b : option Qc) : option Qc :=
  match a, b with Some x, Some y => Some (f x y) | _, _ => None end.
Definition odiv (a b : option Qc) : option Qc :=
  match a, b with Some x, Some y => if Qc_eqb y 0 then None else Some (x / y) | _, _ => None end.
Definition is_nil {A} (l : list A) : bool := match l with [] => true | _ => false end.
Definition oq_eqb (a b : option Qc) : bool := option_eqb Qc_eqb a b.

Definition s_add (a b : scoef) : scoef := SC (sc_deps a ++ sc_deps b) (olift2 Qcplus (sc_val a) (sc_val b)).
Definition s_mul (a b : scoef) : scoef := SC (sc_deps a ++ sc_deps b) (olift2 Qcmult (sc_val a) (sc_val b)).
Definition s_neg (a : scoef) : scoef := SC (sc_deps a) (option_map Qcopp (sc_val a)).
Definition s_num (q : Qc) : scoef := SC [] (Some q).
(* 1 / a : for a number, dividing by zero raises at once *)
Definition s_recip (a : scoef) : option scoef :=
  if is_nil (sc_deps a) && oq_eqb (sc_val a) (Some 0) then None
  else Some (SC (sc_deps a) (odiv (Some 1) (sc_val a))).
Definition s_zero_num (a : scoef) : bool := is_nil (sc_deps a) && oq_eqb (sc_val a) (Some 0).
Definition s_equal (a b : scoef) : bool :=
  is_nil (sc_deps a) && is_nil (sc_deps b) && oq_eqb (sc_val a) (sc_val b).

(* the arithmetic of the library on frozen coefficients: the same generic Poly /
   ZFilter algebra, instantiated at numbers (tee hubs do nothing) *)
Definition frozen_alg : calg scoef :=
  CAlg scoef s_add s_mul s_neg s_recip s_zero_num s_equal (fun _ _ _ a => a) s_num.

(* the n-th value of a Stream expression, V i = the n-th item of source i *)
Definition oapply (o : binop) (a b : option Qc) : option Qc :=
  match o with OAdd => olift2 Qcplus a b | OMul => olift2 Qcmult a b | ODiv => odiv a b end.
Fixpoint xval (V : nat -> Qc) (e : cx) : option Qc :=
  match e with
  | XSrc i => Some (V i)
  | XTee _ _ _ p => xval V p
  | XSS o l r => oapply o (xval V l) (xval V r)
  | XSC o l q => oapply o (xval V l) (Some q)
  | XCS o q r => oapply o (Some q) (xval V r)
  | XNeg e1 => option_map Qcopp (xval V e1)
  end.
Fixpoint xdeps (e : cx) : list nat :=
  match e with
  | XSrc i => [i]
  | XTee _ _ _ p => xdeps p
  | XSS _ l r => xdeps l ++ xdeps r
  | XSC _ l _ => xdeps l
  | XCS _ _ r => xdeps r
  | XNeg e1 => xdeps e1
  end.

Definition freeze (V : nat -> Qc) (c : coef) : scoef :=
  match c with CNum q => s_num q | CStr e => SC (xdeps e) (xval V e) end.
Definition freeze_data (V : nat -> Qc) (d : tdata) : list (Z * scoef) :=
  map (fun kv => (fst kv, freeze V (snd kv))) d.
Definition freeze_filt (V : nat -> Qc) (f : tfilt) : @gfilt scoef :=
  TF (freeze_data V (t_num f)) (freeze_data V (t_den f)).
Fixpoint freeze_exp (V : nat -> Qc) (e : fexp) : @gfexp scoef :=
  match e with
  | FBase n d => FBase (freeze_data V n) (freeze_data V d)
  | FAdd a b => FAdd (freeze_exp V a) (freeze_exp V b)
  | FSub a b => FSub (freeze_exp V a) (freeze_exp V b)
  | FMul a b => FMul (freeze_exp V a) (freeze_exp V b)
  | FNeg a => FNeg (freeze_exp V a)
  | FMulR a c => FMulR (freeze_exp V a) (freeze V c)
  | FMulL c a => FMulL (freeze V c) (freeze_exp V a)
  | FAddR a c => FAddR (freeze_exp V a) (freeze V c)
  | FAddL c a => FAddL (freeze V c) (freeze_exp V a)
  | FDivR a c => FDivR (freeze_exp V a) (freeze V c)
  end.

(* the instant n of the sources *)
Definition snapshot (S : sources) (n : nat) : nat -> Qc :=
  fun i => match S i n with Some v => v | None => 0 end.

(* the filter expression evaluated on the coefficients frozen at n *)
Definition frozen_at (S : sources) (e : fexp) (n : nat) : bres (@gfilt scoef) :=
  build frozen_alg (freeze_exp (snapshot S n) e) 0.

(* ----------------------------------------------------- difference equation *)
(* xh / yh: the previous inputs / outputs, most recent first (x(n-1), x(n-2), ...);
   older than the beginning: zero / the memory items *)
Definition hist (h : list Qc) (dflt : Qc) (k : Z) : Qc := nth (Z.to_nat k - 1) h dflt.

Definition osum (l : list (option Qc)) : option Qc := fold_right (olift2 Qcplus) (Some 0) l.

(* sum_k b_k[n] x(n-k)  -  sum_{k>=1} a_k[n] y(n-k) *)
Definition rhs (F : @gfilt scoef) (x : Qc) (xh yh : list Qc) (zero : Qc) : option Qc :=
  olift2 Qcminus
    (osum (map (fun kv => olift2 Qcmult (sc_val (snd kv))
                            (Some (if (fst kv =? 0)%Z then x else hist xh zero (fst kv)))) (t_num F)))
    (osum (map (fun kv => if (fst kv =? 0)%Z then Some 0
                          else olift2 Qcmult (sc_val (snd kv)) (Some (hist yh zero (fst kv)))) (t_den F))).

Definition a0_of (F : @gfilt scoef) : option Qc := sc_val (t_getitem frozen_alg (t_den F) 0).

(* a0[n] y = rhs, when every coefficient is defined at n and a0[n] <> 0;
   None: the text says nothing about this instant *)
Definition equation (F : @gfilt scoef) (x : Qc) (xh yh : list Qc) (zero y : Qc) : option bool :=
  match a0_of F, rhs F x xh yh zero with
  | Some a0, Some r => if Qc_eqb a0 0 then None else Some (Qc_eqb (a0 * y) r)
  | _, _ => None
  end.

(* the coefficient sources of the filter (the input is source 0) *)
Definition fdeps (F : @gfilt scoef) : list nat :=
  nodup Nat.eq_dec (flat_map (fun kv => sc_deps (snd kv)) (t_num F ++ t_den F)).

Definition noncausal (F : @gfilt scoef) : bool :=
  existsb (fun kv => (fst kv <? 0)%Z) (t_num F ++ t_den F).

(* ---------------------------------------------------------- trace checker *)
(* the maximal prefix of reads of a trace *)
Fixpoint split_reads (tr : list event) : list (nat * option Qc) * list event :=
  match tr with
  | EvRead i v :: r => let '(rs, rest) := split_reads r in ((i, v) :: rs, rest)
  | _ => ([], tr)
  end.

Fixpoint nodupb (l : list nat) : bool :=
  match l with [] => true | x :: r => negb (existsb (Nat.eqb x) r) && nodupb r end.
Definition subset (a b : list nat) : bool := forallb (fun x => existsb (Nat.eqb x) b) a.

(* every read is of a source of the filter, at most once each, and delivers that
   source's n-th item *)
Definition reads_ok (S : sources) (n : nat) (srcs : list nat) (rs : list (nat * option Qc)) : bool :=
  nodupb (map fst rs) && subset (map fst rs) srcs &&
  forallb (fun iv => oq_eqb (snd iv) (S (fst iv) n)) rs.

Definition all_some (rs : list (nat * option Qc)) : bool :=
  forallb (fun iv => match snd iv with Some _ => true | None => false end) rs.

(* one source ended: it is the last read of the round, the earlier ones delivered *)
Definition ends_with_none (rs : list (nat * option Qc)) : bool :=
  match rev rs with
  | (_, None) :: before => all_some before
  | _ => false
  end.

(* at the instant n the text says nothing: a coefficient made of delivering
   sources is undefined (a division by zero) or the gain made of delivering sources is 0 *)
Definition delivering (S : sources) (n : nat) (c : scoef) : bool :=
  forallb (fun i => match S i n with Some _ => true | None => false end) (sc_deps c).
Definition silent_at (S : sources) (n : nat) (F : @gfilt scoef) : bool :=
  existsb (fun kv => delivering S n (snd kv) && oq_eqb (sc_val (snd kv)) None) (t_num F ++ t_den F) ||
  (let a0 := t_getitem frozen_alg (t_den F) 0 in delivering S n a0 && oq_eqb (sc_val a0) (Some 0)).

(* fuel: what the consumer still asks for; n: the instant; xh, yh: histories *)
Definition smem (i : nat) (l : list nat) : bool := existsb (Nat.eqb i) l.

(* silent: coefficient sources that are not logging generators (a raw itertools object
   inside the Stream): their reads are not events of the observed trace; the values
   used and the end of the output still speak for them *)
Fixpoint trace_ok (S : sources) (fz : nat -> bres (@gfilt scoef)) (zero : Qc) (silent : list nat) (fuel n : nat) (xh yh : list Qc)
                  (tr : list event) : bool :=
  match fuel with
  | O => is_nil tr                               (* nobody asks: nothing happens *)
  | Datatypes.S fuel' =>
      match fz n with
      | BErr _ => true
      | BOk F _ =>
          let srcs := 0%nat :: fdeps F in
          let logged := filter (fun i => negb (smem i silent)) srcs in
          let '(rs, rest) := split_reads tr in
          reads_ok S n logged rs &&
          if forallb (fun i => match S i n with Some _ => true | None => false end) srcs
          then (* everything delivers: each source exactly once, then output n *)
            match rest with
            | EvYield y :: rest' =>
                let x := snapshot S n 0 in
                subset logged (map fst rs) &&
                match equation F x xh yh zero y with
                | Some ok => ok && trace_ok S fz zero silent fuel' (Datatypes.S n) (x :: xh) (y :: yh) rest'
                | None => true                   (* a zero or undefined gain: no claim *)
                end
            | [EvRaise XZeroDiv] => silent_at S n F     (* division by a zero gain: no claim *)
            | _ => false
            end
          else (* the input or a coefficient source has ended: a clean stop *)
            match rest with
            | [EvStop] =>
                (ends_with_none rs ||
                 (* a silent source ended: its StopIteration is not an event *)
                 (existsb (fun i => smem i silent && match S i n with None => true | Some _ => false end) srcs
                  && all_some rs)) &&
                (* the input ended: no coefficient source is read for an output that does not come *)
                match S 0%nat n with
                | None => match rs with [_] => true | _ => false end
                | Some _ => true
                end
            | [EvRaise XZeroDiv] => silent_at S n F
            | _ => false
            end
      end
  end.

(* the whole observation of  list(islice(expr(seq, memory, zero), limit))  *)
Definition spec_run (S : sources) (e : fexp) (mem : memarg) (zero : Qc) (silent : list nat) (limit : nat)
                    (tr : list event) : bool :=
  match frozen_at S e 0 with
  | BErr _ => true
  | BOk F _ =>
      noncausal F || match a0_of F with Some a0 => is_nil (sc_deps (t_getitem frozen_alg (t_den F) 0)) && Qc_eqb a0 0 | None => false end ||
      trace_ok S (frozen_at S e) zero silent limit 0 [] (normalise_memory (tdense_len (t_den F) - 1) zero mem) tr
  end.

(* a call that starts when every source has already delivered n items (an earlier call of
   the same filter object consumed them): the same demands, from the instant n on *)
(* fz n: the filter frozen at the instant n (frozen_at S e for an expression e; for a power
   or an operator with the same filter object on both sides, the frozen arithmetic on it) *)
Definition spec_run_fz (S : sources) (fz : nat -> bres (@gfilt scoef)) (mem : memarg) (zero : Qc)
                       (silent : list nat) (limit n : nat) (tr : list event) : bool :=
  match fz n with
  | BErr _ => true
  | BOk F _ =>
      noncausal F || match a0_of F with Some a0 => is_nil (sc_deps (t_getitem frozen_alg (t_den F) 0)) && Qc_eqb a0 0 | None => false end ||
      trace_ok S fz zero silent limit n [] (normalise_memory (tdense_len (t_den F) - 1) zero mem) tr
  end.
Definition spec_run_at (S : sources) (e : fexp) (mem : memarg) (zero : Qc) (silent : list nat) (limit n : nat)
                       (tr : list event) : bool := spec_run_fz S (frozen_at S e) mem zero silent limit n tr.

(* the shape of a filter: its powers and which coefficients are Streams *)
Definition shape_of (d : list (Z * scoef)) : list (Z * bool) :=
  map (fun kv => (fst kv, negb (is_nil (sc_deps (snd kv))))) d.
Definition zb_eqb (a b : Z * bool) : bool := Z.eqb (fst a) (fst b) && Bool.eqb (snd a) (snd b).
Definition same_shape (a b : list (Z * bool)) : bool :=
  forallb (fun x => existsb (zb_eqb x) b) a && forallb (fun x => existsb (zb_eqb x) a) b.
