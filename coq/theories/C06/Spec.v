(* C06 - what the property promises (definitions only). *)
From Coq Require Import List Bool Arith ZArith QArith Qcanon.
From AL Require Import Base.CaseLib C04.Model C06.Model.
Import ListNotations.
Open Scope Qc_scope.
