(* C06 - Part 6: the variable-gain branch of __call__ on a linear world; the final
   theorems for every expression. *)
From Coq Require Import List Bool Arith ZArith QArith Qcanon Lia Permutation.
From AL Require Import Base.CaseLib C04.Model C04.Spec C04.Lib C06.Model C06.Spec.
From AL Require Import C06.ProofsPull C06.ProofsLoop C06.ProofsWf C06.ProofsEq C06.ProofsGain C06.ProofsKeys C06.ProofsUniq.
From AL Require Import C06.ProofsLin C06.ProofsLin2 C06.ProofsLin3 C06.ProofsLin4.
From AL Require Import C06.ProofsWorld C06.ProofsWorld2 C06.ProofsWorld3 C06.ProofsWorld4 C06.ProofsWorld5.
Import ListNotations.
Open Scope Qc_scope.

(* den[0] = 1: the entries of power 0 are replaced by a number, or the number is appended *)
Lemma dset_num_sub (d : tdata) : exists rest, Permutation (dtops (d_set d 0 (CNum 1)) ++ rest) (dtops d).
Proof.
  unfold d_set. destruct (d_has d 0).
  - exists (dtops (filter (fun kv => (fst kv =? 0)%Z) d)).
    induction d as [|x r IH]; [reflexivity|]. simpl. destruct (fst x =? 0)%Z; simpl.
    + rewrite <- IH. perm_solve.
    + rewrite <- app_assoc. apply Permutation_app_head. exact IH.
  - exists []. rewrite app_nil_r, dtops_app. simpl. rewrite app_nil_r. reflexivity.
Qed.
Lemma dset_num_okx HT (d : tdata) : dokx HT d -> dokx HT (d_set d 0 (CNum 1)).
Proof.
  intro H. unfold d_set. destruct (d_has d 0); intros kv Hin.
  - apply in_map_iff in Hin. destruct Hin as [x [<- Hx]]. destruct (fst x =? 0)%Z; [exact I|exact (H x Hx)].
  - apply in_app_or in Hin. destruct Hin as [Hin|[<-|[]]]; [exact (H kv Hin)|exact I].
Qed.

Lemma prepare_world HT h (f : tfilt) X f' h' :
  FW HT h f X -> NoDup (map fst (t_den f)) -> prepare h f = Ok (BOk f' h') ->
  exists HT', incl HT HT' /\ FW HT' h' f' X.
Proof.
  intros (On & Od & Hw) Nd Hp. unfold prepare in Hp. destruct (t_any_negative f); [discriminate|].
  unfold t_getitem in Hp. destruct (d_get (t_den f) 0) as [c|] eqn:Eg.
  2:{ simpl in Hp. injection Hp as <- <-. exists HT. split; [apply incl_refl|]. split; [exact On|split; [exact Od|exact Hw]]. }
  destruct c as [q|e0].
  { injection Hp as <- <-. exists HT. split; [apply incl_refl|]. split; [exact On|split; [exact Od|exact Hw]]. }
  injection Hp as Hp.
  pose proof (d_get_some_in _ _ _ Eg) as Hin0.
  set (inv := XCS ODiv 1 e0) in *.
  set (den1 := d_del (t_den f) 0).
  assert (Permutation (dtops (t_den f)) (tops e0 ++ dtops den1)) as Pd.
  { rewrite (split_partner (t_den f) 0 Nd). unfold partner. rewrite Eg. reflexivity. }
  assert (okx HT e0) as Oe0 by exact (Od _ Hin0).
  assert (Wl HT h (tops e0 ++ (dtops (t_num f) ++ dtops den1 ++ X))) as W0.
  { apply (Wl_perm _ _ _ _ Hw). rewrite Pd. rewrite <- app_assoc. apply Permutation_app_swap_app. }
  set (HT1 := HT ++ [(h, (2%nat, inv))]).
  assert (Wl HT1 (S h) (([LCopy h 0] ++ [LCopy h 1]) ++ (dtops (t_num f) ++ dtops den1 ++ X))) as W1.
  { apply (Wl_newhubs HT h (S h) (tops e0) _ [(h, (2%nat, inv))] ([LCopy h 0] ++ [LCopy h 1]) W0); try lia.
    - repeat constructor. intros [].
    - intros x [<-|[]]. simpl. lia.
    - intros h0 n0 p0 [E|[]]. injection E as _ _ <-. exact Oe0.
    - simpl. apply app_nil_r.
    - repeat constructor; simpl; intuition discriminate.
    - intros l [<-|[<-|[]]]; eexists; eexists; (split; [reflexivity|lia]). }
  assert (incl HT HT1) as I1 by (apply incl_appl, incl_refl).
  assert (forall c, (c < 2)%nat -> cokx HT1 (CStr (XTee h 2 c inv))) as Oinv.
  { intros c Hc. simpl. split; [apply in_or_app; right; left; reflexivity|]. split; [exact Hc|].
    apply (okx_mono HT _ _ I1). exact Oe0. }
  assert (dokx HT1 den1) as Od1.
  { apply (dokx_mono HT _ _ I1). intros kv Hkv. apply Od. unfold den1, d_del in Hkv. apply filter_In in Hkv. tauto. }
  unfold divide_through in Hp. fold den1 in Hp.
  set (ic := CStr (XTee h 2 1 inv)) in *. set (io := CStr (XTee h 2 0 inv)) in *.
  assert (Wl HT1 (S h) (dtops den1 ++ dtops (poly_of_scalar coef_alg ic) ++ ([LCopy h 0] ++ dtops (t_num f) ++ X))) as W1'.
  { rewrite scalar_tops. change (ctops ic) with [LCopy h 1]. apply (Wl_perm _ _ _ _ W1). perm_solve. }
  destruct (pmul_world HT1 (S h) den1 _ _ W1' Od1 (scalar_okx HT1 ic (Oinv 1%nat ltac:(lia)))) as (HT2 & I2 & Od2 & W2).
  destruct (pmul coef_alg (S h) den1 (poly_of_scalar coef_alg ic)) as [den2 h1]. cbn [fst snd] in *.
  assert (t_setitem coef_alg den2 0 (ca_num coef_alg 1) = d_set den2 0 (CNum 1)) as Es by reflexivity.
  rewrite Es in Hp. set (den3 := d_set den2 0 (CNum 1)) in *.
  destruct (dset_num_sub den2) as [rest Prest]. fold den3 in Prest.
  assert (Wl HT2 h1 (dtops (t_num f) ++ dtops (poly_of_scalar coef_alg io) ++ (dtops den3 ++ X))) as W2'.
  { rewrite scalar_tops. change (ctops io) with [LCopy h 0]. apply (Wl_sub _ _ _ _ rest W2). rewrite <- Prest. perm_solve. }
  assert (incl HT HT2) as I02 by (intros x Hx; apply I2, I1; exact Hx).
  destruct (pmul_world HT2 h1 (t_num f) _ _ W2' (dokx_mono _ _ _ I02 On)
              (scalar_okx HT2 io (cokx_mono HT1 HT2 _ I2 (Oinv 0%nat ltac:(lia))))) as (HT3 & I3 & On2 & W3).
  destruct (pmul coef_alg h1 (t_num f) (poly_of_scalar coef_alg io)) as [num2 h2]. cbn [fst snd] in *.
  destruct (mk_world HT3 h2 num2 den3 X f' h' W3 On2 (dokx_mono _ _ _ I3 (dset_num_okx HT2 den2 Od2)) Hp) as (HT4 & I4 & HF).
  exists HT4. split; [intros x Hx; apply I4, I3, I02; exact Hx|exact HF].
Qed.

(* ------------------------------------------------------ the final theorems *)
Lemma prepared_keys_ok h (f : tfilt) f' h' : keys_ok (t_num f) -> keys_ok (t_den f) ->
  prepare h f = Ok (BOk f' h') -> keys_ok (t_num f') /\ keys_ok (t_den f').
Proof.
  intros Kn Kd Hp. destruct (d_get (t_den f) 0) as [c|] eqn:Eg.
  - pose proof (d_get_some_in _ _ _ Eg) as Hin. destruct c as [q|e0].
    + unfold prepare in Hp. rewrite (any_negative_ok f Kn Kd) in Hp. unfold t_getitem in Hp.
      rewrite Eg in Hp. injection Hp as <- _. split; assumption.
    + destruct (prepare_stream h f e0 Kn Kd Hin) as (f2 & h2 & Hp2 & Kn2 & Kd2 & _).
      rewrite Hp in Hp2. injection Hp2 as <- _. split; assumption.
  - unfold prepare in Hp. rewrite (any_negative_ok f Kn Kd) in Hp. unfold t_getitem in Hp.
    rewrite Eg in Hp. simpl in Hp. injection Hp as <- _. split; assumption.
Qed.

(* the expressions of the property: sums, differences, products, negations, scalings and
   offsets by numbers and Streams from both sides, divisions by a number or Stream, over
   filters whose coefficients are constants or Streams; every Stream is a distinct source
   and none is the input *)
Definition good_expr (e : fexp) : Prop :=
  fexp_simple e /\ bases_ok e /\ NoDup (esrcs e) /\ ~ In (LSrc 0) (esrcs e).

(* the filter handed to the code generator is a linear family, number or Stream gain *)
Theorem built_linf e f h f' h' : good_expr e ->
  build coef_alg e 0 = BOk f h -> prepare h f = Ok (BOk f' h') ->
  (exists HT, linf HT f') /\ keys_ok (t_num f) /\ keys_ok (t_den f) /\ keys_ok (t_num f') /\ keys_ok (t_den f').
Proof.
  intros (Hs & Hbo & Hnd & H0) Hb Hp.
  destruct (build_world e Hs Hbo [] 0 [] f h (world0 e Hs Hnd H0) Hb) as (HT & _ & HF).
  destruct (build_nodup coef_alg e 0 f h Hbo Hb) as [_ Nd].
  destruct (prepare_world HT h f [] f' h' HF Nd Hp) as (HT' & _ & HF').
  destruct (built_keys_ok e 0 f h (BOk f' h') Hbo Hb Hp) as [Kn Kd].
  destruct (prepared_keys_ok h f f' h' Kn Kd Hp) as [Kn' Kd'].
  split; [exists HT'; exact (FW_linf HT' h' f' HF')|]. exact (conj Kn (conj Kd (conj Kn' Kd'))).
Qed.

Section Final.
  Variables (S : sources) (e : fexp) (f f' : tfilt) (h h' : nat) (zero : Qc) (p : tprog).
  Hypothesis Hgood : good_expr e.
  Hypothesis Hbuild : build coef_alg e 0 = BOk f h.
  Hypothesis Hprep : prepare h f = Ok (BOk f' h').
  Hypothesis Hcode : tcodegen f' zero = Ok (TGen p).

  Theorem all_round_spec memory fuel :
    round_spec S (stream_iters (t_num f')) (stream_iters (t_den f')) p fuel 0
               (unpack (p_mvars (tp_prog p)) memory empty_env)
               (assign_all (p_dvars (tp_prog p)) zero empty_env)
               (run_tv S (TGen p) f' memory zero fuel).
  Proof.
    destruct (built_linf e f h f' h' Hgood Hbuild Hprep) as ([HT Hl] & _ & _ & Kn' & Kd').
    exact (lin_round_spec S f' zero p memory fuel HT Kn' Kd' Hl Hcode).
  Qed.

  Theorem all_read_once memory fuel :
    Forall (fun seg => seg = 0%nat :: snd (aterms (stream_iters (t_num f')) (stream_iters (t_den f'))
                                                 (p_terms (tp_prog p)) p_zero))
           (segs (run_tv S (TGen p) f' memory zero fuel) []).
  Proof. exact (round_spec_once S _ _ p fuel 0 _ _ _ (all_round_spec memory fuel)). Qed.

  Theorem all_ends memory fuel :
    let bs := stream_iters (t_num f') in
    let az := stream_iters (t_den f') in
    let ts := p_terms (tp_prog p) in
    let rd := snd (aterms bs az ts p_zero) in
    (forall n m d, forallb (alive S n) rd = true -> tsum (snapshot S n) bs az ts m d 0 <> None) ->
    (forall n m d, exists V, compat S n V /\ tsum V bs az ts m d 0 <> None) ->
    let tr := run_tv S (TGen p) f' memory zero fuel in
    count_yields tr = live_len S (0%nat :: rd) fuel 0 /\
    ((live_len S (0%nat :: rd) fuel 0 < fuel)%nat -> exists pre, tr = pre ++ [EvStop]).
  Proof.
    intros bs az ts rd Hd1 Hd2 tr.
    exact (round_spec_ends S bs az p Hd1 Hd2 fuel 0 _ _ tr (all_round_spec memory fuel)).
  Qed.

  Theorem all_diffeq mem fuel :
    let lm := t_mem_size f' in
    let ys := yields (run_tv S (TGen p) f' (normalise_memory lm zero mem) zero fuel) in
    let X := xrel S 0 (fun _ => zero) in
    let Y := ysig (past lm zero mem) ys in
    forall j, (j < length ys)%nat ->
    forall a0, gain_at (snapshot S j) f = Some a0 -> a0 <> 0 ->
      a0 * Y (Z.of_nat j)
      = psum (vtab (snapshot S j) (t_num f)) (fun k => X (Z.of_nat j - k)%Z)
        - psum (feedback (vtab (snapshot S j) (t_den f))) (fun k => Y (Z.of_nat j - k)%Z).
  Proof.
    destruct (built_linf e f h f' h' Hgood Hbuild Hprep) as (_ & Kn & Kd & _ & _).
    apply (tv_diffeq_full_r S f h zero mem fuel f' h' p Kn Kd Hprep Hcode).
    intro memory. exact (all_round_spec memory fuel).
  Qed.
End Final.

(* tv_const_stream for the expressions of the property, nothing evaluated on samples *)
Theorem outputs_agree_built S e1 e2 (f1 f2 : tfilt) h1 h2 zero mem fuel f1' f2' h1' h2' p1 p2 :
  good_expr e1 -> build coef_alg e1 0 = BOk f1 h1 -> prepare h1 f1 = Ok (BOk f1' h1') -> tcodegen f1' zero = Ok (TGen p1) ->
  good_expr e2 -> build coef_alg e2 0 = BOk f2 h2 -> prepare h2 f2 = Ok (BOk f2' h2') -> tcodegen f2' zero = Ok (TGen p2) ->
  map fst (t_den f1) = map fst (t_den f2) ->
  (forall j, vtab (snapshot S j) (t_num f1) = vtab (snapshot S j) (t_num f2)) ->
  (forall j, vtab (snapshot S j) (t_den f1) = vtab (snapshot S j) (t_den f2)) ->
  let ys1 := yields (run_tv S (TGen p1) f1' (normalise_memory (t_mem_size f1') zero mem) zero fuel) in
  let ys2 := yields (run_tv S (TGen p2) f2' (normalise_memory (t_mem_size f2') zero mem) zero fuel) in
  (forall j, (j < length ys1)%nat -> (j < length ys2)%nat ->
     exists a0, gain_at (snapshot S j) f1 = Some a0 /\ gain_at (snapshot S j) f2 = Some a0 /\ a0 <> 0) ->
  forall j, (j < length ys1)%nat -> (j < length ys2)%nat -> nth j ys1 0 = nth j ys2 0.
Proof.
  intros G1 B1 P1 C1 G2 B2 P2 C2 Ek Tn Td ys1 ys2 Hg.
  destruct (built_linf e1 f1 h1 f1' h1' G1 B1 P1) as (_ & Kn1 & Kd1 & _ & _).
  destruct (built_linf e2 f2 h2 f2' h2' G2 B2 P2) as (_ & Kn2 & Kd2 & _ & _).
  assert (t_mem_size f1' = t_mem_size f2') as Em.
  { rewrite (C06.ProofsUniq.prepare_mem_size h1 f1 f1' h1' Kn1 Kd1 P1), (C06.ProofsUniq.prepare_mem_size h2 f2 f2' h2' Kn2 Kd2 P2).
    apply C06.ProofsUniq.mem_size_keys; assumption. }
  apply (C06.ProofsUniq.outputs_agree S f1 f2 ys1 ys2 (past (t_mem_size f1') zero mem) (xrel S 0 (fun _ => zero)) Kd2).
  - exact (all_diffeq S e1 f1 f1' h1 h1' zero p1 G1 B1 P1 C1 mem fuel).
  - unfold ys2. rewrite Em. exact (all_diffeq S e2 f2 f2' h2 h2' zero p2 G2 B2 P2 C2 mem fuel).
  - intros j F. rewrite Tn. reflexivity.
  - intros j F. rewrite Td. reflexivity.
  - exact Hg.
Qed.
