(* C06 - model of LinearFilter.__call__ / ZFilter algebra / Poly algebra when
   coefficients are Stream objects (time-varying filters).
   Layers:
     cx        : the dataflow expression a coefficient Stream object stands for
                 (sources, element-wise maps, itertools.tee copies);
     pull      : one next() on such an object, with the tee buffers as state and
                 the reads of the sources as events;
     Poly / ZFilter algebra over coefficients that are numbers or cx, allocating
                 tee hubs exactly where the code calls thub / copy;
     tcodegen  : the string builder of __call__ (AST of the generated text);
     run_tv    : the generated generator function as a machine producing the
                 event trace  EvRead src v / EvYield y / EvStop / EvRaise.
   No proofs in this file. *)
From Coq Require Import List Bool Arith ZArith QArith Qcanon.
From AL Require Import Base.CaseLib C04.Model.
Import ListNotations.
Open Scope Qc_scope.

(* ------------------------------------------------------------ Stream objects *)
Inductive binop := OAdd | OMul | ODiv.

(* What a Stream object computes, as a tree.  XTee h n c p is copy c of the n
   iterators made by itertools.tee (hub number h) over the iterator p: all the
   copies of one hub share one state (the buffers), found through h. *)
Inductive cx :=
| XSrc (i : nat)                              (* the user's Stream number i           *)
| XTee (h n c : nat) (p : cx)                 (* thub(p, n) popped / p.copy()          *)
| XSS (o : binop) (l r : cx)                  (* Stream op Stream: map(op, l, r)       *)
| XSC (o : binop) (l : cx) (q : Qc)           (* Stream op number                      *)
| XCS (o : binop) (q : Qc) (r : cx)           (* number op Stream (reflected dunder)   *)
| XNeg (e : cx).                              (* -Stream                               *)

(* a coefficient: a number or a Stream *)
Inductive coef := CNum (q : Qc) | CStr (e : cx).

Definition is_stream (c : coef) : bool := match c with CStr _ => true | CNum _ => false end.

(* a op b for coefficients, as the operator dispatch does it.  number / 0 raises
   at once (None); with a Stream operand the division happens lazily. *)
Definition cbin (o : binop) (a b : coef) : option coef :=
  match a, b with
  | CNum x, CNum y =>
      match o with
      | OAdd => Some (CNum (x + y))
      | OMul => Some (CNum (x * y))
      | ODiv => if Qc_eqb y 0 then None else Some (CNum (x / y))
      end
  | CStr l, CStr r => Some (CStr (XSS o l r))
  | CStr l, CNum y => Some (CStr (XSC o l y))
  | CNum x, CStr r => Some (CStr (XCS o x r))
  end.

Definition cneg (a : coef) : coef :=
  match a with CNum x => CNum (- x) | CStr e => CStr (XNeg e) end.

(* thub(v, n) followed by taking copy number c: numbers are returned as they are *)
Definition hub_copy (h n c : nat) (v : coef) : coef :=
  match v with CNum _ => v | CStr e => CStr (XTee h n c e) end.

(* --------------------------------------------------- state of the iterators *)
(* spos i : how many items source i has delivered; hq h c : the buffer of copy c
   of tee hub h (items the other copies have pulled and this one has not). *)
Record st := St { spos : nat -> nat; hq : nat -> nat -> list Qc }.
Definition st0 : st := St (fun _ => 0%nat) (fun _ _ => []).

Definition set_pos (s : st) (i p : nat) : st :=
  St (fun j => if Nat.eqb j i then p else spos s j) (hq s).
Definition set_q (s : st) (h c : nat) (l : list Qc) : st :=
  St (spos s) (fun h' c' => if Nat.eqb h' h && Nat.eqb c' c then l else hq s h' c').
(* tee: the item pulled by copy c is appended to the buffer of every other copy *)
Definition push_others (s : st) (h n c : nat) (v : Qc) : st :=
  St (spos s) (fun h' c' => if Nat.eqb h' h && negb (Nat.eqb c' c) && Nat.ltb c' n
                            then hq s h' c' ++ [v] else hq s h' c').

(* the sources: item number p of source i, None = exhausted.  Source 0 is the
   filter input. *)
Definition sources := nat -> nat -> option Qc.

Inductive exnk := XZeroDiv | XRuntime | XOther.   (* XOther: never produced by the model *)
Inductive event :=
| EvRead (src : nat) (v : option Qc)          (* next() on a source (None: StopIteration) *)
| EvYield (y : Qc)
| EvStop                                      (* the generator returned *)
| EvRaise (e : exnk).

(* result of one next() *)
Inductive pres := PVal (v : Qc) | PEnd | PErr.

Definition apply_op (o : binop) (a b : Qc) : pres :=
  match o with
  | OAdd => PVal (a + b)
  | OMul => PVal (a * b)
  | ODiv => if Qc_eqb b 0 then PErr else PVal (a / b)
  end.

Definition read_src (S : sources) (i : nat) (s : st) : pres * st * list event :=
  match S i (spos s i) with
  | Some v => (PVal v, set_pos s i (Datatypes.S (spos s i)), [EvRead i (Some v)])
  | None => (PEnd, s, [EvRead i None])
  end.

Fixpoint pull (S : sources) (e : cx) (s : st) : pres * st * list event :=
  match e with
  | XSrc i => read_src S i s
  | XTee h n c p =>
      match hq s h c with
      | v :: rest => (PVal v, set_q s h c rest, [])
      | [] =>
          match pull S p s with
          | (PVal v, s', tr) => (PVal v, push_others s' h n c v, tr)
          | other => other
          end
      end
  | XSS o l r =>
      match pull S l s with
      | (PVal a, s1, t1) =>
          match pull S r s1 with
          | (PVal b, s2, t2) => (apply_op o a b, s2, t1 ++ t2)
          | (x, s2, t2) => (x, s2, t1 ++ t2)
          end
      | other => other
      end
  | XSC o l q =>
      match pull S l s with
      | (PVal a, s1, t1) => (apply_op o a q, s1, t1)
      | other => other
      end
  | XCS o q r =>
      match pull S r s with
      | (PVal b, s1, t1) => (apply_op o q b, s1, t1)
      | other => other
      end
  | XNeg e1 =>
      match pull S e1 s with
      | (PVal a, s1, t1) => (PVal (- a), s1, t1)
      | other => other
      end
  end.

(* ------------------------------------------------------------------- Poly *)
(* The Poly / ZFilter algebra is written once, over an abstract coefficient
   type with the operations the code applies to coefficients.  Instance coef_alg
   (below): numbers and Stream objects, with the tee hubs.  The Spec instantiates
   the same algebra at plain numbers (a coefficient frozen at one instant). *)
Record calg (C : Type) := CAlg {
  ca_add : C -> C -> C;                 (* a + b                                      *)
  ca_mul : C -> C -> C;                 (* a * b                                      *)
  ca_neg : C -> C;                      (* -a                                         *)
  ca_recip : C -> option C;             (* operator.truediv(1, a); None: raises       *)
  ca_zero_num : C -> bool;              (* not a Stream and == 0                      *)
  ca_equal : C -> C -> bool;            (* Poly.__eq__'s is_pair_equal                *)
  ca_hub : nat -> nat -> nat -> C -> C; (* thub(a, n) (hub number h), copy c taken    *)
  ca_num : Qc -> C                      (* a literal number                           *)
}.
Arguments ca_add {C}. Arguments ca_mul {C}. Arguments ca_neg {C}. Arguments ca_recip {C}.
Arguments ca_zero_num {C}. Arguments ca_equal {C}. Arguments ca_hub {C}. Arguments ca_num {C}.

Fixpoint enum_from {A} (i : nat) (l : list A) : list (nat * A) :=
  match l with [] => [] | x :: r => (i, x) :: enum_from (Datatypes.S i) r end.

(* generic versions of C04's terms / dense_len / min_power *)
Fixpoint tinsert {A} (kv : Z * A) (l : list (Z * A)) : list (Z * A) :=
  match l with
  | [] => [kv]
  | x :: t => if (fst kv <=? fst x)%Z then kv :: l else x :: tinsert kv t
  end.
Definition tterms {A} (d : list (Z * A)) : list (Z * A) := fold_right tinsert [] d.
Definition tmin_power {A} (d : list (Z * A)) : option Z :=
  match d with [] => None | kv :: r => Some (fold_left (fun m kv' => Z.min m (fst kv')) r (fst kv)) end.
Definition tdense_len {A} (d : list (Z * A)) : nat :=
  match d with [] => 0%nat
  | kv :: r => Datatypes.S (Z.to_nat (fold_left (fun m kv' => Z.max m (fst kv')) r (fst kv))) end.

Inductive berr := BZeroDiv | BEmptyDen.
Inductive bres (A : Type) := BOk (a : A) (h : nat) | BErr (e : berr).
Arguments BOk {A}. Arguments BErr {A}.
Definition bbind {A B} (r : bres A) (k : A -> nat -> bres B) : bres B :=
  match r with BOk a h => k a h | BErr e => BErr e end.

Section Algebra.
  Context {C : Type}.
  Variable A : calg C.

  (* Poly._data: (power, coefficient) items in insertion order, keys distinct *)
  Definition gdata := list (Z * C).

  (* Poly.__init__ "Compact zeros": a Stream is never deleted *)
  Definition tcompact (d : gdata) : gdata := filter (fun kv => negb (ca_zero_num A (snd kv))) d.

  Definition d_has (d : gdata) (k : Z) : bool := existsb (fun kv => (fst kv =? k)%Z) d.
  Definition d_get (d : gdata) (k : Z) : option C :=
    match find (fun kv => (fst kv =? k)%Z) d with Some kv => Some (snd kv) | None => None end.
  (* Poly.__getitem__: the stored value or the Poly's zero *)
  Definition t_getitem (d : gdata) (k : Z) : C :=
    match d_get d k with Some c => c | None => ca_num A 0 end.
  (* dict[k] = v : a present key keeps its place *)
  Definition d_set (d : gdata) (k : Z) (v : C) : gdata :=
    if d_has d k then map (fun kv => if (fst kv =? k)%Z then (k, v) else kv) d else d ++ [(k, v)].
  Definition d_del (d : gdata) (k : Z) : gdata := filter (fun kv => negb (fst kv =? k)%Z) d.
  (* Poly.__setitem__ *)
  Definition t_setitem (d : gdata) (k : Z) (v : C) : gdata :=
    if ca_zero_num A v then d_del d k else d_set d k v.

  (* Poly(list) / Poly(scalar) *)
  Fixpoint tenumerate (i : Z) (l : list C) : gdata :=
    match l with [] => [] | c :: r => (i, c) :: tenumerate (i + 1) r end.
  Definition poly_of_scalar (c : C) : gdata := tcompact [(0%Z, c)].

  (* Poly.__add__: OrderedDict(chain(self, other, intersect)) then Poly(...) *)
  Definition padd (a b : gdata) : gdata :=
    tcompact (map (fun kv => match d_get b (fst kv) with
                             | Some w => (fst kv, ca_add A (snd kv) w)
                             | None => kv end) a
              ++ filter (fun kv => negb (d_has a (fst kv))) b).

  (* unary minus of a Poly *)
  Definition pneg (a : gdata) : gdata := tcompact (map (fun kv => (fst kv, ca_neg A (snd kv))) a).

  (* new_data[k] += v  /  new_data[k] = v *)
  Definition d_acc (d : gdata) (k : Z) (v : C) : gdata :=
    match d_get d k with
    | Some old => d_set d k (ca_add A old v)
    | None => d ++ [(k, v)]
    end.

  (* Poly.__mul__.  Hub numbers: item i of self gets hub h+i (len(other) copies),
     item j of other gets hub h+len(self)+j (len(self) copies); the product of
     item i and item j uses copy j of the first and copy i of the second. *)
  Definition pmul_items (h : nat) (a b : gdata) : list (Z * C) :=
    let na := length a in let nb := length b in
    flat_map (fun ia =>
      map (fun jb =>
        ((fst (snd ia) + fst (snd jb))%Z,
         ca_mul A (ca_hub A (h + fst ia) nb (fst jb) (snd (snd ia)))
                  (ca_hub A (h + na + fst jb) na (fst ia) (snd (snd jb)))))
        (enum_from 0 b)) (enum_from 0 a).

  Definition pmul (h : nat) (a b : gdata) : gdata * nat :=
    (tcompact (fold_left (fun acc kv => d_acc acc (fst kv) (snd kv)) (pmul_items h a b) []),
     (h + length a + length b)%nat).

  (* Poly.copy(): every Stream value v becomes v.copy(); v itself now reads copy
     0 of the tee, the new Poly holds copy 1.  (self afterwards, the copy, next hub) *)
  Definition pcopy (h : nat) (a : gdata) : gdata * gdata * nat :=
    (map (fun ikv => (fst (snd ikv), ca_hub A (h + fst ikv) 2 0 (snd (snd ikv)))) (enum_from 0 a),
     map (fun ikv => (fst (snd ikv), ca_hub A (h + fst ikv) 2 1 (snd (snd ikv)))) (enum_from 0 a),
     (h + length a)%nat).

  Definition peq (a b : gdata) : bool :=
    Nat.eqb (length a) (length b) &&
    forallb (fun kv => match d_get b (fst kv) with Some w => ca_equal A (snd kv) w | None => false end) a.

  (* ---------------------------------------------------------------- ZFilter *)
  Record gfilt := TF { t_num : gdata; t_den : gdata }.

  (* LinearFilter.__init__(Poly, Poly): Poly(poly) compacts again; a lowest
     denominator power p <> 0 multiplies both by Poly({-p: 1}) *)
  Definition mk_tfilt (h : nat) (num den : gdata) : bres gfilt :=
    let n := tcompact num in let d := tcompact den in
    match tmin_power d with
    | None => BErr BEmptyDen
    | Some p =>
        if (p =? 0)%Z then BOk (TF n d) h
        else let delta := [((- p)%Z, ca_num A 1)] in
             let n' := pmul h n delta in
             let d' := pmul (snd n') d delta in
             BOk (TF (fst n') (fst d')) (snd d')
    end.

  (* ZFilter([c]) *)
  Definition zf_scalar (h : nat) (c : C) : bres gfilt :=
    mk_tfilt h (tcompact (tenumerate 0 [c])) [(0%Z, ca_num A 1)].

  Definition fadd (h : nat) (f g : gfilt) : bres gfilt :=
    if peq (t_den f) (t_den g) then mk_tfilt h (padd (t_num f) (t_num g)) (t_den f)
    else
      let '(gd, gdc, h1) := pcopy h (t_den g) in
      let '(p1, h2) := pmul h1 (t_num f) gdc in
      let '(fd, fdc, h3) := pcopy h2 (t_den f) in
      let '(p2, h4) := pmul h3 (t_num g) fdc in
      let '(dd, h5) := pmul h4 fd gd in
      mk_tfilt h5 (padd p1 p2) dd.

  Definition fneg (h : nat) (f : gfilt) : bres gfilt := mk_tfilt h (pneg (t_num f)) (t_den f).

  Definition fmul (h : nat) (f g : gfilt) : bres gfilt :=
    let '(n, h1) := pmul h (t_num f) (t_num g) in
    let '(d, h2) := pmul h1 (t_den f) (t_den g) in
    mk_tfilt h2 n d.

  (* filter * non-filter *)
  Definition fmul_scalar (h : nat) (f : gfilt) (c : C) : bres gfilt :=
    let '(n, h1) := pmul h (t_num f) (poly_of_scalar c) in
    mk_tfilt h1 n (t_den f).

  (* expressions over filters, as the harness writes them in Python *)
  Inductive gfexp :=
  | FBase (num den : gdata)              (* ZFilter(OrderedDict(num), OrderedDict(den)) *)
  | FAdd (a b : gfexp) | FSub (a b : gfexp) | FMul (a b : gfexp) | FNeg (a : gfexp)
  | FMulR (a : gfexp) (c : C)            (* a * c *)
  | FMulL (c : C) (a : gfexp)            (* c * a *)
  | FAddR (a : gfexp) (c : C)            (* a + c *)
  | FAddL (c : C) (a : gfexp)            (* c + a *)
  | FDivR (a : gfexp) (c : C).           (* a / c *)

  Fixpoint build (e : gfexp) (h : nat) : bres gfilt :=
    match e with
    | FBase n d => mk_tfilt h n d
    | FAdd a b => bbind (build a h) (fun f h1 => bbind (build b h1) (fun g h2 => fadd h2 f g))
    | FSub a b => bbind (build a h) (fun f h1 => bbind (build b h1) (fun g h2 =>
                    bbind (fneg h2 g) (fun g' h3 => fadd h3 f g')))
    | FMul a b => bbind (build a h) (fun f h1 => bbind (build b h1) (fun g h2 => fmul h2 f g))
    | FNeg a => bbind (build a h) (fun f h1 => fneg h1 f)
    | FMulR a c => bbind (build a h) (fun f h1 => fmul_scalar h1 f c)
    | FMulL c a => bbind (build a h) (fun f h1 => bbind (zf_scalar h1 c) (fun g h2 => fmul h2 g f))
    | FAddR a c => bbind (build a h) (fun f h1 => bbind (zf_scalar h1 c) (fun g h2 => fadd h2 f g))
    | FAddL c a => bbind (build a h) (fun f h1 => bbind (zf_scalar h1 c) (fun g h2 => fadd h2 g f))
    | FDivR a c => bbind (build a h) (fun f h1 =>
                    match ca_recip A c with
                    | None => BErr BZeroDiv
                    | Some r => fmul_scalar h1 f r
                    end)
    end.

  (* "if isinstance(self.denpoly[0], Stream)": divide through by the gain stream.
     inv_orig / inv_copy: the two halves of inv_gain.copy(), inv_gain = 1 / den[0] *)
  Definition divide_through (h : nat) (f : gfilt) (inv_orig inv_copy : C) : bres gfilt :=
    let den1 := d_del (t_den f) 0 in                              (* den[0] = 0            *)
    let '(den2, h1) := pmul h den1 (poly_of_scalar inv_copy) in   (* den *= inv_gain.copy()*)
    let den3 := t_setitem den2 0 (ca_num A 1) in                  (* den[0] = 1            *)
    let '(num2, h2) := pmul h1 (t_num f) (poly_of_scalar inv_orig) in
    mk_tfilt h2 num2 den3.
End Algebra.
Arguments TF {C}. Arguments t_num {C}. Arguments t_den {C}.
Arguments FBase {C}. Arguments FAdd {C}. Arguments FSub {C}. Arguments FMul {C}. Arguments FNeg {C}.
Arguments FMulR {C}. Arguments FMulL {C}. Arguments FAddR {C}. Arguments FAddL {C}. Arguments FDivR {C}.

(* ------------------------------------- the instance: numbers and Stream objects *)
Definition cadd (a b : coef) : coef :=
  match cbin OAdd a b with Some c => c | None => CNum 0 end.
Definition cmul (a b : coef) : coef :=
  match cbin OMul a b with Some c => c | None => CNum 0 end.
Definition is_zero_num (c : coef) : bool := match c with CNum q => Qc_eqb q 0 | CStr _ => false end.
(* Poly.__eq__: two Stream objects are compared with "is"; the operands of an
   operator are distinct objects here, so a Stream item is never equal *)
Definition pair_equal (a b : coef) : bool :=
  match a, b with CNum x, CNum y => Qc_eqb x y | _, _ => false end.
Definition coef_alg : calg coef :=
  CAlg coef cadd cmul cneg (cbin ODiv (CNum 1)) is_zero_num pair_equal hub_copy CNum.

Definition tdata := list (Z * coef).
Definition tfilt := @gfilt coef.
Definition fexp := @gfexp coef.

(* ------------------------------------------------- the generated program *)
Inductive tterm :=
| TConst (t : term)              (* the constant-coefficient forms of C04          *)
| TNextB (k : nat)               (* "next(b{k}) * d{k}"                            *)
| TNextA (k : nat).              (* "-next(a{k}) * m{k}"                           *)

Record tprog := TProg {
  tp_prog : prog tterm;
  tp_bargs : list nat;           (* "..., b0, b2" in the def line                  *)
  tp_aargs : list nat;           (* "..., a1"                                      *)
  tp_try : bool                  (* "try: m0 = ... except StopIteration: return"   *)
}.

Inductive tgen :=
| TZero (z : Qc)                 (* "for unused in seq: yield {zero}" *)
| TGen (p : tprog).

Definition num_tterm (kv : Z * coef) : list tterm :=
  match snd kv with
  | CStr _ => [TNextB (Z.to_nat (fst kv))]
  | CNum q => map TConst (num_term (fst kv, q))
  end.
Definition den_tterm (kv : Z * coef) : list tterm :=
  match snd kv with
  | CStr _ => [TNextA (Z.to_nat (fst kv))]
  | CNum q => map TConst (den_term (fst kv, q))
  end.
Definition stream_keys (d : tdata) : list nat :=
  flat_map (fun kv => if is_stream (snd kv) then [Z.to_nat (fst kv)] else []) d.
Definition stream_iters (d : tdata) : list (nat * cx) :=
  flat_map (fun kv => match snd kv with CStr e => [(Z.to_nat (fst kv), e)] | CNum _ => [] end) d.
(* the value left in "gain" by the loop over dendict *)
Definition tgain_of (den : tdata) : Qc :=
  fold_left (fun g kv => match snd kv with
                         | CNum q => if (fst kv =? 0)%Z then q else g
                         | CStr _ => g end) den 0.

Definition t_any_negative (f : tfilt) : bool :=
  existsb (fun kv => (fst kv <? 0)%Z) (tterms (t_num f) ++ tterms (t_den f)).

(* the part of __call__ after the variable-gain branch *)
Definition tcodegen (f : tfilt) (zero : Qc) : result tgen :=
  if t_any_negative f then Err NonCausal
  else if is_zero_num (t_getitem coef_alg (t_den f) 0) then Err ZeroGain
  else
    let la := tdense_len (t_den f) in
    let lb := tdense_len (t_num f) in
    let lm := (la - 1)%nat in
    let nt := tterms (t_num f) in let dt := tterms (t_den f) in
    let data_sum := flat_map num_tterm nt ++ flat_map den_tterm dt in
    match data_sum with
    | [] => Ok (TZero zero)
    | _ => Ok (TGen (TProg (Prog (seq 1 (la - 1)) (seq 1 (lb - 1)) data_sum
                                 (gain_form (tgain_of dt)) (shift_lines lm) (shift_lines (lb - 1)))
                           (stream_keys nt) (stream_keys dt)
                           (negb (Nat.eqb (length (stream_keys nt) + length (stream_keys dt)) 0))))
    end.

(* "if isinstance(self.denpoly[0], Stream)": divide through by the gain stream *)
Definition prepare (h : nat) (f : tfilt) : result (bres tfilt) :=
  if t_any_negative f then Err NonCausal
  else match t_getitem coef_alg (t_den f) 0 with
  | CStr e0 =>
      let inv := XCS ODiv 1 e0 in                       (* inv_gain = 1 / den[0]      *)
      Ok (divide_through coef_alg (Datatypes.S h) f (CStr (XTee h 2 0 inv)) (CStr (XTee h 2 1 inv)))
  | CNum _ => Ok (BOk f h)
  end.

(* ----------------------------------------------------------- the machine *)
Fixpoint lookup {A} (l : list (nat * A)) (k : nat) : option A :=
  match l with [] => None | (i, a) :: r => if Nat.eqb i k then Some a else lookup r k end.

(* "t1 + t2 + ... " evaluated left to right; a next() that ends or raises aborts *)
Fixpoint eval_tterms (S : sources) (bs az : list (nat * cx)) (ts : list tterm)
                     (s : st) (m d : env) (acc : Qc) : pres * st * list event :=
  match ts with
  | [] => (PVal acc, s, [])
  | TConst c :: r => eval_tterms S bs az r s m d (acc + eval_term m d c)
  | TNextB k :: r =>
      match lookup bs k with
      | None => (PErr, s, [])
      | Some e =>
          match pull S e s with
          | (PVal v, s1, t1) =>
              let '(res, s2, t2) := eval_tterms S bs az r s1 m d (acc + v * d k) in (res, s2, t1 ++ t2)
          | other => other
          end
      end
  | TNextA k :: r =>
      match lookup az k with
      | None => (PErr, s, [])
      | Some e =>
          match pull S e s with
          | (PVal v, s1, t1) =>
              let '(res, s2, t2) := eval_tterms S bs az r s1 m d (acc + (- v) * m k) in (res, s2, t1 ++ t2)
          | other => other
          end
      end
  end.

(* "for d0 in seq: try: m0 = ...; yield m0; shifts".  fuel = how many items the
   consumer asks for. *)
Fixpoint tv_loop (S : sources) (p : tprog) (bs az : list (nat * cx)) (fuel : nat)
                 (s : st) (m d : env) : list event :=
  match fuel with
  | O => []
  | Datatypes.S fuel' =>
      match read_src S 0 s with
      | (PVal x, s0, t0) =>
          let d0 := upd d 0 x in
          match eval_tterms S bs az (p_terms (tp_prog p)) s0 m d0 0 with
          | (PVal acc, s1, t1) =>
              let m0 := apply_gain (p_gain (tp_prog p)) acc in
              let m' := upd m 0 m0 in
              t0 ++ t1 ++ EvYield m0 ::
                tv_loop S p bs az fuel' s1 (exec_shifts (p_mshift (tp_prog p)) m')
                        (exec_shifts (p_dshift (tp_prog p)) d0)
          | (PEnd, _, t1) => t0 ++ t1 ++ [if tp_try p then EvStop else EvRaise XRuntime]
          | (PErr, _, t1) => t0 ++ t1 ++ [EvRaise XZeroDiv]
          end
      | (_, _, t0) => t0 ++ [EvStop]
      end
  end.

Fixpoint zero_loop (S : sources) (z : Qc) (fuel : nat) (s : st) : list event :=
  match fuel with
  | O => []
  | Datatypes.S fuel' =>
      match read_src S 0 s with
      | (PVal x, s0, t0) => t0 ++ EvYield z :: zero_loop S z fuel' s0
      | (_, _, t0) => t0 ++ [EvStop]
      end
  end.

Definition run_tv (S : sources) (g : tgen) (f : tfilt) (memory : list Qc) (zero : Qc)
                  (fuel : nat) : list event :=
  match g with
  | TZero z => zero_loop S z fuel st0
  | TGen p => tv_loop S p (stream_iters (t_num f)) (stream_iters (t_den f)) fuel st0
                      (unpack (p_mvars (tp_prog p)) memory empty_env)
                      (assign_all (p_dvars (tp_prog p)) zero empty_env)
  end.

Definition t_mem_size (f : tfilt) : nat := (tdense_len (t_den f) - 1)%nat.

(* what list-like consumption of  expr(seq, memory, zero)  does *)
Inductive tres :=
| RBuild (e : berr)                        (* the expression itself raised              *)
| RCall (e : exn)                          (* __call__ raised before generating code    *)
| RRun (g : tgen) (tr : list event).

Definition call_tv (S : sources) (f : tfilt) (h : nat) (mem : memarg) (zero : Qc) (fuel : nat) : tres :=
  match prepare h f with
  | Err e => RCall e
  | Ok (BErr e) => RBuild e
  | Ok (BOk f' _) =>
      match tcodegen f' zero with
      | Err e => RCall e
      | Ok g => RRun g (run_tv S g f' (normalise_memory (t_mem_size f') zero mem) zero fuel)
      end
  end.

Definition run_case (S : sources) (e : fexp) (mem : memarg) (zero : Qc) (fuel : nat) : tres :=
  match build coef_alg e 0 with
  | BErr b => RBuild b
  | BOk f h => call_tv S f h mem zero fuel
  end.

(* sources given as data: a finite list, or a non-empty list repeated forever *)
Inductive srcdata := SFin (l : list Qc) | SCyc (l : list Qc).
Definition src_fun (d : srcdata) : nat -> option Qc :=
  match d with
  | SFin l => nth_error l
  | SCyc l => fun n => nth_error l (n mod length l)
  end.
Definition sources_of (l : list srcdata) : sources :=
  fun i => match nth_error l i with Some d => src_fun d | None => fun _ => None end.

(* ------------------------------------------- several uses of one filter object *)
(* The Stream objects of a filter live across calls (a second call goes on reading
   them where the first stopped).  The filter object itself is not changed by a call:
   the variable-gain branch of __call__ works on "den = Poly(self.denpoly)", a shallow
   copy that shares the coefficient Streams (repair 8d9dc85; before it "den[0] = 0"
   deleted a0 from the filter's own denominator).  tv_loop_st / run_tv_st are tv_loop /
   run_tv returning also the state of the iterators when the consumer stops. *)
Fixpoint tv_loop_st (S : sources) (p : tprog) (bs az : list (nat * cx)) (fuel : nat)
                    (s : st) (m d : env) : list event * st :=
  match fuel with
  | O => ([], s)
  | Datatypes.S fuel' =>
      match read_src S 0 s with
      | (PVal x, s0, t0) =>
          let d0 := upd d 0 x in
          match eval_tterms S bs az (p_terms (tp_prog p)) s0 m d0 0 with
          | (PVal acc, s1, t1) =>
              let m0 := apply_gain (p_gain (tp_prog p)) acc in
              let m' := upd m 0 m0 in
              let '(tr, s2) := tv_loop_st S p bs az fuel' s1 (exec_shifts (p_mshift (tp_prog p)) m')
                                          (exec_shifts (p_dshift (tp_prog p)) d0) in
              (t0 ++ t1 ++ EvYield m0 :: tr, s2)
          | (PEnd, s1, t1) => (t0 ++ t1 ++ [if tp_try p then EvStop else EvRaise XRuntime], s1)
          | (PErr, s1, t1) => (t0 ++ t1 ++ [EvRaise XZeroDiv], s1)
          end
      | (_, s0, t0) => (t0 ++ [EvStop], s0)
      end
  end.

Fixpoint zero_loop_st (S : sources) (z : Qc) (fuel : nat) (s : st) : list event * st :=
  match fuel with
  | O => ([], s)
  | Datatypes.S fuel' =>
      match read_src S 0 s with
      | (PVal x, s0, t0) => let '(tr, s1) := zero_loop_st S z fuel' s0 in (t0 ++ EvYield z :: tr, s1)
      | (_, s0, t0) => (t0 ++ [EvStop], s0)
      end
  end.

Definition run_tv_st (S : sources) (g : tgen) (f : tfilt) (memory : list Qc) (zero : Qc)
                     (fuel : nat) (s : st) : list event * st :=
  match g with
  | TZero z => zero_loop_st S z fuel s
  | TGen p => tv_loop_st S p (stream_iters (t_num f)) (stream_iters (t_den f)) fuel s
                         (unpack (p_mvars (tp_prog p)) memory empty_env)
                         (assign_all (p_dvars (tp_prog p)) zero empty_env)
  end.

(* the filter object and the hub counter of the session *)
Record fobj := FObj { o_f : tfilt; o_h : nat }.

(* one __call__ on the object: (what the consumer sees, the object afterwards, the iterators afterwards) *)
Definition call_obj (S : sources) (o : fobj) (s : st) (mem : memarg) (zero : Qc) (fuel : nat)
  : tres * fobj * st :=
  let f := o_f o in
  if t_any_negative f then (RCall NonCausal, o, s)           (* refused before anything is touched *)
  else
    let run (f' : tfilt) (o' : fobj) :=
      match tcodegen f' zero with
      | Err e => (RCall e, o', s)
      | Ok g => let '(tr, s') := run_tv_st S g f' (normalise_memory (t_mem_size f') zero mem) zero fuel s in
                (RRun g tr, o', s')
      end in
    match t_getitem coef_alg (t_den f) 0 with
    | CStr e0 =>
        let h := o_h o in
        let inv := XCS ODiv 1 e0 in
        match divide_through coef_alg (Datatypes.S h) f (CStr (XTee h 2 0 inv)) (CStr (XTee h 2 1 inv)) with
        | BErr e => (RBuild e, o, s)
        | BOk f' h' => run f' (FObj f h')                      (* self keeps its Polys; new hubs *)
        end
    | CNum _ => run f o
    end.

(* z ** -k *)
Definition z_pow_neg (k : nat) : tfilt := TF [(Z.of_nat k, CNum 1)] [(0%Z, CNum 1)].

(* ---- powers, and operators with the SAME filter object on both sides ---- *)
Fixpoint qpow (q : Qc) (n : nat) : Qc := match n with O => 1 | Datatypes.S k => q * qpow q k end.

(* Poly.__pow__ for an int n >= 0 *)
Definition ppow (h : nat) (a : tdata) (n : nat) : bres tdata :=
  match n with
  | O => BOk [(0%Z, CNum 1)] h                                  (* Poly(1) *)
  | Datatypes.S m =>
      match a with
      | [] => BOk [] h
      | [(k, CNum q)] =>                                       (* one term: {k*n: v if v == 1 else v ** n} *)
          BOk (tcompact coef_alg [((k * Z.of_nat n)%Z, CNum (if Qc_eqb q 1 then q else qpow q n))]) h
      | [(k, CStr _)] => BErr BZeroDiv                         (* Stream ** n: not modelled (never generated) *)
      | _ =>                (* reduce(mul, [self.copy() for unused in range(n - 1)] + [self]) : a copy per factor *)
          let '(orig, copies, h1) :=
            fold_left (fun (st : tdata * list tdata * nat) (_ : nat) =>
                         let '(o, cs, hh) := st in
                         let '(o', c, hh') := pcopy coef_alg hh o in (o', cs ++ [c], hh'))
                      (seq 0 m) (a, [], h) in
          match copies ++ [orig] with
          | [] => BOk orig h1
          | first :: rest =>
              let r := fold_left (fun (acc : tdata * nat) nxt => pmul coef_alg (snd acc) (fst acc) nxt) rest (first, h1) in
              BOk (fst r) (snd r)
          end
      end
  end.

(* ZFilter.__pow__ for an int n *)
Definition fpow (h : nat) (f : tfilt) (n : Z) : bres tfilt :=
  let go (h : nat) (f : tfilt) (k : nat) : bres tfilt :=
    bbind (ppow h (t_num f) k) (fun nu h1 => bbind (ppow h1 (t_den f) k) (fun de h2 => mk_tfilt coef_alg h2 nu de)) in
  if (n <? 0)%Z && (Nat.leb 2 (length (t_num f)) || Nat.leb 2 (length (t_den f)))
  then bbind (mk_tfilt coef_alg h (t_den f) (t_num f)) (fun g h1 => go h1 g (Z.to_nat (- n)))
  else if (n <? 0)%Z then
    (* both Polys have one term: {k*n: v ** n} with a negative n *)
    match t_num f, t_den f with
    | [(k1, CNum q1)], [(k2, CNum q2)] =>
        if Qc_eqb q1 0 || Qc_eqb q2 0 then BErr BZeroDiv
        else mk_tfilt coef_alg h [((k1 * n)%Z, CNum (if Qc_eqb q1 1 then q1 else qpow (1 / q1) (Z.to_nat (- n))))]
                                 [((k2 * n)%Z, CNum (if Qc_eqb q2 1 then q2 else qpow (1 / q2) (Z.to_nat (- n))))]
    | _, _ => BErr BZeroDiv
    end
  else go h f (Z.to_nat n).

(* filt op filt with the same object: the two sides hold the same Stream objects (an
   iterator pulled from both sides); "==" on the two denominators is true (identity) *)
Inductive selfop := SelfMul | SelfAdd | SelfSub | SelfDiv.
Definition fself (h : nat) (f : tfilt) (o : selfop) : bres tfilt :=
  match o with
  | SelfMul => fmul coef_alg h f f
  | SelfAdd => mk_tfilt coef_alg h (padd coef_alg (t_num f) (t_num f)) (t_den f)
  | SelfSub => bbind (fneg coef_alg h f) (fun g h1 => mk_tfilt coef_alg h1 (padd coef_alg (t_num f) (t_num g)) (t_den f))
  | SelfDiv => let '(n, h1) := pmul coef_alg h (t_num f) (t_den f) in
               let '(d, h2) := pmul coef_alg h1 (t_den f) (t_num f) in
               mk_tfilt coef_alg h2 n d
  end.

Inductive sstep :=
| SCall (fuel : nat)                     (* out = filt(seq); take at most fuel items            *)
| SShiftCall (k fuel : nat)              (* g = filt * z ** -k; out = g(seq); take ...          *)
| SPowCall (n : Z) (fuel : nat)          (* g = filt ** n; out = g(seq); take ...               *)
| SSelfCall (o : selfop) (fuel : nat)    (* g = filt o filt (one object); out = g(seq); ...     *)
| SLook.                                 (* look at filt.numpoly / filt.denpoly                  *)

Inductive sobs :=
| SRes (r : tres)
| SSeen (num den : list (Z * bool)).     (* (power, is a Stream) in dict order *)

Definition look (d : tdata) : list (Z * bool) := map (fun kv => (fst kv, is_stream (snd kv))) d.

Fixpoint session (S : sources) (steps : list sstep) (o : fobj) (s : st) (zero : Qc) : list sobs :=
  match steps with
  | [] => []
  | SCall fuel :: r =>
      let '(res, o', s') := call_obj S o s MNone zero fuel in SRes res :: session S r o' s' zero
  | SShiftCall k fuel :: r =>
      match fmul coef_alg (o_h o) (o_f o) (z_pow_neg k) with
      | BErr e => SRes (RBuild e) :: session S r o s zero
      | BOk g h1 =>
          let '(res, og, s') := call_obj S (FObj g h1) s MNone zero fuel in
          SRes res :: session S r (FObj (o_f o) (o_h og)) s' zero
      end
  | SPowCall n fuel :: r =>
      match fpow (o_h o) (o_f o) n with
      | BErr e => SRes (RBuild e) :: session S r o s zero
      | BOk g h1 =>
          let '(res, og, s') := call_obj S (FObj g h1) s MNone zero fuel in
          SRes res :: session S r (FObj (o_f o) (o_h og)) s' zero
      end
  | SSelfCall op fuel :: r =>
      match fself (o_h o) (o_f o) op with
      | BErr e => SRes (RBuild e) :: session S r o s zero
      | BOk g h1 =>
          let '(res, og, s') := call_obj S (FObj g h1) s MNone zero fuel in
          SRes res :: session S r (FObj (o_f o) (o_h og)) s' zero
      end
  | SLook :: r => SSeen (look (t_num (o_f o))) (look (t_den (o_f o))) :: session S r o s zero
  end.

Definition run_session (S : sources) (e : fexp) (steps : list sstep) (zero : Qc) : option (list sobs) :=
  match build coef_alg e 0 with
  | BErr _ => None
  | BOk f h => Some (session S steps (FObj f h) st0 zero)
  end.
