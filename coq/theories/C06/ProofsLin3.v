(* C06 - tee accounting, part 3: the generated program of a filter whose Stream
   coefficients form a linear family runs clean rounds (no per-sample test). *)
From Coq Require Import List Bool Arith ZArith QArith Qcanon Lia Permutation.
From AL Require Import Base.CaseLib C04.Model C06.Model C06.Spec.
From AL Require Import C06.ProofsPull C06.ProofsLoop C06.ProofsWf C06.ProofsEq C06.ProofsLin C06.ProofsLin2.
Import ListNotations.

(* the Stream objects of a Poly *)
Definition streams (d : tdata) : list cx :=
  flat_map (fun kv => match snd kv with CStr e => [e] | CNum _ => [] end) d.

Lemma streams_str k e t : streams ((k, CStr e) :: t) = e :: streams t.
Proof. reflexivity. Qed.
Lemma streams_num k q t : streams ((k, CNum q) :: t) = streams t.
Proof. reflexivity. Qed.

Lemma apull_list_app a b p :
  apull_list (a ++ b) p
  = (fst (apull_list b (fst (apull_list a p))), snd (apull_list a p) ++ snd (apull_list b (fst (apull_list a p)))).
Proof.
  revert p. induction a as [|e r IH]; intro p.
  - simpl. destruct (apull_list b p); reflexivity.
  - rewrite <- app_comm_cons. rewrite !apull_list_eq. rewrite IH. cbn [fst snd]. rewrite app_assoc. reflexivity.
Qed.

Lemma aterms_consts bs az cs rest p : aterms bs az (map TConst cs ++ rest) p = aterms bs az rest p.
Proof. induction cs as [|c r IH]; simpl; [reflexivity|exact IH]. Qed.

Lemma aterms_num bs az (l : tdata) rest :
  (forall k e, In (k, CStr e) l -> lookup bs (Z.to_nat k) = Some e) ->
  forall p, aterms bs az (flat_map num_tterm l ++ rest) p
  = (fst (aterms bs az rest (fst (apull_list (streams l) p))),
     snd (apull_list (streams l) p) ++ snd (aterms bs az rest (fst (apull_list (streams l) p)))).
Proof.
  induction l as [|[k c] t IH]; intros Hl p.
  - simpl. destruct (aterms bs az rest p); reflexivity.
  - assert (forall k' e', In (k', CStr e') t -> lookup bs (Z.to_nat k') = Some e') as Hl' by (intros; apply Hl; right; assumption).
    simpl flat_map. rewrite <- app_assoc. destruct c as [q|e].
    + change (num_tterm (k, CNum q)) with (map TConst (num_term (k, q))). rewrite aterms_consts.
      rewrite streams_num. apply IH. exact Hl'.
    + rewrite streams_str, !apull_list_eq. cbn [fst snd].
      change (num_tterm (k, CStr e)) with [TNextB (Z.to_nat k)]. cbn [app aterms].
      rewrite (Hl k e (or_introl eq_refl)). rewrite (surjective_pairing (apull e p)).
      rewrite (IH Hl' (fst (apull e p))). cbn [fst snd].
      rewrite app_assoc. reflexivity.
Qed.

Lemma aterms_den bs az (l : tdata) rest :
  (forall k e, In (k, CStr e) l -> lookup az (Z.to_nat k) = Some e) ->
  forall p, aterms bs az (flat_map den_tterm l ++ rest) p
  = (fst (aterms bs az rest (fst (apull_list (streams l) p))),
     snd (apull_list (streams l) p) ++ snd (aterms bs az rest (fst (apull_list (streams l) p)))).
Proof.
  induction l as [|[k c] t IH]; intros Hl p.
  - simpl. destruct (aterms bs az rest p); reflexivity.
  - assert (forall k' e', In (k', CStr e') t -> lookup az (Z.to_nat k') = Some e') as Hl' by (intros; apply Hl; right; assumption).
    simpl flat_map. rewrite <- app_assoc. destruct c as [q|e].
    + change (den_tterm (k, CNum q)) with (map TConst (den_term (k, q))). rewrite aterms_consts.
      rewrite streams_num. apply IH. exact Hl'.
    + rewrite streams_str, !apull_list_eq. cbn [fst snd].
      change (den_tterm (k, CStr e)) with [TNextA (Z.to_nat k)]. cbn [app aterms].
      rewrite (Hl k e (or_introl eq_refl)). rewrite (surjective_pairing (apull e p)).
      rewrite (IH Hl' (fst (apull e p))). cbn [fst snd].
      rewrite app_assoc. reflexivity.
Qed.

(* the rounds of the generated program pull the Stream coefficients, numerator then denominator *)
Lemma aterms_program (f : tfilt) : keys_ok (t_num f) -> keys_ok (t_den f) ->
  forall p,
  aterms (stream_iters (t_num f)) (stream_iters (t_den f))
         (flat_map num_tterm (tterms (t_num f)) ++ flat_map den_tterm (tterms (t_den f))) p
  = apull_list (streams (tterms (t_num f)) ++ streams (tterms (t_den f))) p.
Proof.
  intros [Nn Kn] [Nd Kd] p.
  rewrite aterms_num.
  2:{ intros k e Hin. apply (lookup_iters (t_num f) Nn Kn). apply (Permutation_in _ (tterms_perm _)). exact Hin. }
  rewrite <- (app_nil_r (flat_map den_tterm _)). rewrite aterms_den.
  2:{ intros k e Hin. apply (lookup_iters (t_den f) Nd Kd). apply (Permutation_in _ (tterms_perm _)). exact Hin. }
  simpl aterms. cbn [fst snd]. rewrite app_nil_r. rewrite apull_list_app. reflexivity.
Qed.
