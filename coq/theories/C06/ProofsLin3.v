(* C06 - tee accounting, part 3: the generated program of a filter whose Stream
   coefficients form a linear family runs clean rounds (no per-sample test). *)
From Coq Require Import List Bool Arith ZArith QArith Qcanon Lia Permutation.
From AL Require Import Base.CaseLib C04.Model C06.Model C06.Spec.
From AL Require Import C06.ProofsPull C06.ProofsLoop C06.ProofsWf C06.ProofsEq C06.ProofsLin C06.ProofsLin2.
Import ListNotations.

(* the Stream objects of a Poly *)
Definition streams (d : tdata) : list cx :=
  flat_map (fun kv => match snd kv with CStr e => [e] | CNum _ => [] end) d.

Lemma streams_str k e t : streams ((k, CStr e) :: t) = e :: streams t.
Proof. reflexivity. Qed.
Lemma streams_num k q t : streams ((k, CNum q) :: t) = streams t.
Proof. reflexivity. Qed.

Lemma apull_list_app a b p :
  apull_list (a ++ b) p
  = (fst (apull_list b (fst (apull_list a p))), snd (apull_list a p) ++ snd (apull_list b (fst (apull_list a p)))).
Proof.
  revert p. induction a as [|e r IH]; intro p.
  - simpl. destruct (apull_list b p); reflexivity.
  - rewrite <- app_comm_cons. rewrite !apull_list_eq. rewrite IH. cbn [fst snd]. rewrite app_assoc. reflexivity.
Qed.

Lemma aterms_consts bs az cs rest p : aterms bs az (map TConst cs ++ rest) p = aterms bs az rest p.
Proof. induction cs as [|c r IH]; simpl; [reflexivity|exact IH]. Qed.

Lemma aterms_num bs az (l : tdata) rest :
  (forall k e, In (k, CStr e) l -> lookup bs (Z.to_nat k) = Some e) ->
  forall p, aterms bs az (flat_map num_tterm l ++ rest) p
  = (fst (aterms bs az rest (fst (apull_list (streams l) p))),
     snd (apull_list (streams l) p) ++ snd (aterms bs az rest (fst (apull_list (streams l) p)))).
Proof.
  induction l as [|[k c] t IH]; intros Hl p.
  - simpl. destruct (aterms bs az rest p); reflexivity.
  - assert (forall k' e', In (k', CStr e') t -> lookup bs (Z.to_nat k') = Some e') as Hl' by (intros; apply Hl; right; assumption).
    simpl flat_map. rewrite <- app_assoc. destruct c as [q|e].
    + change (num_tterm (k, CNum q)) with (map TConst (num_term (k, q))). rewrite aterms_consts.
      rewrite streams_num. apply IH. exact Hl'.
    + rewrite streams_str, !apull_list_eq. cbn [fst snd].
      change (num_tterm (k, CStr e)) with [TNextB (Z.to_nat k)]. cbn [app aterms].
      rewrite (Hl k e (or_introl eq_refl)). rewrite (surjective_pairing (apull e p)).
      rewrite (IH Hl' (fst (apull e p))). cbn [fst snd].
      rewrite app_assoc. reflexivity.
Qed.

Lemma aterms_den bs az (l : tdata) rest :
  (forall k e, In (k, CStr e) l -> lookup az (Z.to_nat k) = Some e) ->
  forall p, aterms bs az (flat_map den_tterm l ++ rest) p
  = (fst (aterms bs az rest (fst (apull_list (streams l) p))),
     snd (apull_list (streams l) p) ++ snd (aterms bs az rest (fst (apull_list (streams l) p)))).
Proof.
  induction l as [|[k c] t IH]; intros Hl p.
  - simpl. destruct (aterms bs az rest p); reflexivity.
  - assert (forall k' e', In (k', CStr e') t -> lookup az (Z.to_nat k') = Some e') as Hl' by (intros; apply Hl; right; assumption).
    simpl flat_map. rewrite <- app_assoc. destruct c as [q|e].
    + change (den_tterm (k, CNum q)) with (map TConst (den_term (k, q))). rewrite aterms_consts.
      rewrite streams_num. apply IH. exact Hl'.
    + rewrite streams_str, !apull_list_eq. cbn [fst snd].
      change (den_tterm (k, CStr e)) with [TNextA (Z.to_nat k)]. cbn [app aterms].
      rewrite (Hl k e (or_introl eq_refl)). rewrite (surjective_pairing (apull e p)).
      rewrite (IH Hl' (fst (apull e p))). cbn [fst snd].
      rewrite app_assoc. reflexivity.
Qed.

(* the rounds of the generated program pull the Stream coefficients, numerator then denominator *)
Lemma aterms_program (f : tfilt) : keys_ok (t_num f) -> keys_ok (t_den f) ->
  forall p,
  aterms (stream_iters (t_num f)) (stream_iters (t_den f))
         (flat_map num_tterm (tterms (t_num f)) ++ flat_map den_tterm (tterms (t_den f))) p
  = apull_list (streams (tterms (t_num f)) ++ streams (tterms (t_den f))) p.
Proof.
  intros [Nn Kn] [Nd Kd] p.
  rewrite aterms_num.
  2:{ intros k e Hin. apply (lookup_iters (t_num f) Nn Kn). apply (Permutation_in _ (tterms_perm _)). exact Hin. }
  rewrite <- (app_nil_r (flat_map den_tterm _)). rewrite aterms_den.
  2:{ intros k e Hin. apply (lookup_iters (t_den f) Nd Kd). apply (Permutation_in _ (tterms_perm _)). exact Hin. }
  simpl aterms. cbn [fst snd]. rewrite app_nil_r. rewrite apull_list_app. reflexivity.
Qed.

(* ------------------------------------------------------------ terms_ok *)
Lemma terms_ok_app L P bs az a b : terms_ok L P bs az a -> terms_ok L P bs az b -> terms_ok L P bs az (a ++ b).
Proof.
  induction a as [|t r IH]; intros Ha Hb; simpl; [exact Hb|]. destruct t; simpl in Ha.
  - apply IH; assumption.
  - destruct Ha as [H1 H2]. split; [exact H1|apply IH; assumption].
  - destruct Ha as [H1 H2]. split; [exact H1|apply IH; assumption].
Qed.
Lemma terms_ok_consts L P bs az cs : terms_ok L P bs az (map TConst cs).
Proof. induction cs; simpl; [exact I|assumption]. Qed.

Lemma terms_ok_num L P bs az (l : tdata) :
  (forall k e, In (k, CStr e) l -> lookup bs (Z.to_nat k) = Some e /\ in_live L e /\ hub_ok P e) ->
  terms_ok L P bs az (flat_map num_tterm l).
Proof.
  induction l as [|[k c] t IH]; intro H; [exact I|]. simpl flat_map. apply terms_ok_app.
  - destruct c as [q|e].
    + change (num_tterm (k, CNum q)) with (map TConst (num_term (k, q))). apply terms_ok_consts.
    + change (num_tterm (k, CStr e)) with [TNextB (Z.to_nat k)]. simpl. split; [|exact I].
      exists e. apply H. left. reflexivity.
  - apply IH. intros; apply H; right; assumption.
Qed.
Lemma terms_ok_den L P bs az (l : tdata) :
  (forall k e, In (k, CStr e) l -> lookup az (Z.to_nat k) = Some e /\ in_live L e /\ hub_ok P e) ->
  terms_ok L P bs az (flat_map den_tterm l).
Proof.
  induction l as [|[k c] t IH]; intro H; [exact I|]. simpl flat_map. apply terms_ok_app.
  - destruct c as [q|e].
    + change (den_tterm (k, CNum q)) with (map TConst (den_term (k, q))). apply terms_ok_consts.
    + change (den_tterm (k, CStr e)) with [TNextA (Z.to_nat k)]. simpl. split; [|exact I].
      exists e. apply H. left. reflexivity.
  - apply IH. intros; apply H; right; assumption.
Qed.

Lemma in_live_incl L e : incl (copies e) L -> in_live L e.
Proof.
  induction e; simpl; intro H; try exact I; auto.
  - split; [apply H; left; reflexivity|apply IHe; intros x Hx; apply H; right; exact Hx].
  - split; [apply IHe1|apply IHe2]; intros x Hx; apply H; apply in_or_app; [left|right]; exact Hx.
Qed.
Lemma hub_ok_okx HT e : NoDup (map fst HT) -> okx HT e -> hub_ok (hpar HT) e.
Proof.
  intro Hnd. induction e; simpl; intro H; try exact I; auto.
  - destruct H as (Hin & _ & Hp). split; [exact (hpar_in HT Hnd _ _ _ Hin)|auto].
  - destruct H. split; auto.
Qed.

Lemma okx_tops HT e : okx HT e -> forall h c, In (LCopy h c) (tops e) -> exists n p, In (h, (n, p)) HT /\ (c < n)%nat.
Proof.
  induction e; simpl; intros Hok h0 c0 Hin.
  - destruct Hin as [E|[]]. discriminate.
  - destruct Hin as [E|[]]. injection E as <- <-. destruct Hok as (Hi & Hc & _). exists n, e. split; assumption.
  - destruct Hok. apply in_app_or in Hin. destruct Hin; eauto.
  - eauto.
  - eauto.
  - eauto.
Qed.

Lemma streams_in (d : tdata) e : In e (streams d) <-> exists k, In (k, CStr e) d.
Proof.
  unfold streams. rewrite in_flat_map. split.
  - intros [[k c] [Hin He]]. destruct c as [q|e']; simpl in He; [destruct He|]. destruct He as [<-|[]]. exists k. exact Hin.
  - intros [k Hin]. exists (k, CStr e). split; [exact Hin|left; reflexivity].
Qed.
Lemma streams_perm (a b : tdata) : Permutation a b -> Permutation (streams a) (streams b).
Proof. intro H. unfold streams. apply Permutation_flat_map. exact H. Qed.

Lemma stream_keys_nil (d : tdata) : stream_keys d = [] -> streams d = [].
Proof.
  unfold stream_keys, streams. induction d as [|[k c] r IH]; simpl; [reflexivity|].
  destruct c; simpl; [exact IH|discriminate].
Qed.

Lemma tcodegen_try (f : tfilt) zero p : tcodegen f zero = Ok (TGen p) ->
  tp_try p = true \/ (streams (tterms (t_num f)) = [] /\ streams (tterms (t_den f)) = []).
Proof.
  unfold tcodegen. destruct (t_any_negative f); [discriminate|].
  destruct (is_zero_num _); [discriminate|].
  destruct (flat_map num_tterm (tterms (t_num f)) ++ flat_map den_tterm (tterms (t_den f))); [discriminate|].
  intro H. injection H as <-. simpl.
  destruct (stream_keys (tterms (t_num f))) eqn:E1; [|left; reflexivity].
  destruct (stream_keys (tterms (t_den f))) eqn:E2; [|left; reflexivity].
  right. split; apply stream_keys_nil; assumption.
Qed.

(* ------------------------------------------------------ the linear families *)
(* the Stream coefficients of f, with the hub table HT, form a linear family: every
   tee node is a copy of a hub of the table (hub numbers distinct, iterators of
   lower rank), and every leaf - source or tee copy - occurs at most once across
   the coefficient expressions and the iterators of the hubs; source 0 (the input)
   is not a coefficient source *)
Definition all_leaves (HT : htab) (f : tfilt) : list leaf :=
  flat_map tops (streams (t_num f) ++ streams (t_den f)) ++ ptops HT (map fst HT).
Definition linf (HT : htab) (f : tfilt) : Prop :=
  NoDup (map fst HT) /\
  (forall h n p, In (h, (n, p)) HT -> okx HT p /\ forall h', In h' (hubids p) -> (h' < h)%nat) /\
  Forall (okx HT) (streams (t_num f) ++ streams (t_den f)) /\
  NoDup (all_leaves HT f) /\ ~ In (LSrc 0) (all_leaves HT f).

Theorem lin_round_spec S (f : tfilt) zero p memory fuel HT :
  keys_ok (t_num f) -> keys_ok (t_den f) -> linf HT f -> tcodegen f zero = Ok (TGen p) ->
  round_spec S (stream_iters (t_num f)) (stream_iters (t_den f)) p fuel 0
             (unpack (p_mvars (tp_prog p)) memory empty_env)
             (assign_all (p_dvars (tp_prog p)) zero empty_env)
             (run_tv S (TGen p) f memory zero fuel).
Proof.
  intros Kn Kd (HTnd & HTok & Wok & Alnd & H0) Hc.
  set (W := streams (t_num f) ++ streams (t_den f)) in *.
  set (W' := streams (tterms (t_num f)) ++ streams (tterms (t_den f))).
  assert (Permutation W' W) as PW.
  { unfold W', W. apply Permutation_app; apply streams_perm; apply tterms_perm. }
  assert (Forall (okx HT) W') as Wok'.
  { apply Forall_forall. intros e He. apply (proj1 (Forall_forall _ _) Wok). apply (Permutation_in _ PW). exact He. }
  assert (forall h c, In (LCopy h c) (all_leaves HT f) -> exists n q, In (h, (n, q)) HT /\ (c < n)%nat) as Allive.
  { intros h c Hin. unfold all_leaves in Hin. apply in_app_or in Hin. destruct Hin as [Hin|Hin].
    - apply in_flat_map in Hin. destruct Hin as [e [He Ht]].
      exact (okx_tops HT e (proj1 (Forall_forall _ _) Wok e He) h c Ht).
    - unfold ptops in Hin. apply in_flat_map in Hin. destruct Hin as [u [Hu Ht]].
      apply in_map_iff in Hu. destruct Hu as [[u' [n q]] [E Hu]]. simpl in E. subst u'.
      rewrite (hpar_in HT HTnd u n q Hu) in Ht. exact (okx_tops HT q (proj1 (HTok u n q Hu)) h c Ht). }
  assert (Permutation (flat_map tops W' ++ ptops HT (map fst HT)) (all_leaves HT f)) as HAll.
  { unfold all_leaves. apply Permutation_app_tail. apply Permutation_flat_map. exact PW. }
  pose proof (round_lin HT (all_leaves HT f) HTnd HTok Alnd Allive W' Wok' HAll H0) as [Hnd Hclean].
  pose proof (tcodegen_prog f zero p Hc) as Hp.
  assert (p_terms (tp_prog p) = flat_map num_tterm (tterms (t_num f)) ++ flat_map den_tterm (tterms (t_den f))) as Hts
    by (rewrite Hp; reflexivity).
  apply (run_tv_spec S (flat_map copies W') (hpar HT) f p memory zero fuel).
  - rewrite Hts, aterms_program by assumption. fold W'.
    destruct (tcodegen_try f zero p Hc) as [Ht|[E1 E2]]; [left; exact Ht|right].
    unfold W'. rewrite E1, E2. reflexivity.
  - rewrite Hts. destruct Kn as [Nn Kn]. destruct Kd as [Nd Kd].
    assert (forall e, In e W' -> in_live (flat_map copies W') e /\ hub_ok (hpar HT) e) as Hw.
    { intros e He. split.
      - apply in_live_incl. intros x Hx. apply in_flat_map. exists e. split; assumption.
      - apply hub_ok_okx; [exact HTnd|]. exact (proj1 (Forall_forall _ _) Wok' e He). }
    apply terms_ok_app.
    + apply terms_ok_num. intros k e Hin. split.
      * apply (lookup_iters (t_num f) Nn Kn). apply (Permutation_in _ (tterms_perm _)). exact Hin.
      * apply Hw. unfold W'. apply in_or_app. left. apply streams_in. exists k. exact Hin.
    + apply terms_ok_den. intros k e Hin. split.
      * apply (lookup_iters (t_den f) Nd Kd). apply (Permutation_in _ (tterms_perm _)). exact Hin.
      * apply Hw. unfold W'. apply in_or_app. right. apply streams_in. exists k. exact Hin.
  - rewrite Hts, aterms_program by assumption. exact Hnd.
  - intros h c Hin. rewrite Hts, aterms_program by assumption.
    apply in_flat_map in Hin. destruct Hin as [e [He Hc']]. exact (Hclean e h c He Hc').
Qed.
