(* C06 - the Poly / ZFilter arithmetic commutes with freezing the coefficients
   at an instant: a homomorphism argument over the generic algebra. *)
From Coq Require Import List Bool Arith ZArith QArith Qcanon Lia.
From AL Require Import Base.CaseLib C04.Model C06.Model C06.Spec.
Import ListNotations.
Open Scope Qc_scope.

Definition bres_map {A B} (f : A -> B) (r : bres A) : bres B :=
  match r with BOk a h => BOk (f a) h | BErr e => BErr e end.

Section Hom.
  Context {C1 C2 : Type}.
  Variables (A1 : calg C1) (A2 : calg C2) (phi : C1 -> C2).
  Hypothesis Hadd : forall a b, phi (ca_add A1 a b) = ca_add A2 (phi a) (phi b).
  Hypothesis Hmul : forall a b, phi (ca_mul A1 a b) = ca_mul A2 (phi a) (phi b).
  Hypothesis Hneg : forall a, phi (ca_neg A1 a) = ca_neg A2 (phi a).
  Hypothesis Hrecip : forall a, ca_recip A2 (phi a) = option_map phi (ca_recip A1 a).
  Hypothesis Hzero : forall a, ca_zero_num A2 (phi a) = ca_zero_num A1 a.
  Hypothesis Hequal : forall a b, ca_equal A2 (phi a) (phi b) = ca_equal A1 a b.
  Hypothesis Hhub : forall h n c a, phi (ca_hub A1 h n c a) = ca_hub A2 h n c (phi a).
  Hypothesis Hnum : forall q, phi (ca_num A1 q) = ca_num A2 q.

  Definition md (d : list (Z * C1)) : list (Z * C2) := map (fun kv => (fst kv, phi (snd kv))) d.
  Definition mf (f : @gfilt C1) : @gfilt C2 := TF (md (t_num f)) (md (t_den f)).

  Lemma md_app a b : md (a ++ b) = md a ++ md b.
  Proof. apply map_app. Qed.
  Lemma md_length a : length (md a) = length a.
  Proof. apply map_length. Qed.

  Lemma md_filter_key (P : Z -> bool) d :
    md (filter (fun kv => P (fst kv)) d) = filter (fun kv => P (fst kv)) (md d).
  Proof. induction d as [|x r IH]; simpl; [reflexivity|]. destruct (P (fst x)); simpl; rewrite IH; reflexivity. Qed.

  Lemma md_compact d : md (tcompact A1 d) = tcompact A2 (md d).
  Proof.
    induction d as [|x r IH]; simpl; [reflexivity|]. rewrite Hzero.
    destruct (ca_zero_num A1 (snd x)); simpl; rewrite IH; reflexivity.
  Qed.

  Lemma md_get d k : d_get (md d) k = option_map phi (d_get d k).
  Proof.
    unfold d_get. induction d as [|x r IH]; simpl; [reflexivity|].
    destruct (fst x =? k)%Z; [reflexivity|exact IH].
  Qed.
  Lemma md_has d k : d_has (md d) k = d_has d k.
  Proof. unfold d_has. induction d as [|x r IH]; simpl; [reflexivity|]. rewrite IH. reflexivity. Qed.

  Lemma md_getitem d k : t_getitem A2 (md d) k = phi (t_getitem A1 d k).
  Proof. unfold t_getitem. rewrite md_get. destruct (d_get d k); simpl; [reflexivity|]. symmetry. apply Hnum. Qed.

  Lemma md_set d k v : md (d_set d k v) = d_set (md d) k (phi v).
  Proof.
    unfold d_set. rewrite md_has. destruct (d_has d k).
    - unfold md. rewrite !map_map. apply map_ext. intro x. simpl. destruct (fst x =? k)%Z; reflexivity.
    - rewrite md_app. reflexivity.
  Qed.
  Lemma md_del d k : md (d_del d k) = d_del (md d) k.
  Proof. unfold d_del. apply (md_filter_key (fun j => negb (j =? k)%Z)). Qed.
  Lemma md_setitem d k v : md (t_setitem A1 d k v) = t_setitem A2 (md d) k (phi v).
  Proof. unfold t_setitem. rewrite Hzero. destruct (ca_zero_num A1 v); [apply md_del|apply md_set]. Qed.

  Lemma md_acc d k v : md (d_acc A1 d k v) = d_acc A2 (md d) k (phi v).
  Proof.
    unfold d_acc. rewrite md_get. destruct (d_get d k); simpl.
    - rewrite md_set, Hadd. reflexivity.
    - rewrite md_app. reflexivity.
  Qed.

  Lemma md_enumerate l : forall i, md (tenumerate i l) = tenumerate i (map phi l).
  Proof. induction l as [|x r IH]; intro i; simpl; [reflexivity|]. rewrite IH. reflexivity. Qed.
  Lemma md_scalar c : md (poly_of_scalar A1 c) = poly_of_scalar A2 (phi c).
  Proof. unfold poly_of_scalar. rewrite md_compact. reflexivity. Qed.

  Lemma md_padd a b : md (padd A1 a b) = padd A2 (md a) (md b).
  Proof.
    unfold padd. rewrite md_compact, md_app. f_equal. f_equal.
    - unfold md. rewrite !map_map. apply map_ext. intro x. simpl.
      fold (md b). rewrite md_get. destruct (d_get b (fst x)); simpl; [rewrite Hadd|]; reflexivity.
    - induction b as [|x r IH]; simpl; [reflexivity|]. rewrite md_has.
      destruct (d_has a (fst x)); simpl; rewrite IH; reflexivity.
  Qed.

  Lemma md_pneg a : md (pneg A1 a) = pneg A2 (md a).
  Proof.
    unfold pneg. rewrite md_compact. f_equal. unfold md. rewrite !map_map. apply map_ext.
    intro x. simpl. rewrite Hneg. reflexivity.
  Qed.

  Lemma enum_md l : forall i,
    enum_from i (md l) = map (fun ix => (fst ix, (fst (snd ix), phi (snd (snd ix))))) (enum_from i l).
  Proof. induction l as [|x r IH]; intro i; simpl; [reflexivity|]. rewrite IH. reflexivity. Qed.

  Lemma md_pmul_items h a b : md (pmul_items A1 h a b) = pmul_items A2 h (md a) (md b).
  Proof.
    unfold pmul_items. rewrite !md_length, !enum_md.
    generalize (enum_from 0 a) as ea. generalize (enum_from 0 b) as eb. intros eb ea.
    induction ea as [|x r IH]; simpl; [reflexivity|].
    rewrite md_app, IH. f_equal.
    unfold md. rewrite !map_map. apply map_ext. intro y. simpl. rewrite Hmul, !Hhub. reflexivity.
  Qed.

  Lemma md_fold_acc l : forall acc,
    md (fold_left (fun acc kv => d_acc A1 acc (fst kv) (snd kv)) l acc)
    = fold_left (fun acc kv => d_acc A2 acc (fst kv) (snd kv)) (md l) (md acc).
  Proof. induction l as [|x r IH]; intro acc; simpl; [reflexivity|]. rewrite IH, md_acc. reflexivity. Qed.

  Lemma md_pmul h a b : pmul A2 h (md a) (md b) = (md (fst (pmul A1 h a b)), snd (pmul A1 h a b)).
  Proof.
    unfold pmul. simpl. rewrite !md_length. f_equal.
    rewrite md_compact, md_fold_acc, md_pmul_items. reflexivity.
  Qed.

  Lemma md_pcopy h a :
    pcopy A2 h (md a) = (md (fst (fst (pcopy A1 h a))), md (snd (fst (pcopy A1 h a))), snd (pcopy A1 h a)).
  Proof.
    unfold pcopy. simpl. rewrite md_length, enum_md. f_equal. f_equal.
    - unfold md. rewrite !map_map. apply map_ext. intro x. simpl. rewrite Hhub. reflexivity.
    - unfold md. rewrite !map_map. apply map_ext. intro x. simpl. rewrite Hhub. reflexivity.
  Qed.

  Lemma md_peq a b : peq A2 (md a) (md b) = peq A1 a b.
  Proof.
    unfold peq. rewrite !md_length. f_equal.
    induction a as [|x r IH]; simpl; [reflexivity|]. rewrite IH, md_get.
    destruct (d_get b (fst x)); simpl; [rewrite Hequal|]; reflexivity.
  Qed.

  Lemma md_min_power d : tmin_power (md d) = tmin_power d.
  Proof.
    destruct d as [|x r]; simpl; [reflexivity|]. f_equal.
    generalize (fst x). induction r as [|y r IH]; intro m; simpl; [reflexivity|]. apply IH.
  Qed.

  Lemma md_mk h n d : mk_tfilt A2 h (md n) (md d) = bres_map mf (mk_tfilt A1 h n d).
  Proof.
    unfold mk_tfilt. rewrite <- !md_compact, md_min_power.
    destruct (tmin_power (tcompact A1 d)) as [p|]; [|reflexivity].
    destruct (p =? 0)%Z; [reflexivity|].
    assert (md [((- p)%Z, ca_num A1 1)] = [((- p)%Z, ca_num A2 1)]) as Hd by (simpl; rewrite Hnum; reflexivity).
    cbv zeta. rewrite <- Hd. rewrite (md_pmul h). cbn [fst snd]. rewrite md_pmul. cbn [fst snd]. reflexivity.
  Qed.

  Lemma md_zf h c : zf_scalar A2 h (phi c) = bres_map mf (zf_scalar A1 h c).
  Proof.
    unfold zf_scalar. rewrite <- md_mk. f_equal.
    - rewrite md_compact, md_enumerate. reflexivity.
    - simpl. rewrite Hnum. reflexivity.
  Qed.

  Lemma md_fadd h f g : fadd A2 h (mf f) (mf g) = bres_map mf (fadd A1 h f g).
  Proof.
    unfold fadd. simpl t_den. simpl t_num. rewrite md_peq.
    destruct (peq A1 (t_den f) (t_den g)).
    - rewrite <- md_padd. apply md_mk.
    - rewrite md_pcopy. destruct (pcopy A1 h (t_den g)) as [[gd gdc] h1]. cbn [fst snd].
      rewrite md_pmul. destruct (pmul A1 h1 (t_num f) gdc) as [p1 h2]. cbn [fst snd].
      rewrite md_pcopy. destruct (pcopy A1 h2 (t_den f)) as [[fd fdc] h3]. cbn [fst snd].
      rewrite md_pmul. destruct (pmul A1 h3 (t_num g) fdc) as [p2 h4]. cbn [fst snd].
      rewrite md_pmul. destruct (pmul A1 h4 fd gd) as [dd h5]. cbn [fst snd].
      rewrite <- md_padd. apply md_mk.
  Qed.

  Lemma md_fneg h f : fneg A2 h (mf f) = bres_map mf (fneg A1 h f).
  Proof. unfold fneg. simpl. rewrite <- md_pneg. apply md_mk. Qed.

  Lemma md_fmul h f g : fmul A2 h (mf f) (mf g) = bres_map mf (fmul A1 h f g).
  Proof.
    unfold fmul. simpl t_den. simpl t_num.
    rewrite md_pmul. destruct (pmul A1 h (t_num f) (t_num g)) as [n h1]. cbn [fst snd].
    rewrite md_pmul. destruct (pmul A1 h1 (t_den f) (t_den g)) as [d h2]. cbn [fst snd].
    apply md_mk.
  Qed.

  Lemma md_fmul_scalar h f c : fmul_scalar A2 h (mf f) (phi c) = bres_map mf (fmul_scalar A1 h f c).
  Proof.
    unfold fmul_scalar. simpl t_den. simpl t_num. rewrite <- md_scalar.
    rewrite md_pmul. destruct (pmul A1 h (t_num f) (poly_of_scalar A1 c)) as [n h1]. cbn [fst snd].
    apply md_mk.
  Qed.

  Lemma md_divide_through h f a b :
    divide_through A2 h (mf f) (phi a) (phi b) = bres_map mf (divide_through A1 h f a b).
  Proof.
    unfold divide_through. simpl t_den. simpl t_num. rewrite <- !md_scalar, <- md_del.
    rewrite md_pmul. destruct (pmul A1 h (d_del (t_den f) 0) (poly_of_scalar A1 b)) as [den2 h1]. cbn [fst snd].
    rewrite md_pmul. destruct (pmul A1 h1 (t_num f) (poly_of_scalar A1 a)) as [num2 h2]. cbn [fst snd].
    rewrite <- Hnum, <- md_setitem. apply md_mk.
  Qed.

  Fixpoint mexp (e : @gfexp C1) : @gfexp C2 :=
    match e with
    | FBase n d => FBase (md n) (md d)
    | FAdd a b => FAdd (mexp a) (mexp b)
    | FSub a b => FSub (mexp a) (mexp b)
    | FMul a b => FMul (mexp a) (mexp b)
    | FNeg a => FNeg (mexp a)
    | FMulR a c => FMulR (mexp a) (phi c)
    | FMulL c a => FMulL (phi c) (mexp a)
    | FAddR a c => FAddR (mexp a) (phi c)
    | FAddL c a => FAddL (phi c) (mexp a)
    | FDivR a c => FDivR (mexp a) (phi c)
    end.

  Theorem build_hom : forall e h, build A2 (mexp e) h = bres_map mf (build A1 e h).
  Proof.
    induction e; intro h; simpl.
    - apply md_mk.
    - rewrite IHe1. destruct (build A1 e1 h) as [f h1|]; simpl; [|reflexivity].
      rewrite IHe2. destruct (build A1 e2 h1) as [g h2|]; simpl; [|reflexivity]. apply md_fadd.
    - rewrite IHe1. destruct (build A1 e1 h) as [f h1|]; simpl; [|reflexivity].
      rewrite IHe2. destruct (build A1 e2 h1) as [g h2|]; simpl; [|reflexivity].
      rewrite md_fneg. destruct (fneg A1 h2 g) as [g' h3|]; simpl; [|reflexivity]. apply md_fadd.
    - rewrite IHe1. destruct (build A1 e1 h) as [f h1|]; simpl; [|reflexivity].
      rewrite IHe2. destruct (build A1 e2 h1) as [g h2|]; simpl; [|reflexivity]. apply md_fmul.
    - rewrite IHe. destruct (build A1 e h) as [f h1|]; simpl; [|reflexivity]. apply md_fneg.
    - rewrite IHe. destruct (build A1 e h) as [f h1|]; simpl; [|reflexivity]. apply md_fmul_scalar.
    - rewrite IHe. destruct (build A1 e h) as [f h1|]; simpl; [|reflexivity].
      rewrite md_zf. destruct (zf_scalar A1 h1 c) as [g h2|]; simpl; [|reflexivity]. apply md_fmul.
    - rewrite IHe. destruct (build A1 e h) as [f h1|]; simpl; [|reflexivity].
      rewrite md_zf. destruct (zf_scalar A1 h1 c) as [g h2|]; simpl; [|reflexivity]. apply md_fadd.
    - rewrite IHe. destruct (build A1 e h) as [f h1|]; simpl; [|reflexivity].
      rewrite md_zf. destruct (zf_scalar A1 h1 c) as [g h2|]; simpl; [|reflexivity]. apply md_fadd.
    - rewrite IHe. destruct (build A1 e h) as [f h1|]; simpl; [|reflexivity].
      rewrite Hrecip. destruct (ca_recip A1 c); simpl; [|reflexivity]. apply md_fmul_scalar.
  Qed.
End Hom.

(* ------------------------------------------------ the instance: freezing *)
Lemma xdeps_nonempty e : xdeps e <> [].
Proof.
  induction e; simpl; try assumption; try discriminate.
  intro H. apply app_eq_nil in H. destruct H as [H _]. exact (IHe1 H).
Qed.
Lemma is_nil_xdeps e : is_nil (xdeps e) = false.
Proof. destruct (xdeps e) eqn:E; [exfalso; exact (xdeps_nonempty e E)|reflexivity]. Qed.

Lemma oq_eqb_spec a b : oq_eqb a b = true <-> a = b.
Proof. apply option_eqb_spec. apply Qc_eqb_spec. Qed.
Lemma oq_some_eqb x y : oq_eqb (Some x) (Some y) = Qc_eqb x y.
Proof. reflexivity. Qed.

Section Freeze.
  Variable V : nat -> Qc.
  Let phi := freeze V.

  Lemma fr_add a b : phi (ca_add coef_alg a b) = ca_add frozen_alg (phi a) (phi b).
  Proof.
    destruct a as [x|l], b as [y|r]; simpl; unfold s_add; simpl; try reflexivity.
    rewrite app_nil_r. reflexivity.
  Qed.
  Lemma fr_mul a b : phi (ca_mul coef_alg a b) = ca_mul frozen_alg (phi a) (phi b).
  Proof.
    destruct a as [x|l], b as [y|r]; simpl; unfold s_mul; simpl; try reflexivity.
    rewrite app_nil_r. reflexivity.
  Qed.
  Lemma fr_neg a : phi (ca_neg coef_alg a) = ca_neg frozen_alg (phi a).
  Proof. destruct a; reflexivity. Qed.
  Lemma fr_recip a : ca_recip frozen_alg (phi a) = option_map phi (ca_recip coef_alg a).
  Proof.
    destruct a as [x|r]; simpl; unfold s_recip; simpl.
    - unfold oq_eqb, option_eqb. destruct (Qc_eqb x 0); reflexivity.
    - rewrite is_nil_xdeps. reflexivity.
  Qed.
  Lemma fr_zero a : ca_zero_num frozen_alg (phi a) = ca_zero_num coef_alg a.
  Proof. destruct a as [x|r]; simpl; unfold s_zero_num; simpl; [reflexivity|]. rewrite is_nil_xdeps. reflexivity. Qed.
  Lemma fr_equal a b : ca_equal frozen_alg (phi a) (phi b) = ca_equal coef_alg a b.
  Proof.
    destruct a as [x|l], b as [y|r]; simpl; unfold s_equal; simpl; try reflexivity;
      rewrite ?is_nil_xdeps, ?andb_false_r; reflexivity.
  Qed.
  Lemma fr_hub h n c a : phi (ca_hub coef_alg h n c a) = ca_hub frozen_alg h n c (phi a).
  Proof. destruct a; reflexivity. Qed.
  Lemma fr_num q : phi (ca_num coef_alg q) = ca_num frozen_alg q.
  Proof. reflexivity. Qed.

  Lemma freeze_exp_mexp e : freeze_exp V e = mexp phi e.
  Proof. induction e; simpl; rewrite ?IHe, ?IHe1, ?IHe2; reflexivity. Qed.

  (* the arithmetic on filters with Stream coefficients, seen at one instant, is
     the arithmetic on the coefficients frozen at that instant *)
  Lemma build_freeze e h :
    build frozen_alg (freeze_exp V e) h = bres_map (freeze_filt V) (build coef_alg e h).
  Proof.
    rewrite freeze_exp_mexp.
    apply (build_hom coef_alg frozen_alg phi fr_add fr_mul fr_neg fr_recip fr_zero fr_equal fr_hub fr_num).
  Qed.

  Lemma padd_freeze a b : freeze_data V (padd coef_alg a b) = padd frozen_alg (freeze_data V a) (freeze_data V b).
  Proof. apply (md_padd coef_alg frozen_alg phi fr_add fr_zero). Qed.
  Lemma pmul_freeze h a b :
    pmul frozen_alg h (freeze_data V a) (freeze_data V b)
    = (freeze_data V (fst (pmul coef_alg h a b)), snd (pmul coef_alg h a b)).
  Proof. apply (md_pmul coef_alg frozen_alg phi fr_add fr_mul fr_zero fr_hub). Qed.
  Lemma pneg_freeze a : freeze_data V (pneg coef_alg a) = pneg frozen_alg (freeze_data V a).
  Proof. apply (md_pneg coef_alg frozen_alg phi fr_neg fr_zero). Qed.

  (* the variable-gain branch: the filter handed to the code generator is, at
     every instant, the frozen filter divided through by the frozen 1 / a0 *)
  Lemma prepare_freeze h f e0 :
    t_getitem coef_alg (t_den f) 0 = CStr e0 ->
    forall r, prepare h f = Ok r ->
    bres_map (freeze_filt V) r
    = divide_through frozen_alg (S h) (freeze_filt V f)
        (SC (xdeps e0) (odiv (Some 1) (xval V e0))) (SC (xdeps e0) (odiv (Some 1) (xval V e0))).
  Proof.
    intros H0 r Hp. unfold prepare in Hp. destruct (t_any_negative f); [discriminate|].
    rewrite H0 in Hp. injection Hp as <-.
    symmetry.
    exact (md_divide_through coef_alg frozen_alg phi fr_add fr_mul fr_zero fr_hub fr_num (S h) f
             (CStr (XTee h 2 0 (XCS ODiv 1 e0))) (CStr (XTee h 2 1 (XCS ODiv 1 e0)))).
  Qed.
End Freeze.

Lemma poly_freeze (V : nat -> Qc) (h : nat) (a b : tdata) :
  freeze_data V (padd coef_alg a b) = padd frozen_alg (freeze_data V a) (freeze_data V b) /\
  pmul frozen_alg h (freeze_data V a) (freeze_data V b)
    = (freeze_data V (fst (pmul coef_alg h a b)), snd (pmul coef_alg h a b)) /\
  freeze_data V (pneg coef_alg a) = pneg frozen_alg (freeze_data V a).
Proof. exact (conj (padd_freeze V a b) (conj (pmul_freeze V h a b) (pneg_freeze V a))). Qed.
