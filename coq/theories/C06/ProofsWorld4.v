(* C06 - Part 4: every filter the arithmetic builds from distinct sources and constants
   is linear (induction over the expression). *)
From Coq Require Import List Bool Arith ZArith QArith Qcanon Lia Permutation.
From AL Require Import Base.CaseLib C04.Model C06.Model C06.Spec.
From AL Require Import C06.ProofsPull C06.ProofsLoop C06.ProofsWf C06.ProofsEq C06.ProofsKeys C06.ProofsLin C06.ProofsLin2 C06.ProofsLin3 C06.ProofsLin4.
From AL Require Import C06.ProofsWorld C06.ProofsWorld2 C06.ProofsWorld3.
Import ListNotations.

Lemma simple_cokx HT c : simple_coef c -> cokx HT c.
Proof. destruct c as [q|e]; simpl; [trivial|]. destruct e; simpl; tauto. Qed.
Lemma simple_dokx HT (d : tdata) : (forall kv, In kv d -> simple_coef (snd kv)) -> dokx HT d.
Proof. intros H kv Hin. apply simple_cokx. apply H. exact Hin. Qed.

(* -x keeps the leaves *)
Lemma ctops_cneg c : ctops (cneg c) = ctops c.
Proof. destruct c; reflexivity. Qed.
Lemma pneg_tops (d : tdata) : dtops (pneg coef_alg d) = dtops d.
Proof.
  unfold pneg. rewrite compact_tops. unfold dtops. rewrite flat_map_map.
  apply flat_map_ext_in'. intros kv _. cbn [snd ca_neg coef_alg]. apply ctops_cneg.
Qed.
Lemma pneg_okx HT (d : tdata) : dokx HT d -> dokx HT (pneg coef_alg d).
Proof.
  intro H. unfold pneg. apply compact_okx. intros kv Hin. apply in_map_iff in Hin. destruct Hin as [x [<- Hx]].
  cbn [snd ca_neg coef_alg]. specialize (H x Hx). destruct (snd x); exact H.
Qed.
Lemma fneg_world HT h (f : tfilt) X r h' : FW HT h f X -> fneg coef_alg h f = BOk r h' ->
  exists HT', incl HT HT' /\ FW HT' h' r X.
Proof.
  intros (On & Od & Hw). unfold fneg. apply mk_world; [rewrite pneg_tops; exact Hw|apply pneg_okx; exact On|exact Od].
Qed.

(* the literals of an expression *)
Fixpoint esrcs (e : fexp) : list leaf :=
  match e with
  | FBase n d => dtops n ++ dtops d
  | FAdd a b | FSub a b | FMul a b => esrcs a ++ esrcs b
  | FNeg a => esrcs a
  | FMulR a c | FMulL c a | FAddR a c | FAddL c a | FDivR a c => esrcs a ++ ctops c
  end.
Fixpoint fexp_simple (e : fexp) : Prop :=
  match e with
  | FBase n d => forall kv, In kv (n ++ d) -> simple_coef (snd kv)
  | FAdd a b | FSub a b | FMul a b => fexp_simple a /\ fexp_simple b
  | FNeg a => fexp_simple a
  | FMulR a c | FMulL c a | FAddR a c | FAddL c a | FDivR a c => fexp_simple a /\ simple_coef c
  end.
(* products, scalings (by numbers and Streams, both sides), division by a number or
   Stream, negation *)
Fixpoint mul_only (e : fexp) : Prop :=
  match e with
  | FBase _ _ => True
  | FMul a b => mul_only a /\ mul_only b
  | FNeg a | FMulR a _ | FMulL _ a | FDivR a _ => mul_only a
  | _ => False
  end.

Lemma recip_simple c r : simple_coef c -> ca_recip coef_alg c = Some r ->
  ctops r = ctops c /\ forall HT, cokx HT r.
Proof.
  destruct c as [q|e]; simpl; intros Hs H.
  - destruct (Qc_eqb q 0); [discriminate|]. injection H as <-. split; [reflexivity|intro; exact I].
  - destruct e; try contradiction. injection H as <-. split; [reflexivity|intro; exact I].
Qed.

Lemma build_world_mul : forall e, mul_only e -> fexp_simple e ->
  forall HT h X f h', Wl HT h (esrcs e ++ X) -> build coef_alg e h = BOk f h' ->
  exists HT', incl HT HT' /\ FW HT' h' f X.
Proof.
  induction e; intros Hm Hs HT h X f h' Hw Hb; simpl in Hm, Hs, Hw; cbn [build bbind] in Hb; try contradiction.
  - (* FBase *)
    rewrite <- app_assoc in Hw. apply (mk_world HT h num den X f h' Hw); [| |exact Hb];
      apply simple_dokx; intros kv Hin; apply Hs; apply in_or_app; [left|right]; exact Hin.
  - (* FMul *)
    destruct Hm as [M1 M2]. destruct Hs as [S1 S2].
    destruct (build coef_alg e1 h) as [f1 h1|] eqn:E1; [|discriminate]. cbn [bbind] in Hb.
    destruct (build coef_alg e2 h1) as [f2 h2|] eqn:E2; [|discriminate]. cbn [bbind] in Hb.
    rewrite <- app_assoc in Hw.
    destruct (IHe1 M1 S1 HT h (esrcs e2 ++ X) f1 h1 Hw E1) as (HT1 & I1 & (O1n & O1d & W1)).
    assert (Wl HT1 h1 (esrcs e2 ++ (dtops (t_num f1) ++ dtops (t_den f1) ++ X))) as W1' by (apply (Wl_perm _ _ _ _ W1); perm_solve).
    destruct (IHe2 M2 S2 HT1 h1 _ f2 h2 W1' E2) as (HT2 & I2 & (O2n & O2d & W2)).
    assert (Wl HT2 h2 (dtops (t_num f1) ++ dtops (t_den f1) ++ dtops (t_num f2) ++ dtops (t_den f2) ++ X)) as W2'
      by (apply (Wl_perm _ _ _ _ W2); perm_solve).
    destruct (fmul_world HT2 h2 f1 f2 X f h' (dokx_mono _ _ _ I2 O1n) (dokx_mono _ _ _ I2 O1d) O2n O2d W2' Hb) as (HT3 & I3 & HF).
    exists HT3. split; [intros x Hx; apply I3, I2, I1; exact Hx|exact HF].
  - (* FNeg *)
    destruct (build coef_alg e h) as [f1 h1|] eqn:E1; [|discriminate]. cbn [bbind] in Hb.
    destruct (IHe Hm Hs HT h X f1 h1 Hw E1) as (HT1 & I1 & HF1).
    destruct (fneg_world HT1 h1 f1 X f h' HF1 Hb) as (HT2 & I2 & HF).
    exists HT2. split; [intros x Hx; apply I2, I1; exact Hx|exact HF].
  - (* FMulR *)
    destruct Hs as [S1 Sc].
    destruct (build coef_alg e h) as [f1 h1|] eqn:E1; [|discriminate]. cbn [bbind] in Hb.
    rewrite <- app_assoc in Hw.
    destruct (IHe Hm S1 HT h (ctops c ++ X) f1 h1 Hw E1) as (HT1 & I1 & (O1n & O1d & W1)).
    destruct (fmul_scalar_world HT1 h1 f1 c X f h' O1n O1d (simple_cokx HT1 c Sc) W1 Hb) as (HT2 & I2 & HF).
    exists HT2. split; [intros x Hx; apply I2, I1; exact Hx|exact HF].
  - (* FMulL *)
    destruct Hs as [S1 Sc].
    destruct (build coef_alg e h) as [f1 h1|] eqn:E1; [|discriminate]. cbn [bbind] in Hb.
    destruct (zf_scalar coef_alg h1 c) as [g h2|] eqn:E2; [|discriminate]. cbn [bbind] in Hb.
    rewrite <- app_assoc in Hw.
    destruct (IHe Hm S1 HT h (ctops c ++ X) f1 h1 Hw E1) as (HT1 & I1 & (O1n & O1d & W1)).
    assert (Wl HT1 h1 (ctops c ++ (dtops (t_num f1) ++ dtops (t_den f1) ++ X))) as W1' by (apply (Wl_perm _ _ _ _ W1); perm_solve).
    destruct (zf_world HT1 h1 c _ g h2 (simple_cokx HT1 c Sc) W1' E2) as (HT2 & I2 & (Ogn & Ogd & W2)).
    assert (Wl HT2 h2 (dtops (t_num g) ++ dtops (t_den g) ++ dtops (t_num f1) ++ dtops (t_den f1) ++ X)) as W2'
      by (apply (Wl_perm _ _ _ _ W2); perm_solve).
    destruct (fmul_world HT2 h2 g f1 X f h' Ogn Ogd (dokx_mono _ _ _ I2 O1n) (dokx_mono _ _ _ I2 O1d) W2' Hb) as (HT3 & I3 & HF).
    exists HT3. split; [intros x Hx; apply I3, I2, I1; exact Hx|exact HF].
  - (* FDivR *)
    destruct Hs as [S1 Sc].
    destruct (build coef_alg e h) as [f1 h1|] eqn:E1; [|discriminate]. cbn [bbind] in Hb.
    destruct (ca_recip coef_alg c) as [r|] eqn:Er; [|discriminate].
    destruct (recip_simple c r Sc Er) as [Et Eo].
    rewrite <- app_assoc in Hw.
    destruct (IHe Hm S1 HT h (ctops c ++ X) f1 h1 Hw E1) as (HT1 & I1 & (O1n & O1d & W1)).
    rewrite <- Et in W1.
    destruct (fmul_scalar_world HT1 h1 f1 r X f h' O1n O1d (Eo HT1) W1 Hb) as (HT2 & I2 & HF).
    exists HT2. split; [intros x Hx; apply I2, I1; exact Hx|exact HF].
Qed.

(* a filter alone in its world is a linear family *)
Lemma FW_linf HT hn (f : tfilt) : FW HT hn f [] -> linf HT f.
Proof.
  intros (On & Od & (H1 & H2 & H3 & H4 & _)).
  assert (all_leaves HT f = (dtops (t_num f) ++ dtops (t_den f) ++ []) ++ ptops HT (map fst HT)) as E.
  { unfold all_leaves. rewrite flat_map_app, <- !dtops_streams, app_nil_r. reflexivity. }
  split; [exact H1|]. split.
  - intros h n p Hin. destruct (H2 h n p Hin) as (A & B & _). split; assumption.
  - split; [apply Forall_app; split; apply dokx_streams; assumption|]. rewrite E. split; assumption.
Qed.

(* the literals: pairwise distinct sources, none of them the input *)
Lemma simple_ctops c : simple_coef c -> forall l, In l (ctops c) -> exists i, l = LSrc i.
Proof.
  destruct c as [q|e]; simpl; intros Hs l Hin; [destruct Hin|]. destruct e; try contradiction.
  destruct Hin as [<-|[]]. eexists. reflexivity.
Qed.
Lemma simple_esrcs e : fexp_simple e -> forall l, In l (esrcs e) -> exists i, l = LSrc i.
Proof.
  induction e; simpl; intros Hs l Hin;
    try (destruct Hs as [S1 S2]; apply in_app_or in Hin; destruct Hin as [Hin|Hin]; [eauto|eauto using simple_ctops]; fail);
    eauto.
  rewrite <- dtops_app in Hin. unfold dtops in Hin. apply in_flat_map in Hin. destruct Hin as [kv [Hkv Hl]].
  exact (simple_ctops _ (Hs kv Hkv) l Hl).
Qed.

Lemma world0 e : fexp_simple e -> NoDup (esrcs e) -> ~ In (LSrc 0) (esrcs e) -> Wl [] 0 (esrcs e ++ []).
Proof.
  intros Hs Hnd H0. rewrite app_nil_r. split; [constructor|]. split; [intros h n p []|].
  simpl. rewrite app_nil_r. split; [exact Hnd|]. split; [exact H0|].
  intros h c Hin. destruct (simple_esrcs e Hs _ Hin) as [i E]. discriminate.
Qed.

(* every filter built by products, scalings, divisions by a number / Stream and negations
   of filters made of pairwise distinct sources and constants is a linear family *)
Theorem built_linf_mul e f h' : mul_only e -> fexp_simple e ->
  NoDup (esrcs e) -> ~ In (LSrc 0) (esrcs e) ->
  build coef_alg e 0 = BOk f h' -> exists HT, linf HT f.
Proof.
  intros Hm Hs Hnd H0 Hb.
  destruct (build_world_mul e Hm Hs [] 0 [] f h' (world0 e Hs Hnd H0) Hb) as (HT & _ & HF).
  exists HT. exact (FW_linf HT h' f HF).
Qed.

(* end to end for products / scalings with a number as gain: nothing evaluated on samples *)
Theorem products_round_spec S e f h1 h2 zero p memory fuel :
  mul_only e -> fexp_simple e -> bases_ok e ->
  NoDup (esrcs e) -> ~ In (LSrc 0) (esrcs e) ->
  build coef_alg e 0 = BOk f h1 ->
  prepare h1 f = Ok (BOk f h2) -> tcodegen f zero = Ok (TGen p) ->
  round_spec S (stream_iters (t_num f)) (stream_iters (t_den f)) p fuel 0
             (unpack (p_mvars (tp_prog p)) memory empty_env)
             (assign_all (p_dvars (tp_prog p)) zero empty_env)
             (run_tv S (TGen p) f memory zero fuel) /\
  Forall (fun seg => seg = 0%nat :: snd (aterms (stream_iters (t_num f)) (stream_iters (t_den f))
                                               (p_terms (tp_prog p)) p_zero))
         (segs (run_tv S (TGen p) f memory zero fuel) []).
Proof.
  intros Hm Hs Hbs Hnd H0 Hb Hp Hc.
  destruct (built_keys_ok e 0 f h1 (BOk f h2) Hbs Hb Hp) as [Kn Kd].
  destruct (built_linf_mul e f h1 Hm Hs Hnd H0 Hb) as [HT Hl].
  split.
  - exact (lin_round_spec S f zero p memory fuel HT Kn Kd Hl Hc).
  - exact (lin_read_once S f zero p memory fuel HT Kn Kd Hl Hc).
Qed.
