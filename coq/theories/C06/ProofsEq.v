(* C06 - the difference equation in sequence form: the sum of the generated
   terms is the sum over the coefficient tables frozen at the instant, and the
   register files hold the past inputs / outputs. *)
From Coq Require Import List Bool Arith ZArith QArith Qcanon Lia Permutation.
From AL Require Import Base.CaseLib C04.Model C04.Spec C04.Lib C04.ProofsLoop C04.ProofsCall.
From AL Require Import C06.Model C06.Spec C06.ProofsPull C06.ProofsLoop C06.ProofsWf.
Import ListNotations.
Open Scope Qc_scope.

(* the value of a coefficient at an instant (0 where a Stream is undefined) *)
Definition cval (V : nat -> Qc) (c : coef) : Qc :=
  match c with CNum q => q | CStr e => match xval V e with Some v => v | None => 0 end end.
(* the coefficient table at an instant *)
Definition vtab (V : nat -> Qc) (d : tdata) : pdata := map (fun kv => (fst kv, cval V (snd kv))) d.

Lemma tsum_app V bs az a b m d : forall acc,
  tsum V bs az (a ++ b) m d acc
  = match tsum V bs az a m d acc with Some x => tsum V bs az b m d x | None => None end.
Proof.
  induction a as [|t r IH]; intro acc; simpl; [reflexivity|]. destruct t as [c|k|k].
  - apply IH.
  - destruct (lookup bs k); [|reflexivity]. destruct (xval V c); [apply IH|reflexivity].
  - destruct (lookup az k); [|reflexivity]. destruct (xval V c); [apply IH|reflexivity].
Qed.

Lemma tsum_consts V bs az ts m d : forall acc,
  tsum V bs az (map TConst ts) m d acc = Some (acc + lsum (eval_term m d) ts).
Proof.
  induction ts as [|t r IH]; intro acc; simpl; [f_equal; ring|]. rewrite IH. f_equal. ring.
Qed.

(* the iterator of a Stream coefficient is found under its key *)
Lemma lookup_iters (d : tdata) : NoDup (map fst d) -> (forall kv, In kv d -> (0 <= fst kv)%Z) ->
  forall k e, In (k, CStr e) d -> lookup (stream_iters d) (Z.to_nat k) = Some e.
Proof.
  induction d as [|kv r IH]; intros Hnd Hk k e Hin; [destruct Hin|].
  inversion Hnd as [|? ? Hn Hr]; subst. unfold stream_iters. simpl flat_map.
  destruct Hin as [->|Hin].
  - simpl. rewrite Nat.eqb_refl. reflexivity.
  - assert (lookup (stream_iters r) (Z.to_nat k) = Some e) as Hrec.
    { apply IH; [exact Hr|intros kv' H'; apply Hk; right; exact H'|exact Hin]. }
    destruct kv as [k0 c0]. destruct c0 as [q|e0]; simpl; [exact Hrec|].
    destruct (Nat.eqb (Z.to_nat k0) (Z.to_nat k)) eqn:E; [|exact Hrec].
    exfalso. apply Nat.eqb_eq in E.
    assert (0 <= k0)%Z by (apply (Hk (k0, CStr e0)); left; reflexivity).
    assert (0 <= k)%Z by (apply (Hk (k, CStr e)); right; exact Hin).
    assert (k0 = k) by lia. subst k0. apply Hn. simpl.
    change k with (fst (k, CStr e)). apply in_map. exact Hin.
Qed.

Lemma num_term_single m d k q : lsum (eval_term m d) (num_term (k, q)) = q * d (Z.to_nat k).
Proof.
  pose proof (num_terms_sum m d [(k, q)]) as H. simpl flat_map in H. rewrite app_nil_r in H.
  rewrite H. simpl. ring.
Qed.
Lemma den_term_single m d k q :
  lsum (eval_term m d) (den_term (k, q)) = - (if (k =? 0)%Z then 0 else q * m (Z.to_nat k)).
Proof.
  pose proof (den_terms_sum m d [(k, q)]) as H. simpl flat_map in H. rewrite app_nil_r in H.
  rewrite H. simpl. destruct (k =? 0)%Z; simpl; ring.
Qed.

(* numerator terms: sum_k b_k * d_k *)
Lemma tsum_num V bs az m d (l : tdata) :
  (forall k e, In (k, CStr e) l -> lookup bs (Z.to_nat k) = Some e) ->
  forall acc r, tsum V bs az (flat_map num_tterm l) m d acc = Some r ->
  r = acc + psum (vtab V l) (fun k => d (Z.to_nat k)).
Proof.
  induction l as [|kv t IH]; intros Hl acc r H.
  - simpl in H. injection H as <-. simpl. ring.
  - simpl flat_map in H. rewrite tsum_app in H. destruct kv as [k c].
    assert (forall k' e', In (k', CStr e') t -> lookup bs (Z.to_nat k') = Some e') as Hl'
      by (intros; apply Hl; right; assumption).
    destruct c as [q|e]; change (num_tterm (k, CNum q)) with (map TConst (num_term (k, q))) in H ||
      change (num_tterm (k, CStr e)) with [TNextB (Z.to_nat k)] in H.
    + rewrite tsum_consts in H. rewrite (IH Hl' _ _ H), num_term_single. simpl. ring.
    + simpl in H. rewrite (Hl k e (or_introl eq_refl)) in H.
      simpl. destruct (xval V e) as [v|]; [|discriminate].
      rewrite (IH Hl' _ _ H). ring.
Qed.

(* denominator terms: - sum_{k>=1} a_k * m_k (the key 0 holds a number: the gain) *)
Lemma tsum_den V bs az m d (l : tdata) :
  (forall k e, In (k, CStr e) l -> lookup az (Z.to_nat k) = Some e /\ k <> 0%Z) ->
  forall acc r, tsum V bs az (flat_map den_tterm l) m d acc = Some r ->
  r = acc - psum (feedback (vtab V l)) (fun k => m (Z.to_nat k)).
Proof.
  induction l as [|kv t IH]; intros Hl acc r H.
  - simpl in H. injection H as <-. simpl. ring.
  - simpl flat_map in H. rewrite tsum_app in H. destruct kv as [k c].
    assert (forall k' e', In (k', CStr e') t -> lookup az (Z.to_nat k') = Some e' /\ k' <> 0%Z) as Hl'
      by (intros; apply Hl; right; assumption).
    destruct c as [q|e]; change (den_tterm (k, CNum q)) with (map TConst (den_term (k, q))) in H ||
      change (den_tterm (k, CStr e)) with [TNextA (Z.to_nat k)] in H.
    + rewrite tsum_consts in H. rewrite (IH Hl' _ _ H), den_term_single. simpl.
      destruct (k =? 0)%Z; simpl; ring.
    + destruct (Hl k e (or_introl eq_refl)) as [Hlk Hk0]. simpl in H. rewrite Hlk in H.
      simpl. apply Z.eqb_neq in Hk0. rewrite Hk0. simpl.
      destruct (xval V e) as [v|]; [|discriminate].
      rewrite (IH Hl' _ _ H). ring.
Qed.

(* ------------------------------------------------------- tables and codegen *)
Definition keys_ok (d : tdata) : Prop := NoDup (map fst d) /\ forall kv, In kv d -> (0 <= fst kv)%Z.

Lemma tinsert_perm {A} (kv : Z * A) l : Permutation (tinsert kv l) (kv :: l).
Proof.
  induction l as [|h t IH]; simpl; [reflexivity|].
  destruct (fst kv <=? fst h)%Z; [reflexivity|]. rewrite IH. apply perm_swap.
Qed.
Lemma tterms_perm {A} (d : list (Z * A)) : Permutation (tterms d) d.
Proof.
  unfold tterms. induction d as [|kv r IH]; simpl; [reflexivity|].
  rewrite tinsert_perm. constructor. exact IH.
Qed.
Lemma vtab_perm V a b : Permutation a b -> Permutation (vtab V a) (vtab V b).
Proof. apply Permutation_map. Qed.
Lemma feedback_perm a b : Permutation a b -> Permutation (feedback a) (feedback b).
Proof.
  unfold feedback. induction 1; simpl.
  - reflexivity.
  - destruct (negb (fst x =? 0)%Z); [constructor|]; assumption.
  - destruct (negb (fst x =? 0)%Z), (negb (fst y =? 0)%Z); try reflexivity. apply perm_swap.
  - etransitivity; eassumption.
Qed.

Lemma tgain_no0 (l : tdata) : (forall kv, In kv l -> fst kv <> 0%Z) -> forall g0,
  fold_left (fun g kv => match snd kv with
                         | CNum q => if (fst kv =? 0)%Z then q else g
                         | CStr _ => g end) l g0 = g0.
Proof.
  induction l as [|kv r IH]; intros H g0; simpl; [reflexivity|].
  rewrite IH by (intros; apply H; right; assumption).
  destruct (snd kv); [|reflexivity].
  assert (fst kv <> 0%Z) as Hk by (apply H; left; reflexivity). apply Z.eqb_neq in Hk. rewrite Hk. reflexivity.
Qed.
Lemma tgain_of_spec (l : tdata) g : NoDup (map fst l) -> In (0%Z, CNum g) l -> tgain_of l = g.
Proof.
  unfold tgain_of. generalize (Q2Qc 0) as g0. induction l as [|kv r IH]; intros g0 Hnd Hin; [destruct Hin|].
  inversion Hnd as [|? ? Hn Hr]; subst. simpl. destruct Hin as [->|Hin].
  - simpl. apply tgain_no0. intros kv Hkv E. apply Hn. simpl. rewrite <- E.
    apply (in_map fst). exact Hkv.
  - apply IH; assumption.
Qed.

Lemma keys_perm_nodup {A} (a b : list (Z * A)) : Permutation a b -> NoDup (map fst a) -> NoDup (map fst b).
Proof. intros H. apply Permutation_NoDup. apply Permutation_map. exact H. Qed.

(* the value of the generated expression at an instant *)
Lemma round_value V (f : tfilt) g m d acc :
  keys_ok (t_num f) -> keys_ok (t_den f) -> In (0%Z, CNum g) (t_den f) -> g <> 0 ->
  tsum V (stream_iters (t_num f)) (stream_iters (t_den f))
       (flat_map num_tterm (tterms (t_num f)) ++ flat_map den_tterm (tterms (t_den f))) m d 0 = Some acc ->
  g * apply_gain (gain_form (tgain_of (tterms (t_den f)))) acc
  = psum (vtab V (t_num f)) (fun k => d (Z.to_nat k))
    - psum (feedback (vtab V (t_den f))) (fun k => m (Z.to_nat k)).
Proof.
  intros [Nn Kn] [Nd Kd] H0 Hg H.
  rewrite tsum_app in H.
  destruct (tsum V _ _ (flat_map num_tterm (tterms (t_num f))) m d 0) as [r1|] eqn:E1; [|discriminate].
  apply tsum_num in E1.
  2:{ intros k e Hin. apply (lookup_iters (t_num f) Nn Kn).
      apply (Permutation_in _ (tterms_perm (t_num f))). exact Hin. }
  apply tsum_den in H.
  2:{ intros k e Hin. apply (Permutation_in _ (tterms_perm (t_den f))) in Hin. split.
      - apply (lookup_iters (t_den f) Nd Kd). exact Hin.
      - intros ->. assert (CStr e = CNum g) as E; [|discriminate].
        clear -Nd Hin H0. induction (t_den f) as [|kv r IH]; [destruct Hin|].
        inversion Nd as [|? ? Hn Hr]; subst. simpl in Hin, H0.
        destruct Hin as [->|Hin], H0 as [E|H0].
        + congruence.
        + exfalso. apply Hn. simpl. apply (in_map fst _ _ H0).
        + subst kv. exfalso. apply Hn. simpl. apply (in_map fst _ _ Hin).
        + apply IH; assumption. }
  rewrite (tgain_of_spec _ g).
  2:{ apply (keys_perm_nodup _ _ (Permutation_sym (tterms_perm (t_den f)))). exact Nd. }
  2:{ apply (Permutation_in _ (Permutation_sym (tterms_perm (t_den f)))). exact H0. }
  rewrite apply_gain_form by exact Hg. subst acc r1.
  rewrite (psum_perm _ _ _ (vtab_perm V _ _ (tterms_perm (t_num f)))).
  rewrite (psum_perm _ _ _ (feedback_perm _ _ (vtab_perm V _ _ (tterms_perm (t_den f))))). ring.
Qed.

(* ----------------------------------------------- registers = past samples *)
Fixpoint yields (tr : list event) : list Qc :=
  match tr with [] => [] | EvYield y :: r => y :: yields r | _ :: r => yields r end.

Lemma yields_reads S n l rest : yields (map (ev_of S n) l ++ rest) = yields rest.
Proof. induction l as [|i r IH]; simpl; [reflexivity|exact IH]. Qed.
Lemma yields_no_yield rs last : reads_only rs -> (last = EvStop \/ exists e, last = EvRaise e) ->
  yields (rs ++ [last]) = [].
Proof.
  intros Hr Hl. induction rs as [|e r IH]; simpl.
  - destruct Hl as [->|[e ->]]; reflexivity.
  - inversion Hr as [|? ? He Hr']; subst. destruct e; try contradiction. apply IH. exact Hr'.
Qed.

(* the input seen from the instant n: item n+i of source 0, HX (-i) before *)
Definition xrel (S : sources) (n : nat) (HX : nat -> Qc) (i : Z) : Qc :=
  if (i <? 0)%Z then HX (Z.to_nat (- i)) else snapshot S (n + Z.to_nat i) 0.

Lemma xrel_shift S n x HX i : S 0%nat n = Some x ->
  xrel S (Datatypes.S n) (push x HX) i = xrel S n HX (i + 1)%Z.
Proof.
  intro Hx. unfold xrel, push.
  destruct (i <? 0)%Z eqn:E.
  - apply Z.ltb_lt in E.
    destruct (Z.to_nat (- i) =? 1)%nat eqn:E1.
    + apply Nat.eqb_eq in E1. assert (i = -1)%Z as -> by lia. simpl.
      rewrite Nat.add_0_r. unfold snapshot. rewrite Hx. reflexivity.
    + apply Nat.eqb_neq in E1. assert (i + 1 <? 0 = true)%Z as -> by (apply Z.ltb_lt; lia).
      f_equal. lia.
  - apply Z.ltb_ge in E. assert (i + 1 <? 0 = false)%Z as -> by (apply Z.ltb_ge; lia).
    f_equal. lia.
Qed.

Section Registers.
  Variable S : sources.
  Variables bs az : list (nat * cx).
  Variable p : tprog.
  Variables num den : tdata.
  Variable g : Qc.
  Variables lm ld : nat.
  Hypothesis Hexpr : forall V m d acc,
    tsum V bs az (p_terms (tp_prog p)) m d 0 = Some acc ->
    g * apply_gain (p_gain (tp_prog p)) acc
    = psum (vtab V num) (fun k => d (Z.to_nat k)) - psum (feedback (vtab V den)) (fun k => m (Z.to_nat k)).
  Hypothesis Hms : p_mshift (tp_prog p) = shift_lines lm.
  Hypothesis Hds : p_dshift (tp_prog p) = shift_lines ld.
  Hypothesis Hnum_keys : forall kv, In kv num -> (0 <= fst kv <= Z.of_nat ld)%Z.
  Hypothesis Hden_keys : forall kv, In kv den -> (0 <= fst kv <= Z.of_nat lm)%Z.

  Lemma round_diffeq : forall fuel n m d tr HX HY,
    round_spec S bs az p fuel n m d tr ->
    (forall k, (1 <= k <= lm)%nat -> m k = HY k) ->
    (forall k, (1 <= k <= ld)%nat -> d k = HX k) ->
    let ys := yields tr in
    forall j, (j < length ys)%nat ->
      g * ysig HY ys (Z.of_nat j)
      = psum (vtab (snapshot S (n + j)) num) (fun k => xrel S n HX (Z.of_nat j - k))
        - psum (feedback (vtab (snapshot S (n + j)) den)) (fun k => ysig HY ys (Z.of_nat j - k)).
  Proof.
    induction fuel as [|fuel IH]; intros n m d tr HX HY H Hm Hd; cbv zeta; simpl in H.
    - subst tr. simpl. intros j Hj. lia.
    - destruct (S 0%nat n) as [x|] eqn:Ex; [|subst tr; simpl; intros j Hj; lia].
      destruct (forallb (alive S n) _).
      2:{ destruct H as [rs [last [Hr [-> Hl]]]]. simpl yields.
          rewrite (yields_no_yield rs last Hr); [simpl; intros j Hj; lia|].
          destruct Hl as [->|[-> _]]; [left; reflexivity|right; eexists; reflexivity]. }
      destruct (tsum (snapshot S n) bs az (p_terms (tp_prog p)) m (upd d 0 x) 0) as [acc|] eqn:Et.
      2:{ destruct H as [rs [Hr ->]]. simpl yields.
          rewrite (yields_no_yield rs _ Hr); [simpl; intros j Hj; lia|right; eexists; reflexivity]. }
      destruct H as [tr' [-> H]].
      set (d0 := upd d 0 x) in *.
      set (m0 := apply_gain (p_gain (tp_prog p)) acc) in *.
      rewrite Hms, Hds in H.
      set (m' := exec_shifts (shift_lines lm) (upd m 0 m0)) in *.
      set (d' := exec_shifts (shift_lines ld) d0) in *.
      simpl yields. rewrite yields_reads. simpl yields.
      specialize (IH (Datatypes.S n) m' d' tr' (push x HX) (push m0 HY) H).
      assert (forall k, (1 <= k <= lm)%nat -> m' k = push m0 HY k) as Hm'.
      { intros k Hk. unfold m'. rewrite exec_shifts_spec.
        assert ((1 <=? k)%nat && (k <=? lm)%nat = true) as ->.
        { apply andb_true_iff; split; apply Nat.leb_le; lia. }
        unfold push. destruct (k =? 1)%nat eqn:E.
        - apply Nat.eqb_eq in E. subst k. apply upd_same.
        - apply Nat.eqb_neq in E. rewrite upd_other by lia. apply Hm. lia. }
      assert (forall k, (1 <= k <= ld)%nat -> d' k = push x HX k) as Hd'.
      { intros k Hk. unfold d'. rewrite exec_shifts_spec.
        assert ((1 <=? k)%nat && (k <=? ld)%nat = true) as ->.
        { apply andb_true_iff; split; apply Nat.leb_le; lia. }
        unfold push, d0. destruct (k =? 1)%nat eqn:E.
        - apply Nat.eqb_eq in E. subst k. apply upd_same.
        - apply Nat.eqb_neq in E. rewrite upd_other by lia. apply Hd. lia. }
      specialize (IH Hm' Hd'). cbv zeta in IH.
      intros j Hj. destruct j as [|j].
      + (* the sample computed now *)
        change (ysig HY (m0 :: yields tr') (Z.of_nat 0)) with m0.
        unfold m0. rewrite (Hexpr _ _ _ _ Et). rewrite Nat.add_0_r. f_equal.
        * apply psum_ext_in. intros kv Hin.
          assert (In (fst kv) (map fst num)) as Hk.
          { unfold vtab in Hin. apply in_map_iff in Hin. destruct Hin as [kv0 [<- Hin0]]. simpl.
            apply in_map. exact Hin0. }
          apply in_map_iff in Hk. destruct Hk as [kv0 [Ek Hin0]]. specialize (Hnum_keys kv0 Hin0).
          rewrite Ek in Hnum_keys.
          unfold xrel, d0. simpl Z.of_nat.
          destruct (0 - fst kv <? 0)%Z eqn:E.
          -- apply Z.ltb_lt in E. rewrite upd_other by lia.
             replace (Z.to_nat (- (0 - fst kv))) with (Z.to_nat (fst kv)) by lia. apply Hd. lia.
          -- apply Z.ltb_ge in E. assert (fst kv = 0)%Z as -> by lia. simpl.
             rewrite Nat.add_0_r. unfold snapshot. rewrite Ex. apply upd_same.
        * rewrite !psum_feedback. apply psum_ext_in. intros kv Hin.
          assert (In (fst kv) (map fst den)) as Hk.
          { unfold vtab in Hin. apply in_map_iff in Hin. destruct Hin as [kv0 [<- Hin0]]. simpl.
            apply in_map. exact Hin0. }
          apply in_map_iff in Hk. destruct Hk as [kv0 [Ek Hin0]]. specialize (Hden_keys kv0 Hin0).
          rewrite Ek in Hden_keys.
          destruct (fst kv =? 0)%Z eqn:E0; [reflexivity|]. apply Z.eqb_neq in E0.
          unfold ysig. simpl Z.of_nat.
          assert (0 - fst kv <? 0 = true)%Z as -> by (apply Z.ltb_lt; lia).
          replace (Z.to_nat (- (0 - fst kv))) with (Z.to_nat (fst kv)) by lia. apply Hm. lia.
      + simpl in Hj. specialize (IH j ltac:(lia)).
        replace (Z.of_nat (Datatypes.S j)) with (Z.of_nat j + 1)%Z by lia.
        rewrite <- ysig_shift, IH.
        replace (Datatypes.S n + j)%nat with (n + Datatypes.S j)%nat by lia. f_equal.
        * apply psum_ext. intro k. rewrite (xrel_shift S n x HX _ Ex). f_equal. lia.
        * apply psum_ext. intro k. rewrite ysig_shift. f_equal. lia.
  Qed.
End Registers.

(* ------------------------------------------- the generator the library builds *)
Lemma tdense_len_vtab (V : nat -> Qc) (d : tdata) : tdense_len d = dense_len (vtab V d).
Proof.
  destruct d as [|kv r]; [reflexivity|]. simpl. f_equal. f_equal.
  generalize (fst kv). induction r as [|h t IH]; intro a; simpl; [reflexivity|]. apply IH.
Qed.

Lemma key_bound (V : nat -> Qc) (d : tdata) : (forall kv, In kv d -> (0 <= fst kv)%Z) ->
  forall kv, In kv d -> (0 <= fst kv <= Z.of_nat (tdense_len d - 1))%Z.
Proof.
  intros Hk kv Hin. split; [apply Hk; exact Hin|].
  rewrite (tdense_len_vtab V), dense_len_mxk.
  - apply (mxk_bound (vtab V d) (fst kv, cval V (snd kv))). unfold vtab.
    apply (in_map (fun kv => (fst kv, cval V (snd kv)))). exact Hin.
  - intros kv' Hin'. unfold vtab in Hin'. apply in_map_iff in Hin'. destruct Hin' as [kv0 [<- H0]].
    simpl. apply Hk. exact H0.
Qed.

Lemma tcodegen_prog (f : tfilt) zero p : tcodegen f zero = Ok (TGen p) ->
  tp_prog p = Prog (seq 1 (tdense_len (t_den f) - 1)) (seq 1 (tdense_len (t_num f) - 1))
                   (flat_map num_tterm (tterms (t_num f)) ++ flat_map den_tterm (tterms (t_den f)))
                   (gain_form (tgain_of (tterms (t_den f))))
                   (shift_lines (tdense_len (t_den f) - 1)) (shift_lines (tdense_len (t_num f) - 1)).
Proof.
  unfold tcodegen. destruct (t_any_negative f); [discriminate|].
  destruct (is_zero_num _); [discriminate|].
  destruct (flat_map num_tterm (tterms (t_num f)) ++ flat_map den_tterm (tterms (t_den f))) eqn:E; [discriminate|].
  intro H. injection H as <-. reflexivity.
Qed.

(* tv_diffeq for the filter handed to the code generator (a number g as gain) *)
Theorem diffeq_generated_r S (f : tfilt) g zero p mem fuel :
  keys_ok (t_num f) -> keys_ok (t_den f) -> In (0%Z, CNum g) (t_den f) -> g <> 0 ->
  tcodegen f zero = Ok (TGen p) ->
  (forall memory, round_spec S (stream_iters (t_num f)) (stream_iters (t_den f)) p fuel 0
             (unpack (p_mvars (tp_prog p)) memory empty_env)
             (assign_all (p_dvars (tp_prog p)) zero empty_env)
             (run_tv S (TGen p) f memory zero fuel)) ->
  let lm := t_mem_size f in
  let ys := yields (run_tv S (TGen p) f (normalise_memory lm zero mem) zero fuel) in
  forall j, (j < length ys)%nat ->
    g * ysig (past lm zero mem) ys (Z.of_nat j)
    = psum (vtab (snapshot S j) (t_num f)) (fun k => xrel S 0 (fun _ => zero) (Z.of_nat j - k))
      - psum (feedback (vtab (snapshot S j) (t_den f))) (fun k => ysig (past lm zero mem) ys (Z.of_nat j - k)).
Proof.
  intros Kn Kd H0 Hg Hc Hround lm ys j Hj.
  pose proof (tcodegen_prog f zero p Hc) as Hp.
  pose proof (Hround (normalise_memory lm zero mem)) as Hr.
  set (ld := (tdense_len (t_num f) - 1)%nat).
  assert (lm = (tdense_len (t_den f) - 1)%nat) as Elm by reflexivity.
  pose proof (round_diffeq S (stream_iters (t_num f)) (stream_iters (t_den f)) p (t_num f) (t_den f) g lm ld) as L.
  assert (forall V m d acc,
    tsum V (stream_iters (t_num f)) (stream_iters (t_den f)) (p_terms (tp_prog p)) m d 0 = Some acc ->
    g * apply_gain (p_gain (tp_prog p)) acc
    = psum (vtab V (t_num f)) (fun k => d (Z.to_nat k))
      - psum (feedback (vtab V (t_den f))) (fun k => m (Z.to_nat k))) as Hexpr.
  { intros V m d acc Ht. rewrite Hp in Ht |- *. simpl in Ht |- *.
    exact (round_value V f g m d acc Kn Kd H0 Hg Ht). }
  specialize (L Hexpr).
  assert (p_mshift (tp_prog p) = shift_lines lm) as Hms by (rewrite Hp; reflexivity).
  assert (p_dshift (tp_prog p) = shift_lines ld) as Hds by (rewrite Hp; reflexivity).
  specialize (L Hms Hds (key_bound (fun _ => 0) (t_num f) (proj2 Kn)) (key_bound (fun _ => 0) (t_den f) (proj2 Kd))).
  specialize (L fuel 0%nat _ _ _ (fun _ => zero) (past lm zero mem) Hr).
  assert (p_mvars (tp_prog p) = seq 1 lm) as Hmv by (rewrite Hp; reflexivity).
  assert (p_dvars (tp_prog p) = seq 1 ld) as Hdv by (rewrite Hp; reflexivity).
  cbv zeta in L. apply L; [| |exact Hj].
  - intros k Hk. rewrite Hmv, unpack_spec by (try apply normalise_memory_length; lia).
    apply normalise_memory_past. exact Hk.
  - intros k Hk. rewrite Hdv. apply assign_all_seq. exact Hk.
Qed.

Theorem diffeq_generated S (f : tfilt) g zero p mem fuel :
  keys_ok (t_num f) -> keys_ok (t_den f) -> In (0%Z, CNum g) (t_den f) -> g <> 0 ->
  tcodegen f zero = Ok (TGen p) -> wf_prog f p = true ->
  let lm := t_mem_size f in
  let ys := yields (run_tv S (TGen p) f (normalise_memory lm zero mem) zero fuel) in
  forall j, (j < length ys)%nat ->
    g * ysig (past lm zero mem) ys (Z.of_nat j)
    = psum (vtab (snapshot S j) (t_num f)) (fun k => xrel S 0 (fun _ => zero) (Z.of_nat j - k))
      - psum (feedback (vtab (snapshot S j) (t_den f))) (fun k => ysig (past lm zero mem) ys (Z.of_nat j - k)).
Proof.
  intros Kn Kd H0 Hg Hc Hwf.
  apply (diffeq_generated_r S f g zero p mem fuel Kn Kd H0 Hg Hc).
  intro memory. exact (run_tv_wf S f p memory zero fuel Hwf).
Qed.
