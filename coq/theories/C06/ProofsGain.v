(* C06 - the variable-gain branch made explicit: the filter handed to the code
   generator has the coefficients b_k * (1/a0), a_k * (1/a0), gain 1. *)
From Coq Require Import List Bool Arith ZArith QArith Qcanon Lia Permutation.
From AL Require Import Base.CaseLib C04.Model C04.Spec C04.Lib.
From AL Require Import C06.Model C06.Spec C06.ProofsPull C06.ProofsLoop C06.ProofsWf C06.ProofsEq.
Import ListNotations.
Open Scope Qc_scope.

Lemma flat_map_single {A B} (g : A -> B) l : flat_map (fun x => [g x]) l = map g l.
Proof. induction l as [|x r IH]; simpl; [reflexivity|]. rewrite IH. reflexivity. Qed.

Lemma d_get_none (d : tdata) k : ~ In k (map fst d) -> d_get d k = None.
Proof.
  unfold d_get. induction d as [|kv r IH]; intro H; simpl; [reflexivity|].
  destruct (fst kv =? k)%Z eqn:E.
  - apply Z.eqb_eq in E. exfalso. apply H. left. exact E.
  - apply IH. intro Hin. apply H. right. exact Hin.
Qed.

(* accumulating items with pairwise distinct new keys appends them *)
Lemma fold_acc_fresh (l : tdata) : forall acc,
  NoDup (map fst l) -> (forall kv, In kv l -> ~ In (fst kv) (map fst acc)) ->
  fold_left (fun a kv => d_acc coef_alg a (fst kv) (snd kv)) l acc = acc ++ l.
Proof.
  induction l as [|kv r IH]; intros acc Hnd Hf; simpl; [rewrite app_nil_r; reflexivity|].
  inversion Hnd as [|? ? Hn Hr]; subst.
  unfold d_acc at 2. rewrite d_get_none by (apply Hf; left; reflexivity).
  rewrite IH.
  - rewrite <- app_assoc. destruct kv. reflexivity.
  - exact Hr.
  - intros kv' Hin Hc. rewrite map_app in Hc. apply in_app_or in Hc. destruct Hc as [Hc|Hc].
    + apply (Hf kv' (or_intror Hin)). exact Hc.
    + simpl in Hc. destruct Hc as [Hc|[]]. apply Hn. rewrite Hc. apply in_map. exact Hin.
Qed.

Lemma tcompact_streams (l : tdata) : (forall kv, In kv l -> is_stream (snd kv) = true) ->
  tcompact coef_alg l = l.
Proof.
  induction l as [|kv r IH]; intro H; [reflexivity|].
  assert (is_stream (snd kv) = true) as Hs by (apply H; left; reflexivity).
  unfold tcompact in *. cbn [filter ca_zero_num coef_alg].
  assert (is_zero_num (snd kv) = false) as -> by (destruct (snd kv); [discriminate|reflexivity]).
  cbn [negb]. f_equal. apply IH. intros; apply H; right; assumption.
Qed.

(* Poly * Stream: every coefficient is multiplied by (a tee copy of) the stream *)
Definition scaled_item (h na : nat) (T : cx) (ia : nat * (Z * coef)) : Z * coef :=
  ((fst (snd ia) + 0)%Z,
   cmul (hub_copy (h + fst ia) 1 0 (snd (snd ia))) (hub_copy (h + na + 0) na (fst ia) (CStr T))).

Lemma keys_scaled h na T (a : tdata) : forall i,
  map fst (map (scaled_item h na T) (enum_from i a)) = map fst a.
Proof.
  induction a as [|x r IH]; intro i; simpl; [reflexivity|]. rewrite IH, Z.add_0_r. reflexivity.
Qed.

Lemma pmul_scalar_explicit h (a : tdata) T : NoDup (map fst a) ->
  fst (pmul coef_alg h a [(0%Z, CStr T)]) = map (scaled_item h (length a) T) (enum_from 0 a).
Proof.
  intro Hnd. unfold pmul. cbn [fst]. unfold pmul_items. cbn [length enum_from map].
  rewrite flat_map_single.
  change (map (fun ia => _) (enum_from 0 a)) with (map (scaled_item h (length a) T) (enum_from 0 a)).
  rewrite fold_acc_fresh.
  - simpl. apply tcompact_streams. intros kv Hin. apply in_map_iff in Hin. destruct Hin as [ia [<- _]].
    unfold scaled_item. simpl. destruct (hub_copy _ _ _ (snd (snd ia))); reflexivity.
  - rewrite keys_scaled. exact Hnd.
  - intros kv _ [].
Qed.

Lemma cval_scaled V h na T ia invv : xval V T = Some invv ->
  cval V (snd (scaled_item h na T ia)) = cval V (snd (snd ia)) * invv.
Proof.
  intro HT. unfold scaled_item. simpl. destruct (snd (snd ia)) as [q|e]; simpl; rewrite HT; simpl.
  - reflexivity.
  - destruct (xval V e); simpl; ring.
Qed.

Lemma vtab_scaled V h na T invv : xval V T = Some invv -> forall (a : tdata) i,
  vtab V (map (scaled_item h na T) (enum_from i a))
  = map (fun kv => ((fst kv + 0)%Z, cval V (snd kv) * invv)) a.
Proof.
  intros HT a. induction a as [|x r IH]; intro i; simpl; [reflexivity|].
  rewrite IH. f_equal. f_equal. apply (cval_scaled V h na T (i, x) invv HT).
Qed.

Lemma psum_scaled (a : tdata) V invv F :
  psum (map (fun kv => ((fst kv + 0)%Z, cval V (snd kv) * invv)) a) F = invv * psum (vtab V a) F.
Proof.
  induction a as [|x r IH]; simpl; [ring|]. rewrite IH. rewrite Z.add_0_r. ring.
Qed.


(* ---------------------------------------------------------- small table facts *)
Lemma d_get_in (d : tdata) k c : NoDup (map fst d) -> In (k, c) d -> d_get d k = Some c.
Proof.
  unfold d_get. induction d as [|kv r IH]; intros Hnd Hin; [destruct Hin|].
  inversion Hnd as [|? ? Hn Hr]; subst. simpl. destruct Hin as [->|Hin].
  - simpl. rewrite Z.eqb_refl. reflexivity.
  - destruct (fst kv =? k)%Z eqn:E.
    + apply Z.eqb_eq in E. exfalso. apply Hn. rewrite E. apply (in_map fst _ _ Hin).
    + apply IH; assumption.
Qed.

Lemma any_negative_ok (f : tfilt) : keys_ok (t_num f) -> keys_ok (t_den f) -> t_any_negative f = false.
Proof.
  intros [_ Kn] [_ Kd]. unfold t_any_negative. apply not_true_is_false. intro H.
  apply existsb_exists in H. destruct H as [kv [Hin Hlt]]. apply Z.ltb_lt in Hlt.
  apply in_app_or in Hin. destruct Hin as [Hin|Hin];
    apply (Permutation_in _ (tterms_perm _)) in Hin; [specialize (Kn kv Hin)|specialize (Kd kv Hin)]; lia.
Qed.

Lemma del_keys (d : tdata) : NoDup (map fst d) -> In 0%Z (map fst d) ->
  Permutation (map fst (d_del d 0) ++ [0%Z]) (map fst d).
Proof.
  unfold d_del. induction d as [|kv r IH]; intros Hnd Hin; [destruct Hin|].
  inversion Hnd as [|? ? Hn Hr]; subst. simpl. destruct (fst kv =? 0)%Z eqn:E; simpl.
  - apply Z.eqb_eq in E. rewrite E in *.
    assert (filter (fun kv0 : Z * coef => negb (fst kv0 =? 0)%Z) r = r) as ->.
    { clear -Hn. induction r as [|x t IH]; simpl; [reflexivity|].
      destruct (fst x =? 0)%Z eqn:Ex.
      - apply Z.eqb_eq in Ex. exfalso. apply Hn. left. exact Ex.
      - simpl. f_equal. apply IH. intro H. apply Hn. right. exact H. }
    rewrite Permutation_app_comm. reflexivity.
  - constructor. apply IH; [exact Hr|]. destruct Hin as [Hin|Hin]; [|exact Hin].
    apply Z.eqb_neq in E. contradiction.
Qed.

Lemma del_no0 (d : tdata) : ~ In 0%Z (map fst (d_del d 0)).
Proof.
  unfold d_del. intro H. apply in_map_iff in H. destruct H as [kv [E Hin]].
  apply filter_In in Hin. destruct Hin as [_ Hf]. rewrite E in Hf. discriminate.
Qed.
Lemma del_incl (d : tdata) kv : In kv (d_del d 0) -> In kv d.
Proof. unfold d_del. intro H. apply filter_In in H. tauto. Qed.
Lemma del_nodup (d : tdata) : NoDup (map fst d) -> NoDup (map fst (d_del d 0)).
Proof.
  unfold d_del. induction d as [|kv r IH]; intro H; simpl; [constructor|].
  inversion H as [|? ? Hn Hr]; subst. destruct (negb (fst kv =? 0)%Z); simpl; [|auto].
  constructor; [|auto]. intro Hin. apply Hn. apply in_map_iff in Hin. destruct Hin as [x [E Hx]].
  rewrite <- E. apply in_map. apply filter_In in Hx. tauto.
Qed.

Lemma psum_del V (d : tdata) F : F 0%Z = 0 -> psum (vtab V (d_del d 0)) F = psum (vtab V d) F.
Proof.
  intro H0. unfold d_del. induction d as [|kv r IH]; simpl; [reflexivity|].
  destruct (fst kv =? 0)%Z eqn:E; simpl; rewrite IH; [|reflexivity].
  apply Z.eqb_eq in E. rewrite E, H0. ring.
Qed.

Definition kmax (ks : list Z) : Z := fold_right (fun k m => Z.max m k) 0%Z ks.
Lemma kmax_perm a b : Permutation a b -> kmax a = kmax b.
Proof. induction 1; simpl; lia. Qed.
Lemma dense_kmax (d : tdata) : (forall kv, In kv d -> (0 <= fst kv)%Z) ->
  Z.of_nat (tdense_len d - 1) = kmax (map fst d).
Proof.
  intro Hk. rewrite (tdense_len_vtab (fun _ => 0)), C04.ProofsCall.dense_len_mxk.
  - unfold C04.ProofsCall.mxk, kmax, vtab. induction d as [|x r IH]; simpl; [reflexivity|].
    rewrite IH; [reflexivity|]. intros; apply Hk; right; assumption.
  - intros kv Hin. unfold vtab in Hin. apply in_map_iff in Hin. destruct Hin as [x [<- Hx]]. apply Hk. exact Hx.
Qed.

Lemma tmin_power_zero (d : tdata) : (forall kv, In kv d -> (0 <= fst kv)%Z) -> In 0%Z (map fst d) ->
  tmin_power d = Some 0%Z.
Proof.
  intros Hk H0. destruct d as [|kv r]; [destruct H0|]. simpl. f_equal.
  assert (forall l a, (forall x : Z * coef, In x l -> (0 <= fst x)%Z) -> (0 <= a)%Z ->
            (a = 0%Z \/ In 0%Z (map fst l)) ->
            fold_left (fun m (kv' : Z * coef) => Z.min m (fst kv')) l a = 0%Z) as G.
  { induction l as [|x t IH]; intros a Hl Ha Hz; simpl.
    - destruct Hz as [Hz|[]]. exact Hz.
    - apply IH.
      + intros; apply Hl; right; assumption.
      + assert (0 <= fst x)%Z by (apply Hl; left; reflexivity). lia.
      + destruct Hz as [->|[Hz|Hz]].
        * left. assert (0 <= fst x)%Z by (apply Hl; left; reflexivity). lia.
        * left. rewrite Hz. lia.
        * right. exact Hz. }
  apply G.
  - intros; apply Hk; right; assumption.
  - apply Hk. left. reflexivity.
  - destruct H0 as [H0|H0]; [left; exact H0|right; exact H0].
Qed.

(* --------------------------------------------------- the variable-gain branch *)
Lemma prepare_stream h (f : tfilt) e0 :
  keys_ok (t_num f) -> keys_ok (t_den f) -> In (0%Z, CStr e0) (t_den f) ->
  exists f' h',
    prepare h f = Ok (BOk f' h') /\
    keys_ok (t_num f') /\ keys_ok (t_den f') /\ In (0%Z, CNum 1) (t_den f') /\
    t_mem_size f' = t_mem_size f /\
    forall V a0, xval V e0 = Some a0 -> a0 <> 0 -> forall F,
      psum (vtab V (t_num f')) F = (1 / a0) * psum (vtab V (t_num f)) F /\
      psum (feedback (vtab V (t_den f'))) F = (1 / a0) * psum (feedback (vtab V (t_den f))) F.
Proof.
  intros [Nn Kn] [Nd Kd] H0.
  set (inv := XCS ODiv 1 e0).
  set (den1 := d_del (t_den f) 0).
  assert (NoDup (map fst den1)) as Nd1 by (apply del_nodup; exact Nd).
  set (den2 := map (scaled_item (S h) (length den1) (XTee h 2 1 inv)) (enum_from 0 den1)).
  set (h1 := (S h + length den1 + 1)%nat).
  set (num2 := map (scaled_item h1 (length (t_num f)) (XTee h 2 0 inv)) (enum_from 0 (t_num f))).
  set (den3 := den2 ++ [(0%Z, CNum 1)]).
  assert (map fst den2 = map fst den1) as Kd2 by apply keys_scaled.
  assert (map fst num2 = map fst (t_num f)) as Kn2 by apply keys_scaled.
  assert (In 0%Z (map fst (t_den f))) as H0k by (apply (in_map fst _ _ H0)).
  assert (Permutation (map fst den3) (map fst (t_den f))) as Pd.
  { unfold den3. rewrite map_app, Kd2. simpl. apply del_keys; assumption. }
  assert (forall kv, In kv den3 -> (0 <= fst kv)%Z) as Kd3.
  { intros kv Hin. assert (In (fst kv) (map fst den3)) as Hk by (apply in_map; exact Hin).
    apply (Permutation_in _ Pd) in Hk. apply in_map_iff in Hk. destruct Hk as [x [<- Hx]]. apply Kd. exact Hx. }
  assert (forall kv, In kv num2 -> (0 <= fst kv)%Z) as Kn3.
  { intros kv Hin. assert (In (fst kv) (map fst num2)) as Hk by (apply in_map; exact Hin).
    rewrite Kn2 in Hk. apply in_map_iff in Hk. destruct Hk as [x [<- Hx]]. apply Kn. exact Hx. }
  assert (forall l : tdata, (forall kv, In kv l -> is_stream (snd kv) = true \/ snd kv = CNum 1) ->
            tcompact coef_alg l = l) as Hcomp.
  { induction l as [|kv r IH]; intro H; [reflexivity|]. unfold tcompact in *. cbn [filter ca_zero_num coef_alg].
    assert (is_zero_num (snd kv) = false) as ->.
    { destruct (H kv (or_introl eq_refl)) as [Hs|Hs]; [destruct (snd kv); [discriminate|reflexivity]|].
      rewrite Hs. reflexivity. }
    cbn [negb]. f_equal. apply IH. intros; apply H; right; assumption. }
  assert (forall T (a : tdata) hh na i kv, In kv (map (scaled_item hh na T) (enum_from i a)) -> is_stream (snd kv) = true) as Hstr.
  { intros T a hh na i kv Hin. apply in_map_iff in Hin. destruct Hin as [ia [<- _]].
    unfold scaled_item. simpl. destruct (hub_copy _ _ _ (snd (snd ia))); reflexivity. }
  exists (TF num2 den3), (h1 + length (t_num f) + 1)%nat.
  split.
  { unfold prepare. rewrite (any_negative_ok f (conj Nn Kn) (conj Nd Kd)).
    unfold t_getitem. rewrite (d_get_in _ _ _ Nd H0). f_equal.
    unfold divide_through. fold den1.
    change (poly_of_scalar coef_alg (CStr (XTee h 2 1 (XCS ODiv 1 e0)))) with [(0%Z, CStr (XTee h 2 1 inv))].
    change (poly_of_scalar coef_alg (CStr (XTee h 2 0 (XCS ODiv 1 e0)))) with [(0%Z, CStr (XTee h 2 0 inv))].
    rewrite (surjective_pairing (pmul coef_alg (S h) den1 _)).
    rewrite (pmul_scalar_explicit (S h) den1 _ Nd1). fold den2.
    change (snd (pmul coef_alg (S h) den1 [(0%Z, CStr (XTee h 2 1 inv))])) with h1.
    rewrite (surjective_pairing (pmul coef_alg h1 (t_num f) _)).
    rewrite (pmul_scalar_explicit h1 (t_num f) _ Nn). fold num2.
    change (snd (pmul coef_alg h1 (t_num f) [(0%Z, CStr (XTee h 2 0 inv))])) with (h1 + length (t_num f) + 1)%nat.
    assert (t_setitem coef_alg den2 0 (ca_num coef_alg 1) = den3) as ->.
    { unfold t_setitem. cbn [ca_zero_num ca_num coef_alg is_zero_num].
      assert (Qc_eqb 1 0 = false) as -> by reflexivity.
      unfold d_set. assert (d_has den2 0 = false) as ->; [|reflexivity].
      apply not_true_is_false. intro Hh. unfold d_has in Hh. apply existsb_exists in Hh.
      destruct Hh as [x [Hx Ex]]. apply Z.eqb_eq in Ex. apply (del_no0 (t_den f)).
      fold den1. rewrite <- Kd2, <- Ex. apply in_map. exact Hx. }
    unfold mk_tfilt.
    rewrite (Hcomp num2) by (intros kv Hin; left; exact (Hstr _ _ _ _ _ _ Hin)).
    rewrite (Hcomp den3).
    2:{ intros kv Hin. unfold den3 in Hin. apply in_app_or in Hin. destruct Hin as [Hin|[<-|[]]];
        [left; exact (Hstr _ _ _ _ _ _ Hin)|right; reflexivity]. }
    rewrite (tmin_power_zero den3 Kd3).
    2:{ unfold den3. rewrite map_app. apply in_or_app. right. left. reflexivity. }
    reflexivity. }
  cbn [t_num t_den].
  split; [split; [rewrite Kn2; exact Nn|exact Kn3]|].
  split; [split; [apply (Permutation_NoDup (Permutation_sym Pd)); exact Nd|exact Kd3]|].
  split; [unfold den3; apply in_or_app; right; left; reflexivity|].
  split.
  { unfold t_mem_size. cbn [t_den]. apply Nat2Z.inj.
    rewrite (dense_kmax den3 Kd3), (dense_kmax (t_den f) Kd). apply kmax_perm. exact Pd. }
  intros V a0 Ha Hne F.
  assert (forall c, xval V (XTee h 2 c inv) = Some (1 / a0)) as Hinv.
  { intro c. simpl. rewrite Ha. simpl. apply Qc_eqb_false in Hne. rewrite Hne. reflexivity. }
  split.
  - simpl t_num. unfold num2. rewrite (vtab_scaled V _ _ _ _ (Hinv 0%nat)). apply psum_scaled.
  - simpl t_den. rewrite !psum_feedback. unfold den3, vtab. rewrite map_app. fold (vtab V den2).
    rewrite psum_app. simpl. unfold den2. rewrite (vtab_scaled V _ _ _ _ (Hinv 1%nat)), psum_scaled.
    unfold den1. rewrite psum_del by reflexivity. fold (vtab V (t_den f)). ring.
Qed.

(* ------------------------------------------------------------- tv_diffeq *)
Lemma d_get_some_in (d : tdata) k c : d_get d k = Some c -> In (k, c) d.
Proof.
  unfold d_get. destruct (find _ d) as [kv|] eqn:E; [|discriminate]. intro H. injection H as <-.
  apply find_some in E. destruct E as [Hin Ek]. apply Z.eqb_eq in Ek. rewrite <- Ek. destruct kv. exact Hin.
Qed.

(* the leading denominator coefficient a0 at an instant: None where undefined *)
Definition gain_at (V : nat -> Qc) (f : tfilt) : option Qc :=
  match t_getitem coef_alg (t_den f) 0 with CNum q => Some q | CStr e => xval V e end.

Theorem tv_diffeq_full S (f : tfilt) h zero mem fuel f' h' p :
  keys_ok (t_num f) -> keys_ok (t_den f) ->
  prepare h f = Ok (BOk f' h') -> tcodegen f' zero = Ok (TGen p) -> wf_prog f' p = true ->
  let lm := t_mem_size f' in
  let ys := yields (run_tv S (TGen p) f' (normalise_memory lm zero mem) zero fuel) in
  let X := xrel S 0 (fun _ => zero) in
  let Y := ysig (past lm zero mem) ys in
  forall j, (j < length ys)%nat ->
  forall a0, gain_at (snapshot S j) f = Some a0 -> a0 <> 0 ->
    a0 * Y (Z.of_nat j)
    = psum (vtab (snapshot S j) (t_num f)) (fun k => X (Z.of_nat j - k)%Z)
      - psum (feedback (vtab (snapshot S j) (t_den f))) (fun k => Y (Z.of_nat j - k)%Z).
Proof.
  intros Kn Kd Hp Hc Hwf lm ys X Y j Hj a0 Hg Hne.
  unfold gain_at, t_getitem in Hg.
  destruct (d_get (t_den f) 0) as [c|] eqn:Eg.
  2:{ simpl in Hg. injection Hg as <-. exfalso. apply Hne. reflexivity. }
  apply d_get_some_in in Eg. destruct c as [q|e0].
  - (* a number as gain: the filter goes to the code generator as it is *)
    injection Hg as ->.
    assert (f' = f) as ->.
    { unfold prepare in Hp. rewrite (any_negative_ok f Kn Kd) in Hp. unfold t_getitem in Hp.
      rewrite (d_get_in _ _ _ (proj1 Kd) Eg) in Hp. injection Hp as <- _. reflexivity. }
    exact (diffeq_generated S f a0 zero p mem fuel Kn Kd Eg Hne Hc Hwf j Hj).
  - (* a Stream as gain: divided through *)
    destruct (prepare_stream h f e0 Kn Kd Eg) as (f2 & h2 & Hp2 & Kn2 & Kd2 & H1 & Hms & Hv).
    rewrite Hp in Hp2. injection Hp2 as <- <-.
    pose proof (diffeq_generated S f' 1 zero p mem fuel Kn2 Kd2 H1 ltac:(discriminate) Hc Hwf j Hj) as D.
    fold lm in D. fold ys in D. fold X in D. fold Y in D.
    destruct (Hv (snapshot S j) a0 Hg Hne (fun k => X (Z.of_nat j - k)%Z)) as [E1 _].
    destruct (Hv (snapshot S j) a0 Hg Hne (fun k => Y (Z.of_nat j - k)%Z)) as [_ E2].
    rewrite E1, E2 in D.
    set (A := psum (vtab (snapshot S j) (t_num f)) (fun k => X (Z.of_nat j - k)%Z)) in *.
    set (B := psum (feedback (vtab (snapshot S j) (t_den f))) (fun k => Y (Z.of_nat j - k)%Z)) in *.
    transitivity (a0 * (1 * Y (Z.of_nat j))); [ring|]. rewrite D. field. exact Hne.
Qed.

Theorem tv_diffeq_full_r S (f : tfilt) h zero mem fuel f' h' p :
  keys_ok (t_num f) -> keys_ok (t_den f) ->
  prepare h f = Ok (BOk f' h') -> tcodegen f' zero = Ok (TGen p) ->
  (forall memory, round_spec S (stream_iters (t_num f')) (stream_iters (t_den f')) p fuel 0
             (unpack (p_mvars (tp_prog p)) memory empty_env)
             (assign_all (p_dvars (tp_prog p)) zero empty_env)
             (run_tv S (TGen p) f' memory zero fuel)) ->
  let lm := t_mem_size f' in
  let ys := yields (run_tv S (TGen p) f' (normalise_memory lm zero mem) zero fuel) in
  let X := xrel S 0 (fun _ => zero) in
  let Y := ysig (past lm zero mem) ys in
  forall j, (j < length ys)%nat ->
  forall a0, gain_at (snapshot S j) f = Some a0 -> a0 <> 0 ->
    a0 * Y (Z.of_nat j)
    = psum (vtab (snapshot S j) (t_num f)) (fun k => X (Z.of_nat j - k)%Z)
      - psum (feedback (vtab (snapshot S j) (t_den f))) (fun k => Y (Z.of_nat j - k)%Z).
Proof.
  intros Kn Kd Hp Hc Hwf lm ys X Y j Hj a0 Hg Hne.
  unfold gain_at, t_getitem in Hg.
  destruct (d_get (t_den f) 0) as [c|] eqn:Eg.
  2:{ simpl in Hg. injection Hg as <-. exfalso. apply Hne. reflexivity. }
  apply d_get_some_in in Eg. destruct c as [q|e0].
  - (* a number as gain: the filter goes to the code generator as it is *)
    injection Hg as ->.
    assert (f' = f) as ->.
    { unfold prepare in Hp. rewrite (any_negative_ok f Kn Kd) in Hp. unfold t_getitem in Hp.
      rewrite (d_get_in _ _ _ (proj1 Kd) Eg) in Hp. injection Hp as <- _. reflexivity. }
    exact (diffeq_generated_r S f a0 zero p mem fuel Kn Kd Eg Hne Hc Hwf j Hj).
  - (* a Stream as gain: divided through *)
    destruct (prepare_stream h f e0 Kn Kd Eg) as (f2 & h2 & Hp2 & Kn2 & Kd2 & H1 & Hms & Hv).
    rewrite Hp in Hp2. injection Hp2 as <- <-.
    pose proof (diffeq_generated_r S f' 1 zero p mem fuel Kn2 Kd2 H1 ltac:(discriminate) Hc Hwf j Hj) as D.
    fold lm in D. fold ys in D. fold X in D. fold Y in D.
    destruct (Hv (snapshot S j) a0 Hg Hne (fun k => X (Z.of_nat j - k)%Z)) as [E1 _].
    destruct (Hv (snapshot S j) a0 Hg Hne (fun k => Y (Z.of_nat j - k)%Z)) as [_ E2].
    rewrite E1, E2 in D.
    set (A := psum (vtab (snapshot S j) (t_num f)) (fun k => X (Z.of_nat j - k)%Z)) in *.
    set (B := psum (feedback (vtab (snapshot S j) (t_den f))) (fun k => Y (Z.of_nat j - k)%Z)) in *.
    transitivity (a0 * (1 * Y (Z.of_nat j))); [ring|]. rewrite D. field. exact Hne.
Qed.


(* keys_ok as a boolean test *)
Fixpoint znodupb (l : list Z) : bool :=
  match l with [] => true | x :: r => negb (existsb (Z.eqb x) r) && znodupb r end.
Definition keys_ok_b (d : tdata) : bool := znodupb (map fst d) && forallb (fun kv => (0 <=? fst kv)%Z) d.
Lemma znodupb_ok l : znodupb l = true -> NoDup l.
Proof.
  induction l as [|x r IH]; simpl; intro H; [constructor|].
  apply andb_true_iff in H. destruct H as [H1 H2]. constructor; [|auto].
  intro Hin. apply negb_true_iff in H1.
  assert (existsb (Z.eqb x) r = true) as E; [|congruence].
  apply existsb_exists. exists x. split; [exact Hin|apply Z.eqb_refl].
Qed.
Lemma keys_ok_b_ok d : keys_ok_b d = true -> keys_ok d.
Proof.
  unfold keys_ok_b. intro H. apply andb_true_iff in H. destruct H as [H1 H2]. split.
  - apply znodupb_ok. exact H1.
  - intros kv Hin. rewrite forallb_forall in H2. apply Z.leb_le. apply H2. exact Hin.
Qed.
