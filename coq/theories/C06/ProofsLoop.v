(* C06 - the generated loop: one round = one read of every source, the output
   computed from the coefficients frozen at that instant; end of the output. *)
From Coq Require Import List Bool Arith ZArith QArith Qcanon Lia.
From AL Require Import Base.CaseLib C04.Model C06.Model C06.Spec C06.ProofsPull.
Import ListNotations.
Open Scope Qc_scope.

Definition is_read (e : event) : Prop := match e with EvRead _ _ => True | _ => False end.
Definition reads_only (tr : list event) : Prop := Forall is_read tr.

Lemma pull_reads_only S e : forall s, reads_only (snd (pull S e s)).
Proof.
  induction e as [i|h n0 c q IH|o l IHl r IHr|o l IHl y|o x r IHr|e1 IH1]; intro s; simpl.
  - unfold read_src. destruct (S i (spos s i)); simpl; repeat constructor.
  - destruct (hq s h c); [|constructor]. specialize (IH s).
    destruct (pull S q s) as [[rr s1] t1]. destruct rr; exact IH.
  - specialize (IHl s). destruct (pull S l s) as [[rl s1] t1]. destruct rl; try exact IHl.
    specialize (IHr s1). destruct (pull S r s1) as [[rr s2] t2]. simpl in *.
    destruct rr; simpl; apply Forall_app; split; assumption.
  - specialize (IHl s). destruct (pull S l s) as [[rl s1] t1]. destruct rl; exact IHl.
  - specialize (IHr s). destruct (pull S r s) as [[rl s1] t1]. destruct rl; exact IHr.
  - specialize (IH1 s). destruct (pull S e1 s) as [[rl s1] t1]. destruct rl; exact IH1.
Qed.

(* the sources the terms of "m0 = ..." read, in order, and the pending counts afterwards *)
Fixpoint aterms (bs az : list (nat * cx)) (ts : list tterm) (p : pending) : pending * list nat :=
  match ts with
  | [] => (p, [])
  | TConst _ :: r => aterms bs az r p
  | TNextB k :: r =>
      match lookup bs k with
      | None => (p, [])
      | Some e => let '(p1, r1) := apull e p in let '(p2, r2) := aterms bs az r p1 in (p2, r1 ++ r2)
      end
  | TNextA k :: r =>
      match lookup az k with
      | None => (p, [])
      | Some e => let '(p1, r1) := apull e p in let '(p2, r2) := aterms bs az r p1 in (p2, r1 ++ r2)
      end
  end.

(* the value of the sum with every coefficient frozen (V i: the item of source i) *)
Fixpoint tsum (V : nat -> Qc) (bs az : list (nat * cx)) (ts : list tterm) (m d : env) (acc : Qc) : option Qc :=
  match ts with
  | [] => Some acc
  | TConst c :: r => tsum V bs az r m d (acc + eval_term m d c)
  | TNextB k :: r =>
      match lookup bs k with
      | None => None
      | Some e => match xval V e with
                  | Some v => tsum V bs az r m d (acc + v * d k)
                  | None => None end
      end
  | TNextA k :: r =>
      match lookup az k with
      | None => None
      | Some e => match xval V e with
                  | Some v => tsum V bs az r m d (acc + (- v) * m k)
                  | None => None end
      end
  end.

Fixpoint terms_ok (L : list (nat * nat)) (P : nat -> cx) (bs az : list (nat * cx)) (ts : list tterm) : Prop :=
  match ts with
  | [] => True
  | TConst _ :: r => terms_ok L P bs az r
  | TNextB k :: r => (exists e, lookup bs k = Some e /\ in_live L e /\ hub_ok P e) /\ terms_ok L P bs az r
  | TNextA k :: r => (exists e, lookup az k = Some e /\ in_live L e /\ hub_ok P e) /\ terms_ok L P bs az r
  end.

Section Terms.
  Variable S : sources.
  Variable n : nat.
  Variable L : list (nat * nat).
  Variable P : nat -> cx.
  Variables bs az : list (nat * cx).
  Variable V : nat -> Qc.
  Hypothesis HV : forall i v, S i n = Some v -> V i = v.

  Lemma terms_reads_only ts : forall s m d acc,
    reads_only (snd (eval_tterms S bs az ts s m d acc)).
  Proof.
    induction ts as [|t r IH]; intros s m d acc; simpl; [constructor|].
    destruct t as [c|k|k].
    - apply IH.
    - destruct (lookup bs k) as [e|]; [|constructor].
      pose proof (pull_reads_only S e s) as H1. destruct (pull S e s) as [[rr s1] t1]. simpl in H1.
      destruct rr; try exact H1. specialize (IH s1 m d (acc + v * d k)).
      destruct (eval_tterms S bs az r s1 m d (acc + v * d k)) as [[r2 s2] t2]. simpl in *.
      apply Forall_app; split; assumption.
    - destruct (lookup az k) as [e|]; [|constructor].
      pose proof (pull_reads_only S e s) as H1. destruct (pull S e s) as [[rr s1] t1]. simpl in H1.
      destruct rr; try exact H1. specialize (IH s1 m d (acc + - v * m k)).
      destruct (eval_tterms S bs az r s1 m d (acc + - v * m k)) as [[r2 s2] t2]. simpl in *.
      apply Forall_app; split; assumption.
  Qed.

  Definition tsound (ts : list tterm) (s : st) (p : pending) (m d : env) (acc : Qc) : Prop :=
    let '(r, s', tr) := eval_tterms S bs az ts s m d acc in
    let '(p', rd) := aterms bs az ts p in
    match r with
    | PVal v => tsum V bs az ts m d acc = Some v /\ Inv L P V s' p' /\ tr = map (ev_of S n) rd /\
                (forall i, In i rd -> S i n <> None) /\
                (forall i, spos s' i = if memb i rd then Datatypes.S (spos s i) else spos s i)
    | PEnd => exists i, In i rd /\ S i n = None
    | PErr => tsum V bs az ts m d acc = None
    end.

  (* one Next term followed by the rest: shared by TNextB / TNextA *)
  Lemma step_sound (e : cx) (r : list tterm) (f : Qc -> Qc) s p m d :
    in_live L e -> hub_ok P e -> Inv L P V s p ->
    (forall s1 p1 v, Inv L P V s1 p1 ->
        NoDup (snd (aterms bs az r p1)) ->
        (forall i, In i (snd (aterms bs az r p1)) -> spos s1 i = n) -> tsound r s1 p1 m d (f v)) ->
    NoDup (snd (let '(p1, r1) := apull e p in let '(p2, r2) := aterms bs az r p1 in (p2, r1 ++ r2))) ->
    (forall i, In i (snd (let '(p1, r1) := apull e p in let '(p2, r2) := aterms bs az r p1 in (p2, r1 ++ r2)))
               -> spos s i = n) ->
    let '(res, s', tr) := match pull S e s with
                          | (PVal v, s1, t1) =>
                              let '(res, s2, t2) := eval_tterms S bs az r s1 m d (f v) in (res, s2, t1 ++ t2)
                          | other => other end in
    let '(p', rd) := (let '(p1, r1) := apull e p in let '(p2, r2) := aterms bs az r p1 in (p2, r1 ++ r2)) in
    match res with
    | PVal w => match xval V e with Some v => tsum V bs az r m d (f v) | None => None end = Some w /\
                Inv L P V s' p' /\ tr = map (ev_of S n) rd /\
                (forall i, In i rd -> S i n <> None) /\
                (forall i, spos s' i = if memb i rd then Datatypes.S (spos s i) else spos s i)
    | PEnd => exists i, In i rd /\ S i n = None
    | PErr => match xval V e with Some v => tsum V bs az r m d (f v) | None => None end = None
    end.
  Proof.
    intros HL HP HI IH Hnd Hpos.
    pose proof (pull_sound S n L P V HV e s p HL HP HI) as H1.
    destruct (apull e p) as [p1 r1] eqn:Ea1.
    destruct (aterms bs az r p1) as [p2 r2] eqn:Ea2. simpl in Hnd, Hpos.
    destruct (nodup_app_inv _ _ Hnd) as (Hnd1 & Hnd2 & Hdisj).
    simpl in H1. specialize (H1 Hnd1 (fun i Hi => Hpos i (in_or_app _ _ _ (or_introl Hi)))).
    unfold sound in H1. rewrite Ea1 in H1.
    destruct (pull S e s) as [[rl s1] t1]. destruct rl as [a| |].
    - destruct H1 as (Hv1 & Hi1 & Ht1 & Ha1 & Hp1). rewrite Hv1.
      assert (forall i, In i r2 -> spos s1 i = n) as Hpos2.
      { intros i Hi. rewrite Hp1. destruct (memb i r1) eqn:Em.
        - apply memb_In in Em. exfalso. exact (Hdisj i Em Hi).
        - apply Hpos. apply in_or_app. right. exact Hi. }
      specialize (IH s1 p1 a Hi1). rewrite Ea2 in IH. specialize (IH Hnd2 Hpos2).
      unfold tsound in IH. rewrite Ea2 in IH.
      destruct (eval_tterms S bs az r s1 m d (f a)) as [[rr s2] t2]. destruct rr as [w| |].
      + destruct IH as (Hv2 & Hi2 & Ht2 & Ha2 & Hp2).
        split; [exact Hv2|]. split; [exact Hi2|]. split; [rewrite map_app, Ht1, Ht2; reflexivity|]. split.
        * intros i Hi. apply in_app_or in Hi. destruct Hi; [apply Ha1|apply Ha2]; assumption.
        * intro i. rewrite Hp2, Hp1, memb_app.
          destruct (memb i r1) eqn:E1, (memb i r2) eqn:E2; try reflexivity.
          apply memb_In in E1, E2. exfalso. exact (Hdisj i E1 E2).
      + destruct IH as [i [Hi Hd]]. exists i. split; [apply in_or_app; right; exact Hi|exact Hd].
      + exact IH.
    - destruct H1 as [i [Hi Hd]]. exists i. split; [apply in_or_app; left; exact Hi|exact Hd].
    - rewrite H1. reflexivity.
  Qed.

  Lemma terms_sound : forall ts s p m d acc,
    terms_ok L P bs az ts -> Inv L P V s p ->
    NoDup (snd (aterms bs az ts p)) ->
    (forall i, In i (snd (aterms bs az ts p)) -> spos s i = n) ->
    tsound ts s p m d acc.
  Proof.
    induction ts as [|t r IH]; intros s p m d acc Hok HI Hnd Hpos.
    - unfold tsound. simpl. split; [reflexivity|]. split; [exact HI|]. split; [reflexivity|].
      split; [intros i []|intro i; reflexivity].
    - destruct t as [c|k|k].
      + simpl in Hok, Hnd, Hpos. unfold tsound. simpl. apply IH; assumption.
      + simpl in Hok. destruct Hok as [[e [Hl [HLe HPe]]] Hok]. simpl in Hnd, Hpos. rewrite Hl in Hnd, Hpos.
        unfold tsound. simpl. rewrite Hl.
        apply (step_sound e r (fun v => acc + v * d k) s p m d HLe HPe HI); try assumption.
        intros s1 p1 v Hi1 Hn1 Hp1. apply IH; assumption.
      + simpl in Hok. destruct Hok as [[e [Hl [HLe HPe]]] Hok]. simpl in Hnd, Hpos. rewrite Hl in Hnd, Hpos.
        unfold tsound. simpl. rewrite Hl.
        apply (step_sound e r (fun v => acc + - v * m k) s p m d HLe HPe HI); try assumption.
        intros s1 p1 v Hi1 Hn1 Hp1. apply IH; assumption.
  Qed.
End Terms.

(* ------------------------------------------------------------ the whole loop *)
Definition alive (S : sources) (n i : nat) : bool := match S i n with Some _ => true | None => false end.
(* a valuation that agrees with what the sources deliver at the instant n *)
Definition compat (S : sources) (n : nat) (V : nat -> Qc) : Prop := forall i v, S i n = Some v -> V i = v.
Lemma snapshot_compat S n : compat S n (snapshot S n).
Proof. intros i v H. unfold snapshot. rewrite H. reflexivity. Qed.

Section Loop.
  Variable S : sources.
  Variable L : list (nat * nat).
  Variable P : nat -> cx.
  Variables bs az : list (nat * cx).
  Variable p : tprog.
  Let ts := p_terms (tp_prog p).
  Let rd := snd (aterms bs az ts p_zero).

  (* what the trace of the loop must be, from the instant n on, with registers m, d:
     a round reads the input and then every coefficient source of rd once; its
     output is the generated expression on the coefficients frozen at n; the
     first instant at which a source has ended stops the generator. *)
  Fixpoint round_spec (fuel n : nat) (m d : env) (tr : list event) : Prop :=
    match fuel with
    | O => tr = []
    | Datatypes.S fuel' =>
        match S 0%nat n with
        | None => tr = [EvRead 0 None; EvStop]
        | Some x =>
            let d0 := upd d 0 x in
            let v := tsum (snapshot S n) bs az ts m d0 0 in
            if forallb (alive S n) rd then
              match v with
              | Some acc =>
                  let m0 := apply_gain (p_gain (tp_prog p)) acc in
                  exists tr', tr = EvRead 0 (Some x) :: map (ev_of S n) rd ++ EvYield m0 :: tr' /\
                              round_spec fuel' (Datatypes.S n)
                                         (exec_shifts (p_mshift (tp_prog p)) (upd m 0 m0))
                                         (exec_shifts (p_dshift (tp_prog p)) d0) tr'
              | None => exists rs, reads_only rs /\ tr = EvRead 0 (Some x) :: rs ++ [EvRaise XZeroDiv]
              end
            else exists rs last, reads_only rs /\ tr = EvRead 0 (Some x) :: rs ++ [last] /\
                                 (last = EvStop \/
                                  (last = EvRaise XZeroDiv /\
                                   forall V, compat S n V -> tsum V bs az ts m d0 0 = None))
        end
    end.

  (* the try / except block is there, or no term calls next() *)
  Hypothesis Htry : tp_try p = true \/ rd = [].
  Hypothesis Hok : terms_ok L P bs az ts.
  Hypothesis Hnd : NoDup (0%nat :: rd).
  Hypothesis Hclean : forall h c, In (h, c) L -> fst (aterms bs az ts p_zero) h c = 0%nat.

  Theorem loop_spec : forall fuel n s m d,
    (forall h c, In (h, c) L -> hq s h c = []) ->
    (forall i, In i (0%nat :: rd) -> spos s i = n) ->
    round_spec fuel n m d (tv_loop S p bs az fuel s m d).
  Proof.
    induction fuel as [|fuel IH]; intros n s m d Hq Hpos; [reflexivity|].
    simpl tv_loop. simpl round_spec. unfold read_src.
    rewrite (Hpos 0%nat) by (left; reflexivity).
    destruct (S 0%nat n) as [x|] eqn:Ex; [|reflexivity].
    set (s0 := set_pos s 0 (Datatypes.S n)).
    set (d0 := upd d 0 x).
    destruct (proj1 (NoDup_cons_iff 0%nat rd) Hnd) as [Hn0 Hndr].
    assert (forall V, Inv L P V s0 p_zero) as HI.
    { intros V h c Hin. unfold s0. simpl. rewrite (Hq h c Hin). split; [reflexivity|constructor]. }
    assert (forall i, In i rd -> spos s0 i = n) as Hpos0.
    { intros i Hi. unfold s0. simpl. destruct (Nat.eqb i 0) eqn:E.
      - apply Nat.eqb_eq in E. subst i. contradiction.
      - apply Hpos. right. exact Hi. }
    assert (forall V, compat S n V -> tsound S n L P bs az V ts s0 p_zero m d0 0) as HsV.
    { intros V HV. exact (terms_sound S n L P bs az V HV ts s0 p_zero m d0 0 Hok (HI V) Hndr Hpos0). }
    pose proof (HsV _ (snapshot_compat S n)) as Hs.
    unfold tsound in Hs. fold ts.
    destruct (eval_tterms S bs az ts s0 m d0 0) as [[r s1] t1] eqn:Ee.
    pose proof (terms_reads_only S bs az ts s0 m d0 0) as Hro. rewrite Ee in Hro. simpl in Hro.
    rewrite (surjective_pairing (aterms bs az ts p_zero)) in Hs. fold rd in Hs.
    assert (r = PErr -> forall V, compat S n V -> tsum V bs az ts m d0 0 = None) as HErr.
    { intros -> V HV. specialize (HsV V HV). unfold tsound in HsV. rewrite Ee in HsV.
      rewrite (surjective_pairing (aterms bs az ts p_zero)) in HsV. exact HsV. }
    destruct r as [acc| |].
    - destruct Hs as (Hv & Hi & Ht & Ha & Hp).
      assert (forallb (alive S n) rd = true) as ->.
      { apply forallb_forall. intros i Hin. unfold alive. specialize (Ha i Hin). destruct (S i n); [reflexivity|contradiction]. }
      rewrite Hv.
      eexists. split.
      + simpl. rewrite Ht. reflexivity.
      + apply IH.
        * intros h c Hin. destruct (Hi h c Hin) as [Hl _]. rewrite (Hclean h c Hin) in Hl.
          destruct (hq s1 h c); [reflexivity|discriminate].
        * intros i [<-|Hin]; rewrite Hp.
          -- destruct (memb 0 rd) eqn:Em; [apply memb_In in Em; contradiction|]. unfold s0. simpl. reflexivity.
          -- assert (memb i rd = true) as -> by (apply memb_In; exact Hin). rewrite Hpos0 by exact Hin. reflexivity.
    - destruct Hs as [i [Hin Hd]].
      assert (forallb (alive S n) rd = false) as ->.
      { apply not_true_is_false. intro Hall. rewrite forallb_forall in Hall. specialize (Hall i Hin).
        unfold alive in Hall. rewrite Hd in Hall. discriminate. }
      destruct Htry as [Htry'|Hnil]; [|rewrite Hnil in Hin; destruct Hin].
      exists t1, EvStop. split; [exact Hro|]. split; [simpl; rewrite Htry'; reflexivity|left; reflexivity].
    - destruct (forallb (alive S n) rd).
      + rewrite Hs. exists t1. split; [exact Hro|reflexivity].
      + exists t1, (EvRaise XZeroDiv). split; [exact Hro|]. split; [reflexivity|right; split; [reflexivity|exact (HErr eq_refl)]].
  Qed.
End Loop.

(* the generator started on fresh iterators *)
Theorem run_tv_spec S L P (f : tfilt) (p : tprog) memory zero fuel :
  let bs := stream_iters (t_num f) in
  let az := stream_iters (t_den f) in
  let ts := p_terms (tp_prog p) in
  (tp_try p = true \/ snd (aterms bs az ts p_zero) = []) ->
  terms_ok L P bs az ts ->
  NoDup (0%nat :: snd (aterms bs az ts p_zero)) ->
  (forall h c, In (h, c) L -> fst (aterms bs az ts p_zero) h c = 0%nat) ->
  round_spec S bs az p fuel 0
             (unpack (p_mvars (tp_prog p)) memory empty_env)
             (assign_all (p_dvars (tp_prog p)) zero empty_env)
             (run_tv S (TGen p) f memory zero fuel).
Proof.
  intros bs az ts Htry Hok Hnd Hcl. unfold run_tv.
  apply (loop_spec S L P bs az p Htry Hok Hnd Hcl); intros; reflexivity.
Qed.

(* ------------------------------------ read-once, as a statement on the trace *)
(* the sources read before each yield, round by round *)
Fixpoint segs (tr : list event) (cur : list nat) : list (list nat) :=
  match tr with
  | [] => []
  | EvRead i _ :: r => segs r (cur ++ [i])
  | EvYield _ :: r => cur :: segs r []
  | _ :: r => segs r cur
  end.

Lemma segs_reads S n l : forall rest cur, segs (map (ev_of S n) l ++ rest) cur = segs rest (cur ++ l).
Proof.
  induction l as [|i r IH]; intros rest cur; simpl; [rewrite app_nil_r; reflexivity|].
  rewrite IH, <- app_assoc. reflexivity.
Qed.
Lemma segs_no_yield rs last : reads_only rs -> (last = EvStop \/ exists e, last = EvRaise e) ->
  forall cur, segs (rs ++ [last]) cur = [].
Proof.
  intros Hr Hl. induction rs as [|e r IH]; intro cur; simpl.
  - destruct Hl as [->|[e ->]]; reflexivity.
  - inversion Hr as [|? ? He Hr']; subst. destruct e; try contradiction. apply IH. exact Hr'.
Qed.

Lemma round_spec_once S bs az p : forall fuel n m d tr,
  round_spec S bs az p fuel n m d tr ->
  Forall (fun seg => seg = 0%nat :: snd (aterms bs az (p_terms (tp_prog p)) p_zero)) (segs tr []).
Proof.
  induction fuel as [|fuel IH]; intros n m d tr H; simpl in H.
  - subst. constructor.
  - destruct (S 0%nat n) as [x|]; [|subst; constructor].
    destruct (forallb _ _).
    + destruct (tsum _ _ _ _ _ _ _) as [acc|].
      * destruct H as [tr' [-> H]]. simpl. rewrite segs_reads. simpl. constructor; [reflexivity|].
        exact (IH _ _ _ _ H).
      * destruct H as [rs [Hr ->]]. simpl. rewrite (segs_no_yield rs _ Hr); [constructor|right; eexists; reflexivity].
    + destruct H as [rs [last [Hr [-> Hl]]]]. simpl.
      rewrite (segs_no_yield rs last Hr); [constructor|].
      destruct Hl as [->|[-> _]]; [left; reflexivity|right; eexists; reflexivity].
Qed.

(* ------------------------------------------------ a constant as a stream *)
(* a Next term whose iterator delivers c at this instant contributes what the
   constant-coefficient term "(c) * d{k}" / "-(c) * m{k}" contributes *)
Lemma tsum_const_b V bs az k e c r m d acc :
  lookup bs k = Some e -> xval V e = Some c ->
  tsum V bs az (TNextB k :: r) m d acc = tsum V bs az (TConst (CoefD c k) :: r) m d acc.
Proof. intros Hl Hv. simpl. rewrite Hl, Hv. reflexivity. Qed.
Lemma tsum_const_a V bs az k e c r m d acc :
  lookup az k = Some e -> xval V e = Some c ->
  tsum V bs az (TNextA k :: r) m d acc = tsum V bs az (TConst (NegCoefM c k) :: r) m d acc.
Proof. intros Hl Hv. simpl. rewrite Hl, Hv. reflexivity. Qed.

Lemma tsum_const V bs az k e c r m d acc :
  xval V e = Some c ->
  (lookup bs k = Some e ->
   tsum V bs az (TNextB k :: r) m d acc = tsum V bs az (TConst (CoefD c k) :: r) m d acc) /\
  (lookup az k = Some e ->
   tsum V bs az (TNextA k :: r) m d acc = tsum V bs az (TConst (NegCoefM c k) :: r) m d acc).
Proof.
  intro Hv.
  exact (conj (fun Hl => tsum_const_b V bs az k e c r m d acc Hl Hv)
              (fun Hl => tsum_const_a V bs az k e c r m d acc Hl Hv)).
Qed.

(* ------------------------------------------------------ where the output ends *)
Fixpoint count_yields (tr : list event) : nat :=
  match tr with [] => 0 | EvYield _ :: r => Datatypes.S (count_yields r) | _ :: r => count_yields r end.
(* how many consecutive instants, from n on and at most fuel, at which every source delivers *)
Fixpoint live_len (S : sources) (srcs : list nat) (fuel n : nat) : nat :=
  match fuel with
  | O => O
  | Datatypes.S f => if forallb (alive S n) srcs then Datatypes.S (live_len S srcs f (Datatypes.S n)) else O
  end.

Lemma count_reads S n l rest : count_yields (map (ev_of S n) l ++ rest) = count_yields rest.
Proof. induction l as [|i r IH]; simpl; [reflexivity|exact IH]. Qed.
Lemma count_no_yield rs last : reads_only rs -> (last = EvStop \/ exists e, last = EvRaise e) ->
  count_yields (rs ++ [last]) = 0%nat.
Proof.
  intros Hr Hl. induction rs as [|e r IH]; simpl.
  - destruct Hl as [->|[e ->]]; reflexivity.
  - inversion Hr as [|? ? He Hr']; subst. destruct e; try contradiction. apply IH. exact Hr'.
Qed.

Lemma round_spec_ends S bs az p :
  let ts := p_terms (tp_prog p) in
  let rd := snd (aterms bs az ts p_zero) in
  (* no coefficient divides by zero among the items delivered *)
  (forall n m d, forallb (alive S n) rd = true -> tsum (snapshot S n) bs az ts m d 0 <> None) ->
  (forall n m d, exists V, compat S n V /\ tsum V bs az ts m d 0 <> None) ->
  forall fuel n m d tr, round_spec S bs az p fuel n m d tr ->
    count_yields tr = live_len S (0%nat :: rd) fuel n /\
    ((live_len S (0%nat :: rd) fuel n < fuel)%nat -> exists pre, tr = pre ++ [EvStop]).
Proof.
  intros ts rd Hd1 Hd2. induction fuel as [|fuel IH]; intros n m d tr H; simpl in H.
  - subst. split; [reflexivity|]. simpl. intro Hlt. inversion Hlt.
  - assert (forall X, live_len S X (Datatypes.S fuel) n
                      = if forallb (alive S n) X then Datatypes.S (live_len S X fuel (Datatypes.S n)) else 0%nat) as Hll
      by reflexivity.
    rewrite Hll. clear Hll.
    assert (forallb (alive S n) (0%nat :: rd) = alive S n 0 && forallb (alive S n) rd) as -> by reflexivity.
    unfold alive at 1 3.
    destruct (S 0%nat n) as [x|] eqn:Ex.
    + fold ts in H. fold rd in H. rewrite !andb_true_l.
      destruct (forallb (alive S n) rd) eqn:Eal.
      * specialize (Hd1 n m (upd d 0 x) Eal).
        destruct (tsum (snapshot S n) bs az ts m (upd d 0 x) 0) as [acc|] eqn:Et; [|contradiction].
        destruct H as [tr' [-> H]]. destruct (IH _ _ _ _ H) as [Hc He]. split.
        -- simpl. rewrite count_reads. simpl. rewrite Hc. reflexivity.
        -- intro Hlt. apply Nat.succ_lt_mono in Hlt. destruct (He Hlt) as [pre ->].
           exists (EvRead 0 (Some x) :: map (ev_of S n) rd ++ EvYield (apply_gain (p_gain (tp_prog p)) acc) :: pre).
           simpl. rewrite <- app_assoc. reflexivity.
      * destruct H as [rs [last [Hr [-> Hl]]]]. split.
        -- simpl. apply count_no_yield; [exact Hr|].
           destruct Hl as [->|[-> _]]; [left; reflexivity|right; eexists; reflexivity].
        -- intros _. destruct Hl as [->|[_ Hnone]].
           ++ exists (EvRead 0 (Some x) :: rs). reflexivity.
           ++ exfalso. destruct (Hd2 n m (upd d 0 x)) as [V [HV Hne]]. exact (Hne (Hnone V HV)).
    + subst tr. simpl. split; [reflexivity|]. intros _. exists [EvRead 0 None]. reflexivity.
Qed.
