(* C06 - one next() on a coefficient Stream object: the tee buffers against the
   abstract count of pending items; values against the frozen value. *)
From Coq Require Import List Bool Arith ZArith QArith Qcanon Lia.
From AL Require Import Base.CaseLib C04.Model C06.Model C06.Spec.
Import ListNotations.
Open Scope Qc_scope.

(* ---------------------------------------------- the tee discipline, abstractly *)
(* pending h c : how many items copy c of hub h has still to deliver from its buffer *)
Definition pending := nat -> nat -> nat.
Definition p_zero : pending := fun _ _ => 0%nat.
Definition p_dec (p : pending) (h c : nat) : pending :=
  fun h' c' => if Nat.eqb h' h && Nat.eqb c' c then (p h' c' - 1)%nat else p h' c'.
Definition p_push (p : pending) (h n c : nat) : pending :=
  fun h' c' => if Nat.eqb h' h && negb (Nat.eqb c' c) && Nat.ltb c' n then S (p h' c') else p h' c'.

(* which sources one next() reads, in order, and the pending counts afterwards
   (when every read delivers) *)
Fixpoint apull (e : cx) (p : pending) : pending * list nat :=
  match e with
  | XSrc i => (p, [i])
  | XTee h n c q =>
      if Nat.eqb (p h c) 0 then let '(p', rd) := apull q p in (p_push p' h n c, rd)
      else (p_dec p h c, [])
  | XSS _ l r => let '(p1, r1) := apull l p in let '(p2, r2) := apull r p1 in (p2, r1 ++ r2)
  | XSC _ l _ => apull l p
  | XCS _ _ r => apull r p
  | XNeg e1 => apull e1 p
  end.

(* the copies an expression mentions are in L; every copy of hub h is over P h *)
Fixpoint in_live (L : list (nat * nat)) (e : cx) : Prop :=
  match e with
  | XSrc _ => True
  | XTee h _ c q => In (h, c) L /\ in_live L q
  | XSS _ l r => in_live L l /\ in_live L r
  | XSC _ l _ => in_live L l
  | XCS _ _ r => in_live L r
  | XNeg e1 => in_live L e1
  end.
Fixpoint hub_ok (P : nat -> cx) (e : cx) : Prop :=
  match e with
  | XSrc _ => True
  | XTee h _ _ q => P h = q /\ hub_ok P q
  | XSS _ l r => hub_ok P l /\ hub_ok P r
  | XSC _ l _ => hub_ok P l
  | XCS _ _ r => hub_ok P r
  | XNeg e1 => hub_ok P e1
  end.

Definition memb (i : nat) (l : list nat) : bool := existsb (Nat.eqb i) l.
Lemma memb_In i l : memb i l = true <-> In i l.
Proof.
  unfold memb. rewrite existsb_exists. split.
  - intros [x [Hin He]]. apply Nat.eqb_eq in He. subst. exact Hin.
  - intro H. exists i. split; [exact H|apply Nat.eqb_refl].
Qed.
Lemma memb_app i a b : memb i (a ++ b) = memb i a || memb i b.
Proof. apply existsb_app. Qed.

Lemma nodup_app_inv {A} (a b : list A) :
  NoDup (a ++ b) -> NoDup a /\ NoDup b /\ (forall x, In x a -> In x b -> False).
Proof.
  induction a as [|x r IH]; simpl; intro H.
  - split; [constructor|]. split; [exact H|]. intros x [].
  - inversion H as [|? ? Hn Hr]; subst. destruct (IH Hr) as (Ha & Hb & Hd).
    split; [constructor; [|exact Ha]|].
    + intro Hi. apply Hn. apply in_or_app. left. exact Hi.
    + split; [exact Hb|]. intros y [<-|Hy] Hyb.
      * apply Hn. apply in_or_app. right. exact Hyb.
      * exact (Hd y Hy Hyb).
Qed.

Lemma oapply_none_l o b : oapply o None b = None.
Proof. destruct o; reflexivity. Qed.
Lemma oapply_none_r o a : oapply o a None = None.
Proof. destruct o, a; reflexivity. Qed.

Section Pull.
  Variable S : sources.
  Variable n : nat.                       (* the instant *)
  Variable L : list (nat * nat).          (* the live copies *)
  Variable P : nat -> cx.                 (* the iterator each hub is over *)
  (* the instant as a valuation: V i is the item source i delivers at n; for a
     source that has ended, anything *)
  Variable V : nat -> Qc.
  Hypothesis HV : forall i v, S i n = Some v -> V i = v.

  (* buffers of live copies: as many items as pending, each the value of the hub's
     iterator at this instant *)
  Definition Inv (s : st) (p : pending) : Prop :=
    forall h c, In (h, c) L ->
      length (hq s h c) = p h c /\ Forall (fun v => xval V (P h) = Some v) (hq s h c).

  Definition ev_of (i : nat) : event := EvRead i (S i n).

  Definition sound (e : cx) (s : st) (p : pending) : Prop :=
    let '(r, s', tr) := pull S e s in
    let '(p', rd) := apull e p in
    match r with
    | PVal v => xval V e = Some v /\ Inv s' p' /\ tr = map ev_of rd /\
                (forall i, In i rd -> S i n <> None) /\
                (forall i, spos s' i = if memb i rd then Datatypes.S (spos s i) else spos s i)
    | PEnd => exists i, In i rd /\ S i n = None
    | PErr => xval V e = None
    end.

  Lemma apply_op_sound o a b :
    match apply_op o a b with
    | PVal v => oapply o (Some a) (Some b) = Some v
    | PEnd => False
    | PErr => oapply o (Some a) (Some b) = None
    end.
  Proof. destruct o; simpl; try reflexivity. destruct (Qc_eqb b 0); reflexivity. Qed.

  (* unary wrappers: XSC, XCS, XNeg share one argument *)
  Lemma sound_unary (e1 : cx) (f : Qc -> pres) (g : option Qc -> option Qc) s p :
    (forall a, match f a with PVal v => g (Some a) = Some v | PEnd => False | PErr => g (Some a) = None end) ->
    g None = None ->
    sound e1 s p ->
    let '(r, s', tr) := match pull S e1 s with
                        | (PVal a, s1, t1) => (f a, s1, t1)
                        | other => other end in
    let '(p', rd) := apull e1 p in
    match r with
    | PVal v => g (xval V e1) = Some v /\ Inv s' p' /\ tr = map ev_of rd /\
                (forall i, In i rd -> S i n <> None) /\
                (forall i, spos s' i = if memb i rd then Datatypes.S (spos s i) else spos s i)
    | PEnd => exists i, In i rd /\ S i n = None
    | PErr => g (xval V e1) = None
    end.
  Proof.
    intros Hf Hg Hs. unfold sound in Hs.
    destruct (pull S e1 s) as [[r s1] t1]. destruct (apull e1 p) as [p' rd].
    destruct r as [a| |].
    - destruct Hs as (Hv & Hi & Ht & Ha & Hp). specialize (Hf a). rewrite Hv.
      destruct (f a); [|contradiction|assumption].
      split; [exact Hf|]. split; [exact Hi|]. split; [exact Ht|]. split; [exact Ha|exact Hp].
    - exact Hs.
    - rewrite Hs. exact Hg.
  Qed.

  Lemma pull_sound : forall e s p,
    in_live L e -> hub_ok P e -> Inv s p ->
    NoDup (snd (apull e p)) ->
    (forall i, In i (snd (apull e p)) -> spos s i = n) ->
    sound e s p.
  Proof.
    induction e as [i|h n0 c q IH|o l IHl r IHr|o l IHl y|o x r IHr|e1 IH1];
      intros s p HL HP HI Hnd Hpos.
    - (* XSrc *)
      unfold sound. simpl. unfold read_src.
      rewrite (Hpos i) by (simpl; left; reflexivity).
      destruct (S i n) as [v|] eqn:E.
      + split; [|split; [|split; [|split]]].
        * simpl. rewrite (HV i v E). reflexivity.
        * exact HI.
        * simpl. unfold ev_of. rewrite E. reflexivity.
        * intros j [<-|[]]. rewrite E. discriminate.
        * intro j. simpl. rewrite orb_false_r.
          destruct (Nat.eqb j i) eqn:Ej.
          -- apply Nat.eqb_eq in Ej. subst j. rewrite (Hpos i) by (simpl; left; reflexivity). reflexivity.
          -- reflexivity.
      + exists i. split; [left; reflexivity|exact E].
    - (* XTee *)
      simpl in HL, HP. destruct HL as [HLc HLq]. destruct HP as [HPh HPq].
      unfold sound. simpl.
      destruct (HI h c HLc) as [Hlen Hall].
      destruct (hq s h c) as [|v rest] eqn:Eq.
      + (* empty buffer: pull the hub's iterator *)
        simpl in Hlen. rewrite <- Hlen. simpl.
        simpl in Hnd, Hpos. rewrite <- Hlen in Hnd, Hpos. simpl in Hnd, Hpos.
        specialize (IH s p HLq HPq HI).
        destruct (apull q p) as [p' rd] eqn:Ea. simpl in Hnd, Hpos.
        specialize (IH Hnd Hpos). unfold sound in IH. rewrite Ea in IH.
        destruct (pull S q s) as [[rr s1] t1]. destruct rr as [v| |]; [|exact IH|exact IH].
        destruct IH as (Hv & Hi & Ht & Ha & Hp).
        split; [|split; [|split; [|split]]]; try assumption.
        intros h' c' Hin. destruct (Hi h' c' Hin) as [Hl1 Hf1].
        unfold push_others, p_push. simpl.
        destruct (Nat.eqb h' h && negb (Nat.eqb c' c) && Nat.ltb c' n0) eqn:Ec.
        * split; [rewrite app_length, Hl1; simpl; lia|].
          apply Forall_app. split; [exact Hf1|]. constructor; [|constructor].
          apply andb_true_iff in Ec. destruct Ec as [Ec _]. apply andb_true_iff in Ec. destruct Ec as [Ec _].
          apply Nat.eqb_eq in Ec. subst h'. rewrite HPh. exact Hv.
        * split; assumption.
      + (* buffered item *)
        simpl in Hlen.
        assert (Nat.eqb (p h c) 0 = false) as -> by (apply Nat.eqb_neq; lia).
        split; [|split; [|split; [|split]]].
        * rewrite <- HPh. inversion Hall; subst. assumption.
        * intros h' c' Hin. destruct (HI h' c' Hin) as [Hl1 Hf1].
          unfold set_q, p_dec. simpl.
          destruct (Nat.eqb h' h && Nat.eqb c' c) eqn:Ec.
          -- apply andb_true_iff in Ec. destruct Ec as [E1 E2].
             apply Nat.eqb_eq in E1, E2. subst h' c'. rewrite Eq in Hf1.
             split; [lia|inversion Hf1; assumption].
          -- split; assumption.
        * reflexivity.
        * intros i [].
        * intro i. reflexivity.
    - (* XSS *)
      simpl in HL, HP. destruct HL as [HLl HLr]. destruct HP as [HPl HPr].
      simpl in Hnd, Hpos. unfold sound. simpl.
      specialize (IHl s p HLl HPl HI).
      destruct (apull l p) as [p1 r1] eqn:Ea1.
      destruct (apull r p1) as [p2 r2] eqn:Ea2. simpl in Hnd, Hpos.
      destruct (nodup_app_inv _ _ Hnd) as (Hnd1 & Hnd2 & Hdisj).
      specialize (IHl Hnd1 (fun i Hi => Hpos i (in_or_app _ _ _ (or_introl Hi)))).
      unfold sound in IHl. rewrite Ea1 in IHl.
      destruct (pull S l s) as [[rl s1] t1]. destruct rl as [a| |].
      + destruct IHl as (Hv1 & Hi1 & Ht1 & Ha1 & Hp1).
        assert (forall i, In i r2 -> spos s1 i = n) as Hpos2.
        { intros i Hi. rewrite Hp1.
          destruct (memb i r1) eqn:Em.
          - apply memb_In in Em. exfalso. exact (Hdisj i Em Hi).
          - apply Hpos. apply in_or_app. right. exact Hi. }
        specialize (IHr s1 p1 HLr HPr Hi1). rewrite Ea2 in IHr. specialize (IHr Hnd2 Hpos2).
        unfold sound in IHr. rewrite Ea2 in IHr.
        destruct (pull S r s1) as [[rr s2] t2]. destruct rr as [b| |].
        * destruct IHr as (Hv2 & Hi2 & Ht2 & Ha2 & Hp2).
          pose proof (apply_op_sound o a b) as Hop. rewrite Hv1, Hv2.
          destruct (apply_op o a b); [|contradiction|exact Hop].
          split; [|split; [|split; [|split]]]; try assumption.
          -- rewrite map_app, Ht1, Ht2. reflexivity.
          -- intros i Hi. apply in_app_or in Hi. destruct Hi; [apply Ha1|apply Ha2]; assumption.
          -- intro i. rewrite Hp2, Hp1, memb_app.
             destruct (memb i r1) eqn:E1, (memb i r2) eqn:E2; try reflexivity.
             apply memb_In in E1, E2. exfalso. exact (Hdisj i E1 E2).
        * destruct IHr as [i [Hi Hd]]. exists i. split; [apply in_or_app; right; exact Hi|exact Hd].
        * rewrite IHr. apply oapply_none_r.
      + destruct IHl as [i [Hi Hd]]. exists i. split; [apply in_or_app; left; exact Hi|exact Hd].
      + rewrite IHl. apply oapply_none_l.
    - (* XSC *)
      simpl in HL, HP, Hnd, Hpos. specialize (IHl s p HL HP HI Hnd Hpos).
      unfold sound. simpl.
      apply (sound_unary l (fun a => apply_op o a y) (fun v => oapply o v (Some y)) s p); try assumption.
      + intro a. apply apply_op_sound.
      + apply oapply_none_l.
    - (* XCS *)
      simpl in HL, HP, Hnd, Hpos. specialize (IHr s p HL HP HI Hnd Hpos).
      unfold sound. simpl.
      apply (sound_unary r (fun b => apply_op o x b) (fun v => oapply o (Some x) v) s p); try assumption.
      + intro b. apply apply_op_sound.
      + apply oapply_none_r.
    - (* XNeg *)
      simpl in HL, HP, Hnd, Hpos. specialize (IH1 s p HL HP HI Hnd Hpos).
      unfold sound. simpl.
      apply (sound_unary e1 (fun a => PVal (- a)) (option_map Qcopp) s p); try assumption.
      + intro a. reflexivity.
      + reflexivity.
  Qed.
End Pull.
