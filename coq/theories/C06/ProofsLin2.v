(* C06 - tee accounting, part 2: a whole round of the generated program on a linear
   family of coefficient expressions. *)
From Coq Require Import List Bool Arith ZArith QArith Qcanon Lia Permutation.
From AL Require Import Base.CaseLib C04.Model C06.Model C06.Spec.
From AL Require Import C06.ProofsPull C06.ProofsLoop C06.ProofsWf C06.ProofsEq C06.ProofsLin.
Import ListNotations.

Fixpoint apull_list (es : list cx) (p : pending) : pending * list nat :=
  match es with
  | [] => (p, [])
  | e :: r => let '(p1, r1) := apull e p in let '(p2, r2) := apull_list r p1 in (p2, r1 ++ r2)
  end.
Lemma apull_list_eq e r p :
  apull_list (e :: r) p
  = (fst (apull_list r (fst (apull e p))), snd (apull e p) ++ snd (apull_list r (fst (apull e p)))).
Proof. simpl. destruct (apull e p) as [p1 r1]. simpl. destruct (apull_list r p1); reflexivity. Qed.

Section Round.
  Variable HT : htab.
  Variable All0 : list leaf.
  Hypothesis HTnd : NoDup (map fst HT).
  Hypothesis HTok : forall h n p, In (h, (n, p)) HT -> okx HT p /\ forall h', In h' (hubids p) -> (h' < h)%nat.
  Hypothesis Alnd : NoDup All0.
  Hypothesis Allive : forall h c, In (LCopy h c) All0 -> exists n p, In (h, (n, p)) HT /\ (c < n)%nat.

  Lemma list_lin : forall es X U Cn R pend,
    Forall (okx HT) es -> NoDup U -> Rel All0 pend U Cn -> Closed HT [] U ->
    Permutation (Tot HT Cn R (flat_map tops es) X U) All0 ->
    exists U' Cn',
      NoDup U' /\ incl U' U /\ Rel All0 (fst (apull_list es pend)) U' Cn' /\ Closed HT [] U' /\
      Permutation (Tot HT Cn' (R ++ snd (apull_list es pend)) [] X U') All0 /\
      (forall e h', In e es -> In h' (hubids e) -> ~ In h' U').
  Proof.
    induction es as [|e r IH]; intros X U Cn R pend Hok Hnd Hrel Hcl Hperm.
    - exists U, Cn. simpl. rewrite app_nil_r. split; [exact Hnd|]. split; [apply incl_refl|].
      split; [exact Hrel|]. split; [exact Hcl|]. split; [exact Hperm|intros e h' []].
    - inversion Hok as [|? ? Hoke Hokr]; subst. simpl flat_map in Hperm. rewrite tot_split in Hperm.
      destruct (apull_lin HT All0 HTnd HTok Alnd Allive e [] (flat_map tops r ++ X) U Cn R pend Hoke) as (U1 & Cn1 & Hnd1 & Hinc1 & Hrel1 & Hcl1 & Hperm1 & Hf1); try assumption.
      { intros h' _ m []. }
      rewrite apull_list_eq. cbn [fst snd].
      assert (Permutation (Tot HT Cn1 (R ++ snd (apull e pend)) (flat_map tops r) X U1) All0) as Hperm1'.
      { rewrite <- Hperm1. unfold Tot. simpl. rewrite <- !app_assoc. reflexivity. }
      destruct (IH X U1 Cn1 _ (fst (apull e pend)) Hokr Hnd1 Hrel1 Hcl1 Hperm1') as (U2 & Cn2 & Hnd2 & Hinc2 & Hrel2 & Hcl2 & Hperm2 & Hf2).
      exists U2, Cn2. split; [exact Hnd2|]. split; [intros x Hx; apply Hinc1, Hinc2; exact Hx|].
      split; [exact Hrel2|]. split; [exact Hcl2|]. split; [rewrite app_assoc; exact Hperm2|].
      intros e' h' [<-|Hin] Hh'.
      + intro E. apply (Hf1 h' Hh'). apply Hinc2. exact E.
      + apply (Hf2 e' h' Hin Hh').
  Qed.

  Lemma okx_hubids e : okx HT e -> forall h', In h' (hubids e) -> In h' (map fst HT).
  Proof.
    induction e; simpl; intros Hok h' Hin; try (destruct Hin; fail); auto.
    - destruct Hok as (HinT & _ & Hokp). destruct Hin as [<-|Hin]; [apply (in_map fst _ _ HinT)|auto].
    - destruct Hok as [H1 H2]. apply in_app_or in Hin. destruct Hin; auto.
  Qed.

  Lemma copies_leaf e : okx HT e -> forall h c, In (h, c) (copies e) ->
    In (LCopy h c) (tops e) \/ exists h2, In h2 (hubids e) /\ In (LCopy h c) (tops (hpar HT h2)).
  Proof.
    induction e as [i|h0 n0 c0 p IH|o l IHl r IHr|o l IHl y|o x r IHr|e1 IH1]; simpl; intros Hok h c Hin.
    - destruct Hin.
    - destruct Hok as (HinT & _ & Hokp). destruct Hin as [E|Hin].
      + injection E as -> ->. left. left. reflexivity.
      + right. destruct (IH Hokp h c Hin) as [Ht|[h2 [Hh2 Ht]]].
        * exists h0. split; [left; reflexivity|]. rewrite (hpar_in HT HTnd h0 n0 p HinT). exact Ht.
        * exists h2. split; [right; exact Hh2|exact Ht].
    - destruct Hok as [H1 H2]. apply in_app_or in Hin. destruct Hin as [Hin|Hin].
      + destruct (IHl H1 h c Hin) as [Ht|[h2 [Hh2 Ht]]]; [left; apply in_or_app; left; exact Ht|].
        right. exists h2. split; [apply in_or_app; left; exact Hh2|exact Ht].
      + destruct (IHr H2 h c Hin) as [Ht|[h2 [Hh2 Ht]]]; [left; apply in_or_app; right; exact Ht|].
        right. exists h2. split; [apply in_or_app; right; exact Hh2|exact Ht].
    - apply IHl; assumption.
    - apply IHr; assumption.
    - apply IH1; assumption.
  Qed.

  Lemma flat_map_disj {A B} (g : A -> list B) l : NoDup (flat_map g l) ->
    forall a b x, In a l -> In b l -> a <> b -> In x (g a) -> In x (g b) -> False.
  Proof.
    induction l as [|y r IH]; intros Hnd a b x Ha Hb Hne Hxa Hxb; [destruct Ha|].
    simpl in Hnd. destruct (nodup_app_inv _ _ Hnd) as (_ & Hr & Hd).
    destruct Ha as [->|Ha], Hb as [->|Hb].
    - congruence.
    - apply (Hd x Hxa). apply in_flat_map. exists b. split; assumption.
    - apply (Hd x Hxb). apply in_flat_map. exists a. split; assumption.
    - exact (IH Hr a b x Ha Hb Hne Hxa Hxb).
  Qed.

  (* the whole round, started with every buffer empty *)
  Variable W : list cx.
  Hypothesis Wok : Forall (okx HT) W.
  Hypothesis HAll : Permutation (flat_map tops W ++ ptops HT (map fst HT)) All0.
  Hypothesis H0 : ~ In (LSrc 0) All0.

  Theorem round_lin :
    NoDup (0%nat :: snd (apull_list W p_zero)) /\
    forall e h c, In e W -> In (h, c) (copies e) -> fst (apull_list W p_zero) h c = 0%nat.
  Proof.
    set (U0 := map fst HT).
    assert (Rel All0 p_zero U0 []) as Hrel.
    { split; [|intros h c []]. intros h c Hl. split; [reflexivity|]. intros Hu _. exfalso. apply Hu.
      destruct (Allive h c Hl) as (n & p & Hin & _). apply (in_map fst _ _ Hin). }
    assert (Closed HT [] U0) as Hcl.
    { intros h n p Hin Hu. exfalso. apply Hu. apply (in_map fst _ _ Hin). }
    assert (Permutation (Tot HT [] [] (flat_map tops W) [] U0) All0) as Hperm.
    { unfold Tot. simpl. exact HAll. }
    destruct (list_lin W [] U0 [] [] p_zero Wok HTnd Hrel Hcl Hperm) as (U' & Cn' & Hnd' & Hinc & Hrel' & _ & Hperm' & Hfired).
    simpl in Hperm'. unfold Tot in Hperm'. simpl in Hperm'.
    set (rd := snd (apull_list W p_zero)) in *.
    pose proof (Permutation_NoDup (Permutation_sym Hperm') Alnd) as HndT.
    split.
    - constructor.
      + intro Hin. apply H0. apply (Permutation_in _ Hperm'). apply in_or_app. right. apply in_or_app. left.
        apply (in_map LSrc _ _ Hin).
      + destruct (nodup_app_inv _ _ HndT) as (_ & H2 & _). destruct (nodup_app_inv _ _ H2) as (H3 & _ & _).
        apply (NoDup_map_inv LSrc). exact H3.
    - intros e h c He Hc.
      pose proof (proj1 (Forall_forall _ _) Wok e He) as Hoke.
      pose proof (Permutation_NoDup (Permutation_sym HAll) Alnd) as HndA.
      destruct (nodup_app_inv _ _ HndA) as (_ & HndP & HdisjA).
      assert (In (LCopy h c) All0 /\ forall u, In u U' -> In (LCopy h c) (tops (hpar HT u)) -> False) as [Hl Hnot].
      { destruct (copies_leaf e Hoke h c Hc) as [Ht|[h2 [Hh2 Ht]]].
        - assert (In (LCopy h c) (flat_map tops W)) as HtW by (apply in_flat_map; exists e; split; assumption).
          split; [apply (Permutation_in _ HAll); apply in_or_app; left; exact HtW|].
          intros u Hu Hx. apply (HdisjA _ HtW). apply in_flat_map. exists u. split; [apply Hinc; exact Hu|exact Hx].
        - assert (In h2 U0) as Hh2U by (apply (okx_hubids e Hoke); exact Hh2).
          split.
          + apply (Permutation_in _ HAll). apply in_or_app. right. apply in_flat_map. exists h2. split; assumption.
          + intros u Hu Hx. apply (flat_map_disj _ U0 HndP h2 u (LCopy h c) Hh2U (Hinc u Hu)); try assumption.
            intro E. subst u. exact (Hfired e h2 He Hh2 Hu). }
      destruct Hrel' as [Hr1 _]. destruct (Hr1 h c Hl) as [Hz _]. apply Hz. right.
      apply (Permutation_in _ (Permutation_sym Hperm')) in Hl.
      apply in_app_or in Hl. destruct Hl as [Hl|Hl].
      + unfold mapLC in Hl. apply in_map_iff in Hl. destruct Hl as [[h1 c1] [E Hin]]. simpl in E.
        injection E as -> ->. exact Hin.
      + exfalso. apply in_app_or in Hl. destruct Hl as [Hl|Hl].
        * apply in_map_iff in Hl. destruct Hl as [i [E _]]. discriminate.
        * apply in_flat_map in Hl. destruct Hl as [u [Hu Hx]]. exact (Hnot u Hu Hx).
  Qed.
End Round.
