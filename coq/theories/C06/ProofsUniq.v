(* C06 - two filters whose coefficient sequences agree have the same outputs
   (a constant replaced by an endless stream of that constant changes nothing). *)
From Coq Require Import List Bool Arith ZArith QArith Qcanon Lia.
From AL Require Import Base.CaseLib C04.Model C04.Spec C04.Lib.
From AL Require Import C06.Model C06.Spec C06.ProofsPull C06.ProofsLoop C06.ProofsWf C06.ProofsEq C06.ProofsGain C06.ProofsKeys.
Import ListNotations.
Open Scope Qc_scope.

Lemma feedback_keys V (d : tdata) : keys_ok d ->
  forall kv, In kv (feedback (vtab V d)) -> (1 <= fst kv)%Z.
Proof.
  intros [_ Kd] kv Hin. unfold feedback in Hin. apply filter_In in Hin. destruct Hin as [Hin Hf].
  unfold vtab in Hin. apply in_map_iff in Hin. destruct Hin as [x [<- Hx]]. simpl in *.
  specialize (Kd x Hx). apply negb_true_iff in Hf. apply Z.eqb_neq in Hf. lia.
Qed.

Section Agree.
  Variable S : sources.
  Variables f1 f2 : tfilt.
  Variables ys1 ys2 : list Qc.
  Variable HY : nat -> Qc.                 (* the common past y[-k] *)
  Variable X : Z -> Qc.                    (* the common input *)
  Hypothesis K1 : keys_ok (t_den f1).
  Hypothesis K2 : keys_ok (t_den f2).
  (* the two outputs satisfy their difference equations *)
  Hypothesis D1 : forall j, (j < length ys1)%nat -> forall a0, gain_at (snapshot S j) f1 = Some a0 -> a0 <> 0 ->
    a0 * ysig HY ys1 (Z.of_nat j)
    = psum (vtab (snapshot S j) (t_num f1)) (fun k => X (Z.of_nat j - k)%Z)
      - psum (feedback (vtab (snapshot S j) (t_den f1))) (fun k => ysig HY ys1 (Z.of_nat j - k)%Z).
  Hypothesis D2 : forall j, (j < length ys2)%nat -> forall a0, gain_at (snapshot S j) f2 = Some a0 -> a0 <> 0 ->
    a0 * ysig HY ys2 (Z.of_nat j)
    = psum (vtab (snapshot S j) (t_num f2)) (fun k => X (Z.of_nat j - k)%Z)
      - psum (feedback (vtab (snapshot S j) (t_den f2))) (fun k => ysig HY ys2 (Z.of_nat j - k)%Z).
  (* the coefficient sequences agree at every instant (as sums against any signal) *)
  Hypothesis Hnum : forall j F, psum (vtab (snapshot S j) (t_num f1)) F = psum (vtab (snapshot S j) (t_num f2)) F.
  Hypothesis Hden : forall j F, psum (feedback (vtab (snapshot S j) (t_den f1))) F
                                = psum (feedback (vtab (snapshot S j) (t_den f2))) F.
  (* the gain is defined, the same and not zero where both produce an output *)
  Hypothesis Hg : forall j, (j < length ys1)%nat -> (j < length ys2)%nat ->
    exists a0, gain_at (snapshot S j) f1 = Some a0 /\ gain_at (snapshot S j) f2 = Some a0 /\ a0 <> 0.

  Lemma outputs_agree : forall j, (j < length ys1)%nat -> (j < length ys2)%nat ->
    nth j ys1 0 = nth j ys2 0.
  Proof.
    intro j. induction j as [j IH] using lt_wf_ind. intros L1 L2.
    destruct (Hg j L1 L2) as [a0 [G1 [G2 Hne]]].
    pose proof (D1 j L1 a0 G1 Hne) as E1.
    pose proof (D2 j L2 a0 G2 Hne) as E2.
    assert (forall i, (i < Z.of_nat j)%Z -> ysig HY ys1 i = ysig HY ys2 i) as Hpast.
    { intros i Hi. unfold ysig. destruct (i <? 0)%Z eqn:E; [reflexivity|].
      apply Z.ltb_ge in E. apply IH; lia. }
    assert (ysig HY ys1 (Z.of_nat j) = nth j ys1 0) as Y1.
    { unfold ysig. assert (Z.of_nat j <? 0 = false)%Z as -> by (apply Z.ltb_ge; lia). rewrite Nat2Z.id. reflexivity. }
    assert (ysig HY ys2 (Z.of_nat j) = nth j ys2 0) as Y2.
    { unfold ysig. assert (Z.of_nat j <? 0 = false)%Z as -> by (apply Z.ltb_ge; lia). rewrite Nat2Z.id. reflexivity. }
    rewrite Y1 in E1. rewrite Y2 in E2.
    assert (a0 * nth j ys1 0 = a0 * nth j ys2 0) as E.
    { rewrite E1, E2. rewrite Hnum. f_equal. rewrite Hden.
      apply psum_ext_in. intros kv Hin. apply Hpast.
      pose proof (feedback_keys (snapshot S j) (t_den f2) K2 kv Hin). lia. }
    transitivity (a0 * nth j ys1 0 / a0); [field; exact Hne|]. rewrite E. field. exact Hne.
  Qed.
End Agree.

(* the memory size depends on the denominator keys only, and the gain branch keeps it *)
Lemma prepare_mem_size h (f : tfilt) f' h' : keys_ok (t_num f) -> keys_ok (t_den f) ->
  prepare h f = Ok (BOk f' h') -> t_mem_size f' = t_mem_size f.
Proof.
  intros Kn Kd Hp. destruct (d_get (t_den f) 0) as [c|] eqn:Eg.
  - pose proof (d_get_some_in _ _ _ Eg) as Hin. destruct c as [q|e0].
    + unfold prepare in Hp. rewrite (any_negative_ok f Kn Kd) in Hp. unfold t_getitem in Hp.
      rewrite Eg in Hp. injection Hp as <- _. reflexivity.
    + destruct (prepare_stream h f e0 Kn Kd Hin) as (f2 & h2 & Hp2 & _ & _ & _ & Hms & _).
      rewrite Hp in Hp2. injection Hp2 as <- _. exact Hms.
  - unfold prepare in Hp. rewrite (any_negative_ok f Kn Kd) in Hp. unfold t_getitem in Hp.
    rewrite Eg in Hp. simpl in Hp. injection Hp as <- _. reflexivity.
Qed.

Lemma mem_size_keys (f1 f2 : tfilt) : keys_ok (t_den f1) -> keys_ok (t_den f2) ->
  map fst (t_den f1) = map fst (t_den f2) -> t_mem_size f1 = t_mem_size f2.
Proof.
  intros [_ K1] [_ K2] E. unfold t_mem_size. apply Nat2Z.inj. rewrite !dense_kmax by assumption.
  rewrite E. reflexivity.
Qed.

(* tv_const_stream, whole outputs.  Two filters run by the library on the same input,
   memory and zero, whose coefficient tables agree at every instant (in particular: a
   constant c in one, an endless Stream of c in the other) and with the same keys in
   the denominator: wherever both produce an output (the gain being defined, equal and
   non-zero there) the outputs are equal. *)
Theorem outputs_agree_run S (f1 f2 : tfilt) h1 h2 zero mem fuel f1' f2' h1' h2' p1 p2 :
  keys_ok (t_num f1) -> keys_ok (t_den f1) -> keys_ok (t_num f2) -> keys_ok (t_den f2) ->
  prepare h1 f1 = Ok (BOk f1' h1') -> tcodegen f1' zero = Ok (TGen p1) -> wf_prog f1' p1 = true ->
  prepare h2 f2 = Ok (BOk f2' h2') -> tcodegen f2' zero = Ok (TGen p2) -> wf_prog f2' p2 = true ->
  map fst (t_den f1) = map fst (t_den f2) ->
  (forall j, vtab (snapshot S j) (t_num f1) = vtab (snapshot S j) (t_num f2)) ->
  (forall j, vtab (snapshot S j) (t_den f1) = vtab (snapshot S j) (t_den f2)) ->
  let ys1 := yields (run_tv S (TGen p1) f1' (normalise_memory (t_mem_size f1') zero mem) zero fuel) in
  let ys2 := yields (run_tv S (TGen p2) f2' (normalise_memory (t_mem_size f2') zero mem) zero fuel) in
  (forall j, (j < length ys1)%nat -> (j < length ys2)%nat ->
     exists a0, gain_at (snapshot S j) f1 = Some a0 /\ gain_at (snapshot S j) f2 = Some a0 /\ a0 <> 0) ->
  forall j, (j < length ys1)%nat -> (j < length ys2)%nat -> nth j ys1 0 = nth j ys2 0.
Proof.
  intros Kn1 Kd1 Kn2 Kd2 P1 C1 W1 P2 C2 W2 Ek Tn Td ys1 ys2 Hg.
  assert (t_mem_size f1' = t_mem_size f2') as Em.
  { rewrite (prepare_mem_size h1 f1 f1' h1' Kn1 Kd1 P1), (prepare_mem_size h2 f2 f2' h2' Kn2 Kd2 P2).
    apply mem_size_keys; assumption. }
  apply (outputs_agree S f1 f2 ys1 ys2 (past (t_mem_size f1') zero mem) (xrel S 0 (fun _ => zero)) Kd2).
  - exact (tv_diffeq_full S f1 h1 zero mem fuel f1' h1' p1 Kn1 Kd1 P1 C1 W1).
  - unfold ys2. rewrite Em.
    exact (tv_diffeq_full S f2 h2 zero mem fuel f2' h2' p2 Kn2 Kd2 P2 C2 W2).
  - intros j F. rewrite Tn. reflexivity.
  - intros j F. rewrite Td. reflexivity.
  - exact Hg.
Qed.

(* a constant and an endless Stream of it have the same table entry *)
Lemma const_stream_entry S i c : (forall n, S i n = Some c) ->
  forall j, cval (snapshot S j) (CStr (XSrc i)) = cval (snapshot S j) (CNum c).
Proof. intros H j. simpl. unfold snapshot. rewrite H. reflexivity. Qed.

(* tv_diffeq for every filter the arithmetic builds: no hypothesis on the keys *)
Theorem tv_diffeq_built S (e : fexp) h0 (f : tfilt) h zero mem fuel f' h' p :
  C06.ProofsKeys.bases_ok e -> build coef_alg e h0 = BOk f h ->
  prepare h f = Ok (BOk f' h') -> tcodegen f' zero = Ok (TGen p) -> wf_prog f' p = true ->
  let lm := t_mem_size f' in
  let ys := yields (run_tv S (TGen p) f' (normalise_memory lm zero mem) zero fuel) in
  let X := xrel S 0 (fun _ => zero) in
  let Y := ysig (past lm zero mem) ys in
  forall j, (j < length ys)%nat ->
  forall a0, gain_at (snapshot S j) f = Some a0 -> a0 <> 0 ->
    a0 * Y (Z.of_nat j)
    = psum (vtab (snapshot S j) (t_num f)) (fun k => X (Z.of_nat j - k)%Z)
      - psum (feedback (vtab (snapshot S j) (t_den f))) (fun k => Y (Z.of_nat j - k)%Z).
Proof.
  intros Hb Hbuild Hp Hc Hw.
  destruct (C06.ProofsKeys.built_keys_ok e h0 f h (BOk f' h') Hb Hbuild Hp) as [Kn Kd].
  exact (tv_diffeq_full S f h zero mem fuel f' h' p Kn Kd Hp Hc Hw).
Qed.
