(* C15 proofs, layer 3: MultiKeyDict.  The representation invariant Rep ties
   the three concrete dicts to a pair (f, T): f = key -> value map,
   T = value -> tuple of its keys.  delitem / setitem are shown to transform
   (f, T) exactly as adel1 / the aset1 fold transform (aval, keys_of). *)
From Coq Require Import List Bool Arith Lia Permutation Sorted.
From AL Require Import Base.CaseLib C15.Model C15.Spec C15.Check C15.Proofs_Assoc C15.Proofs_Abs.
Import ListNotations.

Local Notation NE := (Nat.eqb_eq).

Record Rep (d : mkd) (f : key -> option val) (T : val -> tup) : Prop := {
  rep_ndk : NoDup (map fst (keys_dict d));
  rep_ndi : NoDup (map fst (inv_dict d));
  rep_nds : NoDup (map fst (store d));
  rep_part : forall k v, In k (T v) <-> f k = Some v;
  rep_ndT : forall v, NoDup (T v);
  rep_K : forall k, aget Nat.eqb k (keys_dict d) = option_map T (f k);
  rep_I : forall v, aget Nat.eqb v (inv_dict d) = match T v with [] => None | _ => Some (T v) end;
  rep_S : forall t v, aget tup_eqb t (store d) = Some v <-> (t = T v /\ t <> [])
}.

Lemma Rep_ext d f T f' T' :
  (forall k, f k = f' k) -> (forall v, T v = T' v) -> Rep d f T -> Rep d f' T'.
Proof.
  intros Hf HT [H1 H2 H3 H4 H5 H6 H7 H8]. constructor; try assumption.
  - intros k v. rewrite <- HT, <- Hf. apply H4.
  - intro v. rewrite <- HT. apply H5.
  - intro k. rewrite <- Hf. rewrite H6. destruct (f k); simpl; [rewrite HT|]; reflexivity.
  - intro v. rewrite <- HT. apply H7.
  - intros t v. rewrite <- HT. apply H8.
Qed.

Lemma Rep_empty : Rep empty (fun _ => None) (fun _ => []).
Proof.
  constructor; simpl.
  - constructor.
  - constructor.
  - constructor.
  - intros k v. split; [tauto|discriminate].
  - intro v. constructor.
  - reflexivity.
  - reflexivity.
  - intros t v. split; [discriminate|]. intros [H1 H2]. congruence.
Qed.

(* two tuples of different values never coincide (unless empty) *)
Lemma part_neq (f : key -> option val) (T : val -> tup) :
  (forall k v, In k (T v) <-> f k = Some v) ->
  forall w v l, w <> v -> T w <> [] -> incl l (T v) -> T w <> l.
Proof.
  intros Hp w v l Hne Hnil Hincl Heq.
  destruct (T w) as [|k r] eqn:E; [congruence|].
  assert (H1 : f k = Some w). { apply Hp. rewrite E. left. reflexivity. }
  assert (H2 : f k = Some v). { apply Hp. apply Hincl. rewrite <- Heq. left. reflexivity. }
  congruence.
Qed.

Lemma match_nil_some (t : tup) : t <> [] -> match t with [] => None | _ => Some t end = Some t.
Proof. destruct t; [congruence|reflexivity]. Qed.

(* ---- __delitem__ *)
Lemma delitem_rep d f T k v :
  Rep d f T -> f k = Some v ->
  exists d', delitem d k = Ok d' /\
    Rep d' (fun k' => if Nat.eqb k' k then None else f k') (fun w => filter (nk k) (T w)).
Proof.
  intros [Hndk Hndi Hnds Hpart HndT HK HI HS] Hfk.
  assert (HkT : In k (T v)) by (apply Hpart; exact Hfk).
  assert (HTv : T v <> []). { intro Hn. rewrite Hn in HkT. contradiction. }
  assert (Hst : aget tup_eqb (T v) (store d) = Some v). { apply HS. split; [reflexivity|exact HTv]. }
  set (nkv := filter (nk k) (T v)).
  set (kd := adel Nat.eqb k (keys_dict d)).
  set (iv := adel Nat.eqb v (inv_dict d)).
  set (stv := adel tup_eqb (T v) (store d)).
  assert (Hnkv_in : forall x, In x nkv <-> f x = Some v /\ x <> k).
  { intro x. unfold nkv. rewrite In_filter_nk, Hpart. tauto. }
  assert (HTw : forall w, w <> v -> filter (nk k) (T w) = T w).
  { intros w Hne. apply filter_nk_notin. intro Hin. apply Hpart in Hin. congruence. }
  (* the resulting dict, uniformly in the two branches for keys_dict *)
  assert (Hres : exists d', delitem d k = Ok d' /\
     keys_dict d' = fold_left (fun acc k' => aset Nat.eqb k' nkv acc) nkv kd /\
     inv_dict d' = match nkv with [] => iv | _ => aset Nat.eqb v nkv iv end /\
     store d' = match nkv with [] => stv | _ => aset tup_eqb nkv v stv end).
  { unfold delitem. rewrite HK, Hfk. cbn [option_map]. rewrite Hst. cbv zeta.
    change (filter (fun k' : nat => negb (Nat.eqb k' k)) (T v)) with nkv. fold kd iv stv.
    destruct nkv as [|x r]; eexists; (split; [reflexivity|]); simpl; auto. }
  destruct Hres as [d' [Hd' [Hkd' [Hiv' Hst']]]].
  exists d'. split; [exact Hd'|].
  assert (Hndkd : NoDup (map fst kd)) by (apply NoDup_map_adel; exact Hndk).
  assert (Hndiv : NoDup (map fst iv)) by (apply NoDup_map_adel; exact Hndi).
  assert (Hndstv : NoDup (map fst stv)) by (apply NoDup_map_adel; exact Hnds).
  constructor.
  - rewrite Hkd'. apply NoDup_fold_aset. exact Hndkd.
  - rewrite Hiv'. destruct nkv; [exact Hndiv|apply (NoDup_aset Nat.eqb NE); exact Hndiv].
  - rewrite Hst'. destruct nkv; [exact Hndstv|apply (NoDup_aset tup_eqb tup_eqb_spec); exact Hndstv].
  - intros k' w. rewrite In_filter_nk, Hpart. destruct (Nat.eqb k' k) eqn:E.
    + apply Nat.eqb_eq in E. split; [tauto|discriminate].
    + apply Nat.eqb_neq in E. tauto.
  - intro w. apply NoDup_filter. apply HndT.
  - (* keys_dict *)
    intro k'. rewrite Hkd', aget_fold_aset. unfold kd.
    rewrite (aget_adel Nat.eqb NE) by exact Hndk. rewrite HK.
    destruct (mem k' nkv) eqn:Em.
    + apply mem_In in Em. apply Hnkv_in in Em as [Hf Hne].
      apply Nat.eqb_neq in Hne. rewrite Hne, Hf. reflexivity.
    + apply mem_false in Em. destruct (Nat.eqb k' k) eqn:E; [reflexivity|].
      apply Nat.eqb_neq in E. destruct (f k') as [w|] eqn:Ef; simpl; [|reflexivity].
      rewrite HTw; [reflexivity|]. intro Heq. subst w. apply Em. apply Hnkv_in. tauto.
  - (* inv_dict *)
    intro w. rewrite Hiv'.
    assert (Hiv : aget Nat.eqb w iv = if Nat.eqb w v then None else aget Nat.eqb w (inv_dict d)).
    { unfold iv. apply (aget_adel Nat.eqb NE). exact Hndi. }
    destruct (Nat.eqb w v) eqn:E.
    + apply Nat.eqb_eq in E. subst w. fold nkv. destruct nkv as [|x r] eqn:En.
      * exact Hiv.
      * rewrite (aget_aset Nat.eqb NE), Nat.eqb_refl. reflexivity.
    + assert (Hne : w <> v) by (apply Nat.eqb_neq; exact E).
      rewrite (HTw w Hne). rewrite <- HI. destruct nkv as [|x r].
      * exact Hiv.
      * rewrite (aget_aset Nat.eqb NE), E. exact Hiv.
  - (* store *)
    intros t w. rewrite Hst'.
    assert (Hstv : aget tup_eqb t stv = if tup_eqb t (T v) then None else aget tup_eqb t (store d)).
    { unfold stv. apply (aget_adel tup_eqb tup_eqb_spec). exact Hnds. }
    assert (Hcore : (aget tup_eqb t stv = Some w) <-> (t = T w /\ t <> [] /\ w <> v)).
    { rewrite Hstv. destruct (tup_eqb t (T v)) eqn:E.
      - apply tup_eqb_spec in E. subst t. split; [discriminate|].
        intros [H1 [H2 H3]]. exfalso.
        apply (part_neq f T Hpart w v (T v) H3); [congruence|apply incl_refl|congruence].
      - rewrite HS. split.
        + intros [H1 H2]. split; [exact H1|]. split; [exact H2|].
          intro Heq. subst w t. rewrite tup_eqb_refl in E. discriminate.
        + tauto. }
    assert (Hnkv_ne : forall w', w' <> v -> T w' <> [] -> T w' <> nkv).
    { intros w' Hne Hnil. apply (part_neq f T Hpart w' v nkv Hne Hnil).
      intros x Hx. apply Hnkv_in in Hx. apply Hpart. tauto. }
    destruct (Nat.eq_dec w v) as [Heq|Hne].
    + subst w. fold nkv. destruct nkv as [|x r] eqn:En.
      * rewrite Hcore. split; [tauto|]. intros [H1 H2]. congruence.
      * rewrite (aget_aset tup_eqb tup_eqb_spec).
        destruct (tup_eqb t (x :: r)) eqn:E.
        -- apply tup_eqb_spec in E. subst t. split; [|reflexivity]. intros _. split; [reflexivity|discriminate].
        -- rewrite Hcore. split; [tauto|]. intros [H1 _]. subst t. rewrite tup_eqb_refl in E. discriminate.
    + rewrite (HTw w Hne). destruct nkv as [|x r] eqn:En.
      * rewrite Hcore. tauto.
      * rewrite (aget_aset tup_eqb tup_eqb_spec).
        destruct (tup_eqb t (x :: r)) eqn:E.
        -- apply tup_eqb_spec in E. subst t. split.
           ++ intro H. inversion H. congruence.
           ++ intros [H1 H2]. exfalso. apply (Hnkv_ne w Hne); congruence.
        -- rewrite Hcore. tauto.
Qed.

Lemma delitem_rep_none d f T k :
  Rep d f T -> f k = None -> delitem d k = KeyError /\ amem Nat.eqb k (keys_dict d) = false.
Proof.
  intros HR Hfk. unfold delitem, amem. rewrite (rep_K _ _ _ HR), Hfk. simpl. split; reflexivity.
Qed.

(* ---- the deletion loop of __setitem__ *)
Lemma del_all_rep ks : forall d f T,
  Rep d f T ->
  exists d1, del_all d ks = Ok d1 /\
    Rep d1 (fun k => if mem k ks then None else f k) (fun w => filter (notin ks) (T w)).
Proof.
  induction ks as [|k r IH]; intros d f T HR.
  - exists d. split; [reflexivity|]. apply (Rep_ext d f T); [reflexivity| |exact HR].
    intro v. symmetry. apply filter_notin_nil.
  - cbn [del_all]. destruct (f k) as [v|] eqn:Hfk.
    + assert (Ham : amem Nat.eqb k (keys_dict d) = true).
      { unfold amem. rewrite (rep_K _ _ _ HR), Hfk. reflexivity. }
      rewrite Ham. destruct (delitem_rep d f T k v HR Hfk) as [d' [Hd' HR']].
      rewrite Hd'. destruct (IH _ _ _ HR') as [d1 [Hd1 HR1]].
      exists d1. split; [exact Hd1|].
      eapply Rep_ext; [| |exact HR1].
      * intro k'. cbv beta. rewrite mem_cons. destruct (Nat.eqb k' k); simpl; destruct (mem k' r); reflexivity.
      * intro w. cbv beta. apply filter_notin_cons.
    + destruct (delitem_rep_none d f T k HR Hfk) as [_ Ham]. rewrite Ham.
      destruct (IH _ _ _ HR) as [d1 [Hd1 HR1]].
      exists d1. split; [exact Hd1|].
      eapply Rep_ext; [| |exact HR1].
      * intro k'. cbv beta. rewrite mem_cons. destruct (Nat.eqb k' k) eqn:E; simpl; [|reflexivity].
        apply Nat.eqb_eq in E. subst k'. rewrite Hfk. destruct (mem k r); reflexivity.
      * intro w. cbv beta. rewrite <- filter_notin_cons. f_equal. symmetry.
        apply filter_nk_notin. intro Hin. apply (rep_part _ _ _ HR) in Hin. congruence.
Qed.

(* ---- binding a fresh tuple to a value without keys *)
Lemma bind_rep d1 f1 T1 t2 v :
  Rep d1 f1 T1 -> T1 v = [] -> t2 <> [] -> NoDup t2 -> (forall k, In k t2 -> f1 k = None) ->
  Rep (MKD (fold_left (fun acc k' => aset Nat.eqb k' t2 acc) t2 (keys_dict d1))
           (aset Nat.eqb v t2 (inv_dict d1))
           (aset tup_eqb t2 v (store d1)))
      (fun k => if mem k t2 then Some v else f1 k)
      (fun w => if Nat.eqb w v then t2 else T1 w).
Proof.
  intros [Hndk Hndi Hnds Hpart HndT HK HI HS] HTv Hne Hnd Hfresh.
  assert (Hf1v : forall k, f1 k <> Some v).
  { intros k Hk. apply Hpart in Hk. rewrite HTv in Hk. contradiction. }
  constructor; simpl.
  - apply NoDup_fold_aset. exact Hndk.
  - apply (NoDup_aset Nat.eqb NE). exact Hndi.
  - apply (NoDup_aset tup_eqb tup_eqb_spec). exact Hnds.
  - intros k w. destruct (Nat.eqb w v) eqn:E.
    + apply Nat.eqb_eq in E. subst w. rewrite <- mem_In. destruct (mem k t2); split; intro H; try reflexivity; try discriminate.
      exfalso. apply (Hf1v k). exact H.
    + apply Nat.eqb_neq in E. rewrite Hpart. destruct (mem k t2) eqn:Em; [|tauto].
      apply mem_In in Em. rewrite (Hfresh k Em). split; intro H; [discriminate|congruence].
  - intro w. destruct (Nat.eqb w v); [exact Hnd|apply HndT].
  - intro k. rewrite aget_fold_aset. destruct (mem k t2) eqn:Em; simpl.
    + rewrite Nat.eqb_refl. reflexivity.
    + rewrite HK. destruct (f1 k) as [w|] eqn:Ef; simpl; [|reflexivity].
      destruct (Nat.eqb w v) eqn:E; [|reflexivity].
      apply Nat.eqb_eq in E. subst w. exfalso. apply (Hf1v k). exact Ef.
  - intro w. rewrite (aget_aset Nat.eqb NE). destruct (Nat.eqb w v).
    + symmetry. apply match_nil_some. exact Hne.
    + apply HI.
  - intros t w. rewrite (aget_aset tup_eqb tup_eqb_spec).
    destruct (tup_eqb t t2) eqn:Et.
    + apply tup_eqb_spec in Et. subst t. split.
      * intro H. inversion H; subst. rewrite Nat.eqb_refl. split; [reflexivity|exact Hne].
      * intros [H1 _]. destruct (Nat.eqb w v) eqn:E.
        -- apply Nat.eqb_eq in E. congruence.
        -- exfalso. destruct t2 as [|x r]; [congruence|].
           assert (Hx : f1 x = Some w). { apply Hpart. rewrite <- H1. left. reflexivity. }
           rewrite (Hfresh x) in Hx; [discriminate|left; reflexivity].
    + rewrite HS. destruct (Nat.eqb w v) eqn:E.
      * apply Nat.eqb_eq in E. subst w. rewrite HTv. split.
        -- intros [H1 H2]. congruence.
        -- intros [H1 _]. subst t. rewrite tup_eqb_refl in Et. discriminate.
      * tauto.
Qed.

(* ---- __setitem__ *)
Lemma setitem_rep d f T kt v :
  Rep d f T -> kt <> [] ->
  exists d', setitem d kt v = Ok d' /\
    Rep d' (fun k => if mem k kt then Some v else f k)
           (fun w => if Nat.eqb w v then dedup_last (T v ++ kt) else filter (notin kt) (T w)).
Proof.
  intros HR Hne.
  set (kt2 := dedup_last (T v ++ kt)).
  assert (Hkt1 : match aget Nat.eqb v (inv_dict d) with Some t => t ++ kt | None => kt end = T v ++ kt).
  { rewrite (rep_I _ _ _ HR). destruct (T v); reflexivity. }
  assert (Hmem : forall k, mem k kt2 = mem k (T v) || mem k kt).
  { intro k. unfold kt2. rewrite mem_dedup_last. apply mem_app. }
  assert (Hkt2ne : kt2 <> []).
  { unfold kt2. apply dedup_last_nonempty. destruct (T v); simpl; [exact Hne|discriminate]. }
  destruct (del_all_rep kt2 d f T HR) as [d1 [Hd1 HR1]].
  unfold setitem. rewrite Hkt1. fold kt2. rewrite Hd1.
  eexists. split; [reflexivity|].
  eapply Rep_ext; [| |apply (bind_rep d1 _ _ kt2 v HR1)].
  - intro k. cbv beta. rewrite Hmem. destruct (mem k kt) eqn:E2.
    + rewrite orb_true_r. reflexivity.
    + rewrite orb_false_r. destruct (mem k (T v)) eqn:E1; [|reflexivity].
      apply mem_In in E1. apply (rep_part _ _ _ HR) in E1. symmetry. exact E1.
  - intro w. cbv beta. destruct (Nat.eqb w v) eqn:E; [reflexivity|].
    apply Nat.eqb_neq in E. apply filter_ext_in. intros x Hx. unfold notin. rewrite Hmem.
    assert (E1 : mem x (T v) = false).
    { apply mem_false. intro Hin. apply (rep_part _ _ _ HR) in Hin. apply (rep_part _ _ _ HR) in Hx. congruence. }
    rewrite E1. reflexivity.
  - cbv beta. apply filter_false. intros x Hx. unfold notin. rewrite Hmem.
    apply mem_In in Hx. rewrite Hx. reflexivity.
  - exact Hkt2ne.
  - apply dedup_last_NoDup.
  - intros k Hk. cbv beta. apply mem_In in Hk. rewrite Hk. reflexivity.
Qed.

(* ------------------------------------------------------------------ *)
(* concrete vs abstract state                                          *)
Definition Coherent (d : mkd) (a : astate) : Prop := WF a /\ Rep d (aval a) (keys_of a).

Lemma Coherent_init : Coherent empty ainit.
Proof.
  split; [apply WF_init|]. apply (Rep_ext empty (fun _ => None) (fun _ => [])).
  - reflexivity.
  - reflexivity.
  - apply Rep_empty.
Qed.

Lemma Coherent_same d a a' :
  amap a' = amap a -> clock a' = clock a -> Coherent d a -> Coherent d a'.
Proof.
  intros Hm Hc [Hwf HR]. split; [apply (WF_same a); assumption|].
  eapply Rep_ext; [| |exact HR].
  - intro k. symmetry. apply aval_same. exact Hm.
  - intro v. symmetry. apply keys_of_same. exact Hm.
Qed.

Lemma delitem_coherent d a k v :
  Coherent d a -> aval a k = Some v ->
  exists d', delitem d k = Ok d' /\ Coherent d' (adel1 a k).
Proof.
  intros [Hwf HR] Hk. destruct (delitem_rep _ _ _ k v HR Hk) as [d' [Hd' HR']].
  exists d'. split; [exact Hd'|]. split; [apply WF_adel1; exact Hwf|].
  eapply Rep_ext; [| |exact HR'].
  - intro k'. cbv beta. symmetry. apply aval_adel1. apply (wf_nd _ Hwf).
  - intro w. cbv beta. symmetry. apply keys_of_adel1. apply (wf_nd _ Hwf).
Qed.

Lemma delitem_coherent_none d a k :
  Coherent d a -> aval a k = None -> delitem d k = KeyError.
Proof. intros [_ HR] Hk. apply (delitem_rep_none _ _ _ k HR Hk). Qed.

Lemma aspec_set_false a kt v :
  aspec_set false a kt v = fold_left (fun acc k => aset1 acc k v) (dedup_last kt) a.
Proof. reflexivity. Qed.

Lemma setitem_coherent d a kt v :
  Coherent d a -> kt <> [] ->
  exists d', setitem d kt v = Ok d' /\ Coherent d' (aspec_set false a kt v).
Proof.
  intros [Hwf HR] Hne. destruct (setitem_rep _ _ _ kt v HR Hne) as [d' [Hd' HR']].
  exists d'. split; [exact Hd'|]. rewrite aspec_set_false.
  split; [apply WF_fold_aset1; exact Hwf|].
  eapply Rep_ext; [| |exact HR'].
  - intro k. cbv beta. rewrite aval_fold_aset1, mem_dedup_last. reflexivity.
  - intro w. cbv beta. rewrite keys_of_fold_aset1; [|exact Hwf|apply dedup_last_NoDup].
    destruct (Nat.eqb w v).
    + rewrite dedup_last_app. rewrite dedup_last_nodup_id by (apply keys_of_NoDup; apply (wf_nd _ Hwf)).
      f_equal. apply filter_ext. intro x. unfold notin. rewrite mem_dedup_last. reflexivity.
    + apply filter_ext. intro x. unfold notin. rewrite mem_dedup_last. reflexivity.
Qed.

(* ------------------------------------------------------------------ *)
(* the observable view                                                 *)
Definition seteqP {A} (a b : list A) : Prop := length a = length b /\ incl a b /\ incl b a.

Definition view_ok (o s : view) : Prop :=
  v_raised o = v_raised s /\ v_get o = v_get s /\ v_k2k o = v_k2k s /\ v_v2k o = v_v2k s /\
  v_len o = v_len s /\ seteqP (v_keys o) (v_keys s) /\ seteqP (v_iter o) (v_iter s) /\
  v_attr o = v_attr s /\ v_default o = v_default s.

Lemma subset_incl {A} (e : A -> A -> bool) :
  (forall x y, e x y = true <-> x = y) ->
  forall a b, subset e a b = true <-> incl a b.
Proof.
  intros He a b. unfold subset, incl. rewrite forallb_forall. split; intros H x Hx.
  - specialize (H x Hx). apply existsb_exists in H as [y [Hy Hxy]]. apply He in Hxy. subst. exact Hy.
  - apply existsb_exists. exists x. split; [apply H; exact Hx|apply He; reflexivity].
Qed.

Lemma seteq_iff {A} (e : A -> A -> bool) :
  (forall x y, e x y = true <-> x = y) ->
  forall a b, seteq e a b = true <-> seteqP a b.
Proof.
  intros He a b. unfold seteq, seteqP.
  rewrite !andb_true_iff, Nat.eqb_eq, !(subset_incl e He). tauto.
Qed.

Lemma oval_eqb_spec a b : oval_eqb a b = true <-> a = b.
Proof. apply option_eqb_spec. apply Nat.eqb_eq. Qed.
Lemma otup_eqb_spec a b : otup_eqb a b = true <-> a = b.
Proof. apply option_eqb_spec. apply tup_eqb_spec. Qed.

Theorem view_okb_true_iff o s : view_okb o s = true <-> view_ok o s.
Proof.
  unfold view_okb, view_ok.
  rewrite !andb_true_iff, Bool.eqb_true_iff, Nat.eqb_eq.
  rewrite !(list_eqb_spec oval_eqb oval_eqb_spec).
  rewrite (list_eqb_spec otup_eqb otup_eqb_spec).
  rewrite (list_eqb_spec tup_eqb tup_eqb_spec).
  rewrite (seteq_iff tup_eqb tup_eqb_spec), (seteq_iff Nat.eqb Nat.eqb_eq).
  rewrite oval_eqb_spec. tauto.
Qed.

(* facts about the dict part of a view, for any list of "live" values *)
Lemma NoDup_map_T (f : key -> option val) (T : val -> tup) vals :
  (forall k v, In k (T v) <-> f k = Some v) ->
  NoDup vals -> (forall v, In v vals -> T v <> []) -> NoDup (map T vals).
Proof.
  intros Hpart Hnd. induction Hnd as [|v r Hnotin Hndr IH]; simpl; intro Hne; [constructor|].
  constructor.
  - intro Hin. apply in_map_iff in Hin as [w [Hw Hin]].
    assert (Hwv : w <> v) by (intro; subst; contradiction).
    assert (Hwn : T w <> []) by (apply Hne; right; exact Hin).
    apply (part_neq f T Hpart w v (T v) Hwv Hwn); [apply incl_refl|exact Hw].
  - apply IH. intros w Hw. apply Hne. right. exact Hw.
Qed.

Lemma rep_view d f T vals :
  Rep d f T -> NoDup vals -> (forall v, In v vals <-> T v <> []) ->
  (forall k, ores (getitem d k) = f k) /\
  (forall k, ores (key2keys d k) = option_map T (f k)) /\
  (forall v, value2keys d v = T v) /\
  mlen d = length vals /\
  seteqP (mkeys d) (map T vals) /\
  seteqP (miter d) vals /\
  seteqP (mvalues d) vals.
Proof.
  intros [Hndk Hndi Hnds Hpart HndT HK HI HS] Hndv Hvals.
  assert (Hinv : length (inv_dict d) = length vals /\ incl (map fst (inv_dict d)) vals /\
                 incl vals (map fst (inv_dict d))).
  { apply (assoc_length_eq Nat.eqb NE); [exact Hndi|exact Hndv|].
    intro v. rewrite Hvals, HI. destruct (T v); split; intro H; congruence. }
  assert (HndTv : NoDup (map T vals)).
  { apply (NoDup_map_T f T vals Hpart Hndv). intros v Hv. apply Hvals. exact Hv. }
  assert (Hst1 : incl (map fst (store d)) (map T vals)).
  { intros t Ht. apply (In_fst_aget tup_eqb tup_eqb_spec) in Ht as [v Hv].
    apply HS in Hv as [H1 H2]. subst t. apply in_map. apply Hvals. exact H2. }
  assert (Hst2 : incl (map T vals) (map fst (store d))).
  { intros t Ht. apply in_map_iff in Ht as [v [Hv Hin]]. subst t.
    apply (aget_Some_In_fst tup_eqb tup_eqb_spec _ v). apply HS. split; [reflexivity|].
    apply Hvals. exact Hin. }
  assert (Hlen : length (store d) = length vals).
  { rewrite <- (map_length fst (store d)), <- (map_length T vals).
    apply Nat.le_antisymm; apply NoDup_incl_length; assumption. }
  split; [|split; [|split; [|split; [|split; [|split]]]]].
  - intro k. unfold getitem. rewrite HK. destruct (f k) as [v|] eqn:Ef; simpl; [|reflexivity].
    assert (Hst : aget tup_eqb (T v) (store d) = Some v).
    { apply HS. split; [reflexivity|]. intro Hn. apply Hpart in Ef. rewrite Hn in Ef. contradiction. }
    rewrite Hst. reflexivity.
  - intro k. unfold key2keys. rewrite HK. destruct (f k); reflexivity.
  - intro v. unfold value2keys. rewrite HI. destruct (T v); reflexivity.
  - exact Hlen.
  - unfold mkeys. split; [|split; assumption]. rewrite !map_length. exact Hlen.
  - unfold miter. split; [|tauto]. rewrite map_length. tauto.
  - unfold mvalues. split; [rewrite map_length; exact Hlen|]. split.
    + intros v Hv. apply in_map_iff in Hv as [[t v'] [He Hin]]. simpl in He. subst v'.
      apply (In_aget tup_eqb tup_eqb_spec) in Hin; [|exact Hnds].
      apply HS in Hin as [H1 H2]. subst t. apply Hvals. exact H2.
    + intros v Hv. apply Hvals in Hv.
      assert (Hst : aget tup_eqb (T v) (store d) = Some v) by (apply HS; split; [reflexivity|exact Hv]).
      apply (aget_Some_In tup_eqb tup_eqb_spec) in Hst. apply (in_map snd) in Hst. exact Hst.
Qed.

Lemma coherent_view d a :
  Coherent d a ->
  (forall k, ores (getitem d k) = aval a k) /\
  (forall k, ores (key2keys d k) = option_map (keys_of a) (aval a k)) /\
  (forall v, value2keys d v = keys_of a v) /\
  mlen d = length (values_of a) /\
  seteqP (mkeys d) (map (keys_of a) (values_of a)) /\
  seteqP (miter d) (values_of a) /\
  seteqP (mvalues d) (values_of a).
Proof.
  intros [Hwf HR]. apply (rep_view d (aval a) (keys_of a) (values_of a) HR).
  - apply values_of_NoDup.
  - intro v. apply values_of_keys. apply (wf_nd _ Hwf).
Qed.

Lemma mview_ok ks vs d a e : Coherent d a -> view_ok (mview ks vs d e) (aview false ks vs a e).
Proof.
  intro HC. destruct (coherent_view d a HC) as [H1 [H2 [H3 [H4 [H5 [H6 H7]]]]]].
  unfold view_ok, mview, aview. simpl.
  split; [reflexivity|]. split; [apply map_ext; exact H1|].
  split; [apply map_ext; intro k; rewrite H2; destruct (aval a k); reflexivity|].
  split; [apply map_ext; exact H3|].
  split; [exact H4|]. split; [exact H5|]. split; [exact H6|]. split; reflexivity.
Qed.

(* ------------------------------------------------------------------ *)
(* forward simulation over whole histories                             *)
(* the restriction on histories: no assignment through the empty tuple *)
Definition op_ok (o : op) : Prop := match o with OSet kt _ => kt <> [] | _ => True end.

Lemma amem_store_iff kt (l : list (tup * val)) : amem tup_eqb kt l = true <-> In kt (map fst l).
Proof.
  unfold amem. destruct (aget tup_eqb kt l) as [v|] eqn:E; split; intro H; try reflexivity; try discriminate.
  - apply (aget_Some_In_fst tup_eqb tup_eqb_spec _ v). exact E.
  - apply (In_fst_aget tup_eqb tup_eqb_spec) in H as [v Hv]. congruence.
Qed.

(* observations raise exactly when the specification says so *)
Lemma qraises_coherent d a q : Coherent d a -> qraises d q = aq_raises a q.
Proof.
  intro HC. destruct (coherent_view d a HC) as [H1 [H2 _]].
  destruct q as [k|k|v| | |kt|]; simpl; try reflexivity;
    [| |f_equal; apply Bool.eq_true_iff_eq; rewrite amem_store_iff, existsb_exists;
         destruct (coherent_view d a HC) as [_ [_ [_ [_ [[_ [Hi1 Hi2]] _]]]]]; split;
         [intro Hin; apply Hi1 in Hin; apply in_map_iff in Hin as [v [Hv Hin]]; exists v; split;
            [exact Hin|apply tup_eqb_spec; exact Hv]
         |intros [v [Hin Hv]]; apply tup_eqb_spec in Hv; apply Hi2; apply in_map_iff; exists v; split; assumption]].
  - specialize (H1 k). destruct (getitem d k), (aval a k); simpl in *; congruence.
  - specialize (H2 k). destruct (key2keys d k), (aval a k); simpl in *; congruence.
Qed.

Lemma mstep_coherent d a o :
  Coherent d a -> op_ok o ->
  Coherent (fst (mstep d o)) (fst (astep false a o)) /\ snd (mstep d o) = snd (astep false a o).
Proof.
  intros HC Hok. destruct o as [kt v|k|k|kt|q|v| |kt]; simpl.
  - destruct (setitem_coherent d a kt v HC Hok) as [d' [Hd' HC']]. rewrite Hd'. simpl. split; [exact HC'|reflexivity].
  - unfold aspec_del. destruct (aval a k) as [v|] eqn:Hk.
    + destruct (delitem_coherent d a k v HC Hk) as [d' [Hd' HC']]. rewrite Hd'. simpl. split; [exact HC'|reflexivity].
    + rewrite (delitem_coherent_none d a k HC Hk). simpl. split; [exact HC|reflexivity].
  - split; [exact HC|reflexivity].
  - split; [exact HC|reflexivity].
  - split; [exact HC|apply qraises_coherent; exact HC].
  - split; [exact HC|reflexivity].
  - split; [exact HC|reflexivity].
  - split; [exact HC|reflexivity].
Qed.

Lemma mkd_refines_gen ks vs ops : forall d a,
  Coherent d a -> Forall op_ok ops ->
  Forall2 view_ok (mrun ks vs d ops) (arun false ks vs a ops).
Proof.
  induction ops as [|o r IH]; intros d a HC Hok; simpl; [constructor|].
  inversion Hok as [|o' r' Ho Hr]; subst.
  destruct (mstep_coherent d a o HC Ho) as [HC' He].
  destruct (mstep d o) as [d' e]. destruct (astep false a o) as [a' e']. simpl in *. subst e'.
  constructor; [apply mview_ok; exact HC'|apply IH; assumption].
Qed.

(* Hypothesis "Forall op_ok ops": no OSet with the empty key tuple. *)
Theorem mkd_refines : forall ks vs ops,
  Forall op_ok ops ->
  Forall2 view_ok (mrun ks vs empty ops) (arun false ks vs ainit ops).
Proof.
  intros ks vs ops Hok. apply mkd_refines_gen; [apply Coherent_init|exact Hok].
Qed.

(* The restriction is necessary: d[()] = v creates an entry with no name. *)
Example mkd_empty_tuple_counterexample :
  view_okb (hd (mview [] [] empty false) (mrun [0] [0] empty [OSet [] 0]))
           (hd (mview [] [] empty false) (arun false [0] [0] ainit [OSet [] 0])) = false.
Proof. vm_compute. reflexivity. Qed.
