(* C15 - the property as an abstract key -> (value, stamp) map.
   stamp = index of the assignment that last wrote the key; a key tuple stamps
   its keys left to right (duplicates: the last occurrence wins). *)
From Coq Require Import List Bool Arith.
From AL Require Import C15.Model.
Import ListNotations.

Record astate := AST { amap : list (key * (val * nat)); clock : nat; adefault : option val }.
Definition ainit : astate := AST [] 0 None.

Definition aval (a : astate) (k : key) : option val :=
  match aget Nat.eqb k (amap a) with Some (v, _) => Some v | None => None end.

(* keys holding value v, by increasing stamp (insertion sort on stamps) *)
Fixpoint ins_by_stamp (x : key * nat) (l : list (key * nat)) : list (key * nat) :=
  match l with
  | [] => [x]
  | y :: r => if snd x <? snd y then x :: y :: r else y :: ins_by_stamp x r
  end.
Definition keys_of (a : astate) (v : val) : tup :=
  map fst (fold_right ins_by_stamp []
    (flat_map (fun e => if Nat.eqb (fst (snd e)) v then [(fst e, snd (snd e))] else []) (amap a))).

Definition values_of (a : astate) : list val := nodup Nat.eq_dec (map (fun e => fst (snd e)) (amap a)).

(* assignment of one key *)
Definition aset1 (a : astate) (k : key) (v : val) : astate :=
  AST (aset Nat.eqb k (v, clock a) (adel Nat.eqb k (amap a))) (S (clock a)) (adefault a).
Definition adel1 (a : astate) (k : key) : astate :=
  AST (adel Nat.eqb k (amap a)) (clock a) (adefault a).

(* the default is dropped when its value loses its last name *)
Definition drop_default_if_last (a : astate) (k : key) : astate :=
  match aval a k with
  | Some v => if (length (keys_of a v) =? 1) && (match adefault a with Some dv => Nat.eqb v dv | None => false end)
              then AST (amap a) (clock a) None else a
  | None => a
  end.

Definition aspec_set (strategy : bool) (a : astate) (kt : tup) (v : val) : astate :=
  let a0 := if strategy
            then fold_left (fun acc k => match aval acc k with
                                         | Some _ => adel1 (drop_default_if_last acc k) k
                                         | None => acc end) kt a
            else a in
  let a1 := fold_left (fun acc k => aset1 acc k v) (dedup_last kt) a0 in
  if strategy then AST (amap a1) (clock a1) (match adefault a1 with Some d => Some d | None => Some v end)
  else a1.

Definition aspec_del (strategy : bool) (a : astate) (k : key) : astate * bool :=
  match aval a k with
  | None => (a, true)                          (* KeyError *)
  | Some _ => (adel1 (if strategy then drop_default_if_last a k else a) k, false)
  end.

(* StrategyDict only: the names of a rejected assignment are released first *)
Definition aspec_unname (a : astate) (kt : tup) : astate :=
  fold_left (fun acc k => match aval acc k with
                          | Some _ => adel1 (drop_default_if_last acc k) k
                          | None => acc end) kt a.

(* observations: a missing key raises KeyError, an unhashable argument TypeError; nothing changes *)
Definition aq_raises (a : astate) (q : query) : bool :=
  match q with
  | QGet k | QK2K k => match aval a k with Some _ => false | None => true end
  | QV2K _ => false
  | QPure => false
  | QBad => true
  (* a tuple finds something exactly when it is the key tuple of some value *)
  | QTup kt => negb (existsb (fun v => tup_eqb (keys_of a v) kt) (values_of a))
  | QNo => true
  end.

Definition astep (strategy : bool) (a : astate) (o : op) : astate * bool :=
  match o with
  | OSet kt v => (aspec_set strategy a kt v, false)
  | ODel k => aspec_del strategy a k
  | ODelAttr k => if strategy then aspec_del strategy a k else (a, true)
  (* an assignment rejected with TypeError (unhashable value) leaves a MultiKeyDict unchanged;
     a StrategyDict has released the names of the assignment (as "del" of each present name) *)
  | OSetBad kt => (if strategy then aspec_unname a kt else a, true)
  | OObs q => (a, aq_raises a q)
  (* the user may choose or remove the default at any time *)
  | OSetDefault v => (if strategy then AST (amap a) (clock a) (Some v) else a, false)
  | ODelDefault => if strategy then match adefault a with
                                    | Some _ => (AST (amap a) (clock a) None, false)
                                    | None => (a, true) end
                   else (a, true)
  (* a tuple is never a key: deleting one is refused with KeyError and changes nothing *)
  | ODelT _ => (a, true)
  end.

(* the view the property promises (keys()/iteration only up to order) *)
Definition aview (strategy : bool) (ks : list key) (vs : list val) (a : astate) (raised : bool) : view :=
  VIEW raised (map (aval a) ks)
       (map (fun k => match aval a k with Some v => Some (keys_of a v) | None => None end) ks)
       (map (keys_of a) vs)
       (length (values_of a))
       (map (keys_of a) (values_of a))
       (values_of a)
       (if strategy then map (aval a) ks else [])
       (if strategy then adefault a else None).

Fixpoint arun (strategy : bool) (ks : list key) (vs : list val) (a : astate) (ops : list op) : list view :=
  match ops with
  | [] => []
  | o :: r => let '(a', e) := astep strategy a o in aview strategy ks vs a' e :: arun strategy ks vs a' r
  end.

(* ---- several objects (round 3): each object is its own abstract map; building a MultiKeyDict from
   another object copies that object's key -> (value, stamp) map as it is at that moment (a
   MultiKeyDict has no default); afterwards the two evolve independently *)
Definition acopy (a : astate) : astate := AST (amap a) (clock a) None.

Definition ahstep (h : list (bool * astate)) (m : mop) : list (bool * astate) * bool :=
  match m with
  | MOn i o => match nth_error h i with
               | Some (st, a) => let '(a', e) := astep st a o in (set_nth i (st, a') h, e)
               | None => (h, true) end
  | MCast i => match nth_error h i with
               | Some (_, a) => (h ++ [(false, acopy a)], false)
               | None => (h, true) end
  | MNew st => (h ++ [(st, ainit)], false)
  end.

Fixpoint ahrun (ks : list key) (vs : list val) (h : list (bool * astate)) (ms : list mop) : list (bool * list view) :=
  match ms with
  | [] => []
  | m :: r => let '(h', e) := ahstep h m in
              (e, map (fun sa => aview (fst sa) ks vs (snd sa) false) h') :: ahrun ks vs h' r
  end.
