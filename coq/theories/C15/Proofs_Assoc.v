(* C15 proofs, layer 1: association lists with the Python dict discipline,
   membership / filter helpers, and the "last occurrence wins" de-duplication. *)
From Coq Require Import List Bool Arith Lia Permutation.
From AL Require Import Base.CaseLib C15.Model.
Import ListNotations.

(* ------------------------------------------------------------------ *)
(* generic association lists                                           *)
Section AssocGen.
Context {K V : Type} (eqb : K -> K -> bool).
Hypothesis eqb_spec : forall x y, eqb x y = true <-> x = y.

Lemma geqb_refl x : eqb x x = true.
Proof. apply eqb_spec. reflexivity. Qed.

Lemma geqb_neq x y : x <> y -> eqb x y = false.
Proof.
  intro Hne. destruct (eqb x y) eqn:E; [|reflexivity].
  apply eqb_spec in E. contradiction.
Qed.

Lemma geqb_false x y : eqb x y = false -> x <> y.
Proof. intros E Heq. subst. rewrite geqb_refl in E. discriminate. Qed.

Lemma aget_aset (k k' : K) (v : V) l :
  aget eqb k (aset eqb k' v l) = if eqb k k' then Some v else aget eqb k l.
Proof.
  induction l as [|[k1 v1] r IH]; simpl.
  - reflexivity.
  - destruct (eqb k' k1) eqn:E1; simpl.
    + apply eqb_spec in E1. subst k1. destruct (eqb k k'); reflexivity.
    + rewrite IH. destruct (eqb k k1) eqn:E2; [|reflexivity].
      apply eqb_spec in E2. subst k1.
      rewrite (geqb_neq k k'); [reflexivity|].
      intro Heq. subst. rewrite geqb_refl in E1. discriminate.
Qed.

Lemma aget_adel_neq (k k' : K) (l : list (K * V)) :
  eqb k k' = false -> aget eqb k (adel eqb k' l) = aget eqb k l.
Proof.
  intro Hne. induction l as [|[k1 v1] r IH]; simpl; [reflexivity|].
  destruct (eqb k' k1) eqn:E1; simpl.
  - apply eqb_spec in E1. subst k1. rewrite Hne. reflexivity.
  - rewrite IH. reflexivity.
Qed.

Lemma aget_None_iff (k : K) (l : list (K * V)) :
  aget eqb k l = None <-> ~ In k (map fst l).
Proof.
  induction l as [|[k1 v1] r IH]; simpl.
  - tauto.
  - destruct (eqb k k1) eqn:E.
    + apply eqb_spec in E. subst. split; [discriminate|]. intro H. exfalso. apply H. left. reflexivity.
    + apply geqb_false in E. rewrite IH. split.
      * intros H [H1|H1]; [congruence|contradiction].
      * intros H H1. apply H. right. exact H1.
Qed.

Lemma aget_Some_In (k : K) (v : V) l : aget eqb k l = Some v -> In (k, v) l.
Proof.
  induction l as [|[k1 v1] r IH]; simpl; [discriminate|].
  destruct (eqb k k1) eqn:E.
  - apply eqb_spec in E. subst. intro H. inversion H. left. reflexivity.
  - intro H. right. apply IH. exact H.
Qed.

Lemma aget_Some_In_fst (k : K) (v : V) l : aget eqb k l = Some v -> In k (map fst l).
Proof.
  intro H. apply aget_Some_In in H. apply (in_map fst) in H. exact H.
Qed.

Lemma In_aget (k : K) (v : V) l :
  NoDup (map fst l) -> In (k, v) l -> aget eqb k l = Some v.
Proof.
  induction l as [|[k1 v1] r IH]; simpl; intros Hnd Hin; [contradiction|].
  inversion Hnd as [|x xs Hnotin Hnd']; subst.
  destruct Hin as [Heq|Hin].
  - inversion Heq; subst. rewrite geqb_refl. reflexivity.
  - destruct (eqb k k1) eqn:E.
    + apply eqb_spec in E. subst. exfalso. apply Hnotin.
      apply (in_map fst) in Hin. exact Hin.
    + apply IH; assumption.
Qed.

Lemma In_fst_aget (k : K) (l : list (K * V)) :
  In k (map fst l) -> exists v, aget eqb k l = Some v.
Proof.
  intro Hin. destruct (aget eqb k l) as [v|] eqn:E.
  - exists v. reflexivity.
  - apply aget_None_iff in E. contradiction.
Qed.

Lemma In_adel (e : K * V) k l : In e (adel eqb k l) -> In e l.
Proof.
  induction l as [|[k1 v1] r IH]; simpl; [tauto|].
  destruct (eqb k k1); simpl.
  - intro H. right. exact H.
  - intros [H|H]; [left; exact H|right; apply IH; exact H].
Qed.

Lemma NoDup_map_adel {B : Type} (g : K * V -> B) k l :
  NoDup (map g l) -> NoDup (map g (adel eqb k l)).
Proof.
  induction l as [|[k1 v1] r IH]; simpl; intro Hnd; [constructor|].
  inversion Hnd as [|x xs Hnotin Hnd']; subst.
  destruct (eqb k k1); simpl.
  - exact Hnd'.
  - constructor.
    + intro Hin. apply Hnotin. apply in_map_iff in Hin as [e [He Hin]].
      apply in_map_iff. exists e. split; [exact He|]. apply In_adel in Hin. exact Hin.
    + apply IH. exact Hnd'.
Qed.

Lemma In_fst_adel x k (l : list (K * V)) : In x (map fst (adel eqb k l)) -> In x (map fst l).
Proof.
  intro H. apply in_map_iff in H as [e [He Hin]]. apply in_map_iff. exists e.
  split; [exact He|]. apply In_adel in Hin. exact Hin.
Qed.

Lemma adel_notin k (l : list (K * V)) : ~ In k (map fst l) -> adel eqb k l = l.
Proof.
  induction l as [|[k1 v1] r IH]; simpl; intro Hn; [reflexivity|].
  destruct (eqb k k1) eqn:E.
  - apply eqb_spec in E. subst. exfalso. apply Hn. left. reflexivity.
  - f_equal. apply IH. intro H. apply Hn. right. exact H.
Qed.

Lemma notin_adel k (l : list (K * V)) : NoDup (map fst l) -> ~ In k (map fst (adel eqb k l)).
Proof.
  induction l as [|[k1 v1] r IH]; simpl; intro Hnd; [tauto|].
  inversion Hnd as [|x xs Hnotin Hnd']; subst.
  destruct (eqb k k1) eqn:E; simpl.
  - apply eqb_spec in E. subst. exact Hnotin.
  - apply geqb_false in E. intros [H|H]; [congruence|]. apply (IH Hnd'). exact H.
Qed.

Lemma aget_adel (k k' : K) (l : list (K * V)) :
  NoDup (map fst l) ->
  aget eqb k (adel eqb k' l) = if eqb k k' then None else aget eqb k l.
Proof.
  intro Hnd. destruct (eqb k k') eqn:E.
  - apply eqb_spec in E. subst. apply aget_None_iff. apply notin_adel. exact Hnd.
  - apply aget_adel_neq. exact E.
Qed.

Lemma aset_notin k (v : V) l : ~ In k (map fst l) -> aset eqb k v l = l ++ [(k, v)].
Proof.
  induction l as [|[k1 v1] r IH]; simpl; intro Hn; [reflexivity|].
  destruct (eqb k k1) eqn:E.
  - apply eqb_spec in E. subst. exfalso. apply Hn. left. reflexivity.
  - f_equal. apply IH. intro H. apply Hn. right. exact H.
Qed.

Lemma In_fst_aset x k (v : V) l :
  In x (map fst (aset eqb k v l)) <-> x = k \/ In x (map fst l).
Proof.
  induction l as [|[k1 v1] r IH]; simpl.
  - intuition.
  - destruct (eqb k k1) eqn:E; simpl.
    + apply eqb_spec in E. subst. intuition.
    + rewrite IH. intuition.
Qed.

Lemma NoDup_aset k (v : V) l : NoDup (map fst l) -> NoDup (map fst (aset eqb k v l)).
Proof.
  induction l as [|[k1 v1] r IH]; simpl; intro Hnd.
  - constructor; [simpl; tauto|constructor].
  - inversion Hnd as [|x xs Hnotin Hnd']; subst.
    destruct (eqb k k1) eqn:E; simpl.
    + constructor; assumption.
    + apply geqb_false in E. constructor.
      * intro Hin. apply In_fst_aset in Hin as [Hin|Hin]; [congruence|contradiction].
      * apply IH. exact Hnd'.
Qed.

(* same elements + no duplicates => same length *)
Lemma assoc_length_eq (l : list (K * V)) (dom : list K) :
  NoDup (map fst l) -> NoDup dom ->
  (forall x, In x dom <-> aget eqb x l <> None) ->
  length l = length dom /\ incl (map fst l) dom /\ incl dom (map fst l).
Proof.
  intros Hnd Hnd' Hiff.
  assert (H1 : incl (map fst l) dom).
  { intros x Hx. apply Hiff. intro Hn. apply aget_None_iff in Hn. contradiction. }
  assert (H2 : incl dom (map fst l)).
  { intros x Hx. apply Hiff in Hx. destruct (aget eqb x l) as [v|] eqn:E; [|congruence].
    apply aget_Some_In_fst in E. exact E. }
  split; [|split; assumption].
  rewrite <- (map_length fst l). apply Nat.le_antisymm; apply NoDup_incl_length; assumption.
Qed.

End AssocGen.

(* ------------------------------------------------------------------ *)
(* tuples                                                              *)
Lemma tup_eqb_spec : forall a b : tup, tup_eqb a b = true <-> a = b.
Proof.
  induction a as [|x a IH]; intros [|y b]; simpl; split; intro H;
    try reflexivity; try discriminate.
  - apply andb_true_iff in H as [H1 H2]. apply Nat.eqb_eq in H1. apply IH in H2. congruence.
  - inversion H; subst. apply andb_true_iff. split; [apply Nat.eqb_refl|apply IH; reflexivity].
Qed.

Lemma tup_eqb_refl t : tup_eqb t t = true.
Proof. apply tup_eqb_spec. reflexivity. Qed.

(* ------------------------------------------------------------------ *)
(* membership and filters on keys                                      *)
Definition mem (k : key) (l : list key) : bool := existsb (Nat.eqb k) l.
Definition nk (k : key) : key -> bool := fun k' => negb (Nat.eqb k' k).
Definition notin (l : list key) : key -> bool := fun k' => negb (mem k' l).

Lemma mem_In k l : mem k l = true <-> In k l.
Proof.
  unfold mem. rewrite existsb_exists. split.
  - intros [x [Hin He]]. apply Nat.eqb_eq in He. subst. exact Hin.
  - intro Hin. exists k. split; [exact Hin|apply Nat.eqb_refl].
Qed.

Lemma mem_false k l : mem k l = false <-> ~ In k l.
Proof.
  rewrite <- mem_In. destruct (mem k l); split; intro H; congruence.
Qed.

Lemma mem_ext l1 l2 : (forall x, In x l1 <-> In x l2) -> forall k, mem k l1 = mem k l2.
Proof.
  intros H k. destruct (mem k l1) eqn:E1; destruct (mem k l2) eqn:E2; try reflexivity.
  - apply mem_In in E1. apply H in E1. apply mem_In in E1. congruence.
  - apply mem_In in E2. apply H in E2. apply mem_In in E2. congruence.
Qed.

Lemma mem_app k l1 l2 : mem k (l1 ++ l2) = mem k l1 || mem k l2.
Proof. unfold mem. apply existsb_app. Qed.

Lemma mem_cons k x l : mem k (x :: l) = Nat.eqb k x || mem k l.
Proof. reflexivity. Qed.

Lemma mem_rev k l : mem k (rev l) = mem k l.
Proof. apply mem_ext. intro x. symmetry. apply in_rev. Qed.

Lemma filter_true {A} (p : A -> bool) l : (forall x, In x l -> p x = true) -> filter p l = l.
Proof.
  induction l as [|x r IH]; simpl; intro H; [reflexivity|].
  rewrite (H x (or_introl eq_refl)). f_equal. apply IH. intros y Hy. apply H. right. exact Hy.
Qed.

Lemma filter_false {A} (p : A -> bool) l : (forall x, In x l -> p x = false) -> filter p l = [].
Proof.
  induction l as [|x r IH]; simpl; intro H; [reflexivity|].
  rewrite (H x (or_introl eq_refl)). apply IH. intros y Hy. apply H. right. exact Hy.
Qed.

Lemma filter_filter {A} (p q : A -> bool) l :
  filter p (filter q l) = filter (fun x => q x && p x) l.
Proof.
  induction l as [|x r IH]; simpl; [reflexivity|].
  destruct (q x); simpl; [destruct (p x)|]; rewrite IH; reflexivity.
Qed.

Lemma filter_rev' {A} (p : A -> bool) l : filter p (rev l) = rev (filter p l).
Proof.
  induction l as [|x r IH]; simpl; [reflexivity|].
  rewrite filter_app, IH. simpl. destruct (p x); simpl; [reflexivity|apply app_nil_r].
Qed.

Lemma map_fst_filter {A B} (p : A -> bool) (l : list (A * B)) :
  map fst (filter (fun x => p (fst x)) l) = filter p (map fst l).
Proof.
  induction l as [|x r IH]; simpl; [reflexivity|].
  destruct (p (fst x)); simpl; rewrite IH; reflexivity.
Qed.

Lemma filter_nk_notin k l : ~ In k l -> filter (nk k) l = l.
Proof.
  intro Hn. apply filter_true. intros x Hx. unfold nk.
  destruct (Nat.eqb x k) eqn:E; [|reflexivity]. apply Nat.eqb_eq in E. subst. contradiction.
Qed.

Lemma In_filter_nk x k l : In x (filter (nk k) l) <-> In x l /\ x <> k.
Proof.
  rewrite filter_In. unfold nk. destruct (Nat.eqb x k) eqn:E; simpl.
  - apply Nat.eqb_eq in E. intuition congruence.
  - apply Nat.eqb_neq in E. intuition.
Qed.

Lemma In_filter_notin x s l : In x (filter (notin s) l) <-> In x l /\ ~ In x s.
Proof.
  rewrite filter_In. unfold notin. rewrite negb_true_iff, mem_false. tauto.
Qed.

Lemma filter_notin_nil l : filter (notin []) l = l.
Proof. apply filter_true. intros. reflexivity. Qed.

Lemma filter_notin_cons k r l :
  filter (notin r) (filter (nk k) l) = filter (notin (k :: r)) l.
Proof.
  rewrite filter_filter. apply filter_ext. intro x. unfold nk, notin. simpl.
  rewrite negb_orb. reflexivity.
Qed.

(* ------------------------------------------------------------------ *)
(* fold of aset over a list of nat keys                                *)
Section FoldAset.
Context {V : Type}.

Lemma aget_fold_aset (x : V) ks : forall l k,
  aget Nat.eqb k (fold_left (fun acc k' => aset Nat.eqb k' x acc) ks l)
  = if mem k ks then Some x else aget Nat.eqb k l.
Proof.
  induction ks as [|k1 r IH]; intros l k; simpl; [reflexivity|].
  rewrite IH. rewrite (aget_aset Nat.eqb Nat.eqb_eq).
  destruct (Nat.eqb k k1); simpl; destruct (mem k r); reflexivity.
Qed.

Lemma NoDup_fold_aset (x : V) ks : forall l,
  NoDup (map fst l) -> NoDup (map fst (fold_left (fun acc k' => aset Nat.eqb k' x acc) ks l)).
Proof.
  induction ks as [|k1 r IH]; intros l Hnd; simpl; [exact Hnd|].
  apply IH. apply (NoDup_aset Nat.eqb Nat.eqb_eq). exact Hnd.
Qed.

End FoldAset.

(* ------------------------------------------------------------------ *)
(* dedup_first / dedup_last                                            *)
Lemma dedup_first_ext l : forall s1 s2,
  (forall x, mem x s1 = mem x s2) -> dedup_first l s1 = dedup_first l s2.
Proof.
  induction l as [|k r IH]; intros s1 s2 H; simpl; [reflexivity|].
  change (existsb (Nat.eqb k) s1) with (mem k s1).
  change (existsb (Nat.eqb k) s2) with (mem k s2).
  rewrite (H k). destruct (mem k s2).
  - apply IH. exact H.
  - f_equal. apply IH. intro x. unfold mem in *. simpl. rewrite H. reflexivity.
Qed.

Lemma dedup_first_In l : forall s x, In x (dedup_first l s) <-> In x l /\ ~ In x s.
Proof.
  induction l as [|k r IH]; intros s x; simpl; [tauto|].
  change (existsb (Nat.eqb k) s) with (mem k s).
  destruct (mem k s) eqn:E.
  - apply mem_In in E. rewrite IH. split.
    + intros [H1 H2]. split; [right; exact H1|exact H2].
    + intros [[H1|H1] H2]; [subst; contradiction|split; assumption].
  - apply mem_false in E. simpl. rewrite IH. simpl. split.
    + intros [H|[H1 H2]]; [subst; split; [left; reflexivity|exact E]|].
      split; [right; exact H1|]. intro H3. apply H2. right. exact H3.
    + intros [[H1|H1] H2]; [left; exact H1|].
      destruct (Nat.eq_dec k x) as [Heq|Hne]; [left; exact Heq|].
      right. split; [exact H1|]. intros [H3|H3]; [contradiction|contradiction].
Qed.

Lemma dedup_first_NoDup l : forall s, NoDup (dedup_first l s).
Proof.
  induction l as [|k r IH]; intro s; simpl; [constructor|].
  destruct (existsb (Nat.eqb k) s); [apply IH|].
  constructor; [|apply IH]. intro H. apply dedup_first_In in H as [_ H]. apply H. left. reflexivity.
Qed.

Lemma dedup_first_app a : forall b s s',
  (forall x, mem x s' = mem x a || mem x s) ->
  dedup_first (a ++ b) s = dedup_first a s ++ dedup_first b s'.
Proof.
  induction a as [|k r IH]; intros b s s' H; simpl.
  - apply dedup_first_ext. intro x. rewrite H. reflexivity.
  - change (existsb (Nat.eqb k) s) with (mem k s).
    destruct (mem k s) eqn:E.
    + apply IH. intro x. rewrite H. rewrite mem_cons.
      destruct (Nat.eqb x k) eqn:E2; simpl; [|reflexivity].
      apply Nat.eqb_eq in E2. subst. rewrite E. rewrite orb_true_r. reflexivity.
    + simpl. f_equal. apply IH. intro x. rewrite H. rewrite !mem_cons.
      destruct (Nat.eqb x k); simpl; [rewrite orb_true_r|]; reflexivity.
Qed.

Lemma dedup_first_seen l : forall s1 s2,
  dedup_first l (s1 ++ s2) = filter (notin s1) (dedup_first l s2).
Proof.
  induction l as [|k r IH]; intros s1 s2; simpl; [reflexivity|].
  change (existsb (Nat.eqb k) (s1 ++ s2)) with (mem k (s1 ++ s2)).
  change (existsb (Nat.eqb k) s2) with (mem k s2).
  rewrite mem_app. destruct (mem k s2) eqn:E2.
  - rewrite orb_true_r. apply IH.
  - rewrite orb_false_r. simpl. unfold notin at 1. destruct (mem k s1) eqn:E1; simpl.
    + rewrite <- IH. apply dedup_first_ext. intro x. rewrite !mem_app. rewrite mem_cons.
      destruct (Nat.eqb x k) eqn:E3; simpl; [|reflexivity].
      apply Nat.eqb_eq in E3. subst. rewrite E1. reflexivity.
    + f_equal. rewrite <- IH. apply dedup_first_ext. intro x.
      rewrite mem_cons, !mem_app, mem_cons.
      destruct (Nat.eqb x k); simpl; [rewrite orb_true_r|]; reflexivity.
Qed.

Lemma dedup_first_nodup_id l : forall s,
  NoDup l -> (forall x, In x l -> ~ In x s) -> dedup_first l s = l.
Proof.
  induction l as [|k r IH]; intros s Hnd Hs; simpl; [reflexivity|].
  inversion Hnd as [|x xs Hnotin Hnd']; subst.
  change (existsb (Nat.eqb k) s) with (mem k s).
  assert (E : mem k s = false). { apply mem_false. apply Hs. left. reflexivity. }
  rewrite E. f_equal. apply IH; [exact Hnd'|].
  intros x Hx [H|H]; [subst; contradiction|]. apply (Hs x); [right; exact Hx|exact H].
Qed.

Lemma dedup_last_In t x : In x (dedup_last t) <-> In x t.
Proof.
  unfold dedup_last. rewrite <- in_rev. rewrite dedup_first_In. rewrite <- in_rev. simpl. tauto.
Qed.

Lemma dedup_last_NoDup t : NoDup (dedup_last t).
Proof. unfold dedup_last. apply NoDup_rev. apply dedup_first_NoDup. Qed.

Lemma mem_dedup_last k t : mem k (dedup_last t) = mem k t.
Proof. apply mem_ext. intro x. apply dedup_last_In. Qed.

Lemma dedup_last_nodup_id t : NoDup t -> dedup_last t = t.
Proof.
  intro Hnd. unfold dedup_last. rewrite dedup_first_nodup_id.
  - apply rev_involutive.
  - apply NoDup_rev. exact Hnd.
  - intros x _ H. exact H.
Qed.

Lemma dedup_last_app l m :
  dedup_last (l ++ m) = filter (notin m) (dedup_last l) ++ dedup_last m.
Proof.
  unfold dedup_last. rewrite rev_app_distr.
  rewrite (dedup_first_app (rev m) (rev l) [] (rev m)).
  - rewrite rev_app_distr. f_equal.
    rewrite <- (app_nil_r (rev m)) at 1. rewrite dedup_first_seen.
    rewrite <- filter_rev'. apply filter_ext. intro x. unfold notin. rewrite mem_rev. reflexivity.
  - intro x. simpl. rewrite orb_false_r. reflexivity.
Qed.

Lemma dedup_last_nonempty t : t <> [] -> dedup_last t <> [].
Proof.
  intros Hne Heq. destruct t as [|x r]; [congruence|].
  assert (H : In x (dedup_last (x :: r))). { apply dedup_last_In. left. reflexivity. }
  rewrite Heq in H. contradiction.
Qed.
