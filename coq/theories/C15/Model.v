(* C15 - model of audiolazy.lazy_core.MultiKeyDict and StrategyDict.
   Concrete state = the three Python dicts as insertion-ordered association
   lists (update in place, append when new, delete), plus the attribute
   namespace and the instance-level "default" for StrategyDict.
   Every operation follows the code line by line.  No proofs in this file. *)
From Coq Require Import List Bool Arith.
Import ListNotations.

Definition key := nat.
Definition val := nat.
Definition tup := list key.

(* ---- Python dict discipline on association lists *)
Section Assoc.
Context {K V : Type} (eqb : K -> K -> bool).
Fixpoint aget (k : K) (l : list (K * V)) : option V :=
  match l with [] => None | (k', v) :: r => if eqb k k' then Some v else aget k r end.
Fixpoint aset (k : K) (v : V) (l : list (K * V)) : list (K * V) :=
  match l with
  | [] => [(k, v)]
  | (k', v') :: r => if eqb k k' then (k', v) :: r else (k', v') :: aset k v r
  end.
Fixpoint adel (k : K) (l : list (K * V)) : list (K * V) :=
  match l with [] => [] | (k', v') :: r => if eqb k k' then r else (k', v') :: adel k r end.
Definition amem (k : K) (l : list (K * V)) : bool :=
  match aget k l with Some _ => true | None => false end.
End Assoc.

Fixpoint tup_eqb (a b : tup) : bool :=
  match a, b with
  | [], [] => true
  | x :: a', y :: b' => Nat.eqb x y && tup_eqb a' b'
  | _, _ => false
  end.

Record mkd := MKD { keys_dict : list (key * tup); inv_dict : list (val * tup); store : list (tup * val) }.
Definition empty : mkd := MKD [] [] [].

Inductive res (T : Type) := Ok (x : T) | KeyError | AttributeError.
Arguments Ok {T}. Arguments KeyError {T}. Arguments AttributeError {T}.

(* __getitem__ with a non-tuple key *)
Definition getitem (d : mkd) (k : key) : res val :=
  match aget Nat.eqb k (keys_dict d) with
  | None => KeyError
  | Some t => match aget tup_eqb t (store d) with Some v => Ok v | None => KeyError end
  end.

(* __delitem__ *)
Definition delitem (d : mkd) (k : key) : res mkd :=
  match aget Nat.eqb k (keys_dict d) with
  | None => KeyError
  | Some key_tuple =>
    match aget tup_eqb key_tuple (store d) with
    | None => KeyError
    | Some value =>
      let new_key := filter (fun k' => negb (Nat.eqb k' k)) key_tuple in
      let kd := adel Nat.eqb k (keys_dict d) in
      let iv := adel Nat.eqb value (inv_dict d) in
      let stv := adel tup_eqb key_tuple (store d) in
      match new_key with
      | [] => Ok (MKD kd iv stv)
      | _ => Ok (MKD (fold_left (fun acc k' => aset Nat.eqb k' new_key acc) new_key kd)
                     (aset Nat.eqb value new_key iv)
                     (aset tup_eqb new_key value stv))
      end
    end
  end.

(* "for k in reversed(key): if k not in key_list: key_list.append(k)" then reversed *)
Fixpoint dedup_first (l : list key) (seen : list key) : list key :=
  match l with
  | [] => []
  | k :: r => if existsb (Nat.eqb k) seen then dedup_first r seen else k :: dedup_first r (k :: seen)
  end.
Definition dedup_last (t : tup) : tup := rev (dedup_first (rev t) []).

(* "for k in key: if k in self._keys_dict: MultiKeyDict.__delitem__(self, k)" *)
Fixpoint del_all (d : mkd) (ks : list key) : res mkd :=
  match ks with
  | [] => Ok d
  | k :: r => if amem Nat.eqb k (keys_dict d)
              then match delitem d k with Ok d' => del_all d' r | KeyError => KeyError | AttributeError => AttributeError end
              else del_all d r
  end.

(* __setitem__ ; the key is already a tuple *)
Definition setitem (d : mkd) (kt : tup) (value : val) : res mkd :=
  let kt1 := match aget Nat.eqb value (inv_dict d) with Some t => t ++ kt | None => kt end in
  let kt2 := dedup_last kt1 in
  match del_all d kt2 with
  | Ok d1 =>
      Ok (MKD (fold_left (fun acc k' => aset Nat.eqb k' kt2 acc) kt2 (keys_dict d1))
              (aset Nat.eqb value kt2 (inv_dict d1))
              (aset tup_eqb kt2 value (store d1)))
  | KeyError => KeyError | AttributeError => AttributeError
  end.

Definition key2keys (d : mkd) (k : key) : res tup :=
  match aget Nat.eqb k (keys_dict d) with Some t => Ok t | None => KeyError end.
Definition value2keys (d : mkd) (v : val) : tup :=
  match aget Nat.eqb v (inv_dict d) with Some t => t | None => [] end.
Definition mlen (d : mkd) : nat := length (store d).
Definition mkeys (d : mkd) : list tup := map fst (store d).
Definition miter (d : mkd) : list val := map fst (inv_dict d).     (* MultiKeyDict.__iter__ *)
Definition mvalues (d : mkd) : list val := map snd (store d).      (* itervalues: StrategyDict.__iter__ *)

(* ---- StrategyDict: dict + attribute namespace + instance-level default *)
Record sd := SD { sd_d : mkd; attrs : list (key * val); default : option val }.
Definition sd_empty : sd := SD empty [] None.

(* StrategyDict.__delitem__ *)
Definition sd_delitem (s : sd) (k : key) : res sd :=
  match key2keys (sd_d s) k with
  | KeyError => KeyError | AttributeError => AttributeError
  | Ok keys =>
    match aget tup_eqb keys (store (sd_d s)) with
    | None => KeyError
    | Some value =>
      match delitem (sd_d s) k with
      | KeyError => KeyError | AttributeError => AttributeError
      | Ok d' =>
        let attrs' := match aget Nat.eqb k (attrs s) with
                      | Some a => if Nat.eqb a value then adel Nat.eqb k (attrs s) else attrs s
                      | None => attrs s end in
        (* "len(keys) == 1 and value == self.default": the class-level default never equals a value *)
        let isdef := match default s with Some dv => Nat.eqb value dv | None => false end in
        if Nat.eqb (length keys) 1 && isdef then Ok (SD d' attrs' None) else Ok (SD d' attrs' (default s))
      end
    end
  end.

Fixpoint sd_try_del_all (s : sd) (ks : list key) : sd :=
  match ks with
  | [] => s
  | k :: r => match sd_delitem s k with Ok s' => sd_try_del_all s' r | _ => sd_try_del_all s r end
  end.

(* StrategyDict.__setitem__ *)
Definition sd_setitem (s : sd) (keys : tup) (value : val) : res sd :=
  let s1 := sd_try_del_all s keys in
  match setitem (sd_d s1) keys value with
  | KeyError => KeyError | AttributeError => AttributeError
  | Ok d' =>
    let attrs' := fold_left (fun acc k => aset Nat.eqb k value acc) keys (attrs s1) in
    Ok (SD d' attrs' (match default s1 with Some dv => Some dv | None => Some value end))
  end.

(* StrategyDict.__delattr__ *)
Definition sd_delattr (s : sd) (k : key) : res sd :=
  match getitem (sd_d s) k with
  | KeyError => (* not a strategy: plain attribute deletion *)
      if amem Nat.eqb k (attrs s) then Ok (SD (sd_d s) (adel Nat.eqb k (attrs s)) (default s)) else AttributeError
  | AttributeError => AttributeError
  | Ok v =>
      match aget Nat.eqb k (attrs s) with
      | None => AttributeError
      | Some a => if Nat.eqb v a then sd_delitem s k
                  else Ok (SD (sd_d s) (aset Nat.eqb k v (attrs s)) (default s))
      end
  end.

(* ---- histories *)
(* read-only observations made in the middle of a history.  QGet: d[k]; QK2K: d.key2keys(k);
   QV2K: d.value2keys(v); QPure: an observation that never raises (k in d, iteration, len, keys(),
   hasattr, calling the StrategyDict ...); QBad: a lookup with an unhashable argument (TypeError). *)
Inductive query := QGet (k : key) | QK2K (k : key) | QV2K (v : val) | QPure | QBad
  (* QTup kt: a TUPLE as the key of a lookup: d[kt] / kt in d / d.get(kt) go straight to the dict storage and find
     something exactly when kt is a stored key tuple; QNo: lookups that never find anything (k in d, d.get(k) and
     d.pop(k) with a non-tuple key, d.pop(()), ...).  The flag of such a step is "nothing found / KeyError". *)
  | QTup (kt : tup) | QNo.

(* OSetBad kt: "d[kt] = value" with an unhashable value (list, dict, set, object with __eq__ and no
   __hash__): "value in self._inv_dict" raises TypeError. *)
Inductive op := OSet (kt : tup) (v : val) | ODel (k : key) | ODelAttr (k : key)
              | OSetBad (kt : tup) | OObs (q : query)
              (* "sd.default = value" and "del sd.default" done by the user (StrategyDict only) *)
              | OSetDefault (v : val) | ODelDefault
              (* "del d[kt]" with a TUPLE (empty, 1-tuple, a stored key tuple, any other): self._keys_dict[kt]
                 (StrategyDict: self.key2keys(kt)) raises KeyError, tuples are never keys of _keys_dict *)
              | ODelT (kt : tup).

Definition is_err {T} (r : res T) : bool := match r with Ok _ => false | _ => true end.
(* does the observation raise?  None of them writes anything. *)
Definition qraises (d : mkd) (q : query) : bool :=
  match q with
  | QGet k => is_err (getitem d k)
  | QK2K k => is_err (key2keys d k)
  | QV2K _ => false
  | QPure => false
  | QBad => true
  | QTup kt => negb (amem tup_eqb kt (store d))
  | QNo => true
  end.

Definition mstep (d : mkd) (o : op) : mkd * bool :=   (* bool: the operation raised *)
  match o with
  | OSet kt v => match setitem d kt v with Ok d' => (d', false) | _ => (d, true) end
  | ODel k => match delitem d k with Ok d' => (d', false) | _ => (d, true) end
  | ODelAttr _ => (d, true)
  (* MultiKeyDict.__setitem__: the membership test on _inv_dict is the first statement that touches
     the value; it raises before anything is written *)
  | OSetBad _ => (d, true)
  | OObs q => (d, qraises d q)
  | OSetDefault _ => (d, false)      (* a plain attribute of a MultiKeyDict; not part of the views *)
  | ODelDefault => (d, true)         (* no such attribute (OSetDefault is never generated for a MultiKeyDict) *)
  | ODelT _ => (d, true)
  end.
Definition sstep (s : sd) (o : op) : sd * bool :=
  match o with
  | OSet kt v => match sd_setitem s kt v with Ok s' => (s', false) | _ => (s, true) end
  | ODel k => match sd_delitem s k with Ok s' => (s', false) | _ => (s, true) end
  | ODelAttr k => match sd_delattr s k with Ok s' => (s', false) | _ => (s, true) end
  (* StrategyDict.__setitem__ deletes the names first ("del self[k]" in a try), then the inherited
     __setitem__ raises TypeError: the names (and possibly the default) are gone *)
  | OSetBad kt => (sd_try_del_all s kt, true)
  | OObs q => (s, qraises (sd_d s) q)
  (* no __setattr__: the instance attribute is simply written *)
  | OSetDefault v => (SD (sd_d s) (attrs s) (Some v), false)
  (* __delattr__("default"): self["default"] raises KeyError ("default" is never a strategy name here), then
     object.__delattr__ removes the instance attribute or raises AttributeError *)
  | ODelDefault => match default s with
                   | Some _ => (SD (sd_d s) (attrs s) None, false)
                   | None => (s, true) end
  | ODelT _ => (s, true)
  end.

(* what a user can observe after a step, over key universe ks and value universe vs *)
Record view := VIEW {
  v_raised : bool;
  v_get : list (option val);      (* d[k], None = KeyError *)
  v_k2k : list (option tup);
  v_v2k : list tup;
  v_len : nat;
  v_keys : list tup;
  v_iter : list val;
  v_attr : list (option val);     (* StrategyDict only: getattr(sd, k) *)
  v_default : option val          (* StrategyDict only: instance default *)
}.
Definition ores {T} (r : res T) : option T := match r with Ok x => Some x | _ => None end.

Definition mview (ks : list key) (vs : list val) (d : mkd) (raised : bool) : view :=
  VIEW raised (map (fun k => ores (getitem d k)) ks) (map (fun k => ores (key2keys d k)) ks)
       (map (value2keys d) vs) (mlen d) (mkeys d) (miter d) [] None.
Definition sview (ks : list key) (vs : list val) (s : sd) (raised : bool) : view :=
  let d := sd_d s in
  VIEW raised (map (fun k => ores (getitem d k)) ks) (map (fun k => ores (key2keys d k)) ks)
       (map (value2keys d) vs) (mlen d) (mkeys d) (mvalues d)
       (map (fun k => aget Nat.eqb k (attrs s)) ks) (default s).

Fixpoint mrun (ks : list key) (vs : list val) (d : mkd) (ops : list op) : list view :=
  match ops with
  | [] => []
  | o :: r => let '(d', e) := mstep d o in mview ks vs d' e :: mrun ks vs d' r
  end.
Fixpoint srun (ks : list key) (vs : list val) (s : sd) (ops : list op) : list view :=
  match ops with
  | [] => []
  | o :: r => let '(s', e) := sstep s o in sview ks vs s' e :: srun ks vs s' r
  end.

(* ---- several dict objects, some built from others (round 3) *)
(* MultiKeyDict(other): "dict(other)" reads other through keys() and other[key tuple] (its __iter__ is
   overridden, so CPython takes the generic mapping path), i.e. one (key tuple, value) item per stored
   value in storage order; then "self[key] = value" for each item on the fresh object.  The same happens
   for MultiKeyDict(dict(other)) and MultiKeyDict(other.copy()). *)
Definition mkd_cast (d : mkd) : mkd :=
  fold_left (fun acc tv => fst (mstep acc (OSet (fst tv) (snd tv)))) (store d) empty.

Inductive obj := OM (d : mkd) | OS (s : sd).
Definition odict (x : obj) : mkd := match x with OM d => d | OS s => sd_d s end.
Definition ostep (x : obj) (o : op) : obj * bool :=
  match x with
  | OM d => let '(d', e) := mstep d o in (OM d', e)
  | OS s => let '(s', e) := sstep s o in (OS s', e)
  end.
Definition oview (ks : list key) (vs : list val) (x : obj) (raised : bool) : view :=
  match x with OM d => mview ks vs d raised | OS s => sview ks vs s raised end.

(* MOn i o: operation o on object number i; MCast i: a new MultiKeyDict built from object i is appended;
   MNew st: a fresh empty MultiKeyDict / StrategyDict is appended *)
Inductive mop := MOn (i : nat) (o : op) | MCast (i : nat) | MNew (strategy : bool).

Fixpoint set_nth {T} (i : nat) (x : T) (l : list T) : list T :=
  match l, i with
  | [], _ => []
  | _ :: r, 0 => x :: r
  | y :: r, S j => y :: set_nth j x r
  end.

Definition hstep (h : list obj) (m : mop) : list obj * bool :=
  match m with
  | MOn i o => match nth_error h i with
               | Some x => let '(x', e) := ostep x o in (set_nth i x' h, e)
               | None => (h, true) end
  | MCast i => match nth_error h i with
               | Some x => (h ++ [OM (mkd_cast (odict x))], false)
               | None => (h, true) end
  | MNew st => (h ++ [if st then OS sd_empty else OM empty], false)
  end.

(* after every step: the flag of the step and the view of EVERY object *)
Fixpoint hrun (ks : list key) (vs : list val) (h : list obj) (ms : list mop) : list (bool * list view) :=
  match ms with
  | [] => []
  | m :: r => let '(h', e) := hstep h m in (e, map (fun x => oview ks vs x false) h') :: hrun ks vs h' r
  end.
