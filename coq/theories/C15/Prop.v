From AL Require Import C15.Model C15.Spec.
