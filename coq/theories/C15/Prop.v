(* C15 - MultiKeyDict / StrategyDict: the statements that are proved.
   view_ok, op_ok, WF, stamp, astate_after, mem, nk, notin are defined in
   C15.Proofs (and its layers Proofs_Assoc / Proofs_Abs / Proofs_Mkd / Proofs_Sd).
   op_ok o  :=  match o with OSet kt _ => kt <> [] | _ => True end
   (no assignment through the empty tuple; see the counterexamples below). *)
From Coq Require Import List Bool Arith Sorted.
From AL Require Import Base.CaseLib C15.Model C15.Spec C15.Check C15.Proofs C15.Proofs_Multi.
Import ListNotations.

(* the boolean checker of the case files is the Prop used below *)
Theorem C15_view_okb_true_iff : forall o s, view_okb o s = true <-> view_ok o s.
Proof. exact view_okb_true_iff. Qed.
Print Assumptions C15_view_okb_true_iff.

(* ---- refinement: model of the implementation vs specification, all histories *)
Theorem C15_mkd_refines : forall ks vs ops,
  Forall op_ok ops ->
  Forall2 view_ok (mrun ks vs empty ops) (arun false ks vs ainit ops).
Proof. exact mkd_refines. Qed.
Print Assumptions C15_mkd_refines.

Theorem C15_sd_refines : forall ks vs ops,
  Forall op_ok ops ->
  Forall2 view_ok (srun ks vs sd_empty ops) (arun true ks vs ainit ops).
Proof. exact sd_refines. Qed.
Print Assumptions C15_sd_refines.

(* the same from any state built by the constructor (MultiKeyDict(dict)), including the view before
   the first operation; histories contain rejected assignments (OSetBad) and lookups (OObs) *)
Theorem C15_mkd_refines_from : forall ks vs init ops,
  Forall op_ok init -> Forall op_ok ops ->
  view_ok (mview ks vs (mstate_after init) false) (aview false ks vs (aspec_after false init) false) /\
  Forall2 view_ok (mrun ks vs (mstate_after init) ops) (arun false ks vs (aspec_after false init) ops).
Proof. exact mkd_refines_from. Qed.
Print Assumptions C15_mkd_refines_from.

Theorem C15_sd_refines_from : forall ks vs init ops,
  Forall op_ok init -> Forall op_ok ops ->
  view_ok (sview ks vs (sstate_after init) false) (aview true ks vs (aspec_after true init) false) /\
  Forall2 view_ok (srun ks vs (sstate_after init) ops) (arun true ks vs (aspec_after true init) ops).
Proof. exact sd_refines_from. Qed.
Print Assumptions C15_sd_refines_from.

(* lookups write nothing (model of the implementation and specification) *)
Theorem C15_observation_pure : forall d s a st q,
  fst (mstep d (OObs q)) = d /\ fst (sstep s (OObs q)) = s /\ fst (astep st a (OObs q)) = a.
Proof. exact observation_pure. Qed.
Print Assumptions C15_observation_pure.

(* an assignment rejected with TypeError is the identity step of a MultiKeyDict *)
Theorem C15_mkd_rejected_set_identity : forall d a kt,
  mstep d (OSetBad kt) = (d, true) /\ astep false a (OSetBad kt) = (a, true).
Proof. exact mkd_rejected_set_identity. Qed.
Print Assumptions C15_mkd_rejected_set_identity.

(* a StrategyDict has released the names of the rejected assignment, and only those *)
Theorem C15_sd_rejected_set_unnames : forall a kt k, WF a ->
  let a' := fst (astep true a (OSetBad kt)) in
  snd (astep true a (OSetBad kt)) = true /\
  (In k kt -> aval a' k = None) /\ (~ In k kt -> aval a' k = aval a k).
Proof. exact sd_rejected_set_unnames. Qed.
Print Assumptions C15_sd_rejected_set_unnames.

(* read-only steps of the model show the same state (the check pure_ok demands it of the implementation) *)
Theorem C15_model_readonly_steps : forall ks vs d o e,
  readonly false o = true ->
  same_state (mview ks vs d e) (mview ks vs (fst (mstep d o)) (snd (mstep d o))) = true.
Proof. exact model_readonly_steps. Qed.
Print Assumptions C15_model_readonly_steps.

(* the hypothesis cannot be dropped: d[()] = v stores a value without any name *)
Theorem C15_mkd_empty_tuple_counterexample :
  view_okb (hd (mview [] [] empty false) (mrun [0] [0] empty [OSet [] 0]))
           (hd (mview [] [] empty false) (arun false [0] [0] ainit [OSet [] 0])) = false.
Proof. exact mkd_empty_tuple_counterexample. Qed.
Print Assumptions C15_mkd_empty_tuple_counterexample.

Theorem C15_sd_empty_tuple_counterexample :
  view_okb (hd (sview [] [] sd_empty false) (srun [0] [0] sd_empty [OSet [] 0]))
           (hd (sview [] [] sd_empty false) (arun true [0] [0] ainit [OSet [] 0])) = false.
Proof. exact sd_empty_tuple_counterexample. Qed.
Print Assumptions C15_sd_empty_tuple_counterexample.

(* every state the specification can reach is well formed *)
Theorem C15_reachable_wf : forall st ops, WF (astate_after st ops).
Proof. exact WF_after. Qed.
Print Assumptions C15_reachable_wf.

(* ---- user-visible corollaries, on the specification *)
Theorem C15_get_is_last_assigned : forall a kt v k,
  (In k kt -> aval (aspec_set false a kt v) k = Some v) /\
  (~ In k kt -> aval (aspec_set false a kt v) k = aval a k).
Proof. exact get_is_last_assigned. Qed.
Print Assumptions C15_get_is_last_assigned.

Theorem C15_sd_get_is_last_assigned : forall a kt v k, WF a ->
  (In k kt -> aval (aspec_set true a kt v) k = Some v) /\
  (~ In k kt -> aval (aspec_set true a kt v) k = aval a k).
Proof. exact sd_get_is_last_assigned. Qed.
Print Assumptions C15_sd_get_is_last_assigned.

Theorem C15_del_missing_raises : forall st a k,
  aval a k = None -> aspec_del st a k = (a, true).
Proof. exact del_missing_raises. Qed.
Print Assumptions C15_del_missing_raises.

Theorem C15_del_present_removes : forall st a k v, WF a ->
  aval a k = Some v ->
  snd (aspec_del st a k) = false /\
  forall k', aval (fst (aspec_del st a k)) k' = if Nat.eqb k' k then None else aval a k'.
Proof. exact del_present_removes. Qed.
Print Assumptions C15_del_present_removes.

Theorem C15_len_counts_values : forall st ks vs a e,
  v_len (aview st ks vs a e) = length (values_of a) /\
  NoDup (values_of a) /\
  (WF a -> forall v, In v (values_of a) <-> exists k, aval a k = Some v).
Proof. exact len_counts_values. Qed.
Print Assumptions C15_len_counts_values.

Theorem C15_tuple_sorted_by_stamp : forall a v, WF a ->
  StronglySorted (fun k1 k2 => stamp a k1 < stamp a k2) (keys_of a v) /\
  NoDup (keys_of a v) /\
  (forall k, In k (keys_of a v) <-> aval a k = Some v).
Proof. exact tuple_sorted_by_stamp. Qed.
Print Assumptions C15_tuple_sorted_by_stamp.

Theorem C15_tuple_sorted_by_stamp_reachable : forall st ops v,
  let a := astate_after st ops in
  StronglySorted (fun k1 k2 => stamp a k1 < stamp a k2) (keys_of a v) /\
  NoDup (keys_of a v) /\
  (forall k, In k (keys_of a v) <-> aval a k = Some v).
Proof. exact tuple_sorted_by_stamp_reachable. Qed.
Print Assumptions C15_tuple_sorted_by_stamp_reachable.

Theorem C15_set_tuple_shape : forall a kt v w, WF a ->
  keys_of (aspec_set false a kt v) w =
  if Nat.eqb w v then filter (notin kt) (keys_of a v) ++ dedup_last kt
  else filter (notin kt) (keys_of a w).
Proof. exact set_tuple_shape. Qed.
Print Assumptions C15_set_tuple_shape.

Theorem C15_del_tuple_shape : forall a k w, WF a ->
  keys_of (adel1 a k) w = filter (nk k) (keys_of a w).
Proof. exact del_tuple_shape. Qed.
Print Assumptions C15_del_tuple_shape.

Theorem C15_sd_attr_eq_item : forall ks vs a e,
  v_attr (aview true ks vs a e) = v_get (aview true ks vs a e).
Proof. exact sd_attr_eq_item. Qed.
Print Assumptions C15_sd_attr_eq_item.

Theorem C15_sd_default_first_stored : forall kt v kt' v',
  kt <> [] -> (forall k, In k kt' -> ~ In k kt) ->
  let a1 := aspec_set true ainit kt v in
  adefault a1 = Some v /\ adefault (aspec_set true a1 kt' v') = Some v.
Proof. exact sd_default_first_stored. Qed.
Print Assumptions C15_sd_default_first_stored.

(* ---- a corollary transferred to the implementation model by the refinement *)
Theorem C15_mkd_get_after_set : forall ks vs ops kt v,
  Forall op_ok ops -> kt <> [] ->
  exists views vw,
    mrun ks vs empty (ops ++ [OSet kt v]) = views ++ [vw] /\
    v_raised vw = false /\
    v_get vw = map (fun k => if mem k kt then Some v else aval (astate_after false ops) k) ks.
Proof. exact mkd_get_after_set. Qed.
Print Assumptions C15_mkd_get_after_set.

(* ---- non-vacuity: a 2-key tuple, an overwrite, a delete, a merge *)
Example C15_nonvacuous :
  let ks := [1; 2; 3] in
  let vs := [7; 8] in
  let ops := [OSet [1; 2] 7; OSet [2] 8; ODel 1; OSet [3; 1] 8] in
  let expected :=
    [ VIEW false [Some 7; Some 7; None] [Some [1; 2]; Some [1; 2]; None] [[1; 2]; []] 1 [[1; 2]] [7] [] None;
      VIEW false [Some 7; Some 8; None] [Some [1]; Some [2]; None] [[1]; [2]] 2 [[1]; [2]] [7; 8] [] None;
      VIEW false [None; Some 8; None] [None; Some [2]; None] [[]; [2]] 1 [[2]] [8] [] None;
      VIEW false [Some 8; Some 8; Some 8] [Some [2; 3; 1]; Some [2; 3; 1]; Some [2; 3; 1]]
           [[]; [2; 3; 1]] 1 [[2; 3; 1]] [8] [] None ] in
  Forall op_ok ops /\
  mrun ks vs empty ops = expected /\
  arun false ks vs ainit ops = expected /\
  map v_default (srun ks vs sd_empty ops) = [Some 7; Some 7; None; Some 8] /\
  map v_default (arun true ks vs ainit ops) = [Some 7; Some 7; None; Some 8].
Proof.
  cbv zeta. split; [repeat constructor; discriminate|].
  split; [vm_compute; reflexivity|]. split; [vm_compute; reflexivity|].
  split; vm_compute; reflexivity.
Qed.
Print Assumptions C15_nonvacuous.

(* non-vacuity of the round-2 statements: a rejected assignment, lookups (one raising), the constructor *)
Example C15_nonvacuous_round2 :
  let ks := [1; 2] in
  let vs := [7; 8] in
  let init := [OSet [1] 7; OSet [2] 7] in
  let ops := [OSetBad [1]; OObs (QGet 3); OObs (QV2K 8); ODel 1; OObs (QK2K 1); OObs QBad] in
  let v12 := VIEW false [Some 7; Some 7] [Some [1; 2]; Some [1; 2]] [[1; 2]; []] 1 [[1; 2]] [7] [] None in
  let v2 e := VIEW e [None; Some 7] [None; Some [2]] [[2]; []] 1 [[2]] [7] [] None in
  let r e v := VIEW e (v_get v) (v_k2k v) (v_v2k v) (v_len v) (v_keys v) (v_iter v) (v_attr v) (v_default v) in
  Forall op_ok init /\ Forall op_ok ops /\
  mview ks vs (mstate_after init) false = v12 /\
  mrun ks vs (mstate_after init) ops = [r true v12; r true v12; v12; v2 false; v2 true; v2 true] /\
  arun false ks vs (aspec_after false init) ops = [r true v12; r true v12; v12; v2 false; v2 true; v2 true] /\
  (* StrategyDict: the rejected assignment released name 1; rejecting [2] as well drops the default *)
  map v_get (srun ks vs (sstate_after init) [OSetBad [1]; OSetBad [2]]) = [[None; Some 7]; [None; None]] /\
  map v_default (srun ks vs (sstate_after init) [OSetBad [1]; OSetBad [2]]) = [Some 7; None] /\
  map v_default (arun true ks vs (aspec_after true init) [OSetBad [1]; OSetBad [2]]) = [Some 7; None] /\
  WF (aspec_after true init).
Proof.
  cbv zeta. split; [repeat constructor; discriminate|]. split; [repeat constructor|].
  split; [vm_compute; reflexivity|]. split; [vm_compute; reflexivity|]. split; [vm_compute; reflexivity|].
  split; [vm_compute; reflexivity|]. split; [vm_compute; reflexivity|]. split; [vm_compute; reflexivity|].
  apply (WF_after true).
Qed.
Print Assumptions C15_nonvacuous_round2.

(* ---- round 3: several objects, some built from others *)
(* mop_ok m := match m with MOn _ o => op_ok o | _ => True end;
   hobs_ok o s := fst o = fst s /\ Forall2 view_ok (snd o) (snd s)  (flag of the step, views of ALL objects) *)
Theorem C15_hobs_okb_true_iff : forall o s, hobs_eqb view_okb o s = true <-> hobs_ok o s.
Proof. exact hobs_okb_true_iff. Qed.
Print Assumptions C15_hobs_okb_true_iff.

(* MultiKeyDict(other) - replaying the stored (key tuple, value) items on a fresh object - represents the
   abstract map of the source as it is at that moment *)
Theorem C15_cast_coherent : forall d a, Coherent d a -> Coherent (mkd_cast d) (acopy a).
Proof. exact cast_coherent. Qed.
Print Assumptions C15_cast_coherent.

(* every history over any number of MultiKeyDict / StrategyDict objects, fresh or built from existing ones:
   after every step every object shows the view of its own abstract map *)
Theorem C15_multi_refines : forall ks vs ms, Forall mop_ok ms ->
  Forall2 hobs_ok (hrun ks vs [] ms) (ahrun ks vs [] ms).
Proof. exact multi_refines. Qed.
Print Assumptions C15_multi_refines.

(* independence after construction *)
Theorem C15_objects_independent : forall h ah i j o, i <> j ->
  nth_error (fst (hstep h (MOn i o))) j = nth_error h j /\
  nth_error (fst (ahstep ah (MOn i o))) j = nth_error ah j.
Proof. exact objects_independent. Qed.
Print Assumptions C15_objects_independent.

Theorem C15_construction_keeps_others : forall h ah m j,
  (forall i o, m <> MOn i o) -> j < length h -> j < length ah ->
  nth_error (fst (hstep h m)) j = nth_error h j /\ nth_error (fst (ahstep ah m)) j = nth_error ah j.
Proof. exact construction_keeps_others. Qed.
Print Assumptions C15_construction_keeps_others.

Theorem C15_copy_has_the_view : forall ks vs a e,
  let v := aview false ks vs (acopy a) e in let w := aview false ks vs a e in
  v_get v = v_get w /\ v_k2k v = v_k2k w /\ v_v2k v = v_v2k w /\ v_len v = v_len w /\
  v_keys v = v_keys w /\ v_iter v = v_iter w.
Proof. exact copy_has_the_view. Qed.
Print Assumptions C15_copy_has_the_view.

(* non-vacuity: a StrategyDict, a MultiKeyDict built from it, then both change in different ways *)
Example C15_nonvacuous_multi :
  let ks := [1; 2] in let vs := [7; 8] in
  let ms := [MNew true; MOn 0 (OSet [1; 2] 7); MCast 0; MOn 1 (OSet [2] 8); MOn 0 (ODel 1); MCast 1] in
  Forall mop_ok ms /\
  map (fun st => map v_get (snd st)) (hrun ks vs [] ms) =
    [ [[None; None]]; [[Some 7; Some 7]]; [[Some 7; Some 7]; [Some 7; Some 7]];
      [[Some 7; Some 7]; [Some 7; Some 8]]; [[None; Some 7]; [Some 7; Some 8]];
      [[None; Some 7]; [Some 7; Some 8]; [Some 7; Some 8]] ] /\
  map (fun st => map v_get (snd st)) (ahrun ks vs [] ms) = map (fun st => map v_get (snd st)) (hrun ks vs [] ms) /\
  map (fun st => map v_k2k (snd st)) (ahrun ks vs [] ms) = map (fun st => map v_k2k (snd st)) (hrun ks vs [] ms).
Proof.
  cbv zeta. split; [repeat constructor; discriminate|].
  split; [vm_compute; reflexivity|]. split; vm_compute; reflexivity.
Qed.
Print Assumptions C15_nonvacuous_multi.

(* the user-chosen default takes part in the refinement: chosen by hand, dropped with its last name, re-chosen *)
Example C15_nonvacuous_user_default :
  let ops := [OSet [1] 7; OSet [2] 8; OSetDefault 8; ODel 2; OSet [2] 8; ODelDefault; ODelDefault; OSet [1] 7] in
  Forall op_ok ops /\
  map v_default (srun [1; 2] [7; 8] sd_empty ops) = [Some 7; Some 7; Some 8; None; Some 8; None; None; Some 7] /\
  map v_raised (srun [1; 2] [7; 8] sd_empty ops) = [false; false; false; false; false; false; true; false] /\
  map v_default (arun true [1; 2] [7; 8] ainit ops) = map v_default (srun [1; 2] [7; 8] sd_empty ops).
Proof.
  cbv zeta. split; [repeat constructor; discriminate|].
  split; [vm_compute; reflexivity|]. split; vm_compute; reflexivity.
Qed.
Print Assumptions C15_nonvacuous_user_default.

(* round 5: a tuple is never a key - deleting one (empty tuple, 1-tuple, a stored key tuple) is refused and is the
   identity step of both dict kinds, in the model of the implementation and in the specification *)
Theorem C15_tuple_delete_refused : forall d s a st kt,
  mstep d (ODelT kt) = (d, true) /\ sstep s (ODelT kt) = (s, true) /\ astep st a (ODelT kt) = (a, true).
Proof. intros. repeat split. Qed.
Print Assumptions C15_tuple_delete_refused.

Example C15_nonvacuous_tuple_keys :
  let ops := [OSet [1; 2] 7; ODelT [1; 2]; ODelT [1]; ODelT []; OObs (QTup [1; 2]); OObs (QTup [1]); OObs (QTup []);
              OObs QNo; ODel 1; OObs (QTup [1; 2]); OObs (QTup [2])] in
  Forall op_ok ops /\
  map v_raised (mrun [1; 2] [7] empty ops) = [false; true; true; true; false; true; true; true; false; true; false] /\
  map v_raised (arun false [1; 2] [7] ainit ops) = map v_raised (mrun [1; 2] [7] empty ops) /\
  map v_get (mrun [1; 2] [7] empty ops) =
    [[Some 7; Some 7]; [Some 7; Some 7]; [Some 7; Some 7]; [Some 7; Some 7]; [Some 7; Some 7]; [Some 7; Some 7];
     [Some 7; Some 7]; [Some 7; Some 7]; [None; Some 7]; [None; Some 7]; [None; Some 7]].
Proof.
  cbv zeta. split; [repeat constructor; discriminate|].
  split; [vm_compute; reflexivity|]. split; vm_compute; reflexivity.
Qed.
Print Assumptions C15_nonvacuous_tuple_keys.
