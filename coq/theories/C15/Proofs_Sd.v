(* C15 proofs, layer 4: StrategyDict = MultiKeyDict + attribute namespace +
   instance-level default. *)
From Coq Require Import List Bool Arith Lia Permutation Sorted.
From AL Require Import Base.CaseLib C15.Model C15.Spec C15.Check
  C15.Proofs_Assoc C15.Proofs_Abs C15.Proofs_Mkd.
Import ListNotations.

Local Notation NE := (Nat.eqb_eq).

Record SCoh (s : sd) (a : astate) : Prop := {
  sc_d : Coherent (sd_d s) a;
  sc_nd : NoDup (map fst (attrs s));
  sc_attr : forall k, aget Nat.eqb k (attrs s) = aval a k;
  sc_def : default s = adefault a
}.

Lemma SCoh_init : SCoh sd_empty ainit.
Proof.
  constructor; simpl; [apply Coherent_init|constructor|reflexivity|reflexivity].
Qed.

(* ---- drop_default_if_last only touches the default *)
Lemma amap_drop a k : amap (drop_default_if_last a k) = amap a.
Proof.
  unfold drop_default_if_last. destruct (aval a k) as [v|]; [|reflexivity].
  destruct ((length (keys_of a v) =? 1) && _); reflexivity.
Qed.

Lemma clock_drop a k : clock (drop_default_if_last a k) = clock a.
Proof.
  unfold drop_default_if_last. destruct (aval a k) as [v|]; [|reflexivity].
  destruct ((length (keys_of a v) =? 1) && _); reflexivity.
Qed.

Lemma adefault_drop a k v : aval a k = Some v ->
  adefault (drop_default_if_last a k) =
  if (length (keys_of a v) =? 1) && (match adefault a with Some dv => Nat.eqb v dv | None => false end)
  then None else adefault a.
Proof.
  intro Hk. unfold drop_default_if_last. rewrite Hk.
  destruct ((length (keys_of a v) =? 1) && _); reflexivity.
Qed.

(* ---- StrategyDict.__delitem__ *)
Lemma getitem_coherent d a k : Coherent d a -> ores (getitem d k) = aval a k.
Proof. intro HC. apply (coherent_view d a HC). Qed.

Lemma sd_delitem_scoh s a k v :
  SCoh s a -> aval a k = Some v ->
  exists s', sd_delitem s k = Ok s' /\ SCoh s' (adel1 (drop_default_if_last a k) k).
Proof.
  intros [HC Hnd Hattr Hdef] Hk.
  destruct HC as [Hwf HR].
  assert (Hk2k : key2keys (sd_d s) k = Ok (keys_of a v)).
  { unfold key2keys. rewrite (rep_K _ _ _ HR), Hk. reflexivity. }
  assert (Hne : keys_of a v <> []).
  { intro Hn. apply (rep_part _ _ _ HR) in Hk. rewrite Hn in Hk. contradiction. }
  assert (Hst : aget tup_eqb (keys_of a v) (store (sd_d s)) = Some v).
  { apply (rep_S _ _ _ HR). split; [reflexivity|exact Hne]. }
  destruct (delitem_coherent (sd_d s) a k v (conj Hwf HR) Hk) as [d' [Hd' HC']].
  set (dflt := if (length (keys_of a v) =? 1) &&
                  (match default s with Some dv => Nat.eqb v dv | None => false end)
               then None else default s).
  assert (Hres : sd_delitem s k = Ok (SD d' (adel Nat.eqb k (attrs s)) dflt)).
  { unfold sd_delitem. rewrite Hk2k, Hst, Hd'. rewrite Hattr, Hk, Nat.eqb_refl.
    unfold dflt. destruct ((length (keys_of a v) =? 1) && _); reflexivity. }
  eexists. split; [exact Hres|].
  constructor; simpl.
  - apply (Coherent_same d' (adel1 a k)); [simpl; rewrite amap_drop; reflexivity|simpl; apply clock_drop|exact HC'].
  - apply NoDup_map_adel. exact Hnd.
  - intro k'. rewrite (aget_adel Nat.eqb NE) by exact Hnd. rewrite Hattr.
    rewrite (aval_same (adel1 a k) (adel1 (drop_default_if_last a k) k)) by (simpl; rewrite amap_drop; reflexivity).
    symmetry. apply aval_adel1. apply (wf_nd _ Hwf).
  - unfold dflt. rewrite (adefault_drop a k v Hk), Hdef. reflexivity.
Qed.

Lemma sd_delitem_none s a k : SCoh s a -> aval a k = None -> sd_delitem s k = KeyError.
Proof.
  intros [[Hwf HR] _ _ _] Hk. unfold sd_delitem, key2keys.
  rewrite (rep_K _ _ _ HR), Hk. reflexivity.
Qed.

Definition adrop_fold (kt : list key) (a : astate) : astate :=
  fold_left (fun acc k => match aval acc k with
                          | Some _ => adel1 (drop_default_if_last acc k) k
                          | None => acc end) kt a.

Lemma sd_try_del_all_scoh ks : forall s a,
  SCoh s a -> SCoh (sd_try_del_all s ks) (adrop_fold ks a).
Proof.
  induction ks as [|k r IH]; intros s a HS; [exact HS|].
  unfold adrop_fold. cbn [sd_try_del_all fold_left]. fold (adrop_fold r).
  destruct (aval a k) as [v|] eqn:Hk.
  - destruct (sd_delitem_scoh s a k v HS Hk) as [s' [Hs' HS']]. rewrite Hs'.
    apply IH. exact HS'.
  - rewrite (sd_delitem_none s a k HS Hk). apply IH. exact HS.
Qed.

(* ---- StrategyDict.__setitem__ *)
Lemma aspec_set_true a kt v :
  aspec_set true a kt v =
  let a1 := aspec_set false (adrop_fold kt a) kt v in
  AST (amap a1) (clock a1) (match adefault a1 with Some d => Some d | None => Some v end).
Proof. reflexivity. Qed.

Lemma sd_setitem_scoh s a kt v :
  SCoh s a -> kt <> [] ->
  exists s', sd_setitem s kt v = Ok s' /\ SCoh s' (aspec_set true a kt v).
Proof.
  intros HS Hne.
  pose proof (sd_try_del_all_scoh kt s a HS) as HS1.
  set (s1 := sd_try_del_all s kt) in *. set (a0 := adrop_fold kt a) in *.
  destruct HS1 as [HC1 Hnd1 Hattr1 Hdef1].
  destruct (setitem_coherent (sd_d s1) a0 kt v HC1 Hne) as [d' [Hd' HC']].
  unfold sd_setitem. fold s1. rewrite Hd'. eexists. split; [reflexivity|].
  rewrite aspec_set_true. fold a0. cbv zeta.
  set (a1 := aspec_set false a0 kt v) in *.
  constructor; simpl.
  - apply (Coherent_same d' a1); [reflexivity|reflexivity|exact HC'].
  - apply NoDup_fold_aset. exact Hnd1.
  - intro k. rewrite aget_fold_aset, Hattr1.
    transitivity (aval a1 k); [|reflexivity]. unfold a1. rewrite aspec_set_false.
    rewrite aval_fold_aset1, mem_dedup_last. reflexivity.
  - unfold a1. rewrite aspec_set_false, adefault_fold_aset1, Hdef1. reflexivity.
Qed.

(* ---- StrategyDict.__delattr__ *)
Lemma sd_delattr_some s a k v :
  SCoh s a -> aval a k = Some v -> sd_delattr s k = sd_delitem s k.
Proof.
  intros [HC Hnd Hattr Hdef] Hk. unfold sd_delattr.
  pose proof (getitem_coherent (sd_d s) a k HC) as Hg. rewrite Hk in Hg.
  destruct (getitem (sd_d s) k) as [x| |]; simpl in Hg; try discriminate.
  inversion Hg; subst x. rewrite Hattr, Hk, Nat.eqb_refl. reflexivity.
Qed.

Lemma sd_delattr_none s a k :
  SCoh s a -> aval a k = None -> sd_delattr s k = AttributeError.
Proof.
  intros [HC Hnd Hattr Hdef] Hk. unfold sd_delattr.
  pose proof (getitem_coherent (sd_d s) a k HC) as Hg. rewrite Hk in Hg.
  destruct (getitem (sd_d s) k) as [x| |]; simpl in Hg; try discriminate; [|reflexivity].
  unfold amem. rewrite Hattr, Hk. reflexivity.
Qed.

Lemma sstep_scoh s a o :
  SCoh s a -> op_ok o ->
  SCoh (fst (sstep s o)) (fst (astep true a o)) /\ snd (sstep s o) = snd (astep true a o).
Proof.
  intros HS Hok. destruct o as [kt v|k|k|kt|q|v| |kt]; simpl.
  - destruct (sd_setitem_scoh s a kt v HS Hok) as [s' [Hs' HS']]. rewrite Hs'. simpl.
    split; [exact HS'|reflexivity].
  - unfold aspec_del. destruct (aval a k) as [v|] eqn:Hk.
    + destruct (sd_delitem_scoh s a k v HS Hk) as [s' [Hs' HS']]. rewrite Hs'. simpl.
      split; [exact HS'|reflexivity].
    + rewrite (sd_delitem_none s a k HS Hk). simpl. split; [exact HS|reflexivity].
  - unfold aspec_del. destruct (aval a k) as [v|] eqn:Hk.
    + rewrite (sd_delattr_some s a k v HS Hk).
      destruct (sd_delitem_scoh s a k v HS Hk) as [s' [Hs' HS']]. rewrite Hs'. simpl.
      split; [exact HS'|reflexivity].
    + rewrite (sd_delattr_none s a k HS Hk). simpl. split; [exact HS|reflexivity].
  - split; [apply (sd_try_del_all_scoh kt s a HS)|reflexivity].
  - split; [exact HS|apply qraises_coherent; apply (sc_d _ _ HS)].
  - destruct HS as [HC Hnd Hattr Hdef]. split; [|reflexivity]. constructor; simpl.
    + apply (Coherent_same _ a); [reflexivity|reflexivity|exact HC].
    + exact Hnd.
    + intro k. rewrite Hattr. reflexivity.
    + reflexivity.
  - destruct HS as [HC Hnd Hattr Hdef]. rewrite Hdef. destruct (adefault a) as [dv|] eqn:E; simpl.
    + split; [|reflexivity]. constructor; simpl.
      * apply (Coherent_same _ a); [reflexivity|reflexivity|exact HC].
      * exact Hnd.
      * intro k. rewrite Hattr. reflexivity.
      * reflexivity.
    + split; [|reflexivity]. constructor; try assumption. congruence.
  - split; [exact HS|reflexivity].
Qed.

Lemma sview_ok ks vs s a e : SCoh s a -> view_ok (sview ks vs s e) (aview true ks vs a e).
Proof.
  intros [HC Hnd Hattr Hdef].
  destruct (coherent_view (sd_d s) a HC) as [H1 [H2 [H3 [H4 [H5 [H6 H7]]]]]].
  unfold view_ok, sview, aview. simpl.
  split; [reflexivity|]. split; [apply map_ext; exact H1|].
  split; [apply map_ext; intro k; rewrite H2; destruct (aval a k); reflexivity|].
  split; [apply map_ext; exact H3|].
  split; [exact H4|]. split; [exact H5|]. split; [exact H7|].
  split; [apply map_ext; exact Hattr|exact Hdef].
Qed.

Lemma sd_refines_gen ks vs ops : forall s a,
  SCoh s a -> Forall op_ok ops ->
  Forall2 view_ok (srun ks vs s ops) (arun true ks vs a ops).
Proof.
  induction ops as [|o r IH]; intros s a HS Hok; simpl; [constructor|].
  inversion Hok as [|o' r' Ho Hr]; subst.
  destruct (sstep_scoh s a o HS Ho) as [HS' He].
  destruct (sstep s o) as [s' e]. destruct (astep true a o) as [a' e']. simpl in *. subst e'.
  constructor; [apply sview_ok; exact HS'|apply IH; assumption].
Qed.

(* Hypothesis "Forall op_ok ops": no OSet with the empty key tuple. *)
Theorem sd_refines : forall ks vs ops,
  Forall op_ok ops ->
  Forall2 view_ok (srun ks vs sd_empty ops) (arun true ks vs ainit ops).
Proof.
  intros ks vs ops Hok. apply sd_refines_gen; [apply SCoh_init|exact Hok].
Qed.

(* The restriction is necessary here too. *)
Example sd_empty_tuple_counterexample :
  view_okb (hd (sview [] [] sd_empty false) (srun [0] [0] sd_empty [OSet [] 0]))
           (hd (sview [] [] sd_empty false) (arun true [0] [0] ainit [OSet [] 0])) = false.
Proof. vm_compute. reflexivity. Qed.
