(* C15 proofs, top layer: re-exports the refinement theorems
     mkd_refines (Proofs_Mkd), sd_refines (Proofs_Sd), view_okb_true_iff (Proofs_Mkd)
   and proves the user-visible corollaries on the specification. *)
From Coq Require Import List Bool Arith Lia Permutation Sorted.
From AL Require Import Base.CaseLib C15.Model C15.Spec C15.Check.
From AL Require Export C15.Proofs_Assoc C15.Proofs_Abs C15.Proofs_Mkd C15.Proofs_Sd.
Import ListNotations.

(* ------------------------------------------------------------------ *)
(* reachable abstract states are well formed                           *)
Definition astate_after (strategy : bool) (ops : list op) : astate :=
  fold_left (fun a o => fst (astep strategy a o)) ops ainit.

Lemma WF_drop a k : WF a -> WF (drop_default_if_last a k).
Proof. apply WF_same; [apply amap_drop|apply clock_drop]. Qed.

Lemma WF_adrop_fold kt : forall a, WF a -> WF (adrop_fold kt a).
Proof.
  induction kt as [|k r IH]; intros a Hwf; [exact Hwf|].
  unfold adrop_fold. cbn [fold_left]. fold (adrop_fold r). apply IH.
  destruct (aval a k); [|exact Hwf]. apply WF_adel1. apply WF_drop. exact Hwf.
Qed.

Lemma WF_aspec_set st a kt v : WF a -> WF (aspec_set st a kt v).
Proof.
  intro Hwf. destruct st.
  - rewrite aspec_set_true. cbv zeta.
    apply (WF_same (aspec_set false (adrop_fold kt a) kt v)); [reflexivity|reflexivity|].
    rewrite aspec_set_false. apply WF_fold_aset1. apply WF_adrop_fold. exact Hwf.
  - rewrite aspec_set_false. apply WF_fold_aset1. exact Hwf.
Qed.

Lemma WF_aspec_del st a k : WF a -> WF (fst (aspec_del st a k)).
Proof.
  intro Hwf. unfold aspec_del. destruct (aval a k); simpl; [|exact Hwf].
  apply WF_adel1. destruct st; [apply WF_drop|]; exact Hwf.
Qed.

Lemma WF_astep st a o : WF a -> WF (fst (astep st a o)).
Proof.
  intro Hwf. destruct o as [kt v|k|k|kt|q|v| |kt]; simpl.
  - apply WF_aspec_set. exact Hwf.
  - apply WF_aspec_del. exact Hwf.
  - destruct st; [apply WF_aspec_del|]; exact Hwf.
  - destruct st; [apply (WF_adrop_fold kt a Hwf)|exact Hwf].
  - exact Hwf.
  - destruct st; [apply (WF_same a); [reflexivity|reflexivity|exact Hwf]|exact Hwf].
  - destruct st; [|exact Hwf]. destruct (adefault a); simpl; [apply (WF_same a); [reflexivity|reflexivity|exact Hwf]|exact Hwf].
  - exact Hwf.
Qed.

Lemma WF_after st ops : WF (astate_after st ops).
Proof.
  unfold astate_after. generalize WF_init. generalize ainit.
  induction ops as [|o r IH]; intros a Hwf; simpl; [exact Hwf|].
  apply IH. apply WF_astep. exact Hwf.
Qed.

(* the views produced by arun are the views of the reachable states *)
Lemma arun_app st ks vs ops2 : forall ops1 a,
  arun st ks vs a (ops1 ++ ops2) =
  arun st ks vs a ops1 ++ arun st ks vs (fold_left (fun a o => fst (astep st a o)) ops1 a) ops2.
Proof.
  induction ops1 as [|o r IH]; intro a; simpl; [reflexivity|].
  destruct (astep st a o) as [a' e]. simpl. rewrite IH. reflexivity.
Qed.

Lemma arun_snoc st ks vs ops o :
  arun st ks vs ainit (ops ++ [o]) =
  arun st ks vs ainit ops ++
  [aview st ks vs (fst (astep st (astate_after st ops) o)) (snd (astep st (astate_after st ops) o))].
Proof.
  rewrite arun_app. f_equal. unfold astate_after. simpl.
  destruct (astep st _ o) as [a' e]. reflexivity.
Qed.

(* ------------------------------------------------------------------ *)
(* corollaries on the specification                                    *)

(* d[kt] = v : every key of kt now gives v, the other keys are untouched *)
Theorem get_is_last_assigned : forall a kt v k,
  (In k kt -> aval (aspec_set false a kt v) k = Some v) /\
  (~ In k kt -> aval (aspec_set false a kt v) k = aval a k).
Proof.
  intros a kt v k. rewrite aspec_set_false, aval_fold_aset1, mem_dedup_last. split; intro H.
  - apply mem_In in H. rewrite H. reflexivity.
  - apply mem_false in H. rewrite H. reflexivity.
Qed.

(* same for StrategyDict: keys of kt give v; keys outside kt are untouched *)
Lemma aval_adrop_fold kt : forall a k, WF a -> ~ In k kt -> aval (adrop_fold kt a) k = aval a k.
Proof.
  induction kt as [|k1 r IH]; intros a k Hwf Hn; [reflexivity|].
  unfold adrop_fold. cbn [fold_left]. fold (adrop_fold r).
  assert (Hk : k <> k1) by (intro; subst; apply Hn; left; reflexivity).
  assert (Hr : ~ In k r) by (intro; apply Hn; right; assumption).
  destruct (aval a k1) eqn:E; [|apply IH; assumption].
  rewrite IH; [|apply WF_adel1; apply WF_drop; exact Hwf|exact Hr].
  rewrite aval_adel1 by (rewrite amap_drop; apply (wf_nd _ Hwf)).
  apply Nat.eqb_neq in Hk. rewrite Hk. apply aval_same. apply amap_drop.
Qed.

Theorem sd_get_is_last_assigned : forall a kt v k, WF a ->
  (In k kt -> aval (aspec_set true a kt v) k = Some v) /\
  (~ In k kt -> aval (aspec_set true a kt v) k = aval a k).
Proof.
  intros a kt v k Hwf. rewrite aspec_set_true. cbv zeta.
  rewrite (aval_same (aspec_set false (adrop_fold kt a) kt v)) by reflexivity.
  destruct (get_is_last_assigned (adrop_fold kt a) kt v k) as [H1 H2]. split; intro H.
  - apply H1. exact H.
  - rewrite H2 by exact H. apply aval_adrop_fold; assumption.
Qed.

(* del d[k] on a missing key raises and changes nothing *)
Theorem del_missing_raises : forall st a k,
  aval a k = None -> aspec_del st a k = (a, true).
Proof. intros st a k H. unfold aspec_del. rewrite H. reflexivity. Qed.

Theorem del_present_removes : forall st a k v, WF a ->
  aval a k = Some v ->
  snd (aspec_del st a k) = false /\
  forall k', aval (fst (aspec_del st a k)) k' = if Nat.eqb k' k then None else aval a k'.
Proof.
  intros st a k v Hwf H. unfold aspec_del. rewrite H. simpl. split; [reflexivity|]. intro k'.
  destruct st.
  - rewrite aval_adel1 by (rewrite amap_drop; apply (wf_nd _ Hwf)).
    destruct (Nat.eqb k' k); [reflexivity|]. apply aval_same. apply amap_drop.
  - apply aval_adel1. apply (wf_nd _ Hwf).
Qed.

(* len(d) = number of distinct stored values *)
Theorem len_counts_values : forall st ks vs a e,
  v_len (aview st ks vs a e) = length (values_of a) /\
  NoDup (values_of a) /\
  (WF a -> forall v, In v (values_of a) <-> exists k, aval a k = Some v).
Proof.
  intros st ks vs a e. split; [reflexivity|]. split; [apply values_of_NoDup|].
  intros Hwf v. apply values_of_In. apply (wf_nd _ Hwf).
Qed.

(* the tuple of a value = its keys, ordered by the time they were last assigned *)
Definition stamp (a : astate) (k : key) : nat :=
  match aget Nat.eqb k (amap a) with Some (_, s) => s | None => 0 end.

Lemma wsorted_strict l :
  wsorted l -> NoDup (map snd l) -> StronglySorted (fun x y : key * nat => snd x < snd y) l.
Proof.
  unfold wsorted. intro Hs. induction Hs as [|x l Hs IH Hall]; simpl; intro Hnd; [constructor|].
  inversion Hnd as [|y ys Hnotin Hnd']; subst. constructor; [apply IH; exact Hnd'|].
  rewrite Forall_forall in *. intros y Hy. specialize (Hall y Hy).
  assert (Hne : snd x <> snd y).
  { intro Heq. apply Hnotin. rewrite Heq. apply in_map. exact Hy. }
  lia.
Qed.

Lemma ssorted_map_fst (g : key -> nat) l :
  StronglySorted (fun x y : key * nat => snd x < snd y) l ->
  (forall x, In x l -> g (fst x) = snd x) ->
  StronglySorted (fun k1 k2 => g k1 < g k2) (map fst l).
Proof.
  intro Hs. induction Hs as [|x l Hs IH Hall]; simpl; intro Hg; [constructor|].
  constructor.
  - apply IH. intros y Hy. apply Hg. right. exact Hy.
  - rewrite Forall_forall in *. intros k Hk. apply in_map_iff in Hk as [y [Hy Hin]]. subst k.
    rewrite (Hg x (or_introl eq_refl)), (Hg y (or_intror Hin)). apply Hall. exact Hin.
Qed.

Theorem tuple_sorted_by_stamp : forall a v, WF a ->
  StronglySorted (fun k1 k2 => stamp a k1 < stamp a k2) (keys_of a v) /\
  NoDup (keys_of a v) /\
  (forall k, In k (keys_of a v) <-> aval a k = Some v).
Proof.
  intros a v Hwf. pose proof (wf_nd _ Hwf) as Hnd. split; [|split].
  - rewrite keys_of_eq. apply ssorted_map_fst.
    + apply wsorted_strict; [apply isort_wsorted|].
      apply (Permutation_NoDup (l := map snd (entries (amap a) v))).
      * apply Permutation_map. apply Permutation_sym. apply isort_perm.
      * apply entries_NoDup_snd. apply (wf_st _ Hwf).
    + intros [k s] Hin. simpl. rewrite isort_In in Hin. rewrite entries_In in Hin.
      unfold stamp. rewrite (In_aget Nat.eqb Nat.eqb_eq k (v, s)); [reflexivity|exact Hnd|exact Hin].
  - apply keys_of_NoDup. exact Hnd.
  - intro k. apply keys_of_In. exact Hnd.
Qed.

(* every state reached from the empty dict enjoys it *)
Theorem tuple_sorted_by_stamp_reachable : forall st ops v,
  let a := astate_after st ops in
  StronglySorted (fun k1 k2 => stamp a k1 < stamp a k2) (keys_of a v) /\
  NoDup (keys_of a v) /\
  (forall k, In k (keys_of a v) <-> aval a k = Some v).
Proof. intros st ops v a. apply tuple_sorted_by_stamp. apply WF_after. Qed.

(* what an assignment does to the tuples (any well-formed state) *)
Theorem set_tuple_shape : forall a kt v w, WF a ->
  keys_of (aspec_set false a kt v) w =
  if Nat.eqb w v then filter (notin kt) (keys_of a v) ++ dedup_last kt
  else filter (notin kt) (keys_of a w).
Proof.
  intros a kt v w Hwf. rewrite aspec_set_false.
  rewrite keys_of_fold_aset1; [|exact Hwf|apply dedup_last_NoDup].
  destruct (Nat.eqb w v); [f_equal|]; apply filter_ext; intro x; unfold notin;
    rewrite mem_dedup_last; reflexivity.
Qed.

Theorem del_tuple_shape : forall a k w, WF a ->
  keys_of (adel1 a k) w = filter (nk k) (keys_of a w).
Proof. intros a k w Hwf. apply keys_of_adel1. apply (wf_nd _ Hwf). Qed.

(* StrategyDict: attribute access and item access agree *)
Theorem sd_attr_eq_item : forall ks vs a e,
  v_attr (aview true ks vs a e) = v_get (aview true ks vs a e).
Proof. reflexivity. Qed.

(* StrategyDict: the default is the first stored value, and is kept by later
   assignments to fresh keys *)
Lemma adrop_fold_none kt : forall a, (forall k, In k kt -> aval a k = None) -> adrop_fold kt a = a.
Proof.
  induction kt as [|k r IH]; intros a H; [reflexivity|].
  unfold adrop_fold. cbn [fold_left]. fold (adrop_fold r).
  rewrite (H k (or_introl eq_refl)). apply IH. intros k' Hk'. apply H. right. exact Hk'.
Qed.

Lemma adefault_set_fresh a kt v :
  (forall k, In k kt -> aval a k = None) ->
  adefault (aspec_set true a kt v) = match adefault a with Some d => Some d | None => Some v end.
Proof.
  intro H. rewrite aspec_set_true. cbv zeta. cbn [adefault].
  rewrite (adrop_fold_none kt a H). rewrite aspec_set_false, adefault_fold_aset1. reflexivity.
Qed.

Theorem sd_default_first_stored : forall kt v kt' v',
  kt <> [] -> (forall k, In k kt' -> ~ In k kt) ->
  let a1 := aspec_set true ainit kt v in
  adefault a1 = Some v /\ adefault (aspec_set true a1 kt' v') = Some v.
Proof.
  intros kt v kt' v' _ Hdisj a1.
  assert (H1 : adefault a1 = Some v).
  { unfold a1. rewrite adefault_set_fresh; [reflexivity|]. intros k _. reflexivity. }
  split; [exact H1|].
  rewrite adefault_set_fresh; [rewrite H1; reflexivity|].
  intros k Hk. unfold a1.
  destruct (sd_get_is_last_assigned ainit kt v k WF_init) as [_ H2].
  rewrite H2; [reflexivity|apply Hdisj; exact Hk].
Qed.

(* ------------------------------------------------------------------ *)
(* one corollary transferred to the implementation model through the
   refinement: after any history, d[kt] = v makes every key of kt read v and
   leaves the reading of every other key as the spec state had it *)
Theorem mkd_get_after_set : forall ks vs ops kt v,
  Forall op_ok ops -> kt <> [] ->
  exists views vw,
    mrun ks vs empty (ops ++ [OSet kt v]) = views ++ [vw] /\
    v_raised vw = false /\
    v_get vw = map (fun k => if mem k kt then Some v else aval (astate_after false ops) k) ks.
Proof.
  intros ks vs ops kt v Hok Hne.
  assert (Hok' : Forall op_ok (ops ++ [OSet kt v])).
  { apply Forall_app. split; [exact Hok|]. constructor; [exact Hne|constructor]. }
  pose proof (mkd_refines ks vs _ Hok') as HF. rewrite arun_snoc in HF.
  apply Forall2_app_inv_r in HF as [views [l2 [_ [H2 Heq]]]].
  inversion H2 as [|vw s l2' r' Hv Hnil]; subst. inversion Hnil; subst.
  exists views, vw. split; [exact Heq|].
  destruct Hv as [Hr [Hg _]]. simpl in Hr, Hg. split; [exact Hr|]. rewrite Hg.
  apply map_ext. intro k.
  destruct (get_is_last_assigned (astate_after false ops) kt v k) as [H1 H3].
  destruct (mem k kt) eqn:E.
  - apply mem_In in E. apply H1. exact E.
  - apply mem_false in E. apply H3. exact E.
Qed.

(* ------------------------------------------------------------------ *)
(* round 2: constructor argument, rejected assignments, observations   *)
Lemma coherent_after init : Forall op_ok init ->
  Coherent (mstate_after init) (aspec_after false init).
Proof.
  unfold mstate_after, aspec_after. generalize Coherent_init. generalize ainit. generalize empty.
  induction init as [|o r IH]; intros d a HC Hok; simpl; [exact HC|].
  inversion Hok as [|o' r' Ho Hr]; subst. apply IH; [|exact Hr].
  apply (mstep_coherent d a o HC Ho).
Qed.

Lemma scoh_after init : Forall op_ok init ->
  SCoh (sstate_after init) (aspec_after true init).
Proof.
  unfold sstate_after, aspec_after. generalize SCoh_init. generalize ainit. generalize sd_empty.
  induction init as [|o r IH]; intros s a HS Hok; simpl; [exact HS|].
  inversion Hok as [|o' r' Ho Hr]; subst. apply IH; [|exact Hr].
  apply (sstep_scoh s a o HS Ho).
Qed.

(* the refinement from any state the constructor can produce, including the view before the first step *)
Theorem mkd_refines_from : forall ks vs init ops,
  Forall op_ok init -> Forall op_ok ops ->
  view_ok (mview ks vs (mstate_after init) false) (aview false ks vs (aspec_after false init) false) /\
  Forall2 view_ok (mrun ks vs (mstate_after init) ops) (arun false ks vs (aspec_after false init) ops).
Proof.
  intros ks vs init ops Hi Ho. pose proof (coherent_after init Hi) as HC.
  split; [apply mview_ok; exact HC|apply mkd_refines_gen; assumption].
Qed.

Theorem sd_refines_from : forall ks vs init ops,
  Forall op_ok init -> Forall op_ok ops ->
  view_ok (sview ks vs (sstate_after init) false) (aview true ks vs (aspec_after true init) false) /\
  Forall2 view_ok (srun ks vs (sstate_after init) ops) (arun true ks vs (aspec_after true init) ops).
Proof.
  intros ks vs init ops Hi Ho. pose proof (scoh_after init Hi) as HS.
  split; [apply sview_ok; exact HS|apply sd_refines_gen; assumption].
Qed.

(* observations are pure, in the model of the implementation and in the specification *)
Theorem observation_pure : forall d s a st q,
  fst (mstep d (OObs q)) = d /\ fst (sstep s (OObs q)) = s /\ fst (astep st a (OObs q)) = a.
Proof. intros. repeat split. Qed.

(* a rejected assignment is the identity step of a MultiKeyDict and raises *)
Theorem mkd_rejected_set_identity : forall d a kt,
  mstep d (OSetBad kt) = (d, true) /\ astep false a (OSetBad kt) = (a, true).
Proof. intros. split; reflexivity. Qed.

(* ... while a StrategyDict has released exactly the names of the assignment: afterwards none of them
   is a key, every other name reads as before *)
Lemma aval_adrop_fold_in kt : forall a k, WF a -> In k kt -> aval (adrop_fold kt a) k = None.
Proof.
  induction kt as [|k1 r IH]; intros a k Hwf Hin; [destruct Hin|].
  unfold adrop_fold. cbn [fold_left]. fold (adrop_fold r).
  set (a1 := match aval a k1 with Some _ => adel1 (drop_default_if_last a k1) k1 | None => a end).
  assert (Hwf1 : WF a1).
  { unfold a1. destruct (aval a k1); [|exact Hwf]. apply WF_adel1. apply WF_drop. exact Hwf. }
  destruct (in_dec Nat.eq_dec k r) as [Hr|Hr]; [apply IH; assumption|].
  destruct Hin as [Heq|Hin]; [subst k1|contradiction].
  rewrite aval_adrop_fold by assumption. unfold a1.
  destruct (aval a k) eqn:E; [|exact E].
  rewrite aval_adel1 by (rewrite amap_drop; apply (wf_nd _ Hwf)). rewrite Nat.eqb_refl. reflexivity.
Qed.

Theorem sd_rejected_set_unnames : forall a kt k, WF a ->
  let a' := fst (astep true a (OSetBad kt)) in
  snd (astep true a (OSetBad kt)) = true /\
  (In k kt -> aval a' k = None) /\ (~ In k kt -> aval a' k = aval a k).
Proof.
  intros a kt k Hwf. simpl. split; [reflexivity|]. split; intro H.
  - apply (aval_adrop_fold_in kt a k Hwf H).
  - apply (aval_adrop_fold kt a k Hwf H).
Qed.

(* pure_ok is what the refinement gives for free on the model side: a read-only step shows the same state *)
Lemma same_state_refl v : same_state v v = true.
Proof.
  unfold same_state. rewrite !andb_true_iff.
  repeat split; try (apply list_eqb_spec; [|reflexivity]); try (apply Nat.eqb_refl).
  - apply oval_eqb_spec. - apply otup_eqb_spec. - apply tup_eqb_spec. - apply tup_eqb_spec.
  - apply Nat.eqb_eq. - apply oval_eqb_spec. - apply oval_eqb_spec; reflexivity.
Qed.

Theorem model_readonly_steps : forall ks vs d o e,
  readonly false o = true ->
  same_state (mview ks vs d e) (mview ks vs (fst (mstep d o)) (snd (mstep d o))) = true.
Proof.
  intros ks vs d o e H. destruct o; simpl in H; try discriminate; simpl;
    exact (same_state_refl (mview ks vs d e)).
Qed.
