(* C15 - boolean checkers for the generated case files. *)
From Coq Require Import List Bool Arith.
From AL Require Import Base.CaseLib C15.Model C15.Spec.
Import ListNotations.

Definition otup_eqb := option_eqb tup_eqb.
Definition oval_eqb := option_eqb Nat.eqb.

(* exact comparison (model vs implementation: dict orders included) *)
Definition view_eqb (a b : view) : bool :=
  Bool.eqb (v_raised a) (v_raised b) && list_eqb oval_eqb (v_get a) (v_get b) &&
  list_eqb otup_eqb (v_k2k a) (v_k2k b) && list_eqb tup_eqb (v_v2k a) (v_v2k b) &&
  Nat.eqb (v_len a) (v_len b) && list_eqb tup_eqb (v_keys a) (v_keys b) &&
  list_eqb Nat.eqb (v_iter a) (v_iter b) && list_eqb oval_eqb (v_attr a) (v_attr b) &&
  oval_eqb (v_default a) (v_default b).

Definition subset {T} (e : T -> T -> bool) (a b : list T) : bool := forallb (fun x => existsb (e x) b) a.
Definition seteq {T} (e : T -> T -> bool) (a b : list T) : bool :=
  Nat.eqb (length a) (length b) && subset e a b && subset e b a.

(* comparison the property promises: keys() and iteration up to order *)
Definition view_okb (o s : view) : bool :=
  Bool.eqb (v_raised o) (v_raised s) && list_eqb oval_eqb (v_get o) (v_get s) &&
  list_eqb otup_eqb (v_k2k o) (v_k2k s) && list_eqb tup_eqb (v_v2k o) (v_v2k s) &&
  Nat.eqb (v_len o) (v_len s) && seteq tup_eqb (v_keys o) (v_keys s) &&
  seteq Nat.eqb (v_iter o) (v_iter s) && list_eqb oval_eqb (v_attr o) (v_attr s) &&
  oval_eqb (v_default o) (v_default s).

(* a lookup, and an assignment a MultiKeyDict rejects, must change nothing: every observable of the
   implementation after the step is what it was before the step (compared directly, observation
   against observation; the "raised" flag belongs to the step itself) *)
Definition same_state (a b : view) : bool :=
  list_eqb oval_eqb (v_get a) (v_get b) &&
  list_eqb otup_eqb (v_k2k a) (v_k2k b) && list_eqb tup_eqb (v_v2k a) (v_v2k b) &&
  Nat.eqb (v_len a) (v_len b) && list_eqb tup_eqb (v_keys a) (v_keys b) &&
  list_eqb Nat.eqb (v_iter a) (v_iter b) && list_eqb oval_eqb (v_attr a) (v_attr b) &&
  oval_eqb (v_default a) (v_default b).
Definition readonly (strategy : bool) (o : op) : bool :=
  match o with OObs _ => true | OSetBad _ => negb strategy | ODelT _ => true | _ => false end.
Fixpoint pure_ok (strategy : bool) (prev : view) (ops : list op) (obs : list view) : bool :=
  match ops, obs with
  | o :: r, v :: r' => (if readonly strategy o then same_state prev v else true) && pure_ok strategy v r r'
  | _, _ => true
  end.

(* states reached by the constructor argument (MultiKeyDict(dict): one assignment per item) *)
Definition mstate_after (ops : list op) : mkd := fold_left (fun d o => fst (mstep d o)) ops empty.
Definition sstate_after (ops : list op) : sd := fold_left (fun s o => fst (sstep s o)) ops sd_empty.
Definition aspec_after (strategy : bool) (ops : list op) : astate :=
  fold_left (fun a o => fst (astep strategy a o)) ops ainit.

(* d_init: assignments done by the constructor (no view in between); d_obs0: the view before the
   first operation of d_ops; d_obs: the view after every operation *)
Record dcase := DC { d_strategy : bool; d_ks : list key; d_vs : list val; d_init : list op;
                     d_obs0 : view; d_ops : list op; d_obs : list view }.
Definition corr_dict (c : dcase) : bool :=
  if d_strategy c
  then let s0 := sstate_after (d_init c) in
       view_eqb (d_obs0 c) (sview (d_ks c) (d_vs c) s0 false) &&
       list_eqb view_eqb (d_obs c) (srun (d_ks c) (d_vs c) s0 (d_ops c))
  else let d0 := mstate_after (d_init c) in
       view_eqb (d_obs0 c) (mview (d_ks c) (d_vs c) d0 false) &&
       list_eqb view_eqb (d_obs c) (mrun (d_ks c) (d_vs c) d0 (d_ops c)).
Definition holds_dict (c : dcase) : bool :=
  let a0 := aspec_after (d_strategy c) (d_init c) in
  view_okb (d_obs0 c) (aview (d_strategy c) (d_ks c) (d_vs c) a0 false) &&
  list_eqb view_okb (d_obs c) (arun (d_strategy c) (d_ks c) (d_vs c) a0 (d_ops c)) &&
  pure_ok (d_strategy c) (d_obs0 c) (d_ops c) (d_obs c).

(* ---- several objects: after every step the views of all objects *)
Record hcase := HC { h_ks : list key; h_vs : list val; h_ops : list mop; h_obs : list (bool * list view) }.
Definition hobs_eqb (e : view -> view -> bool) (a b : bool * list view) : bool :=
  Bool.eqb (fst a) (fst b) && list_eqb e (snd a) (snd b).
Definition corr_multi (c : hcase) : bool :=
  list_eqb (hobs_eqb view_eqb) (h_obs c) (hrun (h_ks c) (h_vs c) [] (h_ops c)).
(* independence, observation against observation: a step on object i leaves every other object as it was *)
Fixpoint others_same (i j : nat) (prev cur : list view) : bool :=
  match prev, cur with
  | p :: r, c :: r' => (if i =? j then true else same_state p c) && others_same i (S j) r r'
  | _, _ => true
  end.
Definition others_ok (prev : list view) (m : mop) (cur : list view) : bool :=
  match m with
  | MOn i _ => (length prev =? length cur) && others_same i 0 prev cur
  | _ => (S (length prev) =? length cur) && others_same (S (length prev)) 0 prev cur
  end.
Fixpoint indep_ok (prev : list view) (ms : list mop) (obs : list (bool * list view)) : bool :=
  match ms, obs with
  | m :: r, (_, cur) :: r' => others_ok prev m cur && indep_ok cur r r'
  | _, _ => true
  end.
Definition holds_multi (c : hcase) : bool :=
  list_eqb (hobs_eqb view_okb) (h_obs c) (ahrun (h_ks c) (h_vs c) [] (h_ops c)) &&
  indep_ok [] (h_ops c) (h_obs c).
