(* C15 - boolean checkers for the generated case files. *)
From Coq Require Import List Bool Arith.
From AL Require Import Base.CaseLib C15.Model C15.Spec.
Import ListNotations.

Definition otup_eqb := option_eqb tup_eqb.
Definition oval_eqb := option_eqb Nat.eqb.

(* exact comparison (model vs implementation: dict orders included) *)
Definition view_eqb (a b : view) : bool :=
  Bool.eqb (v_raised a) (v_raised b) && list_eqb oval_eqb (v_get a) (v_get b) &&
  list_eqb otup_eqb (v_k2k a) (v_k2k b) && list_eqb tup_eqb (v_v2k a) (v_v2k b) &&
  Nat.eqb (v_len a) (v_len b) && list_eqb tup_eqb (v_keys a) (v_keys b) &&
  list_eqb Nat.eqb (v_iter a) (v_iter b) && list_eqb oval_eqb (v_attr a) (v_attr b) &&
  oval_eqb (v_default a) (v_default b).

Definition subset {T} (e : T -> T -> bool) (a b : list T) : bool := forallb (fun x => existsb (e x) b) a.
Definition seteq {T} (e : T -> T -> bool) (a b : list T) : bool :=
  Nat.eqb (length a) (length b) && subset e a b && subset e b a.

(* comparison the property promises: keys() and iteration up to order *)
Definition view_okb (o s : view) : bool :=
  Bool.eqb (v_raised o) (v_raised s) && list_eqb oval_eqb (v_get o) (v_get s) &&
  list_eqb otup_eqb (v_k2k o) (v_k2k s) && list_eqb tup_eqb (v_v2k o) (v_v2k s) &&
  Nat.eqb (v_len o) (v_len s) && seteq tup_eqb (v_keys o) (v_keys s) &&
  seteq Nat.eqb (v_iter o) (v_iter s) && list_eqb oval_eqb (v_attr o) (v_attr s) &&
  oval_eqb (v_default o) (v_default s).

Record dcase := DC { d_strategy : bool; d_ks : list key; d_vs : list val; d_ops : list op; d_obs : list view }.
Definition corr_dict (c : dcase) : bool :=
  list_eqb view_eqb (d_obs c)
    (if d_strategy c then srun (d_ks c) (d_vs c) sd_empty (d_ops c) else mrun (d_ks c) (d_vs c) empty (d_ops c)).
Definition holds_dict (c : dcase) : bool :=
  list_eqb view_okb (d_obs c) (arun (d_strategy c) (d_ks c) (d_vs c) ainit (d_ops c)).
