(* C15 proofs, round 3: a MultiKeyDict built from another object copies its abstract map; objects are independent *)
From Coq Require Import List Bool Arith Lia.
From AL Require Import Base.CaseLib C15.Model C15.Spec C15.Check C15.Proofs.
Import ListNotations.

Lemma filter_id {A} (p : A -> bool) l : (forall x, In x l -> p x = true) -> filter p l = l.
Proof.
  induction l as [|a l IH]; simpl; intro H; [reflexivity|].
  rewrite (H a (or_introl eq_refl)). f_equal. apply IH. intros x Hx. apply H. right. exact Hx.
Qed.

Lemma mem_cons w v l : mem w (v :: l) = Nat.eqb w v || mem w l.
Proof. reflexivity. Qed.

Definition cstep (acc : mkd) (tv : tup * val) : mkd := fst (mstep acc (OSet (fst tv) (snd tv))).

Section Cast.
Variables (f : key -> option val) (T : val -> tup).
(* the source restricted to the values already copied *)
Definition fp (vsd : list val) (k : key) : option val :=
  match f k with Some v => if mem v vsd then Some v else None | None => None end.
Definition Tp (vsd : list val) (w : val) : tup := if mem w vsd then T w else [].

Hypothesis part : forall k v, In k (T v) <-> f k = Some v.
Hypothesis ndT : forall v, NoDup (T v).

Lemma cast_step acc vsd v :
  Rep acc (fp vsd) (Tp vsd) -> T v <> [] -> ~ In v vsd ->
  Rep (cstep acc (T v, v)) (fp (v :: vsd)) (Tp (v :: vsd)).
Proof.
  intros HR Hne Hnin.
  destruct (setitem_rep acc _ _ (T v) v HR Hne) as [d' [Hd' HR']].
  unfold cstep. simpl. rewrite Hd'. simpl.
  eapply Rep_ext; [| |exact HR'].
  - intro k. unfold fp. destruct (mem k (T v)) eqn:E.
    + apply mem_In in E. apply part in E. rewrite E, mem_cons, Nat.eqb_refl. reflexivity.
    + apply mem_false in E. destruct (f k) as [u|] eqn:Fk; [|reflexivity].
      assert (Hu : u <> v) by (intro; subst; apply E; apply part; exact Fk).
      apply Nat.eqb_neq in Hu. rewrite mem_cons, Hu. reflexivity.
  - intro w. unfold Tp. assert (Hv : mem v vsd = false) by (apply mem_false; exact Hnin).
    rewrite Hv, mem_cons. simpl app. destruct (Nat.eqb w v) eqn:E.
    + apply Nat.eqb_eq in E. subst. simpl. apply dedup_last_nodup_id, ndT.
    + simpl. destruct (mem w vsd); [|reflexivity]. apply filter_id. intros k Hk.
      unfold notin. apply negb_true_iff. apply mem_false. intro Hk2.
      apply part in Hk. apply part in Hk2. rewrite Hk in Hk2. inversion Hk2; subst.
      rewrite Nat.eqb_refl in E. discriminate.
Qed.

Lemma cast_fold : forall l vsd acc,
  Rep acc (fp vsd) (Tp vsd) ->
  (forall t v, In (t, v) l -> t = T v /\ t <> [] /\ ~ In v vsd) ->
  NoDup (map snd l) ->
  exists vs', (forall w, In w vs' <-> In w (map snd l) \/ In w vsd) /\
              Rep (fold_left cstep l acc) (fp vs') (Tp vs').
Proof.
  induction l as [|[t v] r IH]; intros vsd acc HR Hl Hnd; simpl.
  - exists vsd. split; [tauto|exact HR].
  - destruct (Hl t v (or_introl eq_refl)) as [Ht [Hne Hnin]]. subst t.
    inversion Hnd as [|x xs Hx Hnd']; subst.
    destruct (IH (v :: vsd) (cstep acc (T v, v))) as [vs' [Hvs' HR']].
    + apply cast_step; assumption.
    + intros t' v' Hin. destruct (Hl t' v' (or_intror Hin)) as [A [B C]].
      split; [exact A|]. split; [exact B|]. intros [E|E]; [|exact (C E)]. subst v'.
      apply Hx. change v with (snd (t', v)). apply in_map. exact Hin.
    + exact Hnd'.
    + exists vs'. split; [|exact HR']. intro w. rewrite Hvs'. simpl. tauto.
Qed.
End Cast.

Lemma nodup_snd_of_fst (T : val -> tup) (l : list (tup * val)) :
  NoDup (map fst l) -> (forall t v, In (t, v) l -> t = T v) -> NoDup (map snd l).
Proof.
  induction l as [|[t v] r IH]; simpl; intros Hnd HT; [constructor|].
  inversion Hnd as [|x xs Hx Hnd']; subst. constructor.
  - intro Hin. apply in_map_iff in Hin as [[t' v'] [Hv Hin]]. simpl in Hv. subst v'.
    apply Hx. rewrite (HT t v (or_introl eq_refl)), <- (HT t' v (or_intror Hin)).
    change t' with (fst (t', v)). apply in_map. exact Hin.
  - apply IH; [exact Hnd'|]. intros t' v' Hin. apply HT. right. exact Hin.
Qed.

(* the object built by MultiKeyDict(other) represents the same map, with the same tuples *)
Lemma cast_rep d f T : Rep d f T -> Rep (mkd_cast d) f T.
Proof.
  intro HR. pose proof HR as [Hndk Hndi Hnds Hpart HndT HK HI HS].
  assert (Hst : forall t v, In (t, v) (store d) -> t = T v /\ t <> []).
  { intros t v Hin. apply HS. apply (In_aget tup_eqb tup_eqb_spec); assumption. }
  assert (Hin_store : forall v, T v <> [] -> In v (map snd (store d))).
  { intros v Hne. assert (H : aget tup_eqb (T v) (store d) = Some v) by (apply HS; split; [reflexivity|exact Hne]).
    apply (aget_Some_In tup_eqb tup_eqb_spec) in H. change v with (snd (T v, v)). apply in_map. exact H. }
  destruct (cast_fold f T Hpart HndT (store d) [] empty) as [vs' [Hvs' HR']].
  - eapply Rep_ext; [| |apply Rep_empty].
    + intro k. unfold fp. destruct (f k); reflexivity.
    + intro w. reflexivity.
  - intros t v Hin. destruct (Hst t v Hin) as [A B]. split; [exact A|]. split; [exact B|intros []].
  - apply (nodup_snd_of_fst T); [exact Hnds|]. intros t v Hin. apply (Hst t v Hin).
  - unfold mkd_cast. change (fold_left _ (store d) empty) with (fold_left cstep (store d) empty).
    eapply Rep_ext; [| |exact HR'].
    + intro k. unfold fp. destruct (f k) as [v|] eqn:E; [|reflexivity].
      assert (Hv : In v vs').
      { apply Hvs'. left. apply Hin_store. intro Hnil. apply Hpart in E. rewrite Hnil in E. destruct E. }
      apply mem_In in Hv. rewrite Hv. reflexivity.
    + intro w. unfold Tp. destruct (mem w vs') eqn:E; [reflexivity|]. apply mem_false in E.
      destruct (T w) as [|x t] eqn:ET; [reflexivity|]. exfalso. apply E. apply Hvs'. left.
      apply Hin_store. rewrite ET. discriminate.
Qed.

Lemma cast_coherent d a : Coherent d a -> Coherent (mkd_cast d) (acopy a).
Proof.
  intros [Hwf HR]. apply (Coherent_same _ a); [reflexivity|reflexivity|].
  split; [exact Hwf|apply cast_rep; exact HR].
Qed.

(* ---- heaps of objects *)
Definition OCoh (x : obj) (sa : bool * astate) : Prop :=
  match x with
  | OM d => fst sa = false /\ Coherent d (snd sa)
  | OS s => fst sa = true /\ SCoh s (snd sa)
  end.

Lemma OCoh_dict x sa : OCoh x sa -> Coherent (odict x) (snd sa).
Proof. destruct x; intros [_ H]; [exact H|apply (sc_d _ _ H)]. Qed.

Lemma ostep_ocoh x st a o : OCoh x (st, a) -> op_ok o ->
  OCoh (fst (ostep x o)) (st, fst (astep st a o)) /\ snd (ostep x o) = snd (astep st a o).
Proof.
  intros H Hok. destruct x as [d|s]; destruct H as [Hst H]; simpl in Hst; subst st; simpl.
  - destruct (mstep_coherent d a o H Hok) as [HC He]. destruct (mstep d o) as [d' e]. simpl in *.
    split; [split; [reflexivity|exact HC]|exact He].
  - destruct (sstep_scoh s a o H Hok) as [HC He]. destruct (sstep s o) as [s' e]. simpl in *.
    split; [split; [reflexivity|exact HC]|exact He].
Qed.

Lemma oview_ok ks vs x sa e : OCoh x sa -> view_ok (oview ks vs x e) (aview (fst sa) ks vs (snd sa) e).
Proof.
  destruct x as [d|s]; intros [Hst H]; rewrite Hst; simpl; [apply mview_ok|apply sview_ok]; exact H.
Qed.

Lemma Forall2_set_nth {A B} (R : A -> B -> Prop) : forall i l l' x y,
  Forall2 R l l' -> R x y -> Forall2 R (set_nth i x l) (set_nth i y l').
Proof.
  induction i as [|i IH]; intros l l' x y HF Hxy; destruct HF as [|a b r r' Hab HF]; simpl; constructor;
    try assumption. apply IH; assumption.
Qed.

Lemma Forall2_nth_error {A B} (R : A -> B -> Prop) : forall i l l',
  Forall2 R l l' ->
  match nth_error l i, nth_error l' i with
  | Some x, Some y => R x y | None, None => True | _, _ => False end.
Proof.
  induction i as [|i IH]; intros l l' HF; destruct HF as [|a b r r' Hab HF]; simpl; try exact I; [exact Hab|].
  apply IH. exact HF.
Qed.

Definition mop_ok (m : mop) : Prop := match m with MOn _ o => op_ok o | _ => True end.

Lemma hstep_coh h ah m : Forall2 OCoh h ah -> mop_ok m ->
  Forall2 OCoh (fst (hstep h m)) (fst (ahstep ah m)) /\ snd (hstep h m) = snd (ahstep ah m).
Proof.
  intros HF Hok. destruct m as [i o|i|st]; simpl.
  - pose proof (Forall2_nth_error OCoh i h ah HF) as Hn.
    destruct (nth_error h i) as [x|], (nth_error ah i) as [[st a]|]; try contradiction; [|split; [exact HF|reflexivity]].
    destruct (ostep_ocoh x st a o Hn Hok) as [HC He].
    destruct (ostep x o) as [x' e]. destruct (astep st a o) as [a' e']. simpl in *.
    split; [apply Forall2_set_nth; assumption|exact He].
  - pose proof (Forall2_nth_error OCoh i h ah HF) as Hn.
    destruct (nth_error h i) as [x|], (nth_error ah i) as [[st a]|]; try contradiction; [|split; [exact HF|reflexivity]].
    simpl. split; [|reflexivity]. apply Forall2_app; [exact HF|]. constructor; [|constructor].
    split; [reflexivity|]. simpl. apply cast_coherent. apply (OCoh_dict x (st, a) Hn).
  - split; [|reflexivity]. apply Forall2_app; [exact HF|]. constructor; [|constructor].
    destruct st; simpl; (split; [reflexivity|]); [apply SCoh_init|apply Coherent_init].
Qed.

Definition hobs_ok (o s : bool * list view) : Prop := fst o = fst s /\ Forall2 view_ok (snd o) (snd s).

Lemma Forall2_map2 {A B C D} (R : C -> D -> Prop) (P : A -> B -> Prop) (g : A -> C) (g' : B -> D) l l' :
  (forall x y, P x y -> R (g x) (g' y)) -> Forall2 P l l' -> Forall2 R (map g l) (map g' l').
Proof. intros H HF. induction HF; simpl; constructor; auto. Qed.

Lemma multi_refines_gen ks vs ms : forall h ah,
  Forall2 OCoh h ah -> Forall mop_ok ms ->
  Forall2 hobs_ok (hrun ks vs h ms) (ahrun ks vs ah ms).
Proof.
  induction ms as [|m r IH]; intros h ah HF Hok; simpl; [constructor|].
  inversion Hok as [|m' r' Hm Hr]; subst.
  destruct (hstep_coh h ah m HF Hm) as [HF' He].
  destruct (hstep h m) as [h' e]. destruct (ahstep ah m) as [ah' e']. simpl in *. subst e'.
  constructor; [|apply IH; assumption]. split; [reflexivity|]. simpl.
  apply (Forall2_map2 view_ok OCoh); [|exact HF']. intros x y Hxy. apply oview_ok. exact Hxy.
Qed.

(* every object of every history refines its own abstract map, copies included *)
Theorem multi_refines : forall ks vs ms, Forall mop_ok ms ->
  Forall2 hobs_ok (hrun ks vs [] ms) (ahrun ks vs [] ms).
Proof. intros ks vs ms Hok. apply multi_refines_gen; [constructor|exact Hok]. Qed.

(* independence: a step on object i leaves every other object (model and specification) as it was;
   building a new object leaves all existing ones as they were *)
Lemma nth_error_set_nth {T} : forall i j (x : T) l, i <> j -> nth_error (set_nth i x l) j = nth_error l j.
Proof.
  induction i as [|i IH]; intros [|j] x [|y l] Hne; simpl; try reflexivity; try congruence.
  apply IH. congruence.
Qed.

Theorem objects_independent : forall h ah i j o, i <> j ->
  nth_error (fst (hstep h (MOn i o))) j = nth_error h j /\
  nth_error (fst (ahstep ah (MOn i o))) j = nth_error ah j.
Proof.
  intros h ah i j o Hne. simpl. split.
  - destruct (nth_error h i) as [x|]; [|reflexivity]. destruct (ostep x o). simpl. apply nth_error_set_nth. exact Hne.
  - destruct (nth_error ah i) as [[st a]|]; [|reflexivity]. destruct (astep st a o). simpl.
    apply nth_error_set_nth. exact Hne.
Qed.

Theorem construction_keeps_others : forall h ah m j, (forall i o, m <> MOn i o) -> j < length h -> j < length ah ->
  nth_error (fst (hstep h m)) j = nth_error h j /\ nth_error (fst (ahstep ah m)) j = nth_error ah j.
Proof.
  intros h ah m j Hm Hj Hj'. destruct m as [i o|i|st]; [exfalso; apply (Hm i o); reflexivity| |]; simpl.
  - split; [destruct (nth_error h i)|destruct (nth_error ah i) as [[? ?]|]]; simpl;
      try reflexivity; apply nth_error_app1; assumption.
  - split; apply nth_error_app1; assumption.
Qed.

(* the copy shows exactly what the source shows at that moment (a MultiKeyDict has no attributes / default) *)
Theorem copy_has_the_view : forall ks vs a e,
  let v := aview false ks vs (acopy a) e in let w := aview false ks vs a e in
  v_get v = v_get w /\ v_k2k v = v_k2k w /\ v_v2k v = v_v2k w /\ v_len v = v_len w /\
  v_keys v = v_keys w /\ v_iter v = v_iter w.
Proof. intros. repeat split. Qed.

(* the boolean comparison of the multi-object case files is hobs_ok *)
Lemma list_eqb_Forall2 {T} (e : T -> T -> bool) (R : T -> T -> Prop) :
  (forall x y, e x y = true <-> R x y) -> forall a b, list_eqb e a b = true <-> Forall2 R a b.
Proof.
  intros He a. induction a as [|x a IH]; intros [|y b]; simpl; split; intro H;
    try constructor; try discriminate; try (inversion H; fail).
  - apply andb_true_iff in H as [H1 H2]. apply He. exact H1.
  - apply andb_true_iff in H as [H1 H2]. apply IH. exact H2.
  - inversion H; subst. apply andb_true_iff. split; [apply He|apply IH]; assumption.
Qed.

Theorem hobs_okb_true_iff o s : hobs_eqb view_okb o s = true <-> hobs_ok o s.
Proof.
  unfold hobs_eqb, hobs_ok. rewrite andb_true_iff, Bool.eqb_true_iff.
  rewrite (list_eqb_Forall2 view_okb view_ok view_okb_true_iff). tauto.
Qed.
