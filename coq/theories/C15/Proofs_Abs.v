(* C15 proofs, layer 2: the abstract state.  Insertion sort by stamp, the
   well-formedness invariant WF, and how aval / keys_of react to adel1, aset1
   and to the fold of aset1 used by aspec_set. *)
From Coq Require Import List Bool Arith Lia Permutation Sorted.
From AL Require Import Base.CaseLib C15.Model C15.Spec C15.Proofs_Assoc.
Import ListNotations.

Definition isort (l : list (key * nat)) : list (key * nat) := fold_right ins_by_stamp [] l.
Definition entries (m : list (key * (val * nat))) (v : val) : list (key * nat) :=
  flat_map (fun e => if Nat.eqb (fst (snd e)) v then [(fst e, snd (snd e))] else []) m.

Lemma keys_of_eq a v : keys_of a v = map fst (isort (entries (amap a) v)).
Proof. reflexivity. Qed.

Definition wsorted (l : list (key * nat)) : Prop := StronglySorted (fun x y => snd x <= snd y) l.

(* ---- insertion sort *)
Lemma ins_In x l y : In y (ins_by_stamp x l) <-> y = x \/ In y l.
Proof.
  induction l as [|z r IH]; simpl.
  - intuition.
  - destruct (snd x <? snd z); simpl.
    + intuition.
    + rewrite IH. intuition.
Qed.

Lemma isort_In l y : In y (isort l) <-> In y l.
Proof.
  induction l as [|x r IH]; simpl; [tauto|].
  rewrite ins_In, IH. intuition.
Qed.

Lemma ins_perm x l : Permutation (ins_by_stamp x l) (x :: l).
Proof.
  induction l as [|z r IH]; simpl; [apply Permutation_refl|].
  destruct (snd x <? snd z); [apply Permutation_refl|].
  apply perm_trans with (z :: x :: r); [apply perm_skip; exact IH|apply perm_swap].
Qed.

Lemma isort_perm l : Permutation (isort l) l.
Proof.
  induction l as [|x r IH]; simpl; [apply perm_nil|].
  apply perm_trans with (x :: isort r); [apply ins_perm|apply perm_skip; exact IH].
Qed.

Lemma ins_wsorted x l : wsorted l -> wsorted (ins_by_stamp x l).
Proof.
  unfold wsorted. induction l as [|z r IH]; simpl; intro Hs.
  - constructor; constructor.
  - inversion Hs as [|z' r' Hs' Hall]; subst.
    destruct (snd x <? snd z) eqn:E.
    + apply Nat.ltb_lt in E. constructor; [exact Hs|].
      constructor; [lia|]. rewrite Forall_forall in *. intros y Hy. specialize (Hall y Hy). lia.
    + apply Nat.ltb_ge in E. constructor; [apply IH; exact Hs'|].
      rewrite Forall_forall in *. intros y Hy. apply ins_In in Hy as [Hy|Hy].
      * subst. exact E.
      * apply Hall. exact Hy.
Qed.

Lemma isort_wsorted l : wsorted (isort l).
Proof.
  induction l as [|x r IH]; simpl; [constructor|]. apply ins_wsorted. exact IH.
Qed.

Lemma ins_lt_all x l : (forall z, In z l -> snd x < snd z) -> ins_by_stamp x l = x :: l.
Proof.
  destruct l as [|z r]; simpl; intro H; [reflexivity|].
  assert (E : snd x <? snd z = true). { apply Nat.ltb_lt. apply H. left. reflexivity. }
  rewrite E. reflexivity.
Qed.

Lemma filter_ins_false (p : key * nat -> bool) x l :
  p x = false -> filter p (ins_by_stamp x l) = filter p l.
Proof.
  intro Hp. induction l as [|z r IH]; simpl.
  - rewrite Hp. reflexivity.
  - destruct (snd x <? snd z); simpl.
    + rewrite Hp. reflexivity.
    + rewrite IH. reflexivity.
Qed.

Lemma ins_filter (p : key * nat -> bool) x l :
  wsorted l -> p x = true -> ins_by_stamp x (filter p l) = filter p (ins_by_stamp x l).
Proof.
  unfold wsorted. intros Hs Hp. induction l as [|z r IH]; simpl.
  - rewrite Hp. reflexivity.
  - inversion Hs as [|z' r' Hs' Hall]; subst. rewrite Forall_forall in Hall.
    destruct (snd x <? snd z) eqn:E.
    + simpl. rewrite Hp. apply Nat.ltb_lt in E.
      apply ins_lt_all. intros y Hy.
      assert (Hy' : In y (z :: r)).
      { change (In y (filter p (z :: r))) in Hy. apply filter_In in Hy. tauto. }
      destruct Hy' as [Hy'|Hy']; [subst; exact E|]. specialize (Hall y Hy'). lia.
    + simpl. destruct (p z); simpl.
      * rewrite E. f_equal. apply IH. exact Hs'.
      * apply IH. exact Hs'.
Qed.

Lemma isort_filter (p : key * nat -> bool) l : isort (filter p l) = filter p (isort l).
Proof.
  induction l as [|x r IH]; simpl; [reflexivity|].
  destruct (p x) eqn:Hp; simpl.
  - fold (isort (filter p r)). rewrite IH. apply ins_filter; [apply isort_wsorted|exact Hp].
  - rewrite filter_ins_false by exact Hp. exact IH.
Qed.

Lemma ins_app_last y m x :
  snd y < snd x -> ins_by_stamp y (m ++ [x]) = ins_by_stamp y m ++ [x].
Proof.
  intro Hlt. induction m as [|z r IH]; simpl.
  - apply Nat.ltb_lt in Hlt. rewrite Hlt. reflexivity.
  - destruct (snd y <? snd z); simpl; [reflexivity|]. rewrite IH. reflexivity.
Qed.

Lemma isort_app_last l x :
  (forall z, In z l -> snd z < snd x) -> isort (l ++ [x]) = isort l ++ [x].
Proof.
  induction l as [|y r IH]; simpl; intro H; [reflexivity|].
  fold (isort (r ++ [x])). fold (isort r).
  rewrite IH by (intros z Hz; apply H; right; exact Hz).
  apply ins_app_last. apply H. left. reflexivity.
Qed.

(* ---- entries *)
Lemma entries_In m v k s : In (k, s) (entries m v) <-> In (k, (v, s)) m.
Proof.
  unfold entries. rewrite in_flat_map. split.
  - intros [[k' [v' s']] [Hin H]]. simpl in H.
    destruct (Nat.eqb v' v) eqn:E; [|contradiction].
    apply Nat.eqb_eq in E. subst. destruct H as [H|H]; [|contradiction].
    inversion H; subst. exact Hin.
  - intro Hin. exists (k, (v, s)). split; [exact Hin|]. simpl.
    rewrite Nat.eqb_refl. left. reflexivity.
Qed.

Lemma entries_fst_In m v k : In k (map fst (entries m v)) -> In k (map fst m).
Proof.
  intro H. apply in_map_iff in H as [[k' s] [He Hin]]. simpl in He. subst k'.
  apply entries_In in Hin. apply (in_map fst) in Hin. exact Hin.
Qed.

Lemma entries_snd_In m v s : In s (map snd (entries m v)) -> In s (map (fun e => snd (snd e)) m).
Proof.
  intro H. apply in_map_iff in H as [[k s'] [He Hin]]. simpl in He. subst s'.
  apply entries_In in Hin. apply in_map_iff. exists (k, (v, s)). split; [reflexivity|exact Hin].
Qed.

Lemma entries_NoDup_fst m v : NoDup (map fst m) -> NoDup (map fst (entries m v)).
Proof.
  induction m as [|[k [v' s]] r IH]; simpl; intro Hnd; [constructor|].
  inversion Hnd as [|x xs Hnotin Hnd']; subst.
  destruct (Nat.eqb v' v); simpl; [|apply IH; exact Hnd'].
  constructor; [|apply IH; exact Hnd'].
  intro H. apply Hnotin. apply entries_fst_In in H. exact H.
Qed.

Lemma entries_NoDup_snd m v :
  NoDup (map (fun e => snd (snd e)) m) -> NoDup (map snd (entries m v)).
Proof.
  induction m as [|[k [v' s]] r IH]; simpl; intro Hnd; [constructor|].
  inversion Hnd as [|x xs Hnotin Hnd']; subst.
  destruct (Nat.eqb v' v); simpl; [|apply IH; exact Hnd'].
  constructor; [|apply IH; exact Hnd'].
  intro H. apply Hnotin. apply entries_snd_In in H. exact H.
Qed.

Lemma entries_adel m v k :
  NoDup (map fst m) ->
  entries (adel Nat.eqb k m) v = filter (fun x => nk k (fst x)) (entries m v).
Proof.
  induction m as [|[k' [v' s]] r IH]; simpl; intro Hnd; [reflexivity|].
  inversion Hnd as [|x xs Hnotin Hnd']; subst.
  destruct (Nat.eqb k k') eqn:E.
  - apply Nat.eqb_eq in E. subst k'.
    assert (Hr : filter (fun x => nk k (fst x)) (entries r v) = entries r v).
    { apply filter_true. intros [k1 s1] Hx. simpl. unfold nk.
      destruct (Nat.eqb k1 k) eqn:E1; [|reflexivity]. apply Nat.eqb_eq in E1. subst.
      exfalso. apply Hnotin. apply (entries_fst_In r v). apply (in_map fst) in Hx. exact Hx. }
    destruct (Nat.eqb v' v); simpl.
    + unfold nk at 1. rewrite Nat.eqb_refl. simpl. symmetry. exact Hr.
    + symmetry. exact Hr.
  - simpl. fold (entries (adel Nat.eqb k r) v). fold (entries r v).
    rewrite IH by exact Hnd'. destruct (Nat.eqb v' v); simpl; [|reflexivity].
    unfold nk at 2. rewrite Nat.eqb_sym, E. reflexivity.
Qed.

Lemma entries_app m1 m2 v : entries (m1 ++ m2) v = entries m1 v ++ entries m2 v.
Proof. unfold entries. apply flat_map_app. Qed.

Lemma entries_single k v s w : entries [(k, (v, s))] w = if Nat.eqb v w then [(k, s)] else [].
Proof. unfold entries. simpl. destruct (Nat.eqb v w); reflexivity. Qed.

(* ---- aval *)
Lemma aval_In a k v : NoDup (map fst (amap a)) ->
  (aval a k = Some v <-> exists s, In (k, (v, s)) (amap a)).
Proof.
  intro Hnd. unfold aval. split.
  - destruct (aget Nat.eqb k (amap a)) as [[v' s]|] eqn:E; [|discriminate].
    intro H. inversion H; subst. exists s. apply (aget_Some_In Nat.eqb Nat.eqb_eq). exact E.
  - intros [s Hin]. rewrite (In_aget Nat.eqb Nat.eqb_eq k (v, s)); [reflexivity|exact Hnd|exact Hin].
Qed.

Lemma aval_adel1 a k k' : NoDup (map fst (amap a)) ->
  aval (adel1 a k) k' = if Nat.eqb k' k then None else aval a k'.
Proof.
  intro Hnd. unfold aval, adel1. simpl.
  rewrite (aget_adel Nat.eqb Nat.eqb_eq) by exact Hnd.
  destruct (Nat.eqb k' k); reflexivity.
Qed.

Lemma aval_adel1_none a k : aval a k = None -> amap (adel1 a k) = amap a.
Proof.
  unfold aval. intro H. simpl. apply (adel_notin Nat.eqb Nat.eqb_eq).
  apply (aget_None_iff Nat.eqb Nat.eqb_eq).
  destruct (aget Nat.eqb k (amap a)) as [[v s]|]; [discriminate|reflexivity].
Qed.

Lemma aval_aset1 a k v k' :
  aval (aset1 a k v) k' = if Nat.eqb k' k then Some v else aval a k'.
Proof.
  unfold aval, aset1. simpl. rewrite (aget_aset Nat.eqb Nat.eqb_eq).
  destruct (Nat.eqb k' k) eqn:E; [reflexivity|].
  rewrite (aget_adel_neq Nat.eqb Nat.eqb_eq) by exact E. reflexivity.
Qed.

Lemma aval_fold_aset1 v ks : forall a k,
  aval (fold_left (fun acc k' => aset1 acc k' v) ks a) k = if mem k ks then Some v else aval a k.
Proof.
  induction ks as [|k1 r IH]; intros a k; cbn [fold_left]; [reflexivity|].
  rewrite IH, aval_aset1. rewrite mem_cons.
  destruct (Nat.eqb k k1); simpl; destruct (mem k r); reflexivity.
Qed.

Lemma adefault_fold_aset1 v ks : forall a,
  adefault (fold_left (fun acc k' => aset1 acc k' v) ks a) = adefault a.
Proof.
  induction ks as [|k1 r IH]; intro a; simpl; [reflexivity|]. rewrite IH. reflexivity.
Qed.

(* ---- well-formed abstract states *)
Record WF (a : astate) : Prop := {
  wf_nd : NoDup (map fst (amap a));
  wf_st : NoDup (map (fun e => snd (snd e)) (amap a));
  wf_clk : forall e, In e (amap a) -> snd (snd e) < clock a
}.

Lemma WF_init : WF ainit.
Proof. constructor; simpl; [constructor|constructor|tauto]. Qed.

Lemma WF_same a a' : amap a' = amap a -> clock a' = clock a -> WF a -> WF a'.
Proof.
  intros Hm Hc [H1 H2 H3]. constructor; rewrite ?Hm, ?Hc; assumption.
Qed.

Lemma WF_adel1 a k : WF a -> WF (adel1 a k).
Proof.
  intros [H1 H2 H3]. constructor; simpl.
  - apply NoDup_map_adel. exact H1.
  - apply NoDup_map_adel. exact H2.
  - intros e He. apply In_adel in He. apply H3. exact He.
Qed.

Lemma amap_aset1 a k v : NoDup (map fst (amap a)) ->
  amap (aset1 a k v) = adel Nat.eqb k (amap a) ++ [(k, (v, clock a))].
Proof.
  intro Hnd. simpl. apply (aset_notin Nat.eqb Nat.eqb_eq).
  apply (notin_adel Nat.eqb Nat.eqb_eq). exact Hnd.
Qed.

Lemma NoDup_snoc {A} (l : list A) x : NoDup l -> ~ In x l -> NoDup (l ++ [x]).
Proof.
  intros Hnd Hn. apply (Permutation_NoDup (l := x :: l)).
  - apply Permutation_cons_append.
  - constructor; assumption.
Qed.

Lemma WF_aset1 a k v : WF a -> WF (aset1 a k v).
Proof.
  intros [H1 H2 H3]. constructor.
  - simpl. apply (NoDup_aset Nat.eqb Nat.eqb_eq). apply NoDup_map_adel. exact H1.
  - rewrite amap_aset1 by exact H1. rewrite map_app. simpl. apply NoDup_snoc.
    + apply NoDup_map_adel. exact H2.
    + intro Hin. apply in_map_iff in Hin as [e [He Hin]]. apply In_adel in Hin.
      apply H3 in Hin. lia.
  - rewrite amap_aset1 by exact H1. intros e He. apply in_app_or in He as [He|He].
    + apply In_adel in He. apply H3 in He. simpl. lia.
    + destruct He as [He|He]; [|contradiction]. subst. simpl. lia.
Qed.

(* ---- keys_of *)
Lemma keys_of_same a a' v : amap a' = amap a -> keys_of a' v = keys_of a v.
Proof. intro H. unfold keys_of. rewrite H. reflexivity. Qed.

Lemma aval_same a a' k : amap a' = amap a -> aval a' k = aval a k.
Proof. intro H. unfold aval. rewrite H. reflexivity. Qed.

Lemma keys_of_In a v k : NoDup (map fst (amap a)) ->
  (In k (keys_of a v) <-> aval a k = Some v).
Proof.
  intro Hnd. rewrite keys_of_eq, aval_In by exact Hnd. rewrite in_map_iff. split.
  - intros [[k' s] [He Hin]]. simpl in He. subst. rewrite isort_In in Hin.
    rewrite entries_In in Hin. exists s. exact Hin.
  - intros [s Hin]. exists (k, s). split; [reflexivity|]. apply isort_In. apply entries_In. exact Hin.
Qed.

Lemma keys_of_NoDup a v : NoDup (map fst (amap a)) -> NoDup (keys_of a v).
Proof.
  intro Hnd. rewrite keys_of_eq.
  apply (Permutation_NoDup (l := map fst (entries (amap a) v))).
  - apply Permutation_map. apply Permutation_sym. apply isort_perm.
  - apply entries_NoDup_fst. exact Hnd.
Qed.

Lemma keys_of_adel1 a k w : NoDup (map fst (amap a)) ->
  keys_of (adel1 a k) w = filter (nk k) (keys_of a w).
Proof.
  intro Hnd. rewrite !keys_of_eq. simpl.
  rewrite entries_adel by exact Hnd. rewrite isort_filter. apply map_fst_filter.
Qed.

Lemma keys_of_aset1 a k v w : WF a ->
  keys_of (aset1 a k v) w =
  if Nat.eqb w v then filter (nk k) (keys_of a v) ++ [k] else filter (nk k) (keys_of a w).
Proof.
  intros [H1 H2 H3]. rewrite !keys_of_eq. rewrite amap_aset1 by exact H1.
  rewrite entries_app, entries_adel by exact H1. rewrite entries_single. rewrite Nat.eqb_sym.
  destruct (Nat.eqb w v) eqn:E.
  - apply Nat.eqb_eq in E. subst w. rewrite isort_app_last.
    + rewrite map_app. simpl. rewrite isort_filter, map_fst_filter. reflexivity.
    + intros [k1 s1] Hz. apply filter_In in Hz as [Hz _]. apply entries_In in Hz.
      apply H3 in Hz. simpl in *. exact Hz.
  - rewrite app_nil_r. rewrite isort_filter, map_fst_filter. reflexivity.
Qed.

Lemma WF_fold_aset1 v ks : forall a, WF a -> WF (fold_left (fun acc k' => aset1 acc k' v) ks a).
Proof.
  induction ks as [|k1 r IH]; intros a Hwf; simpl; [exact Hwf|].
  apply IH. apply WF_aset1. exact Hwf.
Qed.

Lemma keys_of_fold_aset1 v ks : forall a w, WF a -> NoDup ks ->
  keys_of (fold_left (fun acc k' => aset1 acc k' v) ks a) w =
  if Nat.eqb w v then filter (notin ks) (keys_of a v) ++ ks else filter (notin ks) (keys_of a w).
Proof.
  induction ks as [|k1 r IH]; intros a w Hwf Hnd; simpl.
  - rewrite !filter_notin_nil, app_nil_r. destruct (Nat.eqb w v) eqn:E; [|reflexivity].
    apply Nat.eqb_eq in E. subst. reflexivity.
  - inversion Hnd as [|x xs Hnotin Hnd']; subst.
    rewrite IH by (try apply WF_aset1; assumption).
    rewrite !keys_of_aset1 by exact Hwf. rewrite Nat.eqb_refl.
    destruct (Nat.eqb w v) eqn:E.
    + rewrite filter_app, filter_notin_cons. simpl.
      assert (E1 : notin r k1 = true). { unfold notin. apply negb_true_iff. apply mem_false. exact Hnotin. }
      rewrite E1. rewrite <- app_assoc. reflexivity.
    + apply filter_notin_cons.
Qed.

(* ---- values_of *)
Lemma values_of_NoDup a : NoDup (values_of a).
Proof. apply NoDup_nodup. Qed.

Lemma values_of_In a v : NoDup (map fst (amap a)) ->
  (In v (values_of a) <-> exists k, aval a k = Some v).
Proof.
  intro Hnd. unfold values_of. rewrite nodup_In, in_map_iff. split.
  - intros [[k [v' s]] [He Hin]]. simpl in He. subst v'. exists k.
    apply aval_In; [exact Hnd|]. exists s. exact Hin.
  - intros [k Hk]. apply aval_In in Hk as [s Hin]; [|exact Hnd].
    exists (k, (v, s)). split; [reflexivity|exact Hin].
Qed.

Lemma values_of_keys a v : NoDup (map fst (amap a)) ->
  (In v (values_of a) <-> keys_of a v <> []).
Proof.
  intro Hnd. rewrite values_of_In by exact Hnd. split.
  - intros [k Hk] Hnil. apply keys_of_In in Hk; [|exact Hnd]. rewrite Hnil in Hk. contradiction.
  - intro Hne. destruct (keys_of a v) as [|k r] eqn:E; [congruence|].
    exists k. apply keys_of_In; [exact Hnd|]. rewrite E. left. reflexivity.
Qed.
