(* C14 - constant overlap-add of the periodic windows (what makes overlap-add reconstruction possible). *)
From Coq Require Import List Bool ZArith Reals Lia Lra String.
From AL Require Import C14.Model C14.Gen_Windows C14.Spec C14.Proofs_Gen C14.Proofs_R.
Import ListNotations.
Open Scope R_scope.

Lemma nth_map_seq {A} (g : nat -> A) m i d : (i < m)%nat -> nth i (map g (seq 0 m)) d = g i.
Proof.
  intro H. rewrite (nth_indep _ d (g 0%nat)) by (now rewrite map_length, seq_length).
  rewrite map_nth, seq_nth by exact H. reflexivity.
Qed.

Lemma nth_doc_window w (m i : nat) : (i < m)%nat ->
  nth i (doc_window w (Z.of_nat m)) 0 = w (INR i) (INR m).
Proof.
  intro H. unfold doc_window, zrange. rewrite map_map, Nat2Z.id, nth_map_seq by exact H.
  now rewrite <- !INR_IZR_INZ.
Qed.

Lemma rsum_ext f g m : (forall k, (k < m)%nat -> f k = g k) -> rsum f m = rsum g m.
Proof.
  induction m as [|m IH]; intro H; [reflexivity|]. cbn. rewrite IH, H; auto.
Qed.

Lemma rsum_const c m : rsum (fun _ => c) m = INR m * c.
Proof. induction m as [|m IH]; [cbn; ring|]. cbn [rsum]. rewrite IH, S_INR. ring. Qed.

(* it is enough to add the closed form at the positions n + k*hop *)
Lemma cola_intro w hop m C :
  (forall n, (n < hop)%nat -> rsum (fun k => w (INR n + INR k * INR hop) (INR m * INR hop)) m = C) ->
  cola (doc_window w (Z.of_nat (m * hop))) hop m C.
Proof.
  intro H. split.
  - unfold doc_window. now rewrite map_length, zrange_length, Nat2Z.id.
  - intros n Hn. rewrite <- (H n Hn). apply rsum_ext. intros k Hk.
    rewrite nth_doc_window by nia.
    now rewrite plus_INR, !mult_INR.
Qed.

(* ------------------------------------------------------------------ trigonometric shifts *)
Lemma cos_PI2_plus x : cos (x + PI / 2) = - sin x.
Proof. rewrite cos_plus, cos_PI2, sin_PI2. ring. Qed.
Lemma cos_PI_plus x : cos (x + PI) = - cos x.
Proof. apply neg_cos. Qed.
Lemma cos_3PI2_plus x : cos (x + 3 * (PI / 2)) = sin x.
Proof.
  replace (x + 3 * (PI / 2)) with (x + PI / 2 + PI) by field.
  rewrite cos_PI_plus, cos_PI2_plus. ring.
Qed.
Lemma cos_2PI_plus' x : cos (x + 2 * PI) = cos x.
Proof. rewrite cos_plus, cos_2PI, sin_2PI. ring. Qed.
Lemma cos_3PI_plus x : cos (x + 3 * PI) = - cos x.
Proof. replace (x + 3 * PI) with (x + PI + 2 * PI) by ring. now rewrite cos_2PI_plus', cos_PI_plus. Qed.

(* ------------------------------------------------------------------ hop = size/2 *)
Lemma hann_half_pt x H : 0 < H -> doc_hann x (2 * H) + doc_hann (x + H) (2 * H) = 1.
Proof.
  intro HH. unfold doc_hann.
  replace (2 * PI * (x + H) / (2 * H)) with (2 * PI * x / (2 * H) + PI) by (field; lra).
  rewrite cos_PI_plus. field.
Qed.

Lemma hamming_half_pt x H : 0 < H -> doc_hamming x (2 * H) + doc_hamming (x + H) (2 * H) = 108 / 100.
Proof.
  intro HH. unfold doc_hamming.
  replace (2 * PI * (x + H) / (2 * H)) with (2 * PI * x / (2 * H) + PI) by (field; lra).
  rewrite cos_PI_plus. field.
Qed.

Lemma bartlett_half_pt x H : 0 < H -> 0 <= x < H ->
  doc_bartlett x (2 * H) + doc_bartlett (x + H) (2 * H) = 1.
Proof.
  intros HH Hx. unfold doc_bartlett.
  replace (x - 2 * H / 2) with (- (H - x)) by field.
  replace (x + H - 2 * H / 2) with x by field.
  rewrite Rabs_Ropp, !Rabs_pos_eq by lra. field. lra.
Qed.

Lemma pos_INR_hop n hop : (n < hop)%nat -> 0 < INR hop /\ 0 <= INR n < INR hop.
Proof.
  intro H. split; [apply lt_0_INR; lia|]. split; [apply pos_INR|now apply lt_INR].
Qed.

Lemma hann_cola_half h a : cola (winR tmpl_window f_hann (Z.of_nat (2 * h)) a) h 2 1.
Proof.
  destruct (hann_closed_form (Z.of_nat (2 * h)) a) as [-> _]. apply cola_intro. intros n Hn.
  destruct (pos_INR_hop n h Hn) as [HH Hx].
  cbn [rsum]. replace (INR 2) with 2 by (cbn; ring). replace (INR 1) with 1 by reflexivity.
  replace (INR 0) with 0 by reflexivity.
  replace (INR n + 0 * INR h) with (INR n) by ring. replace (INR n + 1 * INR h) with (INR n + INR h) by ring.
  rewrite Rplus_0_l. now apply hann_half_pt.
Qed.

Lemma hamming_cola_half h a : cola (winR tmpl_window f_hamming (Z.of_nat (2 * h)) a) h 2 (108 / 100).
Proof.
  destruct (hamming_closed_form (Z.of_nat (2 * h)) a) as [-> _]. apply cola_intro. intros n Hn.
  destruct (pos_INR_hop n h Hn) as [HH Hx].
  cbn [rsum]. replace (INR 2) with 2 by (cbn; ring). replace (INR 1) with 1 by reflexivity.
  replace (INR 0) with 0 by reflexivity.
  replace (INR n + 0 * INR h) with (INR n) by ring. replace (INR n + 1 * INR h) with (INR n + INR h) by ring.
  rewrite Rplus_0_l. now apply hamming_half_pt.
Qed.

Lemma bartlett_cola_half h a : cola (winR tmpl_window f_bartlett (Z.of_nat (2 * h)) a) h 2 1.
Proof.
  destruct (bartlett_closed_form (Z.of_nat (2 * h)) a) as [-> _]. apply cola_intro. intros n Hn.
  destruct (pos_INR_hop n h Hn) as [HH Hx].
  cbn [rsum]. replace (INR 2) with 2 by (cbn; ring). replace (INR 1) with 1 by reflexivity.
  replace (INR 0) with 0 by reflexivity.
  replace (INR n + 0 * INR h) with (INR n) by ring. replace (INR n + 1 * INR h) with (INR n + INR h) by ring.
  rewrite Rplus_0_l. now apply bartlett_half_pt.
Qed.

(* rectangular: any hop, any number m of overlapping copies *)
Lemma rect_cola_any hop m a : cola (winR tmpl_window f_rect (Z.of_nat (m * hop)) a) hop m (INR m).
Proof.
  rewrite rect_closed_form. apply cola_intro. intros n Hn. unfold doc_rect.
  rewrite rsum_const. ring.
Qed.

(* ------------------------------------------------------------------ hop = size/4 *)
Lemma four_cos t : cos t + cos (t + PI / 2) + cos (t + 2 * (PI / 2)) + cos (t + 3 * (PI / 2)) = 0.
Proof.
  replace (t + 2 * (PI / 2)) with (t + PI) by field.
  rewrite cos_PI2_plus, cos_PI_plus, cos_3PI2_plus. ring.
Qed.

Lemma four_cos2 t : cos t + cos (t + PI) + cos (t + 2 * PI) + cos (t + 3 * PI) = 0.
Proof. rewrite cos_PI_plus, cos_2PI_plus', cos_3PI_plus. ring. Qed.

Lemma angle2 x k H : 0 < H -> 2 * PI * (x + k * H) / (4 * H) = 2 * PI * x / (4 * H) + k * (PI / 2).
Proof. intro HH. field. lra. Qed.
Lemma angle4 x k H : 0 < H -> 4 * PI * (x + k * H) / (4 * H) = 4 * PI * x / (4 * H) + k * PI.
Proof. intro HH. field. lra. Qed.

Lemma hann_quarter_pt x H : 0 < H ->
  doc_hann (x + 0 * H) (4 * H) + doc_hann (x + 1 * H) (4 * H) + doc_hann (x + 2 * H) (4 * H)
  + doc_hann (x + 3 * H) (4 * H) = 2.
Proof.
  intro HH. unfold doc_hann. rewrite !angle2 by exact HH.
  pose proof (four_cos (2 * PI * x / (4 * H))) as E.
  replace (2 * PI * x / (4 * H) + 0 * (PI / 2)) with (2 * PI * x / (4 * H)) by ring.
  replace (2 * PI * x / (4 * H) + 1 * (PI / 2)) with (2 * PI * x / (4 * H) + PI / 2) by ring.
  lra.
Qed.

Lemma hamming_quarter_pt x H : 0 < H ->
  doc_hamming (x + 0 * H) (4 * H) + doc_hamming (x + 1 * H) (4 * H) + doc_hamming (x + 2 * H) (4 * H)
  + doc_hamming (x + 3 * H) (4 * H) = 216 / 100.
Proof.
  intro HH. unfold doc_hamming. rewrite !angle2 by exact HH.
  pose proof (four_cos (2 * PI * x / (4 * H))) as E.
  replace (2 * PI * x / (4 * H) + 0 * (PI / 2)) with (2 * PI * x / (4 * H)) by ring.
  replace (2 * PI * x / (4 * H) + 1 * (PI / 2)) with (2 * PI * x / (4 * H) + PI / 2) by ring.
  lra.
Qed.

Lemma blackman_quarter_pt a x H : 0 < H ->
  doc_blackman a (x + 0 * H) (4 * H) + doc_blackman a (x + 1 * H) (4 * H) + doc_blackman a (x + 2 * H) (4 * H)
  + doc_blackman a (x + 3 * H) (4 * H) = 2 * (1 - a).
Proof.
  intro HH. unfold doc_blackman. rewrite !angle2, !angle4 by exact HH.
  pose proof (four_cos (2 * PI * x / (4 * H))) as E.
  pose proof (four_cos2 (4 * PI * x / (4 * H))) as E2.
  replace (2 * PI * x / (4 * H) + 0 * (PI / 2)) with (2 * PI * x / (4 * H)) by ring.
  replace (2 * PI * x / (4 * H) + 1 * (PI / 2)) with (2 * PI * x / (4 * H) + PI / 2) by ring.
  replace (4 * PI * x / (4 * H) + 0 * PI) with (4 * PI * x / (4 * H)) by ring.
  replace (4 * PI * x / (4 * H) + 1 * PI) with (4 * PI * x / (4 * H) + PI) by ring.
  set (c0 := cos (2 * PI * x / (4 * H))) in *. set (c1 := cos (2 * PI * x / (4 * H) + PI / 2)) in *.
  set (c2 := cos (2 * PI * x / (4 * H) + 2 * (PI / 2))) in *. set (c3 := cos (2 * PI * x / (4 * H) + 3 * (PI / 2))) in *.
  set (d0 := cos (4 * PI * x / (4 * H))) in *. set (d1 := cos (4 * PI * x / (4 * H) + PI)) in *.
  set (d2 := cos (4 * PI * x / (4 * H) + 2 * PI)) in *. set (d3 := cos (4 * PI * x / (4 * H) + 3 * PI)) in *.
  replace ((1 - a) / 2 - 1 / 2 * c0 + a / 2 * d0 + ((1 - a) / 2 - 1 / 2 * c1 + a / 2 * d1) +
           ((1 - a) / 2 - 1 / 2 * c2 + a / 2 * d2) + ((1 - a) / 2 - 1 / 2 * c3 + a / 2 * d3))
    with (2 * (1 - a) - 1 / 2 * (c0 + c1 + c2 + c3) + a / 2 * (d0 + d1 + d2 + d3)) by field.
  rewrite E, E2. ring.
Qed.

Ltac four_terms :=
  cbn [rsum];
  replace (INR 4) with 4 by (cbn; ring); replace (INR 3) with 3 by (cbn; ring);
  replace (INR 2) with 2 by (cbn; ring); replace (INR 1) with 1 by reflexivity;
  replace (INR 0) with 0 by reflexivity; rewrite Rplus_0_l.

Lemma hann_cola_quarter h a : cola (winR tmpl_window f_hann (Z.of_nat (4 * h)) a) h 4 2.
Proof.
  destruct (hann_closed_form (Z.of_nat (4 * h)) a) as [-> _]. apply cola_intro. intros n Hn.
  destruct (pos_INR_hop n h Hn) as [HH Hx]. four_terms. now apply hann_quarter_pt.
Qed.

Lemma hamming_cola_quarter h a : cola (winR tmpl_window f_hamming (Z.of_nat (4 * h)) a) h 4 (216 / 100).
Proof.
  destruct (hamming_closed_form (Z.of_nat (4 * h)) a) as [-> _]. apply cola_intro. intros n Hn.
  destruct (pos_INR_hop n h Hn) as [HH Hx]. four_terms. now apply hamming_quarter_pt.
Qed.

Lemma blackman_cola_quarter h a : cola (winR tmpl_window f_blackman (Z.of_nat (4 * h)) a) h 4 (2 * (1 - a)).
Proof.
  destruct (blackman_closed_form (Z.of_nat (4 * h)) a) as [-> _]. apply cola_intro. intros n Hn.
  destruct (pos_INR_hop n h Hn) as [HH Hx]. four_terms. now apply blackman_quarter_pt.
Qed.

Lemma cola_half h a :
  cola (winR tmpl_window f_hann (Z.of_nat (2 * h)) a) h 2 1 /\
  cola (winR tmpl_window f_hamming (Z.of_nat (2 * h)) a) h 2 (108 / 100) /\
  cola (winR tmpl_window f_bartlett (Z.of_nat (2 * h)) a) h 2 1 /\
  (forall m, cola (winR tmpl_window f_rect (Z.of_nat (m * h)) a) h m (INR m)).
Proof.
  split; [apply hann_cola_half|]. split; [apply hamming_cola_half|]. split; [apply bartlett_cola_half|].
  intro m. apply rect_cola_any.
Qed.

Lemma cola_quarter h a :
  cola (winR tmpl_window f_hann (Z.of_nat (4 * h)) a) h 4 2 /\
  cola (winR tmpl_window f_hamming (Z.of_nat (4 * h)) a) h 4 (216 / 100) /\
  cola (winR tmpl_window f_blackman (Z.of_nat (4 * h)) a) h 4 (2 * (1 - a)).
Proof.
  split; [apply hann_cola_quarter|]. split; [apply hamming_cola_quarter|apply blackman_cola_quarter].
Qed.
