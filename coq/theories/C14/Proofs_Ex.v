(* C14 - concrete instances (non-vacuity of the hypotheses used in Prop.v). *)
From Coq Require Import List Bool ZArith Reals Lra String.
From Coq Require Import Floats.PrimFloat.
From AL Require Import C14.Model C14.Gen_Windows C14.Spec C14.Proofs_Gen C14.Proofs_R.
Import ListNotations.

Lemma ex_bartlett_floats :
  let L := {| lcos := fun _ => nan; lsin := fun _ => nan; lpow := fun _ _ => nan |} in
  call L tmpl_window tmpl_wsymm win_table Window "bartlett" 4 None
    = Some [PFlt 0%float; PFlt 0.5%float; PFlt 1%float; PFlt 0.5%float] /\
  call L tmpl_window tmpl_wsymm win_table Wsymm "bartlett" 5 None
    = Some [PFlt 0%float; PFlt 0.5%float; PFlt 1%float; PFlt 0.5%float; PFlt 0%float] /\
  call L tmpl_window tmpl_wsymm win_table Wsymm "dirichlet" 3 None
    = Some [PFlt 1%float; PFlt 1%float; PFlt 1%float] /\
  In "hanning"%string all_names.
Proof.
  cbv zeta. repeat split; try (vm_compute; reflexivity). cbn. tauto.
Qed.

Open Scope R_scope.

Lemma ex_alpha_dom : alpha_dom e_blackman (4 / 25) /\ alpha_dom e_cos 1 /\ alpha_dom e_hann 0 /\
  nth 1 (winR tmpl_window f_blackman 6 (1 / 2)) 0 = - 1 / 8.
Proof.
  split; [split; intros _; lra|].
  split; [split; [intro H; apply (f_equal w_names) in H; discriminate H|intros _; lra]|].
  split; [split; intros _; lra|].
  rewrite winR_window. unfold zrange. change (Z.to_nat 6) with 6%nat. cbn.
  replace (4 * PI * 1 / 6) with (2 * (PI / 3)) by field.
  replace (2 * PI * 1 / 6) with (PI / 3) by field.
  rewrite cos_2a_cos, cos_PI3. field.
Qed.

Lemma ex_hann4 : winR tmpl_window f_hann 4 0 = [0; 1 / 2; 1; 1 / 2].
Proof.
  rewrite winR_window. unfold zrange. change (Z.to_nat 4) with 4%nat. cbn.
  replace (2 * PI * 0 / 4) with 0 by field.
  replace (2 * PI * 1 / 4) with (PI / 2) by field.
  replace (2 * PI * 2 / 4) with PI by field.
  replace (2 * PI * 3 / 4) with (3 * (PI / 2)) by field.
  rewrite cos_0, cos_PI2, cos_PI, cos_3PI2.
  repeat (apply (f_equal2 (@cons R)); [lra|]). reflexivity.
Qed.
