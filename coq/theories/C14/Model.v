(* C14 - window / wsymm strategies (audiolazy/lazy_analysis.py).

   The window formulas are DATA in the source (a table of formula strings plus two code templates that are
   formatted and exec'ed).  This file holds the hand-written part of the model:
     - the expression language [wexpr] the formula strings are translated into (harness/C14_translate.py
       writes the table and the two templates as terms of these types into Gen_Windows.v on every run),
     - its two interpretations: [wevalR] over the reals (decimal literals at their decimal value, pi = PI) and
       [wevalF], Python's dynamic int/float arithmetic over binary64 with the libm calls cos/sin/pow left as
       uninterpreted function symbols (section-free: they are arguments),
     - the meaning of a code template ([win_gen]: optional special case, rebinding of size, xrange),
     - [gen_strategies], the model of _generate_window_strategies (two dictionaries name -> function object
       and the .periodic/.symm attributes of every function object).
   No proofs here. *)
From Coq Require Import List Bool ZArith Reals String.
From Coq Require Import Floats.PrimFloat Floats.SpecFloat Floats.FloatOps Numbers.Cyclic.Int63.Uint63.
Import ListNotations.

(* ------------------------------------------------------------------ formula language *)
Inductive wvar := Vn | Vsize | Valpha.
Inductive wfun := Fcos | Fsin | Fabs.
Inductive wbin := Badd | Bsub | Bmul | Bdiv | Bpow.

Inductive wexpr :=
| WVar (v : wvar)
| WInt (z : Z)                               (* integer literal *)
| WDec (num : Z) (den : positive) (f : float) (* float literal: decimal value as written num/den, and the binary64 Python uses *)
| WPi                                         (* the name pi (math.pi) *)
| WNeg (a : wexpr)
| WBin (o : wbin) (a b : wexpr)
| WApp (f : wfun) (a : wexpr).

(* ------------------------------------------------------------------ reals *)
(* x ** a for a non-negative base: 0 ** 0 = 1, 0 ** a = 0, otherwise exp (a ln x) *)
Definition Rpow_gen (x a : R) : R :=
  if Req_EM_T x 0 then (if Req_EM_T a 0 then 1%R else 0%R) else Rpower x a.

Definition binR (o : wbin) (x y : R) : R :=
  match o with
  | Badd => (x + y)%R | Bsub => (x - y)%R | Bmul => (x * y)%R | Bdiv => (x / y)%R | Bpow => Rpow_gen x y
  end.
Definition appR (f : wfun) (x : R) : R :=
  match f with Fcos => cos x | Fsin => sin x | Fabs => Rabs x end.

Fixpoint wevalR (e : wexpr) (n size alpha : R) : R :=
  match e with
  | WVar Vn => n | WVar Vsize => size | WVar Valpha => alpha
  | WInt z => IZR z
  | WDec num den _ => (IZR num / IZR (Zpos den))%R
  | WPi => PI
  | WNeg a => (- wevalR a n size alpha)%R
  | WBin o a b => binR o (wevalR a n size alpha) (wevalR b n size alpha)
  | WApp f a => appR f (wevalR a n size alpha)
  end.

(* ------------------------------------------------------------------ Python values, binary64 *)
Inductive pyval := PInt (z : Z) | PFlt (f : float) | PCplx.   (* PCplx: "some complex number" *)

(* the libm functions the generated code calls; they are never interpreted *)
Record libm := { lcos : float -> float; lsin : float -> float; lpow : float -> float -> float }.

Definition pi_f : float := 0x1.921fb54442d18p+1%float.

(* int -> float (exact below 2^53; the check never leaves that range) *)
Definition Z2F (z : Z) : float :=
  match z with
  | Z0 => 0%float
  | Zpos _ => of_uint63 (Uint63.of_Z z)
  | Zneg p => (- of_uint63 (Uint63.of_Z (Zpos p)))%float
  end.

Definition sf_is_int (s : spec_float) : bool :=
  match s with
  | S754_zero _ => true
  | S754_finite _ m e => (0 <=? e)%Z || (Z.land (Zpos m) (Z.ones (- e)) =? 0)%Z
  | _ => false
  end.
Definition f_is_int (f : float) : bool := sf_is_int (Prim2SF f).

Definition to_f (v : pyval) : option float :=
  match v with PInt z => Some (Z2F z) | PFlt f => Some f | PCplx => None end.

(* float ** float as CPython's float_pow does it: ZeroDivisionError, complex result, or libm pow *)
Definition pow_ff (L : libm) (x y : float) : option pyval :=
  if (y =? 0)%float then Some (PFlt 1%float)
  else if (x =? 0)%float && (y <? 0)%float then None
  else if (x <? 0)%float && negb (f_is_int y) then Some PCplx
  else Some (PFlt (lpow L x y)).

Definition binF (L : libm) (o : wbin) (a b : pyval) : option pyval :=
  match o, a, b with
  | Badd, PInt x, PInt y => Some (PInt (x + y))
  | Bsub, PInt x, PInt y => Some (PInt (x - y))
  | Bmul, PInt x, PInt y => Some (PInt (x * y))
  | Bpow, PInt x, PInt y =>
      if (0 <=? y)%Z then Some (PInt (x ^ y)) else pow_ff L (Z2F x) (Z2F y)
  | _, PCplx, _ | _, _, PCplx =>
      match o with
      | Bdiv | Bpow => None          (* not modelled: complex division / power *)
      | _ => Some PCplx
      end
  | _, _, _ =>
      match to_f a, to_f b with
      | Some x, Some y =>
          match o with
          | Badd => Some (PFlt (x + y)%float)
          | Bsub => Some (PFlt (x - y)%float)
          | Bmul => Some (PFlt (x * y)%float)
          | Bdiv => if (y =? 0)%float then None else Some (PFlt (x / y)%float)   (* from __future__ import division *)
          | Bpow => pow_ff L x y
          end
      | _, _ => None
      end
  end.

Definition appF (L : libm) (f : wfun) (a : pyval) : option pyval :=
  match f, a with
  | Fabs, PInt z => Some (PInt (Z.abs z))
  | Fabs, PFlt x => Some (PFlt (abs x))
  | Fabs, PCplx => None                 (* not modelled *)
  | Fcos, _ => match to_f a with Some x => Some (PFlt (lcos L x)) | None => None end   (* math.cos(complex): TypeError *)
  | Fsin, _ => match to_f a with Some x => Some (PFlt (lsin L x)) | None => None end
  end.

(* None = the call raises; alpha = None: the strategy has no alpha parameter *)
Fixpoint wevalF (L : libm) (e : wexpr) (n size : Z) (alpha : option pyval) : option pyval :=
  match e with
  | WVar Vn => Some (PInt n) | WVar Vsize => Some (PInt size) | WVar Valpha => alpha
  | WInt z => Some (PInt z)
  | WDec _ _ f => Some (PFlt f)
  | WPi => Some (PFlt pi_f)
  | WNeg a =>
      match wevalF L a n size alpha with
      | Some (PInt z) => Some (PInt (- z)) | Some (PFlt x) => Some (PFlt (- x)%float)
      | Some PCplx => Some PCplx | None => None
      end
  | WBin o a b =>
      match wevalF L a n size alpha with
      | None => None
      | Some x => match wevalF L b n size alpha with None => None | Some y => binF L o x y end
      end
  | WApp f a =>
      match wevalF L a n size alpha with None => None | Some x => appF L f x end
  end.

(* ------------------------------------------------------------------ code templates *)
(* integer expressions over the argument [size] *)
Inductive sexpr := SSize | SInt (z : Z) | SAdd (a b : sexpr) | SSub (a b : sexpr).
Fixpoint seval (s : sexpr) (size : Z) : Z :=
  match s with
  | SSize => size | SInt z => z
  | SAdd a b => seval a size + seval b size
  | SSub a b => seval a size - seval b size
  end.

(*   def f(size, ...):
       [ if size == k: return [c1, ..., cm] ]               t_special
       return [FORMULA for n in xrange(COUNT)]              with size rebound to SIZE before FORMULA is evaluated
     (COUNT and SIZE are expressions over the ARGUMENT size) *)
Record template := { t_special : option (Z * list wexpr); t_size : sexpr; t_count : sexpr }.

Definition zrange (c : Z) : list Z := map Z.of_nat (seq 0 (Z.to_nat c)).   (* xrange(c) *)

Definition win_gen {A : Type} (ev : wexpr -> Z -> Z -> A) (t : template) (f : wexpr) (size : Z) : list A :=
  let body := map (fun n => ev f n (seval (t_size t) size)) (zrange (seval (t_count t) size)) in
  match t_special t with
  | Some (k, cs) => if (size =? k)%Z then map (fun c => ev c 0%Z size) cs else body
  | None => body
  end.

Definition winR (t : template) (f : wexpr) (size : Z) (alpha : R) : list R :=
  win_gen (fun e n s => wevalR e (IZR n) (IZR s) alpha) t f size.

Definition winF (L : libm) (t : template) (f : wexpr) (size : Z) (alpha : option pyval) : list (option pyval) :=
  win_gen (fun e n s => wevalF L e n s alpha) t f size.

Fixpoint sequence {A : Type} (l : list (option A)) : option (list A) :=
  match l with
  | [] => Some []
  | None :: _ => None
  | Some x :: r => match sequence r with Some r' => Some (x :: r') | None => None end
  end.

(* ------------------------------------------------------------------ the strategy table *)
Record wentry := { w_names : list string; w_formula : wexpr; w_distinct : bool;
                   w_default : option wexpr (* alpha=<literal> in params_def, None: no alpha parameter *) }.

Inductive sdict := Window | Wsymm.
Definition sdict_eqb (a b : sdict) : bool :=
  match a, b with Window, Window | Wsymm, Wsymm => true | _, _ => false end.

(* a function object created by exec: which template, which table row *)
Record fid := FId { f_sd : sdict; f_idx : nat }.
Definition fid_eqb (a b : fid) : bool := sdict_eqb (f_sd a) (f_sd b) && Nat.eqb (f_idx a) (f_idx b).

Record sdstate := { d_window : list (string * fid); d_wsymm : list (string * fid);
                    d_attrs : list (fid * (fid * fid)) (* object -> (.periodic, .symm) *) }.

Fixpoint lookup {V : Type} (k : string) (d : list (string * V)) : option V :=
  match d with
  | [] => None
  | (k', v) :: r => if String.eqb k k' then Some v else lookup k r
  end.
Fixpoint lookup_attr (k : fid) (d : list (fid * (fid * fid))) : option (fid * fid) :=
  match d with
  | [] => None
  | (k', v) :: r => if fid_eqb k k' then Some v else lookup_attr k r
  end.
(* last assignment wins: new bindings are put in front *)
Definition register (names : list string) (f : fid) (d : list (string * fid)) : list (string * fid) :=
  map (fun nm => (nm, f)) names ++ d.

(* one iteration of the outer loop of _generate_window_strategies *)
Definition gen_step (st : sdstate) (ie : nat * wentry) : sdstate :=
  let (i, e) := ie in
  let sname := hd ""%string (w_names e) in
  let w1 := register (w_names e) (FId Window i) (d_window st) in
  let s1 := if w_distinct e then register (w_names e) (FId Wsymm i) (d_wsymm st)
            else match lookup sname w1 with
                 | Some f => register (w_names e) f (d_wsymm st)     (* wsymm[names] = window[sname]; break *)
                 | None => d_wsymm st
                 end in
  match lookup sname w1, lookup sname s1 with
  | Some wp, Some ws =>
      {| d_window := w1; d_wsymm := s1;
         d_attrs := (wp, (wp, ws)) :: (ws, (wp, ws)) :: d_attrs st |}
  | _, _ => {| d_window := w1; d_wsymm := s1; d_attrs := d_attrs st |}
  end.

Fixpoint enumerate_from {A : Type} (i : nat) (l : list A) : list (nat * A) :=
  match l with [] => [] | x :: r => (i, x) :: enumerate_from (S i) r end.

Definition gen_strategies (table : list wentry) : sdstate :=
  fold_left gen_step (enumerate_from 0 table) {| d_window := []; d_wsymm := []; d_attrs := [] |}.

(* what calling a function object computes *)
Definition fid_template (tw ts : template) (f : fid) : template :=
  match f_sd f with Window => tw | Wsymm => ts end.

Definition default_alpha (L : libm) (e : wentry) : option pyval :=
  match w_default e with
  | Some d => wevalF L d 0 0 None
  | None => None
  end.

(* sd[name](size) / sd[name](size, alpha): None = KeyError or an exception while evaluating *)
Definition call (L : libm) (tw ts : template) (table : list wentry) (sd : sdict) (name : string)
                (size : Z) (alpha : option pyval) : option (list pyval) :=
  let st := gen_strategies table in
  match lookup name (match sd with Window => d_window st | Wsymm => d_wsymm st end) with
  | None => None
  | Some f =>
      match nth_error table (f_idx f) with
      | None => None
      | Some e =>
          match w_default e, alpha with
          | None, Some _ => None                                   (* TypeError: unexpected argument *)
          | _, _ =>
              let a := match alpha with Some v => Some v | None => default_alpha L e end in
              sequence (winF L (fid_template tw ts f) (w_formula e) size a)
          end
      end
  end.
