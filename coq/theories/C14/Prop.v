(* C14 - Window functions obey their periodic/symmetric, symmetry and overlap contracts.
   Statements only, each closed by [exact] from the Proofs files and followed by its assumptions.
   All statements are about Gen_Windows.v, which harness/C14_translate.py regenerates from
   audiolazy/lazy_analysis.py on every run: win_table (formulas, names, distinct, default alpha),
   tmpl_window, tmpl_wsymm (the two code templates). *)
From Coq Require Import List Bool ZArith Reals String.
From Coq Require Floats.PrimFloat.   (* not imported: Print Assumptions then shows the primitives with their full names *)
From AL Require Import C14.Model C14.Gen_Windows C14.Spec C14.Proofs_Gen C14.Proofs_R C14.Proofs_Cola C14.Proofs_ColaGen C14.Proofs_Ex.
Import ListNotations.

(* ================= 1. periodic = prefix of symmetric, EXACTLY (any evaluator, so also in binary64) ========= *)

(* For every formula f, every way [ev] of evaluating a formula at (n, size) - reals, floats with any libm -
   and every size >= 1: the list built by window._code_template is the list of the first size elements of the
   one built by wsymm._code_template for size+1. *)
Theorem C14_periodic_is_prefix_of_symm :
  forall (A : Type) (ev : wexpr -> Z -> Z -> A) (f : wexpr) (size : Z), (1 <= size)%Z ->
  win_gen ev tmpl_window f size = firstn (Z.to_nat size) (win_gen ev tmpl_wsymm f (size + 1)).
Proof. exact @periodic_is_prefix_of_symm. Qed.
Print Assumptions C14_periodic_is_prefix_of_symm.

(* The same through the two dictionaries built by the model of _generate_window_strategies, in Python's
   int/float arithmetic with UNINTERPRETED cos/sin/pow (any libm L), for every strategy name and alias
   (including the non-distinct rect family, where wsymm[name] is window[name]), default or explicit alpha:
   whenever both calls return, window[name](size) == wsymm[name](size+1)[:size] bit for bit. *)
Theorem C14_call_prefix :
  forall (L : libm) (name : string) (size : Z) (alpha : option pyval) (w s : list pyval),
  In name all_names -> (1 <= size)%Z ->
  call L tmpl_window tmpl_wsymm win_table Window name size alpha = Some w ->
  call L tmpl_window tmpl_wsymm win_table Wsymm name (size + 1) alpha = Some s ->
  w = firstn (Z.to_nat size) s.
Proof. exact call_prefix. Qed.
Print Assumptions C14_call_prefix.

(* lengths: sd[name](size) has size samples *)
Theorem C14_call_length :
  forall (L : libm) (name : string) (sd : sdict) (size : Z) (alpha : option pyval) (w : list pyval),
  In name all_names ->
  call L tmpl_window tmpl_wsymm win_table sd name size alpha = Some w ->
  List.length w = Z.to_nat size.
Proof. exact call_length. Qed.
Print Assumptions C14_call_length.

Theorem C14_window_length : forall (A : Type) (ev : wexpr -> Z -> Z -> A) f size,
  List.length (win_gen ev tmpl_window f size) = Z.to_nat size.
Proof. exact @window_length. Qed.
Print Assumptions C14_window_length.

Theorem C14_wsymm_length : forall (A : Type) (ev : wexpr -> Z -> Z -> A) f size,
  List.length (win_gen ev tmpl_wsymm f size) = Z.to_nat size.
Proof. exact @wsymm_length. Qed.
Print Assumptions C14_wsymm_length.

(* wsymm.X(1) == [1.0] for every name (default alpha; any alpha where there is one) *)
Theorem C14_wsymm_one :
  forall (L : libm) (name : string) (alpha : option pyval),
  In name all_names -> (alpha = None \/ name = "blackman"%string \/ name = "cos"%string) ->
  call L tmpl_window tmpl_wsymm win_table Wsymm name 1 alpha = Some [PFlt PrimFloat.one].
Proof. exact call_wsymm_one. Qed.
Print Assumptions C14_wsymm_one.

(* histories: the result of a call is the per-call model value whatever was called before or after it
   (the model is stateless; the hist family compares every call of a history with it) *)
Theorem C14_calls_independent : forall (L : libm) (pre : list callargs) (a : callargs) (post : list callargs),
  nth_error (run_history L (pre ++ a :: post)) (List.length pre) = Some (run_call L a).
Proof. exact calls_independent. Qed.
Print Assumptions C14_calls_independent.

(* ================= 2. the dictionaries: aliases and cross references ================= *)

(* for every name of every row, in both dictionaries: the object exists, aliases are the primary's object,
   window[n].symm is wsymm[n], wsymm[n].periodic is window[n], .periodic/.symm of the own kind is the object
   itself; names are pairwise different (decided by computation on the translated table) *)
Theorem C14_alias_table_ok : alias_ok win_table = true.
Proof. exact alias_table_ok. Qed.
Print Assumptions C14_alias_table_ok.

(* every name leads, in each dictionary, to a function built from its own row and the right template *)
Theorem C14_lookups_ok : forallb (fun nm => lookup_ok Window nm && lookup_ok Wsymm nm) all_names = true.
Proof. exact lookups_ok. Qed.
Print Assumptions C14_lookups_ok.

(* the rows the theorems below talk about are all the rows of the table *)
Theorem C14_table_rows : win_table = [e_hann; e_hamming; e_rect; e_bartlett; e_triangular; e_blackman; e_cos].
Proof. exact table_rows. Qed.
Print Assumptions C14_table_rows.

(* ================= 3. over the reals: closed forms ================= *)
Open Scope R_scope.

(* For every row: the list computed from the translated template and formula is the documented one
   (Spec.doc_window / doc_wsymm of the documented n-th sample), for ALL sizes and alphas.
   cos: abs(sin(pi n/size)) ** alpha is [sin(pi n/size)]^alpha on the whole index range. *)
Theorem C14_closed_forms : forall size a,
  (winR tmpl_window f_hann size a = doc_window doc_hann size /\
   winR tmpl_wsymm f_hann size a = doc_wsymm doc_hann size) /\
  (winR tmpl_window f_hamming size a = doc_window doc_hamming size /\
   winR tmpl_wsymm f_hamming size a = doc_wsymm doc_hamming size) /\
  winR tmpl_window f_rect size a = doc_window doc_rect size /\
  (winR tmpl_window f_bartlett size a = doc_window doc_bartlett size /\
   winR tmpl_wsymm f_bartlett size a = doc_wsymm doc_bartlett size) /\
  (winR tmpl_window f_triangular size a = doc_window doc_triangular size /\
   winR tmpl_wsymm f_triangular size a = doc_wsymm doc_triangular size) /\
  (winR tmpl_window f_blackman size a = doc_window (doc_blackman a) size /\
   winR tmpl_wsymm f_blackman size a = doc_wsymm (doc_blackman a) size) /\
  (winR tmpl_window f_cos size a = doc_window (doc_cos a) size /\
   winR tmpl_wsymm f_cos size a = doc_wsymm (doc_cos a) size).
Proof. exact closed_forms. Qed.
Print Assumptions C14_closed_forms.

(* ================= 4. over the reals: samples in [0,1], all sizes ================= *)

(* periodic windows, every row; alpha_dom: blackman -1/4 <= alpha <= 1/4, cos 0 <= alpha, else no condition.
   The bound on the blackman alpha cannot be dropped: see C14_ex_alpha_dom (alpha = 1/2 gives a sample -1/8). *)
Theorem C14_range01 : forall e size a, In e win_table -> alpha_dom e a ->
  all01 (winR (row_template e Window) (w_formula e) size a).
Proof. exact row_range01. Qed.
Print Assumptions C14_range01.

(* calling without alpha is covered: the default of every alpha parameter is inside the domain of its row *)
Theorem C14_default_alpha_in_dom : forall e d, In e win_table -> w_default e = Some d ->
  alpha_dom e (wevalR d 0 0 0).
Proof. exact default_alpha_in_dom. Qed.
Print Assumptions C14_default_alpha_in_dom.

(* the same for the symmetric windows *)
Theorem C14_range01_wsymm : forall e size a, In e win_table -> alpha_dom e a ->
  all01 (winR (row_template e Wsymm) (w_formula e) size a).
Proof. exact row_range01_wsymm. Qed.
Print Assumptions C14_range01_wsymm.

(* ================= 5. over the reals: the symmetric windows are symmetric, all sizes ================= *)

(* symmetric l := l = rev l; for the non-distinct rect family wsymm[name] is the periodic function *)
Theorem C14_symmetric : forall e size a, In e win_table ->
  symmetric (winR (row_template e Wsymm) (w_formula e) size a).
Proof. exact row_symmetric. Qed.
Print Assumptions C14_symmetric.

(* wsymm of size 1 is [1] over the reals too *)
Theorem C14_wsymm_one_R : forall f a, winR tmpl_wsymm f 1 a = [1].
Proof. exact winR_wsymm_1. Qed.
Print Assumptions C14_wsymm_one_R.

(* ================= 6. constant overlap-add ================= *)
(* cola l hop m C: l has m*hop samples and for every n < hop: sum_{k<m} l[n + k*hop] = C. *)

(* hop = size/2, every even size 2h: hann 1, hamming 1.08, bartlett 1; rectangular: any hop, any m *)
Theorem C14_cola_half : forall h a,
  cola (winR tmpl_window f_hann (Z.of_nat (2 * h)) a) h 2 1 /\
  cola (winR tmpl_window f_hamming (Z.of_nat (2 * h)) a) h 2 (108 / 100) /\
  cola (winR tmpl_window f_bartlett (Z.of_nat (2 * h)) a) h 2 1 /\
  (forall m, cola (winR tmpl_window f_rect (Z.of_nat (m * h)) a) h m (INR m)).
Proof. exact cola_half. Qed.
Print Assumptions C14_cola_half.

(* hop = size/4, every size 4h: hann 2, hamming 2.16, blackman 2(1 - alpha) for every alpha *)
Theorem C14_cola_quarter : forall h a,
  cola (winR tmpl_window f_hann (Z.of_nat (4 * h)) a) h 4 2 /\
  cola (winR tmpl_window f_hamming (Z.of_nat (4 * h)) a) h 4 (216 / 100) /\
  cola (winR tmpl_window f_blackman (Z.of_nat (4 * h)) a) h 4 (2 * (1 - a)).
Proof. exact cola_quarter. Qed.
Print Assumptions C14_cola_quarter.

(* beyond the property text: ANY number m of overlapping copies (hop = size/m), every size m*h:
   hann m/2 and hamming 0.54 m for m >= 2, blackman m(1-alpha)/2 for m >= 3, every alpha
   (finite trigonometric sums: sum_{k<m} cos(t + 2 pi k/m) = 0) *)
Theorem C14_cola_any : forall h m a,
  ((2 <= m)%nat -> cola (winR tmpl_window f_hann (Z.of_nat (m * h)) a) h m (INR m / 2)) /\
  ((2 <= m)%nat -> cola (winR tmpl_window f_hamming (Z.of_nat (m * h)) a) h m (INR m * (54 / 100))) /\
  ((3 <= m)%nat -> cola (winR tmpl_window f_blackman (Z.of_nat (m * h)) a) h m (INR m * ((1 - a) / 2))).
Proof. exact cola_any. Qed.
Print Assumptions C14_cola_any.

(* ================= non-vacuity / concrete instances ================= *)
Close Scope R_scope.

(* the float model really computes: window.bartlett(4) and wsymm.bartlett(5) with NO libm at all *)
Example C14_ex_bartlett_floats :
  let L := {| lcos := fun _ => PrimFloat.nan; lsin := fun _ => PrimFloat.nan; lpow := fun _ _ => PrimFloat.nan |} in
  let f0 := PrimFloat.zero in let f1 := PrimFloat.one in let fh := PrimFloat.div PrimFloat.one PrimFloat.two in
  call L tmpl_window tmpl_wsymm win_table Window "bartlett" 4 None
    = Some [PFlt f0; PFlt fh; PFlt f1; PFlt fh] /\
  call L tmpl_window tmpl_wsymm win_table Wsymm "bartlett" 5 None
    = Some [PFlt f0; PFlt fh; PFlt f1; PFlt fh; PFlt f0] /\
  call L tmpl_window tmpl_wsymm win_table Wsymm "dirichlet" 3 None
    = Some [PFlt f1; PFlt f1; PFlt f1] /\
  In "hanning"%string all_names.
Proof. exact ex_bartlett_floats. Qed.
Print Assumptions C14_ex_bartlett_floats.

(* hypotheses of C14_range01 are satisfiable, and the alpha bound of blackman cannot be dropped:
   for alpha = 1/2 the sample n = 1 of window.blackman(6) is -1/8 *)
Example C14_ex_alpha_dom : alpha_dom e_blackman (4 / 25)%R /\ alpha_dom e_cos 1%R /\ alpha_dom e_hann 0%R /\
  nth 1 (winR tmpl_window f_blackman 6 (1 / 2)%R) 0%R = (- 1 / 8)%R.
Proof. exact ex_alpha_dom. Qed.
Print Assumptions C14_ex_alpha_dom.

(* the overlap-add statement is about real windows: window.hann(4) over the reals is [0; 1/2; 1; 1/2] *)
Example C14_ex_hann4 : winR tmpl_window f_hann 4 0%R = [0; 1 / 2; 1; 1 / 2]%R.
Proof. exact ex_hann4. Qed.
Print Assumptions C14_ex_hann4.
