(* C14 - overlap-add beyond the property text: every number m >= 2 (hann, hamming) or m >= 3 (blackman) of
   overlapping copies, through the finite trigonometric sum  sum_{k<m} cos(t + k d) = 0  when m d is a multiple
   of 2 pi and sin(d/2) <> 0. *)
From Coq Require Import List Bool ZArith Reals Lia Lra String.
From AL Require Import C14.Model C14.Gen_Windows C14.Spec C14.Proofs_Gen C14.Proofs_R C14.Proofs_Cola.
Import ListNotations.
Open Scope R_scope.

Lemma sin_diff a b : sin (a + b) - sin (a - b) = 2 * cos a * sin b.
Proof. rewrite sin_plus, sin_minus. ring. Qed.

(* telescoping: 2 sin(d/2) * sum_{k<m} cos(t + k d) = sin(t + (m - 1/2) d) - sin(t - d/2) *)
Lemma cos_sum_telescope t d m :
  2 * sin (d / 2) * rsum (fun k => cos (t + INR k * d)) m = sin (t + (INR m - 1 / 2) * d) - sin (t - d / 2).
Proof.
  induction m as [|m IH].
  - cbn [rsum INR]. replace (t + (0 - 1 / 2) * d) with (t - d / 2) by field. ring.
  - cbn [rsum]. rewrite Rmult_plus_distr_l, IH, S_INR.
    replace (2 * sin (d / 2) * cos (t + INR m * d)) with (2 * cos (t + INR m * d) * sin (d / 2)) by ring.
    rewrite <- sin_diff.
    replace (t + INR m * d + d / 2) with (t + (INR m + 1 - 1 / 2) * d) by field.
    replace (t + INR m * d - d / 2) with (t + (INR m - 1 / 2) * d) by field.
    ring.
Qed.

Lemma cos_sum_zero t d m j :
  sin (d / 2) <> 0 -> INR m * d = 2 * INR j * PI ->
  rsum (fun k => cos (t + INR k * d)) m = 0.
Proof.
  intros Hs Hp.
  assert (E : 2 * sin (d / 2) * rsum (fun k => cos (t + INR k * d)) m = 0).
  { rewrite cos_sum_telescope.
    replace (t + (INR m - 1 / 2) * d) with (t - d / 2 + 2 * INR j * PI) by (rewrite <- Hp; field).
    rewrite sin_period. ring. }
  apply Rmult_integral in E. destruct E as [E|E]; [|exact E].
  apply Rmult_integral in E. destruct E as [E|E]; [lra|contradiction].
Qed.

Lemma sin_PI_over_pos x : 0 < x < PI -> sin x <> 0.
Proof. intros [H0 H1]. apply Rgt_not_eq. now apply sin_gt_0. Qed.

(* first harmonic: d = 2 pi / m, m >= 2 *)
Lemma cos_sum_first t m : (2 <= m)%nat -> rsum (fun k => cos (t + INR k * (2 * PI / INR m))) m = 0.
Proof.
  intro Hm. assert (2 <= INR m) by (replace 2 with (INR 2) by (cbn; ring); now apply le_INR).
  apply cos_sum_zero with 1%nat.
  - apply sin_PI_over_pos. replace (2 * PI / INR m / 2) with (PI / INR m) by (field; lra).
    pose proof PI_RGT_0. split.
    + apply Rdiv_lt_0_compat; lra.
    + apply Rmult_lt_reg_r with (INR m); [lra|]. unfold Rdiv. rewrite Rmult_assoc, Rinv_l by lra. nra.
  - cbn [INR]. field. lra.
Qed.

(* second harmonic: d = 4 pi / m, m >= 3 *)
Lemma cos_sum_second t m : (3 <= m)%nat -> rsum (fun k => cos (t + INR k * (4 * PI / INR m))) m = 0.
Proof.
  intro Hm. assert (3 <= INR m) by (replace 3 with (INR 3) by (cbn; ring); now apply le_INR).
  apply cos_sum_zero with 2%nat.
  - apply sin_PI_over_pos. replace (4 * PI / INR m / 2) with (2 * PI / INR m) by (field; lra).
    pose proof PI_RGT_0. split.
    + apply Rdiv_lt_0_compat; lra.
    + apply Rmult_lt_reg_r with (INR m); [lra|]. unfold Rdiv. rewrite Rmult_assoc, Rinv_l by lra. nra.
  - cbn [INR]. field. lra.
Qed.

Lemma rsum_affine (c b : R) (g : nat -> R) m :
  rsum (fun k => c + b * g k) m = INR m * c + b * rsum g m.
Proof.
  induction m as [|m IH]; [cbn; ring|]. cbn [rsum]. rewrite IH, S_INR. ring.
Qed.

Lemma angle_first x k H m : 0 < H -> 0 < m ->
  2 * PI * (x + k * H) / (m * H) = 2 * PI * x / (m * H) + k * (2 * PI / m).
Proof. intros. field. lra. Qed.
Lemma angle_second x k H m : 0 < H -> 0 < m ->
  4 * PI * (x + k * H) / (m * H) = 4 * PI * x / (m * H) + k * (4 * PI / m).
Proof. intros. field. lra. Qed.

Lemma INR_ge m n : (n <= m)%nat -> INR n <= INR m.
Proof. apply le_INR. Qed.

(* hann and hamming: any m >= 2 overlapping copies (hop = size/m) *)
Lemma hann_cola_any h m a : (2 <= m)%nat ->
  cola (winR tmpl_window f_hann (Z.of_nat (m * h)) a) h m (INR m / 2).
Proof.
  intro Hm. destruct (hann_closed_form (Z.of_nat (m * h)) a) as [-> _]. apply cola_intro. intros n Hn.
  destruct (pos_INR_hop n h Hn) as [HH Hx].
  assert (0 < INR m) by (apply lt_0_INR; lia).
  unfold doc_hann.
  rewrite (rsum_ext _ (fun k => 1 / 2 + (- (1 / 2)) * cos (2 * PI * INR n / (INR m * INR h) + INR k * (2 * PI / INR m)))).
  - rewrite rsum_affine, cos_sum_first by exact Hm. field.
  - intros k _. rewrite angle_first by assumption. ring.
Qed.

Lemma hamming_cola_any h m a : (2 <= m)%nat ->
  cola (winR tmpl_window f_hamming (Z.of_nat (m * h)) a) h m (INR m * (54 / 100)).
Proof.
  intro Hm. destruct (hamming_closed_form (Z.of_nat (m * h)) a) as [-> _]. apply cola_intro. intros n Hn.
  destruct (pos_INR_hop n h Hn) as [HH Hx].
  assert (0 < INR m) by (apply lt_0_INR; lia).
  unfold doc_hamming.
  rewrite (rsum_ext _ (fun k => 54 / 100 + (- (46 / 100)) * cos (2 * PI * INR n / (INR m * INR h) + INR k * (2 * PI / INR m)))).
  - rewrite rsum_affine, cos_sum_first by exact Hm. field.
  - intros k _. rewrite angle_first by assumption. ring.
Qed.

Lemma rsum_plus f g m : rsum (fun k => f k + g k) m = rsum f m + rsum g m.
Proof. induction m as [|m IH]; [cbn; ring|]. cbn [rsum]. rewrite IH. ring. Qed.

(* blackman: any m >= 3 overlapping copies, every alpha *)
Lemma blackman_cola_any h m a : (3 <= m)%nat ->
  cola (winR tmpl_window f_blackman (Z.of_nat (m * h)) a) h m (INR m * ((1 - a) / 2)).
Proof.
  intro Hm. destruct (blackman_closed_form (Z.of_nat (m * h)) a) as [-> _]. apply cola_intro. intros n Hn.
  destruct (pos_INR_hop n h Hn) as [HH Hx].
  assert (0 < INR m) by (apply lt_0_INR; lia).
  unfold doc_blackman.
  rewrite (rsum_ext _ (fun k =>
     ((1 - a) / 2 + (- (1 / 2)) * cos (2 * PI * INR n / (INR m * INR h) + INR k * (2 * PI / INR m)))
     + (0 + a / 2 * cos (4 * PI * INR n / (INR m * INR h) + INR k * (4 * PI / INR m))))).
  - rewrite rsum_plus, !rsum_affine, cos_sum_first, cos_sum_second by lia. ring.
  - intros k _. rewrite angle_first, angle_second by assumption. ring.
Qed.

Lemma cola_any h m a :
  ((2 <= m)%nat -> cola (winR tmpl_window f_hann (Z.of_nat (m * h)) a) h m (INR m / 2)) /\
  ((2 <= m)%nat -> cola (winR tmpl_window f_hamming (Z.of_nat (m * h)) a) h m (INR m * (54 / 100))) /\
  ((3 <= m)%nat -> cola (winR tmpl_window f_blackman (Z.of_nat (m * h)) a) h m (INR m * ((1 - a) / 2))).
Proof.
  split; [apply hann_cola_any|]. split; [apply hamming_cola_any|apply blackman_cola_any].
Qed.
