(* C14 - enclosure goals: one observed binary64 sample against the real value of the DOCUMENTED closed form
   (Spec.doc_*, independent of the translated table; C14_closed_forms proves that the translated formulas are
   these closed forms).  The harness writes goals [encl w n size v tol] (v, alpha: exact rationals) into
   build/C14/encl_*.v and closes each with [encl_tac], i.e. with the interval tactic. *)
From Coq Require Import Reals ZArith Lra.
From Interval Require Import Tactic.
From AL Require Import C14.Model C14.Spec.
Open Scope R_scope.

Definition encl (w : R -> R -> R) (n size : Z) (v tol : R) : Prop :=
  Rabs (w (IZR n) (IZR size) - v) <= tol.

Lemma Rpow_gen_pos x a : 0 < x -> Rpow_gen x a = Rpower x a.
Proof. intro H. unfold Rpow_gen. destruct (Req_EM_T x 0); [lra|reflexivity]. Qed.

Ltac encl_tac :=
  unfold encl, doc_hann, doc_hamming, doc_rect, doc_bartlett, doc_triangular, doc_blackman, doc_cos;
  repeat match goal with
         | |- context [Rpow_gen ?x ?a] => rewrite (Rpow_gen_pos x a) by interval
         end;
  interval with (i_prec 64).
