(* C14 - the translated formulas over the reals: closed forms, range [0,1], symmetry of the symmetric windows. *)
From Coq Require Import List Bool ZArith Reals Lia Lra String.
From AL Require Import C14.Model C14.Gen_Windows C14.Spec C14.Proofs_Gen.
Import ListNotations.
Open Scope R_scope.

(* ------------------------------------------------------------------ the real lists, unfolded *)
Lemma winR_window f size a :
  winR tmpl_window f size a = map (fun n => wevalR f (IZR n) (IZR size) a) (zrange size).
Proof. reflexivity. Qed.

Lemma winR_wsymm f size a : size <> 1%Z ->
  winR tmpl_wsymm f size a = map (fun n => wevalR f (IZR n) (IZR (size - 1)) a) (zrange size).
Proof. intro H. unfold winR. now rewrite win_wsymm. Qed.

Lemma winR_wsymm_1 f a : winR tmpl_wsymm f 1 a = [1].
Proof. unfold winR. rewrite win_wsymm_1. cbn. f_equal. lra. Qed.

(* ------------------------------------------------------------------ pointwise closed forms *)
Lemma hann_pt n s a : wevalR f_hann n s a = doc_hann n s.
Proof. reflexivity. Qed.

Lemma hamming_pt n s a : wevalR f_hamming n s a = doc_hamming n s.
Proof. unfold doc_hamming. cbn. lra. Qed.

Lemma rect_pt n s a : wevalR f_rect n s a = doc_rect n s.
Proof. unfold doc_rect. cbn. lra. Qed.

Lemma bartlett_pt n s a : wevalR f_bartlett n s a = doc_bartlett n s.
Proof. unfold doc_bartlett. cbn. replace (2 / 1) with 2 by lra. reflexivity. Qed.

Lemma triangular_pt n s a : wevalR f_triangular n s a = doc_triangular n s.
Proof. unfold doc_triangular. cbn. replace (2 / 1) with 2 by lra. reflexivity. Qed.

Lemma blackman_pt n s a : wevalR f_blackman n s a = doc_blackman a n s.
Proof. unfold doc_blackman. cbn. lra. Qed.

Lemma sin_frac_nonneg n s : 0 <= n <= s -> 0 < s -> 0 <= sin (PI * n / s).
Proof.
  intros [H0 H1] Hs. apply sin_ge_0.
  - apply Rmult_le_pos; [|left; now apply Rinv_0_lt_compat].
    apply Rmult_le_pos; [left; apply PI_RGT_0|assumption].
  - replace PI with (PI * s / s) at 2 by (field; lra).
    unfold Rdiv. apply Rmult_le_compat_r; [left; now apply Rinv_0_lt_compat|].
    apply Rmult_le_compat_l; [left; apply PI_RGT_0|assumption].
Qed.

Lemma cos_pt n s a : 0 <= n <= s -> 0 < s -> wevalR f_cos n s a = doc_cos a n s.
Proof.
  intros Hn Hs. unfold doc_cos. cbn. f_equal. apply Rabs_pos_eq. now apply sin_frac_nonneg.
Qed.

(* ------------------------------------------------------------------ list-level closed forms *)
Lemma IZR_in_range z c : In z (zrange c) -> 0 <= IZR z <= IZR c - 1.
Proof.
  intro H. apply In_zrange in H. split; [apply IZR_le; lia|].
  replace (IZR c - 1) with (IZR (c - 1)) by (rewrite minus_IZR; reflexivity). apply IZR_le. lia.
Qed.

Lemma closed_form_window f w size a :
  (forall n, 0 <= n <= IZR size - 1 -> wevalR f n (IZR size) a = w n (IZR size)) ->
  winR tmpl_window f size a = doc_window w size.
Proof.
  intro H. rewrite winR_window. unfold doc_window. apply map_ext_in. intros z Hz.
  apply H. now apply IZR_in_range.
Qed.

Lemma closed_form_wsymm f w size a :
  (forall n, 1 <= IZR (size - 1) -> 0 <= n <= IZR (size - 1) ->
             wevalR f n (IZR (size - 1)) a = w n (IZR (size - 1))) ->
  winR tmpl_wsymm f size a = doc_wsymm w size.
Proof.
  intro H. unfold doc_wsymm. destruct (size =? 1)%Z eqn:E.
  - apply Z.eqb_eq in E. subst. apply winR_wsymm_1.
  - apply Z.eqb_neq in E. rewrite winR_wsymm by exact E. apply map_ext_in. intros z Hz.
    pose proof (proj1 (In_zrange z size) Hz) as Hr.
    apply H; [apply IZR_le; lia|]. apply IZR_in_range in Hz. rewrite minus_IZR. lra.
Qed.

(* ------------------------------------------------------------------ range [0,1] *)
Lemma hann_01 n s : 0 <= doc_hann n s <= 1.
Proof. unfold doc_hann. pose proof (COS_bound (2 * PI * n / s)). lra. Qed.

Lemma hamming_01 n s : 0 <= doc_hamming n s <= 1.
Proof. unfold doc_hamming. pose proof (COS_bound (2 * PI * n / s)). lra. Qed.

Lemma rect_01 n s : 0 <= doc_rect n s <= 1.
Proof. unfold doc_rect. lra. Qed.

Lemma tri_core x s d : 0 < s -> s <= d -> 0 <= x <= s / 2 -> 0 <= 1 - 2 / d * x <= 1.
Proof.
  intros Hs Hd Hx.
  assert (0 < d) by lra.
  assert (0 <= 2 / d * x).
  { apply Rmult_le_pos; [|lra]. apply Rmult_le_pos; [lra|]. left. now apply Rinv_0_lt_compat. }
  assert (2 / d * x <= 1).
  { apply Rmult_le_reg_l with d; [assumption|]. field_simplify; lra. }
  lra.
Qed.

Lemma abs_half n s : 0 <= n <= s -> 0 <= Rabs (n - s / 2) <= s / 2.
Proof. intro H. split; [apply Rabs_pos|]. apply Rabs_le. lra. Qed.

Lemma bartlett_01 n s : 0 < s -> 0 <= n <= s -> 0 <= doc_bartlett n s <= 1.
Proof. intros Hs Hn. unfold doc_bartlett. apply tri_core with s; [lra|lra|now apply abs_half]. Qed.

Lemma triangular_01 n s : 0 < s -> 0 <= n <= s -> 0 <= doc_triangular n s <= 1.
Proof. intros Hs Hn. unfold doc_triangular. apply tri_core with s; [lra|lra|now apply abs_half]. Qed.

(* with c = cos(2 pi n/size): sample = (1-c)(1/2 - alpha(1+c)) and 1 - sample = (1+c)(1/2 + alpha(1-c)) *)
Lemma blackman_01 a n s : -1 / 4 <= a <= 1 / 4 -> 0 <= doc_blackman a n s <= 1.
Proof.
  intro Ha. unfold doc_blackman.
  replace (4 * PI * n / s) with (2 * (2 * PI * n / s)) by (unfold Rdiv; ring).
  rewrite cos_2a_cos.
  pose proof (COS_bound (2 * PI * n / s)) as [Hc1 Hc2].
  set (c := cos (2 * PI * n / s)) in *.
  split.
  - replace ((1 - a) / 2 - 1 / 2 * c + a / 2 * (2 * c * c - 1))
      with ((1 - c) * (1 / 2 - a * (1 + c))) by field.
    apply Rmult_le_pos; [lra|]. nra.
  - apply Rminus_le.
    replace ((1 - a) / 2 - 1 / 2 * c + a / 2 * (2 * c * c - 1) - 1)
      with (- ((1 + c) * (1 / 2 + a * (1 - c)))) by field.
    assert (0 <= (1 + c) * (1 / 2 + a * (1 - c))); [|lra].
    apply Rmult_le_pos; [lra|]. nra.
Qed.

Lemma Rpow_gen_01 x a : 0 <= x <= 1 -> 0 <= a -> 0 <= Rpow_gen x a <= 1.
Proof.
  intros Hx Ha. unfold Rpow_gen.
  destruct (Req_EM_T x 0) as [E|E].
  - destruct (Req_EM_T a 0); lra.
  - unfold Rpower. split; [left; apply exp_pos|].
    rewrite <- exp_0.
    assert (ln x <= 0). { rewrite <- ln_1. destruct (Req_dec x 1) as [->|N]; [lra|]. left. apply ln_increasing; lra. }
    destruct (Req_dec (a * ln x) 0) as [->|N]; [lra|]. left. apply exp_increasing. nra.
Qed.

Lemma cos_01 a n s : 0 <= a -> 0 < s -> 0 <= n <= s -> 0 <= doc_cos a n s <= 1.
Proof.
  intros Ha Hs Hn. unfold doc_cos. apply Rpow_gen_01; [|assumption].
  split; [now apply sin_frac_nonneg|]. apply SIN_bound.
Qed.

Lemma all01_doc_window w size :
  (forall n, 0 <= n <= IZR size - 1 -> 0 <= w n (IZR size) <= 1) -> all01 (doc_window w size).
Proof.
  intro H. unfold all01, doc_window. apply Forall_forall. intros x Hx.
  apply in_map_iff in Hx as (z & <- & Hz). apply H. now apply IZR_in_range.
Qed.

Lemma all01_doc_wsymm w size :
  (forall n, 1 <= IZR (size - 1) -> 0 <= n <= IZR (size - 1) -> 0 <= w n (IZR (size - 1)) <= 1) ->
  all01 (doc_wsymm w size).
Proof.
  intro H. unfold all01, doc_wsymm. destruct (size =? 1)%Z eqn:E.
  - repeat constructor; lra.
  - apply Z.eqb_neq in E. apply Forall_forall. intros x Hx.
    apply in_map_iff in Hx as (z & <- & Hz).
    pose proof (proj1 (In_zrange z size) Hz) as Hr.
    apply H; [apply IZR_le; lia|]. apply IZR_in_range in Hz. rewrite minus_IZR. lra.
Qed.

(* ------------------------------------------------------------------ symmetry *)
Lemma rev_map_seq {A} (g : nat -> A) m :
  rev (map g (seq 0 m)) = map (fun k => g (m - 1 - k)%nat) (seq 0 m).
Proof.
  induction m as [|m IH]; [reflexivity|].
  transitivity (rev (map g (seq 0 m ++ [m]))); [now rewrite seq_S|].
  rewrite map_app, rev_app_distr. cbn [map rev app].
  rewrite IH. cbn [seq map]. f_equal; [f_equal; lia|].
  rewrite <- seq_shift, map_map. apply map_ext_in. intros k Hk. apply in_seq in Hk. f_equal. lia.
Qed.

Lemma symmetric_doc_wsymm w size :
  (forall n s, 1 <= s -> 0 <= n <= s -> w n s = w (s - n) s) -> symmetric (doc_wsymm w size).
Proof.
  intro H. unfold symmetric, doc_wsymm. destruct (size =? 1)%Z eqn:E; [reflexivity|].
  apply Z.eqb_neq in E. unfold zrange. rewrite map_map, rev_map_seq.
  apply map_ext_in. intros k Hk. apply in_seq in Hk.
  destruct (Z_le_gt_dec size 0) as [Neg|Pos]; [lia|].
  assert (2 <= size)%Z by lia.
  rewrite (H (IZR (Z.of_nat k)) (IZR (size - 1))).
  - f_equal. rewrite <- minus_IZR. f_equal. lia.
  - apply IZR_le. lia.
  - split; apply IZR_le; lia.
Qed.

Lemma cos_2PI_minus x : cos (2 * PI - x) = cos x.
Proof. replace (2 * PI - x) with (- x + 2 * PI) by ring. now rewrite cos_2PI_plus || (rewrite cos_plus, cos_2PI, sin_2PI, cos_neg; ring). Qed.

Lemma hann_sym n s : 1 <= s -> 0 <= n <= s -> doc_hann n s = doc_hann (s - n) s.
Proof.
  intros Hs _. unfold doc_hann.
  replace (2 * PI * (s - n) / s) with (2 * PI - 2 * PI * n / s) by (field; lra).
  now rewrite cos_2PI_minus.
Qed.

Lemma hamming_sym n s : 1 <= s -> 0 <= n <= s -> doc_hamming n s = doc_hamming (s - n) s.
Proof.
  intros Hs _. unfold doc_hamming.
  replace (2 * PI * (s - n) / s) with (2 * PI - 2 * PI * n / s) by (field; lra).
  now rewrite cos_2PI_minus.
Qed.

Lemma rect_sym n s : 1 <= s -> 0 <= n <= s -> doc_rect n s = doc_rect (s - n) s.
Proof. reflexivity. Qed.

Lemma bartlett_sym n s : 1 <= s -> 0 <= n <= s -> doc_bartlett n s = doc_bartlett (s - n) s.
Proof.
  intros _ _. unfold doc_bartlett. replace (s - n - s / 2) with (- (n - s / 2)) by field.
  now rewrite Rabs_Ropp.
Qed.

Lemma triangular_sym n s : 1 <= s -> 0 <= n <= s -> doc_triangular n s = doc_triangular (s - n) s.
Proof.
  intros _ _. unfold doc_triangular. replace (s - n - s / 2) with (- (n - s / 2)) by field.
  now rewrite Rabs_Ropp.
Qed.

Lemma blackman_sym a n s : 1 <= s -> 0 <= n <= s -> doc_blackman a n s = doc_blackman a (s - n) s.
Proof.
  intros Hs _. unfold doc_blackman.
  replace (2 * PI * (s - n) / s) with (2 * PI - 2 * PI * n / s) by (field; lra).
  replace (4 * PI * (s - n) / s) with (2 * PI - (4 * PI * n / s - 2 * PI)) by (field; lra).
  rewrite !cos_2PI_minus.
  replace (4 * PI * n / s - 2 * PI) with (- (2 * PI - 4 * PI * n / s)) by ring.
  now rewrite cos_neg, cos_2PI_minus.
Qed.

Lemma cos_sym a n s : 1 <= s -> 0 <= n <= s -> doc_cos a n s = doc_cos a (s - n) s.
Proof.
  intros Hs _. unfold doc_cos.
  replace (PI * (s - n) / s) with (PI - PI * n / s) by (field; lra).
  now rewrite sin_PI_x.
Qed.

(* ------------------------------------------------------------------ the statements per translated formula *)
(* closed forms: the list computed by the translated template + formula is the documented one *)
Lemma hann_closed_form size a :
  winR tmpl_window f_hann size a = doc_window doc_hann size /\ winR tmpl_wsymm f_hann size a = doc_wsymm doc_hann size.
Proof. split; [apply closed_form_window|apply closed_form_wsymm]; intros; apply hann_pt. Qed.
Lemma hamming_closed_form size a :
  winR tmpl_window f_hamming size a = doc_window doc_hamming size /\
  winR tmpl_wsymm f_hamming size a = doc_wsymm doc_hamming size.
Proof. split; [apply closed_form_window|apply closed_form_wsymm]; intros; apply hamming_pt. Qed.
Lemma rect_closed_form size a : winR tmpl_window f_rect size a = doc_window doc_rect size.
Proof. apply closed_form_window; intros; apply rect_pt. Qed.
Lemma bartlett_closed_form size a :
  winR tmpl_window f_bartlett size a = doc_window doc_bartlett size /\
  winR tmpl_wsymm f_bartlett size a = doc_wsymm doc_bartlett size.
Proof. split; [apply closed_form_window|apply closed_form_wsymm]; intros; apply bartlett_pt. Qed.
Lemma triangular_closed_form size a :
  winR tmpl_window f_triangular size a = doc_window doc_triangular size /\
  winR tmpl_wsymm f_triangular size a = doc_wsymm doc_triangular size.
Proof. split; [apply closed_form_window|apply closed_form_wsymm]; intros; apply triangular_pt. Qed.
Lemma blackman_closed_form size a :
  winR tmpl_window f_blackman size a = doc_window (doc_blackman a) size /\
  winR tmpl_wsymm f_blackman size a = doc_wsymm (doc_blackman a) size.
Proof. split; [apply closed_form_window|apply closed_form_wsymm]; intros; apply blackman_pt. Qed.
Lemma cos_closed_form size a :
  winR tmpl_window f_cos size a = doc_window (doc_cos a) size /\
  winR tmpl_wsymm f_cos size a = doc_wsymm (doc_cos a) size.
Proof.
  split; [apply closed_form_window|apply closed_form_wsymm]; intros; apply cos_pt; lra.
Qed.

(* range: every sample of the periodic window (and of the symmetric one) lies in [0,1] *)
Lemma hann_range01 size a : all01 (winR tmpl_window f_hann size a) /\ all01 (winR tmpl_wsymm f_hann size a).
Proof.
  destruct (hann_closed_form size a) as [-> ->].
  split; [apply all01_doc_window|apply all01_doc_wsymm]; intros; apply hann_01.
Qed.
Lemma hamming_range01 size a : all01 (winR tmpl_window f_hamming size a) /\ all01 (winR tmpl_wsymm f_hamming size a).
Proof.
  destruct (hamming_closed_form size a) as [-> ->].
  split; [apply all01_doc_window|apply all01_doc_wsymm]; intros; apply hamming_01.
Qed.
Lemma rect_range01 size a : all01 (winR tmpl_window f_rect size a).
Proof. rewrite rect_closed_form. apply all01_doc_window; intros; apply rect_01. Qed.
Lemma bartlett_range01 size a : all01 (winR tmpl_window f_bartlett size a) /\ all01 (winR tmpl_wsymm f_bartlett size a).
Proof.
  destruct (bartlett_closed_form size a) as [-> ->].
  split; [apply all01_doc_window|apply all01_doc_wsymm]; intros; apply bartlett_01; lra.
Qed.
Lemma triangular_range01 size a :
  all01 (winR tmpl_window f_triangular size a) /\ all01 (winR tmpl_wsymm f_triangular size a).
Proof.
  destruct (triangular_closed_form size a) as [-> ->].
  split; [apply all01_doc_window|apply all01_doc_wsymm]; intros; apply triangular_01; lra.
Qed.
Lemma blackman_range01 size a : -1 / 4 <= a <= 1 / 4 ->
  all01 (winR tmpl_window f_blackman size a) /\ all01 (winR tmpl_wsymm f_blackman size a).
Proof.
  intro Ha. destruct (blackman_closed_form size a) as [-> ->].
  split; [apply all01_doc_window|apply all01_doc_wsymm]; intros; now apply blackman_01.
Qed.
Lemma cos_range01 size a : 0 <= a ->
  all01 (winR tmpl_window f_cos size a) /\ all01 (winR tmpl_wsymm f_cos size a).
Proof.
  intro Ha. destruct (cos_closed_form size a) as [-> ->].
  split; [apply all01_doc_window|apply all01_doc_wsymm]; intros; apply cos_01; lra.
Qed.

(* symmetry of the symmetric windows: the list equals its reverse *)
Lemma hann_symmetric size a : symmetric (winR tmpl_wsymm f_hann size a).
Proof. destruct (hann_closed_form size a) as [_ ->]. apply symmetric_doc_wsymm, hann_sym. Qed.
Lemma hamming_symmetric size a : symmetric (winR tmpl_wsymm f_hamming size a).
Proof. destruct (hamming_closed_form size a) as [_ ->]. apply symmetric_doc_wsymm, hamming_sym. Qed.
Lemma bartlett_symmetric size a : symmetric (winR tmpl_wsymm f_bartlett size a).
Proof. destruct (bartlett_closed_form size a) as [_ ->]. apply symmetric_doc_wsymm, bartlett_sym. Qed.
Lemma triangular_symmetric size a : symmetric (winR tmpl_wsymm f_triangular size a).
Proof. destruct (triangular_closed_form size a) as [_ ->]. apply symmetric_doc_wsymm, triangular_sym. Qed.
Lemma blackman_symmetric size a : symmetric (winR tmpl_wsymm f_blackman size a).
Proof. destruct (blackman_closed_form size a) as [_ ->]. apply symmetric_doc_wsymm, blackman_sym. Qed.
Lemma cos_symmetric size a : symmetric (winR tmpl_wsymm f_cos size a).
Proof. destruct (cos_closed_form size a) as [_ ->]. apply symmetric_doc_wsymm, cos_sym. Qed.
(* wsymm.rect IS window.rect (not distinct): a constant list *)
Lemma rect_symmetric size a : symmetric (winR tmpl_window f_rect size a).
Proof.
  rewrite rect_closed_form. unfold symmetric, doc_window, doc_rect, zrange.
  rewrite map_map, rev_map_seq. reflexivity.
Qed.

(* ------------------------------------------------------------------ uniformly over the rows of the table *)
Definition alpha_dom (e : wentry) (a : R) : Prop :=
  (e = e_blackman -> -1 / 4 <= a <= 1 / 4) /\ (e = e_cos -> 0 <= a).

Lemma In_table e : In e win_table ->
  e = e_hann \/ e = e_hamming \/ e = e_rect \/ e = e_bartlett \/ e = e_triangular \/ e = e_blackman \/ e = e_cos.
Proof. rewrite table_rows. cbn. intuition auto. Qed.

Lemma row_range01 e size a : In e win_table -> alpha_dom e a ->
  all01 (winR (row_template e Window) (w_formula e) size a).
Proof.
  intros He [Hb Hc]. apply In_table in He.
  destruct He as [->|[->|[->|[->|[->|[->| ->]]]]]]; cbn [row_template w_formula e_hann e_hamming e_rect e_bartlett
     e_triangular e_blackman e_cos].
  - apply hann_range01. - apply hamming_range01. - apply rect_range01. - apply bartlett_range01.
  - apply triangular_range01. - apply blackman_range01; auto. - apply cos_range01; auto.
Qed.

Lemma row_symmetric e size a : In e win_table ->
  symmetric (winR (row_template e Wsymm) (w_formula e) size a).
Proof.
  intros He. apply In_table in He.
  destruct He as [->|[->|[->|[->|[->|[->| ->]]]]]]; cbn [row_template w_formula w_distinct e_hann e_hamming e_rect
     e_bartlett e_triangular e_blackman e_cos].
  - apply hann_symmetric. - apply hamming_symmetric. - apply rect_symmetric. - apply bartlett_symmetric.
  - apply triangular_symmetric. - apply blackman_symmetric. - apply cos_symmetric.
Qed.

Lemma row_range01_wsymm e size a : In e win_table -> alpha_dom e a ->
  all01 (winR (row_template e Wsymm) (w_formula e) size a).
Proof.
  intros He [Hb Hc]. apply In_table in He.
  destruct He as [->|[->|[->|[->|[->|[->| ->]]]]]]; cbn [row_template w_formula w_distinct e_hann e_hamming e_rect
     e_bartlett e_triangular e_blackman e_cos].
  - apply hann_range01. - apply hamming_range01. - apply rect_range01. - apply bartlett_range01.
  - apply triangular_range01. - apply blackman_range01; auto. - apply cos_range01; auto.
Qed.

Lemma closed_forms size a :
  (winR tmpl_window f_hann size a = doc_window doc_hann size /\
   winR tmpl_wsymm f_hann size a = doc_wsymm doc_hann size) /\
  (winR tmpl_window f_hamming size a = doc_window doc_hamming size /\
   winR tmpl_wsymm f_hamming size a = doc_wsymm doc_hamming size) /\
  winR tmpl_window f_rect size a = doc_window doc_rect size /\
  (winR tmpl_window f_bartlett size a = doc_window doc_bartlett size /\
   winR tmpl_wsymm f_bartlett size a = doc_wsymm doc_bartlett size) /\
  (winR tmpl_window f_triangular size a = doc_window doc_triangular size /\
   winR tmpl_wsymm f_triangular size a = doc_wsymm doc_triangular size) /\
  (winR tmpl_window f_blackman size a = doc_window (doc_blackman a) size /\
   winR tmpl_wsymm f_blackman size a = doc_wsymm (doc_blackman a) size) /\
  (winR tmpl_window f_cos size a = doc_window (doc_cos a) size /\
   winR tmpl_wsymm f_cos size a = doc_wsymm (doc_cos a) size).
Proof.
  repeat apply conj; first [apply hann_closed_form|apply hamming_closed_form|apply rect_closed_form
    |apply bartlett_closed_form|apply triangular_closed_form|apply blackman_closed_form|apply cos_closed_form].
Qed.

(* the default value of alpha (params_def) lies inside the domain of its row *)
Lemma default_alpha_in_dom e d : In e win_table -> w_default e = Some d -> alpha_dom e (wevalR d 0 0 0).
Proof.
  intros He Hd. apply In_table in He.
  destruct He as [->|[->|[->|[->|[->|[->| ->]]]]]]; cbn in Hd; try discriminate Hd;
    inversion Hd; subst d; cbn; split; intro H;
    first [lra | apply (f_equal w_names) in H; discriminate H].
Qed.
