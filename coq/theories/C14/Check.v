(* C14 - case records and boolean checkers evaluated by vm_compute on the generated case files. *)
From Coq Require Import List Bool ZArith QArith Qabs String.
From Coq Require Import Floats.PrimFloat Floats.SpecFloat Floats.FloatOps.
From AL Require Import Base.CaseLib C14.Model C14.Gen_Windows C14.Spec.
Import ListNotations.

(* ------------------------------------------------------------------ bit equality of observed samples *)
Definition sf_eqb (a b : spec_float) : bool :=
  match a, b with
  | S754_zero s, S754_zero t => Bool.eqb s t
  | S754_infinity s, S754_infinity t => Bool.eqb s t
  | S754_nan, S754_nan => true
  | S754_finite s m e, S754_finite t m' e' => Bool.eqb s t && Pos.eqb m m' && Z.eqb e e'
  | _, _ => false
  end.
Definition f_biteq (x y : float) : bool := sf_eqb (Prim2SF x) (Prim2SF y).

Definition pyval_eqb (a b : pyval) : bool :=
  match a, b with
  | PInt x, PInt y => Z.eqb x y
  | PFlt x, PFlt y => f_biteq x y
  | PCplx, PCplx => true
  | _, _ => false
  end.
Definition res_eqb (a b : option (list pyval)) : bool := option_eqb (list_eqb pyval_eqb) a b.

(* ------------------------------------------------------------------ libm as observed during the run *)
Fixpoint lk1 (t : list (float * float)) (x : float) : float :=
  match t with
  | [] => nan
  | (k, v) :: r => if (k =? x)%float then v else lk1 r x
  end.
Fixpoint lk2 (t : list (float * float * float)) (x y : float) : float :=
  match t with
  | [] => nan
  | (k1, k2, v) :: r => if (k1 =? x)%float && (k2 =? y)%float then v else lk2 r x y
  end.
Definition oracle (tc ts : list (float * float)) (tp : list (float * float * float)) : libm :=
  {| lcos := lk1 tc; lsin := lk1 ts; lpow := lk2 tp |}.

(* ------------------------------------------------------------------ family win *)
(* sd[name](size[, alpha]) for sd = window, and wsymm[name](size+1[, alpha]), wsymm[name](1[, alpha]);
   c_cos / c_sin: the (argument, result) pairs of the math.cos / math.sin calls the implementation made;
   c_pow: math.pow on the (base, exponent) pairs it needed.  None = the call raised. *)
Record wcase := WC {
  c_name : string; c_size : Z; c_alpha : option pyval;
  c_cos : list (float * float); c_sin : list (float * float); c_pow : list (float * float * float);
  c_win : option (list pyval); c_sym : option (list pyval); c_one : option (list pyval) }.

Definition model_call (c : wcase) (sd : sdict) (size : Z) : option (list pyval) :=
  call (oracle (c_cos c) (c_sin c) (c_pow c)) tmpl_window tmpl_wsymm win_table sd (c_name c) size (c_alpha c).

Definition corr_win (c : wcase) : bool :=
  res_eqb (model_call c Window (c_size c)) (c_win c) &&
  res_eqb (model_call c Wsymm (c_size c + 1)) (c_sym c) &&
  res_eqb (model_call c Wsymm 1) (c_one c).

(* exact value of a binary64 *)
Definition SF2Q (s : spec_float) : option Q :=
  match s with
  | S754_zero _ => Some 0%Q
  | S754_finite sg m e =>
      let v := if (0 <=? e)%Z then inject_Z (Zpos m * 2 ^ e) else (Zpos m # Z.to_pos (2 ^ (- e))) in
      Some (if sg then Qopp v else v)
  | _ => None
  end.
Definition pyval_Q (v : pyval) : option Q :=
  match v with PInt z => Some (inject_Z z) | PFlt f => SF2Q (Prim2SF f) | PCplx => None end.

Definition in01 (v : pyval) : bool :=
  match v with
  | PFlt f => match SF2Q (Prim2SF f) with Some q => Qle_bool 0 q && Qle_bool q 1 | None => false end
  | _ => false
  end.

Definition primary_of (name : string) : option (string * wentry) :=
  match find (fun e => existsb (String.eqb name) (w_names e)) win_table with
  | Some e => Some (hd ""%string (w_names e), e)
  | None => None
  end.

(* the alpha actually in force, as an exact rational (None: no alpha parameter / not a number) *)
Definition alpha_Q (c : wcase) (e : wentry) : option Q :=
  match c_alpha c with
  | Some v => pyval_Q v
  | None => match default_alpha (oracle [] [] []) e with Some v => pyval_Q v | None => None end
  end.

Fixpoint approx_sym (tol : Q) (l r : list pyval) : bool :=
  match l, r with
  | a :: l', b :: r' =>
      match pyval_Q a, pyval_Q b with
      | Some x, Some y => Qle_bool (Qabs (x - y)) tol && approx_sym tol l' r'
      | _, _ => false
      end
  | [], [] => true
  | _, _ => false
  end.

(* overlap-add sums of the observed periodic window: | sum_k w[n + k*hop] - C | <= tol for every n < hop *)
Fixpoint sumq (l : list (option Q)) : option Q :=
  match l with
  | [] => Some 0%Q
  | Some x :: r => match sumq r with Some s => Some (x + s)%Q | None => None end
  | None :: _ => None
  end.
Definition cola_ok (tol : Q) (w : list pyval) (hop m : nat) (C : Q) : bool :=
  forallb (fun n =>
    match sumq (map (fun k => match nth_error w (n + k * hop) with Some v => pyval_Q v | None => None end) (seq 0 m)) with
    | Some s => Qle_bool (Qabs (s - C)) tol
    | None => false
    end) (seq 0 hop).
Definition cola_checks (sname : string) (aq : option Q) (size : Z) (w : list pyval) : bool :=
  forallb (fun m =>
    if (0 <? size)%Z && (size mod m =? 0)%Z then
      match cola_const sname m aq with
      | Some C => cola_ok (size # Pos.pow 2 45) w (Z.to_nat (size / m)) (Z.to_nat m) C
      | None => true
      end
    else true) [2; 3; 4; 8]%Z.

(* What the property text demands of the three observed lists.  The range / symmetry / no-exception demands are
   made only for alpha inside the stated domain (Spec.alpha_ok); the structural ones (lengths, prefix, wsymm(1))
   whenever lists were returned.  Symmetry of the float list is demanded up to size * 2^-45 (2^-20 for a cos
   window with 0 < alpha < 1, where x ** alpha amplifies the rounding of sin(pi) near 0): NEVER bitwise.
   Overlap-add: the hop-shifted sums of the observed periodic window are the constant of Spec.cola_const up to
   size * 2^-45, for hop = size/2, size/3, size/4, size/8 where Spec.cola_const promises one. *)
Definition holds_win (c : wcase) : bool :=
  match primary_of (c_name c) with
  | None => true                                   (* not a strategy name: nothing is promised *)
  | Some (sname, e) =>
      if (c_size c <? 0)%Z then true else          (* sizes below 0: nothing is promised *)
      let aq := alpha_Q c e in
      let dom := match w_default e with
                 | None => match c_alpha c with None => true | Some _ => false end
                 | Some _ => match c_alpha c with
                             | None => true     (* the default alpha is promised to be inside the domain *)
                             | Some _ => match aq with Some a => alpha_ok sname a | None => false end
                             end
                 end in
      let n := Z.to_nat (c_size c) in
      match c_win c, c_sym c, c_one c with
      | Some w, Some s, Some o =>
          Nat.eqb (List.length w) n && Nat.eqb (List.length s) (S n) &&
          list_eqb pyval_eqb w (firstn n s) &&
          list_eqb pyval_eqb o [PFlt 1%float] &&
          (negb dom ||
           (forallb in01 w &&
            approx_sym (sym_tol sname aq (c_size c + 1)) s (rev s) &&
            cola_checks sname aq (c_size c) w))
      | _, _, _ => negb dom || (c_size c <? 1)%Z
      end
  end.

(* ------------------------------------------------------------------ family dict *)
(* the two dictionaries as observed: name -> object number, attributes of every object, and
   [window.symm is wsymm; wsymm.symm is wsymm; window.periodic is window; wsymm.periodic is window] *)
Record dcase := DC {
  dc_name : string;
  dc_window : list (string * nat); dc_wsymm : list (string * nat);
  dc_attrs : list (nat * (option nat * option nat));
  dc_top : list bool }.

Fixpoint nlookup {V : Type} (k : nat) (d : list (nat * V)) : option V :=
  match d with [] => None | (k', v) :: r => if Nat.eqb k k' then Some v else nlookup k r end.

Fixpoint nodup_str (l : list string) : bool :=
  match l with [] => true | x :: r => negb (existsb (String.eqb x) r) && nodup_str r end.

(* observed object number <-> model function object, collected through the names *)
Definition pairs_of (obs : list (string * nat)) (mod_ : list (string * fid)) : option (list (nat * fid)) :=
  sequence (map (fun kv => match lookup (fst kv) mod_ with Some f => Some (snd kv, f) | None => None end) obs).

Definition consistent (ps : list (nat * fid)) : bool :=
  forallb (fun p => forallb (fun q => Bool.eqb (Nat.eqb (fst p) (fst q)) (fid_eqb (snd p) (snd q))) ps) ps.

Definition keys_match (obs : list (string * nat)) (mod_ : list (string * fid)) : bool :=
  nodup_str (map fst obs) &&
  forallb (fun kv => match lookup (fst kv) obs with Some _ => true | None => false end) mod_ &&
  forallb (fun kv => match lookup (fst kv) mod_ with Some _ => true | None => false end) obs.

Definition pair_in (ps : list (nat * fid)) (i : nat) (f : fid) : bool :=
  existsb (fun p => Nat.eqb (fst p) i && fid_eqb (snd p) f) ps.

Definition corr_dict (c : dcase) : bool :=
  let st := gen_strategies win_table in
  keys_match (dc_window c) (d_window st) && keys_match (dc_wsymm c) (d_wsymm st) &&
  match pairs_of (dc_window c) (d_window st), pairs_of (dc_wsymm c) (d_wsymm st) with
  | Some p1, Some p2 =>
      let ps := (p1 ++ p2)%list in
      consistent ps &&
      forallb (fun p =>
        match nlookup (fst p) (dc_attrs c), lookup_attr (snd p) (d_attrs st) with
        | Some (Some op, Some os), Some (fp, fs) => pair_in ps op fp && pair_in ps os fs
        | _, _ => false
        end) ps
  | _, _ => false
  end &&
  list_eqb Bool.eqb (dc_top c) [true; true; true; true].

(* the cross references the property demands for one strategy name (primary or alias) *)
Definition holds_dict (c : dcase) : bool :=
  match primary_of (dc_name c) with
  | None => true
  | Some (sname, _) =>
      match lookup (dc_name c) (dc_window c), lookup (dc_name c) (dc_wsymm c),
            lookup sname (dc_window c), lookup sname (dc_wsymm c) with
      | Some w, Some s, Some w0, Some s0 =>
          Nat.eqb w w0 && Nat.eqb s s0 &&
          match nlookup w (dc_attrs c), nlookup s (dc_attrs c) with
          | Some (Some wp, Some ws), Some (Some sp, Some ss) =>
              Nat.eqb wp w && Nat.eqb ws s && Nat.eqb sp w && Nat.eqb ss s
          | _, _ => false
          end
      | _, _, _, _ => false
      end && list_eqb Bool.eqb (dc_top c) [true; true; true; true]
  end.

(* ------------------------------------------------------------------ family hist *)
(* A HISTORY of uses of the strategies inside one process: calls sd[name](size[, alpha]) with the list each
   returned (copied at once) and whether the returned object IS an object returned earlier; between calls the
   harness mutates an earlier result in place or runs overlap_add.list(..., wnd=sd[name], normalize=True)
   (HOther: no observation of its own).  The strategies are pure functions: the model has no state. *)
Inductive hstep :=
| HCall (sd : sdict) (name : string) (size : Z) (alpha : option pyval) (res : option (list pyval)) (aliased : bool)
| HOther.
Record hcase := HC {
  h_cos : list (float * float); h_sin : list (float * float); h_pow : list (float * float * float);
  h_steps : list hstep }.

Definition corr_hist (c : hcase) : bool :=
  forallb (fun s =>
    match s with
    | HCall sd nm size a res _ =>
        res_eqb (call (oracle (h_cos c) (h_sin c) (h_pow c)) tmpl_window tmpl_wsymm win_table sd nm size a) res
    | HOther => true
    end) (h_steps c).

Definition alpha_eqb (a b : option pyval) : bool := option_eqb pyval_eqb a b.

(* every call returns a fresh list; equal arguments give bit-equal lists whatever happened in between; a periodic
   window is still the exact prefix of the symmetric one of size+1 asked for in the same history; lengths *)
Definition holds_hist (c : hcase) : bool :=
  let calls := h_steps c in
  forallb (fun s =>
    match s with
    | HCall sd nm size a res al =>
        negb al &&
        match primary_of nm, res with
        | Some _, Some l => (size <? 0)%Z || Nat.eqb (List.length l) (Z.to_nat size)
        | _, _ => true
        end &&
        forallb (fun t =>
          match t with
          | HCall sd' nm' size' a' res' _ =>
              if sdict_eqb sd sd' && String.eqb nm nm' && (size =? size')%Z && alpha_eqb a a'
              then res_eqb res res'
              else if sdict_eqb sd Window && sdict_eqb sd' Wsymm && String.eqb nm nm' && (size' =? size + 1)%Z
                      && (1 <=? size)%Z && alpha_eqb a a'
              then match primary_of nm, res, res' with
                   | Some _, Some w, Some s' => list_eqb pyval_eqb w (firstn (Z.to_nat size) s')
                   | _, _, _ => true
                   end
              else true
          | HOther => true
          end) calls
    | HOther => true
    end) calls.
