(* C14 - what the property promises, independently of the translated table: the documented closed forms,
   the list-level contracts (range, symmetry, constant overlap-add), the alpha domains. Definitions only. *)
From Coq Require Import List Bool ZArith QArith Reals String.
From AL Require Import C14.Model.
Import ListNotations.

(* ------------------------------------------------------------------ documented closed forms (n-th sample) *)
Section Doc.
Open Scope R_scope.
Definition doc_hann (n size : R) : R := 1 / 2 * (1 - cos (2 * PI * n / size)).
Definition doc_hamming (n size : R) : R := 54 / 100 - 46 / 100 * cos (2 * PI * n / size).
Definition doc_rect (n size : R) : R := 1.
Definition doc_bartlett (n size : R) : R := 1 - 2 / size * Rabs (n - size / 2).
Definition doc_triangular (n size : R) : R := 1 - 2 / (size + 2) * Rabs (n - size / 2).
Definition doc_blackman (alpha n size : R) : R :=
  (1 - alpha) / 2 - 1 / 2 * cos (2 * PI * n / size) + alpha / 2 * cos (4 * PI * n / size).
(* [sin(pi n / size)] ^ alpha, with 0^0 = 1 and 0^alpha = 0 (Model.Rpow_gen) *)
Definition doc_cos (alpha n size : R) : R := Rpow_gen (sin (PI * n / size)) alpha.

(* periodic window: n/size for n < size; symmetric window: [1] for size 1, n/(size-1) otherwise *)
Definition doc_window (w : R -> R -> R) (size : Z) : list R :=
  map (fun n => w (IZR n) (IZR size)) (zrange size).
Definition doc_wsymm (w : R -> R -> R) (size : Z) : list R :=
  if (size =? 1)%Z then [1] else map (fun n => w (IZR n) (IZR (size - 1))) (zrange size).

(* ------------------------------------------------------------------ list-level contracts *)
Definition all01 (l : list R) : Prop := Forall (fun x => 0 <= x <= 1) l.
Definition symmetric (l : list R) : Prop := l = rev l.

Fixpoint rsum (f : nat -> R) (m : nat) : R :=
  match m with O => 0 | S k => rsum f k + f k end.

(* constant overlap-add: the window has m*hop samples and, at every position n inside one hop, the m
   hop-shifted copies that overlap there add up to the same constant C *)
Definition cola (l : list R) (hop m : nat) (C : R) : Prop :=
  List.length l = (m * hop)%nat /\
  forall n, (n < hop)%nat -> rsum (fun k => nth (n + k * hop) l 0) m = C.
End Doc.

(* ------------------------------------------------------------------ alpha domains, tolerances (used by Check) *)
(* blackman: samples stay in [0,1] exactly for -1/4 <= alpha <= 1/4; cos: alpha >= 0 *)
Definition alpha_ok (sname : string) (a : Q) : bool :=
  if String.eqb sname "blackman" then Qle_bool (-(1#4)) a && Qle_bool a (1#4)
  else if String.eqb sname "cos" then Qle_bool 0 a
  else true.

(* float symmetry tolerance for a symmetric window of [size] samples *)
Definition sym_tol (sname : string) (aq : option Q) (size : Z) : Q :=
  let base := (size # Pos.pow 2 45)%Q in
  if String.eqb sname "cos" then
    match aq with
    | Some a => if Qle_bool 1 a || Qle_bool a 0 then base else (1 # Pos.pow 2 20)%Q
    | None => base
    end
  else base.

(* the constant of the overlap-add sum with m = size/hop overlapping copies (None: nothing is promised):
   hann m/2 and hamming 0.54 m for m >= 2 (the property text names m = 2 and m = 4), bartlett 1 for m = 2,
   rect m, blackman m (1 - alpha)/2 for m >= 3 (the text names m = 4) *)
Definition cola_const (sname : string) (m : Z) (aq : option Q) : option Q :=
  if String.eqb sname "hann" then (if (2 <=? m)%Z then Some (inject_Z m / 2)%Q else None)
  else if String.eqb sname "hamming" then (if (2 <=? m)%Z then Some (inject_Z m * (54 # 100))%Q else None)
  else if String.eqb sname "bartlett" then (if (m =? 2)%Z then Some 1%Q else None)
  else if String.eqb sname "rect" then (if (1 <=? m)%Z then Some (inject_Z m) else None)
  else if String.eqb sname "blackman" then
    (if (3 <=? m)%Z then match aq with Some a => Some (inject_Z m * ((1 - a) / 2))%Q | None => None end else None)
  else None.
