(* C14 - facts that hold for EVERY formula: they only depend on the two translated code templates and on the
   model of _generate_window_strategies.  In particular the periodic/symmetric prefix relation is exact in
   floats, because both lists are the same expression evaluated on the same arguments. *)
From Coq Require Import List Bool ZArith Lia String.
From Coq Require Import Floats.PrimFloat.
From AL Require Import C14.Model C14.Gen_Windows.
Import ListNotations.
Open Scope Z_scope.

(* ------------------------------------------------------------------ lists *)
Lemma zrange_length c : List.length (zrange c) = Z.to_nat c.
Proof. unfold zrange. now rewrite map_length, seq_length. Qed.

Lemma zrange_succ c : 0 <= c -> zrange (c + 1) = (zrange c ++ [c])%list.
Proof.
  intro H. unfold zrange.
  replace (Z.to_nat (c + 1)) with (S (Z.to_nat c)) by lia.
  rewrite seq_S, map_app. cbn [map Nat.add]. now rewrite Z2Nat.id.
Qed.

Lemma firstn_map {A B} (g : A -> B) k l : firstn k (map g l) = map g (firstn k l).
Proof. revert l; induction k; intros [|x l]; cbn; congruence. Qed.

Lemma In_zrange z c : In z (zrange c) <-> 0 <= z < c.
Proof.
  unfold zrange. rewrite in_map_iff. split.
  - intros (k & <- & Hk). apply in_seq in Hk. lia.
  - intros H. exists (Z.to_nat z). split; [lia|]. apply in_seq. lia.
Qed.

(* ------------------------------------------------------------------ the templates, unfolded *)
Lemma win_window {A} (ev : wexpr -> Z -> Z -> A) f size :
  win_gen ev tmpl_window f size = map (fun n => ev f n size) (zrange size).
Proof. reflexivity. Qed.

Lemma win_wsymm {A} (ev : wexpr -> Z -> Z -> A) f size :
  size <> 1 -> win_gen ev tmpl_wsymm f size = map (fun n => ev f n (size - 1)) (zrange size).
Proof.
  intro H. unfold win_gen, tmpl_wsymm. cbn [t_special t_size t_count seval].
  destruct (size =? 1) eqn:E; [lia|reflexivity].
Qed.

Lemma win_wsymm_1 {A} (ev : wexpr -> Z -> Z -> A) f :
  win_gen ev tmpl_wsymm f 1 = [ev (WDec 1 1 1%float) 0 1].
Proof. reflexivity. Qed.

(* window.X(size) == wsymm.X(size+1)[:size], for every formula, every evaluator, every size >= 1 *)
Lemma periodic_is_prefix_of_symm {A} (ev : wexpr -> Z -> Z -> A) f size :
  1 <= size ->
  win_gen ev tmpl_window f size = firstn (Z.to_nat size) (win_gen ev tmpl_wsymm f (size + 1)).
Proof.
  intro H. rewrite win_window, win_wsymm by lia.
  replace (size + 1 - 1) with size by lia.
  rewrite firstn_map, zrange_succ by lia.
  rewrite firstn_app, zrange_length, Nat.sub_diag. cbn [firstn].
  rewrite app_nil_r, firstn_all2; [reflexivity|]. rewrite zrange_length. lia.
Qed.

Lemma window_length {A} (ev : wexpr -> Z -> Z -> A) f size :
  List.length (win_gen ev tmpl_window f size) = Z.to_nat size.
Proof. now rewrite win_window, map_length, zrange_length. Qed.

Lemma wsymm_length {A} (ev : wexpr -> Z -> Z -> A) f size :
  List.length (win_gen ev tmpl_wsymm f size) = Z.to_nat size.
Proof.
  destruct (Z.eq_dec size 1) as [->|H]; [reflexivity|].
  now rewrite win_wsymm, map_length, zrange_length.
Qed.

(* ------------------------------------------------------------------ sequence *)
Lemma sequence_length {A} (l : list (option A)) r : sequence l = Some r -> List.length r = List.length l.
Proof.
  revert r; induction l as [|[x|] l IH]; cbn; intros r H; try discriminate.
  - now inversion H.
  - destruct (sequence l); [|discriminate]. inversion H; subst. cbn. f_equal. now apply IH.
Qed.

Lemma sequence_firstn {A} (l : list (option A)) r k :
  sequence l = Some r -> sequence (firstn k l) = Some (firstn k r).
Proof.
  revert l r; induction k; intros l r H; [reflexivity|].
  destruct l as [|[x|] l]; cbn in *; try discriminate.
  - now inversion H.
  - destruct (sequence l) eqn:E; [|discriminate]. inversion H; subst. cbn.
    now rewrite (IHk l l0 E).
Qed.

(* ------------------------------------------------------------------ the two dictionaries *)
Definition all_names : list string := flat_map w_names win_table.

(* the rows this development has theorems about; a new or renamed row makes this fail (fail-closed) *)
Lemma table_names :
  map w_names win_table =
  [["hann"; "hanning"]; ["hamming"]; ["rect"; "dirichlet"; "rectangular"]; ["bartlett"];
   ["triangular"; "triangle"]; ["blackman"]; ["cos"]]%string.
Proof. reflexivity. Qed.

Lemma table_rows : win_table = [e_hann; e_hamming; e_rect; e_bartlett; e_triangular; e_blackman; e_cos].
Proof. reflexivity. Qed.

(* the template a looked-up function object runs: wsymm's own, unless the row is not "distinct" *)
Definition row_template (e : wentry) (sd : sdict) : template :=
  match sd with
  | Window => tmpl_window
  | Wsymm => if w_distinct e then tmpl_wsymm else tmpl_window
  end.

Definition dict_of (st : sdstate) (sd : sdict) := match sd with Window => d_window st | Wsymm => d_wsymm st end.

(* every name of the table is a key of both dictionaries and leads to its own row and template *)
Definition lookup_ok (sd : sdict) (name : string) : bool :=
  match lookup name (dict_of (gen_strategies win_table) sd) with
  | Some f =>
      match nth_error win_table (f_idx f) with
      | Some e => existsb (String.eqb name) (w_names e) &&
                  match f_sd f, row_template e sd with
                  | Window, {| t_special := None |} => true
                  | Wsymm, {| t_special := Some _ |} => true
                  | _, _ => false
                  end
      | None => false
      end
  | None => false
  end.

Lemma lookups_ok : forallb (fun nm => lookup_ok Window nm && lookup_ok Wsymm nm) all_names = true.
Proof. vm_compute. reflexivity. Qed.

(* cross references: for every name (primary or alias) of every row, in BOTH dictionaries the function object
   exists, an alias is the same object as the primary name, window[name].symm is wsymm[name],
   wsymm[name].periodic is window[name], .periodic of a periodic and .symm of a symmetric one are themselves;
   no name occurs twice *)
Definition alias_ok (table : list wentry) : bool :=
  let st := gen_strategies table in
  forallb (fun e =>
    let sname := hd ""%string (w_names e) in
    forallb (fun nm =>
      match lookup nm (d_window st), lookup nm (d_wsymm st), lookup sname (d_window st), lookup sname (d_wsymm st) with
      | Some w, Some s, Some w0, Some s0 =>
          fid_eqb w w0 && fid_eqb s s0 &&
          match lookup_attr w (d_attrs st), lookup_attr s (d_attrs st) with
          | Some (wp, ws), Some (sp, ss) => fid_eqb wp w && fid_eqb ws s && fid_eqb sp w && fid_eqb ss s
          | _, _ => false
          end
      | _, _, _, _ => false
      end) (w_names e)) table &&
  (fix nodup (l : list string) := match l with [] => true | x :: r => negb (existsb (String.eqb x) r) && nodup r end)
    (flat_map w_names table).

Lemma alias_table_ok : alias_ok win_table = true.
Proof. vm_compute. reflexivity. Qed.

(* "distinct" rows have two different function objects, the others one shared object *)
Lemma distinct_objects :
  forallb (fun e =>
    let st := gen_strategies win_table in
    let sname := hd ""%string (w_names e) in
    match lookup sname (d_window st), lookup sname (d_wsymm st) with
    | Some w, Some s => Bool.eqb (negb (fid_eqb w s)) (w_distinct e)
    | _, _ => false
    end) win_table = true.
Proof. vm_compute. reflexivity. Qed.

(* ------------------------------------------------------------------ calls through the dictionaries (floats) *)
Lemma In_all_names name : In name all_names ->
  name = "hann" \/ name = "hanning" \/ name = "hamming" \/ name = "rect" \/ name = "dirichlet" \/
  name = "rectangular" \/ name = "bartlett" \/ name = "triangular" \/ name = "triangle" \/
  name = "blackman" \/ name = "cos".
Proof. cbn. intuition auto. Qed.

(* sd[name](size, alpha): which list the model evaluates *)
Lemma call_unfold L name sd size alpha :
  In name all_names ->
  exists e, In e win_table /\ In name (w_names e) /\
    call L tmpl_window tmpl_wsymm win_table sd name size alpha =
    match w_default e, alpha with
    | None, Some _ => None
    | _, _ => sequence (winF L (row_template e sd) (w_formula e) size
                          (match alpha with Some v => Some v | None => default_alpha L e end))
    end.
Proof.
  intro H. apply In_all_names in H.
  repeat (destruct H as [H|H]); subst name; destruct sd;
    [ exists e_hann | exists e_hann | exists e_hann | exists e_hann | exists e_hamming | exists e_hamming
    | exists e_rect | exists e_rect | exists e_rect | exists e_rect | exists e_rect | exists e_rect
    | exists e_bartlett | exists e_bartlett | exists e_triangular | exists e_triangular
    | exists e_triangular | exists e_triangular | exists e_blackman | exists e_blackman
    | exists e_cos | exists e_cos ];
    (split; [cbn; tauto|]); (split; [cbn; tauto|]); reflexivity.
Qed.

(* a row that is not distinct has a formula without variables: its value does not depend on n, size *)
Fixpoint closed (e : wexpr) : bool :=
  match e with
  | WVar _ => false
  | WInt _ | WDec _ _ _ | WPi => true
  | WNeg a => closed a
  | WBin _ a b => closed a && closed b
  | WApp _ a => closed a
  end.

Lemma closed_wevalF L e : closed e = true ->
  forall n s n' s' a a', wevalF L e n s a = wevalF L e n' s' a'.
Proof.
  induction e as [v|z|num den f| |a IHa|o a IHa b IHb|g a IHa]; cbn; intros C n s n' s' al al';
    try discriminate; try reflexivity.
  - now rewrite (IHa C n s n' s' al al').
  - apply andb_true_iff in C as [Ca Cb].
    now rewrite (IHa Ca n s n' s' al al'), (IHb Cb n s n' s' al al').
  - now rewrite (IHa C n s n' s' al al').
Qed.

Lemma nondistinct_closed : forallb (fun e => w_distinct e || closed (w_formula e)) win_table = true.
Proof. reflexivity. Qed.

Lemma winF_prefix L e size a : In e win_table -> 1 <= size ->
  winF L (row_template e Window) (w_formula e) size a =
  firstn (Z.to_nat size) (winF L (row_template e Wsymm) (w_formula e) (size + 1) a).
Proof.
  intros He Hs. unfold winF, row_template.
  destruct (w_distinct e) eqn:D.
  - now apply periodic_is_prefix_of_symm.
  - assert (C : closed (w_formula e) = true).
    { pose proof nondistinct_closed as H. rewrite forallb_forall in H. specialize (H e He).
      rewrite D in H. exact H. }
    rewrite !win_window, firstn_map, zrange_succ by lia.
    rewrite firstn_app, zrange_length, Nat.sub_diag. cbn [firstn].
    rewrite app_nil_r, firstn_all2 by (rewrite zrange_length; lia).
    apply map_ext. intro n. now apply closed_wevalF.
Qed.

(* THE exact statement: whenever both calls return, window[name](size[, alpha]) is bit for bit the list of the
   first size samples of wsymm[name](size+1[, alpha]) - for every name and alias, every libm, every alpha *)
Lemma call_prefix L name size alpha w s :
  In name all_names -> 1 <= size ->
  call L tmpl_window tmpl_wsymm win_table Window name size alpha = Some w ->
  call L tmpl_window tmpl_wsymm win_table Wsymm name (size + 1) alpha = Some s ->
  w = firstn (Z.to_nat size) s.
Proof.
  intros Hn Hs Hw Hsy.
  destruct (call_unfold L name Window size alpha Hn) as (e & He & Hin & Ew).
  destruct (call_unfold L name Wsymm (size + 1) alpha Hn) as (e' & He' & Hin' & Es).
  assert (e' = e).
  { clear - He He' Hin Hin'. rewrite table_rows in He, He'. cbn in He, He'.
    repeat (destruct He as [<-|He]; [|]); try contradiction;
    repeat (destruct He' as [<-|He']; [|]); try contradiction; try reflexivity;
    cbn in Hin, Hin'; exfalso;
    repeat (destruct Hin as [<-|Hin]; [|]); try contradiction;
    repeat (destruct Hin' as [Hin'|Hin']; try discriminate Hin'); try contradiction. }
  subst e'. rewrite Hw in Ew. rewrite Hsy in Es.
  destruct (w_default e) eqn:D; destruct alpha as [v|]; try discriminate;
    (rewrite (winF_prefix L e size _ He Hs) in Ew;
     symmetry in Es; rewrite (sequence_firstn _ _ (Z.to_nat size) Es) in Ew; congruence).
Qed.

(* lengths, through the dictionaries *)
Lemma call_length L name sd size alpha w :
  In name all_names ->
  call L tmpl_window tmpl_wsymm win_table sd name size alpha = Some w ->
  List.length w = Z.to_nat size.
Proof.
  intros Hn Hw.
  destruct (call_unfold L name sd size alpha Hn) as (e & He & Hin & E).
  rewrite Hw in E.
  assert (forall a, List.length (winF L (row_template e sd) (w_formula e) size a) = Z.to_nat size) as Len.
  { intro a. unfold winF, row_template. destruct sd; [apply window_length|].
    destruct (w_distinct e); [apply wsymm_length|apply window_length]. }
  destruct (w_default e); destruct alpha; try discriminate;
    symmetry in E; apply sequence_length in E; now rewrite E, Len.
Qed.

(* wsymm[name](1[, alpha]) == [1.0] *)
Lemma call_wsymm_one L name alpha :
  In name all_names ->
  (alpha = None \/ name = "blackman" \/ name = "cos") ->
  call L tmpl_window tmpl_wsymm win_table Wsymm name 1 alpha = Some [PFlt 1%float].
Proof.
  intros Hn Ha. apply In_all_names in Hn.
  repeat (destruct Hn as [Hn|Hn]); subst name;
    destruct Ha as [->|[Ha|Ha]]; try discriminate; try reflexivity;
    destruct alpha; reflexivity.
Qed.

(* ------------------------------------------------------------------ histories of calls *)
(* The strategies are pure: the model of a history of calls is the list of the per-call results, so what a call
   returns does not depend on the calls made before or after it (this is what the hist family checks the
   implementation against, call by call). *)
Record callargs := CA { ca_sd : sdict; ca_name : string; ca_size : Z; ca_alpha : option pyval }.
Definition run_call (L : libm) (a : callargs) : option (list pyval) :=
  call L tmpl_window tmpl_wsymm win_table (ca_sd a) (ca_name a) (ca_size a) (ca_alpha a).
Definition run_history (L : libm) (h : list callargs) : list (option (list pyval)) := map (run_call L) h.

Lemma calls_independent L pre a post :
  nth_error (run_history L (pre ++ a :: post)) (List.length pre) = Some (run_call L a).
Proof.
  unfold run_history. rewrite map_app. cbn [map].
  rewrite nth_error_app2 by (rewrite map_length; lia).
  rewrite map_length, Nat.sub_diag. reflexivity.
Qed.
