(* C09 - model of audiolazy.lazy_analysis.overlap_add.list and of the stft wrapper
   (keyword plumbing, blk_gen chain, overlap-add dispatch).  The model follows the
   code statement by statement; samples and window values are exact rationals.
   Blocking is the C08 model of lazy_misc.blocks.  No proofs in this file.

   Scope of the model (the theorems carry these as hypotheses, the harness only
   generates inputs inside it):  1 <= hop <= size for overlap_add;  the float
   constant 1/ceil(size/hop) used by overlap_add.list when no window is given is a
   parameter [gc] (its IEEE value is computed by [float_recip]). *)
From Coq Require Import String.
From Coq Require Import List Bool Arith ZArith QArith Qcanon.
From Coq Require Qcabs.   (* not imported: its "[ q ]" notation clashes with list notations *)
Notation Qcabs := Qcabs.Qcabs.
From AL Require Import Base.CaseLib C08.Model.
Import ListNotations.

Inductive exn := TypeError | ValueError | RuntimeError | ScopeError.
(* ScopeError is not a Python exception: the model's answer on inputs it does not
   cover (numpy defaults, non-integer size ...).  The harness never generates them. *)

(* ------------------------------------------------------------------ helpers *)
Fixpoint map2 {A B C : Type} (f : A -> B -> C) (a : list A) (b : list B) : list C :=
  match a, b with
  | x :: a', y :: b' => f x y :: map2 f a' b'
  | _, _ => []
  end.

(* sum(t) : 0 + t0 + t1 + ... *)
Definition qsum (l : list Qc) : Qc := fold_left Qcplus l 0%Qc.

(* max(it): first item, then "if item > best: best = item" *)
Definition qmax2 (best item : Qc) : Qc := if Qc_ltb best item then item else best.
Definition qmax_list (l : list Qc) : option Qc :=
  match l with [] => None | x :: r => Some (fold_left qmax2 r x) end.

(* zip-star (zip of the unpacked list): stops at the shortest *)
Fixpoint heads {A : Type} (ls : list (list A)) : option (list A) :=
  match ls with
  | [] => Some []
  | [] :: _ => None
  | (x :: _) :: r => match heads r with Some hs => Some (x :: hs) | None => None end
  end.
Fixpoint zipstar_aux {A : Type} (n : nat) (ls : list (list A)) : list (list A) :=
  match n with
  | O => []
  | S n' => match heads ls with
            | None => []
            | Some hs => hs :: zipstar_aux n' (map (@tl A) ls)
            end
  end.
Definition zipstar {A : Type} (ls : list (list A)) : list (list A) :=
  match ls with [] => [] | l :: _ => zipstar_aux (length l) ls end.

(* ------------------------------------------------------------------ windows *)
(* what wnd(size) returns: an iterable with these items, None, or something else *)
Inductive wres := RList (l : list Qc) | RNone | RBad.
(* the wnd argument: None, an iterable (list / tuple / generator / Stream: all go
   through list(wnd)), a callable, or neither *)
Inductive wndarg := WNone | WIter (l : list Qc) | WCall (f : nat -> wres) | WBad.

(* overlap_add.list lines 827-833 *)
Definition ola_resolve_wnd (size : nat) (w : wndarg) : exn + option (list Qc) :=
  match w with
  | WNone => inr None
  | WIter l => inr (Some l)
  | WCall f => match f size with RList l => inr (Some l) | _ => inl TypeError end
  | WBad => inl TypeError
  end.

(* gain = max(xmap(sum, xzip-star of Stream(wnd).map(abs).blocks(hop).map(tuple))) *)
Definition wnd_gain (hop : nat) (w : list Qc) : option Qc :=
  qmax_list (map qsum (zipstar (blocks_model hop hop 0%Qc (map Qcabs w)))).

(* lines 836-843 *)
Definition ola_normalize (size hop : nat) (gc : Qc) (normalize : bool) (w : option (list Qc))
  : exn + option (list Qc) :=
  if normalize then
    match w with
    | Some (x :: r) =>
        let l := x :: r in
        match wnd_gain hop l with
        | None => inl ValueError            (* max() of nothing: only for hop = 0 *)
        | Some g => if Qc_eqb g 0%Qc then inr (Some l) else inr (Some (map (fun v => (v / g)%Qc) l))
        end
    | _ => inr (Some (repeat gc size))
    end
  else inr w.

(* lines 846-851: None = "raise ValueError('Incompatible window size')" *)
Definition ola_apply_wnd (size : nat) (w : option (list Qc)) (blks : list (list Qc))
  : option (list (list Qc)) :=
  match w with
  | Some (x :: r) =>
      let l := x :: r in
      if Nat.eqb (length l) size then Some (map (fun blk => map2 Qcmult (l ++ [0%Qc]) blk) blks)
      else None
  | _ => Some blks
  end.

(* lines 857-865.  [tail] = the exception that ends the block stream, if any. *)
Definition ola_step (size hop : nat) (mem blk : list Qc) : list Qc :=
  let s_h := (size - hop)%nat in
  let mem1 := map2 Qcplus (skipn hop mem) blk ++ skipn s_h mem in   (* mem[:s_h] = xmap(add, mem[hop:], blk) *)
  firstn s_h mem1 ++ skipn s_h blk.                                 (* mem[s_h:] = blk (what is left of it) *)

Fixpoint ola_loop (size hop : nat) (tail : option exn) (mem : list Qc) (blks : list (list Qc))
  : list Qc * option exn :=
  match blks with
  | [] => match tail with
          | None => (skipn hop mem, None)
          | Some e => ([], Some e)
          end
  | blk :: r =>
      let mem2 := ola_step size hop mem blk in
      if Nat.eqb (length mem2) size then
        let '(out, e) := ola_loop size hop tail mem2 r in (firstn hop mem2 ++ out, e)
      else ([], Some ValueError)
  end.

(* The whole generator: the items it yields, then the exception that ends it (if any). *)
Definition ola_model (size hop : option nat) (wnd : wndarg) (normalize : bool) (gc : Qc)
           (blks : list (list Qc)) (tail : option exn) : list Qc * option exn :=
  let rsize := match size with
               | Some s => inr s
               | None => match blks with                      (* len(Stream(blk_sig).peek()) *)
                         | b :: _ => inr (length b)
                         | [] => inl (match tail with Some e => e | None => RuntimeError end)
                         end
               end in
  match rsize with
  | inl e => ([], Some e)
  | inr s =>
    let h := match hop with Some h => h | None => s end in
    match ola_resolve_wnd s wnd with
    | inl e => ([], Some e)
    | inr w0 =>
      match ola_normalize s h gc normalize w0 with
      | inl e => ([], Some e)
      | inr w1 =>
        match ola_apply_wnd s w1 blks with
        | None => ([], Some ValueError)
        | Some blks' => ola_loop s h tail (repeat 0%Qc s) blks'
        end
      end
    end
  end.

(* ------------------------------------------------------------------ stft: blk_gen *)
(* lines 1116-1123 *)
Definition stft_resolve_wnd (size : nat) (w : wndarg) : exn + option (list Qc) :=
  let chk l := if Nat.eqb (length l) size then inr (Some l) else inl ValueError in
  match w with
  | WNone => inr None
  | WIter l => chk l
  | WCall f => match f size with RList l => chk l | RNone => inr None | RBad => inl TypeError end
  | WBad => inl TypeError
  end.

Definition bfun := list Qc -> list Qc.
(* reduce(lambda data, f: f(data), [f for f in ... if f is not None], blk) *)
Definition process (funcs : list (option bfun)) (blk : list Qc) : list Qc :=
  fold_left (fun data f => match f with Some g => g data | None => data end) funcs blk.

(* blk_gen: the blocks it yields (snapshot at yield time), then the exception ending it *)
Definition stft_blkgen (size : nat) (hop : option nat) (wnd : wndarg)
           (before trans func itrans after : option bfun) (sig : list Qc)
  : list (list Qc) * option exn :=
  match stft_resolve_wnd size wnd with
  | inl e => ([], Some e)
  | inr w =>
    let h := match hop with Some h => h | None => size end in
    let bl := blocks_model size h 0%Qc sig in
    let funcs := [before; trans; func; itrans; after] in
    match w with
    | None => (map (process funcs) bl, None)
    | Some wl => (map (fun blk => process funcs (map2 Qcmult blk wl)) bl, None)
    end
  end.

(* ------------------------------------------------------------------ stft: keywords *)
Inductive olakind := OlaList | OlaUser (id : nat).

Section Stft.
(* F: stage functions (before / transform / func / inverse_transform / after) as the caller
   passes them; W: window objects.  Their meaning is given by the three maps. *)
Context {F W : Type}.
Variable f1 : F -> list Qc -> list Qc.            (* f(blk) *)
Variable f2 : F -> list Qc -> nat -> list Qc.     (* f(blk, size) *)
Variable wsem : W -> wndarg.
(* truth value of a stage callable: an object with __len__ () = 0 or __bool__ () = False (an empty callable list
   such as ParallelFilter ()) is still a callable.  Only transform / inverse_transform look at it, see stage2. *)
Variable falsy : F -> bool.

Inductive val := VNone | VNat (n : nat) | VBool (b : bool) | VWnd (w : W) | VFun (f : F)
               | VOla (o : olakind) | VOpaque (id : nat).
Definition kwl := list (string * val).

Fixpoint dict_get (d : kwl) (k : string) : option val :=
  match d with
  | [] => None
  | (k', v) :: r => if String.eqb k k' then Some v else dict_get r k
  end.
Fixpoint dict_set (d : kwl) (k : string) (v : val) : kwl :=
  match d with
  | [] => [(k, v)]
  | (k', v') :: r => if String.eqb k k' then (k, v) :: r else (k', v') :: dict_set r k v
  end.
Fixpoint dict_del (d : kwl) (k : string) : kwl :=
  match d with
  | [] => []
  | (k', v') :: r => if String.eqb k k' then dict_del r k else (k', v') :: dict_del r k
  end.
Definition dict_update (d1 d2 : kwl) : kwl := fold_left (fun d kv => dict_set d (fst kv) (snd kv)) d2 d1.
(* stft(kw a)(kw b)...(f, kw c)(sig, kw d): mix_dict / kwparams.copy().update(kwargs), oldest first *)
Definition merge_layers (ls : list kwl) : kwl := fold_left dict_update ls [].

Definition ola_prefix : string := "ola_".
Definition is_ola_key (k : string) : bool := String.prefix ola_prefix k.
Definition strip_ola (k : string) : string := substring 4 (String.length k - 4) k.

(* the "for k, v in kws.items()" loop, lines 1095-1103 *)
Fixpoint route_extra (ola_is_none : bool) (rest : kwl) (ola_params : kwl) : exn + kwl :=
  match rest with
  | [] => inr ola_params
  | (k, v) :: r =>
      if is_ola_key k then
        if ola_is_none then inl TypeError
        else route_extra ola_is_none r (dict_set ola_params (strip_ola k) v)
      else inl TypeError
  end.

Record route := Route {
  r_size : val; r_hop : val; r_wnd : val;
  r_ola : option val;                                 (* None: key absent (library default) *)
  r_transform : option val; r_inverse : option val; r_before : option val; r_after : option val;
  r_ola_params : kwl }.

Definition opt_default (o : option val) (d : val) : val := match o with Some v => v | None => d end.

(* wrapper, lines 1075-1103 *)
Definition stft_route (kws : kwl) : exn + route :=
  match dict_get kws "size" with
  | None => inl TypeError                                        (* Missing 'size' argument *)
  | Some vsize =>
    let hop_err :=
      match dict_get kws "hop" with
      | None => None
      | Some vh =>
          match vh, vsize with
          | VNat h, VNat s => if (s <? h)%nat then Some ValueError else None
          | VNone, VNat _ | VNat _, VNone | VNone, VNone => Some TypeError   (* None > int *)
          | _, _ => Some ScopeError
          end
      end in
    match hop_err with
    | Some e => inl e
    | None =>
      let vhop := opt_default (dict_get kws "hop") VNone in
      let ola_params := [("size"%string, vsize); ("hop"%string, vhop)] in
      let vwnd := opt_default (dict_get kws "wnd") VNone in
      let ola := dict_get kws "ola" in
      let rest := fold_left dict_del
                    ["size"; "hop"; "wnd"; "ola"; "transform"; "inverse_transform"; "before"; "after"]%string
                    kws in
      let ola_is_none := match ola with Some VNone => true | _ => false end in
      match route_extra ola_is_none rest ola_params with
      | inl e => inl e
      | inr op => inr (Route vsize vhop vwnd ola (dict_get kws "transform") (dict_get kws "inverse_transform")
                             (dict_get kws "before") (dict_get kws "after") op)
      end
    end
  end.

(* What calling the processor gives. *)
Inductive stft_result :=
| SCallRaise (e : exn)                                   (* processor(sig, kw) itself raises *)
| SBlocks (b : list (list Qc)) (e : option exn)          (* ola=None: the stream of blocks *)
| SUser (id : nat) (params : kwl) (b : list (list Qc)) (e : option exn)
                                                         (* user ola called as ola(stream b;e, params) *)
| SSamples (out : list Qc) (e : option exn).             (* overlap_add.list output stream *)

Definition stage1 (v : option val) : exn + option bfun :=
  match v with
  | Some VNone => inr None
  | Some (VFun f) => inr (Some (f1 f))
  | _ => inl ScopeError                                   (* absent: numpy default *)
  end.
Definition stage2 (size : nat) (v : option val) : exn + option bfun :=
  match v with
  | Some VNone => inr None
  | Some (VFun f) =>
      (* "trans = transform and (lambda blk: transform(blk, size))": a callable whose truth value is False
         is kept as it is, and the chain then calls it with the block only *)
      if falsy f then inr (Some (f1 f)) else inr (Some (fun blk => f2 f blk size))
  | _ => inl ScopeError
  end.
Definition wnd_of_val (v : val) : wndarg :=
  match v with
  | VNone => WNone
  | VWnd w => wsem w
  | _ => WBad                                             (* ints, bools ...: neither callable nor iterable *)
  end.
Definition onat_of_val (v : val) : exn + option nat :=
  match v with VNone => inr None | VNat n => inr (Some n) | _ => inl ScopeError end.
Definition truth_of_val (v : val) : exn + bool :=
  match v with
  | VNone => inr false | VBool b => inr b | VNat n => inr (negb (Nat.eqb n 0))
  | _ => inl ScopeError
  end.

(* overlap_add.list(blk_sig, params): unexpected keyword -> TypeError at the call *)
Definition ola_list_call (gc : Qc) (params : kwl) (b : list (list Qc)) (e : option exn) : stft_result :=
  let known := ["size"; "hop"; "wnd"; "normalize"]%string in
  if negb (forallb (fun kv => existsb (String.eqb (fst kv)) known) params) then SCallRaise TypeError
  else
    match onat_of_val (opt_default (dict_get params "size") VNone),
          onat_of_val (opt_default (dict_get params "hop") VNone),
          truth_of_val (opt_default (dict_get params "normalize") (VBool true)) with
    | inr osize, inr ohop, inr nrm =>
        let '(out, ex) := ola_model osize ohop (wnd_of_val (opt_default (dict_get params "wnd") VNone)) nrm gc b e in
        SSamples out ex
    | _, _, _ => SCallRaise ScopeError
    end.

Definition stft_model (gc : Qc) (layers : list kwl) (func : F) (sig : list Qc) : stft_result :=
  match stft_route (merge_layers layers) with
  | inl e => SCallRaise e
  | inr r =>
    match r_size r, onat_of_val (r_hop r) with
    | VNat size, inr hop =>
      match stage2 size (r_transform r), stage2 size (r_inverse r), stage1 (r_before r), stage1 (r_after r) with
      | inr tr, inr itr, inr bef, inr aft =>
          let '(b, e) := stft_blkgen size hop (wnd_of_val (r_wnd r)) bef tr (Some (f1 func)) itr aft sig in
          match r_ola r with
          | Some VNone => SBlocks b e
          | Some (VOla OlaList) => ola_list_call gc (r_ola_params r) b e
          | Some (VOla (OlaUser id)) => SUser id (r_ola_params r) b e
          | _ => SCallRaise ScopeError                     (* default strategy needs numpy *)
          end
      | _, _, _, _ => SCallRaise ScopeError
      end
    | _, _ => SCallRaise ScopeError
    end
  end.

End Stft.
Arguments val : clear implicits.
Arguments kwl : clear implicits.
Arguments route : clear implicits.
Arguments stft_result : clear implicits.
