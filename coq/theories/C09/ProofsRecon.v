(* C09 - proofs, part 4: blocking followed by overlap-add with a window whose hop-shifted copies sum
   to one gives the signal back on every sample covered by all its blocks. *)
From Coq Require Import String.
From Coq Require Import List Bool Arith ZArith QArith Qcanon Lia.
From AL Require Import Base.CaseLib C08.Model C08.Spec C08.Proofs C09.Model C09.Spec
  C09.ProofsOla C09.ProofsBlocks C09.ProofsMain.
Import ListNotations.
Open Scope Qc_scope.

Lemma qsumn_rev q : forall g, qsumn (S q) (fun k => g (q - k)%nat) = qsumn (S q) g.
Proof.
  induction q as [|q IH]; intro g; [reflexivity|].
  rewrite qsumn_shift. cbn [Nat.sub]. rewrite IH. cbn [qsumn]. ring.
Qed.

(* hop-shifted copies of w sum to one (w is zero outside 0..size-1) *)
Definition cola (size hop : nat) (w : list Qc) : Prop :=
  forall p, (p < hop)%nat -> qsumn size (fun j => nth (p + j * hop) w 0) = 1.

Lemma cola_sum size hop w blks (sig : list Qc) n :
  (1 <= hop <= size)%nat -> length w = size -> cola size hop w ->
  (forall k j, (k < length blks)%nat -> (j < size)%nat -> nth j (nth k blks []) 0 = nth (k * hop + j) sig 0) ->
  (size - hop <= n < length blks * hop)%nat ->
  ola_nth size hop w blks n = nth n sig 0.
Proof.
  intros Hh Lw Hc HB Hn. unfold ola_nth.
  set (q := (n / hop)%nat). set (p := (n mod hop)%nat).
  assert (Hqp : n = (q * hop + p)%nat) by (unfold q, p; rewrite (Nat.div_mod n hop) at 1 by lia; lia).
  assert (Hp : (p < hop)%nat) by (unfold p; apply Nat.mod_upper_bound; lia).
  assert (HqM : (q < length blks)%nat) by nia.
  set (f := fun j => nth (p + j * hop) w 0).
  (* only blocks 0..q start at or before n *)
  rewrite (qsumn_extend (S q) (length blks)).
  2: lia.
  2:{ intros k Hk. unfold ola_term. destruct (Nat.leb_spec (k * hop) n) as [A|A]; [nia|reflexivity]. }
  rewrite (qsumn_ext _ _ (fun k => nth n sig 0 * f (q - k)%nat)).
  - rewrite qsumn_scal, qsumn_rev.
    assert (E : qsumn (S q) f = qsumn size f).
    { destruct (Nat.le_ge_cases (S q) size) as [C|C].
      - symmetry. apply qsumn_extend; [exact C|]. intros j Hj. unfold f. apply nth_overflow. nia.
      - apply qsumn_extend; [exact C|]. intros j Hj. unfold f. apply nth_overflow. nia. }
    rewrite E. unfold f. rewrite (Hc p Hp). ring.
  - intros k Hk. unfold ola_term, f.
    assert (Hidx : (n - k * hop = p + (q - k) * hop)%nat) by nia.
    destruct (Nat.leb_spec (k * hop) n) as [A|A]; [|nia]. cbn [andb].
    destruct (Nat.ltb_spec n (k * hop + size)) as [B|B].
    + rewrite HB by lia. rewrite <- Hidx. replace (k * hop + (n - k * hop))%nat with n by lia. ring.
    + rewrite <- Hidx. rewrite (nth_overflow w) by lia. ring.
Qed.

Theorem blocks_then_ola_reconstructs size hop wnd w gc (sig : list Qc) n :
  (1 <= hop <= size)%nat -> spec_wnd size wnd = Some (Some w) -> cola size hop w ->
  let blks := blocks_model size hop 0 sig in
  (size - hop <= n < length blks * hop)%nat ->
  nth n (fst (ola_model (Some size) (Some hop) wnd false gc blks None)) 0 = nth n sig 0.
Proof.
  intros Hh Hw Hc blks Hn. unfold blks in *.
  rewrite (blocks_model_eq_spec Qc size hop 0 sig) in * by lia.
  destruct (spec_wnd_resolve size wnd _ Hw) as [_ Lw].
  rewrite (ola_model_closed_form size hop wnd (Some w)); try assumption.
  - cbn [fst]. rewrite ola_spec_nth by (unfold ola_len; lia).
    cbn [spec_gw]. apply cola_sum; try assumption.
    intros k j Hk Hj. apply blocks_nth; try lia.
  - apply Forall_forall. intros b Hb. apply (blocks_all_length_size Qc size hop 0 sig); try lia. exact Hb.
Qed.

(* how many samples that is: the blocks cover the whole input, so every n with size-hop <= n < length sig qualifies *)
Lemma blocks_reach (size hop : nat) (sig : list Qc) :
  (1 <= hop <= size)%nat ->
  (length sig <= length (blocks_model size hop 0%Qc sig) * hop + (size - hop))%nat.
Proof.
  intro Hh. rewrite (blocks_model_eq_spec Qc size hop 0 sig) by lia. apply blocks_cover. exact Hh.
Qed.
