(* C09 - proofs, part 3: overlap_add.list as a whole (window resolution, normalisation, guard, loop). *)
From Coq Require Import String.
From Coq Require Import List Bool Arith ZArith QArith Qcanon Lia.
From AL Require Import Base.CaseLib C08.Model C08.Spec C09.Model C09.Spec C09.ProofsOla C09.ProofsBlocks.
Import ListNotations.
Open Scope Qc_scope.

Lemma spec_wnd_resolve size wnd w : spec_wnd size wnd = Some w ->
  ola_resolve_wnd size wnd = inr w /\ match w with Some l => length l = size | None => True end.
Proof.
  destruct wnd as [|l|f|]; simpl; try discriminate.
  - intro H. inversion H. auto.
  - destruct (Nat.eqb_spec (length l) size) as [E|E]; [|discriminate]. intro H. inversion H. auto.
  - destruct (f size) as [l| |]; try discriminate.
    destruct (Nat.eqb_spec (length l) size) as [E|E]; [|discriminate]. intro H. inversion H. auto.
Qed.

(* the multipliers the loop really uses: None = blocks taken as they are *)
Definition eff_wnd (size hop : nat) (w : option (list Qc)) (normalize : bool) (gc : Qc) : option (list Qc) :=
  match w, normalize with
  | None, false => None
  | _, _ => Some (spec_gw size hop w normalize gc)
  end.

Lemma spec_gw_length size hop w normalize gc :
  match w with Some l => length l = size | None => True end ->
  length (spec_gw size hop w normalize gc) = size.
Proof.
  intro H. unfold spec_gw. destruct w as [l|]; [|apply repeat_length].
  destruct normalize; [|exact H]. destruct (Qc_eqb (gain_spec hop l) 0); [exact H|].
  rewrite map_length. exact H.
Qed.

Lemma ola_apply_wnd_some size l blks : (1 <= size)%nat -> length l = size ->
  ola_apply_wnd size (Some l) blks = Some (map (wblk l) blks).
Proof.
  intros Hs Hl. destruct l as [|x r]; [simpl in Hl; lia|].
  unfold ola_apply_wnd. rewrite Hl, Nat.eqb_refl. reflexivity.
Qed.

Lemma ola_model_reduce size hop wnd w normalize gc blks tail :
  (1 <= hop <= size)%nat -> spec_wnd size wnd = Some w ->
  ola_model (Some size) (Some hop) wnd normalize gc blks tail
  = ola_loop size hop tail (repeat 0 size)
      (match eff_wnd size hop w normalize gc with None => blks | Some gw => map (wblk gw) blks end).
Proof.
  intros Hh Hw. destruct (spec_wnd_resolve size wnd w Hw) as [R Lw].
  unfold ola_model. rewrite R.
  destruct w as [l|].
  - destruct normalize.
    + assert (Hne : l <> []) by (destruct l; [simpl in Lw; lia|discriminate]).
      unfold ola_normalize. destruct l as [|x r]; [congruence|].
      rewrite (wnd_gain_spec hop (x :: r)) by (try lia; exact Hne).
      unfold eff_wnd, spec_gw.
      destruct (Qc_eqb (gain_spec hop (x :: r)) 0).
      * rewrite ola_apply_wnd_some by (try lia; exact Lw). reflexivity.
      * rewrite ola_apply_wnd_some by (try lia; rewrite map_length; exact Lw).
        f_equal. f_equal. f_equal. apply map_ext. intro v. unfold Qcdiv. ring.
    + unfold ola_normalize, eff_wnd, spec_gw.
      rewrite ola_apply_wnd_some by (try lia; exact Lw). reflexivity.
  - destruct normalize.
    + unfold ola_normalize, eff_wnd, spec_gw.
      rewrite ola_apply_wnd_some by (try lia; apply repeat_length). reflexivity.
    + reflexivity.
Qed.

Lemma eff_wnd_cases size hop w normalize gc :
  match w with Some l => length l = size | None => True end ->
  match eff_wnd size hop w normalize gc with
  | None => spec_gw size hop w normalize gc = repeat 1 size
  | Some gw => gw = spec_gw size hop w normalize gc /\ length gw = size
  end.
Proof.
  intro H. unfold eff_wnd. destruct w as [l|]; [|destruct normalize]; try (split; [reflexivity|]);
    try (apply spec_gw_length; exact H). reflexivity.
Qed.

(* Central theorem: the generator yields exactly the closed form and ends normally. *)
Theorem ola_model_closed_form size hop wnd w normalize gc blks :
  (1 <= hop <= size)%nat -> Forall (fun b => length b = size) blks -> spec_wnd size wnd = Some w ->
  ola_model (Some size) (Some hop) wnd normalize gc blks None
  = (ola_spec size hop (spec_gw size hop w normalize gc) blks, None).
Proof.
  intros Hh Hall Hw. rewrite (ola_model_reduce size hop wnd w) by assumption.
  destruct (spec_wnd_resolve size wnd w Hw) as [_ Lw].
  pose proof (eff_wnd_cases size hop w normalize gc Lw) as C.
  destruct (eff_wnd size hop w normalize gc) as [gw|].
  - destruct C as [E L]. rewrite <- E. apply ola_weighted; assumption.
  - rewrite C. apply ola_unweighted; assumption.
Qed.

Theorem ola_bad_block_rejected size hop wnd w normalize gc good bad rest tail :
  (1 <= hop <= size)%nat -> Forall (fun b => length b = size) good -> length bad <> size ->
  spec_wnd size wnd = Some w ->
  ola_model (Some size) (Some hop) wnd normalize gc (good ++ bad :: rest) tail
  = (firstn (length good * hop) (ola_spec size hop (spec_gw size hop w normalize gc) good), Some ValueError).
Proof.
  intros Hh Hall Hbad Hw. rewrite (ola_model_reduce size hop wnd w) by assumption.
  destruct (spec_wnd_resolve size wnd w Hw) as [_ Lw].
  pose proof (eff_wnd_cases size hop w normalize gc Lw) as C.
  destruct (eff_wnd size hop w normalize gc) as [gw|].
  - destruct C as [E L]. rewrite <- E. rewrite map_app. cbn [map].
    rewrite ola_loop_bad.
    + rewrite map_length, ola_weighted by assumption. reflexivity.
    + exact Hh.
    + intro H. apply (wblk_length gw bad size L) in H. exact (Hbad H).
    + apply repeat_length.
    + apply Forall_map. eapply Forall_impl; [|exact Hall]. intros b Hb. simpl in Hb.
      apply (wblk_length gw b size L). exact Hb.
  - rewrite C. rewrite ola_loop_bad; try assumption; [|apply repeat_length].
    rewrite ola_unweighted by assumption. reflexivity.
Qed.

(* the model does whatever [ola_promise] (the text, as checked on every generated case) says *)
Theorem ola_model_meets_promise size hop wnd normalize gc blks out :
  ola_promise size hop wnd normalize gc blks = Some out ->
  ola_model size hop wnd normalize gc blks None = (out, None).
Proof.
  unfold ola_promise.
  set (osz := match size with Some s => Some s | None => match blks with b :: _ => Some (length b) | [] => None end end).
  destruct osz as [s|] eqn:Es; [|discriminate].
  set (h := match hop with Some h => h | None => s end).
  destruct ((1 <=? h)%nat && (h <=? s)%nat) eqn:Eh; [|discriminate]. cbn [negb].
  destruct (forallb (fun b => Nat.eqb (length b) s) blks) eqn:Ef; [|discriminate]. cbn [negb].
  destruct (spec_wnd s wnd) as [w|] eqn:Ew; [|discriminate].
  intro H. inversion H. subst out. clear H.
  apply andb_true_iff in Eh as [H1 H2]. apply Nat.leb_le in H1, H2.
  assert (Hall : Forall (fun b => length b = s) blks).
  { apply Forall_forall. intros b Hb. rewrite forallb_forall in Ef. apply Nat.eqb_eq. apply Ef. exact Hb. }
  rewrite <- (ola_model_closed_form s h wnd w normalize gc blks) by (try lia; assumption).
  unfold osz in Es. unfold h.
  destruct size as [s0|].
  - inversion Es. subst s0. destruct hop; reflexivity.
  - destruct blks as [|b r]; [discriminate|]. inversion Es. destruct hop; reflexivity.
Qed.

(* length and pointwise form *)
Theorem ola_length size hop wnd w normalize gc blks :
  (1 <= hop <= size)%nat -> Forall (fun b => length b = size) blks -> spec_wnd size wnd = Some w ->
  length (fst (ola_model (Some size) (Some hop) wnd normalize gc blks None))
  = (length blks * hop + size - hop)%nat.
Proof.
  intros. rewrite (ola_model_closed_form size hop wnd w) by assumption. cbn [fst].
  apply ola_spec_length.
Qed.

Theorem ola_pointwise size hop wnd w normalize gc blks n :
  (1 <= hop <= size)%nat -> Forall (fun b => length b = size) blks -> spec_wnd size wnd = Some w ->
  (n < length blks * hop + size - hop)%nat ->
  nth n (fst (ola_model (Some size) (Some hop) wnd normalize gc blks None)) 0
  = qsumn (length blks) (fun k =>
      if (k * hop <=? n)%nat && (n <? k * hop + size)%nat
      then nth (n - k * hop) (spec_gw size hop w normalize gc) 0 * nth (n - k * hop) (nth k blks []) 0
      else 0).
Proof.
  intros. rewrite (ola_model_closed_form size hop wnd w) by assumption. cbn [fst].
  rewrite ola_spec_nth by assumption. reflexivity.
Qed.
