(* C09 - proofs, part 2: facts about the C08 blocks needed here (item j of block k is item k*hop+j of the
   zero-extended input; the blocks cover the input), and the normalisation gain. *)
From Coq Require Import String.
From Coq Require Import List Bool Arith ZArith QArith Qcanon Lia.
From AL Require Import Base.CaseLib C08.Model C08.Spec C08.Proofs C09.Model C09.Spec C09.ProofsOla.
Import ListNotations.

Section BlocksFacts.
Context {A : Type}.

Lemma blocks_nth (size hop : nat) (pad : A) (xs : list A) (k j : nat) :
  (1 <= size)%nat -> (1 <= hop)%nat ->
  (k < length (blocks_spec size hop pad xs))%nat -> (j < size)%nat ->
  nth j (nth k (blocks_spec size hop pad xs) []) pad = nth (k * hop + j) xs pad.
Proof.
  intros Hs Hh Hk Hj.
  destruct (blocks_complete_count A size hop pad xs Hs Hh) as (HM & Hfull & _ & Htail).
  set (K := nblocks (length xs) size hop) in *.
  destruct (Nat.lt_ge_cases k K) as [HkK|HkK].
  - destruct (Hfull k HkK) as (E & _ & _).
    rewrite (nth_error_nth _ _ _ E). rewrite nth_firstn_lt by exact Hj. apply nth_skipn_add.
  - assert (k = K) by lia. subst k.
    destruct (nth_error (blocks_spec size hop pad xs) K) as [b|] eqn:E.
    2:{ apply nth_error_None in E. lia. }
    destruct (Htail b eq_refl) as (n & Hn & Eb & Hl).
    rewrite (nth_error_nth _ _ _ E). rewrite Eb.
    destruct (Nat.lt_ge_cases j (length (skipn (K * hop) xs))) as [Hjl|Hjl].
    + rewrite app_nth1 by exact Hjl. apply nth_skipn_add.
    + rewrite app_nth2 by exact Hjl. rewrite skipn_length in Hjl.
      rewrite (nth_overflow xs) by lia.
      apply nth_repeat_same.
Qed.

Lemma blocks_cover (size hop : nat) (pad : A) (xs : list A) :
  (1 <= hop <= size)%nat ->
  (length xs <= length (blocks_spec size hop pad xs) * hop + (size - hop))%nat.
Proof.
  intros Hh.
  destruct (blocks_complete_count A size hop pad xs) as (HM & _ & Hlt & _); try lia.
  destruct (blocks_tail_iff A size hop pad xs) as (_ & HK).
  cbv zeta in *.
  set (K := nblocks (length xs) size hop) in *.
  set (M := length (blocks_spec size hop pad xs)) in *.
  destruct (Nat.eq_dec M K) as [E|E].
  - pose proof (proj1 HK E) as R. rewrite E. lia.
  - assert (E1 : (M = K + 1)%nat) by lia. rewrite E1. lia.
Qed.

Lemma blocks_count_le (size hop : nat) (pad : A) (xs : list A) :
  (1 <= hop <= size)%nat -> xs <> [] ->
  (length (blocks_spec size hop pad xs) <= length xs)%nat.
Proof.
  intros Hh Hne.
  destruct (blocks_complete_count A size hop pad xs) as (HM & Hfull & Hlt & _); try lia.
  destruct (blocks_tail_iff A size hop pad xs) as (HK1 & _).
  cbv zeta in *.
  set (K := nblocks (length xs) size hop) in *.
  set (M := length (blocks_spec size hop pad xs)) in *.
  assert (Hpos : (1 <= length xs)%nat) by (destruct xs; [congruence|simpl; lia]).
  destruct (Nat.eq_dec M (K + 1)) as [E|E].
  - pose proof (proj1 HK1 E) as R. nia.
  - assert (M = K) by lia.
    destruct K as [|K']; [lia|].
    destruct (Hfull K') as (_ & _ & Hfit); [lia|]. nia.
Qed.
End BlocksFacts.

(* ------------------------------------------------------------------ zip-star of equally long lists *)
Section Zip.
Context {A : Type} (d : A).
Definition col (p : nat) (ls : list (list A)) : list A := map (fun b => nth p b d) ls.

Lemma heads_all n (ls : list (list A)) :
  Forall (fun b => length b = S n) ls -> heads ls = Some (col 0 ls).
Proof.
  induction ls as [|b ls IH]; intro H; [reflexivity|].
  pose proof (Forall_inv H) as Hb. pose proof (Forall_inv_tail H) as Hr. simpl in Hb.
  destruct b as [|x b]; [discriminate|]. simpl. rewrite (IH Hr). reflexivity.
Qed.

Lemma col_tl p (ls : list (list A)) : col p (map (@tl A) ls) = col (S p) ls.
Proof.
  unfold col. rewrite map_map. apply map_ext. intros [|x b]; [destruct p; reflexivity|reflexivity].
Qed.

Lemma zipstar_aux_all n : forall ls : list (list A),
  Forall (fun b => length b = n) ls -> zipstar_aux n ls = map (fun p => col p ls) (seq 0 n).
Proof.
  induction n as [|n IH]; intros ls H; [reflexivity|].
  cbn [zipstar_aux]. rewrite (heads_all n ls H).
  rewrite IH.
  - cbn [seq map]. f_equal. rewrite <- seq_shift, map_map. apply map_ext. intro p. apply col_tl.
  - apply Forall_map. eapply Forall_impl; [|exact H]. intros [|x b] Hb; simpl in *; lia.
Qed.

Lemma zipstar_all n (ls : list (list A)) : ls <> [] ->
  Forall (fun b => length b = n) ls -> zipstar ls = map (fun p => col p ls) (seq 0 n).
Proof.
  intros Hne H. destruct ls as [|l r]; [congruence|]. unfold zipstar.
  rewrite (Forall_inv H). apply zipstar_aux_all. exact H.
Qed.
End Zip.

(* ------------------------------------------------------------------ sum / max *)
Open Scope Qc_scope.

Lemma qsum_app l x : qsum (l ++ [x]) = qsum l + x.
Proof. unfold qsum. rewrite fold_left_app. reflexivity. Qed.

Lemma qsum_qsumn l : qsum l = qsumn (length l) (fun k => nth k l 0).
Proof.
  induction l as [|x l IH] using rev_ind; [reflexivity|].
  rewrite qsum_app, app_length, Nat.add_1_r. cbn [qsumn].
  rewrite IH. rewrite app_nth2, Nat.sub_diag by lia. cbn [nth].
  f_equal. apply qsumn_ext. intros k Hk. rewrite app_nth1 by exact Hk. reflexivity.
Qed.

Lemma qsumn_extend m n f : (m <= n)%nat -> (forall k, (m <= k < n)%nat -> f k = 0) -> qsumn n f = qsumn m f.
Proof.
  intros Hmn. induction n as [|n IH]; intro H.
  - assert (m = 0)%nat by lia. subst. reflexivity.
  - destruct (Nat.eq_dec m (S n)) as [E|E]; [subst; reflexivity|].
    cbn [qsumn]. rewrite IH by (try lia; intros; apply H; lia). rewrite H by lia. ring.
Qed.

Lemma qmax_fold F : forall h a,
  fold_left qmax2 (map F (seq (S a) h)) (qmax_upto a F) = qmax_upto (a + h) F.
Proof.
  induction h as [|h IH]; intro a; [rewrite Nat.add_0_r; reflexivity|].
  cbn [seq map fold_left]. change (qmax2 (qmax_upto a F) (F (S a))) with (qmax_upto (S a) F).
  rewrite IH. f_equal. lia.
Qed.

Lemma qmax_list_seq F n : qmax_list (map F (seq 0 (S n))) = Some (qmax_upto n F).
Proof. cbn [seq map qmax_list]. f_equal. apply (qmax_fold F n 0). Qed.

Lemma qmax_upto_ext n : forall F G, (forall p, (p <= n)%nat -> F p = G p) -> qmax_upto n F = qmax_upto n G.
Proof.
  induction n as [|n IH]; intros F G H; cbn [qmax_upto]; [apply H; lia|].
  rewrite (IH F G), H by (intros; try apply H; lia). reflexivity.
Qed.

Lemma Qcabs_0 : Qcabs 0 = 0.
Proof. apply Qc_is_canon. reflexivity. Qed.

(* ------------------------------------------------------------------ the gain *)
Theorem wnd_gain_spec (hop : nat) (w : list Qc) :
  (1 <= hop)%nat -> w <> [] -> wnd_gain hop w = Some (gain_spec hop w).
Proof.
  intros Hh Hne. unfold wnd_gain, gain_spec.
  rewrite (blocks_model_eq_spec Qc hop hop 0 (map Qcabs w)) by lia.
  set (a := map Qcabs w). set (BS := blocks_spec hop hop 0 a).
  assert (Hane : a <> []) by (unfold a; destruct w; [congruence|discriminate]).
  assert (Hlen : Forall (fun b => length b = hop) BS).
  { apply Forall_forall. intros b Hb. apply (blocks_all_length_size Qc hop hop 0 a); try lia. exact Hb. }
  assert (Hcov : (length a <= length BS * hop)%nat).
  { pose proof (blocks_cover hop hop 0 a). fold BS in H. lia. }
  assert (Hcnt : (length BS <= length a)%nat) by (apply blocks_count_le; [lia|exact Hane]).
  assert (HBne : BS <> []).
  { intro E. rewrite E in Hcov. simpl in Hcov. destruct a; [congruence|simpl in Hcov; lia]. }
  rewrite (zipstar_all 0 hop BS HBne Hlen). rewrite map_map.
  destruct hop as [|h]; [lia|].
  rewrite qmax_list_seq. f_equal. replace (S h - 1)%nat with h by lia.
  apply qmax_upto_ext. intros p Hp.
  rewrite qsum_qsumn. unfold col. rewrite map_length.
  unfold strided_abs_sum.
  assert (La : length a = length w) by (unfold a; apply map_length).
  rewrite (qsumn_extend (length BS) (length w)).
  - apply qsumn_ext. intros k Hk.
    rewrite (nth_map_in _ _ _ []) by exact Hk.
    unfold BS. rewrite blocks_nth by (fold BS; lia).
    unfold a. rewrite <- Qcabs_0 at 1. rewrite map_nth. f_equal. f_equal. lia.
  - lia.
  - intros k Hk. rewrite nth_overflow; [apply Qcabs_0|]. nia.
Qed.
