(* C09 - the proved statements, each closed by [exact] on a lemma of Proofs*.v.
   Statements are over Model.v (the code) and Spec.v (the text) only.
   gc is the value of the library's float expression 1/ceil(size/hop): every theorem holds for every gc. *)
From Coq Require Import String.
From Coq Require Import List Bool Arith ZArith QArith Qcanon.
From AL Require Import Base.CaseLib C08.Model C08.Spec C09.Model C09.Spec C09.Check
  C09.ProofsOla C09.ProofsBlocks C09.ProofsMain C09.ProofsRecon C09.ProofsDict C09.ProofsRoute
  C09.ProofsStft C09.ProofsIdent C09.ProofsGain.
Import ListNotations.

(* ---------------------------------------------------------------- overlap-add *)
(* Central theorem.  For every size, hop with 1 <= hop <= size, every usable window argument (none, any
   iterable, any callable; w = the window it denotes), normalise on/off, every gc and every list of blocks of
   length size: the generator model of overlap_add.list yields exactly the list
   [ sum_k g*w[n-k*hop]*B_k[n-k*hop] | n < m*hop+size-hop ] and ends without an exception. *)
Theorem C09_ola_closed_form : forall size hop wnd w normalize gc blks,
  (1 <= hop <= size)%nat -> Forall (fun b => length b = size) blks -> spec_wnd size wnd = Some w ->
  ola_model (Some size) (Some hop) wnd normalize gc blks None
  = (ola_spec size hop (spec_gw size hop w normalize gc) blks, None).
Proof. exact ola_model_closed_form. Qed.
Print Assumptions C09_ola_closed_form.

(* the same, sample by sample, with the sum written out *)
Theorem C09_ola_pointwise : forall size hop wnd w normalize gc blks n,
  (1 <= hop <= size)%nat -> Forall (fun b => length b = size) blks -> spec_wnd size wnd = Some w ->
  (n < length blks * hop + size - hop)%nat ->
  nth n (fst (ola_model (Some size) (Some hop) wnd normalize gc blks None)) 0%Qc
  = qsumn (length blks) (fun k =>
      if (k * hop <=? n)%nat && (n <? k * hop + size)%nat
      then (nth (n - k * hop) (spec_gw size hop w normalize gc) 0 * nth (n - k * hop) (nth k blks []) 0)%Qc
      else 0%Qc).
Proof. exact ola_pointwise. Qed.
Print Assumptions C09_ola_pointwise.

(* exactly m*hop + size - hop samples (m = 0 included: size - hop zeros) *)
Theorem C09_ola_length : forall size hop wnd w normalize gc blks,
  (1 <= hop <= size)%nat -> Forall (fun b => length b = size) blks -> spec_wnd size wnd = Some w ->
  length (fst (ola_model (Some size) (Some hop) wnd normalize gc blks None))
  = (length blks * hop + size - hop)%nat.
Proof. exact ola_length. Qed.
Print Assumptions C09_ola_length.

(* size / hop defaulted or detected, all in one: wherever the text promises something
   (ola_promise, the function the harness evaluates on every case), the model delivers it *)
Theorem C09_ola_model_meets_promise : forall size hop wnd normalize gc blks out,
  ola_promise size hop wnd normalize gc blks = Some out ->
  ola_model size hop wnd normalize gc blks None = (out, None).
Proof. exact ola_model_meets_promise. Qed.
Print Assumptions C09_ola_model_meets_promise.

(* the gain computed through blocks(hop) / zip / sum / max is the largest hop-strided sum of |w| *)
Theorem C09_ola_gain_spec : forall hop w, (1 <= hop)%nat -> w <> [] ->
  wnd_gain hop w = Some (gain_spec hop w) /\
  (exists p, (p < hop)%nat /\ gain_spec hop w = strided_abs_sum hop w p) /\
  (forall p, (p < hop)%nat -> (strided_abs_sum hop w p <= gain_spec hop w)%Qc).
Proof. exact (fun hop w Hh Hw => conj (wnd_gain_spec hop w Hh Hw) (gain_spec_is_max hop w Hh)). Qed.
Print Assumptions C09_ola_gain_spec.

(* g*w: 1*w without normalisation, w/gain with it (left alone when the gain is 0),
   and the constant gc (resp. 1) when no window is given *)
Theorem C09_ola_effective_window : forall size hop w normalize gc,
  spec_gw size hop (Some w) false gc = w /\
  spec_gw size hop (Some w) true gc
    = (if Qc_eqb (gain_spec hop w) 0%Qc then w else map (fun v => (/ gain_spec hop w * v)%Qc) w) /\
  spec_gw size hop None normalize gc = repeat (if normalize then gc else 1%Qc) size.
Proof. exact (fun size hop w normalize gc => conj eq_refl (conj eq_refl eq_refl)). Qed.
Print Assumptions C09_ola_effective_window.

(* the float 1/c: exact for powers of two, otherwise the nearest 53-bit mantissa *)
Theorem C09_float_recip_pow2 : forall l : Z, (0 <= l)%Z -> float_recip (2 ^ l) = Q2Qc (1 # Z.to_pos (2 ^ l)).
Proof. exact float_recip_pow2. Qed.
Print Assumptions C09_float_recip_pow2.

Theorem C09_float_recip_nearest : forall c : Z, (1 <= c)%Z -> c <> (2 ^ Z.log2 c)%Z ->
  let k := (Z.log2 c + 53)%Z in
  let m := ((2 * 2 ^ k + c) / (2 * c))%Z in
  float_recip c = Q2Qc (m # Z.to_pos (2 ^ k)) /\
  (2 ^ 52 <= m <= 2 ^ 53)%Z /\ (2 * Z.abs (m * c - 2 ^ k) <= c)%Z.
Proof. exact float_recip_nearest. Qed.
Print Assumptions C09_float_recip_nearest.

(* a block whose length is not size: ValueError, after exactly the samples of the good prefix *)
Theorem C09_ola_bad_block_rejected : forall size hop wnd w normalize gc good bad rest tail,
  (1 <= hop <= size)%nat -> Forall (fun b => length b = size) good -> length bad <> size ->
  spec_wnd size wnd = Some w ->
  ola_model (Some size) (Some hop) wnd normalize gc (good ++ bad :: rest) tail
  = (firstn (length good * hop) (ola_spec size hop (spec_gw size hop w normalize gc) good), Some ValueError).
Proof. exact ola_bad_block_rejected. Qed.
Print Assumptions C09_ola_bad_block_rejected.

(* ---------------------------------------------------------------- blocking then overlap-add *)
(* w's hop-shifted copies sum to one, no normalisation: output n = x n on every n covered by all of its
   blocks (size - hop <= n < m*hop); blocks = the C08 model of lazy_misc.blocks (its closed form is used).
   The signal is read zero-extended (nth n sig 0), which is what the padded last block holds. *)
Theorem C09_blocks_then_ola_reconstructs : forall size hop wnd w gc (sig : list Qc) n,
  (1 <= hop <= size)%nat -> spec_wnd size wnd = Some (Some w) ->
  (forall p, (p < hop)%nat -> qsumn size (fun j => nth (p + j * hop) w 0%Qc) = 1%Qc) ->
  let blks := blocks_model size hop 0%Qc sig in
  (size - hop <= n < length blks * hop)%nat ->
  nth n (fst (ola_model (Some size) (Some hop) wnd false gc blks None)) 0%Qc = nth n sig 0%Qc.
Proof. exact blocks_then_ola_reconstructs. Qed.
Print Assumptions C09_blocks_then_ola_reconstructs.

(* and those n reach the end of the signal *)
Theorem C09_blocks_reach : forall size hop (sig : list Qc), (1 <= hop <= size)%nat ->
  (length sig <= length (blocks_model size hop 0%Qc sig) * hop + (size - hop))%nat.
Proof. exact blocks_reach. Qed.
Print Assumptions C09_blocks_reach.

(* ---------------------------------------------------------------- stft wrapper *)
(* blk_gen: window first, then before / transform / func / inverse_transform / after *)
Theorem C09_stft_windows_before_func : forall size hop wnd w bef tr func itr aft (sig : list Qc),
  (1 <= size)%nat -> (1 <= match hop with Some h => h | None => size end)%nat ->
  stft_resolve_wnd size wnd = inr w ->
  stft_blkgen size hop wnd bef tr (Some func) itr aft sig
  = (map (fun b => opt_app aft (opt_app itr (func (opt_app tr (opt_app bef
                     (match w with None => b | Some wl => map2 Qcmult b wl end))))))
         (blocks_spec size (match hop with Some h => h | None => size end) 0%Qc sig), None).
Proof. exact stft_blkgen_chain. Qed.
Print Assumptions C09_stft_windows_before_func.

(* keyword layers (decorator / partial / direct): the last layer giving a keyword wins *)
Theorem C09_stft_later_layers_override : forall (F W : Type) (ls : list (kwl F W)) q,
  dict_get (merge_layers ls) q = spec_lookup ls q.
Proof. exact (@merge_layers_lookup). Qed.
Print Assumptions C09_stft_later_layers_override.

(* routing: with size given, hop fitting, no keyword other than the wrapper's own and ola_-prefixed ones
   (none of the latter when ola=None), the overlap-add is called with exactly: size, hop (None if not
   given) and every ola_X as X (an ola_size / ola_hop replaces size / hop) *)
Theorem C09_stft_ola_routing : forall (F W : Type) (layers : list (kwl F W)) vsize,
  spec_lookup layers "size" = Some vsize ->
  layer_hop_fits layers vsize ->
  (forall k, In k (all_keys layers) -> is_own k = true \/ is_ola_key k = true) ->
  (spec_lookup layers "ola" = Some VNone -> forall k, In k (all_keys layers) -> is_ola_key k = false) ->
  exists op,
    stft_route (merge_layers layers)
    = inr (Route vsize (opt_default (spec_lookup layers "hop") VNone) (opt_default (spec_lookup layers "wnd") VNone)
                 (spec_lookup layers "ola") (spec_lookup layers "transform") (spec_lookup layers "inverse_transform")
                 (spec_lookup layers "before") (spec_lookup layers "after") op) /\
    forall q, dict_get op q = spec_ola_param layers q.
Proof. exact (@stft_layers_route). Qed.
Print Assumptions C09_stft_ola_routing.

(* conversely the wrapper only succeeds in that situation *)
Theorem C09_stft_route_only_if : forall (F W : Type) (kws : kwl F W) r,
  stft_route kws = inr r ->
  dict_get kws "size" = Some (r_size r) /\
  (forall h s, dict_get kws "hop" = Some (VNat h) -> r_size r = VNat s -> (h <= s)%nat) /\
  (forall k, In k (map fst kws) -> is_own k = true \/ is_ola_key k = true) /\
  (dict_get kws "ola" = Some VNone -> forall k, In k (map fst kws) -> is_ola_key k = false).
Proof. exact (@stft_route_inr). Qed.
Print Assumptions C09_stft_route_only_if.

Theorem C09_stft_missing_size_TypeError : forall (F W : Type) (layers : list (kwl F W)),
  spec_lookup layers "size" = None -> stft_route (merge_layers layers) = inl TypeError.
Proof. exact (@stft_layers_no_size). Qed.
Print Assumptions C09_stft_missing_size_TypeError.

Theorem C09_stft_hop_gt_size_ValueError : forall (F W : Type) (layers : list (kwl F W)) h s,
  spec_lookup layers "size" = Some (VNat s) -> spec_lookup layers "hop" = Some (VNat h) -> (s < h)%nat ->
  stft_route (merge_layers layers) = inl ValueError.
Proof. exact (@stft_layers_hop_gt_size). Qed.
Print Assumptions C09_stft_hop_gt_size_ValueError.

(* an unknown keyword, or an ola_ keyword with ola=None: TypeError *)
Theorem C09_stft_bad_key_TypeError : forall (F W : Type) (layers : list (kwl F W)) vsize,
  spec_lookup layers "size" = Some vsize -> layer_hop_fits layers vsize ->
  (exists k, In k (all_keys layers) /\ is_own k = false /\
             (is_ola_key k = false \/ spec_lookup layers "ola" = Some VNone)) ->
  stft_route (merge_layers layers) = inl TypeError.
Proof. exact (@stft_layers_bad_key). Qed.
Print Assumptions C09_stft_bad_key_TypeError.

(* the whole wrapper: wherever the text promises something (stft_promise, evaluated by the harness on
   every case) the model delivers it: the blocks (ola=None), the blocks and options a user overlap-add
   receives, the samples overlap_add.list produces.  For all stage functions and window objects. *)
Theorem C09_stft_model_meets_promise : forall (F W : Type) (f1 : F -> list Qc -> list Qc)
    (f2 : F -> list Qc -> nat -> list Qc) (wsem : W -> wndarg) (falsy : F -> bool) gc (layers : list (kwl F W)) func sig,
  match stft_promise f1 f2 wsem falsy gc layers func sig with
  | PSilent => True
  | PBlocks b => stft_model f1 f2 wsem falsy gc layers func sig = SBlocks b None
  | PUser id b => exists op, stft_model f1 f2 wsem falsy gc layers func sig = SUser id op b None /\
                             forall q, dict_get op q = spec_ola_param layers q
  | PSamples out => stft_model f1 f2 wsem falsy gc layers func sig = SSamples out None
  end.
Proof. exact (@stft_model_meets_promise). Qed.
Print Assumptions C09_stft_model_meets_promise.

(* histories: one partial object used as a factory several times, one processor called several times: the model
   of each call depends on the layers of its own chain only, so every call of any history meets its promise *)
Theorem C09_stft_calls_independent : forall (F W : Type) (f1 : F -> list Qc -> list Qc)
    (f2 : F -> list Qc -> nat -> list Qc) (wsem : W -> wndarg) (falsy : F -> bool) gc (calls : list (list (kwl F W) * F * list Qc)),
  Forall (call_ok f1 f2 wsem falsy gc) calls.
Proof. exact (@stft_calls_independent). Qed.
Print Assumptions C09_stft_calls_independent.

(* identity block processing (stages None, func = identity, no analysis window), overlap_add.list with a
   window whose hop-shifted copies sum to one and no normalisation, in any calling style:
   the output is the input on every sample covered by all of its blocks *)
Theorem C09_stft_identity_reconstructs : forall (F W : Type) (f1 : F -> list Qc -> list Qc)
    (f2 : F -> list Qc -> nat -> list Qc) (wsem : W -> wndarg) (falsy : F -> bool) gc (layers : list (kwl F W)) func
    (sig : list Qc) size hop Wd w,
  (1 <= hop <= size)%nat ->
  spec_lookup layers "size" = Some (VNat size) ->
  match spec_lookup layers "hop" with None => hop = size | Some v => v = VNat hop end ->
  (forall k, In k (all_keys layers) -> In k ident_keys) ->
  spec_lookup layers "transform" = Some VNone -> spec_lookup layers "inverse_transform" = Some VNone ->
  spec_lookup layers "before" = Some VNone -> spec_lookup layers "after" = Some VNone ->
  match spec_lookup layers "wnd" with None => True | Some v => v = VNone end ->
  spec_lookup layers "ola" = Some (VOla OlaList) ->
  spec_lookup layers "ola_wnd" = Some (VWnd Wd) -> spec_wnd size (wsem Wd) = Some (Some w) ->
  (forall p, (p < hop)%nat -> qsumn size (fun j => nth (p + j * hop) w 0%Qc) = 1%Qc) ->
  spec_lookup layers "ola_normalize" = Some (VBool false) ->
  (forall x, f1 func x = x) ->
  exists out,
    stft_model f1 f2 wsem falsy gc layers func sig = SSamples out None /\
    length out = (length (blocks_model size hop 0%Qc sig) * hop + size - hop)%nat /\
    forall n, (size - hop <= n < length (blocks_model size hop 0%Qc sig) * hop)%nat ->
              nth n out 0%Qc = nth n sig 0%Qc.
Proof. exact (@stft_identity_reconstructs). Qed.
Print Assumptions C09_stft_identity_reconstructs.

(* ---------------------------------------------------------------- non-vacuity *)
(* three overlapping blocks, a window with a negative entry, normalised: gain = max(|1|+|-1/2|, |2|) = 2 *)
Definition C09_ex_case : ocase :=
  OC (Some 3%nat) (Some 2%nat) (WIter [qc 1 1; qc 2 1; qc (-1) 2]) true (qc 1 2)
     [[qc 1 1; qc 2 1; qc 3 1]; [qc 4 1; qc 5 1; qc 6 1]; [qc 7 1; qc 8 1; qc 9 1]]
     [qc 1 2; qc 2 1; qc 5 4; qc 5 1; qc 2 1; qc 8 1; qc (-9) 4] None.
Example C09_example_ola : corr_ola C09_ex_case = true /\ holds_ola C09_ex_case = true /\
  ola_promise (o_size C09_ex_case) (o_hop C09_ex_case) (o_wnd C09_ex_case) true (qc 1 2) (o_blks C09_ex_case) <> None.
Proof. split; [|split]; vm_compute; [reflexivity|reflexivity|discriminate]. Qed.
Print Assumptions C09_example_ola.

(* a bad block in second position: one hop of output, then ValueError *)
Example C09_example_bad_block :
  corr_ola (OC (Some 3%nat) (Some 2%nat) WNone false (qc 1 2)
               [[qc 1 1; qc 2 1; qc 3 1]; [qc 4 1; qc 5 1]; [qc 7 1; qc 8 1; qc 9 1]]
               [qc 1 1; qc 2 1] (Some "ValueError")) = true.
Proof. vm_compute. reflexivity. Qed.
Print Assumptions C09_example_bad_block.

(* a window (with a negative entry) whose hop-shifted copies sum to one: size 4, hop 2 *)
Definition C09_ex_cola : list Qc := [qc (-1) 2; qc 1 3; qc 3 2; qc 2 3].
Example C09_example_cola : forall p, (p < 2)%nat ->
  qsumn 4 (fun j => nth (p + j * 2) C09_ex_cola 0%Qc) = 1%Qc.
Proof.
  intros p Hp. destruct p as [|[|p]]; [apply Qc_eqb_spec; vm_compute; reflexivity
                                      |apply Qc_eqb_spec; vm_compute; reflexivity|].
  exfalso. apply (Nat.lt_irrefl 2). eapply Nat.le_lt_trans; [|exact Hp]. apply le_n_S, le_n_S, Nat.le_0_l.
Qed.
Print Assumptions C09_example_cola.

(* the stft wrapper in partial style, identity processing, that window for the overlap-add:
   five samples in, blocks [1 2 3 4] [3 4 5 0]; samples 2..3 are covered by both blocks *)
Definition C09_ex_layers : list ckwl :=
  [[("size", VNat 4); ("hop", VNat 1); ("ola", VOla OlaList); ("before", VNone); ("after", VNone)];
   [("hop", VNat 2); ("transform", VNone); ("inverse_transform", VNone);
    ("ola_wnd", VWnd (DIter C09_ex_cola)); ("ola_normalize", VBool false)];
   []].
Definition C09_ex_sig : list Qc := [qc 1 1; qc 2 1; qc 3 1; qc 4 1; qc 5 1].
Example C09_example_stft :
  match stft_model f1 f2 wsem falsy (qc 1 2) C09_ex_layers FId C09_ex_sig with
  | SSamples out None =>
      length out = 6%nat /\ forallb (fun n => Qc_eqb (nth n out 0%Qc) (nth n C09_ex_sig 0%Qc)) [2; 3]%nat = true
  | _ => False
  end /\
  match stft_promise f1 f2 wsem falsy (qc 1 2) C09_ex_layers FId C09_ex_sig with PSamples _ => True | _ => False end.
Proof. vm_compute. split; [split; reflexivity|exact I]. Qed.
Print Assumptions C09_example_stft.

(* routing seen by a user overlap-add: ola_size replaces size, ola_zz arrives as zz, the later hop wins *)
Example C09_example_routing :
  match stft_model f1 f2 wsem falsy (qc 1 2)
          [[("size", VNat 3); ("hop", VNat 3); ("ola", VOla (OlaUser 1)); ("ola_zz", VOpaque 5)];
           [("hop", VNat 2); ("transform", VNone); ("inverse_transform", VNone); ("before", VNone);
            ("after", VNone); ("ola_size", VNat 9); ("wnd", VWnd (DIter [qc 1 1; qc 2 1; qc 3 1]))]]
          FRev [qc 1 1; qc 2 1; qc 3 1; qc 4 1] with
  | SUser 1 op b None =>
      dict_eqb op [("size", VNat 9); ("hop", VNat 2); ("zz", VOpaque 5)] = true /\
      blocks_eqb b [[qc 9 1; qc 4 1; qc 1 1]; [qc 0 1; qc 8 1; qc 3 1]] = true
  | _ => False
  end.
Proof. vm_compute. split; reflexivity. Qed.
Print Assumptions C09_example_routing.

(* the three ways of raising *)
Example C09_example_errors :
  stft_model f1 f2 wsem falsy (qc 1 2) [[("hop", VNat 2)]; []] FId [] = SCallRaise TypeError /\
  stft_model f1 f2 wsem falsy (qc 1 2) [[("size", VNat 2)]; [("hop", VNat 3)]] FId [] = SCallRaise ValueError /\
  stft_model f1 f2 wsem falsy (qc 1 2) [[("size", VNat 2); ("foo", VNone)]; []] FId [] = SCallRaise TypeError /\
  stft_model f1 f2 wsem falsy (qc 1 2) [[("size", VNat 2); ("ola", VNone)]; [("ola_wnd", VNone)]] FId [] = SCallRaise TypeError.
Proof. vm_compute. repeat split. Qed.
Print Assumptions C09_example_errors.

(* the float constant for ceil(size/hop) = 3 and 4 *)
Example C09_example_float_recip :
  float_recip (ceil_div 5 2) = qc 6004799503160661 18014398509481984 /\ float_recip (ceil_div 4 1) = qc 1 4.
Proof. split; apply Qc_eqb_spec; vm_compute; reflexivity. Qed.
Print Assumptions C09_example_float_recip.
