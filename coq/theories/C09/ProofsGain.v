(* C09 - proofs, part 9: the gain is a maximum; the float constant 1/ceil(size/hop). *)
From Coq Require Import String.
From Coq Require Import List Bool Arith ZArith QArith Qcanon Lia.
From AL Require Import Base.CaseLib C09.Model C09.Spec C09.ProofsOla C09.ProofsBlocks.
Import ListNotations.

Lemma qcmax_cases a b : (qcmax a b = a /\ (b <= a)%Qc) \/ (qcmax a b = b /\ (a <= b)%Qc).
Proof.
  unfold qcmax. destruct (Qc_ltb a b) eqn:E.
  - right. split; [reflexivity|]. apply Qc_ltb_spec in E. apply Qclt_le_weak. exact E.
  - left. split; [reflexivity|]. apply Qcnot_lt_le. intro H. apply Qc_ltb_spec in H. congruence.
Qed.

Lemma qmax_upto_spec n : forall F,
  (exists p, (p <= n)%nat /\ qmax_upto n F = F p) /\ (forall p, (p <= n)%nat -> (F p <= qmax_upto n F)%Qc).
Proof.
  induction n as [|n IH]; intro F; cbn [qmax_upto].
  - split; [exists 0%nat; split; [lia|reflexivity]|].
    intros p Hp. assert (p = 0)%nat by lia. subst. apply Qcle_refl.
  - destruct (IH F) as [(p0 & Hp0 & E0) Hall].
    destruct (qcmax_cases (qmax_upto n F) (F (S n))) as [[E L]|[E L]]; rewrite E.
    + split; [exists p0; split; [lia|exact E0]|].
      intros p Hp. destruct (Nat.eq_dec p (S n)) as [->|Hne]; [exact L|apply Hall; lia].
    + split; [exists (S n); split; [lia|reflexivity]|].
      intros p Hp. destruct (Nat.eq_dec p (S n)) as [->|Hne]; [apply Qcle_refl|].
      eapply Qcle_trans; [apply Hall; lia|exact L].
Qed.

(* the normalisation gain is the largest hop-strided sum of |w| *)
Theorem gain_spec_is_max hop w : (1 <= hop)%nat ->
  (exists p, (p < hop)%nat /\ gain_spec hop w = strided_abs_sum hop w p) /\
  (forall p, (p < hop)%nat -> (strided_abs_sum hop w p <= gain_spec hop w)%Qc).
Proof.
  intro Hh. unfold gain_spec.
  destruct (qmax_upto_spec (hop - 1) (strided_abs_sum hop w)) as [(p & Hp & E) Hall].
  split; [exists p; split; [lia|exact E]|]. intros q Hq. apply Hall. lia.
Qed.

(* ------------------------------------------------------------------ float_recip *)
Open Scope Z_scope.

(* c a power of two: the quotient is exact *)
Lemma float_recip_pow2 (l : Z) : 0 <= l -> float_recip (2 ^ l) = Q2Qc (1 # Z.to_pos (2 ^ l)).
Proof.
  intro Hl. unfold float_recip. rewrite Z.log2_pow2 by exact Hl. rewrite Z.eqb_refl. reflexivity.
Qed.

(* otherwise the result is m / 2^k with a 53-bit mantissa m nearest to 2^k / c *)
Lemma float_recip_nearest (c : Z) : 1 <= c -> c <> 2 ^ Z.log2 c ->
  let k := Z.log2 c + 53 in
  let m := (2 * 2 ^ k + c) / (2 * c) in
  float_recip c = Q2Qc (m # Z.to_pos (2 ^ k)) /\
  2 ^ 52 <= m <= 2 ^ 53 /\ 2 * Z.abs (m * c - 2 ^ k) <= c.
Proof.
  intros Hc Hne k m. split.
  - unfold float_recip. destruct (Z.eqb_spec c (2 ^ Z.log2 c)); [contradiction|reflexivity].
  - destruct (Z.log2_spec c) as [Hlo Hhi]; [lia|].
    set (l := Z.log2 c) in *. assert (Hl : 0 <= l) by apply Z.log2_nonneg.
    assert (Hk : 2 ^ k = 2 ^ l * 2 ^ 53) by (unfold k; apply Z.pow_add_r; lia).
    rewrite Z.pow_succ_r in Hhi by exact Hl.
    assert (Hpos : 0 < 2 ^ l) by (apply Z.pow_pos_nonneg; lia).
    assert (H53 : 2 ^ 53 = 9007199254740992) by reflexivity.
    assert (H52 : 2 ^ 52 = 4503599627370496) by reflexivity.
    pose proof (Z.div_mod (2 * 2 ^ k + c) (2 * c)) as D. fold m in D.
    pose proof (Z.mod_pos_bound (2 * 2 ^ k + c) (2 * c)) as B.
    rewrite Hk in *. rewrite H53, H52 in *. split; [split|]; nia.
Qed.
