(* C09 - proofs, part 1: the shift-add loop of overlap_add.list computes the windowed hop-shifted sum. *)
From Coq Require Import String.
From Coq Require Import List Bool Arith ZArith QArith Qcanon Lia.
From AL Require Import Base.CaseLib C09.Model C09.Spec.
Import ListNotations.
Open Scope Qc_scope.

(* ------------------------------------------------------------------ lists *)
Lemma map2_length {A B C : Type} (f : A -> B -> C) : forall a b,
  length (map2 f a b) = Nat.min (length a) (length b).
Proof. induction a as [|x a IH]; intros [|y b]; simpl; auto. Qed.

Lemma map2_nth {A B C : Type} (f : A -> B -> C) da db dc : forall a b j,
  (j < length a)%nat -> (j < length b)%nat -> nth j (map2 f a b) dc = f (nth j a da) (nth j b db).
Proof.
  induction a as [|x a IH]; intros [|y b] j Ha Hb; simpl in *; try lia.
  destruct j; [reflexivity|]. apply IH; lia.
Qed.

Lemma nth_skipn_add {A : Type} (d : A) : forall n l j, nth j (skipn n l) d = nth (n + j) l d.
Proof.
  induction n as [|n IH]; intros l j; [reflexivity|].
  destruct l as [|x l]; simpl; [destruct j; reflexivity|]. apply IH.
Qed.

Lemma nth_firstn_lt {A : Type} (d : A) : forall k l j, (j < k)%nat -> nth j (firstn k l) d = nth j l d.
Proof.
  induction k as [|k IH]; intros l j H; [lia|].
  destruct l as [|x l]; [reflexivity|]. destruct j; simpl; [reflexivity|]. apply IH; lia.
Qed.

Lemma nth_repeat_same {A : Type} (x : A) : forall n j, nth j (repeat x n) x = x.
Proof. induction n; intros [|j]; simpl; auto. Qed.

Lemma firstn_app_exact {A : Type} (a b : list A) n : length a = n -> firstn n (a ++ b) = a.
Proof.
  intro H. subst n. rewrite firstn_app, Nat.sub_diag, firstn_all. simpl. apply app_nil_r.
Qed.

(* ------------------------------------------------------------------ finite sums *)
Lemma qsumn_ext m : forall f g, (forall k, (k < m)%nat -> f k = g k) -> qsumn m f = qsumn m g.
Proof.
  induction m as [|m IH]; intros f g H; simpl; [reflexivity|].
  rewrite (IH f g), H by (intros; try apply H; lia). reflexivity.
Qed.

Lemma qsumn_zero m f : (forall k, (k < m)%nat -> f k = 0) -> qsumn m f = 0.
Proof.
  induction m as [|m IH]; intro H; simpl; [reflexivity|].
  rewrite IH, H by (intros; try apply H; lia). ring.
Qed.

Lemma qsumn_shift m : forall f, qsumn (S m) f = f O + qsumn m (fun k => f (S k)).
Proof.
  induction m as [|m IH]; intro f; [simpl; ring|].
  change (qsumn (S (S m)) f) with (qsumn (S m) f + f (S m)). rewrite IH. simpl. ring.
Qed.

Lemma qsumn_plus m f g : qsumn m (fun k => f k + g k) = qsumn m f + qsumn m g.
Proof. induction m as [|m IH]; simpl; [ring|]. rewrite IH. ring. Qed.

Lemma qsumn_scal m c f : qsumn m (fun k => c * f k) = c * qsumn m f.
Proof. induction m as [|m IH]; simpl; [ring|]. rewrite IH. ring. Qed.

(* ------------------------------------------------------------------ one loop iteration *)
Lemma ola_step_spec size hop mem blk :
  (hop <= size)%nat -> length mem = size -> length blk = size ->
  length (ola_step size hop mem blk) = size /\
  forall j, nth j (ola_step size hop mem blk) 0 = nth (hop + j) mem 0 + nth j blk 0.
Proof.
  intros Hh Hm Hb. unfold ola_step.
  assert (HX : length (map2 Qcplus (skipn hop mem) blk) = (size - hop)%nat).
  { rewrite map2_length, skipn_length. lia. }
  rewrite (firstn_app_exact _ _ _ HX). split.
  - rewrite app_length, HX, skipn_length. lia.
  - intro j. destruct (Nat.lt_ge_cases j (size - hop)) as [Hj|Hj].
    + rewrite app_nth1 by lia.
      rewrite (map2_nth Qcplus 0 0 0) by (rewrite ?skipn_length; lia).
      rewrite nth_skipn_add. reflexivity.
    + rewrite app_nth2 by lia. rewrite HX, nth_skipn_add.
      replace (size - hop + (j - (size - hop)))%nat with j by lia.
      rewrite (nth_overflow mem) by lia. ring.
Qed.

(* contribution of an (already windowed) block *)
Definition raw_term (size hop : nat) (blk : list Qc) (k n : nat) : Qc :=
  if (k * hop <=? n)%nat && (n <? k * hop + size)%nat then nth (n - k * hop) blk 0 else 0.

Lemma raw_term_shift size hop blk k n : (hop <= n)%nat ->
  raw_term size hop blk (S k) n = raw_term size hop blk k (n - hop).
Proof.
  intro H. unfold raw_term. rewrite Nat.mul_succ_l.
  destruct (Nat.leb_spec (k * hop + hop) n) as [A|A];
  destruct (Nat.leb_spec (k * hop) (n - hop)) as [B|B]; try lia; simpl; [|reflexivity].
  destruct (Nat.ltb_spec n (k * hop + hop + size)) as [C|C];
  destruct (Nat.ltb_spec (n - hop) (k * hop + size)) as [D|D]; try lia; [|reflexivity].
  f_equal. lia.
Qed.

Lemma raw_term_early size hop blk k n : (n < hop)%nat -> raw_term size hop blk (S k) n = 0.
Proof.
  intro H. unfold raw_term. rewrite Nat.mul_succ_l.
  destruct (Nat.leb_spec (k * hop + hop) n) as [A|A]; [lia|reflexivity].
Qed.

Lemma raw_term_0 size hop blk n : length blk = size -> raw_term size hop blk 0 n = nth n blk 0.
Proof.
  intro H. unfold raw_term. simpl. rewrite Nat.sub_0_r.
  destruct (Nat.ltb_spec n size) as [C|C]; [reflexivity|]. symmetry. apply nth_overflow. lia.
Qed.

(* the loop, for blocks of the right length and no exception ending the block stream *)
Lemma ola_loop_spec size hop : (1 <= hop <= size)%nat -> forall blks mem,
  length mem = size -> Forall (fun b => length b = size) blks ->
  exists out, ola_loop size hop None mem blks = (out, None) /\
    length out = (length blks * hop + (size - hop))%nat /\
    forall n, nth n out 0 = nth (hop + n) mem 0
                            + qsumn (length blks) (fun k => raw_term size hop (nth k blks []) k n).
Proof.
  intros Hh. induction blks as [|blk r IH]; intros mem Hm Hall.
  - exists (skipn hop mem). simpl. split; [reflexivity|]. split; [rewrite skipn_length; lia|].
    intro n. rewrite nth_skipn_add. ring.
  - pose proof (Forall_inv Hall) as Hb. pose proof (Forall_inv_tail Hall) as Hr. simpl in Hb.
    destruct (ola_step_spec size hop mem blk) as [L2 N2]; try lia; auto.
    destruct (IH (ola_step size hop mem blk) L2 Hr) as (out & E & Lo & No).
    exists (firstn hop (ola_step size hop mem blk) ++ out).
    cbn [ola_loop]. rewrite L2, Nat.eqb_refl, E. split; [reflexivity|].
    assert (LF : length (firstn hop (ola_step size hop mem blk)) = hop) by (rewrite firstn_length; lia).
    split; [rewrite app_length, LF, Lo; simpl; lia|].
    intro n. cbn [length]. rewrite qsumn_shift. cbn [nth].
    rewrite raw_term_0 by lia.
    destruct (Nat.lt_ge_cases n hop) as [Hn|Hn].
    + rewrite app_nth1 by lia. rewrite nth_firstn_lt by lia. rewrite N2.
      rewrite qsumn_zero; [ring|]. intros k _. apply raw_term_early. exact Hn.
    + rewrite app_nth2 by lia. rewrite LF, No, N2.
      replace (hop + (n - hop))%nat with n by lia.
      rewrite (qsumn_ext _ (fun k => raw_term size hop (nth k r []) (S k) n)
                           (fun k => raw_term size hop (nth k r []) k (n - hop))).
      * ring.
      * intros k _. apply raw_term_shift. exact Hn.
Qed.

(* a block that does not have the declared length stops the generator with ValueError *)
Lemma ola_step_bad size hop mem blk :
  (1 <= hop <= size)%nat -> length mem = size -> length blk <> size ->
  length (ola_step size hop mem blk) <> size.
Proof.
  intros Hh Hm Hb. unfold ola_step.
  rewrite app_length, firstn_length, app_length, map2_length, !skipn_length. lia.
Qed.

(* ------------------------------------------------------------------ windowed blocks *)
Definition wblk (gw blk : list Qc) : list Qc := map2 Qcmult (gw ++ [0]) blk.

Lemma wblk_length gw blk size : length gw = size ->
  (length (wblk gw blk) = size <-> length blk = size).
Proof. intro H. unfold wblk. rewrite map2_length, app_length, H. simpl. lia. Qed.

Lemma wblk_nth gw blk size j : length gw = size -> length blk = size ->
  nth j (wblk gw blk) 0 = nth j gw 0 * nth j blk 0.
Proof.
  intros Hg Hb. unfold wblk. destruct (Nat.lt_ge_cases j size) as [Hj|Hj].
  - rewrite (map2_nth Qcmult 0 0 0) by (rewrite ?app_length; simpl; lia).
    rewrite app_nth1 by lia. reflexivity.
  - rewrite (nth_overflow blk) by lia.
    rewrite nth_overflow by (rewrite map2_length, app_length; simpl; lia). ring.
Qed.

Lemma nth_map_in {A B : Type} (f : A -> B) l k da db : (k < length l)%nat ->
  nth k (map f l) db = f (nth k l da).
Proof. intro H. rewrite (nth_indep _ db (f da)) by (rewrite map_length; exact H). apply map_nth. Qed.

Lemma Forall_nth_len (size : nat) (blks : list (list Qc)) k :
  Forall (fun b => length b = size) blks -> (k < length blks)%nat -> length (nth k blks []) = size.
Proof. intros H Hk. rewrite Forall_forall in H. apply H. apply nth_In. exact Hk. Qed.

Lemma ola_spec_length size hop gw blks : length (ola_spec size hop gw blks) = ola_len size hop (length blks).
Proof. unfold ola_spec. rewrite map_length, seq_length. reflexivity. Qed.

Lemma ola_spec_nth size hop gw blks n : (n < ola_len size hop (length blks))%nat ->
  nth n (ola_spec size hop gw blks) 0 = ola_nth size hop gw blks n.
Proof.
  intro H. unfold ola_spec. rewrite (nth_map_in _ _ _ O) by (rewrite seq_length; exact H).
  rewrite seq_nth by exact H. reflexivity.
Qed.

(* with weights gw applied to every block *)
Lemma ola_weighted size hop gw blks :
  (1 <= hop <= size)%nat -> length gw = size -> Forall (fun b => length b = size) blks ->
  ola_loop size hop None (repeat 0 size) (map (wblk gw) blks) = (ola_spec size hop gw blks, None).
Proof.
  intros Hh Hg Hall.
  destruct (ola_loop_spec size hop Hh (map (wblk gw) blks) (repeat 0 size)) as (out & E & Lo & No).
  - apply repeat_length.
  - apply Forall_map. eapply Forall_impl; [|exact Hall]. intros b Hb. simpl in Hb.
    apply (wblk_length gw b size Hg). exact Hb.
  - rewrite E. f_equal. rewrite map_length in *.
    apply (nth_ext _ _ 0 0).
    + rewrite ola_spec_length, Lo. unfold ola_len. lia.
    + intros n Hn. rewrite ola_spec_nth by (unfold ola_len; lia).
      rewrite No, nth_repeat_same. unfold ola_nth.
      rewrite (qsumn_ext _ _ (fun k => ola_term size hop gw (nth k blks []) k n)); [ring|].
      intros k Hk. rewrite (nth_map_in _ _ _ []) by exact Hk.
      unfold raw_term, ola_term.
      destruct ((k * hop <=? n)%nat && (n <? k * hop + size)%nat); [|reflexivity].
      apply (wblk_nth _ _ size); [exact Hg|]. apply Forall_nth_len; assumption.
Qed.

Lemma nth_repeat_lt {A : Type} (x d : A) n j : (j < n)%nat -> nth j (repeat x n) d = x.
Proof. intro H. rewrite (nth_indep _ d x) by (rewrite repeat_length; exact H). apply nth_repeat_same. Qed.

(* no window, no normalisation: the blocks are added as they are (weights 1) *)
Lemma ola_unweighted size hop blks :
  (1 <= hop <= size)%nat -> Forall (fun b => length b = size) blks ->
  ola_loop size hop None (repeat 0 size) blks = (ola_spec size hop (repeat 1 size) blks, None).
Proof.
  intros Hh Hall.
  destruct (ola_loop_spec size hop Hh blks (repeat 0 size)) as (out & E & Lo & No).
  - apply repeat_length.
  - exact Hall.
  - rewrite E. f_equal. apply (nth_ext _ _ 0 0).
    + rewrite ola_spec_length, Lo. unfold ola_len. lia.
    + intros n Hn. rewrite ola_spec_nth by (unfold ola_len; lia).
      rewrite No, nth_repeat_same. unfold ola_nth.
      rewrite (qsumn_ext _ _ (fun k => ola_term size hop (repeat 1 size) (nth k blks []) k n)); [ring|].
      intros k Hk. unfold raw_term, ola_term.
      destruct (Nat.leb_spec (k * hop) n) as [A|A]; simpl; [|reflexivity].
      destruct (Nat.ltb_spec n (k * hop + size)) as [B|B]; [|reflexivity].
      rewrite nth_repeat_lt by lia. ring.
Qed.

(* a block of the wrong length: everything yielded before it is the closed form of the good prefix *)
Lemma ola_loop_bad size hop bad rest tail :
  (1 <= hop <= size)%nat -> length bad <> size -> forall good mem,
  length mem = size -> Forall (fun b => length b = size) good ->
  ola_loop size hop tail mem (good ++ bad :: rest)
  = (firstn (length good * hop) (fst (ola_loop size hop None mem good)), Some ValueError).
Proof.
  intros Hh Hbad. induction good as [|b g IH]; intros mem Hm Hall.
  - cbn [app ola_loop length]. 
    destruct (Nat.eqb_spec (length (ola_step size hop mem bad)) size) as [E|E].
    + exfalso. exact (ola_step_bad size hop mem bad Hh Hm Hbad E).
    + reflexivity.
  - pose proof (Forall_inv Hall) as Hb. pose proof (Forall_inv_tail Hall) as Hg. simpl in Hb.
    destruct (ola_step_spec size hop mem b) as [L2 _]; try lia; auto.
    cbn [app ola_loop length]. rewrite L2, Nat.eqb_refl.
    rewrite (IH _ L2 Hg).
    destruct (ola_loop size hop None (ola_step size hop mem b) g) as [o e]. cbn [fst].
    f_equal.
    assert (LF : length (firstn hop (ola_step size hop mem b)) = hop) by (rewrite firstn_length; lia).
    replace (S (length g) * hop)%nat with (length (firstn hop (ola_step size hop mem b)) + length g * hop)%nat by lia.
    rewrite firstn_app_2. reflexivity.
Qed.
