(* C09 - proofs, part 6: the keyword routing of the stft wrapper. *)
From Coq Require Import String Ascii.
From Coq Require Import List Bool Arith Lia.
From AL Require Import Base.CaseLib C09.Model C09.Spec C09.ProofsDict.
Import ListNotations.
Open Scope string_scope.

(* ------------------------------------------------------------------ the ola_ prefix *)
Lemma substring_all (s : string) : substring 0 (String.length s) s = s.
Proof. induction s as [|c s IH]; simpl; [reflexivity|]. rewrite IH. reflexivity. Qed.

Lemma strip_ola_app (q : string) : strip_ola (ola_prefix ++ q) = q.
Proof. unfold strip_ola, ola_prefix. simpl. rewrite Nat.sub_0_r. apply substring_all. Qed.

Lemma is_ola_key_app (q : string) : is_ola_key (ola_prefix ++ q) = true.
Proof. unfold is_ola_key, ola_prefix. destruct q; reflexivity. Qed.

Lemma is_ola_key_inv (k : string) : is_ola_key k = true -> k = ola_prefix ++ strip_ola k.
Proof.
  unfold is_ola_key. intro H. apply String.prefix_correct in H. unfold ola_prefix in H. simpl in H.
  destruct k as [|c1 [|c2 [|c3 [|c4 k']]]]; simpl in H; try discriminate.
  inversion H. subst.
  change (String "o" (String "l" (String "a" (String "_" k')))) with (ola_prefix ++ k').
  rewrite (strip_ola_app k'). reflexivity.
Qed.

Lemma own_not_ola (q : string) : existsb (String.eqb (ola_prefix ++ q)) own_keys = false.
Proof. reflexivity. Qed.

Lemma is_own_not_ola (k : string) : is_own k = true -> is_ola_key k = false.
Proof.
  unfold is_own, own_keys. cbn [existsb]. intro H.
  repeat (apply orb_true_iff in H as [H|H]; [apply String.eqb_eq in H; subst; reflexivity|]).
  discriminate.
Qed.

Section Route.
Context {F W : Type}.
Notation val := (val F W).
Notation kwl := (kwl F W).
Notation route := (route F W).

Definition strip_kv (kv : string * val) : string * val := (strip_ola (fst kv), snd kv).

Lemma route_extra_ok : forall (rest base : kwl),
  (forall kv, In kv rest -> is_ola_key (fst kv) = true) ->
  route_extra false rest base = inr (dict_update base (map strip_kv rest)).
Proof.
  induction rest as [|[k v] rest IH]; intros base H; [reflexivity|].
  cbn [route_extra]. pose proof (H (k, v) (or_introl eq_refl)) as Hk. cbn [fst] in Hk. rewrite Hk.
  rewrite IH by (intros; apply H; right; assumption). reflexivity.
Qed.

Lemma route_extra_err b : forall (rest base : kwl) e, route_extra b rest base = inl e -> e = TypeError.
Proof.
  induction rest as [|[k v] rest IH]; intros base e; cbn [route_extra]; [discriminate|].
  destruct (is_ola_key k); [|congruence]. destruct b; [congruence|]. apply IH.
Qed.

Lemma route_extra_inr b : forall (rest base op : kwl), route_extra b rest base = inr op ->
  (forall kv, In kv rest -> is_ola_key (fst kv) = true) /\ (b = true -> rest = []).
Proof.
  induction rest as [|[k v] rest IH]; intros base op; cbn [route_extra].
  - intros _. split; [intros kv []|reflexivity].
  - destruct (is_ola_key k) eqn:Ek; [|discriminate]. destruct b; [discriminate|].
    intro H. destruct (IH _ _ H) as [H1 _]. split; [|discriminate].
    intros kv [E|Hin]; [subst; exact Ek|apply H1; exact Hin].
Qed.

Lemma route_extra_none_nil (base : kwl) : route_extra true [] base = inr base.
Proof. reflexivity. Qed.

Lemma find_map {A B : Type} (f : B -> bool) (g : A -> B) (l : list A) :
  find f (map g l) = option_map g (find (fun x => f (g x)) l).
Proof. induction l as [|x l IH]; simpl; [reflexivity|]. destruct (f (g x)); [reflexivity|exact IH]. Qed.

Lemma find_ext_in {A : Type} (f g : A -> bool) (l : list A) :
  (forall x, In x l -> f x = g x) -> find f l = find g l.
Proof.
  induction l as [|x l IH]; intro H; simpl; [reflexivity|].
  rewrite (H x) by (left; reflexivity). destruct (g x); [reflexivity|].
  apply IH. intros; apply H; right; assumption.
Qed.

Lemma lookup_last_strip (rest : kwl) q :
  (forall kv, In kv rest -> is_ola_key (fst kv) = true) ->
  lookup_last (map strip_kv rest) q = lookup_last rest (ola_prefix ++ q).
Proof.
  intro H. unfold lookup_last. rewrite <- map_rev, find_map.
  rewrite (find_ext_in _ (fun kv => String.eqb (ola_prefix ++ q) (fst kv))).
  - destruct (find _ (rev rest)); reflexivity.
  - intros [k v] Hin. cbn [strip_kv fst]. apply in_rev in Hin.
    pose proof (is_ola_key_inv k (H _ Hin)) as E. cbn [fst] in E.
    destruct (String.eqb_spec q (strip_ola k)) as [A|A];
    destruct (String.eqb_spec (ola_prefix ++ q) k) as [B|B]; try reflexivity.
    + exfalso. apply B. rewrite E, A. reflexivity.
    + exfalso. apply A. rewrite <- B. symmetry. apply strip_ola_app.
Qed.

(* what is left once the wrapper's own keywords are popped *)
Definition rest_of (kws : kwl) : kwl := fold_left dict_del own_keys kws.

Lemma rest_get (kws : kwl) q : dict_get (rest_of kws) q = if is_own q then None else dict_get kws q.
Proof. unfold rest_of, is_own. apply dict_get_dels. Qed.

Lemma rest_keys (kws : kwl) q : In q (map fst (rest_of kws)) <-> is_own q = false /\ In q (map fst kws).
Proof.
  rewrite <- !dict_get_in, rest_get. destruct (is_own q); split.
  - intro H. congruence.
  - intros [H _]. discriminate.
  - intro H. split; [reflexivity|exact H].
  - intros [_ H]. exact H.
Qed.

(* keyword q of the overlap-add call, from the merged dictionary *)
Definition ola_param_of (kws : kwl) (vsize vhop : val) (q : string) : option val :=
  match dict_get kws (ola_prefix ++ q) with
  | Some v => Some v
  | None => if String.eqb q "size" then Some vsize else if String.eqb q "hop" then Some vhop else None
  end.

Lemma params_get (kws : kwl) vsize vhop q :
  NoDup (map fst kws) ->
  (forall kv, In kv (rest_of kws) -> is_ola_key (fst kv) = true) ->
  dict_get (dict_update [("size", vsize); ("hop", vhop)] (map strip_kv (rest_of kws))) q
  = ola_param_of kws vsize vhop q.
Proof.
  intros Hnd Hall. rewrite dict_get_update, lookup_last_strip by exact Hall.
  rewrite lookup_last_nodup by (apply dict_dels_nodup; exact Hnd).
  rewrite rest_get. unfold is_own. rewrite own_not_ola. unfold ola_param_of.
  destruct (dict_get kws (ola_prefix ++ q)); [reflexivity|].
  cbn [dict_get]. rewrite (eqb_sym_s q "size"), (eqb_sym_s q "hop").
  destruct (String.eqb "size" q); [reflexivity|]. destruct (String.eqb "hop" q); reflexivity.
Qed.

Definition hop_fits (ohop : option val) (vsize : val) : Prop :=
  ohop = None \/ exists h s, ohop = Some (VNat h) /\ vsize = VNat s /\ (h <= s)%nat.

(* Success: exactly when size is there, hop fits, every other keyword is ola_-prefixed, and there is
   none of those when ola is None; the overlap-add then gets size, hop and the stripped ola_ options. *)
Theorem stft_route_ok (kws : kwl) vsize :
  NoDup (map fst kws) ->
  dict_get kws "size" = Some vsize ->
  hop_fits (dict_get kws "hop") vsize ->
  (forall k, In k (map fst kws) -> is_own k = true \/ is_ola_key k = true) ->
  (dict_get kws "ola" = Some VNone -> forall k, In k (map fst kws) -> is_ola_key k = false) ->
  exists op,
    stft_route kws = inr (Route vsize (opt_default (dict_get kws "hop") VNone) (opt_default (dict_get kws "wnd") VNone)
                                (dict_get kws "ola") (dict_get kws "transform") (dict_get kws "inverse_transform")
                                (dict_get kws "before") (dict_get kws "after") op) /\
    forall q, dict_get op q = ola_param_of kws vsize (opt_default (dict_get kws "hop") VNone) q.
Proof.
  intros Hnd Hsize Hhop Hkeys Hnone.
  assert (Hrest : forall kv, In kv (rest_of kws) -> is_ola_key (fst kv) = true).
  { intros kv Hin. assert (Hk : In (fst kv) (map fst (rest_of kws))) by (apply in_map; exact Hin).
    apply rest_keys in Hk as [Ho Hk]. destruct (Hkeys _ Hk); congruence. }
  unfold stft_route. rewrite Hsize.
  assert (Herr : match dict_get kws "hop" with
                 | None => None
                 | Some vh => match vh, vsize with
                              | VNat h, VNat s => if (s <? h)%nat then Some ValueError else None
                              | VNone, VNat _ | VNat _, VNone | VNone, VNone => Some TypeError
                              | _, _ => Some ScopeError
                              end
                 end = @None exn).
  { destruct Hhop as [E|(h & s & E & Es & Hle)]; rewrite E; [reflexivity|]. subst vsize.
    destruct (Nat.ltb_spec s h); [lia|reflexivity]. }
  rewrite Herr. change (fold_left dict_del _ kws) with (rest_of kws).
  destruct (dict_get kws "ola") as [vo|] eqn:Eo.
  - destruct vo; try (rewrite route_extra_ok by exact Hrest; eexists; split; [reflexivity|];
                      intro q; apply params_get; assumption).
    (* ola = None: nothing may be left *)
    assert (Hnil : rest_of kws = []).
    { destruct (rest_of kws) as [|kv r] eqn:Er; [reflexivity|]. exfalso.
      assert (Hin : In kv (rest_of kws)) by (rewrite Er; left; reflexivity).
      assert (Hk : In (fst kv) (map fst (rest_of kws))) by (apply in_map; exact Hin).
      apply rest_keys in Hk as [_ Hk]. pose proof (Hrest kv (or_introl eq_refl)) as A.
      rewrite (Hnone eq_refl _ Hk) in A. discriminate. }
    rewrite Hnil. cbn [route_extra]. eexists; split; [reflexivity|].
    intro q. rewrite <- (params_get kws) by assumption. rewrite Hnil. reflexivity.
  - rewrite route_extra_ok by exact Hrest. eexists; split; [reflexivity|].
    intro q. apply params_get; assumption.
Qed.

(* Conversely, whenever the wrapper does not raise, all of that was the case. *)
Theorem stft_route_inr (kws : kwl) r :
  stft_route kws = inr r ->
  dict_get kws "size" = Some (r_size r) /\
  (forall h s, dict_get kws "hop" = Some (VNat h) -> r_size r = VNat s -> (h <= s)%nat) /\
  (forall k, In k (map fst kws) -> is_own k = true \/ is_ola_key k = true) /\
  (dict_get kws "ola" = Some VNone -> forall k, In k (map fst kws) -> is_ola_key k = false).
Proof.
  unfold stft_route. destruct (dict_get kws "size") as [vsize|] eqn:Es; [|discriminate].
  match goal with |- match ?X with Some e => inl e | None => _ end = _ -> _ => destruct X as [e|] eqn:Eh end;
    [discriminate|].
  change (fold_left dict_del _ kws) with (rest_of kws).
  destruct (route_extra _ (rest_of kws) _) as [e|op] eqn:Er; [discriminate|].
  intro H. inversion H. subst r. clear H. cbn [r_size].
  destruct (route_extra_inr _ _ _ _ Er) as [Hall Hnil].
  split; [reflexivity|]. split; [|split].
  - intros h s Eh' Es'. rewrite Eh' in Eh. subst vsize.
    destruct (Nat.ltb_spec s h); [discriminate|lia].
  - intros k Hk. destruct (is_own k) eqn:Eo; [left; reflexivity|right].
    assert (Hin : In k (map fst (rest_of kws))) by (apply rest_keys; split; assumption).
    apply in_map_iff in Hin as (kv & E & Hin). subst k. apply Hall. exact Hin.
  - intros Eo k Hk. rewrite Eo in Hnil. specialize (Hnil eq_refl).
    destruct (is_own k) eqn:Eown; [apply is_own_not_ola; exact Eown|].
    exfalso. assert (Hin : In k (map fst (rest_of kws))) by (apply rest_keys; split; assumption).
    rewrite Hnil in Hin. exact Hin.
Qed.

(* the three ways of raising *)
Theorem stft_route_no_size (kws : kwl) : dict_get kws "size" = None -> stft_route kws = inl TypeError.
Proof. intro H. unfold stft_route. rewrite H. reflexivity. Qed.

Theorem stft_route_hop_gt_size (kws : kwl) h s :
  dict_get kws "size" = Some (VNat s) -> dict_get kws "hop" = Some (VNat h) -> (s < h)%nat ->
  stft_route kws = inl ValueError.
Proof.
  intros Hs Hh Hlt. unfold stft_route. rewrite Hs, Hh.
  destruct (Nat.ltb_spec s h); [reflexivity|lia].
Qed.

Theorem stft_route_bad_key (kws : kwl) vsize :
  dict_get kws "size" = Some vsize -> hop_fits (dict_get kws "hop") vsize ->
  (exists k, In k (map fst kws) /\ is_own k = false /\
             (is_ola_key k = false \/ dict_get kws "ola" = Some VNone)) ->
  stft_route kws = inl TypeError.
Proof.
  intros Hs Hh (k & Hk & Hown & Hbad).
  destruct (stft_route kws) as [e|r] eqn:E.
  - f_equal. revert E. unfold stft_route. rewrite Hs.
    destruct Hh as [E0|(h & s & E0 & Es & Hle)]; rewrite E0.
    + destruct (route_extra _ _ _) as [e'|op] eqn:Er; [|discriminate].
      intro H'. inversion H'. subst. eapply route_extra_err. exact Er.
    + subst vsize. destruct (Nat.ltb_spec s h); [lia|].
      destruct (route_extra _ _ _) as [e'|op] eqn:Er; [|discriminate].
      intro H'. inversion H'. subst. eapply route_extra_err. exact Er.
  - exfalso. destruct (stft_route_inr kws r E) as (_ & _ & Hkeys & Hnone).
    destruct Hbad as [Hb|Hb].
    + destruct (Hkeys k Hk); congruence.
    + destruct (Hkeys k Hk) as [H|H]; [congruence|]. rewrite (Hnone Hb k Hk) in H. discriminate.
Qed.
End Route.
