(* C09 - the property as closed forms, independent of the generator state of the model:
   the windowed hop-shifted sum, its length, the normalisation gain, and what the
   stft wrapper hands to its stages and to the overlap-add.  Definitions only. *)
From Coq Require Import String.
From Coq Require Import List Bool Arith ZArith QArith Qcanon.
From Coq Require Qcabs.
From AL Require Import Base.CaseLib C08.Spec C09.Model.
Import ListNotations.

(* sum_{k < m} f k *)
Fixpoint qsumn (m : nat) (f : nat -> Qc) : Qc :=
  match m with O => 0%Qc | S m' => (qsumn m' f + f m')%Qc end.

(* ------------------------------------------------------------------ overlap-add *)
(* contribution of block k (placed at k*hop) to output sample n; gw j = g * w[j] *)
Definition ola_term (size hop : nat) (gw blk : list Qc) (k n : nat) : Qc :=
  if (k * hop <=? n)%nat && (n <? k * hop + size)%nat
  then (nth (n - k * hop) gw 0 * nth (n - k * hop) blk 0)%Qc else 0%Qc.
(* out[n] = sum_k g*w[n-k*h]*B_k[n-k*h] *)
Definition ola_nth (size hop : nat) (gw : list Qc) (blks : list (list Qc)) (n : nat) : Qc :=
  qsumn (length blks) (fun k => ola_term size hop gw (nth k blks []) k n).
(* m*h + size - h *)
Definition ola_len (size hop m : nat) : nat := (m * hop + size - hop)%nat.
Definition ola_spec (size hop : nat) (gw : list Qc) (blks : list (list Qc)) : list Qc :=
  map (ola_nth size hop gw blks) (seq 0 (ola_len size hop (length blks))).

(* hop-strided sum of |w| starting at p (w is zero outside its support) *)
Definition strided_abs_sum (hop : nat) (w : list Qc) (p : nat) : Qc :=
  qsumn (length w) (fun j => Qcabs (nth (p + j * hop) w 0%Qc)).
Definition qcmax (a b : Qc) : Qc := if Qc_ltb a b then b else a.
Fixpoint qmax_upto (n : nat) (f : nat -> Qc) : Qc :=
  match n with O => f O | S n' => qcmax (qmax_upto n' f) (f (S n')) end.
(* the largest hop-strided sum of |w| *)
Definition gain_spec (hop : nat) (w : list Qc) : Qc := qmax_upto (hop - 1) (strided_abs_sum hop w).

(* IEEE-754 double value of the Python expression 1 / c for an int 1 <= c < 2^53
   (round to nearest; a tie cannot occur unless c is a power of two, where the quotient is exact). *)
Definition float_recip (c : Z) : Qc :=
  let l := Z.log2 c in
  if Z.eqb c (2 ^ l) then Q2Qc (1 # Z.to_pos c)
  else let k := (l + 53)%Z in
       let m := ((2 * 2 ^ k + c) / (2 * c))%Z in
       Q2Qc (m # Z.to_pos (2 ^ k)).
(* ceil(size / hop) for positive ints *)
Definition ceil_div (size hop : nat) : Z := ((Z.of_nat size + Z.of_nat hop - 1) / Z.of_nat hop)%Z.

(* g * w as a list of [size] multipliers.  w = None: no window given.
   gc = value of the library's float expression 1/ceil(size/hop). *)
Definition spec_gw (size hop : nat) (w : option (list Qc)) (normalize : bool) (gc : Qc) : list Qc :=
  match w with
  | Some l =>
      if normalize then
        let G := gain_spec hop l in
        if Qc_eqb G 0%Qc then l else map (fun v => (/ G * v)%Qc) l
      else l
  | None => repeat (if normalize then gc else 1%Qc) size
  end.

(* the window a caller means by wnd (None = rectangular); unusable arguments give None at top level *)
Definition spec_wnd (size : nat) (w : wndarg) : option (option (list Qc)) :=
  match w with
  | WNone => Some None
  | WIter l => if Nat.eqb (length l) size then Some (Some l) else None
  | WCall f => match f size with
               | RList l => if Nat.eqb (length l) size then Some (Some l) else None
               | _ => None
               end
  | WBad => None
  end.

(* What the text promises for overlap_add(blks, size, hop, wnd, normalize), or None where it is silent
   (hop outside 1..size, unusable window, a block of the wrong length, unknown size). *)
Definition ola_promise (size hop : option nat) (wnd : wndarg) (normalize : bool) (gc : Qc)
           (blks : list (list Qc)) : option (list Qc) :=
  let osz := match size with Some s => Some s | None => match blks with b :: _ => Some (length b) | [] => None end end in
  match osz with
  | None => None
  | Some s =>
    let h := match hop with Some h => h | None => s end in
    if negb ((1 <=? h)%nat && (h <=? s)%nat) then None
    else if negb (forallb (fun b => Nat.eqb (length b) s) blks) then None
    else match spec_wnd s wnd with
         | None => None
         | Some w => Some (ola_spec s h (spec_gw s h w normalize gc) blks)
         end
  end.

(* ------------------------------------------------------------------ stft *)
Section StftSpec.
Context {F W : Type}.
Variable f1 : F -> list Qc -> list Qc.
Variable f2 : F -> list Qc -> nat -> list Qc.
Variable wsem : W -> wndarg.
Variable falsy : F -> bool.      (* truth value False of a stage callable (callable object with no items ...) *)
Notation val := (val F W).
Notation kwl := (kwl F W).

(* the value a keyword has after all layers: the last layer that gives it wins *)
Definition spec_lookup (layers : list kwl) (k : string) : option val :=
  match find (fun kv => String.eqb k (fst kv)) (rev (concat layers)) with
  | Some kv => Some (snd kv)
  | None => None
  end.
Definition all_keys (layers : list kwl) : list string := map fst (concat layers).
Definition own_keys : list string :=
  ["size"; "hop"; "wnd"; "ola"; "transform"; "inverse_transform"; "before"; "after"]%string.
Definition is_own (k : string) : bool := existsb (String.eqb k) own_keys.

(* keyword q as the overlap-add receives it: ola_q if given, else size / hop of the wrapper *)
Definition spec_ola_param (layers : list kwl) (q : string) : option val :=
  match spec_lookup layers (ola_prefix ++ q) with
  | Some v => Some v
  | None =>
      if String.eqb q "size" then spec_lookup layers "size"
      else if String.eqb q "hop" then Some (match spec_lookup layers "hop" with Some v => v | None => VNone end)
      else None
  end.

(* after(inverse_transform(func(transform(before(blk), size)), size)), None stages skipped *)
Definition compose_stages (size : nat) (tr itr bef aft : val) (func : F) (blk : list Qc) : list Qc :=
  let st1 (v : val) (x : list Qc) := match v with VFun f => f1 f x | _ => x end in
  let st2 (v : val) (x : list Qc) := match v with VFun f => f2 f x size | _ => x end in
  st1 aft (st2 itr (f1 func (st2 tr (st1 bef blk)))).

Definition is_stage (v : val) : bool := match v with VNone | VFun _ => true | _ => false end.
(* transform / inverse_transform: a callable with truth value False is outside the text (the library then
   calls it without the size) *)
Definition is_stage2 (v : val) : bool :=
  match v with VNone => true | VFun f => negb (falsy f) | _ => false end.

(* the blocks the overlap-add (or the caller, with ola=None) receives *)
Definition stft_blocks_spec (size hop : nat) (w : option (list Qc)) (tr itr bef aft : val) (func : F)
           (sig : list Qc) : list (list Qc) :=
  map (fun b => compose_stages size tr itr bef aft func
                  (match w with None => b | Some wl => map2 Qcmult b wl end))
      (blocks_spec size hop 0%Qc sig).

Inductive promise :=
| PSilent                                       (* the text promises nothing for this call *)
| PBlocks (b : list (list Qc))                  (* ola=None: exactly these blocks *)
| PUser (id : nat) (b : list (list Qc))         (* user ola [id] receives these blocks and exactly spec_ola_param *)
| PSamples (out : list Qc).                     (* overlap_add.list: exactly these samples *)

Definition onat (v : val) : option (option nat) :=
  match v with VNone => Some None | VNat n => Some (Some n) | _ => None end.
Definition obool (v : val) : option bool :=
  match v with VBool b => Some b | _ => None end.

Definition stft_promise (gc : Qc) (layers : list kwl) (func : F) (sig : list Qc) : promise :=
  let P := spec_lookup layers in
  match P "size"%string, match P "hop"%string with None => Some None | Some v => match v with VNat h => Some (Some h) | _ => None end end with
  | Some (VNat size), Some hop =>
    let h := match hop with Some h => h | None => size end in
    if negb ((1 <=? h)%nat && (h <=? size)%nat) then PSilent
    else if negb (forallb (fun k => is_own k || is_ola_key k) (all_keys layers)) then PSilent
    else
      match P "transform"%string, P "inverse_transform"%string, P "before"%string, P "after"%string, P "ola"%string with
      | Some tr, Some itr, Some bef, Some aft, Some ola =>
        if negb (is_stage2 tr && is_stage2 itr && is_stage bef && is_stage aft) then PSilent
        else
          match spec_wnd size (wnd_of_val wsem (match P "wnd"%string with Some v => v | None => VNone end)) with
          | None => PSilent
          | Some w =>
            let bl := stft_blocks_spec size h w tr itr bef aft func sig in
            match ola with
            | VNone => if existsb is_ola_key (all_keys layers) then PSilent else PBlocks bl
            | VOla (OlaUser id) => PUser id bl
            | VOla OlaList =>
                let Q q := spec_ola_param layers q in
                let known := ["size"; "hop"; "wnd"; "normalize"]%string in
                if negb (forallb (fun k => negb (is_ola_key k) || existsb (String.eqb (strip_ola k)) known) (all_keys layers))
                then PSilent
                else
                  match match Q "size"%string with Some v => onat v | None => None end,
                        match Q "hop"%string with Some v => onat v | None => None end,
                        match Q "normalize"%string with Some v => obool v | None => Some true end with
                  | Some osize, Some ohop, Some nrm =>
                      match ola_promise osize ohop
                              (wnd_of_val wsem (match Q "wnd"%string with Some v => v | None => VNone end)) nrm gc bl with
                      | Some out => PSamples out
                      | None => PSilent
                      end
                  | _, _, _ => PSilent
                  end
            | _ => PSilent
            end
          end
      | _, _, _, _, _ => PSilent
      end
  | _, _ => PSilent
  end.
End StftSpec.
