(* C09 - case record types and boolean checkers for the generated case files.
   corr_* : the implementation's observation equals the model's output;
   holds_*: the observation is what the text promises (Spec.v), wherever it promises something. *)
From Coq Require Import String.
From Coq Require Import List Bool Arith ZArith QArith Qcanon.
From AL Require Import Base.CaseLib C09.Model C09.Spec.
Import ListNotations.

Definition exn_name (e : exn) : string :=
  match e with
  | TypeError => "TypeError" | ValueError => "ValueError" | RuntimeError => "RuntimeError"
  | ScopeError => "outside-the-model"
  end.
Definition oexn_eqb (o : option string) (m : option exn) : bool :=
  match o, m with
  | None, None => true
  | Some s, Some e => String.eqb s (exn_name e)
  | _, _ => false
  end.
Definition qlist_eqb := list_eqb Qc_eqb.
Definition blocks_eqb := list_eqb qlist_eqb.

(* ------------------------------------------------------------------ first-order windows / stages *)
Definition wres_eqb (a b : wres) : bool :=
  match a, b with
  | RList x, RList y => qlist_eqb x y
  | RNone, RNone => true
  | RBad, RBad => true
  | _, _ => false
  end.
(* a callable given by a finite table: wnd(n) = the entry for n, else the default *)
Fixpoint tblfun (tbl : list (nat * wres)) (dflt : wres) (n : nat) : wres :=
  match tbl with
  | [] => dflt
  | (k, r) :: t => if Nat.eqb k n then r else tblfun t dflt n
  end.
Inductive wdesc := DIter (l : list Qc) | DCall (tbl : list (nat * wres)) (dflt : wres) | DBad.
Definition wsem (d : wdesc) : wndarg :=
  match d with
  | DIter l => WIter l
  | DCall tbl dflt => WCall (tblfun tbl dflt)
  | DBad => WBad
  end.
Definition wdesc_eqb (a b : wdesc) : bool :=
  match a, b with
  | DIter x, DIter y => qlist_eqb x y
  | DCall t d, DCall t' d' =>
      list_eqb (fun p q => Nat.eqb (fst p) (fst q) && wres_eqb (snd p) (snd q)) t t' && wres_eqb d d'
  | DBad, DBad => true
  | _, _ => false
  end.

(* pure-Python stage functions used by the harness *)
(* FFalsy c: a callable OBJECT computing c whose truth value is False (callable list / dict subclass with no
   items, class with __len__ or __bool__); FZero: everything to zero (what an empty ParallelFilter computes). *)
Inductive fcode := FId | FRev | FScale (q : Qc) | FSq | FMulSize | FAddSize | FDropLast | FRamp | FZero
                 | FFalsy (c : fcode).
Fixpoint ramp (i : nat) (l : list Qc) : list Qc :=       (* x_i + i *)
  match l with [] => [] | x :: r => (x + Q2Qc (inject_Z (Z.of_nat i)))%Qc :: ramp (S i) r end.
Fixpoint f1 (c : fcode) (blk : list Qc) : list Qc :=
  match c with
  | FId | FMulSize | FAddSize => blk
  | FRev => rev blk
  | FScale q => map (fun x => (q * x)%Qc) blk
  | FSq => map (fun x => (x * x)%Qc) blk
  | FDropLast => removelast blk
  | FRamp => ramp 0 blk
  | FZero => map (fun _ => 0%Qc) blk
  | FFalsy c' => f1 c' blk
  end.
Fixpoint f2 (c : fcode) (blk : list Qc) (n : nat) : list Qc :=
  let qn := Q2Qc (inject_Z (Z.of_nat n)) in
  match c with
  | FMulSize => map (fun x => (x * qn)%Qc) blk
  | FAddSize => map (fun x => (x + qn)%Qc) blk
  | FFalsy c' => f2 c' blk n
  | _ => f1 c blk
  end.
Definition falsy (c : fcode) : bool := match c with FFalsy _ => true | _ => false end.
Fixpoint fcode_eqb (a b : fcode) : bool :=
  match a, b with
  | FId, FId | FRev, FRev | FSq, FSq | FMulSize, FMulSize | FAddSize, FAddSize
  | FDropLast, FDropLast | FRamp, FRamp | FZero, FZero => true
  | FScale x, FScale y => Qc_eqb x y
  | FFalsy x, FFalsy y => fcode_eqb x y
  | _, _ => false
  end.

Notation cval := (val fcode wdesc).
Notation ckwl := (kwl fcode wdesc).
(* monomorphic constructors: the generated case files elaborate an order of magnitude faster with them *)
Definition cNone : cval := VNone.
Definition cNat (n : nat) : cval := VNat n.
Definition cBool (b : bool) : cval := VBool b.
Definition cWnd (w : wdesc) : cval := VWnd w.
Definition cFun (f : fcode) : cval := VFun f.
Definition cOla (o : olakind) : cval := VOla o.
Definition cOpq (n : nat) : cval := VOpaque n.
Definition kv (k : string) (v : cval) : string * cval := (k, v).

Definition olakind_eqb (a b : olakind) : bool :=
  match a, b with
  | OlaList, OlaList => true
  | OlaUser x, OlaUser y => Nat.eqb x y
  | _, _ => false
  end.
Definition val_eqb (a b : cval) : bool :=
  match a, b with
  | VNone, VNone => true
  | VNat x, VNat y => Nat.eqb x y
  | VBool x, VBool y => Bool.eqb x y
  | VWnd x, VWnd y => wdesc_eqb x y
  | VFun x, VFun y => fcode_eqb x y
  | VOla x, VOla y => olakind_eqb x y
  | VOpaque x, VOpaque y => Nat.eqb x y
  | _, _ => false
  end.
Definition kv_eqb (a b : string * cval) : bool := String.eqb (fst a) (fst b) && val_eqb (snd a) (snd b).
(* the two keyword dictionaries agree on every key of [keys] *)
Definition same_on (keys : list string) (a : ckwl) (f : string -> option cval) : bool :=
  forallb (fun k => option_eqb val_eqb (dict_get a k) (f k)) keys.
(* equality of dictionaries as finite maps (keys of a Python dict are unique) *)
Definition dict_eqb (a b : ckwl) : bool :=
  Nat.eqb (length a) (length b) && same_on (map fst a ++ map fst b) a (dict_get b).

(* ------------------------------------------------------------------ overlap_add.list *)
Record ocase := OC {
  o_size : option nat; o_hop : option nat; o_wnd : wndarg; o_norm : bool;
  o_gc : Qc;                         (* the float 1/ceil(size/hop), as an exact rational *)
  o_blks : list (list Qc);
  o_out : list Qc; o_exn : option string }.   (* observed: items yielded, then the exception name *)

Definition corr_ola (c : ocase) : bool :=
  let '(out, e) := ola_model (o_size c) (o_hop c) (o_wnd c) (o_norm c) (o_gc c) (o_blks c) None in
  qlist_eqb (o_out c) out && oexn_eqb (o_exn c) e.

(* resolved (size, hop), when they are known *)
Definition res_size_hop (size hop : option nat) (blks : list (list Qc)) : option (nat * nat) :=
  match match size with Some s => Some s | None => match blks with b :: _ => Some (length b) | [] => None end end with
  | Some s => Some (s, match hop with Some h => h | None => s end)
  | None => None
  end.
Definition gc_ok (size hop : option nat) (blks : list (list Qc)) (gc : Qc) : bool :=
  match res_size_hop size hop blks with
  | Some (s, h) => Qc_eqb gc (float_recip (ceil_div s h))
  | None => true
  end.

Definition holds_ola (c : ocase) : bool :=
  match ola_promise (o_size c) (o_hop c) (o_wnd c) (o_norm c) (o_gc c) (o_blks c) with
  | None => true
  | Some out => qlist_eqb (o_out c) out && oexn_eqb (o_exn c) None
                && gc_ok (o_size c) (o_hop c) (o_blks c) (o_gc c)
  end.

(* ------------------------------------------------------------------ stft *)
Inductive sobs :=
| OCallRaise (e : string)
| OBlocks (b : list (list Qc)) (e : option string)
| OUser (id : nat) (params : ckwl) (b : list (list Qc)) (e : option string)
| OSamples (out : list Qc) (e : option string).

Record scase := SC { s_gc : Qc; s_layers : list ckwl; s_func : fcode; s_sig : list Qc; s_obs : sobs }.

Definition corr_stft (c : scase) : bool :=
  match s_obs c, stft_model f1 f2 wsem falsy (s_gc c) (s_layers c) (s_func c) (s_sig c) with
  | OCallRaise s, SCallRaise e => String.eqb s (exn_name e)
  | OBlocks b e, SBlocks b' e' => blocks_eqb b b' && oexn_eqb e e'
  | OUser i p b e, SUser i' p' b' e' => Nat.eqb i i' && dict_eqb p p' && blocks_eqb b b' && oexn_eqb e e'
  | OSamples o e, SSamples o' e' => qlist_eqb o o' && oexn_eqb e e'
  | _, _ => false
  end.

(* the float constant handed to the model is the IEEE value for the size / hop the overlap-add gets *)
Definition stft_gc_ok (c : scase) : bool :=
  match spec_ola_param (s_layers c) "size", spec_ola_param (s_layers c) "hop" with
  | Some (VNat s), Some (VNat h) => Qc_eqb (s_gc c) (float_recip (ceil_div s h))
  | Some (VNat s), Some VNone => Qc_eqb (s_gc c) (float_recip (ceil_div s s))
  | _, _ => true
  end.

Definition holds_stft (c : scase) : bool :=
  match stft_promise f1 f2 wsem falsy (s_gc c) (s_layers c) (s_func c) (s_sig c) with
  | PSilent => true
  | PBlocks b => match s_obs c with OBlocks b' None => blocks_eqb b' b | _ => false end
  | PUser id b =>
      match s_obs c with
      | OUser id' p b' None =>
          Nat.eqb id' id && blocks_eqb b' b &&
          same_on (map fst p ++ ["size"; "hop"]%string
                   ++ map strip_ola (filter is_ola_key (all_keys (s_layers c))))
                  p (spec_ola_param (s_layers c))
      | _ => false
      end
  | PSamples out => match s_obs c with OSamples o None => qlist_eqb o out && stft_gc_ok c | _ => false end
  end.

(* ------------------------------------------------------------------ histories sharing one window object *)
(* Several overlap_add.list calls made with the SAME caller-side window object (a list, a list subclass, or a
   memoised callable that returns the same list every time).  overlap_add.list copies the window (list(wnd))
   before normalising in place, so every call sees the caller's original values and the caller's list is
   unchanged afterwards; the text's g*w is about the window the user gave. *)
Record hcall := HC { h_size : nat; h_hop : nat; h_norm : bool; h_gc : Qc; h_blks : list (list Qc);
                     h_out : list Qc; h_exn : option string;
                     h_wafter : list Qc }.            (* the caller's list, read after the call *)
Record hcase := HS { hs_wnd : list Qc; hs_callable : bool; hs_calls : list hcall }.
Definition hs_arg (c : hcase) : wndarg :=
  if hs_callable c then WCall (fun _ => RList (hs_wnd c)) else WIter (hs_wnd c).

Definition corr_hist (c : hcase) : bool :=
  forallb (fun k =>
    let '(out, e) := ola_model (Some (h_size k)) (Some (h_hop k)) (hs_arg c) (h_norm k) (h_gc k) (h_blks k) None in
    qlist_eqb (h_out k) out && oexn_eqb (h_exn k) e && qlist_eqb (h_wafter k) (hs_wnd c)) (hs_calls c).

Definition holds_hist (c : hcase) : bool :=
  forallb (fun k =>
    qlist_eqb (h_wafter k) (hs_wnd c) &&
    match ola_promise (Some (h_size k)) (Some (h_hop k)) (hs_arg c) (h_norm k) (h_gc k) (h_blks k) with
    | None => true
    | Some out => qlist_eqb (h_out k) out && oexn_eqb (h_exn k) None
                  && gc_ok (Some (h_size k)) (Some (h_hop k)) (h_blks k) (h_gc k)
    end) (hs_calls c).

(* ------------------------------------------------------------------ stft histories *)
(* One partial object used as a factory several times, one processor called several times.  The wrapper keeps
   no state between uses: every call must behave as a first use, i.e. as stft_model on the keyword layers of
   ITS OWN chain (build-time layers of the partial object, of this use, and the call-time keywords). *)
Definition shcase := list scase.
Definition corr_shist (h : shcase) : bool := forallb corr_stft h.
Definition holds_shist (h : shcase) : bool := forallb holds_stft h.
