(* C09 - proofs, part 8: an stft wrapper whose block processing is the identity reconstructs its input. *)
From Coq Require Import String.
From Coq Require Import List Bool Arith ZArith QArith Qcanon Lia.
From AL Require Import Base.CaseLib C08.Model C08.Spec C08.Proofs C09.Model C09.Spec
  C09.ProofsOla C09.ProofsBlocks C09.ProofsMain C09.ProofsRecon C09.ProofsDict C09.ProofsRoute C09.ProofsStft.
Import ListNotations.
Open Scope string_scope.

Section Ident.
Context {F W : Type}.
Variable f1 : F -> list Qc -> list Qc.
Variable f2 : F -> list Qc -> nat -> list Qc.
Variable wsem : W -> wndarg.
Variable falsy : F -> bool.
Notation val := (val F W).
Notation kwl := (kwl F W).

Definition ident_keys : list string := own_keys ++ ["ola_wnd"; "ola_normalize"].

Lemma not_in_lookup (layers : list kwl) k : ~ In k (all_keys layers) -> spec_lookup layers k = None.
Proof.
  intro H. destruct (spec_lookup layers k) eqn:E; [|reflexivity].
  exfalso. apply H. apply spec_lookup_in. congruence.
Qed.

Theorem stft_identity_reconstructs gc (layers : list kwl) func (sig : list Qc) size hop Wd w :
  (1 <= hop <= size)%nat ->
  spec_lookup layers "size" = Some (VNat size) ->
  match spec_lookup layers "hop" with None => hop = size | Some v => v = VNat hop end ->
  (forall k, In k (all_keys layers) -> In k ident_keys) ->
  spec_lookup layers "transform" = Some VNone -> spec_lookup layers "inverse_transform" = Some VNone ->
  spec_lookup layers "before" = Some VNone -> spec_lookup layers "after" = Some VNone ->
  match spec_lookup layers "wnd" with None => True | Some v => v = VNone end ->
  spec_lookup layers "ola" = Some (VOla OlaList) ->
  spec_lookup layers "ola_wnd" = Some (VWnd Wd) -> spec_wnd size (wsem Wd) = Some (Some w) -> cola size hop w ->
  spec_lookup layers "ola_normalize" = Some (VBool false) ->
  (forall x, f1 func x = x) ->
  exists out,
    stft_model f1 f2 wsem falsy gc layers func sig = SSamples out None /\
    length out = (length (blocks_model size hop 0%Qc sig) * hop + size - hop)%nat /\
    forall n, (size - hop <= n < length (blocks_model size hop 0%Qc sig) * hop)%nat ->
              nth n out 0%Qc = nth n sig 0%Qc.
Proof.
  intros Hh Hsize Hhop Hkeys Htr Hitr Hbef Haft Hwnd Hola Holaw Hw Hcola Hnorm Hid.
  rewrite (blocks_model_eq_spec Qc size hop 0%Qc sig) by lia.
  set (bl := blocks_spec size hop 0%Qc sig).
  assert (Hlen : Forall (fun b => length b = size) bl).
  { apply Forall_forall. intros b Hb. apply (blocks_all_length_size Qc size hop 0%Qc sig); try lia. exact Hb. }
  exists (ola_spec size hop w bl). split; [|split].
  2:{ rewrite ola_spec_length. unfold ola_len. reflexivity. }
  2:{ intros n Hn. rewrite ola_spec_nth by (unfold ola_len; lia).
      destruct (spec_wnd_resolve size _ _ Hw) as [_ Lw].
      apply cola_sum; try assumption. intros k j Hk Hj. unfold bl in *. apply blocks_nth; lia. }
  pose proof (stft_model_meets_promise f1 f2 wsem falsy gc layers func sig) as P.
  assert (Ep : stft_promise f1 f2 wsem falsy gc layers func sig = PSamples (ola_spec size hop w bl)).
  2:{ rewrite Ep in P. exact P. }
  clear P. unfold stft_promise. rewrite Hsize.
  assert (Ehop : match spec_lookup layers "hop" with
                 | Some v => match v with VNat h => Some (Some h) | _ => None end
                 | None => Some None end
                 = Some (match spec_lookup layers "hop" with Some _ => Some hop | None => None end)).
  { destruct (spec_lookup layers "hop") as [v|]; [subst v|]; reflexivity. }
  rewrite Ehop.
  assert (Eh : match match spec_lookup layers "hop" with Some _ => Some hop | None => None end with
               | Some h => h | None => size end = hop).
  { destruct (spec_lookup layers "hop"); [reflexivity|symmetry; exact Hhop]. }
  rewrite Eh.
  assert (E1 : ((1 <=? hop)%nat && (hop <=? size)%nat) = true).
  { apply andb_true_iff. split; apply Nat.leb_le; lia. }
  rewrite E1. cbn [negb].
  assert (E2 : forallb (fun k => is_own k || is_ola_key k) (all_keys layers) = true).
  { apply forallb_forall. intros k Hk. specialize (Hkeys k Hk). unfold ident_keys, own_keys in Hkeys.
    simpl in Hkeys. repeat (destruct Hkeys as [Hkeys|Hkeys]; [subst k; reflexivity|]). contradiction. }
  rewrite E2. cbn [negb]. rewrite Htr, Hitr, Hbef, Haft, Hola. cbn [is_stage is_stage2 andb negb].
  assert (Ewnd : wnd_of_val wsem match spec_lookup layers "wnd" with Some v => v | None => VNone end = WNone).
  { destruct (spec_lookup layers "wnd") as [v|]; [subst v|]; reflexivity. }
  rewrite Ewnd. cbn [spec_wnd].
  assert (E3 : forallb (fun k => negb (is_ola_key k) ||
                  existsb (String.eqb (strip_ola k)) ["size"; "hop"; "wnd"; "normalize"]) (all_keys layers) = true).
  { apply forallb_forall. intros k Hk. specialize (Hkeys k Hk). unfold ident_keys, own_keys in Hkeys.
    simpl in Hkeys. repeat (destruct Hkeys as [Hkeys|Hkeys]; [subst k; reflexivity|]). contradiction. }
  rewrite E3. cbn [negb].
  assert (Nsize : spec_lookup layers (ola_prefix ++ "size") = None).
  { apply not_in_lookup. intro Hin. apply Hkeys in Hin. unfold ident_keys, own_keys in Hin. simpl in Hin.
    repeat (destruct Hin as [Hin|Hin]; [discriminate Hin|]). contradiction. }
  assert (Nhop : spec_lookup layers (ola_prefix ++ "hop") = None).
  { apply not_in_lookup. intro Hin. apply Hkeys in Hin. unfold ident_keys, own_keys in Hin. simpl in Hin.
    repeat (destruct Hin as [Hin|Hin]; [discriminate Hin|]). contradiction. }
  unfold spec_ola_param. rewrite Nsize, Nhop.
  change (ola_prefix ++ "wnd") with "ola_wnd". change (ola_prefix ++ "normalize") with "ola_normalize".
  rewrite Holaw, Hnorm, Hsize. cbn [String.eqb Ascii.eqb Bool.eqb onat obool].
  assert (Ehv : match spec_lookup layers "hop" with Some v => v | None => VNone end
                = match spec_lookup layers "hop" with Some _ => VNat hop | None => VNone end).
  { destruct (spec_lookup layers "hop") as [v|]; [subst v|]; reflexivity. }
  assert (Ebl : stft_blocks_spec (W:=W) f1 f2 size hop None VNone VNone VNone VNone func sig = bl).
  { unfold stft_blocks_spec, compose_stages. rewrite (map_ext _ (fun b => b)) by (intro; apply Hid). apply map_id. }
  rewrite Ebl. cbn [wnd_of_val].
  (* the overlap-add gets size and (hop or None = size) *)
  assert (Eop : forall oh, (match oh with Some h0 => h0 | None => size end) = hop ->
            ola_promise (Some size) oh (wsem Wd) false gc bl = Some (ola_spec size hop w bl)).
  { intros oh Eoh. unfold ola_promise. rewrite Eoh, E1. cbn [negb].
    assert (Ef : forallb (fun b => Nat.eqb (length b) size) bl = true).
    { apply forallb_forall. intros b Hb. apply Nat.eqb_eq. rewrite Forall_forall in Hlen. apply Hlen. exact Hb. }
    rewrite Ef. cbn [negb]. rewrite Hw. reflexivity. }
  clear Ehop Eh Ehv. revert Hhop. destruct (spec_lookup layers "hop") as [v|]; intro Hhop.
  - subst v. cbn [onat]. rewrite (Eop (Some hop)) by reflexivity. reflexivity.
  - cbn [onat]. rewrite (Eop None) by (symmetry; exact Hhop). reflexivity.
Qed.
End Ident.
