(* C09 - proofs, part 7: the stft wrapper as a whole. *)
From Coq Require Import String.
From Coq Require Import List Bool Arith ZArith QArith Qcanon Lia.
From AL Require Import Base.CaseLib C08.Model C08.Spec C08.Proofs C09.Model C09.Spec
  C09.ProofsOla C09.ProofsBlocks C09.ProofsMain C09.ProofsRecon C09.ProofsDict C09.ProofsRoute.
Import ListNotations.
Open Scope string_scope.

Definition opt_app (o : option bfun) (x : list Qc) : list Qc := match o with Some g => g x | None => x end.

Lemma spec_wnd_stft size wnd w : spec_wnd size wnd = Some w -> stft_resolve_wnd size wnd = inr w.
Proof.
  destruct wnd as [|l|f|]; simpl; try discriminate.
  - intro H. inversion H. reflexivity.
  - destruct (Nat.eqb (length l) size); [|discriminate]. intro H. inversion H. reflexivity.
  - destruct (f size) as [l| |]; try discriminate.
    destruct (Nat.eqb (length l) size); [|discriminate]. intro H. inversion H. reflexivity.
Qed.

(* blk_gen: every block is multiplied by the analysis window first, then goes through
   before, transform, func, inverse_transform, after (None stages skipped), in that order. *)
Theorem stft_blkgen_chain size hop wnd w bef tr func itr aft (sig : list Qc) :
  (1 <= size)%nat -> (1 <= match hop with Some h => h | None => size end)%nat ->
  stft_resolve_wnd size wnd = inr w ->
  stft_blkgen size hop wnd bef tr (Some func) itr aft sig
  = (map (fun b => opt_app aft (opt_app itr (func (opt_app tr (opt_app bef
                     (match w with None => b | Some wl => map2 Qcmult b wl end))))))
         (blocks_spec size (match hop with Some h => h | None => size end) 0%Qc sig), None).
Proof.
  intros Hs Hh Hw. unfold stft_blkgen. rewrite Hw.
  rewrite (blocks_model_eq_spec Qc size _ 0%Qc sig) by assumption.
  destruct w as [wl|]; f_equal; apply map_ext; intro b; unfold process; cbn [fold_left];
    destruct bef, tr, itr, aft; reflexivity.
Qed.

Section Layers.
Context {F W : Type}.
Variable f1 : F -> list Qc -> list Qc.
Variable f2 : F -> list Qc -> nat -> list Qc.
Variable wsem : W -> wndarg.
Variable falsy : F -> bool.
Notation val := (val F W).
Notation kwl := (kwl F W).

Definition layer_hop_fits (layers : list kwl) (vsize : val) : Prop :=
  spec_lookup layers "hop" = None \/
  exists h s, spec_lookup layers "hop" = Some (VNat h) /\ vsize = VNat s /\ (h <= s)%nat.

(* the routing theorem at the level of keyword layers (any calling style) *)
Theorem stft_layers_route (layers : list kwl) vsize :
  spec_lookup layers "size" = Some vsize ->
  layer_hop_fits layers vsize ->
  (forall k, In k (all_keys layers) -> is_own k = true \/ is_ola_key k = true) ->
  (spec_lookup layers "ola" = Some VNone -> forall k, In k (all_keys layers) -> is_ola_key k = false) ->
  exists op,
    stft_route (merge_layers layers)
    = inr (Route vsize (opt_default (spec_lookup layers "hop") VNone) (opt_default (spec_lookup layers "wnd") VNone)
                 (spec_lookup layers "ola") (spec_lookup layers "transform") (spec_lookup layers "inverse_transform")
                 (spec_lookup layers "before") (spec_lookup layers "after") op) /\
    forall q, dict_get op q = spec_ola_param layers q.
Proof.
  intros Hsize Hhop Hkeys Hnone.
  destruct (stft_route_ok (merge_layers layers) vsize) as (op & E & Hop).
  - apply merge_nodup.
  - rewrite merge_layers_lookup. exact Hsize.
  - unfold hop_fits. rewrite merge_layers_lookup. exact Hhop.
  - intros k Hk. apply Hkeys. apply merge_keys. exact Hk.
  - rewrite merge_layers_lookup. intros Ho k Hk. apply (Hnone Ho). apply merge_keys. exact Hk.
  - exists op. rewrite !merge_layers_lookup in E. split; [exact E|].
    intro q. rewrite Hop. unfold ola_param_of, spec_ola_param. rewrite !merge_layers_lookup.
    destruct (spec_lookup layers (ola_prefix ++ q)); [reflexivity|].
    destruct (String.eqb q "size"); [symmetry; exact Hsize|].
    destruct (String.eqb q "hop"); [|reflexivity].
    destruct (spec_lookup layers "hop"); reflexivity.
Qed.

Theorem stft_layers_no_size (layers : list kwl) :
  spec_lookup layers "size" = None -> stft_route (merge_layers layers) = inl TypeError.
Proof. intro H. apply stft_route_no_size. rewrite merge_layers_lookup. exact H. Qed.

Theorem stft_layers_hop_gt_size (layers : list kwl) h s :
  spec_lookup layers "size" = Some (VNat s) -> spec_lookup layers "hop" = Some (VNat h) -> (s < h)%nat ->
  stft_route (merge_layers layers) = inl ValueError.
Proof.
  intros Hs Hh Hlt. apply (stft_route_hop_gt_size _ h s); try rewrite merge_layers_lookup; assumption.
Qed.

Theorem stft_layers_bad_key (layers : list kwl) vsize :
  spec_lookup layers "size" = Some vsize -> layer_hop_fits layers vsize ->
  (exists k, In k (all_keys layers) /\ is_own k = false /\
             (is_ola_key k = false \/ spec_lookup layers "ola" = Some VNone)) ->
  stft_route (merge_layers layers) = inl TypeError.
Proof.
  intros Hs Hh (k & Hk & Ho & Hb). apply (stft_route_bad_key _ vsize).
  - rewrite merge_layers_lookup. exact Hs.
  - unfold hop_fits. rewrite merge_layers_lookup. exact Hh.
  - exists k. rewrite merge_layers_lookup. split; [apply merge_keys; exact Hk|]. split; assumption.
Qed.

(* ------------------------------------------------------------------ stages given as values *)
Definition stage1_fun (v : val) : option bfun := match v with VFun f => Some (f1 f) | _ => None end.
Definition stage2_fun (size : nat) (v : val) : option bfun :=
  match v with VFun f => Some (fun blk => f2 f blk size) | _ => None end.

Lemma stage1_ok v : is_stage v = true -> stage1 f1 (Some v) = inr (stage1_fun v).
Proof. destruct v; simpl; try discriminate; reflexivity. Qed.
Lemma stage2_ok size v : is_stage2 falsy v = true -> stage2 f1 f2 falsy size (Some v) = inr (stage2_fun size v).
Proof. destruct v as [| | | |f| |]; simpl; try discriminate; [reflexivity|]. destruct (falsy f); [discriminate|reflexivity]. Qed.

Lemma compose_stages_eq size tr itr bef aft func blk :
  opt_app (stage1_fun aft) (opt_app (stage2_fun size itr) (f1 func
     (opt_app (stage2_fun size tr) (opt_app (stage1_fun bef) blk))))
  = compose_stages f1 f2 size tr itr bef aft func blk.
Proof. unfold compose_stages. destruct tr, itr, bef, aft; reflexivity. Qed.

(* ------------------------------------------------------------------ overlap_add.list called with routed options *)
Lemma ola_list_call_known gc (op : kwl) b e :
  (forall q, dict_get op q <> None -> In q ["size"; "hop"; "wnd"; "normalize"]) ->
  ola_list_call wsem gc op b e
  = match onat_of_val (opt_default (dict_get op "size") VNone),
          onat_of_val (opt_default (dict_get op "hop") VNone),
          truth_of_val (opt_default (dict_get op "normalize") (VBool true)) with
    | inr osize, inr ohop, inr nrm =>
        let '(out, ex) := ola_model osize ohop (wnd_of_val wsem (opt_default (dict_get op "wnd") VNone)) nrm gc b e in
        SSamples out ex
    | _, _, _ => SCallRaise ScopeError
    end.
Proof.
  intro H. unfold ola_list_call.
  assert (E : forallb (fun kv => existsb (String.eqb (fst kv)) ["size"; "hop"; "wnd"; "normalize"]) op = true).
  { apply forallb_forall. intros kv Hin.
    assert (Hq : dict_get op (fst kv) <> None) by (apply dict_get_in; apply in_map; exact Hin).
    apply H in Hq. apply existsb_exists. exists (fst kv). split; [exact Hq|apply String.eqb_refl]. }
  rewrite E. reflexivity.
Qed.

(* ------------------------------------------------------------------ model = promise *)
Theorem stft_model_meets_promise gc (layers : list kwl) func sig :
  match stft_promise f1 f2 wsem falsy gc layers func sig with
  | PSilent => True
  | PBlocks b => stft_model f1 f2 wsem falsy gc layers func sig = SBlocks b None
  | PUser id b => exists op, stft_model f1 f2 wsem falsy gc layers func sig = SUser id op b None /\
                             forall q, dict_get op q = spec_ola_param layers q
  | PSamples out => stft_model f1 f2 wsem falsy gc layers func sig = SSamples out None
  end.
Proof.
  unfold stft_promise.
  destruct (spec_lookup layers "size") as [[|size| | | | |]|] eqn:Esize; try exact I.
  destruct (match spec_lookup layers "hop" with
            | Some v => match v with VNat h => Some (Some h) | _ => None end
            | None => Some None end) as [hop|] eqn:Ehop; [|exact I].
  set (h := match hop with Some h => h | None => size end).
  destruct ((1 <=? h)%nat && (h <=? size)%nat) eqn:Eh; [|exact I]. cbn [negb].
  apply andb_true_iff in Eh as [H1 H2]. apply Nat.leb_le in H1, H2.
  destruct (forallb (fun k => is_own k || is_ola_key k) (all_keys layers)) eqn:Ekeys; [|exact I]. cbn [negb].
  destruct (spec_lookup layers "transform") as [tr|] eqn:Etr; [|exact I].
  destruct (spec_lookup layers "inverse_transform") as [itr|] eqn:Eitr; [|exact I].
  destruct (spec_lookup layers "before") as [bef|] eqn:Ebef; [|exact I].
  destruct (spec_lookup layers "after") as [aft|] eqn:Eaft; [|exact I].
  destruct (spec_lookup layers "ola") as [ola|] eqn:Eola; [|exact I].
  destruct (is_stage2 falsy tr && is_stage2 falsy itr && is_stage bef && is_stage aft) eqn:Est; [|exact I]. cbn [negb].
  apply andb_true_iff in Est as [Est Saft]. apply andb_true_iff in Est as [Est Sbef].
  apply andb_true_iff in Est as [Str Sitr].
  destruct (spec_wnd size (wnd_of_val wsem match spec_lookup layers "wnd" with Some v => v | None => VNone end))
    as [w|] eqn:Ew; [|exact I].
  (* facts shared by the three kinds of ola *)
  assert (Hhopfit : layer_hop_fits layers (VNat size)).
  { unfold layer_hop_fits. revert Ehop. destruct (spec_lookup layers "hop") as [vh|]; intro Ehop; [|left; reflexivity].
    destruct vh; try discriminate Ehop. inversion Ehop. subst hop. right. exists n, size. unfold h in H2. auto. }
  assert (Hkeys : forall k, In k (all_keys layers) -> is_own k = true \/ is_ola_key k = true).
  { intros k Hk. rewrite forallb_forall in Ekeys. apply orb_true_iff. apply Ekeys. exact Hk. }
  assert (Hhopval : onat_of_val (opt_default (spec_lookup layers "hop") VNone) = inr hop).
  { revert Ehop. destruct (spec_lookup layers "hop") as [vh|]; intro Ehop; [|inversion Ehop; reflexivity].
    destruct vh; try discriminate Ehop. inversion Ehop. reflexivity. }
  assert (Hgen : forall (Hnone : spec_lookup layers "ola" = Some VNone ->
                                  forall k, In k (all_keys layers) -> is_ola_key k = false),
     exists op, (forall q, dict_get op q = spec_ola_param layers q) /\
       stft_model f1 f2 wsem falsy gc layers func sig =
       match ola with
       | VNone => SBlocks (stft_blocks_spec f1 f2 size h w tr itr bef aft func sig) None
       | VOla OlaList => ola_list_call wsem gc op (stft_blocks_spec f1 f2 size h w tr itr bef aft func sig) None
       | VOla (OlaUser id) => SUser id op (stft_blocks_spec f1 f2 size h w tr itr bef aft func sig) None
       | _ => SCallRaise ScopeError
       end).
  { intro Hnone.
    destruct (stft_layers_route layers (VNat size) Esize Hhopfit Hkeys Hnone) as (op & Er & Hop).
    exists op. split; [exact Hop|].
    unfold stft_model. rewrite Er. cbn [r_size r_hop r_transform r_inverse r_before r_after r_wnd r_ola r_ola_params].
    rewrite Hhopval, Etr, Eitr, Ebef, Eaft.
    rewrite (stage2_ok size tr Str), (stage2_ok size itr Sitr), (stage1_ok bef Sbef), (stage1_ok aft Saft).
    unfold opt_default at 1.
    rewrite (stft_blkgen_chain size hop _ w) by (try apply spec_wnd_stft; try exact Ew; fold h; lia).
    fold h.
    assert (Eb : map (fun b => opt_app (stage1_fun aft) (opt_app (stage2_fun size itr) (f1 func
                     (opt_app (stage2_fun size tr) (opt_app (stage1_fun bef)
                        match w with None => b | Some wl => map2 Qcmult b wl end)))))
                     (blocks_spec size h 0%Qc sig)
                 = stft_blocks_spec f1 f2 size h w tr itr bef aft func sig).
    { unfold stft_blocks_spec. apply map_ext. intro b. apply compose_stages_eq. }
    rewrite Eb. rewrite Eola. destruct ola as [| | | | |[|id]|]; reflexivity. }
  destruct ola as [| | | | |[|id]|]; try exact I.
  - (* ola = None *)
    destruct (existsb is_ola_key (all_keys layers)) eqn:Eex; [exact I|].
    destruct Hgen as (op & _ & E).
    + intros _ k Hk. destruct (is_ola_key k) eqn:Ek; [|reflexivity].
      assert (existsb is_ola_key (all_keys layers) = true) by (apply existsb_exists; exists k; auto). congruence.
    + exact E.
  - (* overlap_add.list *)
    destruct Hgen as (op & Hop & E); [intro Hx; rewrite Eola in Hx; discriminate Hx|].
    destruct (forallb (fun k => negb (is_ola_key k) ||
                existsb (String.eqb (strip_ola k)) ["size"; "hop"; "wnd"; "normalize"]) (all_keys layers)) eqn:Eknown;
      [|exact I]. cbn [negb].
    assert (Hknown : forall q, dict_get op q <> None -> In q ["size"; "hop"; "wnd"; "normalize"]).
    { intros q Hq. rewrite Hop in Hq. unfold spec_ola_param in Hq.
      destruct (spec_lookup layers (ola_prefix ++ q)) eqn:El.
      - assert (Hin : In (ola_prefix ++ q) (all_keys layers)) by (apply spec_lookup_in; congruence).
        rewrite forallb_forall in Eknown. specialize (Eknown _ Hin).
        rewrite is_ola_key_app, strip_ola_app in Eknown. cbn [negb orb] in Eknown.
        apply existsb_exists in Eknown as (x & Hx & Ex). apply String.eqb_eq in Ex. subst x. exact Hx.
      - destruct (String.eqb_spec q "size"); [subst; simpl; auto|].
        destruct (String.eqb_spec q "hop"); [subst; simpl; auto|]. congruence. }
    rewrite E, (ola_list_call_known gc op _ None Hknown). rewrite !Hop.
    destruct (spec_ola_param layers "size") as [vs|]; [|exact I].
    destruct (spec_ola_param layers "hop") as [vh|]; [|destruct (onat vs); exact I].
    cbn [opt_default].
    destruct vs; cbn [onat onat_of_val]; try exact I;
    destruct vh; cbn [onat onat_of_val]; try exact I;
    (destruct (spec_ola_param layers "normalize") as [vn|]; cbn [opt_default];
     [destruct vn; cbn [obool truth_of_val]; try exact I|cbn [truth_of_val]]);
    match goal with
    | |- match match ola_promise ?a ?b ?c ?d ?e ?f with _ => _ end with _ => _ end =>
        destruct (ola_promise a b c d e f) as [out|] eqn:Ep; [|exact I];
        apply ola_model_meets_promise in Ep;
        unfold opt_default; rewrite Ep; reflexivity
    end.
  - (* a user-supplied overlap-add *)
    destruct Hgen as (op & Hop & E); [intro Hx; rewrite Eola in Hx; discriminate Hx|].
    exists op. split; [exact E|exact Hop].
Qed.

(* The model of a call is a function of the keyword layers of its own chain, its func and its signal only
   (no state between uses of a partial object or of a processor): in any history of calls every call gets what
   the text promises for it. *)
Definition call_ok gc (c : list kwl * F * list Qc) : Prop :=
  let '(layers, func, sig) := c in
  match stft_promise f1 f2 wsem falsy gc layers func sig with
  | PSilent => True
  | PBlocks b => stft_model f1 f2 wsem falsy gc layers func sig = SBlocks b None
  | PUser id b => exists op, stft_model f1 f2 wsem falsy gc layers func sig = SUser id op b None /\
                             forall q, dict_get op q = spec_ola_param layers q
  | PSamples out => stft_model f1 f2 wsem falsy gc layers func sig = SSamples out None
  end.

Theorem stft_calls_independent gc (calls : list (list kwl * F * list Qc)) : Forall (call_ok gc) calls.
Proof.
  apply Forall_forall. intros [[layers func] sig] _. apply stft_model_meets_promise.
Qed.
End Layers.
