(* C09 - proofs, part 5: keyword dictionaries of the stft wrapper (layer merging, routing). *)
From Coq Require Import String.
From Coq Require Import List Bool Arith Lia.
From AL Require Import Base.CaseLib C09.Model C09.Spec.
Import ListNotations.

Section Dict.
Context {F W : Type}.
Notation val := (val F W).
Notation kwl := (kwl F W).
Implicit Types (d : kwl) (k q : string) (v : val).

Lemma eqb_sym_s (a b : string) : String.eqb a b = String.eqb b a.
Proof. destruct (String.eqb_spec a b), (String.eqb_spec b a); congruence. Qed.

Lemma find_app {A : Type} (f : A -> bool) (a b : list A) :
  find f (a ++ b) = match find f a with Some x => Some x | None => find f b end.
Proof. induction a as [|x a IH]; simpl; [reflexivity|]. destruct (f x); [reflexivity|exact IH]. Qed.

Definition lookup_last (l : kwl) k : option val :=
  match find (fun kv => String.eqb k (fst kv)) (rev l) with Some kv => Some (snd kv) | None => None end.

Lemma dict_get_set d k v q :
  dict_get (dict_set d k v) q = if String.eqb q k then Some v else dict_get d q.
Proof.
  induction d as [|[k' v'] d IH]; simpl.
  - reflexivity.
  - destruct (String.eqb_spec k k') as [E|E]; simpl.
    + subst k'. destruct (String.eqb_spec q k); reflexivity.
    + rewrite IH. destruct (String.eqb_spec q k') as [E'|E']; [|reflexivity].
      subst k'. destruct (String.eqb_spec q k); [congruence|reflexivity].
Qed.

Lemma dict_get_update : forall (l : kwl) d q,
  dict_get (dict_update d l) q = match lookup_last l q with Some v => Some v | None => dict_get d q end.
Proof.
  unfold dict_update, lookup_last.
  induction l as [|[k v] l IH]; intros d q; [reflexivity|].
  cbn [fold_left fst snd]. rewrite IH. cbn [rev]. rewrite find_app.
  destruct (find (fun kv => String.eqb q (fst kv)) (rev l)); [reflexivity|].
  rewrite dict_get_set. cbn [find fst snd]. destruct (String.eqb q k); reflexivity.
Qed.

Lemma merge_get_gen : forall (ls : list kwl) d q,
  dict_get (fold_left dict_update ls d) q
  = match spec_lookup ls q with Some v => Some v | None => dict_get d q end.
Proof.
  unfold spec_lookup.
  induction ls as [|l ls IH]; intros d q; [reflexivity|].
  cbn [fold_left concat]. rewrite IH. rewrite rev_app_distr, find_app.
  destruct (find (fun kv => String.eqb q (fst kv)) (rev (concat ls))); [reflexivity|].
  rewrite dict_get_update. unfold lookup_last.
  destruct (find (fun kv => String.eqb q (fst kv)) (rev l)); reflexivity.
Qed.

(* later keyword layers override earlier ones, whatever the calling style *)
Theorem merge_layers_lookup (ls : list kwl) q : dict_get (merge_layers ls) q = spec_lookup ls q.
Proof. unfold merge_layers. rewrite merge_get_gen. destruct (spec_lookup ls q); reflexivity. Qed.

(* keys *)
Lemma dict_get_in d q : dict_get d q <> None <-> In q (map fst d).
Proof.
  induction d as [|[k v] d IH]; simpl; [tauto|].
  destruct (String.eqb_spec q k) as [E|E].
  - subst. split; [auto|discriminate].
  - rewrite IH. split; [auto|]. intros [H|H]; [congruence|exact H].
Qed.

Lemma find_key_in (l : kwl) q :
  find (fun kv => String.eqb q (fst kv)) l <> None <-> In q (map fst l).
Proof.
  induction l as [|[k v] l IH]; simpl; [tauto|].
  destruct (String.eqb_spec q k) as [E|E].
  - subst. split; [auto|discriminate].
  - rewrite IH. split; [auto|]. intros [H|H]; [congruence|exact H].
Qed.

Lemma spec_lookup_in (ls : list kwl) q : spec_lookup ls q <> None <-> In q (all_keys ls).
Proof.
  unfold spec_lookup, all_keys.
  assert (H := find_key_in (rev (concat ls)) q).
  rewrite map_rev, <- in_rev in H. rewrite <- H.
  destruct (find (fun kv => String.eqb q (fst kv)) (rev (concat ls))); split; congruence.
Qed.

Lemma merge_keys (ls : list kwl) q : In q (map fst (merge_layers ls)) <-> In q (all_keys ls).
Proof. rewrite <- dict_get_in, merge_layers_lookup. apply spec_lookup_in. Qed.

(* deletion *)
Lemma dict_get_del d k q :
  dict_get (dict_del d k) q = if String.eqb q k then None else dict_get d q.
Proof.
  induction d as [|[k' v'] d IH]; simpl.
  - destruct (String.eqb q k); reflexivity.
  - destruct (String.eqb_spec k k') as [E|E].
    + subst k'. rewrite IH. destruct (String.eqb_spec q k); reflexivity.
    + simpl. rewrite IH. destruct (String.eqb_spec q k') as [E'|E']; [|reflexivity].
      subst k'. destruct (String.eqb_spec q k); [congruence|reflexivity].
Qed.

Lemma dict_get_dels : forall (ks : list string) d q,
  dict_get (fold_left dict_del ks d) q = if existsb (String.eqb q) ks then None else dict_get d q.
Proof.
  induction ks as [|k ks IH]; intros d q; [reflexivity|].
  cbn [fold_left existsb]. rewrite IH, dict_get_del.
  destruct (String.eqb q k); simpl; destruct (existsb (String.eqb q) ks); reflexivity.
Qed.

(* dictionaries built by dict_set have unique keys *)
Lemma dict_set_keys d k v q : In q (map fst (dict_set d k v)) <-> q = k \/ In q (map fst d).
Proof.
  rewrite <- !dict_get_in, dict_get_set.
  destruct (String.eqb_spec q k) as [E|E].
  - split; [intros _; left; exact E|intros _; discriminate].
  - split; [intro H; right; exact H|intros [H|H]; [contradiction|exact H]].
Qed.

Lemma dict_set_nodup d k v : NoDup (map fst d) -> NoDup (map fst (dict_set d k v)).
Proof.
  induction d as [|[k' v'] d IH]; simpl; intro H.
  - constructor; [simpl; tauto|constructor].
  - inversion H as [|? ? Hn Hd]; subst.
    destruct (String.eqb_spec k k') as [E|E]; simpl.
    + subst. constructor; assumption.
    + constructor; [|apply IH; exact Hd].
      intro Hin. apply dict_set_keys in Hin. destruct Hin; [congruence|contradiction].
Qed.

Lemma dict_update_nodup : forall (l : kwl) d, NoDup (map fst d) -> NoDup (map fst (dict_update d l)).
Proof.
  unfold dict_update. induction l as [|[k v] l IH]; intros d H; [exact H|].
  cbn [fold_left]. apply IH. apply dict_set_nodup. exact H.
Qed.

Lemma merge_nodup (ls : list kwl) : NoDup (map fst (merge_layers ls)).
Proof.
  unfold merge_layers. assert (H : NoDup (map fst (@nil (string * val)))) by constructor.
  revert H. generalize (@nil (string * val)).
  induction ls as [|l ls IH]; intros d H; [exact H|].
  cbn [fold_left]. apply IH. apply dict_update_nodup. exact H.
Qed.

Lemma dict_del_keys d k q : In q (map fst (dict_del d k)) <-> q <> k /\ In q (map fst d).
Proof.
  rewrite <- !dict_get_in, dict_get_del.
  destruct (String.eqb_spec q k) as [E|E].
  - split; [intro H; congruence|intros [H _]; contradiction].
  - split; [intro H; split; assumption|intros [_ H]; exact H].
Qed.

Lemma dict_del_nodup d k : NoDup (map fst d) -> NoDup (map fst (dict_del d k)).
Proof.
  induction d as [|[k' v'] d IH]; simpl; intro H; [constructor|].
  inversion H as [|? ? Hn Hd]; subst.
  destruct (String.eqb_spec k k') as [E|E]; simpl; [apply IH; exact Hd|].
  constructor; [|apply IH; exact Hd]. intro Hin. apply dict_del_keys in Hin. tauto.
Qed.

Lemma dict_dels_nodup : forall (ks : list string) d, NoDup (map fst d) -> NoDup (map fst (fold_left dict_del ks d)).
Proof.
  induction ks as [|k ks IH]; intros d H; [exact H|]. cbn [fold_left]. apply IH. apply dict_del_nodup. exact H.
Qed.

(* with unique keys the last occurrence is the only one *)
Lemma dict_get_find d q :
  dict_get d q = match find (fun kv => String.eqb q (fst kv)) d with Some kv => Some (snd kv) | None => None end.
Proof. induction d as [|[k v] d IH]; simpl; [reflexivity|]. destruct (String.eqb q k); [reflexivity|exact IH]. Qed.

Lemma nodup_unique d (a b : string * val) :
  NoDup (map fst d) -> In a d -> In b d -> fst a = fst b -> a = b.
Proof.
  induction d as [|c d IH]; simpl; intros H Ha Hb E; [contradiction|].
  inversion H as [|? ? Hn Hd]; subst.
  destruct Ha as [Ha|Ha], Hb as [Hb|Hb]; subst.
  - reflexivity.
  - exfalso. apply Hn. rewrite E. apply in_map. exact Hb.
  - exfalso. apply Hn. rewrite <- E. apply in_map. exact Ha.
  - apply IH; assumption.
Qed.

Lemma lookup_last_nodup d q : NoDup (map fst d) -> lookup_last d q = dict_get d q.
Proof.
  intro H. rewrite dict_get_find. unfold lookup_last.
  destruct (find (fun kv => String.eqb q (fst kv)) (rev d)) as [a|] eqn:Ea;
  destruct (find (fun kv => String.eqb q (fst kv)) d) as [b|] eqn:Eb.
  - apply find_some in Ea as [Ia Ha], Eb as [Ib Hb]. apply in_rev in Ia.
    apply String.eqb_eq in Ha, Hb. rewrite (nodup_unique d a b H Ia Ib) by congruence. reflexivity.
  - exfalso. apply find_some in Ea as [Ia Ha]. apply in_rev in Ia.
    exact (eq_true_false_abs _ Ha (find_none _ _ Eb a Ia)).
  - exfalso. apply find_some in Eb as [Ib Hb]. apply (in_rev d) in Ib.
    exact (eq_true_false_abs _ Hb (find_none _ _ Ea b Ib)).
  - reflexivity.
Qed.
End Dict.
