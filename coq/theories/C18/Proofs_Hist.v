(* C18 - interleaved consumption: what stream i gives in ANY interleaved run of several live streams is what it
   gives when pulled alone the same number of times (the model has no state shared between streams). *)
From Coq Require Import List Bool ZArith Arith Lia.
From AL Require Import Base.CaseLib C18.Model C18.Spec C18.Check C18.Hist.
Import ListNotations.
Local Open Scope nat_scope.

Lemma pulls_S {A} (k : nat) (rem : list A) : pulls (S k) rem = hd_error rem :: pulls k (tl rem).
Proof. destruct rem; reflexivity. Qed.

Lemma pulls_length {A} (k : nat) : forall outs : list A, length (pulls k outs) = k.
Proof. induction k as [|k IH]; intros [|x r]; cbn; auto. Qed.

Lemma upd_length {A} (l : list A) : forall i x, length (upd l i x) = length l.
Proof. induction l as [|y r IH]; intros [|j] x; cbn; auto. Qed.

Lemma nth_upd_same {A} (l : list A) : forall i x d, i < length l -> nth i (upd l i x) d = x.
Proof.
  induction l as [|y r IH]; intros [|j] x d Hlt; cbn in *; try lia; auto.
  apply IH; lia.
Qed.

Lemma nth_upd_other {A} (l : list A) : forall i j x d, i <> j -> nth i (upd l j x) d = nth i l d.
Proof.
  induction l as [|y r IH]; intros [|i] [|j] x d Hne; cbn; auto; try congruence.
Qed.

Lemma nth_error_nth' {A} (l : list A) i d x : nth_error l i = Some x -> nth i l d = x /\ i < length l.
Proof.
  intro H. split.
  - now apply nth_error_nth.
  - apply nth_error_Some. congruence.
Qed.

Theorem run_sched_view {A} : forall (sched : list nat) (st : list (list A)) (i : nat),
  i < length st ->
  view i (run_sched sched st) = pulls (count i sched) (nth i st []).
Proof.
  induction sched as [|j r IH]; intros st i Hi; [reflexivity|].
  unfold count in *. cbn [run_sched filter].
  destruct (nth_error st j) as [rem|] eqn:E.
  - destruct (nth_error_nth' st j [] rem E) as [Hn Hj].
    unfold view in *. cbn [filter fst map snd].
    destruct (Nat.eqb_spec j i) as [->|Hne].
    + rewrite Nat.eqb_refl. cbn [map snd length]. rewrite pulls_S.
      rewrite (IH (upd st i (tl rem)) i) by (rewrite upd_length; exact Hi).
      rewrite nth_upd_same by exact Hi. now rewrite Hn.
    + replace (Nat.eqb i j) with false by (symmetry; apply Nat.eqb_neq; congruence).
      rewrite (IH (upd st j (tl rem)) i) by (rewrite upd_length; exact Hi).
      rewrite nth_upd_other by congruence. reflexivity.
  - assert (Hj : length st <= j) by (apply nth_error_None; exact E).
    replace (Nat.eqb i j) with false by (symmetry; apply Nat.eqb_neq; lia).
    apply IH; exact Hi.
Qed.

(* instance: live WavStreams over files (bits, channels, keep, raw bytes) *)
Definition wfile := (Z * nat * bool * list Z)%type.
Definition wfile_model (f : wfile) : list wout := let '(b, c, k, raw) := f in wav_model b c k raw.

Theorem wav_interleaved_independent : forall (files : list wfile) (sched : list nat) (i : nat) (f : wfile),
  nth_error files i = Some f ->
  view i (run_sched sched (map wfile_model files)) = pulls (count i sched) (wfile_model f).
Proof.
  intros files sched i f H.
  destruct (nth_error_nth' files i f f H) as [Hn Hi].
  rewrite run_sched_view by (rewrite map_length; exact Hi).
  f_equal. rewrite nth_indep with (d' := wfile_model f) by (rewrite map_length; exact Hi).
  rewrite map_nth. now rewrite Hn.
Qed.

(* a stream pulled past its end keeps saying StopIteration, and never before *)
Theorem pulls_spec {A} : forall (k : nat) (outs : list A) (j : nat), j < k ->
  nth j (pulls k outs) None = nth_error outs j.
Proof.
  induction k as [|k IH]; intros outs j Hj; [lia|].
  destruct outs as [|x r]; destruct j as [|j]; cbn; auto.
  - rewrite IH by lia. now destruct j.
  - apply IH; lia.
Qed.
