(* C18 - histories: several live WavStreams / chunk generators in one process, several calls on one
   caller's object.  The library code is pure per stream / per call (the only real state is a one-shot
   iterator consumed by an earlier call, and the file handle of a stream), so the model of a history
   is the per-stream / per-call model; the interleaving machine [run_sched] below is only there to
   state (Proofs_Hist.v) that every stream's view of an interleaved run is its own sequential run.
   Definitions and boolean checkers only. *)
From Coq Require Import List Bool ZArith QArith Qcanon String.
From AL Require Import Base.CaseLib C18.Model C18.Spec C18.Check.
Import ListNotations.
Open Scope Z_scope.

(* ---- pulling k times from a stream holding [outs]: the samples, then StopIteration for ever *)
Fixpoint pulls {A : Type} (k : nat) (outs : list A) : list (option A) :=
  match k with
  | O => []
  | S k' => match outs with
            | [] => None :: pulls k' []
            | x :: r => Some x :: pulls k' r
            end
  end.

(* an interleaved run: [st] = what every live stream still has to give; one pull from stream i per step *)
Fixpoint upd {A : Type} (l : list A) (i : nat) (x : A) : list A :=
  match l, i with
  | [], _ => []
  | _ :: r, O => x :: r
  | y :: r, S j => y :: upd r j x
  end.
Fixpoint run_sched {A : Type} (sched : list nat) (st : list (list A)) : list (nat * option A) :=
  match sched with
  | [] => []
  | i :: r => match nth_error st i with
              | None => run_sched r st
              | Some rem => (i, hd_error rem) :: run_sched r (upd st i (tl rem))
              end
  end.
Definition view {A : Type} (i : nat) (tr : list (nat * option A)) : list (option A) :=
  map snd (filter (fun e => Nat.eqb (fst e) i) tr).
Definition count (i : nat) (sched : list nat) : nat := List.length (filter (Nat.eqb i) sched).

(* ---- WavStream histories *)
Record hstream := HS {
  hs_bits : Z; hs_channels : nat; hs_keep : bool; hs_samples : list Z; hs_raw : list Z;
  hs_rate : Z; hs_attrs : Z * Z * Z;
  hs_open0 : bool;                          (* the file the library opened is open after construction *)
  hs_events : list (option wout * bool);    (* every pull: sample / None = StopIteration; file closed after it *)
  hs_bad : bool;                            (* any other exception, or a value that is no int / float *)
  hs_closed_del : bool }.                   (* file closed after the stream object was deleted *)
Record hcase := HC { h_sched : list nat; h_streams : list hstream }.

Definition wopt_eqb := option_eqb wout_eqb.
Definition is_none {A : Type} (o : option A) : bool := match o with None => true | Some _ => false end.

(* file-handle state of the real code: closed by the pull that finds the file exhausted, or by deletion *)
Definition corr_stream (s : hstream) : bool :=
  bytes_eqb (hs_raw s) (wav_encode (hs_bits s) (hs_samples s)) &&
  negb (hs_bad s) && hs_open0 s && hs_closed_del s &&
  list_eqb wopt_eqb (map fst (hs_events s))
           (pulls (List.length (hs_events s)) (wav_model (hs_bits s) (hs_channels s) (hs_keep s) (hs_raw s))) &&
  forallb (fun e => Bool.eqb (snd e) (is_none (fst e))) (hs_events s).
Fixpoint counts_ok (i : nat) (sched : list nat) (ss : list hstream) : bool :=
  match ss with
  | [] => true
  | s :: r => Nat.eqb (List.length (hs_events s)) (count i sched) && counts_ok (S i) sched r
  end.
Definition corr_wavhist (c : hcase) : bool :=
  forallb corr_stream (h_streams c) && counts_ok 0 (h_sched c) (h_streams c) &&
  forallb (fun i => Nat.ltb i (List.length (h_streams c))) (h_sched c).

(* the property: every stream gives ITS file's integers (prefix, then nothing), in range, header mirrored,
   and the file is closed once the stream has been seen exhausted *)
Definition holds_stream (s : hstream) : bool :=
  negb (hs_bad s) &&
  list_eqb wopt_eqb (map fst (hs_events s))
           (pulls (List.length (hs_events s)) (wav_spec (hs_bits s) (hs_keep s) (hs_samples s))) &&
  forallb (fun e => match fst e with
                    | Some (WFlt q) => Qc_leb (qc (-1) 1) q && Qc_ltb q (qc 1 1)
                    | Some (WInt _) => true
                    | None => snd e
                    end) (hs_events s) &&
  (let '(r, ch, b) := hs_attrs s in
   Z.eqb r (hs_rate s) && Z.eqb ch (Z.of_nat (hs_channels s)) && Z.eqb b (hs_bits s)).
Definition holds_wavhist (c : hcase) : bool := forallb holds_stream (h_streams c).

(* ---- chunks histories: several calls on the caller's objects *)
Inductive kind := KList | KTuple | KGen | KIter | KStream | KDeque | KArrSame | KArrOther | KRange
                | KIterOnly | KRepeat | KThub.
(* a generator / iterator / Stream / itertools.repeat is consumed by the first call that uses it *)
Definition reiterable (k : kind) : bool :=
  match k with KGen | KIter | KStream | KRepeat => false | _ => true end.
Inductive strat := SStruct | SArray.
Record kobj := KO { ko_kind : kind; ko_xs : list Z }.
Record kcall := KK { k_obj : nat; k_strat : strat; k_size : nat; k_order : order; k_pad : Z;
                     k_obs : cobs;
                     k_after : option (list Z) }.  (* the caller's object read again afterwards (None: unreadable /
                                                      its type, typecode or maxlen changed) *)
Record kcase := KC { kc_fmt : dfmt; kc_objs : list kobj; kc_sched : list nat; kc_calls : list kcall }.

Definition used_before (prev : list kcall) (i : nat) : bool := existsb (fun c => Nat.eqb (k_obj c) i) prev.
(* what the call's argument holds when the call starts iterating it *)
Definition eff_xs (objs : list kobj) (prev : list kcall) (c : kcall) : list Z :=
  match nth_error objs (k_obj c) with
  | None => []
  | Some o => if reiterable (ko_kind o) || negb (used_before prev (k_obj c)) then ko_xs o else []
  end.
Definition after_xs (objs : list kobj) (c : kcall) : list Z :=
  match nth_error objs (k_obj c) with
  | None => []
  | Some o => if reiterable (ko_kind o) then ko_xs o else []
  end.
Fixpoint with_eff (objs : list kobj) (prev : list kcall) (calls : list kcall) : list (kcall * list Z) :=
  match calls with
  | [] => []
  | c :: r => (c, eff_xs objs prev c) :: with_eff objs (prev ++ [c]) r
  end.
Definition call_model (f : dfmt) (c : kcall) (xs : list Z) : list (list Z) * bool :=
  match k_strat c with
  | SStruct => chunks_struct (k_size c) f (k_order c) (k_pad c) xs
  | SArray => chunks_array (k_size c) f (k_order c) (k_pad c) xs
  end.
Definition corr_ckinds (c : kcase) : bool :=
  forallb (fun ce => let '(k, xs) := ce in
                     cobs_eqb (k_obs k) (call_model (kc_fmt c) k xs) &&
                     option_eqb (list_eqb Z.eqb) (k_after k) (Some (after_xs (kc_objs c) k)))
          (with_eff (kc_objs c) [] (kc_calls c)).

(* the property on one call: reuse [one_ok] / [encodable] of the single-call family *)
Definition as_ccase (f : dfmt) (k : kcall) (xs : list Z) : ccase :=
  CC (k_size k) f (k_order k) (k_pad k) xs (k_obs k) (k_obs k).
Definition same_args (a b : kcall * list Z) : bool :=
  Nat.eqb (k_size (fst a)) (k_size (fst b)) && Z.eqb (k_pad (fst a)) (k_pad (fst b)) &&
  list_eqb Z.eqb (snd a) (snd b) &&
  match k_order (fst a), k_order (fst b) with
  | Big, Big => true | Big, _ => false | _, Big => false | _, _ => true   (* little-endian host *)
  end.
Definition holds_ckinds (c : kcase) : bool :=
  let ces := with_eff (kc_objs c) [] (kc_calls c) in
  (* a call whose data or pad value cannot be encoded is refused: the property says nothing about THAT call (the
     later calls on the same object are still held to it) *)
  let enc ce := encodable (as_ccase (kc_fmt c) (fst ce) (snd ce)) in
  forallb (fun ce => implb (enc ce) (one_ok (as_ccase (kc_fmt c) (fst ce) (snd ce)) (k_obs (fst ce)))) ces &&
  (* identical bytes for equal arguments, whatever the strategy / the position in the history *)
  forallb (fun a => forallb (fun b => implb (enc a && enc b && same_args a b)
             (list_eqb bytes_eqb (co_chunks (k_obs (fst a))) (co_chunks (k_obs (fst b))))) ces) ces.
