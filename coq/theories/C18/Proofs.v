(* C18 - proofs about the PCM byte codecs (chunks packing, WavStream decoding).
   1. integers <-> bytes round trip (any width >= 1, both byte orders)
   2. WavStream: decoding the file bytes of stored integers gives the promised outputs
   3. chunks: struct strategy = array strategy; unpacking the chunks gives the padded input *)
From Coq Require Import List Bool Arith ZArith QArith Qcanon Lia.
From Flocq Require Import IEEE754.BinarySingleNaN IEEE754.Binary IEEE754.Bits.
From AL Require Import Base.CaseLib C08.Model C08.Spec C08.Proofs C18.Model C18.Spec.
Import ListNotations.
Open Scope Z_scope.

(* ------------------------------------------------------------------ *)
(* 0. Small list facts                                                  *)
(* ------------------------------------------------------------------ *)

Lemma firstn_len_app {T} (n : nat) (p r : list T) :
  length p = n -> firstn n (p ++ r) = p.
Proof.
  intros <-. rewrite firstn_app, Nat.sub_diag, firstn_O, app_nil_r.
  apply firstn_all.
Qed.

Lemma skipn_len_app {T} (n : nat) (p r : list T) :
  length p = n -> skipn n (p ++ r) = r.
Proof.
  intros <-. rewrite skipn_app, Nat.sub_diag, skipn_O, skipn_all. reflexivity.
Qed.

Lemma concat_length_fixed {T} (n : nat) (ps : list (list T)) :
  Forall (fun p => length p = n) ps -> length (concat ps) = (length ps * n)%nat.
Proof.
  intros H. induction H as [|p ps Hp _ IH]; [reflexivity|].
  cbn [concat length]. rewrite app_length, IH, Hp. lia.
Qed.

(* ------------------------------------------------------------------ *)
(* 1. Integers <-> bytes                                                *)
(* ------------------------------------------------------------------ *)

Lemma pow256 (w : nat) : 256 ^ Z.of_nat w = 2 ^ bits_of w.
Proof.
  unfold bits_of. rewrite Z.pow_mul_r by lia. reflexivity.
Qed.

Lemma le_bytes_length (w : nat) : forall n, length (le_bytes w n) = w.
Proof.
  induction w as [|w IH]; intros n; cbn [le_bytes length]; [reflexivity|].
  rewrite IH. reflexivity.
Qed.

Lemma le_bytes_range (w : nat) : forall n,
  Forall (fun b => 0 <= b < 256) (le_bytes w n).
Proof.
  induction w as [|w IH]; intros n; cbn [le_bytes]; constructor.
  - apply Z.mod_pos_bound. lia.
  - apply IH.
Qed.

Lemma le_val_le_bytes (w : nat) : forall n,
  le_val (le_bytes w n) = n mod 256 ^ Z.of_nat w.
Proof.
  induction w as [|w IH]; intros n; cbn [le_bytes le_val].
  - change (256 ^ Z.of_nat 0) with 1. rewrite Z.mod_1_r. reflexivity.
  - rewrite IH, Nat2Z.inj_succ, Z.pow_succ_r by lia.
    rewrite Z.rem_mul_r by (try apply Z.pow_pos_nonneg; lia).
    reflexivity.
Qed.

Lemma le_val_range (bs : list Z) :
  Forall (fun b => 0 <= b < 256) bs ->
  0 <= le_val bs < 256 ^ Z.of_nat (length bs).
Proof.
  intros H. induction H as [|b bs Hb _ IH]; cbn [le_val length].
  - change (256 ^ Z.of_nat 0) with 1. lia.
  - rewrite Nat2Z.inj_succ, Z.pow_succ_r by lia. lia.
Qed.

Lemma ord_bytes_invol (o : order) (bs : list Z) : ord_bytes o (ord_bytes o bs) = bs.
Proof. destruct o; cbn [ord_bytes]; try reflexivity. apply rev_involutive. Qed.

Lemma ord_bytes_length (o : order) (bs : list Z) : length (ord_bytes o bs) = length bs.
Proof. destruct o; cbn [ord_bytes]; try reflexivity. apply rev_length. Qed.

Lemma ord_bytes_range (o : order) (bs : list Z) :
  Forall (fun b => 0 <= b < 256) bs -> Forall (fun b => 0 <= b < 256) (ord_bytes o bs).
Proof.
  destruct o; cbn [ord_bytes]; try tauto. intros H.
  apply Forall_forall. intros b Hb. apply in_rev in Hb.
  revert b Hb. apply Forall_forall. exact H.
Qed.

Lemma pow_bits_split (w : nat) : (1 <= w)%nat ->
  2 ^ bits_of w = 2 * 2 ^ (bits_of w - 1) /\ 0 < 2 ^ (bits_of w - 1).
Proof.
  intros Hw. split.
  - rewrite <- Z.pow_succ_r by (unfold bits_of; lia). f_equal. lia.
  - apply Z.pow_pos_nonneg; unfold bits_of; lia.
Qed.

Lemma in_srange_iff (w : nat) (v : Z) :
  in_srange w v = true <-> - 2 ^ (bits_of w - 1) <= v < 2 ^ (bits_of w - 1).
Proof.
  unfold in_srange. rewrite andb_true_iff, Z.leb_le, Z.ltb_lt. tauto.
Qed.

(* two's complement: reading back the residue of a value of the signed range *)
Lemma to_signed_mod (w : nat) (v : Z) :
  (1 <= w)%nat -> in_srange w v = true ->
  to_signed w (v mod 2 ^ bits_of w) = v.
Proof.
  intros Hw Hr. apply in_srange_iff in Hr.
  destruct (pow_bits_split w Hw) as [HB HB0].
  unfold to_signed. rewrite HB.
  set (B := 2 ^ (bits_of w - 1)) in *.
  destruct (Z.le_gt_cases 0 v) as [Hv|Hv].
  - rewrite Z.mod_small by lia.
    destruct (Z.ltb_spec v B); lia.
  - replace (v mod (2 * B)) with (v + 2 * B).
    + destruct (Z.ltb_spec (v + 2 * B) B); lia.
    + apply Z.mod_unique with (-1); lia.
Qed.

(* the decoder always lands in the signed range *)
Lemma to_signed_range (w : nat) (u : Z) :
  (1 <= w)%nat -> 0 <= u < 2 ^ bits_of w -> in_srange w (to_signed w u) = true.
Proof.
  intros Hw Hu. apply in_srange_iff.
  destruct (pow_bits_split w Hw) as [HB HB0].
  unfold to_signed. rewrite HB in *.
  set (B := 2 ^ (bits_of w - 1)) in *.
  destruct (Z.ltb_spec u B); lia.
Qed.

Theorem int_roundtrip (w : nat) (o : order) (v : Z) (bs : list Z) :
  (1 <= w)%nat -> enc_int w o v = Some bs ->
  dec_int w o bs = v /\ length bs = w.
Proof.
  intros Hw H. unfold enc_int in H.
  destruct (in_srange w v) eqn:Hr; [|discriminate H].
  injection H as <-. split.
  - unfold dec_int.
    rewrite ord_bytes_invol, le_val_le_bytes, pow256.
    rewrite Z.mod_mod by (destruct (pow_bits_split w Hw); lia).
    apply to_signed_mod; assumption.
  - rewrite ord_bytes_length. apply le_bytes_length.
Qed.

Theorem enc_int_in_range (w : nat) (o : order) (v : Z) :
  in_srange w v = true -> exists bs, enc_int w o v = Some bs.
Proof. intros H. unfold enc_int. rewrite H. eexists. reflexivity. Qed.

(* ... and only then: outside the signed range struct.pack raises *)
Theorem enc_int_out_of_range (w : nat) (o : order) (v : Z) :
  in_srange w v = false -> enc_int w o v = None.
Proof. intros H. unfold enc_int. rewrite H. reflexivity. Qed.

(* the bytes written are bytes *)
Theorem enc_int_bytes (w : nat) (o : order) (v : Z) (bs : list Z) :
  enc_int w o v = Some bs -> Forall (fun b => 0 <= b < 256) bs.
Proof.
  unfold enc_int. destruct (in_srange w v); [|discriminate].
  intros H. injection H as <-. apply ord_bytes_range, le_bytes_range.
Qed.

(* the other direction: packing what was unpacked gives the same bytes *)
Theorem int_roundtrip_bytes (w : nat) (o : order) (bs : list Z) :
  (1 <= w)%nat -> length bs = w -> Forall (fun b => 0 <= b < 256) bs ->
  enc_int w o (dec_int w o bs) = Some bs.
Proof.
  intros Hw Hl Hb.
  assert (Hu : 0 <= le_val (ord_bytes o bs) < 2 ^ bits_of w).
  { rewrite <- pow256, <- Hl, <- (ord_bytes_length o bs).
    apply le_val_range, ord_bytes_range, Hb. }
  unfold enc_int, dec_int.
  rewrite to_signed_range by assumption.
  f_equal.
  assert (Hm : to_signed w (le_val (ord_bytes o bs)) mod 2 ^ bits_of w
               = le_val (ord_bytes o bs)).
  { unfold to_signed.
    destruct (Z.ltb_spec (le_val (ord_bytes o bs)) (2 ^ (bits_of w - 1))).
    - apply Z.mod_small. exact Hu.
    - symmetry. apply Z.mod_unique with (-1); lia. }
  rewrite Hm. clear Hm Hu.
  rewrite <- (ord_bytes_invol o bs) at 2. f_equal.
  rewrite <- Hl, <- (ord_bytes_length o bs).
  apply ord_bytes_range with (o := o) in Hb.
  induction Hb as [|b r Hb _ IH]; cbn [le_val length le_bytes]; [reflexivity|].
  replace (b + 256 * le_val r) with (b + le_val r * 256) by lia.
  f_equal.
  - rewrite Z.mod_add by lia. apply Z.mod_small, Hb.
  - rewrite Z.div_add by lia.
    rewrite Z.div_small by exact Hb. exact IH.
Qed.

(* ------------------------------------------------------------------ *)
(* 2. Cutting a byte string into fixed-width pieces                     *)
(* ------------------------------------------------------------------ *)

Lemma group_step (n f : nat) (l : list Z) :
  l <> [] -> group n (S f) l = firstn n l :: group n f (skipn n l).
Proof. destruct l; [congruence|reflexivity]. Qed.

Lemma group_nil (n f : nat) : group n f [] = [].
Proof. destruct f; reflexivity. Qed.

Lemma group_concat (n : nat) : (1 <= n)%nat ->
  forall (ps : list (list Z)) (fuel : nat),
  Forall (fun p => length p = n) ps -> (length ps <= fuel)%nat ->
  group n fuel (concat ps) = ps.
Proof.
  intros Hn ps. induction ps as [|p ps IH]; intros fuel Hall Hfuel.
  - apply group_nil.
  - inversion Hall as [|p' ps' Hp Hps]; subst.
    cbn [length] in Hfuel. destruct fuel as [|fuel]; [lia|].
    cbn [concat]. rewrite group_step.
    + rewrite firstn_len_app, skipn_len_app by reflexivity.
      f_equal. apply IH; [assumption|lia].
    + destruct p; cbn [length] in Hn; [lia|discriminate].
Qed.

(* frames of a concatenation of fixed-width pieces gives back the pieces *)
Lemma frames_concat (n : nat) (ps : list (list Z)) :
  (1 <= n)%nat -> Forall (fun p => length p = n) ps ->
  frames n (concat ps) = ps.
Proof.
  intros Hn Hall. unfold frames. apply group_concat; try assumption.
  rewrite (concat_length_fixed n) by assumption. nia.
Qed.

(* pairing consecutive pieces (the stereo frames) *)
Fixpoint pair_up (ps : list (list Z)) : list (list Z) :=
  match ps with
  | a :: b :: r => (a ++ b) :: pair_up r
  | _ => []
  end.

Lemma pair_up_facts (sw : nat) : forall (k : nat) (ps : list (list Z)),
  length ps = (2 * k)%nat -> Forall (fun p => length p = sw) ps ->
  concat (pair_up ps) = concat ps /\
  Forall (fun p => length p = (sw * 2)%nat) (pair_up ps) /\
  flat_map (fun el => [firstn sw el; skipn sw el]) (pair_up ps) = ps.
Proof.
  induction k as [|k IH]; intros ps Hlen Hall.
  - destruct ps; [|discriminate Hlen]. repeat split. constructor.
  - destruct ps as [|a [|b r]]; cbn [length] in Hlen; try lia.
    inversion Hall as [|? ? Ha Hall1]; subst.
    inversion Hall1 as [|? ? Hb Hr]; subst.
    destruct (IH r) as [H1 [H2 H3]]; [lia|assumption|].
    cbn [pair_up concat flat_map app]. repeat split.
    + rewrite H1, app_assoc. reflexivity.
    + constructor; [|exact H2]. rewrite app_length. lia.
    + rewrite firstn_len_app, skipn_len_app, H3 by reflexivity. reflexivity.
Qed.

Lemma sample_bytes_concat (sw channels : nat) (ps : list (list Z)) :
  (1 <= sw)%nat -> (channels = 1 \/ channels = 2)%nat ->
  Forall (fun p => length p = sw) ps ->
  (length ps mod channels = 0)%nat ->
  sample_bytes sw channels (concat ps) = ps.
Proof.
  intros Hsw [->| ->] Hall Hmod; unfold sample_bytes.
  - cbn [Nat.eqb]. apply frames_concat; assumption.
  - cbn [Nat.eqb].
    pose proof (Nat.div_mod (length ps) 2 ltac:(lia)) as Hdm.
    rewrite Hmod, Nat.add_0_r in Hdm.
    destruct (pair_up_facts sw _ ps Hdm Hall) as [H1 [H2 H3]].
    rewrite <- H1, frames_concat by (try assumption; lia).
    exact H3.
Qed.

(* ------------------------------------------------------------------ *)
(* 3. WavStream                                                         *)
(* ------------------------------------------------------------------ *)

Lemma unpack_encode_8 (v : Z) : 0 <= v < 256 ->
  unpack 8 (le_bytes 1 (v mod 256)) = v.
Proof.
  intros Hv. unfold unpack. change (8 =? 8) with true. cbv iota.
  rewrite le_val_le_bytes. change (256 ^ Z.of_nat 1) with 256.
  rewrite Z.mod_mod by lia. apply Z.mod_small. exact Hv.
Qed.

Lemma unpack_encode_16 (v : Z) : - 32768 <= v < 32768 ->
  unpack 16 (le_bytes 2 (v mod 65536)) = v.
Proof.
  intros Hv. unfold unpack.
  change (16 =? 8) with false. change (16 =? 16) with true. cbv iota.
  rewrite le_val_le_bytes. change (256 ^ Z.of_nat 2) with 65536.
  rewrite Z.mod_mod by lia.
  change 65536 with (2 ^ bits_of 2). apply to_signed_mod; [lia|].
  apply in_srange_iff. change (2 ^ (bits_of 2 - 1)) with 32768. exact Hv.
Qed.

Lemma unpack_encode_32 (v : Z) : - 2147483648 <= v < 2147483648 ->
  unpack 32 (le_bytes 4 (v mod 4294967296)) = v.
Proof.
  intros Hv. unfold unpack.
  change (32 =? 8) with false. change (32 =? 16) with false.
  change (32 =? 24) with false. cbv iota.
  rewrite le_val_le_bytes. change (256 ^ Z.of_nat 4) with 4294967296.
  rewrite Z.mod_mod by lia.
  change 4294967296 with (2 ^ bits_of 4). apply to_signed_mod; [lia|].
  apply in_srange_iff. change (2 ^ (bits_of 4 - 1)) with 2147483648. exact Hv.
Qed.

(* 24 bits: a zero byte is prepended, the 32-bit decoder sign-extends, and the
   arithmetic shift (floor division by 256) drops the zero byte again *)
Lemma unpack_encode_24 (v : Z) : - 8388608 <= v < 8388608 ->
  unpack 24 (le_bytes 3 (v mod 16777216)) = v.
Proof.
  intros Hv. unfold unpack.
  change (24 =? 8) with false. change (24 =? 16) with false.
  change (24 =? 24) with true. cbv iota.
  cbn [le_val]. rewrite le_val_le_bytes. change (256 ^ Z.of_nat 3) with 16777216.
  rewrite Z.mod_mod by lia.
  unfold to_signed. change (2 ^ (bits_of 4 - 1)) with 2147483648.
  change (2 ^ bits_of 4) with 4294967296.
  destruct (Z.ltb_spec (0 + 256 * (v mod 16777216)) 2147483648) as [H|H].
  - assert (Hv' : 0 <= v) by (Z.div_mod_to_equations; lia).
    rewrite (Z.mod_small v) by lia.
    Z.div_mod_to_equations; lia.
  - assert (Hv' : v < 0) by (Z.div_mod_to_equations; lia).
    replace (v mod 16777216) with (v + 16777216)
      by (apply Z.mod_unique with (-1); lia).
    Z.div_mod_to_equations; lia.
Qed.

(* the 24-bit path is the 3-byte little-endian two's complement decoder, for every
   3-byte string (sign extension through the 32-bit decoder, then the shift) *)
Theorem unpack_24_signext (bs : list Z) :
  length bs = 3%nat -> Forall (fun b => 0 <= b < 256) bs ->
  unpack 24 bs = dec_int 3 Little bs.
Proof.
  intros Hl Hb. pose proof (le_val_range bs Hb) as Hu. rewrite Hl in Hu.
  change (256 ^ Z.of_nat 3) with 16777216 in Hu.
  unfold unpack, dec_int.
  change (24 =? 8) with false. change (24 =? 16) with false.
  change (24 =? 24) with true. cbv iota. cbn [le_val ord_bytes].
  unfold to_signed.
  change (2 ^ (bits_of 4 - 1)) with 2147483648. change (2 ^ bits_of 4) with 4294967296.
  change (2 ^ (bits_of 3 - 1)) with 8388608. change (2 ^ bits_of 3) with 16777216.
  set (u := le_val bs) in *.
  destruct (Z.ltb_spec (0 + 256 * u) 2147483648); destruct (Z.ltb_spec u 8388608);
    try lia; Z.div_mod_to_equations; lia.
Qed.

Definition wav_sample_bytes (bits v : Z) : list Z :=
  le_bytes (Z.to_nat (bits / 8)) (v mod 2 ^ bits).

Theorem unpack_encode (bits v : Z) :
  In bits [8; 16; 24; 32] -> in_wav_range bits v = true ->
  unpack bits (le_bytes (Z.to_nat (bits / 8)) (v mod 2 ^ bits)) = v.
Proof.
  intros Hb Hr. unfold in_wav_range in Hr.
  cbn [In] in Hb. destruct Hb as [<-|[<-|[<-|[<-|[]]]]].
  - change (8 =? 8) with true in Hr. cbv iota in Hr.
    apply andb_true_iff in Hr as [H1 H2]. apply Z.leb_le in H1. apply Z.ltb_lt in H2.
    apply unpack_encode_8. lia.
  - change (16 =? 8) with false in Hr. cbv iota in Hr.
    change (2 ^ (16 - 1)) with 32768 in Hr.
    apply andb_true_iff in Hr as [H1 H2]. apply Z.leb_le in H1. apply Z.ltb_lt in H2.
    apply unpack_encode_16. lia.
  - change (24 =? 8) with false in Hr. cbv iota in Hr.
    change (2 ^ (24 - 1)) with 8388608 in Hr.
    apply andb_true_iff in Hr as [H1 H2]. apply Z.leb_le in H1. apply Z.ltb_lt in H2.
    apply unpack_encode_24. lia.
  - change (32 =? 8) with false in Hr. cbv iota in Hr.
    change (2 ^ (32 - 1)) with 2147483648 in Hr.
    apply andb_true_iff in Hr as [H1 H2]. apply Z.leb_le in H1. apply Z.ltb_lt in H2.
    apply unpack_encode_32. lia.
Qed.

Lemma wav_sample_bytes_length (bits v : Z) :
  length (wav_sample_bytes bits v) = Z.to_nat (bits / 8).
Proof. apply le_bytes_length. Qed.

Lemma wav_out_encode (bits : Z) (keep : bool) (v : Z) :
  In bits [8; 16; 24; 32] -> in_wav_range bits v = true ->
  wav_out bits keep (wav_sample_bytes bits v) =
  if keep then WInt v
  else WFlt (Q2Qc ((if bits =? 8 then v - 128 else v) # Z.to_pos (2 ^ (bits - 1)))).
Proof.
  intros Hb Hr. pose proof (unpack_encode bits v Hb Hr) as Hu.
  fold (wav_sample_bytes bits v) in Hu.
  unfold wav_out. destruct keep; [rewrite Hu; reflexivity|].
  cbv zeta. destruct (bits =? 8) eqn:E.
  - apply Z.eqb_eq in E. subst bits.
    unfold unpack in Hu. change (8 =? 8) with true in Hu. cbv iota in Hu.
    rewrite Hu. reflexivity.
  - rewrite Hu. reflexivity.
Qed.

Theorem wav_model_encode (bits : Z) (channels : nat) (keep : bool) (samples : list Z) :
  In bits [8; 16; 24; 32] -> (channels = 1 \/ channels = 2)%nat ->
  Forall (fun v => in_wav_range bits v = true) samples ->
  (length samples mod channels = 0)%nat ->
  wav_model bits channels keep (wav_encode bits samples) = wav_spec bits keep samples.
Proof.
  intros Hb Hc Hall Hmod.
  unfold wav_model, wav_encode, wav_spec.
  rewrite flat_map_concat_map.
  change (fun v : Z => le_bytes (Z.to_nat (bits / 8)) (v mod 2 ^ bits))
    with (wav_sample_bytes bits).
  rewrite sample_bytes_concat; try assumption.
  - rewrite map_map. apply map_ext_in. intros v Hv.
    apply wav_out_encode; [assumption|].
    revert v Hv. apply Forall_forall. exact Hall.
  - cbn [In] in Hb. destruct Hb as [<-|[<-|[<-|[<-|[]]]]]; cbn; lia.
  - apply Forall_forall. intros p Hp. apply in_map_iff in Hp as [v [<- _]].
    apply wav_sample_bytes_length.
  - rewrite map_length. exact Hmod.
Qed.

(* the normalised outputs lie in [-1, 1) *)
Theorem wav_norm_range (bits v : Z) :
  In bits [8; 16; 24; 32] -> in_wav_range bits v = true ->
  let q := Q2Qc ((if bits =? 8 then v - 128 else v) # Z.to_pos (2 ^ (bits - 1))) in
  (Qcopp 1 <= q)%Qc /\ (q < 1)%Qc.
Proof.
  intros Hb Hr q.
  assert (Hn : exists D n, 0 < D /\ - D <= n < D /\ q = Q2Qc (n # Z.to_pos D)).
  { unfold q, in_wav_range in *. cbn [In] in Hb.
    destruct Hb as [<-|[<-|[<-|[<-|[]]]]].
    - change (8 =? 8) with true in *. cbv iota in *.
      apply andb_true_iff in Hr as [H1 H2]. apply Z.leb_le in H1. apply Z.ltb_lt in H2.
      exists (2 ^ (8 - 1)), (v - 128). change (2 ^ (8 - 1)) with 128. repeat split; lia.
    - change (16 =? 8) with false in *. cbv iota in *.
      apply andb_true_iff in Hr as [H1 H2]. apply Z.leb_le in H1. apply Z.ltb_lt in H2.
      exists (2 ^ (16 - 1)), v. repeat split; lia.
    - change (24 =? 8) with false in *. cbv iota in *.
      apply andb_true_iff in Hr as [H1 H2]. apply Z.leb_le in H1. apply Z.ltb_lt in H2.
      exists (2 ^ (24 - 1)), v. repeat split; lia.
    - change (32 =? 8) with false in *. cbv iota in *.
      apply andb_true_iff in Hr as [H1 H2]. apply Z.leb_le in H1. apply Z.ltb_lt in H2.
      exists (2 ^ (32 - 1)), v. repeat split; lia. }
  destruct Hn as [D [n [HD [Hn ->]]]].
  split.
  - unfold Qcle, Qcopp. cbn [this Q2Qc]. rewrite !Qred_correct.
    unfold Qle. cbn [Qnum Qden Qopp]. rewrite Z2Pos.id by assumption. lia.
  - unfold Qclt. cbn [this Q2Qc]. rewrite !Qred_correct.
    unfold Qlt. cbn [Qnum Qden]. rewrite Z2Pos.id by assumption. lia.
Qed.

(* the same, in the boolean form used by the case checker *)
Corollary wav_norm_range_bool (bits v : Z) :
  In bits [8; 16; 24; 32] -> in_wav_range bits v = true ->
  let q := Q2Qc ((if bits =? 8 then v - 128 else v) # Z.to_pos (2 ^ (bits - 1))) in
  Qc_leb (qc (-1) 1) q && Qc_ltb q (qc 1 1) = true.
Proof.
  intros Hb Hr q. destruct (wav_norm_range bits v Hb Hr) as [H1 H2]. fold q in H1, H2.
  apply andb_true_iff. split.
  - apply Qc_leb_spec. exact H1.
  - apply Qc_ltb_spec. exact H2.
Qed.

(* the event trace: all samples, then exactly one close, at the very end *)
Definition is_close (e : wev) : bool := match e with EvClose => true | EvSample _ => false end.

Theorem wav_trace_close_once (bits : Z) (channels : nat) (keep : bool) (raw : list Z) :
  let tr := wav_trace bits channels keep raw in
  length (filter is_close tr) = 1%nat /\
  last tr (EvSample (WInt 0)) = EvClose /\
  (exists pre, tr = pre ++ [EvClose] /\ Forall (fun e => is_close e = false) pre /\
               pre = map EvSample (wav_model bits channels keep raw)).
Proof.
  intros tr. unfold tr, wav_trace.
  set (outs := wav_model bits channels keep raw). clearbody outs.
  repeat split.
  - rewrite filter_app. cbn [filter is_close length app].
    rewrite app_length. cbn [length].
    replace (filter is_close (map EvSample outs)) with (@nil wev); [reflexivity|].
    induction outs as [|x r IH]; [reflexivity|exact IH].
  - apply last_last.
  - exists (map EvSample outs). repeat split.
    apply Forall_forall. intros e He. apply in_map_iff in He as [x [<- _]]. reflexivity.
Qed.

(* ------------------------------------------------------------------ *)
(* 4. chunks: the two strategies build the same block list              *)
(* ------------------------------------------------------------------ *)

(* the block list the array strategy packs *)
Definition arr_fin (size : nat) (pad : Z) (p : list (list Z) * list Z) : list (list Z) :=
  let '(ys, buf) := p in
  match buf with [] => ys | _ => ys ++ [buf ++ repeat pad (size - length buf)] end.

Lemma chunks_array_fin (size : nat) (f : dfmt) (o : order) (pad : Z) (xs : list Z) :
  chunks_array size f o pad xs =
  pack_blocks false f o (arr_fin size pad (arr_loop size [] xs)).
Proof.
  unfold chunks_array, arr_fin. destruct (arr_loop size [] xs) as [ys buf]. reflexivity.
Qed.

Lemma arr_fin_yield (size : nat) (pad : Z) (b : list Z) (p : list (list Z) * list Z) :
  arr_fin size pad (let '(ys, bf) := p in (b :: ys, bf)) = b :: arr_fin size pad p.
Proof. destruct p as [ys [|x bf]]; reflexivity. Qed.

Lemma blocks_spec_short_eq (size : nat) (pad : Z) (xs : list Z) :
  (length xs < size)%nat ->
  blocks_spec size size pad xs =
  match xs with [] => [] | _ => [xs ++ repeat pad (size - length xs)] end.
Proof.
  intros H. rewrite blocks_spec_short by assumption.
  destruct xs as [|x xs].
  - replace (Z.max (Z.of_nat size - Z.of_nat size) 0 <? Z.of_nat (length (@nil Z)))
      with false; [reflexivity|].
    symmetry. apply Z.ltb_ge. cbn [length]. lia.
  - replace (Z.max (Z.of_nat size - Z.of_nat size) 0 <? Z.of_nat (length (x :: xs)))
      with true; [reflexivity|].
    symmetry. apply Z.ltb_lt. cbn [length]. lia.
Qed.

Lemma arr_loop_spec (size : nat) (pad : Z) : (1 <= size)%nat ->
  forall (xs buf : list Z), (length buf < size)%nat ->
  arr_fin size pad (arr_loop size buf xs) = blocks_spec size size pad (buf ++ xs).
Proof.
  intros Hs. induction xs as [|x r IH]; intros buf Hbuf.
  - cbn [arr_loop arr_fin]. rewrite app_nil_r.
    rewrite blocks_spec_short_eq by assumption.
    destruct buf as [|b buf]; reflexivity.
  - cbn [arr_loop]. cbv zeta.
    destruct (Nat.eqb_spec (length (buf ++ [x])) size) as [E|E].
    + rewrite arr_fin_yield.
      rewrite (IH []) by (cbn [length]; lia). cbn [app].
      replace (buf ++ x :: r) with ((buf ++ [x]) ++ r)
        by (rewrite <- app_assoc; reflexivity).
      rewrite (blocks_spec_cons Z size size pad ((buf ++ [x]) ++ r))
        by (try assumption; rewrite app_length; lia).
      rewrite firstn_len_app, skipn_len_app by assumption. reflexivity.
    + rewrite IH by (rewrite app_length in *; cbn [length] in *; lia).
      rewrite <- app_assoc. reflexivity.
Qed.

(* both strategies pack the closed-form block list of C08 (hop = size) *)
Lemma chunks_struct_spec (size : nat) (f : dfmt) (o : order) (pad : Z) (xs : list Z) :
  (1 <= size)%nat ->
  chunks_struct size f o pad xs =
  pack_blocks (struct_strict o) f o (blocks_spec size size pad xs).
Proof.
  intros Hs. unfold chunks_struct. rewrite blocks_model_eq_spec by assumption. reflexivity.
Qed.

Lemma chunks_array_spec (size : nat) (f : dfmt) (o : order) (pad : Z) (xs : list Z) :
  (1 <= size)%nat ->
  chunks_array size f o pad xs = pack_blocks false f o (blocks_spec size size pad xs).
Proof.
  intros Hs. rewrite chunks_array_fin.
  rewrite arr_loop_spec by (try assumption; cbn [length]; lia).
  reflexivity.
Qed.

(* the two strategies see the same blocks *)
Theorem chunks_blocks_same (size : nat) (pad : Z) (xs : list Z) :
  (1 <= size)%nat ->
  arr_fin size pad (arr_loop size [] xs) = blocks_model size size pad xs.
Proof.
  intros Hs. rewrite blocks_model_eq_spec by assumption.
  apply arr_loop_spec; [assumption|cbn [length]; lia].
Qed.

(* ------------------------------------------------------------------ *)
(* 5. chunks: the blocks concatenate to the padded input                *)
(* ------------------------------------------------------------------ *)

Lemma npads_short (size L : nat) : (L < size)%nat ->
  npads size L = match L with O => O | _ => (size - L)%nat end.
Proof.
  intros H. unfold npads. rewrite (Nat.mod_small L size) by assumption.
  destruct L as [|L].
  - rewrite Nat.sub_0_r. apply Nat.mod_same. lia.
  - apply Nat.mod_small. lia.
Qed.

Lemma npads_step (size L : nat) : (1 <= size <= L)%nat ->
  npads size L = npads size (L - size).
Proof.
  intros H. unfold npads. f_equal. f_equal.
  replace L with ((L - size) + 1 * size)%nat at 1 by lia.
  apply Nat.mod_add. lia.
Qed.

Lemma blocks_concat_padded_n (size : nat) (pad : Z) : (1 <= size)%nat ->
  forall (n : nat) (xs : list Z), (length xs <= n)%nat ->
  concat (blocks_spec size size pad xs) = padded size pad xs.
Proof.
  intros Hs. induction n as [|n IH]; intros xs Hn.
  - destruct xs; [|cbn [length] in Hn; lia].
    rewrite blocks_spec_short_eq by (cbn [length]; lia).
    unfold padded. cbn [length]. rewrite npads_short by lia. reflexivity.
  - destruct (Nat.lt_ge_cases (length xs) size) as [Hlt|Hge].
    + rewrite blocks_spec_short_eq by assumption.
      unfold padded. rewrite npads_short by assumption.
      destruct xs as [|x xs]; [reflexivity|].
      cbn [concat]. rewrite app_nil_r. reflexivity.
    + rewrite blocks_spec_cons by assumption.
      cbn [concat]. rewrite IH by (rewrite skipn_length; lia).
      unfold padded. rewrite skipn_length, <- npads_step by lia.
      rewrite app_assoc, firstn_skipn. reflexivity.
Qed.

Lemma blocks_concat_padded (size : nat) (pad : Z) (xs : list Z) : (1 <= size)%nat ->
  concat (blocks_spec size size pad xs) = padded size pad xs.
Proof. intros Hs. apply (blocks_concat_padded_n size pad Hs (length xs)). apply le_n. Qed.

Lemma padded_members (size : nat) (pad : Z) (xs : list Z) (P : Z -> Prop) :
  Forall P (pad :: xs) -> Forall P (padded size pad xs).
Proof.
  intros H. inversion H as [|? ? Hp Hxs]; subst.
  unfold padded. apply Forall_app. split; [exact Hxs|].
  apply Forall_forall. intros v Hv. apply repeat_spec in Hv. subst v. exact Hp.
Qed.

(* the padded length is the least multiple of size that holds the input *)
Lemma padded_length (size : nat) (pad : Z) (xs : list Z) : (1 <= size)%nat ->
  (length (padded size pad xs) mod size = 0)%nat /\
  (length xs <= length (padded size pad xs) < length xs + size)%nat.
Proof.
  intros Hs. unfold padded. rewrite app_length, repeat_length. unfold npads.
  set (L := length xs).
  pose proof (Nat.div_mod L size ltac:(lia)) as Hdm.
  pose proof (Nat.mod_upper_bound L size ltac:(lia)) as Hub.
  destruct (Nat.eq_dec (L mod size) 0) as [E|E].
  - rewrite E, Nat.sub_0_r, Nat.mod_same, Nat.add_0_r by lia. split; [exact E|lia].
  - rewrite (Nat.mod_small (size - L mod size) size) by lia. split; [|lia].
    replace (L + (size - L mod size))%nat with (0 + (L / size + 1) * size)%nat by nia.
    rewrite Nat.mod_add by lia. apply Nat.mod_small. lia.
Qed.

(* ------------------------------------------------------------------ *)
(* 6. chunks: packing, then unpacking                                   *)
(* ------------------------------------------------------------------ *)

Lemma bits_of_b32_range (x : binary32) : 0 <= bits_of_b32 x < 2 ^ 32.
Proof. apply (bits_of_binary_float_range 23 8); reflexivity. Qed.

(* a double is identified with its bit pattern *)
Theorem f64_bits_roundtrip (v : Z) : 0 <= v < 2 ^ 64 -> bits_of_b64 (b64_of_bits v) = v.
Proof. intros Hv. apply (bits_of_binary_float_of_bits 52 11). exact Hv. Qed.

Theorem f32_bits_roundtrip (v : Z) : 0 <= v < 2 ^ 32 -> bits_of_b32 (b32_of_bits v) = v.
Proof. intros Hv. apply (bits_of_binary_float_of_bits 23 8). exact Hv. Qed.

(* enc_f32 either returns the four bytes of the rounded value or fails (strict overflow) *)
Lemma enc_f32_some (strict : bool) (o : order) (v : Z) (p : list Z) :
  enc_f32 strict o v = Some p ->
  p = ord_bytes o (le_bytes 4 (bits_of_b32 (f64_to_f32 (b64_of_bits v)))).
Proof.
  unfold enc_f32. intros H.
  destruct (strict && f32_overflows v); [discriminate H|].
  injection H as <-. reflexivity.
Qed.

Lemma enc_f32_none_iff (strict : bool) (o : order) (v : Z) :
  enc_f32 strict o v = None <-> strict = true /\ f32_overflows v = true.
Proof.
  unfold enc_f32. rewrite <- andb_true_iff.
  destruct (strict && f32_overflows v); split; intros H; try reflexivity; discriminate H.
Qed.

Lemma enc_f64_some (o : order) (v : Z) (p : list Z) :
  enc_f64 o v = Some p -> p = ord_bytes o (le_bytes 8 v).
Proof. unfold enc_f64. intros H. congruence. Qed.

(* one sample: what was packed is what unpacking returns *)
Lemma sample_roundtrip (strict : bool) (f : dfmt) (o : order) (v : Z) (p : list Z) :
  (f = Fd -> 0 <= v < 2 ^ 64) ->
  enc_sample strict f o v = Some p ->
  dec_sample f o p = stored f v /\ length p = width f.
Proof.
  intros Hd H. destruct f; cbn [enc_sample dec_sample stored width] in *.
  - apply int_roundtrip; [lia|exact H].
  - apply int_roundtrip; [lia|exact H].
  - apply int_roundtrip; [lia|exact H].
  - apply enc_f32_some in H. subst p. unfold dec_fbits.
    rewrite ord_bytes_invol, ord_bytes_length, le_bytes_length, le_val_le_bytes.
    split; [|reflexivity].
    change (256 ^ Z.of_nat 4) with (2 ^ 32).
    apply Z.mod_small. apply bits_of_b32_range.
  - apply enc_f64_some in H. subst p. unfold dec_fbits.
    rewrite ord_bytes_invol, ord_bytes_length, le_bytes_length, le_val_le_bytes.
    split; [|reflexivity].
    change (256 ^ Z.of_nat 8) with (2 ^ 64).
    apply Z.mod_small. apply Hd. reflexivity.
Qed.

Lemma enc_sample_length (strict : bool) (f : dfmt) (o : order) (v : Z) (p : list Z) :
  enc_sample strict f o v = Some p -> length p = width f.
Proof.
  destruct f; cbn [enc_sample width]; intros H.
  - apply (int_roundtrip 1 o v p); [lia|exact H].
  - apply (int_roundtrip 2 o v p); [lia|exact H].
  - apply (int_roundtrip 4 o v p); [lia|exact H].
  - apply enc_f32_some in H. subst p.
    rewrite ord_bytes_length. apply le_bytes_length.
  - apply enc_f64_some in H. subst p.
    rewrite ord_bytes_length. apply le_bytes_length.
Qed.

Lemma enc_block_pieces (strict : bool) (f : dfmt) (o : order) : forall (b ch : list Z),
  enc_block strict f o b = Some ch ->
  exists ps, Forall2 (fun v p => enc_sample strict f o v = Some p) b ps /\ ch = concat ps.
Proof.
  induction b as [|v r IH]; intros ch H; cbn [enc_block] in H.
  - injection H as <-. exists []. split; [constructor|reflexivity].
  - destruct (enc_sample strict f o v) as [x|] eqn:Ex; [|discriminate H].
    destruct (enc_block strict f o r) as [y|] eqn:Ey; [|discriminate H].
    injection H as <-. destruct (IH y eq_refl) as [ps [Hps ->]].
    exists (x :: ps). split; [constructor; assumption|reflexivity].
Qed.

Lemma pack_blocks_ok (strict : bool) (f : dfmt) (o : order) : forall (bl chs : list (list Z)),
  pack_blocks strict f o bl = (chs, false) ->
  Forall2 (fun b ch => enc_block strict f o b = Some ch) bl chs.
Proof.
  induction bl as [|b r IH]; intros chs H; cbn [pack_blocks] in H.
  - injection H as <-. constructor.
  - destruct (enc_block strict f o b) as [x|] eqn:Ex; [|discriminate H].
    destruct (pack_blocks strict f o r) as [ys e] eqn:Er.
    injection H as <- ->. constructor; [exact Ex|]. apply IH. reflexivity.
Qed.

Lemma pieces_length (strict : bool) (f : dfmt) (o : order) (b : list Z) (ps : list (list Z)) :
  Forall2 (fun v p => enc_sample strict f o v = Some p) b ps ->
  Forall (fun p => length p = width f) ps /\ length ps = length b.
Proof.
  intros H. induction H as [|v p b ps Hvp _ [IH1 IH2]].
  - split; [constructor|reflexivity].
  - split; [constructor; [|exact IH1]|cbn [length]; congruence].
    apply (enc_sample_length strict f o v p Hvp).
Qed.

(* all pieces of all blocks, in order *)
Lemma pack_blocks_pieces (strict : bool) (f : dfmt) (o : order) (bl chs : list (list Z)) :
  Forall2 (fun b ch => enc_block strict f o b = Some ch) bl chs ->
  exists ps, Forall2 (fun v p => enc_sample strict f o v = Some p) (concat bl) ps /\
             concat chs = concat ps.
Proof.
  intros H. induction H as [|b ch bl chs Hb _ [ps [Hps Hc]]].
  - exists []. split; [constructor|reflexivity].
  - destruct (enc_block_pieces strict f o b ch Hb) as [qs [Hqs ->]].
    exists (qs ++ ps). cbn [concat]. split.
    + apply Forall2_app; assumption.
    + rewrite concat_app, Hc. reflexivity.
Qed.

Lemma pieces_decode (strict : bool) (f : dfmt) (o : order) (vs : list Z) (ps : list (list Z)) :
  (f = Fd -> Forall (fun v => 0 <= v < 2 ^ 64) vs) ->
  Forall2 (fun v p => enc_sample strict f o v = Some p) vs ps ->
  map (dec_sample f o) ps = map (stored f) vs /\
  Forall (fun p => length p = width f) ps.
Proof.
  intros Hd H. induction H as [|v p vs ps Hvp _ IH].
  - split; [reflexivity|constructor].
  - destruct IH as [IH1 IH2].
    { intros Hf. specialize (Hd Hf). inversion Hd; assumption. }
    destruct (sample_roundtrip strict f o v p) as [H1 H2]; [|exact Hvp|].
    { intros Hf. specialize (Hd Hf). inversion Hd; assumption. }
    cbn [map]. split; [congruence|constructor; assumption].
Qed.

Lemma width_pos (f : dfmt) : (1 <= width f)%nat.
Proof. destruct f; cbn [width]; lia. Qed.

Lemma enc_block_length (strict : bool) (f : dfmt) (o : order) (b ch : list Z) :
  enc_block strict f o b = Some ch -> length ch = (length b * width f)%nat.
Proof.
  intros H. destruct (enc_block_pieces strict f o b ch H) as [ps [Hps ->]].
  destruct (pieces_length strict f o b ps Hps) as [H1 H2].
  rewrite (concat_length_fixed (width f)) by assumption. congruence.
Qed.

(* the common core: successful packing of the hop = size blocks, then unpacking *)
Lemma pack_unpack (strict : bool) (size : nat) (f : dfmt) (o : order) (pad : Z) (xs : list Z)
      (chs : list (list Z)) :
  (1 <= size)%nat ->
  (f = Fd -> Forall (fun v => 0 <= v < 2 ^ 64) (pad :: xs)) ->
  pack_blocks strict f o (blocks_spec size size pad xs) = (chs, false) ->
  unpack_all f o (concat chs) = map (stored f) (padded size pad xs) /\
  Forall (fun ch => length ch = (size * width f)%nat) chs.
Proof.
  intros Hs Hd H. apply pack_blocks_ok in H.
  split.
  - destruct (pack_blocks_pieces strict f o _ _ H) as [ps [Hps Hc]].
    rewrite (blocks_concat_padded size pad xs Hs) in Hps.
    destruct (pieces_decode strict f o (padded size pad xs) ps) as [H1 H2];
      [intros Hf; apply padded_members; exact (Hd Hf)|exact Hps|].
    unfold unpack_all. rewrite Hc, frames_concat by (try assumption; apply width_pos).
    exact H1.
  - pose proof (blocks_all_length_size Z size size pad xs Hs Hs) as Hlen.
    revert Hlen H. generalize (blocks_spec size size pad xs). intros bl Hlen H.
    induction H as [|b ch bl chs Hb _ IH]; constructor.
    + rewrite (enc_block_length strict f o b ch Hb), (Hlen b) by (left; reflexivity).
      reflexivity.
    + apply IH. intros b' Hb'. apply Hlen. right. exact Hb'.
Qed.

Theorem chunks_unpack (size : nat) (f : dfmt) (o : order) (pad : Z) (xs : list Z)
        (chs : list (list Z)) :
  (1 <= size)%nat ->
  (f = Fd -> Forall (fun v => 0 <= v < 2 ^ 64) (pad :: xs)) ->
  chunks_struct size f o pad xs = (chs, false) ->
  unpack_all f o (concat chs) = map (stored f) (padded size pad xs) /\
  Forall (fun ch => length ch = (size * width f)%nat) chs.
Proof.
  intros Hs Hd H. rewrite chunks_struct_spec in H by assumption.
  exact (pack_unpack _ size f o pad xs chs Hs Hd H).
Qed.

Theorem chunks_unpack_array (size : nat) (f : dfmt) (o : order) (pad : Z) (xs : list Z)
        (chs : list (list Z)) :
  (1 <= size)%nat ->
  (f = Fd -> Forall (fun v => 0 <= v < 2 ^ 64) (pad :: xs)) ->
  chunks_array size f o pad xs = (chs, false) ->
  unpack_all f o (concat chs) = map (stored f) (padded size pad xs) /\
  Forall (fun ch => length ch = (size * width f)%nat) chs.
Proof.
  intros Hs Hd H. rewrite chunks_array_spec in H by assumption.
  exact (pack_unpack _ size f o pad xs chs Hs Hd H).
Qed.

(* the integer formats need no side condition and give back the very integers *)
Corollary chunks_unpack_int (size : nat) (f : dfmt) (o : order) (pad : Z) (xs : list Z)
          (chs : list (list Z)) :
  (1 <= size)%nat -> (f = Fb \/ f = Fh \/ f = Fi) ->
  chunks_struct size f o pad xs = (chs, false) ->
  unpack_all f o (concat chs) = padded size pad xs /\
  Forall (fun ch => length ch = (size * width f)%nat) chs.
Proof.
  intros Hs Hf H.
  destruct (chunks_unpack size f o pad xs chs Hs) as [H1 H2]; try assumption.
  - intros ->. destruct Hf as [Hf|[Hf|Hf]]; discriminate Hf.
  - split; [|exact H2]. rewrite H1. rewrite <- (map_id (padded size pad xs)) at 2.
    apply map_ext. intros v. destruct Hf as [->|[->| ->]]; reflexivity.
Qed.

(* ------------------------------------------------------------------ *)
(* 7. chunks: when do the two strategies agree?                         *)
(*    They pack the same blocks; the only difference is binary32        *)
(*    overflow, which struct's "<" / ">" modes reject and array stores  *)
(*    as an infinity.                                                   *)
(* ------------------------------------------------------------------ *)

Definition no_f32_overflow (f : dfmt) (o : order) (vs : list Z) : Prop :=
  f = Ff -> struct_strict o = true -> Forall (fun v => f32_overflows v = false) vs.

Lemma enc_sample_strict_eq (f : dfmt) (o : order) (v : Z) :
  (f = Ff -> f32_overflows v = false) ->
  enc_sample true f o v = enc_sample false f o v.
Proof.
  intros H. destruct f; cbn [enc_sample]; try reflexivity.
  unfold enc_f32. rewrite (H eq_refl). reflexivity.
Qed.

Lemma enc_block_strict_eq (f : dfmt) (o : order) : forall (b : list Z),
  (f = Ff -> Forall (fun v => f32_overflows v = false) b) ->
  enc_block true f o b = enc_block false f o b.
Proof.
  induction b as [|v r IH]; intros H; cbn [enc_block]; [reflexivity|].
  rewrite enc_sample_strict_eq, IH; [reflexivity| |].
  - intros Hf. specialize (H Hf). inversion H; assumption.
  - intros Hf. specialize (H Hf). inversion H; assumption.
Qed.

Lemma pack_blocks_strict_eq (f : dfmt) (o : order) : forall (bl : list (list Z)),
  (f = Ff -> Forall (fun v => f32_overflows v = false) (concat bl)) ->
  pack_blocks true f o bl = pack_blocks false f o bl.
Proof.
  induction bl as [|b r IH]; intros H; cbn [pack_blocks]; [reflexivity|].
  cbn [concat] in H.
  rewrite enc_block_strict_eq, IH; [reflexivity| |].
  - intros Hf. specialize (H Hf). apply Forall_app in H. tauto.
  - intros Hf. specialize (H Hf). apply Forall_app in H. tauto.
Qed.

(* the lax packer never fails on floats ... *)
Lemma enc_block_lax_Ff (o : order) : forall (b : list Z), enc_block false Ff o b <> None.
Proof.
  induction b as [|v r IH]; cbn [enc_block enc_sample]; [discriminate|].
  unfold enc_f32. cbn [andb]. destruct (enc_block false Ff o r); [discriminate|congruence].
Qed.

Lemma pack_blocks_lax_Ff (o : order) : forall (bl : list (list Z)),
  snd (pack_blocks false Ff o bl) = false.
Proof.
  induction bl as [|b r IH]; cbn [pack_blocks]; [reflexivity|].
  pose proof (enc_block_lax_Ff o b) as Hb.
  destruct (enc_block false Ff o b); [|congruence].
  destruct (pack_blocks false Ff o r) as [ys e]. exact IH.
Qed.

(* ... and the strict one fails as soon as one value overflows *)
Lemma enc_block_strict_Ff (o : order) : forall (b : list Z),
  Exists (fun v => f32_overflows v = true) b -> enc_block true Ff o b = None.
Proof.
  induction b as [|v r IH]; intros H; [inversion H|].
  cbn [enc_block enc_sample].
  inversion H as [? ? Hv|? ? Hr]; subst.
  - unfold enc_f32. rewrite Hv. reflexivity.
  - rewrite (IH Hr). destruct (enc_f32 true o v); reflexivity.
Qed.

Lemma pack_blocks_strict_Ff (o : order) : forall (bl : list (list Z)),
  Exists (fun v => f32_overflows v = true) (concat bl) ->
  snd (pack_blocks true Ff o bl) = true.
Proof.
  induction bl as [|b r IH]; intros H; [inversion H|].
  cbn [concat] in H. apply Exists_app in H. cbn [pack_blocks].
  destruct (enc_block true Ff o b) as [x|] eqn:Ex; [|reflexivity].
  destruct H as [H|H].
  - rewrite (enc_block_strict_Ff o b H) in Ex. discriminate Ex.
  - specialize (IH H). destruct (pack_blocks true Ff o r) as [ys e]. exact IH.
Qed.

(* exact characterisation: the strategies give the same result iff no sample that is
   actually packed overflows binary32 under a strict ("<" or ">") float format *)
Theorem chunks_struct_eq_array_iff (size : nat) (f : dfmt) (o : order) (pad : Z) (xs : list Z) :
  (1 <= size)%nat ->
  (chunks_struct size f o pad xs = chunks_array size f o pad xs <->
   no_f32_overflow f o (padded size pad xs)).
Proof.
  intros Hs. rewrite chunks_struct_spec, chunks_array_spec by assumption.
  unfold no_f32_overflow. split.
  - intros H -> Hst. rewrite Hst in H.
    apply Forall_forall. intros v Hv.
    destruct (f32_overflows v) eqn:E; [exfalso|reflexivity].
    assert (Hex : Exists (fun v => f32_overflows v = true)
                         (concat (blocks_spec size size pad xs))).
    { rewrite blocks_concat_padded by assumption. apply Exists_exists. eauto. }
    apply (pack_blocks_strict_Ff o) in Hex.
    rewrite H, pack_blocks_lax_Ff in Hex. discriminate Hex.
  - intros H. destruct (struct_strict o) eqn:Hst; [|reflexivity].
    apply pack_blocks_strict_eq. intros Hf.
    rewrite blocks_concat_padded by assumption. exact (H Hf eq_refl).
Qed.

(* the stated equality, under the visible no-overflow hypothesis on the inputs *)
Theorem chunks_struct_eq_array_partial (size : nat) (f : dfmt) (o : order) (pad : Z) (xs : list Z) :
  (1 <= size)%nat ->
  (f = Ff -> struct_strict o = true ->
   Forall (fun v => f32_overflows v = false) (pad :: xs)) ->
  chunks_struct size f o pad xs = chunks_array size f o pad xs.
Proof.
  intros Hs H. apply chunks_struct_eq_array_iff; [assumption|].
  intros Hf Hst. apply padded_members. exact (H Hf Hst).
Qed.

(* unconditional for the integer and double formats, and for the native byte order *)
Theorem chunks_struct_eq_array (size : nat) (f : dfmt) (o : order) (pad : Z) (xs : list Z) :
  (1 <= size)%nat -> f <> Ff \/ struct_strict o = false ->
  chunks_struct size f o pad xs = chunks_array size f o pad xs.
Proof.
  intros Hs H. apply chunks_struct_eq_array_partial; [assumption|].
  intros Hf Hst. destruct H as [H|H]; [contradiction|congruence].
Qed.

(* whenever struct succeeds, array yields exactly the same chunks *)
Theorem chunks_struct_ok_array (size : nat) (f : dfmt) (o : order) (pad : Z) (xs : list Z)
        (chs : list (list Z)) :
  (1 <= size)%nat ->
  chunks_struct size f o pad xs = (chs, false) ->
  chunks_array size f o pad xs = (chs, false).
Proof.
  intros Hs H. rewrite <- H. symmetry.
  apply chunks_struct_eq_array_iff; [assumption|].
  intros -> Hst. rewrite chunks_struct_spec, Hst in H by assumption.
  apply Forall_forall. intros v Hv.
  destruct (f32_overflows v) eqn:E; [exfalso|reflexivity].
  assert (Hex : Exists (fun v => f32_overflows v = true)
                       (concat (blocks_spec size size pad xs))).
  { rewrite blocks_concat_padded by assumption. apply Exists_exists. eauto. }
  apply (pack_blocks_strict_Ff o) in Hex. rewrite H in Hex. discriminate Hex.
Qed.

(* non-vacuity in general: when the pad and every sample are encodable (strictest mode)
   neither strategy raises, and the number of chunks is the number of blocks *)
Lemma enc_sample_lax (strict : bool) (f : dfmt) (o : order) (v : Z) :
  enc_sample true f o v <> None -> enc_sample strict f o v <> None.
Proof.
  destruct strict; [tauto|]. destruct f; cbn [enc_sample]; try tauto.
  intros _. unfold enc_f32. cbn [andb]. discriminate.
Qed.

Lemma enc_block_some (strict : bool) (f : dfmt) (o : order) : forall (b : list Z),
  Forall (fun v => enc_sample strict f o v <> None) b -> enc_block strict f o b <> None.
Proof.
  induction b as [|v r IH]; intros H; cbn [enc_block]; [discriminate|].
  inversion H as [|? ? Hv Hr]; subst. specialize (IH Hr).
  destruct (enc_sample strict f o v); [|congruence].
  destruct (enc_block strict f o r); [discriminate|congruence].
Qed.

Lemma pack_blocks_some (strict : bool) (f : dfmt) (o : order) : forall (bl : list (list Z)),
  Forall (fun v => enc_sample strict f o v <> None) (concat bl) ->
  snd (pack_blocks strict f o bl) = false /\
  length (fst (pack_blocks strict f o bl)) = length bl.
Proof.
  induction bl as [|b r IH]; intros H; cbn [pack_blocks]; [split; reflexivity|].
  cbn [concat] in H. apply Forall_app in H as [Hb Hr].
  pose proof (enc_block_some strict f o b Hb) as Hb'.
  destruct (enc_block strict f o b); [|congruence].
  destruct (IH Hr) as [IH1 IH2].
  destruct (pack_blocks strict f o r) as [ys e]. cbn [fst snd length] in *.
  split; congruence.
Qed.

Theorem chunks_no_error (size : nat) (f : dfmt) (o : order) (pad : Z) (xs : list Z) :
  (1 <= size)%nat ->
  Forall (fun v => enc_sample true f o v <> None) (pad :: xs) ->
  snd (chunks_struct size f o pad xs) = false /\
  snd (chunks_array size f o pad xs) = false.
Proof.
  intros Hs H. rewrite chunks_struct_spec, chunks_array_spec by assumption.
  split; apply pack_blocks_some; rewrite blocks_concat_padded by assumption;
    apply padded_members; revert H; apply Forall_impl; intros v; apply enc_sample_lax.
Qed.
