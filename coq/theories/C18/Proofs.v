(* C18 - proofs about the PCM byte codecs (chunks packing, WavStream decoding).
   1. integers <-> bytes round trip (any width >= 1, both byte orders)
   2. WavStream: decoding the file bytes of stored integers gives the promised outputs
   3. chunks: struct strategy = array strategy; unpacking the chunks gives the padded input *)
From Coq Require Import List Bool Arith ZArith QArith Qcanon Lia.
From Flocq Require Import IEEE754.BinarySingleNaN IEEE754.Binary IEEE754.Bits.
From AL Require Import Base.CaseLib C08.Model C08.Spec C08.Proofs C18.Model C18.Spec.
Import ListNotations.
Open Scope Z_scope.

(* ------------------------------------------------------------------ *)
(* 0. Small list facts                                                  *)
(* ------------------------------------------------------------------ *)

Lemma firstn_len_app {T} (n : nat) (p r : list T) :
  length p = n -> firstn n (p ++ r) = p.
Proof.
  intros <-. rewrite firstn_app, Nat.sub_diag, firstn_O, app_nil_r.
  apply firstn_all.
Qed.

Lemma skipn_len_app {T} (n : nat) (p r : list T) :
  length p = n -> skipn n (p ++ r) = r.
Proof.
  intros <-. rewrite skipn_app, Nat.sub_diag, skipn_O, skipn_all. reflexivity.
Qed.

Lemma concat_length_fixed {T} (n : nat) (ps : list (list T)) :
  Forall (fun p => length p = n) ps -> length (concat ps) = (length ps * n)%nat.
Proof.
  intros H. induction H as [|p ps Hp _ IH]; [reflexivity|].
  cbn [concat length]. rewrite app_length, IH, Hp. lia.
Qed.

(* ------------------------------------------------------------------ *)
(* 1. Integers <-> bytes                                                *)
(* ------------------------------------------------------------------ *)

Lemma pow256 (w : nat) : 256 ^ Z.of_nat w = 2 ^ bits_of w.
Proof.
  unfold bits_of. rewrite Z.pow_mul_r by lia. reflexivity.
Qed.

Lemma le_bytes_length (w : nat) : forall n, length (le_bytes w n) = w.
Proof.
  induction w as [|w IH]; intros n; cbn [le_bytes length]; [reflexivity|].
  rewrite IH. reflexivity.
Qed.

Lemma le_bytes_range (w : nat) : forall n,
  Forall (fun b => 0 <= b < 256) (le_bytes w n).
Proof.
  induction w as [|w IH]; intros n; cbn [le_bytes]; constructor.
  - apply Z.mod_pos_bound. lia.
  - apply IH.
Qed.

Lemma le_val_le_bytes (w : nat) : forall n,
  le_val (le_bytes w n) = n mod 256 ^ Z.of_nat w.
Proof.
  induction w as [|w IH]; intros n; cbn [le_bytes le_val].
  - change (256 ^ Z.of_nat 0) with 1. rewrite Z.mod_1_r. reflexivity.
  - rewrite IH, Nat2Z.inj_succ, Z.pow_succ_r by lia.
    rewrite Z.rem_mul_r by (try apply Z.pow_pos_nonneg; lia).
    reflexivity.
Qed.

Lemma le_val_range (bs : list Z) :
  Forall (fun b => 0 <= b < 256) bs ->
  0 <= le_val bs < 256 ^ Z.of_nat (length bs).
Proof.
  intros H. induction H as [|b bs Hb _ IH]; cbn [le_val length].
  - change (256 ^ Z.of_nat 0) with 1. lia.
  - rewrite Nat2Z.inj_succ, Z.pow_succ_r by lia. lia.
Qed.

Lemma ord_bytes_invol (o : order) (bs : list Z) : ord_bytes o (ord_bytes o bs) = bs.
Proof. destruct o; cbn [ord_bytes]; [reflexivity|apply rev_involutive]. Qed.

Lemma ord_bytes_length (o : order) (bs : list Z) : length (ord_bytes o bs) = length bs.
Proof. destruct o; cbn [ord_bytes]; [reflexivity|apply rev_length]. Qed.

Lemma ord_bytes_range (o : order) (bs : list Z) :
  Forall (fun b => 0 <= b < 256) bs -> Forall (fun b => 0 <= b < 256) (ord_bytes o bs).
Proof.
  destruct o; cbn [ord_bytes]; [tauto|]. intros H.
  apply Forall_forall. intros b Hb. apply in_rev in Hb.
  revert b Hb. apply Forall_forall. exact H.
Qed.

Lemma pow_bits_split (w : nat) : (1 <= w)%nat ->
  2 ^ bits_of w = 2 * 2 ^ (bits_of w - 1) /\ 0 < 2 ^ (bits_of w - 1).
Proof.
  intros Hw. split.
  - rewrite <- Z.pow_succ_r by (unfold bits_of; lia). f_equal. lia.
  - apply Z.pow_pos_nonneg; unfold bits_of; lia.
Qed.

Lemma in_srange_iff (w : nat) (v : Z) :
  in_srange w v = true <-> - 2 ^ (bits_of w - 1) <= v < 2 ^ (bits_of w - 1).
Proof.
  unfold in_srange. rewrite andb_true_iff, Z.leb_le, Z.ltb_lt. tauto.
Qed.

(* two's complement: reading back the residue of a value of the signed range *)
Lemma to_signed_mod (w : nat) (v : Z) :
  (1 <= w)%nat -> in_srange w v = true ->
  to_signed w (v mod 2 ^ bits_of w) = v.
Proof.
  intros Hw Hr. apply in_srange_iff in Hr.
  destruct (pow_bits_split w Hw) as [HB HB0].
  unfold to_signed. rewrite HB.
  set (B := 2 ^ (bits_of w - 1)) in *.
  destruct (Z.le_gt_cases 0 v) as [Hv|Hv].
  - rewrite Z.mod_small by lia.
    destruct (Z.ltb_spec v B); lia.
  - replace (v mod (2 * B)) with (v + 2 * B).
    + destruct (Z.ltb_spec (v + 2 * B) B); lia.
    + apply Z.mod_unique with (-1); lia.
Qed.

(* the decoder always lands in the signed range *)
Lemma to_signed_range (w : nat) (u : Z) :
  (1 <= w)%nat -> 0 <= u < 2 ^ bits_of w -> in_srange w (to_signed w u) = true.
Proof.
  intros Hw Hu. apply in_srange_iff.
  destruct (pow_bits_split w Hw) as [HB HB0].
  unfold to_signed. rewrite HB in *.
  set (B := 2 ^ (bits_of w - 1)) in *.
  destruct (Z.ltb_spec u B); lia.
Qed.

Theorem int_roundtrip (w : nat) (o : order) (v : Z) (bs : list Z) :
  (1 <= w)%nat -> enc_int w o v = Some bs ->
  dec_int w o bs = v /\ length bs = w.
Proof.
  intros Hw H. unfold enc_int in H.
  destruct (in_srange w v) eqn:Hr; [|discriminate H].
  injection H as <-. split.
  - unfold dec_int.
    rewrite ord_bytes_invol, le_val_le_bytes, pow256.
    rewrite Z.mod_mod by (destruct (pow_bits_split w Hw); lia).
    apply to_signed_mod; assumption.
  - rewrite ord_bytes_length. apply le_bytes_length.
Qed.

Theorem enc_int_in_range (w : nat) (o : order) (v : Z) :
  in_srange w v = true -> exists bs, enc_int w o v = Some bs.
Proof. intros H. unfold enc_int. rewrite H. eexists. reflexivity. Qed.

(* ... and only then: outside the signed range struct.pack raises *)
Theorem enc_int_out_of_range (w : nat) (o : order) (v : Z) :
  in_srange w v = false -> enc_int w o v = None.
Proof. intros H. unfold enc_int. rewrite H. reflexivity. Qed.

(* the bytes written are bytes *)
Theorem enc_int_bytes (w : nat) (o : order) (v : Z) (bs : list Z) :
  enc_int w o v = Some bs -> Forall (fun b => 0 <= b < 256) bs.
Proof.
  unfold enc_int. destruct (in_srange w v); [|discriminate].
  intros H. injection H as <-. apply ord_bytes_range, le_bytes_range.
Qed.

(* the other direction: packing what was unpacked gives the same bytes *)
Theorem int_roundtrip_bytes (w : nat) (o : order) (bs : list Z) :
  (1 <= w)%nat -> length bs = w -> Forall (fun b => 0 <= b < 256) bs ->
  enc_int w o (dec_int w o bs) = Some bs.
Proof.
  intros Hw Hl Hb.
  assert (Hu : 0 <= le_val (ord_bytes o bs) < 2 ^ bits_of w).
  { rewrite <- pow256, <- Hl, <- (ord_bytes_length o bs).
    apply le_val_range, ord_bytes_range, Hb. }
  unfold enc_int, dec_int.
  rewrite to_signed_range by assumption.
  f_equal.
  assert (Hm : to_signed w (le_val (ord_bytes o bs)) mod 2 ^ bits_of w
               = le_val (ord_bytes o bs)).
  { unfold to_signed.
    destruct (Z.ltb_spec (le_val (ord_bytes o bs)) (2 ^ (bits_of w - 1))).
    - apply Z.mod_small. exact Hu.
    - symmetry. apply Z.mod_unique with (-1); lia. }
  rewrite Hm. clear Hm Hu.
  rewrite <- (ord_bytes_invol o bs) at 2. f_equal.
  rewrite <- Hl, <- (ord_bytes_length o bs).
  apply ord_bytes_range with (o := o) in Hb.
  induction Hb as [|b r Hb _ IH]; cbn [le_val length le_bytes]; [reflexivity|].
  replace (b + 256 * le_val r) with (b + le_val r * 256) by lia.
  f_equal.
  - rewrite Z.mod_add by lia. apply Z.mod_small, Hb.
  - rewrite Z.div_add by lia.
    rewrite Z.div_small by exact Hb. exact IH.
Qed.

(* ------------------------------------------------------------------ *)
(* 2. Cutting a byte string into fixed-width pieces                     *)
(* ------------------------------------------------------------------ *)

Lemma group_step (n f : nat) (l : list Z) :
  l <> [] -> group n (S f) l = firstn n l :: group n f (skipn n l).
Proof. destruct l; [congruence|reflexivity]. Qed.

Lemma group_nil (n f : nat) : group n f [] = [].
Proof. destruct f; reflexivity. Qed.

Lemma group_concat (n : nat) : (1 <= n)%nat ->
  forall (ps : list (list Z)) (fuel : nat),
  Forall (fun p => length p = n) ps -> (length ps <= fuel)%nat ->
  group n fuel (concat ps) = ps.
Proof.
  intros Hn ps. induction ps as [|p ps IH]; intros fuel Hall Hfuel.
  - apply group_nil.
  - inversion Hall as [|p' ps' Hp Hps]; subst.
    cbn [length] in Hfuel. destruct fuel as [|fuel]; [lia|].
    cbn [concat]. rewrite group_step.
    + rewrite firstn_len_app, skipn_len_app by reflexivity.
      f_equal. apply IH; [assumption|lia].
    + destruct p; cbn [length] in Hn; [lia|discriminate].
Qed.

(* frames of a concatenation of fixed-width pieces gives back the pieces *)
Lemma frames_concat (n : nat) (ps : list (list Z)) :
  (1 <= n)%nat -> Forall (fun p => length p = n) ps ->
  frames n (concat ps) = ps.
Proof.
  intros Hn Hall. unfold frames. apply group_concat; try assumption.
  rewrite (concat_length_fixed n) by assumption. nia.
Qed.

(* pairing consecutive pieces (the stereo frames) *)
Fixpoint pair_up (ps : list (list Z)) : list (list Z) :=
  match ps with
  | a :: b :: r => (a ++ b) :: pair_up r
  | _ => []
  end.

Lemma pair_up_facts (sw : nat) : forall (k : nat) (ps : list (list Z)),
  length ps = (2 * k)%nat -> Forall (fun p => length p = sw) ps ->
  concat (pair_up ps) = concat ps /\
  Forall (fun p => length p = (sw * 2)%nat) (pair_up ps) /\
  flat_map (fun el => [firstn sw el; skipn sw el]) (pair_up ps) = ps.
Proof.
  induction k as [|k IH]; intros ps Hlen Hall.
  - destruct ps; [|discriminate Hlen]. repeat split. constructor.
  - destruct ps as [|a [|b r]]; cbn [length] in Hlen; try lia.
    inversion Hall as [|? ? Ha Hall1]; subst.
    inversion Hall1 as [|? ? Hb Hr]; subst.
    destruct (IH r) as [H1 [H2 H3]]; [lia|assumption|].
    cbn [pair_up concat flat_map app]. repeat split.
    + rewrite H1, app_assoc. reflexivity.
    + constructor; [|exact H2]. rewrite app_length. lia.
    + rewrite firstn_len_app, skipn_len_app, H3 by reflexivity. reflexivity.
Qed.

Lemma sample_bytes_concat (sw channels : nat) (ps : list (list Z)) :
  (1 <= sw)%nat -> (channels = 1 \/ channels = 2)%nat ->
  Forall (fun p => length p = sw) ps ->
  (length ps mod channels = 0)%nat ->
  sample_bytes sw channels (concat ps) = ps.
Proof.
  intros Hsw [->| ->] Hall Hmod; unfold sample_bytes.
  - cbn [Nat.eqb]. apply frames_concat; assumption.
  - cbn [Nat.eqb].
    pose proof (Nat.div_mod (length ps) 2 ltac:(lia)) as Hdm.
    rewrite Hmod, Nat.add_0_r in Hdm.
    destruct (pair_up_facts sw _ ps Hdm Hall) as [H1 [H2 H3]].
    rewrite <- H1, frames_concat by (try assumption; lia).
    exact H3.
Qed.

(* ------------------------------------------------------------------ *)
(* 3. WavStream                                                         *)
(* ------------------------------------------------------------------ *)

Lemma unpack_encode_8 (v : Z) : 0 <= v < 256 ->
  unpack 8 (le_bytes 1 (v mod 256)) = v.
Proof.
  intros Hv. unfold unpack. change (8 =? 8) with true. cbv iota.
  rewrite le_val_le_bytes. change (256 ^ Z.of_nat 1) with 256.
  rewrite Z.mod_mod by lia. apply Z.mod_small. exact Hv.
Qed.

Lemma unpack_encode_16 (v : Z) : - 32768 <= v < 32768 ->
  unpack 16 (le_bytes 2 (v mod 65536)) = v.
Proof.
  intros Hv. unfold unpack.
  change (16 =? 8) with false. change (16 =? 16) with true. cbv iota.
  rewrite le_val_le_bytes. change (256 ^ Z.of_nat 2) with 65536.
  rewrite Z.mod_mod by lia.
  change 65536 with (2 ^ bits_of 2). apply to_signed_mod; [lia|].
  apply in_srange_iff. change (2 ^ (bits_of 2 - 1)) with 32768. exact Hv.
Qed.

Lemma unpack_encode_32 (v : Z) : - 2147483648 <= v < 2147483648 ->
  unpack 32 (le_bytes 4 (v mod 4294967296)) = v.
Proof.
  intros Hv. unfold unpack.
  change (32 =? 8) with false. change (32 =? 16) with false.
  change (32 =? 24) with false. cbv iota.
  rewrite le_val_le_bytes. change (256 ^ Z.of_nat 4) with 4294967296.
  rewrite Z.mod_mod by lia.
  change 4294967296 with (2 ^ bits_of 4). apply to_signed_mod; [lia|].
  apply in_srange_iff. change (2 ^ (bits_of 4 - 1)) with 2147483648. exact Hv.
Qed.

(* 24 bits: a zero byte is prepended, the 32-bit decoder sign-extends, and the
   arithmetic shift (floor division by 256) drops the zero byte again *)
Lemma unpack_encode_24 (v : Z) : - 8388608 <= v < 8388608 ->
  unpack 24 (le_bytes 3 (v mod 16777216)) = v.
Proof.
  intros Hv. unfold unpack.
  change (24 =? 8) with false. change (24 =? 16) with false.
  change (24 =? 24) with true. cbv iota.
  cbn [le_val]. rewrite le_val_le_bytes. change (256 ^ Z.of_nat 3) with 16777216.
  rewrite Z.mod_mod by lia.
  unfold to_signed. change (2 ^ (bits_of 4 - 1)) with 2147483648.
  change (2 ^ bits_of 4) with 4294967296.
  destruct (Z.ltb_spec (0 + 256 * (v mod 16777216)) 2147483648) as [H|H].
  - assert (Hv' : 0 <= v) by (Z.div_mod_to_equations; lia).
    rewrite (Z.mod_small v) by lia.
    Z.div_mod_to_equations; lia.
  - assert (Hv' : v < 0) by (Z.div_mod_to_equations; lia).
    replace (v mod 16777216) with (v + 16777216)
      by (apply Z.mod_unique with (-1); lia).
    Z.div_mod_to_equations; lia.
Qed.

Definition wav_sample_bytes (bits v : Z) : list Z :=
  le_bytes (Z.to_nat (bits / 8)) (v mod 2 ^ bits).

Theorem unpack_encode (bits v : Z) :
  In bits [8; 16; 24; 32] -> in_wav_range bits v = true ->
  unpack bits (le_bytes (Z.to_nat (bits / 8)) (v mod 2 ^ bits)) = v.
Proof.
  intros Hb Hr. unfold in_wav_range in Hr.
  cbn [In] in Hb. destruct Hb as [<-|[<-|[<-|[<-|[]]]]].
  - change (8 =? 8) with true in Hr. cbv iota in Hr.
    apply andb_true_iff in Hr as [H1 H2]. apply Z.leb_le in H1. apply Z.ltb_lt in H2.
    apply unpack_encode_8. lia.
  - change (16 =? 8) with false in Hr. cbv iota in Hr.
    change (2 ^ (16 - 1)) with 32768 in Hr.
    apply andb_true_iff in Hr as [H1 H2]. apply Z.leb_le in H1. apply Z.ltb_lt in H2.
    apply unpack_encode_16. lia.
  - change (24 =? 8) with false in Hr. cbv iota in Hr.
    change (2 ^ (24 - 1)) with 8388608 in Hr.
    apply andb_true_iff in Hr as [H1 H2]. apply Z.leb_le in H1. apply Z.ltb_lt in H2.
    apply unpack_encode_24. lia.
  - change (32 =? 8) with false in Hr. cbv iota in Hr.
    change (2 ^ (32 - 1)) with 2147483648 in Hr.
    apply andb_true_iff in Hr as [H1 H2]. apply Z.leb_le in H1. apply Z.ltb_lt in H2.
    apply unpack_encode_32. lia.
Qed.

Lemma wav_sample_bytes_length (bits v : Z) :
  length (wav_sample_bytes bits v) = Z.to_nat (bits / 8).
Proof. apply le_bytes_length. Qed.

Lemma wav_out_encode (bits : Z) (keep : bool) (v : Z) :
  In bits [8; 16; 24; 32] -> in_wav_range bits v = true ->
  wav_out bits keep (wav_sample_bytes bits v) =
  if keep then WInt v
  else WFlt (Q2Qc ((if bits =? 8 then v - 128 else v) # Z.to_pos (2 ^ (bits - 1)))).
Proof.
  intros Hb Hr. pose proof (unpack_encode bits v Hb Hr) as Hu.
  fold (wav_sample_bytes bits v) in Hu.
  unfold wav_out. destruct keep; [rewrite Hu; reflexivity|].
  cbv zeta. destruct (bits =? 8) eqn:E.
  - apply Z.eqb_eq in E. subst bits.
    unfold unpack in Hu. change (8 =? 8) with true in Hu. cbv iota in Hu.
    rewrite Hu. reflexivity.
  - rewrite Hu. reflexivity.
Qed.

Theorem wav_model_encode (bits : Z) (channels : nat) (keep : bool) (samples : list Z) :
  In bits [8; 16; 24; 32] -> (channels = 1 \/ channels = 2)%nat ->
  Forall (fun v => in_wav_range bits v = true) samples ->
  (length samples mod channels = 0)%nat ->
  wav_model bits channels keep (wav_encode bits samples) = wav_spec bits keep samples.
Proof.
  intros Hb Hc Hall Hmod.
  unfold wav_model, wav_encode, wav_spec.
  rewrite flat_map_concat_map.
  change (fun v : Z => le_bytes (Z.to_nat (bits / 8)) (v mod 2 ^ bits))
    with (wav_sample_bytes bits).
  rewrite sample_bytes_concat; try assumption.
  - rewrite map_map. apply map_ext_in. intros v Hv.
    apply wav_out_encode; [assumption|].
    revert v Hv. apply Forall_forall. exact Hall.
  - cbn [In] in Hb. destruct Hb as [<-|[<-|[<-|[<-|[]]]]]; cbn; lia.
  - apply Forall_forall. intros p Hp. apply in_map_iff in Hp as [v [<- _]].
    apply wav_sample_bytes_length.
  - rewrite map_length. exact Hmod.
Qed.

(* the normalised outputs lie in [-1, 1) *)
Theorem wav_norm_range (bits v : Z) :
  In bits [8; 16; 24; 32] -> in_wav_range bits v = true ->
  let q := Q2Qc ((if bits =? 8 then v - 128 else v) # Z.to_pos (2 ^ (bits - 1))) in
  (Qcopp 1 <= q)%Qc /\ (q < 1)%Qc.
Proof.
  intros Hb Hr q.
  assert (Hn : exists D n, 0 < D /\ - D <= n < D /\ q = Q2Qc (n # Z.to_pos D)).
  { unfold q, in_wav_range in *. cbn [In] in Hb.
    destruct Hb as [<-|[<-|[<-|[<-|[]]]]].
    - change (8 =? 8) with true in *. cbv iota in *.
      apply andb_true_iff in Hr as [H1 H2]. apply Z.leb_le in H1. apply Z.ltb_lt in H2.
      exists (2 ^ (8 - 1)), (v - 128). change (2 ^ (8 - 1)) with 128. repeat split; lia.
    - change (16 =? 8) with false in *. cbv iota in *.
      apply andb_true_iff in Hr as [H1 H2]. apply Z.leb_le in H1. apply Z.ltb_lt in H2.
      exists (2 ^ (16 - 1)), v. repeat split; lia.
    - change (24 =? 8) with false in *. cbv iota in *.
      apply andb_true_iff in Hr as [H1 H2]. apply Z.leb_le in H1. apply Z.ltb_lt in H2.
      exists (2 ^ (24 - 1)), v. repeat split; lia.
    - change (32 =? 8) with false in *. cbv iota in *.
      apply andb_true_iff in Hr as [H1 H2]. apply Z.leb_le in H1. apply Z.ltb_lt in H2.
      exists (2 ^ (32 - 1)), v. repeat split; lia. }
  destruct Hn as [D [n [HD [Hn ->]]]].
  split.
  - unfold Qcle, Qcopp. cbn [this Q2Qc]. rewrite !Qred_correct.
    unfold Qle. cbn [Qnum Qden Qopp]. rewrite Z2Pos.id by assumption. lia.
  - unfold Qclt. cbn [this Q2Qc]. rewrite !Qred_correct.
    unfold Qlt. cbn [Qnum Qden]. rewrite Z2Pos.id by assumption. lia.
Qed.

(* the same, in the boolean form used by the case checker *)
Corollary wav_norm_range_bool (bits v : Z) :
  In bits [8; 16; 24; 32] -> in_wav_range bits v = true ->
  let q := Q2Qc ((if bits =? 8 then v - 128 else v) # Z.to_pos (2 ^ (bits - 1))) in
  Qc_leb (qc (-1) 1) q && Qc_ltb q (qc 1 1) = true.
Proof.
  intros Hb Hr q. destruct (wav_norm_range bits v Hb Hr) as [H1 H2]. fold q in H1, H2.
  apply andb_true_iff. split.
  - apply Qc_leb_spec. exact H1.
  - apply Qc_ltb_spec. exact H2.
Qed.

(* the event trace: all samples, then exactly one close, at the very end *)
Definition is_close (e : wev) : bool := match e with EvClose => true | EvSample _ => false end.

Theorem wav_trace_close_once (bits : Z) (channels : nat) (keep : bool) (raw : list Z) :
  let tr := wav_trace bits channels keep raw in
  length (filter is_close tr) = 1%nat /\
  last tr (EvSample (WInt 0)) = EvClose /\
  (exists pre, tr = pre ++ [EvClose] /\ Forall (fun e => is_close e = false) pre /\
               pre = map EvSample (wav_model bits channels keep raw)).
Proof.
  intros tr. unfold tr, wav_trace.
  set (outs := wav_model bits channels keep raw). clearbody outs.
  repeat split.
  - rewrite filter_app. cbn [filter is_close length app].
    rewrite app_length. cbn [length].
    replace (filter is_close (map EvSample outs)) with (@nil wev); [reflexivity|].
    induction outs as [|x r IH]; [reflexivity|exact IH].
  - apply last_last.
  - exists (map EvSample outs). repeat split.
    apply Forall_forall. intros e He. apply in_map_iff in He as [x [<- _]]. reflexivity.
Qed.
