(* C18 - reading a wave file from the current position of an object: whatever precedes and follows the file. *)
From Coq Require Import List Bool ZArith Lia.
From AL Require Import Base.CaseLib C18.Model C18.Spec C18.Check C18.Proofs C18.Src.
Import ListNotations.
Open Scope Z_scope.

Lemma take_app (n : nat) (p r : list Z) : length p = n -> take n (p ++ r) = (p, r).
Proof. intro H. unfold take. now rewrite firstn_len_app, skipn_len_app. Qed.

Lemma le_val_le_bytes_small (w : nat) (n : Z) : 0 <= n < 256 ^ Z.of_nat w -> le_val (le_bytes w n) = n.
Proof. intro H. rewrite le_val_le_bytes. now apply Z.mod_small. Qed.

Theorem parse_wav_file_bytes (rate channels bits : Z) (raw suffix : list Z) :
  0 <= rate < 2 ^ 32 -> 0 <= channels < 2 ^ 16 -> 0 <= bits < 2 ^ 16 -> Z.of_nat (length raw) < 2 ^ 32 ->
  parse_wav (wav_file_bytes rate channels bits raw ++ suffix) = Some (rate, channels, bits, raw).
Proof.
  intros Hr Hc Hb Hn.
  unfold parse_wav, wav_file_bytes.
  repeat rewrite <- app_assoc.
  repeat (rewrite take_app by (reflexivity || apply le_bytes_length); cbv beta iota).
  rewrite le_bytes_length, Nat.eqb_refl.
  replace (bytes_eqb tag_RIFF tag_RIFF) with true by reflexivity.
  replace (bytes_eqb tag_WAVE tag_WAVE) with true by reflexivity.
  replace (bytes_eqb tag_fmt tag_fmt) with true by reflexivity.
  replace (bytes_eqb tag_data tag_data) with true by reflexivity.
  replace (le_val (le_bytes 4 16) =? 16) with true by reflexivity.
  replace (le_val (le_bytes 2 1) =? 1) with true by reflexivity.
  cbn [andb].
  rewrite !le_val_le_bytes_small by (change (256 ^ Z.of_nat 4) with (2 ^ 32); change (256 ^ Z.of_nat 2) with (2 ^ 16); lia).
  rewrite Nat2Z.id, firstn_len_app by reflexivity. reflexivity.
Qed.

(* the object stands after [prefix]: the reader sees the file that starts there, never the one stored first *)
Theorem src_model_from_position (keep : bool) (prefix suffix : list Z) (rate bits : Z) (channels : nat) (raw : list Z) :
  0 <= rate < 2 ^ 32 -> Z.of_nat channels < 2 ^ 16 -> 0 <= bits < 2 ^ 16 -> Z.of_nat (length raw) < 2 ^ 32 ->
  src_model keep (prefix ++ wav_file_bytes rate (Z.of_nat channels) bits raw ++ suffix) (length prefix) =
  Some (rate, Z.of_nat channels, bits, wav_model bits channels keep raw).
Proof.
  intros Hr Hc Hb Hn. unfold src_model.
  rewrite skipn_len_app by reflexivity.
  rewrite parse_wav_file_bytes by lia. now rewrite Nat2Z.id.
Qed.
