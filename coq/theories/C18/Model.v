(* C18 - model of the PCM byte codecs:
     audiolazy.lazy_io.chunks (struct and array strategies)  - packing
     audiolazy.lazy_wav.WavStream                            - decoding
   Bytes are integers in [0,256).  Integer formats are little/big-endian two's
   complement; float formats go through Flocq's IEEE-754 bit encoders.
   No proofs in this file. *)
From Coq Require Import List Bool ZArith QArith Qcanon.
From Flocq Require Import Core.Zaux IEEE754.BinarySingleNaN IEEE754.Binary IEEE754.Bits.
From AL Require Import Base.CaseLib C08.Model.
Import ListNotations.
Open Scope Z_scope.

(* ---- integers <-> bytes *)
Fixpoint le_bytes (w : nat) (n : Z) : list Z :=
  match w with O => [] | S w' => (n mod 256) :: le_bytes w' (n / 256) end.
Fixpoint le_val (bs : list Z) : Z :=
  match bs with [] => 0 | b :: r => b + 256 * le_val r end.
Definition bits_of (w : nat) : Z := 8 * Z.of_nat w.
Definition to_signed (w : nat) (u : Z) : Z :=
  if u <? 2 ^ (bits_of w - 1) then u else u - 2 ^ bits_of w.
Definition in_srange (w : nat) (v : Z) : bool :=
  (- 2 ^ (bits_of w - 1) <=? v) && (v <? 2 ^ (bits_of w - 1)).

(* byte_order argument: None (native, assumed little-endian), "<", ">" *)
Inductive order := Native | Little | Big.
Definition ord_bytes (o : order) (bs : list Z) : list Z :=
  match o with Big => rev bs | _ => bs end.

(* struct.pack of one signed integer; None = struct.error (out of range) *)
Definition enc_int (w : nat) (o : order) (v : Z) : option (list Z) :=
  if in_srange w v then Some (ord_bytes o (le_bytes w (v mod 2 ^ bits_of w))) else None.
Definition dec_int (w : nat) (o : order) (bs : list Z) : Z :=
  to_signed w (le_val (ord_bytes o bs)).

(* ---- floats: a Python float is given by its IEEE-754 binary64 bit pattern *)
Definition f64_to_f32 (x : binary64) : binary32 :=
  match x with
  | B754_zero _ _ s => B754_zero 24 128 s
  | B754_infinity _ _ s => B754_infinity 24 128 s
  | B754_nan _ _ s _ _ => B754_nan 24 128 s 4194304%positive (eq_refl true)
  | B754_finite _ _ s m e _ =>
      binary_normalize 24 128 (eq_refl _) (eq_refl _) mode_NE (cond_Zopp s (Zpos m)) e s
  end.
(* a finite double whose nearest binary32 is infinite *)
Definition f32_overflows (bits64 : Z) : bool :=
  let x := b64_of_bits bits64 in
  Binary.is_finite _ _ x && negb (Binary.is_finite _ _ (f64_to_f32 x)).
(* packing a float as "f": round to nearest even.  On overflow the standard-size struct modes
   ("<", ">") raise OverflowError ([strict]); native struct mode and array.array store infinity. *)
Definition enc_f32 (strict : bool) (o : order) (bits64 : Z) : option (list Z) :=
  if strict && f32_overflows bits64 then None
  else Some (ord_bytes o (le_bytes 4 (bits_of_b32 (f64_to_f32 (b64_of_bits bits64))))).
Definition enc_f64 (o : order) (bits64 : Z) : option (list Z) :=
  Some (ord_bytes o (le_bytes 8 bits64)).
(* unpacking yields the bit pattern of the stored float *)
Definition dec_fbits (o : order) (bs : list Z) : Z := le_val (ord_bytes o bs).

(* ---- chunks *)
Inductive dfmt := Fb | Fh | Fi | Ff | Fd.
Definition width (f : dfmt) : nat :=
  match f with Fb => 1 | Fh => 2 | Fi => 4 | Ff => 4 | Fd => 8 end%nat.
(* a sample: an integer for b/h/i, the binary64 bit pattern for f/d *)
Definition enc_sample (strict : bool) (f : dfmt) (o : order) (v : Z) : option (list Z) :=
  match f with
  | Fb => enc_int 1 o v | Fh => enc_int 2 o v | Fi => enc_int 4 o v
  | Ff => enc_f32 strict o v | Fd => enc_f64 o v
  end.

Fixpoint enc_block (strict : bool) (f : dfmt) (o : order) (b : list Z) : option (list Z) :=
  match b with
  | [] => Some []
  | v :: r => match enc_sample strict f o v, enc_block strict f o r with
              | Some x, Some y => Some (x ++ y) | _, _ => None end
  end.

(* chunks.struct: "for block in blocks(seq, size, padval=padval): yield s.pack( *block)" ;
   None = the first packing error (earlier chunks have been yielded) *)
Fixpoint pack_blocks (strict : bool) (f : dfmt) (o : order) (bl : list (list Z)) : list (list Z) * bool :=
  match bl with
  | [] => ([], false)
  | b :: r => match enc_block strict f o b with
              | Some x => let '(ys, e) := pack_blocks strict f o r in (x :: ys, e)
              | None => ([], true)
              end
  end.
Definition struct_strict (o : order) : bool := match o with Native => false | _ => true end.
Definition chunks_struct (size : nat) (f : dfmt) (o : order) (pad : Z) (xs : list Z) : list (list Z) * bool :=
  pack_blocks (struct_strict o) f o (blocks_model size size pad xs).

(* chunks.array: fixed buffer, index, flush when full, pad the last one *)
Fixpoint arr_loop (size : nat) (buf : list Z) (xs : list Z) : list (list Z) * list Z :=
  match xs with
  | [] => ([], buf)
  | x :: r => let buf' := buf ++ [x] in
              if Nat.eqb (length buf') size
              then let '(ys, b) := arr_loop size [] r in (buf' :: ys, b)
              else arr_loop size buf' r
  end.
Definition chunks_array (size : nat) (f : dfmt) (o : order) (pad : Z) (xs : list Z) : list (list Z) * bool :=
  let '(ys, buf) := arr_loop size [] xs in
  pack_blocks false f o (match buf with [] => ys | _ => ys ++ [buf ++ repeat pad (size - length buf)] end).

(* ---- WavStream *)
Fixpoint group (n : nat) (fuel : nat) (l : list Z) : list (list Z) :=
  match fuel with
  | O => []
  | S f => match l with [] => [] | _ => firstn n l :: group n f (skipn n l) end
  end.
Definition frames (fw : nat) (raw : list Z) : list (list Z) := group fw (length raw) raw.

(* sample_reader: mono = the frames; stereo = el[:sw], el[sw:] *)
Definition sample_bytes (sw channels : nat) (raw : list Z) : list (list Z) :=
  if Nat.eqb channels 1 then frames sw raw
  else flat_map (fun el => [firstn sw el; skipn sw el]) (frames (sw * channels) raw).

(* WavStream._unpackers *)
Definition unpack (bits : Z) (bs : list Z) : Z :=
  if bits =? 8 then le_val bs                       (* ord *)
  else if bits =? 16 then to_signed 2 (le_val bs)
  else if bits =? 24 then to_signed 4 (le_val (0 :: bs)) / 256   (* (b"\x00"+v as <i) >> 8 *)
  else to_signed 4 (le_val bs).

Inductive wout := WInt (z : Z) | WFlt (q : Qc).
Definition wav_out (bits : Z) (keep : bool) (bs : list Z) : wout :=
  if keep then WInt (unpack bits bs)
  else let d := 2 ^ (bits - 1) in
       let v := if bits =? 8 then le_val bs - 128 else unpack bits bs in
       WFlt (Q2Qc (v # Z.to_pos d)).
Definition wav_model (bits : Z) (channels : nat) (keep : bool) (raw : list Z) : list wout :=
  map (wav_out bits keep) (sample_bytes (Z.to_nat (bits / 8)) channels raw).

(* the reader's event trace: every sample, then exactly one close *)
Inductive wev := EvSample (o : wout) | EvClose.
Definition wav_trace (bits : Z) (channels : nat) (keep : bool) (raw : list Z) : list wev :=
  map EvSample (wav_model bits channels keep raw) ++ [EvClose].

(* the file format side: how stored integers become file bytes (8-bit unsigned, else signed LE) *)
Definition wav_encode (bits : Z) (samples : list Z) : list Z :=
  flat_map (fun v => le_bytes (Z.to_nat (bits / 8)) (v mod 2 ^ bits)) samples.
