(* C18 - what the property promises, stated without the packers' loops. *)
From Coq Require Import List Bool ZArith QArith Qcanon.
From Flocq Require Import IEEE754.BinarySingleNaN IEEE754.Binary IEEE754.Bits.
From AL Require Import Base.CaseLib C18.Model.
Import ListNotations.
Open Scope Z_scope.

(* the padded sequence: xs followed by the minimal number of pads reaching a multiple of size *)
Definition npads (size L : nat) : nat := ((size - L mod size) mod size)%nat.
Definition padded (size : nat) (pad : Z) (xs : list Z) : list Z :=
  xs ++ repeat pad (npads size (length xs)).

(* what unpacking one stored sample gives back: the integer itself; for "f" the bit pattern of the
   value rounded to binary32; for "d" the same bit pattern *)
Definition stored (f : dfmt) (v : Z) : Z :=
  match f with
  | Ff => bits_of_b32 (f64_to_f32 (b64_of_bits v))
  | _ => v
  end.
Definition dec_sample (f : dfmt) (o : order) (bs : list Z) : Z :=
  match f with
  | Fb => dec_int 1 o bs | Fh => dec_int 2 o bs | Fi => dec_int 4 o bs
  | Ff | Fd => dec_fbits o bs
  end.
(* struct.unpack of a whole byte string with the repeated format *)
Definition unpack_all (f : dfmt) (o : order) (bytes : list Z) : list Z :=
  map (dec_sample f o) (frames (width f) bytes).

(* WavStream output for stored integers (unsigned for 8 bit) *)
Definition wav_spec (bits : Z) (keep : bool) (samples : list Z) : list wout :=
  map (fun v => if keep then WInt v
                else WFlt (Q2Qc ((if bits =? 8 then v - 128 else v) # Z.to_pos (2 ^ (bits - 1))))) samples.
Definition in_wav_range (bits : Z) (v : Z) : bool :=
  if bits =? 8 then (0 <=? v) && (v <? 256)
  else (- 2 ^ (bits - 1) <=? v) && (v <? 2 ^ (bits - 1)).
