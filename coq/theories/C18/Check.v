(* C18 - boolean checkers for the generated case files. *)
From Coq Require Import List Bool ZArith QArith Qcanon String.
From AL Require Import Base.CaseLib C18.Model C18.Spec.
Import ListNotations.
Open Scope Z_scope.

Definition bytes_eqb := list_eqb Z.eqb.

(* observation of one strategy: the chunks it yielded, and whether it then raised *)
Record cobs := CO { co_chunks : list (list Z); co_raised : bool }.
Definition cobs_eqb (o : cobs) (m : list (list Z) * bool) : bool :=
  list_eqb bytes_eqb (co_chunks o) (fst m) && Bool.eqb (co_raised o) (snd m).

Record ccase := CC { c_size : nat; c_fmt : dfmt; c_order : order; c_pad : Z; c_xs : list Z;
                     c_struct : cobs; c_array : cobs }.
Definition corr_chunks (c : ccase) : bool :=
  cobs_eqb (c_struct c) (chunks_struct (c_size c) (c_fmt c) (c_order c) (c_pad c) (c_xs c)) &&
  cobs_eqb (c_array c) (chunks_array (c_size c) (c_fmt c) (c_order c) (c_pad c) (c_xs c)).

(* every sample and the pad are encodable (in the strictest mode: no out-of-range integer, no binary32 overflow) *)
Definition encodable (c : ccase) : bool :=
  forallb (fun v => match enc_sample true (c_fmt c) (c_order c) v with Some _ => true | None => false end)
          (c_pad c :: c_xs c).
Definition one_ok (c : ccase) (o : cobs) : bool :=
  negb (co_raised o) &&
  forallb (fun ch => Nat.eqb (List.length ch) (c_size c * width (c_fmt c))) (co_chunks o) &&
  list_eqb Z.eqb (unpack_all (c_fmt c) (c_order c) (List.concat (co_chunks o)))
                 (map (stored (c_fmt c)) (padded (c_size c) (c_pad c) (c_xs c))).
Definition holds_chunks (c : ccase) : bool :=
  if encodable c
  then one_ok c (c_struct c) && one_ok c (c_array c) &&
       list_eqb bytes_eqb (co_chunks (c_struct c)) (co_chunks (c_array c))
  else true.   (* out-of-range data: the property says nothing *)

Inductive wobs := WO (outs : list wout) | WRaise (e : string).
Definition wout_eqb (a b : wout) : bool :=
  match a, b with
  | WInt x, WInt y => Z.eqb x y
  | WFlt x, WFlt y => Qc_eqb x y
  | _, _ => false
  end.
Record wcase := WC { w_bits : Z; w_channels : nat; w_keep : bool; w_samples : list Z; w_raw : list Z;
                     w_obs : wobs;
                     w_attrs : Z * Z * Z;          (* rate, channels, bits seen on the stream *)
                     w_rate : Z;                   (* rate written in the header *)
                     w_closed_during : bool;       (* file seen closed before the stream was exhausted *)
                     w_closed_after : bool }.      (* file closed once exhausted *)
Definition corr_wav (c : wcase) : bool :=
  bytes_eqb (w_raw c) (wav_encode (w_bits c) (w_samples c)) &&
  match w_obs c with
  | WO outs => list_eqb wout_eqb outs (wav_model (w_bits c) (w_channels c) (w_keep c) (w_raw c))
  | WRaise _ => false
  end.
Definition holds_wav (c : wcase) : bool :=
  match w_obs c with
  | WO outs => list_eqb wout_eqb outs (wav_spec (w_bits c) (w_keep c) (w_samples c)) &&
               forallb (fun o => match o with WFlt q => Qc_leb (qc (-1) 1) q && Qc_ltb q (qc 1 1) | WInt _ => true end) outs
  | WRaise _ => false
  end &&
  (let '(r, ch, b) := w_attrs c in Z.eqb r (w_rate c) && Z.eqb ch (Z.of_nat (w_channels c)) && Z.eqb b (w_bits c)) &&
  negb (w_closed_during c) && w_closed_after c.
