(* C18 - the KIND of the wave_file argument: a name, or a file-behaved object (on disk, in memory, a pipe, an
   object with only read()) whose CURRENT position is where the wave data starts.  The object's whole content is
   prefix ++ file ++ suffix; the reader is modelled as a parser of the canonical 44-byte RIFF/WAVE header (what the
   standard wave module writes) applied to the content from the current position.  Definitions and checkers only. *)
From Coq Require Import List Bool ZArith QArith Qcanon String.
From AL Require Import Base.CaseLib C18.Model C18.Spec C18.Check.
Import ListNotations.
Open Scope Z_scope.

Definition tag_RIFF := [82; 73; 70; 70].
Definition tag_WAVE := [87; 65; 86; 69].
Definition tag_fmt := [102; 109; 116; 32].
Definition tag_data := [100; 97; 116; 97].

(* a PCM wave file as wave.Wave_write lays it out *)
Definition wav_file_bytes (rate : Z) (channels : Z) (bits : Z) (raw : list Z) : list Z :=
  let n := Z.of_nat (List.length raw) in
  tag_RIFF ++ le_bytes 4 (36 + n) ++ tag_WAVE ++ tag_fmt ++ le_bytes 4 16 ++ le_bytes 2 1 ++
  le_bytes 2 channels ++ le_bytes 4 rate ++ le_bytes 4 (rate * channels * (bits / 8)) ++
  le_bytes 2 (channels * (bits / 8)) ++ le_bytes 2 bits ++ tag_data ++ le_bytes 4 n ++ raw.

Definition take (n : nat) (bs : list Z) : list Z * list Z := (firstn n bs, skipn n bs).

(* reading a wave file from the start of [bs]: (rate, channels, bits, frame bytes); None = wave.Error / EOFError *)
Definition parse_wav (bs : list Z) : option (Z * Z * Z * list Z) :=
  let '(riff, b1) := take 4 bs in
  let '(_, b2) := take 4 b1 in
  let '(wav, b3) := take 4 b2 in
  let '(fmt, b4) := take 4 b3 in
  let '(fsz, b5) := take 4 b4 in
  let '(tag, b6) := take 2 b5 in
  let '(ch, b7) := take 2 b6 in
  let '(rate, b8) := take 4 b7 in
  let '(_, b9) := take 4 b8 in
  let '(_, b10) := take 2 b9 in
  let '(bits, b11) := take 2 b10 in
  let '(dat, b12) := take 4 b11 in
  let '(n, b13) := take 4 b12 in
  if bytes_eqb riff tag_RIFF && bytes_eqb wav tag_WAVE && bytes_eqb fmt tag_fmt && (le_val fsz =? 16) &&
     (le_val tag =? 1) && bytes_eqb dat tag_data && Nat.eqb (List.length n) 4
  then Some (le_val rate, le_val ch, le_val bits, firstn (Z.to_nat (le_val n)) b13)
  else None.

(* what a WavStream built on an object holding [content], positioned at [pos], gives *)
Definition src_model (keep : bool) (content : list Z) (pos : nat) : option (Z * Z * Z * list wout) :=
  match parse_wav (skipn pos content) with
  | Some (r, c, b, data) => Some (r, c, b, wav_model b (Z.to_nat c) keep data)
  | None => None
  end.

Inductive skind := SName | SFile | SBytesIO | SPipe | SReadOnly.
Definition lib_owned (k : skind) : bool := match k with SName => true | _ => false end.

Record scase := SC {
  s_kind : skind; s_keep : bool;
  s_content : list Z; s_pos : nat;                 (* what the object holds, where it stands when handed over *)
  s_prefix : list Z; s_rate : Z; s_channels : nat; s_bits : Z; s_samples : list Z; s_suffix : list Z;
  s_obs : wobs; s_attrs : Z * Z * Z;
  s_lib_closed : bool;        (* SName: every file object the library opened is closed after exhaustion *)
  s_caller_closed : bool }.   (* other kinds: the caller's own object was closed by the library *)

Definition corr_wavsrc (c : scase) : bool :=
  bytes_eqb (s_content c)
            (s_prefix c ++ wav_file_bytes (s_rate c) (Z.of_nat (s_channels c)) (s_bits c)
                                          (wav_encode (s_bits c) (s_samples c)) ++ s_suffix c) &&
  Nat.eqb (s_pos c) (List.length (s_prefix c)) &&
  match src_model (s_keep c) (s_content c) (s_pos c), s_obs c with
  | Some (r, ch, b, outs), WO got =>
      list_eqb wout_eqb got outs &&
      (let '(r', ch', b') := s_attrs c in Z.eqb r r' && Z.eqb ch ch' && Z.eqb b b')
  | None, WRaise _ => true
  | _, _ => false
  end &&
  (* the unchanged code closes what it opened and leaves the caller's object open *)
  Bool.eqb (s_lib_closed c) (lib_owned (s_kind c)) && negb (s_caller_closed c).

(* the property: the samples and the header of the file that starts where the object stands; the file the library
   opened itself is closed once the stream is exhausted (nothing is demanded about a caller-owned object) *)
Definition holds_wavsrc (c : scase) : bool :=
  match s_obs c with
  | WO outs => list_eqb wout_eqb outs (wav_spec (s_bits c) (s_keep c) (s_samples c)) &&
               forallb (fun o => match o with WFlt q => Qc_leb (qc (-1) 1) q && Qc_ltb q (qc 1 1) | WInt _ => true end) outs
  | WRaise _ => false
  end &&
  (let '(r, ch, b) := s_attrs c in Z.eqb r (s_rate c) && Z.eqb ch (Z.of_nat (s_channels c)) && Z.eqb b (s_bits c)) &&
  (if lib_owned (s_kind c) then s_lib_closed c else true).
