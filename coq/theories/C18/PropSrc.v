(* C18 - the wave_file argument as an object standing at the position where the wave data starts: statements
   (proofs in C18.Proofs_Src), each followed by its assumptions, then concrete evaluations. *)
From Coq Require Import List Bool ZArith QArith Qcanon String.
From AL Require Import Base.CaseLib C18.Model C18.Spec C18.Check C18.Proofs C18.Src C18.Proofs_Src.
Import ListNotations.
Open Scope Z_scope.

(* the header parser reads back what the header writer wrote, whatever follows the file *)
Theorem C18_parse_wav_file_bytes : forall (rate channels bits : Z) (raw suffix : list Z),
  0 <= rate < 2 ^ 32 -> 0 <= channels < 2 ^ 16 -> 0 <= bits < 2 ^ 16 -> Z.of_nat (List.length raw) < 2 ^ 32 ->
  parse_wav (wav_file_bytes rate channels bits raw ++ suffix) = Some (rate, channels, bits, raw).
Proof. exact parse_wav_file_bytes. Qed.
Print Assumptions C18_parse_wav_file_bytes.

(* An object holding prefix ++ file ++ suffix and standing after the prefix gives the header and the samples of
   THAT file, for every prefix (junk, another wave file) and suffix. *)
Theorem C18_src_model_from_position : forall (keep : bool) (prefix suffix : list Z) (rate bits : Z) (channels : nat)
                                             (raw : list Z),
  0 <= rate < 2 ^ 32 -> Z.of_nat channels < 2 ^ 16 -> 0 <= bits < 2 ^ 16 -> Z.of_nat (List.length raw) < 2 ^ 32 ->
  src_model keep (prefix ++ wav_file_bytes rate (Z.of_nat channels) bits raw ++ suffix) (List.length prefix) =
  Some (rate, Z.of_nat channels, bits, wav_model bits channels keep raw).
Proof. exact src_model_from_position. Qed.
Print Assumptions C18_src_model_from_position.

(* two files stored one after the other (8-bit mono 8000 Hz [1;2;3], 16-bit stereo 44100 Hz [-5;6]): standing after
   the first one the reader gives the second; from position 0 it gives the first *)
Example C18_ex_src_two_files :
  let f1 := wav_file_bytes 8000 1 8 [1; 2; 3] in
  let f2 := wav_file_bytes 44100 2 16 [251; 255; 6; 0] in
  src_model true (f1 ++ f2) (List.length f1) = Some (44100, 2, 16, [WInt (-5); WInt 6]) /\
  src_model true (f1 ++ f2) 0 = Some (8000, 1, 8, [WInt 1; WInt 2; WInt 3]) /\
  List.length f1 = 47%nat /\ src_model true (f1 ++ f2) 3 = None.
Proof. vm_compute. repeat split; reflexivity. Qed.
Print Assumptions C18_ex_src_two_files.

(* the checker rejects the first file's samples / header when the object stood at the second file *)
Example C18_ex_holds_wavsrc :
  let f1 := wav_file_bytes 8000 1 8 [1; 2; 3] in
  let f2 := wav_file_bytes 44100 2 16 [251; 255; 6; 0] in
  let c obs attrs := SC SBytesIO true (f1 ++ f2) 47 f1 44100 2 16 [-5; 6] [] obs attrs false false in
  holds_wavsrc (c (WO [WInt (-5); WInt 6]) (44100, 2, 16)) = true /\
  corr_wavsrc (c (WO [WInt (-5); WInt 6]) (44100, 2, 16)) = true /\
  holds_wavsrc (c (WO [WInt 1; WInt 2; WInt 3]) (8000, 1, 8)) = false /\
  holds_wavsrc (c (WRaise "UnsupportedOperation"%string) (0, 0, 0)) = false.
Proof. vm_compute. repeat split; reflexivity. Qed.
Print Assumptions C18_ex_holds_wavsrc.
