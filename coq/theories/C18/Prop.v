From AL Require Import C18.Model C18.Spec.
